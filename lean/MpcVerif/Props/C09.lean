/-
C09  Compiler options and targets never change a program's meaning.

FULL STATEMENT (not a Lean theorem: the MPCL front end and the circuit
builders are not modelled):
    ∀ program p, ∀ configurations k₁ k₂ ∈ {prune on/off} × {multiplier
    threshold} × {Yao, GMW}, ∀ input x,
      (compile p k₁).compute x = (compile p k₂).compute x.
On the current tree the only difference found between configurations is the
value of a division by ZERO under the two targets (`C09_target_equivalence_fails`
below), which is outside the defined meaning of a program.  Three divider
defects of the GMW target found by this check – undriven result wires,
operand-width panic, inexact quotient for non-zero divisors – were fixed in
/repo by 90ed06e, dcb521a and 776d360.

What is proved (level: translation validation):
* `C09_options_preserve_meaning_partial` / `C09_checker_sound`: the
  executable checker `checkRefines` is sound – whenever it accepts a pair of
  circuits (any circuits, in particular the real compiler's output before and
  after ConstPropagate / ShortCircuitXORZero / Prune / renumbering, which the
  check script feeds to it for every generated program) the two circuits
  compute the same outputs on EVERY input, and both are well-formed.
* `C09_perm_eval`, `C09_sort_topological`, `C09_levels`, `C09_levels_yao`,
  `C09_gmw_schedule`: reordering a single-assignment circuit by any
  topological order leaves evaluation unchanged; `Compile`'s stable sort by
  (breadth-first level, AND first), the stable sort by `AssignLevels` Yao
  levels, and the GMW evaluator's (AND-depth level, non-AND first) schedule
  are such orders.
* `C09_levels_bounded`, `C09_wrapped_levels_not_topological`,
  `C09_wrapped_levels_wrong_output`: the level theorems count in `Nat`, the
  code in a fixed-width field.  With a `k`-bit field the sort is the one of
  `C09_levels` as long as every level is below `2^k`; for every `k ≥ 1` the
  chain of depth `2^k + 1` is sorted into a non-topological order that
  computes a wrong value.  (The check generates programs whose circuits are
  deeper than `2^16` / `2^17` levels and runs `absRun` on the real compiled
  circuits.)
* `C09_constPropagate_preserves`, `C09_shortCircuit_preserves`,
  `C09_prune_preserves`, `C09_compile_preserves_partial`,
  `C09_pipeline_preserves`: direct models (`Model/Passes.lean`) of the four
  passes over the builder-level gate/wire graph, each proved to preserve the
  graph's input-to-output function on every input for every well-formed
  graph (hypotheses decided by proved linear-time checkers,
  `C09_wf_checkers_sound`).  Every model is tied to the real pass on every
  run (same post-pass graph, wire for wire).  Only `Compile`'s breadth-first
  numbering is validated per run instead of proved in general.
Not proved (tested by simulation in the check): equivalence across
multiplier thresholds and across targets.
-/
import MpcVerif.Proofs.Equiv
import MpcVerif.Proofs.Levels
import MpcVerif.Proofs.PassCP
import MpcVerif.Proofs.PassPrune
import MpcVerif.Proofs.PassSC
import MpcVerif.Proofs.PassCompile
import MpcVerif.Proofs.PassWF
import MpcVerif.Proofs.LevelsWrap

namespace Mpc

/-- Soundness of the translation-validation checker: an accepted pair of
circuits computes the same output bits on every input.  `witC`, `witC'` are
the untrusted witnesses (any arrays). -/
theorem C09_checker_sound (C C' : Circuit) (witC witC' : Array Nat)
    (h : checkRefines C C' witC witC' = true) : ∀ x, C'.compute x = C.compute x :=
  checkRefines_sound C C' witC witC' h

/-- An accepted pair consists of two well-formed circuits (the guard `WF` of
the garbling theorems of C01), so the all-input equivalence transfers to
garbled evaluation. -/
theorem C09_checker_wf (C C' : Circuit) (witC witC' : Array Nat)
    (h : checkRefines C C' witC witC' = true) : C.WF = true ∧ C'.WF = true :=
  checkRefines_wf C C' witC witC' h

/-- The part of the full statement carried by a theorem: for every pair of
circuits the checker accepts (run on every raw / prune-off / prune-on pair of
every generated program), all inputs give equal outputs. -/
theorem C09_options_preserve_meaning_partial (C C' : Circuit) (witC witC' : Array Nat)
    (h : checkRefines C C' witC witC' = true) :
    (∀ x, C'.compute x = C.compute x) ∧ C.WF = true ∧ C'.WF = true :=
  ⟨C09_checker_sound C C' witC witC' h, C09_checker_wf C C' witC witC' h⟩

/-- A successful abstract-interpretation pass certifies single assignment
and topological order (the hypothesis `SSA` of the theorems below is
decidable by running `absRun`). -/
theorem C09_absRun_ssa (c : Circuit) (wit : Array Nat) (hn : c.nIn ≤ c.numWires)
    (h : (c.absRun wit).isSome = true) : SSA c.numWires c.gates c.inputDefined := by
  simp only [Circuit.absRun] at h
  cases hr : passGates true c.gates.toArray #[] #[] wit c.gates 0 (initAbs c.numWires c.nIn)
      (initDef c.numWires c.nIn) with
  | none => rw [hr] at h; simp at h
  | some r =>
    obtain ⟨abs', d'⟩ := r
    exact (c.pass_facts true _ _ _ _ _ _ hn hr []).1

theorem compute_congr (c c' : Circuit) (x : List Bool) (hw : c'.numWires = c.numWires)
    (ho : c'.nOut = c.nOut) (h : ∀ w, (c'.plainEval x).get w = (c.plainEval x).get w) :
    c'.compute x = c.compute x := by
  simp only [Circuit.compute, Circuit.outputs, hw, ho]
  exact List.map_congr_left (fun i _ => h _)

/-- Reordering: two single-assignment arrangements of the same gates, both
topologically ordered, give every wire the same value on every input. -/
theorem C09_perm_eval (c : Circuit) (gs' : List Gate)
    (hssa : SSA c.numWires c.gates c.inputDefined) (hp : gs'.Perm c.gates)
    (hwf' : wfFrom c.numWires gs' c.inputDefined = true) (x : List Bool) :
    (∀ w, (({ c with gates := gs' } : Circuit).plainEval x).get w = (c.plainEval x).get w) ∧
    ({ c with gates := gs' } : Circuit).compute x = c.compute x := by
  have hw : ∀ w, (({ c with gates := gs' } : Circuit).plainEval x).get w = (c.plainEval x).get w := by
    intro w
    simp only [Circuit.plainEval]
    exact perm_eval c.numWires c.gates gs' c.inputDefined _ (by simp [initStore]) hssa hp hwf' w
  exact ⟨hw, compute_congr c _ x rfl rfl hw⟩

/-- Sorting theorem at circuit level: stable merge sort of the gates (with
attached levels) by any total preorder under which every producer is below
its consumers yields a single-assignment, topologically ordered circuit with
the same value on every wire. -/
theorem C09_sort_topological (c : Circuit) (l : List (Gate × Nat)) (le : Gate × Nat → Gate × Nat → Bool)
    (trans : ∀ a b c, le a b → le b c → le a c) (total : ∀ a b, le a b || le b a)
    (hmap : l.map Prod.fst = c.gates) (hssa : SSA c.numWires c.gates c.inputDefined)
    (hdep : ∀ h a, List.Sublist [h, a] l → h.1.out ∈ a.1.ins → le h a = true) (x : List Bool) :
    let c' : Circuit := { c with gates := (l.mergeSort le).map Prod.fst }
    SSA c'.numWires c'.gates c'.inputDefined ∧
    (∀ w, (c'.plainEval x).get w = (c.plainEval x).get w) ∧ c'.compute x = c.compute x := by
  intro c'
  have hssa' : SSA c.numWires (l.map Prod.fst) c.inputDefined := by rw [hmap]; exact hssa
  have hwf' := sort_topological Prod.fst c.numWires le trans total l c.inputDefined hssa' hdep
  have hp : ((l.mergeSort le).map Prod.fst).Perm c.gates := by
    rw [← hmap]; exact (List.mergeSort_perm l le).map _
  obtain ⟨hw, hc⟩ := C09_perm_eval c _ hssa hp hwf' x
  refine ⟨⟨hwf', ((hp.map _).nodup_iff).mpr hssa.2.1, fun g hg => hssa.2.2 g (hp.mem_iff.mp hg)⟩, hw, hc⟩

/-- `Compiler.Compile` (GMW target) sorts the assigned gates stably by
(Level, AND first).  If the levels are strict (every gate input is a circuit
input or produced by a gate of strictly smaller level – what `Gate.Visit` /
`Gate.Assign` guarantee and the harness re-checks on every compiled circuit)
the sorted circuit is single-assignment, topologically ordered and computes
the same value on every wire. -/
theorem C09_levels (c : Circuit) (lv : List Nat) (hssa : SSA c.numWires c.gates c.inputDefined)
    (hlen : c.gates.length ≤ lv.length) (hstrict : strictLevels c.nIn (c.gates.zip lv) = true)
    (x : List Bool) :
    let c' : Circuit := { c with gates := (compileSort (c.gates.zip lv)).map Prod.fst }
    SSA c'.numWires c'.gates c'.inputDefined ∧
    (∀ w, (c'.plainEval x).get w = (c.plainEval x).get w) ∧ c'.compute x = c.compute x := by
  have hmap : (c.gates.zip lv).map Prod.fst = c.gates := List.map_fst_zip hlen
  refine C09_sort_topological c (c.gates.zip lv) compileLe compileLe_trans compileLe_total hmap hssa ?_ x
  intro h a hsub hw
  have ha : a ∈ c.gates.zip lv := hsub.subset (by simp)
  have hh : h ∈ c.gates.zip lv := hsub.subset (by simp)
  simp only [strictLevels, List.all_eq_true, Bool.or_eq_true, decide_eq_true_eq, List.any_eq_true,
    Bool.and_eq_true, beq_iff_eq] at hstrict
  have hhg : h.1 ∈ c.gates := by rw [← hmap]; exact List.mem_map_of_mem hh
  rcases hstrict a ha _ hw with hin | ⟨h', hh', hout, hlt⟩
  · have := hssa.2.2 h.1 hhg
    simp only [Circuit.inputDefined, decide_eq_false_iff_not] at this
    exact absurd hin this
  · have hnd : ((c.gates.zip lv).map (fun p => p.1.out)).Nodup := by
      have := hssa.2.1
      rw [← hmap, List.map_map] at this
      exact this
    have : h' = h := eq_of_nodup_map _ _ hnd h' hh' h hh hout
    subst this
    rw [compileLe_iff]
    simp only [cKey]
    split <;> split <;> omega

/-! ### Where the level model meets the code: the width of the level field

`C09_levels` is about levels in `Nat`; `circuits.Gate.Level` is a fixed-width
Go integer that `Gate.Visit` fills with `level` (truncated to the field's
width if the field is narrower than `int`).  `compileSortW k` is the sort
with a `k`-bit field.  The side condition under which the theorem transfers
to the code is that no level reaches `2^k`; beyond it the statement is false
for every `k`.  The harness measures the largest level of every compiled
circuit (`max_compile_level_*`), generates programs whose circuits are deeper
than `2^16` / `2^17` levels (extreme-shape class), and re-checks strictness
and topological order on the real compiled circuit of each (`topo` ops, the
proved checker `absRun`). -/

/-- **No-overflow side condition.**  While every level fits the `k`-bit
field, `Compile`'s sort on the stored levels is the sort of `C09_levels`:
topological, same value on every wire. -/
theorem C09_levels_bounded (k : Nat) (c : Circuit) (lv : List Nat)
    (hssa : SSA c.numWires c.gates c.inputDefined) (hlen : c.gates.length ≤ lv.length)
    (hstrict : strictLevels c.nIn (c.gates.zip lv) = true) (hb : ∀ l ∈ lv, l < 2 ^ k) (x : List Bool) :
    let c' : Circuit := { c with gates := (compileSortW k (c.gates.zip lv)).map Prod.fst }
    SSA c'.numWires c'.gates c'.inputDefined ∧
    (∀ w, (c'.plainEval x).get w = (c.plainEval x).get w) ∧ c'.compute x = c.compute x := by
  have hid : wrapLv k (c.gates.zip lv) = c.gates.zip lv :=
    wrapLv_id k _ (fun p hp => hb p.2 (List.of_mem_zip (a := p.1) (b := p.2) hp).2)
  simp only [compileSortW, hid]
  exact C09_levels c lv hssa hlen hstrict x

/-- **Beyond the bound the sort is not topological** (a family of witnesses,
one for every field width `k ≥ 1`).  The chain of `2^k + 1` dependent gates
satisfies every hypothesis of `C09_levels` – single assignment, topological
order, strict levels `0 … 2^k` – but after `Compile`'s stable sort by the
levels a `k`-bit field stores, the gate of true level `2^k` (stored level 0)
stands before the gate that drives it: the sorted list is rejected by
`wfFrom` and by the checker `absRun`, i.e. the sequential evaluators
(`Circuit.Compute`, the GMW evaluator) read a wire that has not been
computed yet. -/
theorem C09_wrapped_levels_not_topological (k : Nat) (hk : 0 < k) :
    let c := invChain (2 ^ k + 1)
    let lv := List.range (2 ^ k + 1)
    let c' : Circuit := { c with gates := (compileSortW k (c.gates.zip lv)).map Prod.fst }
    SSA c.numWires c.gates c.inputDefined ∧ c.gates.length ≤ lv.length ∧
    strictLevels c.nIn (c.gates.zip lv) = true ∧
    wfFrom c'.numWires c'.gates c'.inputDefined = false ∧ (c'.absRun #[]).isSome = false := by
  intro c lv c'
  have hnwf := wrapped_sort_not_wf k hk
  refine ⟨invChain_ssa _, by simp [c, lv, invChain, invChainGates_length], invChain_strict _, hnwf, ?_⟩
  cases h : (c'.absRun #[]).isSome with
  | false => rfl
  | true =>
    have := (C09_absRun_ssa c' #[] (by simp [c', c, invChain]) h).1
    rw [show wfFrom c'.numWires c'.gates c'.inputDefined = false from hnwf] at this
    exact absurd this (by decide)

/-- … **and the value is wrong**: on that chain the sorted gate list makes the
sequential evaluator output `true` for both inputs, while the circuit
computes `¬ x` (an odd number of negations).  So for every field width
`k ≥ 1` there is a circuit and an input (`x = true`) on which `Compile`'s
sort with a `k`-bit level field changes the result – the GMW target, the only
one that sorts, would differ from the Yao target. -/
theorem C09_wrapped_levels_wrong_output (k : Nat) (hk : 0 < k) :
    let c := invChain (2 ^ k + 1)
    let c' : Circuit := { c with gates := (compileSortW k (c.gates.zip (List.range (2 ^ k + 1)))).map Prod.fst }
    c'.compute [true] = [true] ∧ c.compute [true] = [false] ∧ c'.compute [true] ≠ c.compute [true] := by
  intro c c'
  obtain ⟨h1, h2⟩ := wrapped_sort_wrong_output k hk true
  refine ⟨h1, h2, ?_⟩
  show c'.compute [true] ≠ c.compute [true]
  rw [show c'.compute [true] = [true] from h1, show c.compute [true] = [false] from h2]
  decide

/-- The driver evaluates circuits through an array-built initial store
(linear in the number of input bits); it is `Circuit.compute`. -/
theorem C09_computeArr_eq (c : Circuit) (x : List Bool) : c.computeArr x = c.compute x :=
  computeArr_eq c x

/-- Position form of the level property of `AssignLevels`: a consumer's level
is at least its producer's level plus 1 (Yao) resp. plus 1 for AND producers
(GMW, AND depth). -/
theorem C09_assignLevels_mono (c : Circuit) (gmw : Bool)
    (hssa : SSA c.numWires c.gates c.inputDefined) :
    ∀ pre a post, c.gates.zip (c.assignLevels gmw).1 = pre ++ a :: post →
    ∀ h ∈ pre, h.1.out ∈ a.1.ins → h.2 + bump gmw h.1 ≤ a.2 := by
  refine assignLevelsGo_mono gmw c.gates _ 0 hssa.2.1 (fun g hg => ?_)
  simp only [Array.size_replicate]
  exact (wf_bounds c.numWires c.gates _ hssa.1 g hg).2

/-- Sorting a single-assignment circuit stably by (`AssignLevels` Yao level,
AND first) is a topological reordering. -/
theorem C09_levels_yao (c : Circuit) (hssa : SSA c.numWires c.gates c.inputDefined) (x : List Bool) :
    let c' : Circuit :=
      { c with gates := (compileSort (c.gates.zip (c.assignLevels false).1)).map Prod.fst }
    SSA c'.numWires c'.gates c'.inputDefined ∧
    (∀ w, (c'.plainEval x).get w = (c.plainEval x).get w) ∧ c'.compute x = c.compute x := by
  have hlen : c.gates.length ≤ (c.assignLevels false).1.length := by
    simp [Circuit.assignLevels, assignLevelsGo_length]
  have hmap : (c.gates.zip (c.assignLevels false).1).map Prod.fst = c.gates := List.map_fst_zip hlen
  refine C09_sort_topological c _ compileLe compileLe_trans compileLe_total hmap hssa ?_ x
  intro h a hsub hw
  obtain ⟨pre, post, hl, hh⟩ := pair_sublist_decomp h a _ hsub
  have := C09_assignLevels_mono c false hssa pre a post hl h hh hw
  rw [compileLe_iff]
  simp only [cKey, bump] at this ⊢
  split <;> split <;> simp at this <;> omega

/-- The GMW evaluator (`gmw.Network.Run`) processes the gates level by level
of `AssignLevels(TargetGMW)` (AND depth), on each level first the non-AND
gates in circuit order and then the AND batch.  This schedule is a
topological reordering: every wire gets the value of in-order evaluation. -/
theorem C09_gmw_schedule (c : Circuit) (hssa : SSA c.numWires c.gates c.inputDefined) (x : List Bool) :
    let c' : Circuit :=
      { c with gates := (gmwSchedule (c.gates.zip (c.assignLevels true).1)).map Prod.fst }
    SSA c'.numWires c'.gates c'.inputDefined ∧
    (∀ w, (c'.plainEval x).get w = (c.plainEval x).get w) ∧ c'.compute x = c.compute x := by
  have hlen : c.gates.length ≤ (c.assignLevels true).1.length := by
    simp [Circuit.assignLevels, assignLevelsGo_length]
  have hmap : (c.gates.zip (c.assignLevels true).1).map Prod.fst = c.gates := List.map_fst_zip hlen
  refine C09_sort_topological c _ gmwLe gmwLe_trans gmwLe_total hmap hssa ?_ x
  intro h a hsub hw
  obtain ⟨pre, post, hl, hh⟩ := pair_sublist_decomp h a _ hsub
  have := C09_assignLevels_mono c true hssa pre a post hl h hh hw
  rw [gmwLe_iff]
  simp only [gKey, bump, if_true] at this ⊢
  by_cases h1 : h.1.op = .and <;> by_cases h2 : a.1.op = .and <;> simp [h1, h2] at this ⊢ <;> omega

/-! ### The optimisation passes themselves (model: `Model/Passes.lean`)

`Graph` is the builder-level gate/wire graph of `circuits.Compiler` between
the passes; `Graph.compute` is its input-to-output function (values of
`cc.OutputWires`).  The pass models are tied to the real passes on every run:
the Lean pass applied to the dumped pre-pass graph must reproduce the dumped
post-pass graph gate for gate and wire for wire (values, fan-out counters,
output lists), see `pass` ops of the driver. -/

/-- `Compiler.ConstPropagate` (all rules: SetValue for decided gates,
ShortCircuit aliasing for XOR/OR with Zero and AND with One, replacement of
constant inputs by the zero/one wire) preserves the function of every
well-formed graph, for every input; the result is well-formed again. -/
theorem C09_constPropagate_preserves (G G' : Graph) (h : G.WFcp) (hr : G.constPropagate = some G') :
    G'.GWF ∧ ∀ x, G'.compute x = G.compute x :=
  Graph.constPropagate_preserves G G' h hr

/-- `Compiler.Prune` (dead-gate removal driven by the fan-out counters,
cascading from the last gate to the first) preserves the function of every
well-formed graph whose counters are not below the real fan-out and whose
output wires are flagged; the invariant holds again afterwards. -/
theorem C09_prune_preserves (G G' : Graph) (h : G.PInv) (hr : G.prune = some G') :
    G'.PInv ∧ ∀ x, G'.compute x = G.compute x :=
  Graph.prune_preserves G G' h hr

/-- `Compiler.ShortCircuitXORZero` (a producer whose only user is an XOR
with a Zero wire writes the XOR's output wire directly; the XOR gets a fresh,
unused output wire; the fan-out guard `NumOutputs() == 1` and the stale
`Input()` pointers are modelled) preserves the function of every well-formed
graph, for every input. -/
theorem C09_shortCircuit_preserves (G : Graph) (h : G.SCInv 0) :
    G.shortCircuitXORZero.SCBase ∧ ∀ x, G.shortCircuitXORZero.compute x = G.compute x :=
  Graph.shortCircuitXORZero_preserves G h

/-- `Compiler.Compile` (breadth-first wire numbering from the inputs through
the wires' output lists, `Gate.Visit/Assign`, output wires numbered last, GMW
target: stable sort by (Level, AND first)).

FULL STATEMENT (not proved): `G.GWF → G.compile gmw = some C → ∀ x,
C.compute x = G.compute x`, which needs that the breadth-first numbering is
injective, reaches every gate with defined inputs, and emits producers before
consumers.  PROVED: the same conclusion for `compileChecked`, i.e. `compile`
followed by the executable validation `compileChecks` of exactly these facts
on the run at hand (ids inverted by `mkInv`, every emitted gate live with
numbered wires, compiled circuit single-assignment and topological by
`absRun`, outputs numbered last and driven).  The tie runs `compileChecked`
on every dumped graph and compares with the real compiled circuit, so a run
on which the validation failed would show up as a broken tie. -/
theorem C09_compile_preserves_partial (G : Graph) (gmw : Bool) (C : Circuit) (hwf : G.GWF)
    (hc : G.compileChecked gmw = some C) : ∀ x, C.compute x = G.compute x :=
  Graph.compileChecked_preserves G gmw C hwf hc

/-- The hypotheses of the four pass theorems are decided by the executable,
linear-time checkers of `Model/PassesWF.lean` (proved sound in
`Proofs/PassWF.lean`); the driver runs them on every dumped builder graph of
every program, so the theorems apply to the real pass inputs. -/
theorem C09_wf_checkers_sound (G : Graph) :
    (G.gwfCheck = true → G.GWF) ∧ (G.wfCPCheck = true → G.WFcp) ∧
    (G.wfSCCheck = true → G.SCInv 0) ∧ (G.wfPruneCheck = true → G.PInv) :=
  ⟨Graph.gwfCheck_sound G, Graph.wfCPCheck_sound G, Graph.wfSCCheck_sound G, Graph.wfPruneCheck_sound G⟩

/-- The whole pipeline of `ssa.Program.CompileCircuit` after circuit
construction: ConstPropagate → ShortCircuitXORZero → (Prune) → Compile.  If
the executable well-formedness checks pass at each stage (they are run per
program by the tie, together with the comparison of every stage with the real
code), the compiled circuit computes the function of the raw builder graph on
every input – with and without pruning, for both targets. -/
theorem C09_pipeline_preserves (G G1 G3 : Graph) (gmw : Bool) (Coff Con : Circuit)
    (h0 : G.wfCPCheck = true) (h1 : G.constPropagate = some G1)
    (h2 : G1.wfSCCheck = true)
    (h3 : G1.shortCircuitXORZero.wfPruneCheck = true)
    (hoff : G1.shortCircuitXORZero.compileChecked gmw = some Coff)
    (h4 : G1.shortCircuitXORZero.prune = some G3)
    (hon : G3.compileChecked gmw = some Con) :
    (∀ x, Coff.compute x = G.compute x) ∧ (∀ x, Con.compute x = G.compute x) ∧
    (∀ x, Con.compute x = Coff.compute x) := by
  obtain ⟨_, c1⟩ := C09_constPropagate_preserves G G1 (Graph.wfCPCheck_sound G h0) h1
  obtain ⟨b2, c2⟩ := C09_shortCircuit_preserves G1 (Graph.wfSCCheck_sound G1 h2)
  obtain ⟨p3, c3⟩ := C09_prune_preserves _ G3 (Graph.wfPruneCheck_sound _ h3) h4
  have coff := C09_compile_preserves_partial _ gmw Coff b2.wf hoff
  have con := C09_compile_preserves_partial G3 gmw Con p3.wf hon
  have e1 : ∀ x, Coff.compute x = G.compute x := fun x => by rw [coff x, c2 x, c1 x]
  have e2 : ∀ x, Con.compute x = G.compute x := fun x => by rw [con x, c3 x, c2 x, c1 x]
  exact ⟨e1, e2, fun x => by rw [e1 x, e2 x]⟩

/-! ### The target axis of the full statement is false on the pinned tree -/

/-- `func main(a, b uint2) uint2 { return a / b }` compiled by the real compiler (repo HEAD f07ee15) for the
Yao target, pruning on (restoring long divider).
line format: `25 4 2 i0.0.4;a0.4.5;x0.4.6;n1.5.7;n0.5.8;n2.7.9;a7.2.10;a8.2.11;x9.1.12;n5.10.13;x3.10.14;x3.11.15;a13.14.16;x16.10.17;a12.17.18;x17.6.24;x18.9.19;n19.11.20;a20.15.21;x21.11.22;x22.6.23` -/
def witnessYao : Circuit :=
  { numWires := 25, nIn := 4, nOut := 2,
    gates := [
      ⟨.inv, 0, 0, 4⟩, ⟨.and, 0, 4, 5⟩, ⟨.xor, 0, 4, 6⟩, ⟨.xnor, 1, 5, 7⟩, ⟨.xnor, 0, 5, 8⟩,
      ⟨.xnor, 2, 7, 9⟩, ⟨.and, 7, 2, 10⟩, ⟨.and, 8, 2, 11⟩, ⟨.xor, 9, 1, 12⟩, ⟨.xnor, 5, 10, 13⟩,
      ⟨.xor, 3, 10, 14⟩, ⟨.xor, 3, 11, 15⟩, ⟨.and, 13, 14, 16⟩, ⟨.xor, 16, 10, 17⟩, ⟨.and, 12, 17, 18⟩,
      ⟨.xor, 17, 6, 24⟩, ⟨.xor, 18, 9, 19⟩, ⟨.xnor, 19, 11, 20⟩, ⟨.and, 20, 15, 21⟩, ⟨.xor, 21, 11, 22⟩,
      ⟨.xor, 22, 6, 23⟩] }

/-- The same program compiled for the GMW target, pruning on (Goldschmidt divider).
line format: `118 4 2 i0.0.4;x1.0.5;x3.2.6;x0.4.7;x3.7.8;x2.7.9;x3.7.10;a2.8.11;a2.11.12;a6.11.13;a0.11.14;a5.11.15;a1.11.16;x12.2.17;x13.3.18;x14.0.19;x15.1.20;x17.7.21;x18.7.22;x21.7.23;x22.21.24;a18.23.25;a20.23.26;a16.23.27;a17.24.28;a18.24.29;a19.24.30;a20.24.31;a16.24.32;a28.25.34;a30.26.36;a32.32.38;x28.25.33;x30.26.35;x31.27.37;a37.27.41;a36.37.43;x33.7.39;x34.29.40;x36.37.42;x32.38.44;x39.7.45;x40.7.46;x27.41.47;a42.45.48;a32.47.51;x46.39.49;x47.32.50;a35.49.52;a42.49.53;a43.50.55;x43.50.54;x51.44.56;a52.48.57;a54.45.58;a54.49.59;x55.56.60;a60.45.62;x53.58.61;a61.58.63;a57.61.65;x57.61.64;x59.62.66;a64.2.68;a64.3.69;x58.63.67;x64.7.70;x64.7.71;x67.66.72;x68.7.73;x64.70.74;a0.73.77;x65.72.75;x0.73.76;a75.2.78;a75.3.79;x75.7.80;x75.64.81;x76.7.82;x77.76.83;a69.78.85;a82.9.89;x69.78.84;x80.64.86;x75.81.87;x82.9.88;x84.7.90;x85.79.91;x89.88.92;a1.90.94;x1.90.93;x91.7.95;a95.94.97;a95.93.98;x93.83.96;a96.10.100;a98.83.101;x96.10.99;a99.92.102;x97.101.103;x100.102.104;x7.103.105;x7.104.106;x106.7.107;a74.107.108;a87.107.109;x108.64.110;x109.75.111;x110.71.112;x111.86.113;a112.105.114;a113.105.115;x114.110.116;x115.111.117` -/
def witnessGmw : Circuit :=
  { numWires := 118, nIn := 4, nOut := 2,
    gates := [
      ⟨.inv, 0, 0, 4⟩, ⟨.xor, 1, 0, 5⟩, ⟨.xor, 3, 2, 6⟩, ⟨.xor, 0, 4, 7⟩, ⟨.xor, 3, 7, 8⟩,
      ⟨.xor, 2, 7, 9⟩, ⟨.xor, 3, 7, 10⟩, ⟨.and, 2, 8, 11⟩, ⟨.and, 2, 11, 12⟩, ⟨.and, 6, 11, 13⟩,
      ⟨.and, 0, 11, 14⟩, ⟨.and, 5, 11, 15⟩, ⟨.and, 1, 11, 16⟩, ⟨.xor, 12, 2, 17⟩, ⟨.xor, 13, 3, 18⟩,
      ⟨.xor, 14, 0, 19⟩, ⟨.xor, 15, 1, 20⟩, ⟨.xor, 17, 7, 21⟩, ⟨.xor, 18, 7, 22⟩, ⟨.xor, 21, 7, 23⟩,
      ⟨.xor, 22, 21, 24⟩, ⟨.and, 18, 23, 25⟩, ⟨.and, 20, 23, 26⟩, ⟨.and, 16, 23, 27⟩, ⟨.and, 17, 24, 28⟩,
      ⟨.and, 18, 24, 29⟩, ⟨.and, 19, 24, 30⟩, ⟨.and, 20, 24, 31⟩, ⟨.and, 16, 24, 32⟩, ⟨.and, 28, 25, 34⟩,
      ⟨.and, 30, 26, 36⟩, ⟨.and, 32, 32, 38⟩, ⟨.xor, 28, 25, 33⟩, ⟨.xor, 30, 26, 35⟩, ⟨.xor, 31, 27, 37⟩,
      ⟨.and, 37, 27, 41⟩, ⟨.and, 36, 37, 43⟩, ⟨.xor, 33, 7, 39⟩, ⟨.xor, 34, 29, 40⟩, ⟨.xor, 36, 37, 42⟩,
      ⟨.xor, 32, 38, 44⟩, ⟨.xor, 39, 7, 45⟩, ⟨.xor, 40, 7, 46⟩, ⟨.xor, 27, 41, 47⟩, ⟨.and, 42, 45, 48⟩,
      ⟨.and, 32, 47, 51⟩, ⟨.xor, 46, 39, 49⟩, ⟨.xor, 47, 32, 50⟩, ⟨.and, 35, 49, 52⟩, ⟨.and, 42, 49, 53⟩,
      ⟨.and, 43, 50, 55⟩, ⟨.xor, 43, 50, 54⟩, ⟨.xor, 51, 44, 56⟩, ⟨.and, 52, 48, 57⟩, ⟨.and, 54, 45, 58⟩,
      ⟨.and, 54, 49, 59⟩, ⟨.xor, 55, 56, 60⟩, ⟨.and, 60, 45, 62⟩, ⟨.xor, 53, 58, 61⟩, ⟨.and, 61, 58, 63⟩,
      ⟨.and, 57, 61, 65⟩, ⟨.xor, 57, 61, 64⟩, ⟨.xor, 59, 62, 66⟩, ⟨.and, 64, 2, 68⟩, ⟨.and, 64, 3, 69⟩,
      ⟨.xor, 58, 63, 67⟩, ⟨.xor, 64, 7, 70⟩, ⟨.xor, 64, 7, 71⟩, ⟨.xor, 67, 66, 72⟩, ⟨.xor, 68, 7, 73⟩,
      ⟨.xor, 64, 70, 74⟩, ⟨.and, 0, 73, 77⟩, ⟨.xor, 65, 72, 75⟩, ⟨.xor, 0, 73, 76⟩, ⟨.and, 75, 2, 78⟩,
      ⟨.and, 75, 3, 79⟩, ⟨.xor, 75, 7, 80⟩, ⟨.xor, 75, 64, 81⟩, ⟨.xor, 76, 7, 82⟩, ⟨.xor, 77, 76, 83⟩,
      ⟨.and, 69, 78, 85⟩, ⟨.and, 82, 9, 89⟩, ⟨.xor, 69, 78, 84⟩, ⟨.xor, 80, 64, 86⟩, ⟨.xor, 75, 81, 87⟩,
      ⟨.xor, 82, 9, 88⟩, ⟨.xor, 84, 7, 90⟩, ⟨.xor, 85, 79, 91⟩, ⟨.xor, 89, 88, 92⟩, ⟨.and, 1, 90, 94⟩,
      ⟨.xor, 1, 90, 93⟩, ⟨.xor, 91, 7, 95⟩, ⟨.and, 95, 94, 97⟩, ⟨.and, 95, 93, 98⟩, ⟨.xor, 93, 83, 96⟩,
      ⟨.and, 96, 10, 100⟩, ⟨.and, 98, 83, 101⟩, ⟨.xor, 96, 10, 99⟩, ⟨.and, 99, 92, 102⟩, ⟨.xor, 97, 101, 103⟩,
      ⟨.xor, 100, 102, 104⟩, ⟨.xor, 7, 103, 105⟩, ⟨.xor, 7, 104, 106⟩, ⟨.xor, 106, 7, 107⟩, ⟨.and, 74, 107, 108⟩,
      ⟨.and, 87, 107, 109⟩, ⟨.xor, 108, 64, 110⟩, ⟨.xor, 109, 75, 111⟩, ⟨.xor, 110, 71, 112⟩, ⟨.xor, 111, 86, 113⟩,
      ⟨.and, 112, 105, 114⟩, ⟨.and, 113, 105, 115⟩, ⟨.xor, 114, 110, 116⟩, ⟨.xor, 115, 111, 117⟩] }

/-- **Division by zero is the one remaining difference between the targets.**
The two circuits above, both produced by the real compiler from
`func main(a, b uint2) uint2 { return a / b }`, differ on a = 0, b = 0 (Yao
long divider: all ones = 3, GMW Goldschmidt divider: 1).  The statement of C09
quantifies over every input of the compiled circuit, so read literally this is
a counterexample; but `a / 0` has no defined meaning in MPCL (Go panics), so
no *meaning* of a program changes.  It is kept as a narrow known finding
(`C09-division-by-zero-differs-across-targets`, matched only when the
harness's divisor probe shows a zero divisor on every differing input).  The
harness re-derives both circuits on every run (fixed corpus program `udiv2`)
and replays the input on `circuit.Circuit.Compute`.

History: before 776d360 the GMW divider was also inexact for non-zero
divisors (`uint7` 127/13 = 11 rem 112); that is fixed – the executed check
`fixed:udiv7|witness/127-13` now shows equal results and the uint7 probe
counts 0 wrong pairs with b ≠ 0 – as are the undriven result wires (90ed06e)
and the operand-width panic (dcb521a). -/
theorem C09_target_equivalence_fails :
    witnessYao.compute [false, false, false, false] ≠ witnessGmw.compute [false, false, false, false] := by
  decide +kernel

/-! ### Non-vacuity -/

/-- A raw circuit in the style of `Compiler.ZeroWire/OneWire/ID`: wire 3 is
`x0 ∧ ¬x0 = 0`, wire 4 is `x0 ⊕ ¬x0 = 1`, a dead gate (wire 7), a duplicate
AND (wires 5, 6), an XOR with zero (wire 8) and an AND with one (wire 9). -/
def exRaw : Circuit :=
  { numWires := 11, nIn := 2, nOut := 1,
    gates := [⟨.inv, 0, 0, 2⟩, ⟨.and, 0, 2, 3⟩, ⟨.xor, 0, 2, 4⟩, ⟨.and, 0, 1, 5⟩, ⟨.and, 1, 0, 6⟩,
              ⟨.or, 5, 1, 7⟩, ⟨.xor, 6, 3, 8⟩, ⟨.and, 8, 4, 9⟩, ⟨.xor, 9, 3, 10⟩] }

/-- The same function after constant propagation, short-circuiting, pruning
and renumbering: a single AND (plus the ID gate of the output). -/
def exOpt : Circuit :=
  { numWires := 6, nIn := 2, nOut := 1,
    gates := [⟨.inv, 0, 0, 2⟩, ⟨.and, 0, 2, 3⟩, ⟨.and, 0, 1, 4⟩, ⟨.xor, 4, 3, 5⟩] }

example : checkRefines exRaw exOpt #[0, 0, 0, 0, 4, 0, 0, 0, 0] #[0, 0, 4, 0] = true := by decide +kernel
example : exOpt.compute [true, true] = exRaw.compute [true, true] :=
  C09_checker_sound exRaw exOpt #[0, 0, 0, 0, 4, 0, 0, 0, 0] #[0, 0, 4, 0] (by decide +kernel) _
example : exRaw.compute [true, true] = [true] := by decide +kernel
/-- the checker is not vacuous in the other direction: it rejects a wrong
"optimisation" (AND replaced by OR). -/
example : checkRefines exRaw { exOpt with gates := [⟨.inv, 0, 0, 2⟩, ⟨.and, 0, 2, 3⟩, ⟨.or, 0, 1, 4⟩,
    ⟨.xor, 4, 3, 5⟩] } #[0, 0, 0, 0, 4, 0, 0, 0, 0] #[0, 0, 4, 0] = false := by decide +kernel
example : (exRaw.absRun #[]).isSome = true := by decide +kernel
example : SSA exRaw.numWires exRaw.gates exRaw.inputDefined :=
  C09_absRun_ssa exRaw #[] (by decide) (by decide +kernel)

/-- A raw builder graph as `CompileCircuit` produces it for
`func main(a, b uint1) uint1 { return (b ^ 0) & 1 ^ 0 }`-like code: the three
constant gates, `v = XOR(b, zero)` (an ID gate), `u = AND(v, one)`,
`out = XOR(u, zero)` (the `Ret` ID gate), with the bookkeeping of the Go
allocator (fan-out counters, output lists, input gates, value annotations). -/
def exGraph : Graph :=
  { nIn := 2, zero := 3, one := 4, outputs := [7],
    wires := #[
      { numOut := 3, outs := #[0, 1, 2] },
      { numOut := 1, outs := #[3] },
      { numOut := 2, input := some 0, outs := #[1, 2] },
      { value := .zero, numOut := 2, input := some 1, outs := #[3, 5] },
      { value := .one, numOut := 1, input := some 2, outs := #[4] },
      { numOut := 1, input := some 3, outs := #[4] },
      { numOut := 1, input := some 4, outs := #[5] },
      { isOut := true, input := some 5 }],
    gates := #[⟨.inv, 0, 0, 2, false⟩, ⟨.and, 0, 2, 3, false⟩, ⟨.xor, 0, 2, 4, false⟩,
               ⟨.xor, 1, 3, 5, false⟩, ⟨.and, 5, 4, 6, false⟩, ⟨.xor, 6, 3, 7, false⟩] }

/-- every stage of the pipeline on `exGraph`: hypotheses hold, passes succeed -/
def exPipelineOk : Bool :=
  exGraph.wfCPCheck &&
  match exGraph.constPropagate with
  | none => false
  | some G1 =>
    G1.wfSCCheck && G1.shortCircuitXORZero.wfPruneCheck &&
    (G1.shortCircuitXORZero.compileChecked false).isSome &&
    match G1.shortCircuitXORZero.prune with
    | none => false
    | some G3 => G3.gwfCheck && (G3.compileChecked false).isSome &&
        -- the passes did something: AND with One aliased, two XOR-zero short-circuits, dead gates pruned
        decide (((G3.gates.toList.filter fun g => !g.dead).length) < exGraph.gates.size)

example : exPipelineOk = true := by decide +kernel
example : exGraph.compute [false, true] = [true] := by decide +kernel

/-- levels as `Gate.Visit` would assign them (breadth first) -/
def exLevels : List Nat := [0, 1, 1, 0, 0, 1, 2, 3, 4]
example : strictLevels exRaw.nIn (exRaw.gates.zip exLevels) = true := by decide +kernel
example : exRaw.gates.length ≤ exLevels.length := by decide
/-- `AssignLevels(TargetGMW)`: AND depth; `AssignLevels(TargetYao)`: depth. -/
example : (exRaw.assignLevels true).1 = [0, 0, 0, 0, 0, 1, 1, 1, 2] := by decide +kernel
example : (exRaw.assignLevels false).1 = [0, 1, 1, 0, 0, 1, 2, 3, 4] := by decide +kernel
/-- (that the two sorts really permute this circuit – three AND gates move
to the front of level 0 under `compileSort`, behind the XORs under
`gmwSchedule` – is shown by the executed driver: `List.mergeSort` is defined
by well-founded recursion and does not reduce in the kernel) -/
example : compileLe (⟨.and, 0, 1, 5⟩, 0) (⟨.inv, 0, 0, 2⟩, 0) = true ∧
    gmwLe (⟨.and, 0, 1, 5⟩, 0) (⟨.inv, 0, 0, 2⟩, 0) = false := by decide
example : witnessYao.WF = true ∧ witnessGmw.WF = true := by decide +kernel

/-- `C09_levels_bounded` is not vacuous: `exRaw` with `exLevels` (all below `2^3`). -/
example : ∀ l ∈ exLevels, l < 2 ^ 3 := by decide
example (x : List Bool) :=
  C09_levels_bounded 3 exRaw exLevels (C09_absRun_ssa exRaw #[] (by decide) (by decide +kernel)) (by decide)
    (by decide +kernel) (by decide) x
/-- `C09_wrapped_levels_not_topological` at `k = 1`: the chain of 3 gates, levels 0, 1, 2 stored as
0, 1, 0 in a 1-bit field (the hypothesis `0 < k` is needed: with `k = 0` all stored levels are equal and
the stable sort keeps the order). -/
example := C09_wrapped_levels_not_topological 1 (by decide)
example := C09_wrapped_levels_wrong_output 16 (by decide)
example : (invChain 3).compute [true] = [false] := by decide +kernel
example : (invChain 3).gates.zip (List.range 3) =
    [(⟨.inv, 0, 0, 1⟩, 0), (⟨.inv, 1, 1, 2⟩, 1), (⟨.inv, 2, 2, 3⟩, 2)] := by decide
/-- the order the 1-bit field produces (gate 2 ahead of gate 1) gives the wrong value: `¬¬¬true = true` -/
example : ({ invChain 3 with gates := [⟨.inv, 0, 0, 1⟩, ⟨.inv, 2, 2, 3⟩, ⟨.inv, 1, 1, 2⟩] } : Circuit).compute [true]
    = [true] := by decide +kernel
example : (invChain 5).computeArr [true] = (invChain 5).compute [true] := C09_computeArr_eq _ _

end Mpc

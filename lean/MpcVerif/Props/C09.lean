/-
C09  Compiler options and targets never change a program's meaning.

FULL STATEMENT (not a Lean theorem: the MPCL front end and the circuit
builders are not modelled):
    ∀ program p, ∀ configurations k₁ k₂ ∈ {prune on/off} × {multiplier
    threshold} × {Yao, GMW}, ∀ input x,
      (compile p k₁).compute x = (compile p k₂).compute x.
It is FALSE on the pinned tree for the target axis (`C09_target_equivalence_fails`
below; the GMW-target dividers differ from the Yao-target ones).

What is proved (level: translation validation):
* `C09_options_preserve_meaning_partial` / `C09_checker_sound`: the
  executable checker `checkRefines` is sound – whenever it accepts a pair of
  circuits (any circuits, in particular the real compiler's output before and
  after ConstPropagate / ShortCircuitXORZero / Prune / renumbering, which the
  check script feeds to it for every generated program) the two circuits
  compute the same outputs on EVERY input, and both are well-formed.
* `C09_perm_eval`, `C09_sort_topological`, `C09_levels`, `C09_levels_yao`,
  `C09_gmw_schedule`: reordering a single-assignment circuit by any
  topological order leaves evaluation unchanged; `Compile`'s stable sort by
  (breadth-first level, AND first), the stable sort by `AssignLevels` Yao
  levels, and the GMW evaluator's (AND-depth level, non-AND first) schedule
  are such orders.
Not proved (tested by simulation in the check): equivalence across
multiplier thresholds and across targets.
-/
import MpcVerif.Proofs.Equiv
import MpcVerif.Proofs.Levels

namespace Mpc

/-- Soundness of the translation-validation checker: an accepted pair of
circuits computes the same output bits on every input.  `witC`, `witC'` are
the untrusted witnesses (any arrays). -/
theorem C09_checker_sound (C C' : Circuit) (witC witC' : Array Nat)
    (h : checkRefines C C' witC witC' = true) : ∀ x, C'.compute x = C.compute x :=
  checkRefines_sound C C' witC witC' h

/-- An accepted pair consists of two well-formed circuits (the guard `WF` of
the garbling theorems of C01), so the all-input equivalence transfers to
garbled evaluation. -/
theorem C09_checker_wf (C C' : Circuit) (witC witC' : Array Nat)
    (h : checkRefines C C' witC witC' = true) : C.WF = true ∧ C'.WF = true :=
  checkRefines_wf C C' witC witC' h

/-- The part of the full statement carried by a theorem: for every pair of
circuits the checker accepts (run on every raw / prune-off / prune-on pair of
every generated program), all inputs give equal outputs. -/
theorem C09_options_preserve_meaning_partial (C C' : Circuit) (witC witC' : Array Nat)
    (h : checkRefines C C' witC witC' = true) :
    (∀ x, C'.compute x = C.compute x) ∧ C.WF = true ∧ C'.WF = true :=
  ⟨C09_checker_sound C C' witC witC' h, C09_checker_wf C C' witC witC' h⟩

/-- A successful abstract-interpretation pass certifies single assignment
and topological order (the hypothesis `SSA` of the theorems below is
decidable by running `absRun`). -/
theorem C09_absRun_ssa (c : Circuit) (wit : Array Nat) (hn : c.nIn ≤ c.numWires)
    (h : (c.absRun wit).isSome = true) : SSA c.numWires c.gates c.inputDefined := by
  simp only [Circuit.absRun] at h
  cases hr : passGates true c.gates.toArray #[] #[] wit c.gates 0 (initAbs c.numWires c.nIn)
      (initDef c.numWires c.nIn) with
  | none => rw [hr] at h; simp at h
  | some r =>
    obtain ⟨abs', d'⟩ := r
    exact (c.pass_facts true _ _ _ _ _ _ hn hr []).1

theorem compute_congr (c c' : Circuit) (x : List Bool) (hw : c'.numWires = c.numWires)
    (ho : c'.nOut = c.nOut) (h : ∀ w, (c'.plainEval x).get w = (c.plainEval x).get w) :
    c'.compute x = c.compute x := by
  simp only [Circuit.compute, Circuit.outputs, hw, ho]
  exact List.map_congr_left (fun i _ => h _)

/-- Reordering: two single-assignment arrangements of the same gates, both
topologically ordered, give every wire the same value on every input. -/
theorem C09_perm_eval (c : Circuit) (gs' : List Gate)
    (hssa : SSA c.numWires c.gates c.inputDefined) (hp : gs'.Perm c.gates)
    (hwf' : wfFrom c.numWires gs' c.inputDefined = true) (x : List Bool) :
    (∀ w, (({ c with gates := gs' } : Circuit).plainEval x).get w = (c.plainEval x).get w) ∧
    ({ c with gates := gs' } : Circuit).compute x = c.compute x := by
  have hw : ∀ w, (({ c with gates := gs' } : Circuit).plainEval x).get w = (c.plainEval x).get w := by
    intro w
    simp only [Circuit.plainEval]
    exact perm_eval c.numWires c.gates gs' c.inputDefined _ (by simp [initStore]) hssa hp hwf' w
  exact ⟨hw, compute_congr c _ x rfl rfl hw⟩

/-- Sorting theorem at circuit level: stable merge sort of the gates (with
attached levels) by any total preorder under which every producer is below
its consumers yields a single-assignment, topologically ordered circuit with
the same value on every wire. -/
theorem C09_sort_topological (c : Circuit) (l : List (Gate × Nat)) (le : Gate × Nat → Gate × Nat → Bool)
    (trans : ∀ a b c, le a b → le b c → le a c) (total : ∀ a b, le a b || le b a)
    (hmap : l.map Prod.fst = c.gates) (hssa : SSA c.numWires c.gates c.inputDefined)
    (hdep : ∀ h a, List.Sublist [h, a] l → h.1.out ∈ a.1.ins → le h a = true) (x : List Bool) :
    let c' : Circuit := { c with gates := (l.mergeSort le).map Prod.fst }
    SSA c'.numWires c'.gates c'.inputDefined ∧
    (∀ w, (c'.plainEval x).get w = (c.plainEval x).get w) ∧ c'.compute x = c.compute x := by
  intro c'
  have hssa' : SSA c.numWires (l.map Prod.fst) c.inputDefined := by rw [hmap]; exact hssa
  have hwf' := sort_topological Prod.fst c.numWires le trans total l c.inputDefined hssa' hdep
  have hp : ((l.mergeSort le).map Prod.fst).Perm c.gates := by
    rw [← hmap]; exact (List.mergeSort_perm l le).map _
  obtain ⟨hw, hc⟩ := C09_perm_eval c _ hssa hp hwf' x
  refine ⟨⟨hwf', ((hp.map _).nodup_iff).mpr hssa.2.1, fun g hg => hssa.2.2 g (hp.mem_iff.mp hg)⟩, hw, hc⟩

/-- `Compiler.Compile` (GMW target) sorts the assigned gates stably by
(Level, AND first).  If the levels are strict (every gate input is a circuit
input or produced by a gate of strictly smaller level – what `Gate.Visit` /
`Gate.Assign` guarantee and the harness re-checks on every compiled circuit)
the sorted circuit is single-assignment, topologically ordered and computes
the same value on every wire. -/
theorem C09_levels (c : Circuit) (lv : List Nat) (hssa : SSA c.numWires c.gates c.inputDefined)
    (hlen : c.gates.length ≤ lv.length) (hstrict : strictLevels c.nIn (c.gates.zip lv) = true)
    (x : List Bool) :
    let c' : Circuit := { c with gates := (compileSort (c.gates.zip lv)).map Prod.fst }
    SSA c'.numWires c'.gates c'.inputDefined ∧
    (∀ w, (c'.plainEval x).get w = (c.plainEval x).get w) ∧ c'.compute x = c.compute x := by
  have hmap : (c.gates.zip lv).map Prod.fst = c.gates := List.map_fst_zip hlen
  refine C09_sort_topological c (c.gates.zip lv) compileLe compileLe_trans compileLe_total hmap hssa ?_ x
  intro h a hsub hw
  have ha : a ∈ c.gates.zip lv := hsub.subset (by simp)
  have hh : h ∈ c.gates.zip lv := hsub.subset (by simp)
  simp only [strictLevels, List.all_eq_true, Bool.or_eq_true, decide_eq_true_eq, List.any_eq_true,
    Bool.and_eq_true, beq_iff_eq] at hstrict
  have hhg : h.1 ∈ c.gates := by rw [← hmap]; exact List.mem_map_of_mem hh
  rcases hstrict a ha _ hw with hin | ⟨h', hh', hout, hlt⟩
  · have := hssa.2.2 h.1 hhg
    simp only [Circuit.inputDefined, decide_eq_false_iff_not] at this
    exact absurd hin this
  · have hnd : ((c.gates.zip lv).map (fun p => p.1.out)).Nodup := by
      have := hssa.2.1
      rw [← hmap, List.map_map] at this
      exact this
    have : h' = h := eq_of_nodup_map _ _ hnd h' hh' h hh hout
    subst this
    rw [compileLe_iff]
    simp only [cKey]
    split <;> split <;> omega

/-- Position form of the level property of `AssignLevels`: a consumer's level
is at least its producer's level plus 1 (Yao) resp. plus 1 for AND producers
(GMW, AND depth). -/
theorem C09_assignLevels_mono (c : Circuit) (gmw : Bool)
    (hssa : SSA c.numWires c.gates c.inputDefined) :
    ∀ pre a post, c.gates.zip (c.assignLevels gmw).1 = pre ++ a :: post →
    ∀ h ∈ pre, h.1.out ∈ a.1.ins → h.2 + bump gmw h.1 ≤ a.2 := by
  refine assignLevelsGo_mono gmw c.gates _ 0 hssa.2.1 (fun g hg => ?_)
  simp only [Array.size_replicate]
  exact (wf_bounds c.numWires c.gates _ hssa.1 g hg).2

/-- Sorting a single-assignment circuit stably by (`AssignLevels` Yao level,
AND first) is a topological reordering. -/
theorem C09_levels_yao (c : Circuit) (hssa : SSA c.numWires c.gates c.inputDefined) (x : List Bool) :
    let c' : Circuit :=
      { c with gates := (compileSort (c.gates.zip (c.assignLevels false).1)).map Prod.fst }
    SSA c'.numWires c'.gates c'.inputDefined ∧
    (∀ w, (c'.plainEval x).get w = (c.plainEval x).get w) ∧ c'.compute x = c.compute x := by
  have hlen : c.gates.length ≤ (c.assignLevels false).1.length := by
    simp [Circuit.assignLevels, assignLevelsGo_length]
  have hmap : (c.gates.zip (c.assignLevels false).1).map Prod.fst = c.gates := List.map_fst_zip hlen
  refine C09_sort_topological c _ compileLe compileLe_trans compileLe_total hmap hssa ?_ x
  intro h a hsub hw
  obtain ⟨pre, post, hl, hh⟩ := pair_sublist_decomp h a _ hsub
  have := C09_assignLevels_mono c false hssa pre a post hl h hh hw
  rw [compileLe_iff]
  simp only [cKey, bump] at this ⊢
  split <;> split <;> simp at this <;> omega

/-- The GMW evaluator (`gmw.Network.Run`) processes the gates level by level
of `AssignLevels(TargetGMW)` (AND depth), on each level first the non-AND
gates in circuit order and then the AND batch.  This schedule is a
topological reordering: every wire gets the value of in-order evaluation. -/
theorem C09_gmw_schedule (c : Circuit) (hssa : SSA c.numWires c.gates c.inputDefined) (x : List Bool) :
    let c' : Circuit :=
      { c with gates := (gmwSchedule (c.gates.zip (c.assignLevels true).1)).map Prod.fst }
    SSA c'.numWires c'.gates c'.inputDefined ∧
    (∀ w, (c'.plainEval x).get w = (c.plainEval x).get w) ∧ c'.compute x = c.compute x := by
  have hlen : c.gates.length ≤ (c.assignLevels true).1.length := by
    simp [Circuit.assignLevels, assignLevelsGo_length]
  have hmap : (c.gates.zip (c.assignLevels true).1).map Prod.fst = c.gates := List.map_fst_zip hlen
  refine C09_sort_topological c _ gmwLe gmwLe_trans gmwLe_total hmap hssa ?_ x
  intro h a hsub hw
  obtain ⟨pre, post, hl, hh⟩ := pair_sublist_decomp h a _ hsub
  have := C09_assignLevels_mono c true hssa pre a post hl h hh hw
  rw [gmwLe_iff]
  simp only [gKey, bump, if_true] at this ⊢
  by_cases h1 : h.1.op = .and <;> by_cases h2 : a.1.op = .and <;> simp [h1, h2] at this ⊢ <;> omega

/-! ### The target axis of the full statement is false on the pinned tree -/

/-- `func main(a, b int2) int2 { return a / int3(1) }` compiled by the real compiler for the Yao target, pruning on.
line format: `32 4 2 i0.0.4;a0.4.5;x0.4.6;n1.5.7;n0.5.8;n6.7.9;n5.7.10;x9.1.11;n5.10.12;a10.7.13;x13.7.14;n5.14.15;a15.14.16;x16.14.17;a11.17.18;a12.17.19;x17.6.20;x18.9.21;x19.12.22;x20.5.31;n21.8.23;a23.8.24;x24.8.25;n22.25.26;a26.25.27;x27.25.28;x28.6.29;x29.5.30` -/
def witnessYao : Circuit :=
  { numWires := 32, nIn := 4, nOut := 2,
    gates := [
      ⟨.inv, 0, 0, 4⟩, ⟨.and, 0, 4, 5⟩, ⟨.xor, 0, 4, 6⟩, ⟨.xnor, 1, 5, 7⟩, ⟨.xnor, 0, 5, 8⟩,
      ⟨.xnor, 6, 7, 9⟩, ⟨.xnor, 5, 7, 10⟩, ⟨.xor, 9, 1, 11⟩, ⟨.xnor, 5, 10, 12⟩, ⟨.and, 10, 7, 13⟩,
      ⟨.xor, 13, 7, 14⟩, ⟨.xnor, 5, 14, 15⟩, ⟨.and, 15, 14, 16⟩, ⟨.xor, 16, 14, 17⟩, ⟨.and, 11, 17, 18⟩,
      ⟨.and, 12, 17, 19⟩, ⟨.xor, 17, 6, 20⟩, ⟨.xor, 18, 9, 21⟩, ⟨.xor, 19, 12, 22⟩, ⟨.xor, 20, 5, 31⟩,
      ⟨.xnor, 21, 8, 23⟩, ⟨.and, 23, 8, 24⟩, ⟨.xor, 24, 8, 25⟩, ⟨.xnor, 22, 25, 26⟩, ⟨.and, 26, 25, 27⟩,
      ⟨.xor, 27, 25, 28⟩, ⟨.xor, 28, 6, 29⟩, ⟨.xor, 29, 5, 30⟩] }

/-- The same program compiled for the GMW target, pruning on: the divider's result wires are never driven, the two output wires have no producer.
line format: `8 4 2 i0.0.4;a0.4.5` -/
def witnessGmw : Circuit :=
  { numWires := 8, nIn := 4, nOut := 2,
    gates := [
      ⟨.inv, 0, 0, 4⟩, ⟨.and, 0, 4, 5⟩] }
/-- **Negation witness** for "Yao and GMW targets give the same function":
the two circuits above, both produced by the real compiler from
`func main(a, b int2) int2 { return a / int3(1) }`, differ on a = 1
(Yao: 1/1 = 1, GMW: 0).  The harness re-derives both circuits on every run
(fixed corpus program `sdiv-const-narrow`) and replays the input on
`circuit.Circuit.Compute`. -/
theorem C09_target_equivalence_fails :
    witnessYao.compute [true, false, false, false] ≠ witnessGmw.compute [true, false, false, false] := by
  decide +kernel

/-! ### Non-vacuity -/

/-- A raw circuit in the style of `Compiler.ZeroWire/OneWire/ID`: wire 3 is
`x0 ∧ ¬x0 = 0`, wire 4 is `x0 ⊕ ¬x0 = 1`, a dead gate (wire 7), a duplicate
AND (wires 5, 6), an XOR with zero (wire 8) and an AND with one (wire 9). -/
def exRaw : Circuit :=
  { numWires := 11, nIn := 2, nOut := 1,
    gates := [⟨.inv, 0, 0, 2⟩, ⟨.and, 0, 2, 3⟩, ⟨.xor, 0, 2, 4⟩, ⟨.and, 0, 1, 5⟩, ⟨.and, 1, 0, 6⟩,
              ⟨.or, 5, 1, 7⟩, ⟨.xor, 6, 3, 8⟩, ⟨.and, 8, 4, 9⟩, ⟨.xor, 9, 3, 10⟩] }

/-- The same function after constant propagation, short-circuiting, pruning
and renumbering: a single AND (plus the ID gate of the output). -/
def exOpt : Circuit :=
  { numWires := 6, nIn := 2, nOut := 1,
    gates := [⟨.inv, 0, 0, 2⟩, ⟨.and, 0, 2, 3⟩, ⟨.and, 0, 1, 4⟩, ⟨.xor, 4, 3, 5⟩] }

example : checkRefines exRaw exOpt #[0, 0, 0, 0, 4, 0, 0, 0, 0] #[0, 0, 4, 0] = true := by decide +kernel
example : exOpt.compute [true, true] = exRaw.compute [true, true] :=
  C09_checker_sound exRaw exOpt #[0, 0, 0, 0, 4, 0, 0, 0, 0] #[0, 0, 4, 0] (by decide +kernel) _
example : exRaw.compute [true, true] = [true] := by decide +kernel
/-- the checker is not vacuous in the other direction: it rejects a wrong
"optimisation" (AND replaced by OR). -/
example : checkRefines exRaw { exOpt with gates := [⟨.inv, 0, 0, 2⟩, ⟨.and, 0, 2, 3⟩, ⟨.or, 0, 1, 4⟩,
    ⟨.xor, 4, 3, 5⟩] } #[0, 0, 0, 0, 4, 0, 0, 0, 0] #[0, 0, 4, 0] = false := by decide +kernel
example : (exRaw.absRun #[]).isSome = true := by decide +kernel
example : SSA exRaw.numWires exRaw.gates exRaw.inputDefined :=
  C09_absRun_ssa exRaw #[] (by decide) (by decide +kernel)

/-- levels as `Gate.Visit` would assign them (breadth first) -/
def exLevels : List Nat := [0, 1, 1, 0, 0, 1, 2, 3, 4]
example : strictLevels exRaw.nIn (exRaw.gates.zip exLevels) = true := by decide +kernel
example : exRaw.gates.length ≤ exLevels.length := by decide
/-- `AssignLevels(TargetGMW)`: AND depth; `AssignLevels(TargetYao)`: depth. -/
example : (exRaw.assignLevels true).1 = [0, 0, 0, 0, 0, 1, 1, 1, 2] := by decide +kernel
example : (exRaw.assignLevels false).1 = [0, 1, 1, 0, 0, 1, 2, 3, 4] := by decide +kernel
/-- (that the two sorts really permute this circuit – three AND gates move
to the front of level 0 under `compileSort`, behind the XORs under
`gmwSchedule` – is shown by the executed driver: `List.mergeSort` is defined
by well-founded recursion and does not reduce in the kernel) -/
example : compileLe (⟨.and, 0, 1, 5⟩, 0) (⟨.inv, 0, 0, 2⟩, 0) = true ∧
    gmwLe (⟨.and, 0, 1, 5⟩, 0) (⟨.inv, 0, 0, 2⟩, 0) = false := by decide
example : witnessYao.WF = true ∧ witnessGmw.WF = true := by decide +kernel

end Mpc

/-
C20  OT-based multiplication gadgets return shares of the product.

Property theorems only; helper lemmas are in Proofs/Vole.lean, Proofs/Fx.lean.

Quantification.
* vector-OLE: every PRG `prg` (AES-CTR under the label is one function),
  every list of labels returned to the sender by the correlated-OT extension
  (so: every base OT, every delta, every column stream, every chunking —
  `Sender.Mul` sees the extension only through that list; that the list has
  `m` entries for every `m`, across chunk boundaries, is C06), every vector
  length `m ≥ 1`, every modulus `0 < p ≤ 2^256` (the statement asks for
  `1 < p < 2^256`), every `x` (unbounded) and every `y < 2^256`.
* Fx / Fxk: every OT satisfying `OtSpec` (C06 proves it per implementation),
  every random label drawn by `NewLabel`, every `a`, `b` (the general
  statements) resp. `a, b ∈ {0,1}` (the property's statement), every string
  `s` of the gadget's length (`k = 32` bits).
* transport: "every vector length" includes the lengths whose packed vector
  (`4 + 32·m` bytes) does not fit into one write buffer of the connection
  (`m ≥ 2048` for the 64 KiB buffer), into two, into the 1 MiB read buffer.
  The size of the write buffer is a parameter `cap` of the wire model
  (Model/VoleWire.lean); the theorems hold for every `cap ≥ 4`, i.e. the
  bytes on the wire and the share relation are the same however `SendData`
  splits the message into blocks.
-/
import MpcVerif.Proofs.Vole
import MpcVerif.Proofs.VoleWire
import MpcVerif.Proofs.Fx

namespace Mpc
open Vole Fx

/-! ### vector-OLE -/

/-- Main statement for `vole.Sender.Mul` / `vole.Receiver.Mul`.  Under the
stated hypotheses a session takes no error branch (no length error, no
`bytes32` panic), both output vectors have the input length, and at every
index `r_i, u_i < p` and `u_i − r_i ≡ x_i·y_i (mod p)` — as a congruence of
integers (what `big.Int.Sub` / `Mod` compute) and on naturals. -/
theorem C20_vole_relation (prg : BitVec 128 → Nat) (labels : List (BitVec 128)) (xs ys : List Nat)
    (p : Nat) (hp0 : 0 < p) (hp : p ≤ 2 ^ 256) (hm : 1 ≤ xs.length) (hly : ys.length = xs.length)
    (hll : labels.length = xs.length) (hy : ∀ y ∈ ys, y < 2 ^ 256) :
    ∃ s, session prg labels xs ys p = .ok s ∧
      s.rs.length = xs.length ∧ s.us.length = xs.length ∧
      ∀ i, i < xs.length → ∃ r u x y,
        s.rs[i]? = some r ∧ s.us[i]? = some u ∧ xs[i]? = some x ∧ ys[i]? = some y ∧
        r < p ∧ u < p ∧
        ((u : Int) - (r : Int)) % (p : Int) = ((x : Int) * (y : Int)) % (p : Int) ∧
        (u + p - r) % p = (x * y) % p := by
  obtain ⟨ymsg, umsg, hs, _, _, _, _⟩ := session_ok prg labels xs ys p hp0 hp hm hly hll hy
  have hrl : (senderRs prg labels p).length = xs.length := by simp [senderRs, hll]
  have hul : (senderUs p (senderRs prg labels p) xs (ys.map (· % p))).length = xs.length := by
    rw [senderUs_length p _ _ _ (by omega) (by simp; omega), hrl]
  refine ⟨_, hs, hrl, hul, ?_⟩
  intro i hi
  have hil : i < labels.length := by omega
  have hiy : i < ys.length := by omega
  have hr : (senderRs prg labels p)[i]? = some (prg labels[i] % p) := by
    simp [senderRs, hil]
  have hx : xs[i]? = some xs[i] := by simp [hi]
  have hyy : ys[i]? = some ys[i] := by simp [hiy]
  have hym : (ys.map (· % p))[i]? = some (ys[i] % p) := by simp [hiy]
  have hrp : prg labels[i] % p < p := Nat.mod_lt _ hp0
  obtain ⟨hup, hrel⟩ := share_arith p (prg labels[i] % p) xs[i] ys[i] hp0 hrp
  exact ⟨_, _, _, _, hr, senderUs_get p _ _ _ i _ _ _ hr hx hym, hx, hyy, hrp, hup,
    share_arith_int p _ _ _ _ hrp hrel, hrel⟩

/-- The theorem applies to the executed instance (the function the driver runs
and that is compared byte for byte with the Go code): AES-128-CTR PRG. -/
theorem C20_vole_concrete (labels : List (BitVec 128)) (xs ys : List Nat)
    (p : Nat) (hp0 : 0 < p) (hp : p ≤ 2 ^ 256) (hm : 1 ≤ xs.length) (hly : ys.length = xs.length)
    (hll : labels.length = xs.length) (hy : ∀ y ∈ ys, y < 2 ^ 256) :
    ∃ s, session prgAes labels xs ys p = .ok s ∧
      s.rs.length = xs.length ∧ s.us.length = xs.length ∧
      ∀ i, i < xs.length → ∃ r u x y,
        s.rs[i]? = some r ∧ s.us[i]? = some u ∧ xs[i]? = some x ∧ ys[i]? = some y ∧
        r < p ∧ u < p ∧
        ((u : Int) - (r : Int)) % (p : Int) = ((x : Int) * (y : Int)) % (p : Int) ∧
        (u + p - r) % p = (x * y) % p :=
  C20_vole_relation prgAes labels xs ys p hp0 hp hm hly hll hy

/-- The two messages of the session are the packed vectors: the y-message is
`bytes32(y_0) ‖ … ‖ bytes32(y_{m-1})` and the u-message the same of `u`; both
are `32·m` bytes (the length checks of both `Mul`s pass). -/
theorem C20_vole_messages (prg : BitVec 128 → Nat) (labels : List (BitVec 128)) (xs ys : List Nat)
    (p : Nat) (hp0 : 0 < p) (hp : p ≤ 2 ^ 256) (hm : 1 ≤ xs.length) (hly : ys.length = xs.length)
    (hll : labels.length = xs.length) (hy : ∀ y ∈ ys, y < 2 ^ 256) :
    ∃ s, session prg labels xs ys p = .ok s ∧
      pack32 ys = some s.ymsg ∧ pack32 s.us = some s.umsg ∧
      s.ymsg.length = 32 * xs.length ∧ s.umsg.length = 32 * xs.length ∧
      s.rs = labels.map (fun l => prg l % p) := by
  obtain ⟨ymsg, umsg, hs, h1, h2, h3, h4⟩ := session_ok prg labels xs ys p hp0 hp hm hly hll hy
  exact ⟨_, hs, h1, h3, by simp only; omega, by simp only; omega, rfl⟩

/-- `bytes32` round trip: for `v < 2^256` it yields exactly 32 bytes and
`SetBytes` reads `v` back. -/
theorem C20_bytes32_roundtrip (v : Nat) (hv : v < 2 ^ 256) :
    ∃ b, bytes32 v = some b ∧ b.length = 32 ∧ bytesToNatBE b = v :=
  bytes32_roundtrip v hv

/-- The hypothesis `y < 2^256` of `C20_vole_relation` is exactly the set of
values the real code accepts: beyond it `bytes32` panics (slice bounds). -/
theorem C20_bytes32_panics_beyond (v : Nat) (hv : 2 ^ 256 ≤ v) : bytes32 v = none :=
  bytes32_panics v hv

/-- The packed-vector encoding round-trips for every vector (the loop that
parses the y-vector in `Sender.Mul` and the u-vector in `Receiver.Mul`). -/
theorem C20_pack32_roundtrip (p : Nat) (vs : List Nat) (hv : ∀ v ∈ vs, v < 2 ^ 256) :
    ∃ msg, pack32 vs = some msg ∧ msg.length = vs.length * 32 ∧
      unpack32 p vs.length msg = vs.map (· % p) :=
  pack32_unpack32 p vs hv

/-- Empty vectors: both sides return without communicating. -/
theorem C20_vole_empty (prg : BitVec 128 → Nat) (labels : List (BitVec 128)) (p : Nat) :
    session prg labels [] [] p = .ok ⟨[], [], [], []⟩ := rfl

/-- One call in any state: an admissible call (empty vectors included)
succeeds whatever the position, satisfies the share relation, and moves the
position by its length rounded up to a multiple of 8. -/
theorem C20_vole_step (prg : BitVec 128 → Nat) (cot : Nat → BitVec 128) (st : St) (c : Call)
    (h : c.Ok) :
    ∃ s, mulStep prg cot st c = .ok (⟨st.pos + roundUp8 c.xs.length⟩, s) ∧ ShareRel c s := by
  obtain ⟨hp0, hp, hly, hy⟩ := h
  by_cases hm : c.xs.length = 0
  · have hx : c.xs = [] := List.eq_nil_of_length_eq_zero hm
    have hys : c.ys = [] := List.eq_nil_of_length_eq_zero (by omega)
    refine ⟨⟨[], [], [], []⟩, ?_, ?_⟩
    · simp [mulStep, session, hx, hys]
    · refine ⟨by simp [hx], by simp [hx], ?_⟩
      intro i hi; omega
  · obtain ⟨s, hs, h1, h2, h3⟩ := C20_vole_relation prg (callLabels cot st.pos c.xs.length) c.xs c.ys c.p
      hp0 hp (by omega) hly (callLabels_length _ _ _) hy
    exact ⟨s, by simp [mulStep, hs], h1, h2, h3⟩

/-- Histories.  For every PRG, every row stream of the extension, every
starting position and every list of admissible `Mul` calls on ONE
Sender/Receiver pair (any lengths in any order — shorter after longer —, any
moduli in any order, any elements): no call takes an error branch, EVERY call
of the history satisfies the share relation, and the state after the history
is the start position plus the rounded-up lengths.  The state type `St` holds
the position and nothing else: a call's outcome cannot depend on the inputs
or outputs of earlier calls. -/
theorem C20_vole_session (prg : BitVec 128 → Nat) (cot : Nat → BitVec 128) (st : St)
    (calls : List Call) (h : ∀ c ∈ calls, c.Ok) :
    ∃ ss, runCalls prg cot st calls =
        .ok (⟨st.pos + (calls.map fun c => roundUp8 c.xs.length).sum⟩, ss) ∧
      Forall2 ShareRel calls ss :=
  runCalls_of_step prg cot ShareRel (fun st c hc => C20_vole_step prg cot st c hc) calls st h

/-- The same, call by call: the `k`-th result of the history belongs to the
`k`-th call and satisfies its share relation. -/
theorem C20_vole_session_every_call (prg : BitVec 128 → Nat) (cot : Nat → BitVec 128) (st : St)
    (calls : List Call) (h : ∀ c ∈ calls, c.Ok) :
    ∃ st' ss, runCalls prg cot st calls = .ok (st', ss) ∧ ss.length = calls.length ∧
      ∀ (k : Nat) (c : Call) (s : Session), calls[k]? = some c → ss[k]? = some s → ShareRel c s := by
  obtain ⟨ss, hs, hr⟩ := C20_vole_session prg cot st calls h
  exact ⟨_, ss, hs, hr.length_eq.symm, hr.get⟩

/-- The messages of every call of a history are the packed vectors of THAT
call only (`pack32` of its `ys` resp. of its `us`): nothing of an earlier call
is in them. -/
theorem C20_vole_session_messages (prg : BitVec 128 → Nat) (cot : Nat → BitVec 128) (st : St)
    (calls : List Call) (h : ∀ c ∈ calls, c.Ok) :
    ∃ st' ss, runCalls prg cot st calls = .ok (st', ss) ∧
      Forall2 (fun c s => pack32 c.ys = some s.ymsg ∧ pack32 s.us = some s.umsg) calls ss := by
  obtain ⟨ss, hs, hr⟩ := runCalls_of_step prg cot
    (fun c s => pack32 c.ys = some s.ymsg ∧ pack32 s.us = some s.umsg) (fun st c hc => by
      obtain ⟨hp0, hp, hly, hy⟩ := hc
      by_cases hm : c.xs.length = 0
      · have hx : c.xs = [] := List.eq_nil_of_length_eq_zero hm
        have hys : c.ys = [] := List.eq_nil_of_length_eq_zero (by omega)
        exact ⟨⟨[], [], [], []⟩, by simp [mulStep, session, hx, hys], by simp [hys, pack32], by simp [pack32]⟩
      · obtain ⟨s, hs, h1, h2, _⟩ := C20_vole_messages prg (callLabels cot st.pos c.xs.length) c.xs c.ys c.p
          hp0 hp (by omega) hly (callLabels_length _ _ _) hy
        exact ⟨s, by simp [mulStep, hs], h1, h2⟩) calls st h
  exact ⟨_, ss, hs, hr⟩

/-! Non-vacuity: hypotheses are satisfiable, and the model computes a concrete
session (p = 7, one element crossing the modulus, one zero). -/
example : ∃ (labels : List (BitVec 128)) (xs ys : List Nat) (p : Nat),
    0 < p ∧ p ≤ 2 ^ 256 ∧ 1 ≤ xs.length ∧ ys.length = xs.length ∧ labels.length = xs.length ∧
    ∀ y ∈ ys, y < 2 ^ 256 :=
  ⟨[5#128, 9#128], [3, 6], [4, 0], 7, by decide, by decide, by decide, rfl, rfl, by decide⟩

example : (session (fun l => l.toNat) [5#128, 9#128] [3, 6] [4, 0] 7).toOption.map (fun s => (s.rs, s.us)) =
    some ([5, 2], [3, 2]) := by decide +kernel

/-- A history: a 2-element call modulo 2^256-189-sized values followed by a
shorter call modulo 3 with elements 0/1 (the shape on which a buffer reused
between calls would leak bytes of the first call into the second). -/
example : (runCalls (fun l => l.toNat) (fun i => BitVec.ofNat 128 (1000003 * (i + 1))) ⟨0⟩
    [⟨[2 ^ 255 + 5, 7], [2 ^ 256 - 1, 2 ^ 200], 2 ^ 256 - 189⟩, ⟨[2], [1], 3⟩]).toOption.map
      (fun r => (r.1.pos, r.2.map (fun s => (s.us.length, s.umsg.length)))) =
    some (16, [(2, 64), (1, 32)]) := by decide +kernel

example : (⟨[2], [1], 3⟩ : Call).Ok := ⟨by decide, by decide, rfl, by decide⟩

/-! ### The wire: framing is independent of the transport buffers -/

/-- `SendData(msg); Flush()` on a connection in ANY state with write buffers
of ANY size `cap ≥ 4`: the blocks handed to the writer concatenate to what was
pending, the 4-byte length and the message — whatever the number of blocks —,
nothing stays pending, and no block exceeds the buffer. -/
theorem C20_wire_frame (cap : Nat) (hcap : 4 ≤ cap) (c : WConn) (h : c.WF cap) (msg : List UInt8) :
    (c.sendMsg cap msg).written.flatten = c.stream ++ be32 msg.length ++ msg ∧
    (c.sendMsg cap msg).pending = [] ∧
    ∀ b ∈ (c.sendMsg cap msg).written, b.length ≤ cap := by
  obtain ⟨h1, h2, h3⟩ := sendMsg_spec cap hcap c msg h
  exact ⟨h1, h2, h3.1⟩

/-- The bytes on the wire do not depend on the size of the write buffer. -/
theorem C20_wire_buffer_independent (cap₁ cap₂ : Nat) (h1 : 4 ≤ cap₁) (h2 : 4 ≤ cap₂) (msg : List UInt8) :
    frame cap₁ msg = frame cap₂ msg := by
  rw [frame_eq cap₁ h1, frame_eq cap₂ h2]

/-- The wire bytes of one call through write buffers of size `cap`: for a
non-empty vector the length prefix `32·m` and `pack32` of the call's own `ys`
(receiver to sender) resp. of the `us` the receiver decodes (sender to
receiver); nothing for the empty vector. -/
def WireRel (cap : Nat) (c : Vole.Call) (s : Session) : Prop :=
  ∃ ym um, pack32 c.ys = some ym ∧ pack32 s.us = some um ∧
    wireOf cap c.ys.length s.ymsg = (if c.ys.length = 0 then [] else be32 (32 * c.ys.length) ++ ym) ∧
    wireOf cap c.xs.length s.umsg = (if c.xs.length = 0 then [] else be32 (32 * c.xs.length) ++ um)

/-- One call of any length in any state, through write buffers of any size
`cap ≥ 4`: the share relation holds at EVERY index and the wire bytes are the
framed packed vectors. -/
theorem C20_vole_step_wire (prg : BitVec 128 → Nat) (cot : Nat → BitVec 128) (st : St) (c : Vole.Call)
    (h : c.Ok) (cap : Nat) (hcap : 4 ≤ cap) :
    ∃ s, mulStep prg cot st c = .ok (⟨st.pos + roundUp8 c.xs.length⟩, s) ∧ ShareRel c s ∧ WireRel cap c s ∧
      s.ymsg.length = 32 * c.xs.length ∧ s.umsg.length = 32 * c.xs.length := by
  obtain ⟨s, hs, hrel⟩ := C20_vole_step prg cot st c h
  obtain ⟨hp0, hp, hly, hy⟩ := h
  by_cases hm : c.xs.length = 0
  · have hx : c.xs = [] := List.eq_nil_of_length_eq_zero hm
    have hys : c.ys = [] := List.eq_nil_of_length_eq_zero (by omega)
    have hs' : s = ⟨[], [], [], []⟩ := by
      have : mulStep prg cot st c = .ok (⟨st.pos + roundUp8 c.xs.length⟩, ⟨[], [], [], []⟩) := by
        simp [mulStep, session, hx, hys]
      rw [this] at hs
      injection hs with hs; injection hs with _ hs; exact hs.symm
    subst hs'
    exact ⟨_, hs, hrel, ⟨[], [], by simp [hys, pack32], by simp [pack32], by simp [wireOf, hys], by simp [wireOf, hx]⟩,
      by simp [hx], by simp [hx]⟩
  · obtain ⟨s', hs', h1, h2, h3, h4, _⟩ := C20_vole_messages prg (callLabels cot st.pos c.xs.length) c.xs c.ys c.p
      hp0 hp (by omega) hly (callLabels_length _ _ _) hy
    have hss : s = s' := by
      have : mulStep prg cot st c = .ok (⟨st.pos + roundUp8 c.xs.length⟩, s') := by simp [mulStep, hs']
      rw [this] at hs
      injection hs with hs; injection hs with _ hs; exact hs.symm
    subst hss
    refine ⟨_, hs, hrel, ⟨s.ymsg, s.umsg, h1, h2, ?_, ?_⟩, h3, h4⟩
    · have : c.ys.length ≠ 0 := by omega
      simp only [wireOf, this, ↓reduceIte]
      rw [frame_eq cap hcap, h3, hly]
    · simp only [wireOf, hm, ↓reduceIte]
      rw [frame_eq cap hcap, h4]

/-- Histories on the wire.  For every write-buffer size `cap ≥ 4`, every
history of admissible calls of ANY lengths on one pair (a vector of several
buffer blocks after a short one and vice versa): every call satisfies the
share relation at every index, and its wire bytes are the length prefix and
the packed vector of that call — the same bytes for every `cap`. -/
theorem C20_vole_session_wire (prg : BitVec 128 → Nat) (cot : Nat → BitVec 128) (st : St)
    (calls : List Vole.Call) (h : ∀ c ∈ calls, c.Ok) (cap : Nat) (hcap : 4 ≤ cap) :
    ∃ st' ss, runCalls prg cot st calls = .ok (st', ss) ∧
      Forall2 (fun c s => ShareRel c s ∧ WireRel cap c s) calls ss := by
  obtain ⟨ss, hs, hr⟩ := runCalls_of_step prg cot (fun c s => ShareRel c s ∧ WireRel cap c s)
    (fun st c hc => by
      obtain ⟨s, h1, h2, h3, _⟩ := C20_vole_step_wire prg cot st c hc cap hcap
      exact ⟨s, h1, h2, h3⟩) calls st h
  exact ⟨_, ss, hs, hr⟩

/-- Beyond one transport block.  A call whose framed vector does not fit into
`k` write buffers (`k·cap < 4 + 32·m`) leaves in more than `k` blocks in both
directions, and still the share relation holds at every index — in particular
at the indices whose bytes travel in the second and later blocks — and the
wire bytes are the framed packed vectors. -/
theorem C20_vole_beyond_blocks (prg : BitVec 128 → Nat) (cot : Nat → BitVec 128) (st : St) (c : Vole.Call)
    (h : c.Ok) (cap : Nat) (hcap : 4 ≤ cap) (k : Nat) (hbig : k * cap < 4 + 32 * c.xs.length) :
    ∃ s, mulStep prg cot st c = .ok (⟨st.pos + roundUp8 c.xs.length⟩, s) ∧ ShareRel c s ∧ WireRel cap c s ∧
      k < (wireBlocks cap s.ymsg).length ∧ k < (wireBlocks cap s.umsg).length := by
  obtain ⟨s, h1, h2, h3, h4, h5⟩ := C20_vole_step_wire prg cot st c h cap hcap
  exact ⟨s, h1, h2, h3, wireBlocks_count cap hcap _ k (by omega), wireBlocks_count cap hcap _ k (by omega)⟩

/-- The instance of the code's constants: with the 64 KiB write buffer every
vector of at least 2048 elements takes at least two blocks, and the relation
holds at every index `i < m`, the indices `i ≥ 2047` of the later blocks
included. -/
theorem C20_vole_beyond_64k (prg : BitVec 128 → Nat) (cot : Nat → BitVec 128) (st : St) (c : Vole.Call)
    (h : c.Ok) (hm : 2048 ≤ c.xs.length) :
    ∃ s, mulStep prg cot st c = .ok (⟨st.pos + roundUp8 c.xs.length⟩, s) ∧
      2 ≤ (wireBlocks 65536 s.ymsg).length ∧ 2 ≤ (wireBlocks 65536 s.umsg).length ∧ WireRel 65536 c s ∧
      ∀ i, 2047 ≤ i → i < c.xs.length → ∃ r u x y,
        s.rs[i]? = some r ∧ s.us[i]? = some u ∧ c.xs[i]? = some x ∧ c.ys[i]? = some y ∧
        (u + c.p - r) % c.p = (x * y) % c.p := by
  obtain ⟨s, h1, h2, h3, h4, h5⟩ := C20_vole_beyond_blocks prg cot st c h 65536 (by decide) 1 (by omega)
  refine ⟨s, h1, h4, h5, h3, ?_⟩
  intro i _ hi
  obtain ⟨r, u, x, y, a1, a2, a3, a4, _, _, _, a8⟩ := h2.2.2 i hi
  exact ⟨r, u, x, y, a1, a2, a3, a4, a8⟩

/-! Non-vacuity of the wire theorems. -/

/-- A connection state with pending data satisfies the buffer invariant, and
the writer really splits: 70 bytes through a 36-byte buffer behind 3 pending
bytes leave as 36 + 36 + 5 bytes. -/
example : (⟨[], [1, 2, 3]⟩ : WConn).WF 36 := ⟨by simp, by decide⟩

example : (((⟨[], [1, 2, 3]⟩ : WConn).sendMsg 36 (List.replicate 70 7)).written.map List.length) = [36, 36, 5] := by
  decide +kernel

/-- The same message through buffers of 36, 40 and 65536 bytes: 3, 2 and 1
blocks, one byte stream. -/
example : ((wireBlocks 36 (List.replicate 64 9)).length, (wireBlocks 40 (List.replicate 64 9)).length,
    (wireBlocks 65536 (List.replicate 64 9)).length) = (2, 2, 1) ∧
    frame 36 (List.replicate 64 9) = frame 65536 (List.replicate 64 9) := by decide +kernel

/-- A history whose second call is longer than one block of a 36-byte buffer
(3 elements = 100 framed bytes = 3 blocks) after a one-element call: shares
and wire bytes as the theorem says. -/
example : (runCalls (fun l => l.toNat) (fun i => BitVec.ofNat 128 (1000003 * (i + 1))) ⟨0⟩
    [⟨[2], [1], 3⟩, ⟨[5, 6, 250], [250, 0, 250], 251⟩]).toOption.map
      (fun r => r.2.map (fun s => (s.us, (wireBlocks 36 s.ymsg).map List.length, (frame 36 s.ymsg).take 5))) =
    some [([0], [36], [0, 0, 0, 32, 0]), ([166, 190, 210], [36, 36, 28], [0, 0, 0, 96, 0])] := by decide +kernel

/-- Hypotheses of `C20_vole_beyond_64k` / `C20_vole_beyond_blocks` are
satisfiable: a 2048-element call does not fit one 64 KiB buffer. -/
example : ∃ c : Vole.Call, c.Ok ∧ 2048 ≤ c.xs.length ∧ 1 * 65536 < 4 + 32 * c.xs.length :=
  ⟨⟨List.replicate 2048 1, List.replicate 2048 1, 7⟩,
    ⟨by decide, by decide, by simp only [List.length_replicate],
      fun y hy => by have := List.eq_of_mem_replicate hy; omega⟩,
    by dsimp only; rw [List.length_replicate]; omega, by dsimp only; rw [List.length_replicate]; omega⟩

/-! ### Fx, Fxk, ToOT / FromOT -/

/-- `Label.FromOT(Label.ToOT(l)) = l` for every 32-bit label. -/
theorem C20_toOT_fromOT (l : BLabel) : fromOT (toOT l) = l := fromOT_toOT l

/-- Bit multiplication: for `a, b ∈ {0,1}`, every random label and every OT
satisfying `OtSpec`, the two returned bits XOR to `a·b`, and both are bits. -/
theorem C20_fx_shares (ot : OtFun (BitVec 128)) (h : OtSpec ot) (rl : BLabel) (a b : Nat)
    (ha : a ≤ 1) (hb : b ≤ 1) :
    (fx ot rl a b).r ^^^ (fx ot rl a b).xb = a * b ∧ (fx ot rl a b).r ≤ 1 ∧ (fx ot rl a b).xb ≤ 1 := by
  refine ⟨?_, ?_, ?_⟩
  · rw [fx_general ot h]
    have h1 : a = 0 ∨ a = 1 := by omega
    have h2 : b = 0 ∨ b = 1 := by omega
    rcases h1 with rfl | rfl <;> rcases h2 with rfl | rfl <;> rfl
  · simp only [fx, fxSendOut]; cases bit0 rl <;> decide
  · simp only [fx, fxRecvOut]; cases bit0 (fromOT (recvLabel (ot [fxWire rl a] (recvFlags b)))) <;> decide

/-- The same for arbitrary `uint` operands, as the code behaves: the shares
recombine to `(a mod 2)·[b = 1]`. -/
theorem C20_fx_general (ot : OtFun (BitVec 128)) (h : OtSpec ot) (rl : BLabel) (a b : Nat) :
    (fx ot rl a b).r ^^^ (fx ot rl a b).xb = (a % 2) * (if b = 1 then 1 else 0) :=
  fx_general ot h rl a b

/-- Bit-times-string: for every string `s`, every random label `r` and every
OT satisfying `OtSpec`, the two returned labels XOR to `s` if `b = 1` and to
zero otherwise (in particular for `b = 0`). -/
theorem C20_fxk_shares (ot : OtFun (BitVec 128)) (h : OtSpec ot) (r s : BLabel) (b : Nat) :
    (fxk ot r s b).r ^^^ (fxk ot r s b).xb = if b = 1 then s else 0#32 :=
  fxk_general ot h r s b

/-- Histories of gadget calls over ONE OT instance (as `bmr` runs them over a
peer's `otSender` / `otReceiver`): every call of every history of in-domain
calls returns XOR shares of its own product. -/
theorem C20_fx_session (ot : OtFun (BitVec 128)) (h : OtSpec ot) (cs : List GCall)
    (hd : ∀ c ∈ cs, c.Ok) : Forall2 GShares cs (runGadgets ot cs) := by
  induction cs with
  | nil => exact .nil
  | cons c cs ih =>
    refine .cons ?_ (ih fun d hd' => hd d (by simp [hd']))
    have hc := hd c (by simp)
    cases c with
    | fx rl a b => exact C20_fx_shares ot h rl a b hc.1 hc.2
    | fxk r s b => exact C20_fxk_shares ot h r s b

/-- The OT specification is satisfiable (ideal OT), so the Fx theorems are not
vacuous; concrete runs. -/
theorem C20_idealOt_spec : OtSpec idealOt := fun _ _ _ => rfl

example : ((fx idealOt 0x01ab00ff#32 1 1).r, (fx idealOt 0x01ab00ff#32 1 1).xb) = (1, 0) := by decide
example : ((fxk idealOt 0xdeadbeef#32 0x12345678#32 1).xb) = 0xdeadbeef#32 ^^^ 0x12345678#32 := by decide

end Mpc

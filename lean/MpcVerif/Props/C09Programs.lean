/-
C09 (program level)  The target axis of C09 for whole SSA programs, as a
corollary of the C03 back-end theorem (`Props/C03Backend.lean`): the circuit
`ssa.Program.Circuit` assembles for a step list computes `ssaEval` of that
step list on BOTH targets, hence the Yao and the GMW circuit of one SSA program
compute the same outputs on every input on which the program has a meaning.

The hypothesis is `Supported` on both targets: every opcode of the dump except
division / modulo (the GMW divider is the Goldschmidt divider, whose quotient
estimate is a validated hypothesis in C07; and a/0 differs between the targets,
`C09_target_equivalence_fails`).  `Supported` is decidable and is evaluated by
the driver on every program of the C03 back-end tie (tag `S`).

PROGRAMS THAT DIVIDE (second half of the file): the dependence on that
hypothesis made explicit.  `C09_program_target_equiv_div`: for every step list
whose GMW-side instructions are the supported set PLUS `udiv` / `umod`, and
every input on which the program has a meaning (in particular every divisor
non-zero), the Yao and the GMW circuit agree IF the quotient estimator
`goldEstimate` is within one on the DIVIDER INSTANCES of that run
(`divInstancesOf ins steps args`: operand width, dividend, divisor of every
`udiv` / `umod` step; `EstOn`).  Stated first for an arbitrary estimator
(`C09_program_target_equiv_div_est`; non-vacuity: the exact estimator satisfies
the hypothesis on every instance), then for the code's.  Contrapositive
(`C09_div_wrong_output_refutes_estimate`): an input on which the GMW circuit
does not compute the meaning exhibits a divider instance on which the
hypothesis is FALSE - this is what the check evaluates on the real compiled
programs for the structured operand classes (harness mode `divs`: maximal /
top-bit-set dividends x every divisor 1..4096, 2^k, 2^k±1, runs of ones, ...;
obligation `estimate hypothesis ... evaluated`), a failure being a concrete
input.

The circuits are the ones BEFORE the optimisation passes; for each target
`C09_pipeline_preserves` (Props/C09.lean) carries the function across
ConstPropagate / ShortCircuitXORZero / Prune / Compile, so the statement
transfers to the compiled circuits for every pipeline configuration (prune
on / off).  What remains validated only: that the SSA step list handed to
`Program.Circuit` is the same for both targets (the front end does not consult
the target except for the builders; checked by the dumps of the C09 tie).
-/
import MpcVerif.Props.C03Backend
import MpcVerif.Proofs.SsaDiv

namespace Mpc
open Mpc.Mpcl Mpc.Mpcl.Ssa Mpc.SsaC

/-- Target axis, whole programs: for every SSA step list supported on both
targets and every input on which the program is defined, the circuit assembled
for the Yao target and the one assembled for the GMW target evaluate to the same
outputs (both equal the SSA semantics). -/
theorem C09_program_target_equiv (ins : List (Nat × Nat)) (steps : List SInstr)
    (hy : Supported false ins steps = true) (hg : Supported true ins steps = true)
    (args : List Nat) (r : List (Nat × Nat))
    (hr : ssaEval (Nat → Nat) ins steps args = some r) :
    ssaCircuitEval false ins steps args = ssaCircuitEval true ins steps args := by
  rw [C03_backend_correct false ins steps hy args r hr, C03_backend_correct true ins steps hg args r hr]

/-- The same with the meaning made explicit: both circuits compute `ssaEval`. -/
theorem C09_program_both_targets_compute_meaning (ins : List (Nat × Nat)) (steps : List SInstr)
    (hy : Supported false ins steps = true) (hg : Supported true ins steps = true)
    (args : List Nat) (r : List (Nat × Nat))
    (hr : ssaEval (Nat → Nat) ins steps args = some r) :
    ssaCircuitEval false ins steps args = some r ∧ ssaCircuitEval true ins steps args = some r :=
  ⟨C03_backend_correct false ins steps hy args r hr, C03_backend_correct true ins steps hg args r hr⟩

/-- Non-vacuity: `func(a uint4, b uint4) uint4 { return (a + b) * a ^ b }`-style
step list (add, mul, bxor) is supported on both targets. -/
def exBothTargets : List SInstr :=
  [⟨.add, [.var 0 4, .var 1 4], some (2, 4)⟩,
   ⟨.mul, [.var 2 4, .var 0 4], some (3, 4)⟩,
   ⟨.bxor, [.var 3 4, .var 1 4], some (4, 4)⟩,
   ⟨.ret, [.var 4 4], none⟩]

example : Supported false [(0, 4), (1, 4)] exBothTargets = true ∧
    Supported true [(0, 4), (1, 4)] exBothTargets = true := by
  refine ⟨?_, ?_⟩ <;> decide +kernel

example : ssaEval (Nat → Nat) [(0, 4), (1, 4)] exBothTargets [5, 9] = some [(15, 4)] := by decide +kernel

example : ssaCircuitEval false [(0, 4), (1, 4)] exBothTargets [5, 9] =
    ssaCircuitEval true [(0, 4), (1, 4)] exBothTargets [5, 9] :=
  C09_program_target_equiv _ _ (by decide +kernel) (by decide +kernel) _ _ (by decide +kernel : _ = some [(15, 4)])

/-! ## Programs that divide -/

/-- Target axis, programs with unsigned division, ARBITRARY quotient estimator
`est` in the GMW target's divider (`dividerPad est`: zero pad, `est`, the
correction step of `NewUDividerGoldschmidtFast`): if `est` is within one on
every divider instance of the run on `args`, the Yao circuit and the GMW
circuit compute the same outputs (both the SSA meaning). -/
theorem C09_program_target_equiv_div_est (est : List Nat → List Nat → Bld.BM (List Nat))
    (ins : List (Nat × Nat)) (steps : List SInstr)
    (hy : Supported false ins steps = true) (hg : SupportedE est ins steps = true)
    (args : List Nat) (r : List (Nat × Nat))
    (hr : ssaEval (Nat → Nat) ins steps args = some r)
    (hest : ∀ p ∈ divInstancesOf (Nat → Nat) ins steps args, EstOn est (inputBits ins args) p) :
    ssaCircuitEval false ins steps args = ssaCircuitEvalE est ins steps args := by
  rw [C03_backend_correct false ins steps hy args r hr, ssaCircuitEvalE_correct est ins steps hg args r hr hest]

/-- **Target axis, programs with unsigned division, the code's divider.**  For
every step list (supported set plus `udiv` / `umod` on the GMW side) and every
input on which the program is defined (so every divisor is non-zero): if
`goldEstimate` - the quotient estimate of `NewUDividerGoldschmidtFast`, tied
gate for gate to the Go code by C07 - is within one of the true quotient on the
divider instances of that run, the circuits of the two targets agree. -/
theorem C09_program_target_equiv_div (ins : List (Nat × Nat)) (steps : List SInstr)
    (hy : Supported false ins steps = true) (hg : SupportedDiv ins steps = true)
    (args : List Nat) (r : List (Nat × Nat))
    (hr : ssaEval (Nat → Nat) ins steps args = some r)
    (hest : ∀ p ∈ divInstancesOf (Nat → Nat) ins steps args, EstOn Bld.goldEstimate (inputBits ins args) p) :
    ssaCircuitEval false ins steps args = ssaCircuitEval true ins steps args := by
  have hg' : SupportedE Bld.goldEstimate ins steps = true := by
    simpa [SupportedE, SupportedDiv, ssaCompileE_gold] using hg
  rw [← ssaCircuitEvalE_gold]
  exact C09_program_target_equiv_div_est _ ins steps hy hg' args r hr hest

/-- Both circuits compute the meaning (same hypotheses). -/
theorem C09_program_div_both_targets_compute_meaning (ins : List (Nat × Nat)) (steps : List SInstr)
    (hy : Supported false ins steps = true) (hg : SupportedDiv ins steps = true)
    (args : List Nat) (r : List (Nat × Nat))
    (hr : ssaEval (Nat → Nat) ins steps args = some r)
    (hest : ∀ p ∈ divInstancesOf (Nat → Nat) ins steps args, EstOn Bld.goldEstimate (inputBits ins args) p) :
    ssaCircuitEval false ins steps args = some r ∧ ssaCircuitEval true ins steps args = some r := by
  have h := C09_program_target_equiv_div ins steps hy hg args r hr hest
  have hyr := C03_backend_correct false ins steps hy args r hr
  exact ⟨hyr, by rw [← h]; exact hyr⟩

/-- Contrapositive for an arbitrary estimator: an input on which the GMW-shaped
circuit does NOT compute the program's meaning exhibits a divider instance
`(n, A, B)` of that run on which the estimator is not within one. -/
theorem C09_div_wrong_output_refutes_estimate_est (est : List Nat → List Nat → Bld.BM (List Nat))
    (ins : List (Nat × Nat)) (steps : List SInstr) (hg : SupportedE est ins steps = true)
    (args : List Nat) (r : List (Nat × Nat))
    (hr : ssaEval (Nat → Nat) ins steps args = some r)
    (hwrong : ssaCircuitEvalE est ins steps args ≠ some r) :
    ∃ p ∈ divInstancesOf (Nat → Nat) ins steps args, ¬ EstOn est (inputBits ins args) p := by
  apply Classical.byContradiction
  intro hno
  have hall : ∀ p ∈ divInstancesOf (Nat → Nat) ins steps args, EstOn est (inputBits ins args) p := by
    intro p hp
    apply Classical.byContradiction
    intro hn
    exact hno ⟨p, hp, hn⟩
  exact hwrong (ssaCircuitEvalE_correct est ins steps hg args r hr hall)

/-- Contrapositive, the form the check uses on the code's divider: an input on
which the GMW circuit of a program does NOT compute the program's meaning
exhibits a divider instance of that run on which the estimate hypothesis
(`goldschmidt-estimate-within-one`) is FALSE. -/
theorem C09_div_wrong_output_refutes_estimate (ins : List (Nat × Nat)) (steps : List SInstr)
    (hg : SupportedDiv ins steps = true)
    (args : List Nat) (r : List (Nat × Nat))
    (hr : ssaEval (Nat → Nat) ins steps args = some r)
    (hwrong : ssaCircuitEval true ins steps args ≠ some r) :
    ∃ p ∈ divInstancesOf (Nat → Nat) ins steps args, ¬ EstOn Bld.goldEstimate (inputBits ins args) p := by
  have hg' : SupportedE Bld.goldEstimate ins steps = true := by
    simpa [SupportedE, SupportedDiv, ssaCompileE_gold] using hg
  exact C09_div_wrong_output_refutes_estimate_est _ ins steps hg' args r hr (by rw [ssaCircuitEvalE_gold]; exact hwrong)

/-! ### non-vacuity

`func main(a, b uint4) (uint4, uint4) { return a / b, a % b }` (the `qr` form
of the division sweep at width 4) on `a = 13, b = 3`. -/

def exDiv : List SInstr :=
  [⟨.udiv, [.var 0 4, .var 1 4], some (2, 4)⟩,
   ⟨.umod, [.var 0 4, .var 1 4], some (3, 4)⟩,
   ⟨.ret, [.var 2 4, .var 3 4], none⟩]

-- the step list is the driver's `qr` form
example : divForm "qr" 4 4 0 "-" = some ([(0, 4), (1, 4)], exDiv) := rfl

-- its meaning and its two divider instances (width 4, 13, 3)
example : ssaEval (Nat → Nat) [(0, 4), (1, 4)] exDiv [13, 3] = some [(4, 4), (1, 4)] := by decide +kernel
example : divInstancesOf (Nat → Nat) [(0, 4), (1, 4)] exDiv [13, 3] = [(4, 13, 3), (4, 13, 3)] := by decide +kernel

-- every hypothesis of C09_program_target_equiv_div_est holds with the exact estimator ...
example : Supported false [(0, 4), (1, 4)] exDiv = true := by decide +kernel
example : SupportedE Bld.exactEstimator [(0, 4), (1, 4)] exDiv = true := by decide +kernel

-- ... so the theorem applies: the Yao circuit and the GMW-shaped circuit agree on 13 / 3
example : ssaCircuitEval false [(0, 4), (1, 4)] exDiv [13, 3] =
    ssaCircuitEvalE Bld.exactEstimator [(0, 4), (1, 4)] exDiv [13, 3] :=
  C09_program_target_equiv_div_est _ _ _ (by decide +kernel) (by decide +kernel) _ _
    (by decide +kernel : _ = some [(4, 4), (1, 4)])
    (by
      intro p hp
      have h : p = (4, 13, 3) := by
        have : divInstancesOf (Nat → Nat) [(0, 4), (1, 4)] exDiv [13, 3] = [(4, 13, 3), (4, 13, 3)] := by
          decide +kernel
        rw [this] at hp
        simpa using hp
      subst h
      exact EstOn_exact _ _ (by decide) (by decide))

-- non-vacuity of the contrapositive: an estimator that always answers 0 (`zeroEstimator`) is not within one of
-- 3 / 1 = 3; the GMW-shaped circuit of `func main(a, b uint2) uint2 { return a / b }` with it gives 1 (the correction
-- step adds one), and the theorem exhibits the instance.  (Width 2: the kernel evaluates the gate list.)
def zeroEstimator (a _b : List Nat) : Bld.BM (List Nat) := do
  let z ← Bld.zeroWire
  pure (List.replicate a.length z)

def exDiv2 : List SInstr :=
  [⟨.udiv, [.var 0 2, .var 1 2], some (2, 2)⟩, ⟨.ret, [.var 2 2], none⟩]

theorem exDiv2_zeroEstimator_wrong :
    ssaCircuitEvalE zeroEstimator [(0, 2), (1, 2)] exDiv2 [3, 1] = some [(1, 2)] := by decide +kernel

example : SupportedE zeroEstimator [(0, 2), (1, 2)] exDiv2 = true := by decide +kernel

example : ∃ p ∈ divInstancesOf (Nat → Nat) [(0, 2), (1, 2)] exDiv2 [3, 1],
    ¬ EstOn zeroEstimator (inputBits [(0, 2), (1, 2)] [3, 1]) p :=
  C09_div_wrong_output_refutes_estimate_est _ _ _ (by decide +kernel) _ _
    (by decide +kernel : _ = some [(3, 2)]) (by rw [exDiv2_zeroEstimator_wrong]; decide)

-- the estimate hypothesis is satisfiable on EVERY instance with a non-zero divisor (exact estimator)
example (inp : List Bool) (n A B : Nat) (hn : 0 < n) (hB : 0 < B) : EstOn Bld.exactEstimator inp (n, A, B) :=
  EstOn_exact inp _ hn hB

-- the code's divider: the structural hypotheses of C09_program_target_equiv_div hold for a dividing program
-- (`uint1`: the kernel evaluates the Goldschmidt generator only at the smallest widths; wider instances are
-- evaluated by the compiled drivers of C03 / C07); the remaining hypothesis `hest` is the validated one
def exDiv1 : List SInstr :=
  [⟨.udiv, [.var 0 1, .var 1 1], some (2, 1)⟩, ⟨.ret, [.var 2 1], none⟩]

example : Supported false [(0, 1), (1, 1)] exDiv1 = true ∧ SupportedDiv [(0, 1), (1, 1)] exDiv1 = true ∧
    ssaEval (Nat → Nat) [(0, 1), (1, 1)] exDiv1 [1, 1] = some [(1, 1)] ∧
    divInstancesOf (Nat → Nat) [(0, 1), (1, 1)] exDiv1 [1, 1] = [(1, 1, 1)] := by
  refine ⟨?_, ?_, ?_, ?_⟩ <;> decide +kernel

-- and its conclusion, executed: both targets give 1 / 1 = 1
example : ssaCircuitEval false [(0, 1), (1, 1)] exDiv1 [1, 1] = some [(1, 1)] ∧
    ssaCircuitEval true [(0, 1), (1, 1)] exDiv1 [1, 1] = some [(1, 1)] := by
  refine ⟨?_, ?_⟩ <;> decide +kernel

end Mpc

/-
C09 (program level)  The target axis of C09 for whole SSA programs, as a
corollary of the C03 back-end theorem (`Props/C03Backend.lean`): the circuit
`ssa.Program.Circuit` assembles for a step list computes `ssaEval` of that
step list on BOTH targets, hence the Yao and the GMW circuit of one SSA program
compute the same outputs on every input on which the program has a meaning.

The hypothesis is `Supported` on both targets: every opcode of the dump except
division / modulo (the GMW divider is the Goldschmidt divider, whose quotient
estimate is a validated hypothesis in C07; and a/0 differs between the targets,
`C09_target_equivalence_fails`).  `Supported` is decidable and is evaluated by
the driver on every program of the C03 back-end tie (tag `S`).

The circuits are the ones BEFORE the optimisation passes; for each target
`C09_pipeline_preserves` (Props/C09.lean) carries the function across
ConstPropagate / ShortCircuitXORZero / Prune / Compile, so the statement
transfers to the compiled circuits for every pipeline configuration (prune
on / off).  What remains validated only: that the SSA step list handed to
`Program.Circuit` is the same for both targets (the front end does not consult
the target except for the builders; checked by the dumps of the C09 tie).
-/
import MpcVerif.Props.C03Backend

namespace Mpc
open Mpc.Mpcl Mpc.Mpcl.Ssa Mpc.SsaC

/-- Target axis, whole programs: for every SSA step list supported on both
targets and every input on which the program is defined, the circuit assembled
for the Yao target and the one assembled for the GMW target evaluate to the same
outputs (both equal the SSA semantics). -/
theorem C09_program_target_equiv (ins : List (Nat × Nat)) (steps : List SInstr)
    (hy : Supported false ins steps = true) (hg : Supported true ins steps = true)
    (args : List Nat) (r : List (Nat × Nat))
    (hr : ssaEval (Nat → Nat) ins steps args = some r) :
    ssaCircuitEval false ins steps args = ssaCircuitEval true ins steps args := by
  rw [C03_backend_correct false ins steps hy args r hr, C03_backend_correct true ins steps hg args r hr]

/-- The same with the meaning made explicit: both circuits compute `ssaEval`. -/
theorem C09_program_both_targets_compute_meaning (ins : List (Nat × Nat)) (steps : List SInstr)
    (hy : Supported false ins steps = true) (hg : Supported true ins steps = true)
    (args : List Nat) (r : List (Nat × Nat))
    (hr : ssaEval (Nat → Nat) ins steps args = some r) :
    ssaCircuitEval false ins steps args = some r ∧ ssaCircuitEval true ins steps args = some r :=
  ⟨C03_backend_correct false ins steps hy args r hr, C03_backend_correct true ins steps hg args r hr⟩

/-- Non-vacuity: `func(a uint4, b uint4) uint4 { return (a + b) * a ^ b }`-style
step list (add, mul, bxor) is supported on both targets. -/
def exBothTargets : List SInstr :=
  [⟨.add, [.var 0 4, .var 1 4], some (2, 4)⟩,
   ⟨.mul, [.var 2 4, .var 0 4], some (3, 4)⟩,
   ⟨.bxor, [.var 3 4, .var 1 4], some (4, 4)⟩,
   ⟨.ret, [.var 4 4], none⟩]

example : Supported false [(0, 4), (1, 4)] exBothTargets = true ∧
    Supported true [(0, 4), (1, 4)] exBothTargets = true := by
  refine ⟨?_, ?_⟩ <;> decide +kernel

example : ssaEval (Nat → Nat) [(0, 4), (1, 4)] exBothTargets [5, 9] = some [(15, 4)] := by decide +kernel

example : ssaCircuitEval false [(0, 4), (1, 4)] exBothTargets [5, 9] =
    ssaCircuitEval true [(0, 4), (1, 4)] exBothTargets [5, 9] :=
  C09_program_target_equiv _ _ (by decide +kernel) (by decide +kernel) _ _ (by decide +kernel : _ = some [(15, 4)])

end Mpc

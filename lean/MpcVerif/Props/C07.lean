/-
C07  Arithmetic and logic circuit builders are exact for every width.

Property theorems only; helper lemmas are in Proofs/Builders*.lean.

Every theorem is about `evalBuilder b pro x y` (`evalBuilder3` for the
multiplexer): the circuit that the harness builds with the real Go builder
(inputs `x ‖ y`, optional ZeroWire/OneWire prologue `pro` as in
`ssa.Program.CompileCircuit`, the builder, `ret` through ID gates), evaluated
gate by gate in emission order.  The Lean generators are compared gate for
gate with the real `cc.Gates` on every run (T4), so a theorem about the
generator is a theorem about that Go output.

Quantification: every operand width, every result width (where the builder
has one), both prologue variants, every operand value.  Values are
little-endian bit lists; `toNat` / `toInt` read them as unsigned / two's
complement numbers.

Builders whose statement FAILS on the current code have a `…_wrong` theorem
(negation with a concrete witness, kernel-checked by `decide`) and a
`…_partial` theorem that carries the exact guard.  After the fix commits
b4e0da3, 1a24bc4, b8285b2 only the signed comparators remain in that state
(zero extension of the narrower signed operand).

NOT proved here (validated by the oracle and, for the gate lists, by T4 only):
see the list at the end of this file.
-/
import MpcVerif.Proofs.BuildersSpec
import MpcVerif.Proofs.BuildersBridge
import MpcVerif.Proofs.BuildersKS
import MpcVerif.Proofs.BuildersMul
import MpcVerif.Proofs.BuildersDiv
import MpcVerif.Proofs.BuildersKara
import MpcVerif.Proofs.BuildersWallace
import MpcVerif.Proofs.BuildersHammingG

namespace Mpc
open Mpc.Bld

/-! ## Addition -/

/-- `NewAdder` on the Yao target (ripple carry): for all operand widths (not
both zero), every result width `nz ≥ 1` and all operand values the result has
`nz` bits and is `(x + y) mod 2^nz`. -/
theorem C07_adder (pro : Bool) (x y : List Bool) (nz : Nat)
    (hw : 0 < max x.length y.length) (hnz : 0 < nz) :
    (evalBuilder (fun a b => rippleAdder a b nz) pro x y).length = nz ∧
    toNat (evalBuilder (fun a b => rippleAdder a b nz) pro x y) = (toNat x + toNat y) % 2 ^ nz := by
  refine evalBuilder_spec (R := fun z => z.length = nz ∧ toNat z = (toNat x + toNat y) % 2 ^ nz) ?_ pro (by omega)
  intro s inp xw yw hwf hx hy hxv hyv
  have hlx : xw.length = x.length := by rw [← hxv]; simp
  have hly : yw.length = y.length := by rw [← hyv]; simp
  refine (rippleAdder_spec hwf nz hx hy (by omega) hnz).mono ?_
  intro z s' _ ⟨hb, hl, hv⟩
  exact ⟨hb, by simpa using hl, by rw [hv, hxv, hyv]⟩

-- non-vacuity: 3 + 3 = 6 on 3- and 2-bit operands, 4-bit result
example : toNat (evalBuilder (fun a b => rippleAdder a b 4) true [true, true, false] [true, true]) = 6 := by
  decide

/-- Bridge to C01: on the gate list of any well-formed builder state, the plain
circuit evaluator of Model/Circuit.lean (`Circuit.plainEval`, the model of
`circuit.Circuit.Compute` that C01 compares byte for byte with the Go code)
gives every wire the value `St.val` used by the theorems of this file. -/
theorem C07_bridge_plainEval (s : St) (inp : List Bool) (hwf : WF s inp) (nOut w : Nat) :
    ((s.toCircuit nOut).plainEval inp).get w = s.val inp w :=
  plainEval_eq_val s inp hwf nOut w

/-- The adder theorem stated on the C01 evaluator: the circuit the harness
builds around `NewAdder`, run through `Circuit.plainEval`, carries
`(x + y) mod 2^nz` on its output wires. -/
theorem C07_adder_compute_model (pro : Bool) (x y : List Bool) (nz : Nat)
    (hw : 0 < max x.length y.length) (hnz : 0 < nz) :
    toNat ((runBuilder (fun a b => rippleAdder a b nz) pro x.length y.length).2.map
      (((runBuilder (fun a b => rippleAdder a b nz) pro x.length y.length).1.toCircuit nz).plainEval
        (x ++ y)).get) = (toNat x + toNat y) % 2 ^ nz := by
  have hwf : WF (runBuilder (fun a b => rippleAdder a b nz) pro x.length y.length).1 (x ++ y) := by
    refine runBuilder_wf ?_ pro (by omega)
    intro s inp xw yw hwf hx hy hxv hyv
    have hlx : xw.length = x.length := by rw [← hxv]; simp
    have hly : yw.length = y.length := by rw [← hyv]; simp
    exact (rippleAdder_spec hwf nz hx hy (by omega) hnz).mono (fun z s' _ h => h.1)
  have := (C07_adder pro x y nz hw hnz).2
  simp only [evalBuilder] at this
  rw [← this]
  congr 1
  apply List.map_congr_left
  intro w _
  exact plainEval_eq_val _ _ hwf nz w

/-! ## Subtraction -/

/-- `NewSubtractor` on the Yao target (ripple borrow; since fix 1a24bc4 the
leftover result bits are copies of the borrow): for all operand widths, every
result width `nz ≥ 1` and all operand values the result has `nz` bits and is
`(x - y) mod 2^nz`. -/
theorem C07_sub (pro : Bool) (x y : List Bool) (nz : Nat)
    (hw : 0 < max x.length y.length) (hnz : 0 < nz) :
    (evalBuilder (fun a b => rippleSubtractor a b nz) pro x y).length = nz ∧
    (toNat (evalBuilder (fun a b => rippleSubtractor a b nz) pro x y) : Int) =
      ((toNat x : Int) - (toNat y : Int)) % ((2 ^ nz : Nat) : Int) := by
  refine evalBuilder_spec (R := fun z => z.length = nz ∧
    (toNat z : Int) = ((toNat x : Int) - (toNat y : Int)) % ((2 ^ nz : Nat) : Int)) ?_ pro (by omega)
  intro s inp xw yw hwf hx hy hxv hyv
  refine (rippleSubtractor_spec hwf nz hx hy hnz).mono ?_
  intro z s' _ ⟨hb, hl, hv⟩
  refine ⟨hb, by simpa using hl, ?_⟩
  rw [hxv, hyv] at hv
  have hlt := toNat_lt (busVal s' inp z)
  rw [busVal_length, hl] at hlt
  exact sub_mod_int _ _ _ _ hlt hv

-- 2-bit 0 - 1 into 4 bits is 15 (was 7 before fix 1a24bc4)
example : toNat (evalBuilder (fun a b => rippleSubtractor a b 4) true [false, false] [true, false]) = 15 := by
  decide

/-! ## Kogge-Stone adder and subtractor (GMW target of NewAdder / NewSubtractor) -/

/-- `NewKoggeStoneAdder` with an explicit number of prefix stages: exact for all
operand widths, every result width and all values PROVIDED `2^stages` reaches
the width of the prefix network `ksWidth = min(max(|x|,|y|)+1, nz)`.  Proof:
after `k` stages the pair `(p_i, g_i)` of position `i` covers the interval
`[max(0, i-2^k+1), i]` (`KSInv`, `KSInv_step` doubles the width). -/
theorem C07_ksAdder_stages (stages : Nat) (pro : Bool) (x y : List Bool) (nz : Nat)
    (hw : 0 < max x.length y.length) (hnz : 0 < nz)
    (hst : ksWidth x.length y.length nz ≤ 2 ^ stages) :
    (evalBuilder (fun a b => ksAdderWith stages a b nz) pro x y).length = nz ∧
    toNat (evalBuilder (fun a b => ksAdderWith stages a b nz) pro x y) = (toNat x + toNat y) % 2 ^ nz := by
  refine evalBuilder_spec (R := fun z => z.length = nz ∧ toNat z = (toNat x + toNat y) % 2 ^ nz) ?_ pro (by omega)
  intro s inp xw yw hwf hx hy hxv hyv
  have hlx : xw.length = x.length := by rw [← hxv]; simp
  have hly : yw.length = y.length := by rw [← hyv]; simp
  refine (ksAdderWith_spec hwf nz stages hx hy (by omega) hnz (by rw [hlx, hly]; exact hst)).mono ?_
  intro z s' _ ⟨hb, hl, hv⟩
  exact ⟨hb, by simpa using hl, by rw [hv, hxv, hyv]⟩

/-- `NewKoggeStoneAdder` as written (`numStages = ceil(log2 n)`): exact for all
widths, `(x + y) mod 2^nz`. -/
theorem C07_ksAdder (pro : Bool) (x y : List Bool) (nz : Nat)
    (hw : 0 < max x.length y.length) (hnz : 0 < nz) :
    (evalBuilder (fun a b => ksAdder a b nz) pro x y).length = nz ∧
    toNat (evalBuilder (fun a b => ksAdder a b nz) pro x y) = (toNat x + toNat y) % 2 ^ nz := by
  refine evalBuilder_spec (R := fun z => z.length = nz ∧ toNat z = (toNat x + toNat y) % 2 ^ nz) ?_ pro (by omega)
  intro s inp xw yw hwf hx hy hxv hyv
  have hlx : xw.length = x.length := by rw [← hxv]; simp
  have hly : yw.length = y.length := by rw [← hyv]; simp
  unfold ksAdder
  refine (ksAdderWith_spec hwf nz _ hx hy (by omega) hnz (le_two_pow_ceilLog2 _)).mono ?_
  intro z s' _ ⟨hb, hl, hv⟩
  exact ⟨hb, by simpa using hl, by rw [hv, hxv, hyv]⟩

example : toNat (evalBuilder (fun a b => ksAdder a b 7) true (ofNat 6 31) (ofNat 6 33)) = 64 := by decide +kernel

/-- The stage count is necessary: with `floor(log2 6) = 2` stages instead of
`ceil(log2 6) = 3` the 6-bit network computes `31 + 1 = 0`. -/
theorem C07_ksAdder_too_few_stages_wrong :
    Nat.log2 6 = 2 ∧ ceilLog2 6 = 3 ∧
    toNat (evalBuilder (fun a b => ksAdderWith 2 a b 6) true (ofNat 6 31) (ofNat 6 1)) = 0 ∧
    toNat (evalBuilder (fun a b => ksAdderWith 3 a b 6) true (ofNat 6 31) (ofNat 6 1)) = 32 := by
  decide +kernel

/-- `NewKoggeStoneSubtractor` with an explicit number of prefix stages: exact
for all widths when `2^stages` reaches the network width. -/
theorem C07_ksSub_stages (stages : Nat) (pro : Bool) (x y : List Bool) (nz : Nat)
    (hw : 0 < max x.length y.length) (hnz : 0 < nz)
    (hst : ksWidth x.length y.length nz ≤ 2 ^ stages) :
    (evalBuilder (fun a b => ksSubtractorWith stages a b nz) pro x y).length = nz ∧
    (toNat (evalBuilder (fun a b => ksSubtractorWith stages a b nz) pro x y) : Int) =
      ((toNat x : Int) - (toNat y : Int)) % ((2 ^ nz : Nat) : Int) := by
  refine evalBuilder_spec (R := fun z => z.length = nz ∧
    (toNat z : Int) = ((toNat x : Int) - (toNat y : Int)) % ((2 ^ nz : Nat) : Int)) ?_ pro (by omega)
  intro s inp xw yw hwf hx hy hxv hyv
  have hlx : xw.length = x.length := by rw [← hxv]; simp
  have hly : yw.length = y.length := by rw [← hyv]; simp
  refine (ksSubtractorWith_spec hwf nz stages hx hy (by omega) hnz (by rw [hlx, hly]; exact hst)).mono ?_
  intro z s' _ ⟨hb, hl, hv⟩
  refine ⟨hb, by simpa using hl, ?_⟩
  rw [hxv, hyv] at hv
  have hlt := toNat_lt (busVal s' inp z)
  rw [busVal_length, hl] at hlt
  exact sub_mod_int _ _ _ _ hlt hv

/-- `NewKoggeStoneSubtractor` as written (`for step := 1; step < n; step *= 2`,
i.e. `ceil(log2 n)` stages; leftover bits = borrow since fix 1a24bc4): exact for
all widths, `(x - y) mod 2^nz`. -/
theorem C07_ksSub (pro : Bool) (x y : List Bool) (nz : Nat)
    (hw : 0 < max x.length y.length) (hnz : 0 < nz) :
    (evalBuilder (fun a b => ksSubtractor a b nz) pro x y).length = nz ∧
    (toNat (evalBuilder (fun a b => ksSubtractor a b nz) pro x y) : Int) =
      ((toNat x : Int) - (toNat y : Int)) % ((2 ^ nz : Nat) : Int) := by
  have := C07_ksSub_stages (ceilLog2 (ksWidth x.length y.length nz)) pro x y nz hw hnz (le_two_pow_ceilLog2 _)
  have hdef : (fun a b : List Nat => ksSubtractor a b nz) =
      fun a b => ksSubtractorWith (ceilLog2 (ksWidth a.length b.length nz)) a b nz := rfl
  refine evalBuilder_spec (R := fun z => z.length = nz ∧
    (toNat z : Int) = ((toNat x : Int) - (toNat y : Int)) % ((2 ^ nz : Nat) : Int)) ?_ pro (by omega)
  intro s inp xw yw hwf hx hy hxv hyv
  have hlx : xw.length = x.length := by rw [← hxv]; simp
  have hly : yw.length = y.length := by rw [← hyv]; simp
  unfold ksSubtractor
  refine (ksSubtractorWith_spec hwf nz _ hx hy (by omega) hnz (le_two_pow_ceilLog2 _)).mono ?_
  intro z s' _ ⟨hb, hl, hv⟩
  refine ⟨hb, by simpa using hl, ?_⟩
  rw [hxv, hyv] at hv
  have hlt := toNat_lt (busVal s' inp z)
  rw [busVal_length, hl] at hlt
  exact sub_mod_int _ _ _ _ hlt hv

example : toNat (evalBuilder (fun a b => ksSubtractor a b 8) true (ofNat 6 0) (ofNat 6 1)) = 255 := by
  decide +kernel

/-- The stage count is necessary for the subtractor as well: with 2 stages the
6-bit network computes `32 - 0 = 0`. -/
theorem C07_ksSub_too_few_stages_wrong :
    toNat (evalBuilder (fun a b => ksSubtractorWith 2 a b 6) true (ofNat 6 32) (ofNat 6 0)) = 0 ∧
    toNat (evalBuilder (fun a b => ksSubtractorWith 3 a b 6) true (ofNat 6 32) (ofNat 6 0)) = 32 := by
  decide +kernel

/-! ## Ordered comparisons -/

/-- `NewUint{Gt,Ge,Lt,Le}Comparator`: for all operand widths and values the
single result bit is the comparison of the unsigned values. -/
theorem C07_ucmp (k : CmpKind) (pro : Bool) (x y : List Bool) (hw : 0 < x.length + y.length) :
    evalBuilder (comparator false k) pro x y = [k.relNat (toNat x) (toNat y)] := by
  refine evalBuilder_spec (R := fun z => z = [k.relNat (toNat x) (toNat y)]) ?_ pro hw
  intro s inp xw yw hwf hx hy hxv hyv
  refine (ucomparator_spec hwf k hx hy).mono ?_
  intro z s' _ ⟨hb, hv⟩
  exact ⟨hb, by rw [hv, hxv, hyv]⟩

example : evalBuilder (comparator false .gt) true [true, true, false] [false, true] = [true] := by decide

/- Full statement for the signed comparators (FALSE for unequal widths, see
   `C07_intCmp_unequal_wrong`): result = rel (toInt x) (toInt y). -/

/-- `NewInt{Gt,Ge,Lt,Le}Comparator`, every width: the result bit is the signed
comparison of the operands ZERO-padded to the common width (what the code
does: `cc.ZeroPad` then two's complement at the common width). -/
theorem C07_intCmp_partial (k : CmpKind) (pro : Bool) (x y : List Bool) (hw : 0 < max x.length y.length) :
    evalBuilder (comparator true k) pro x y =
      [k.relInt (toInt (padTo x (max x.length y.length))) (toInt (padTo y (max x.length y.length)))] := by
  refine evalBuilder_spec (R := fun z => z =
    [k.relInt (toInt (padTo x (max x.length y.length))) (toInt (padTo y (max x.length y.length)))]) ?_ pro
    (by omega)
  intro s inp xw yw hwf hx hy hxv hyv
  have hlx : xw.length = x.length := by rw [← hxv]; simp
  have hly : yw.length = y.length := by rw [← hyv]; simp
  refine (icomparator_spec hwf k hx hy (by omega)).mono ?_
  intro z s' _ ⟨hb, hv⟩
  exact ⟨hb, by rw [hv, hxv, hyv, hlx, hly]⟩

/-- Signed comparators are exact for equal operand widths: the result bit is
the comparison of the two's complement values. -/
theorem C07_intCmp_equal_width (k : CmpKind) (pro : Bool) (x y : List Bool) (hl : x.length = y.length)
    (hw : 0 < x.length) :
    evalBuilder (comparator true k) pro x y = [k.relInt (toInt x) (toInt y)] := by
  rw [C07_intCmp_partial k pro x y (by omega)]
  have hx : padTo x (max x.length y.length) = x := by simp [padTo, hl]
  have hy : padTo y (max x.length y.length) = y := by simp [padTo, hl]
  rw [hx, hy]

example : evalBuilder (comparator true .lt) true [true, true] [true, false] = [true] := by decide  -- -1 < 1

/-- Negation witness for unequal widths: `x = -1` (2 bits), `y = 3` (3 bits):
`x < y` but `NewIntLtComparator` answers false (the narrower operand is zero
extended).  Replayed on the Go code: `c07 one -extra "ilt 0 1 2 3 0 1 0 0 3 3 0"`. -/
theorem C07_intCmp_unequal_wrong :
    evalBuilder (comparator true .lt) true [true, true] [true, true, false] = [false] ∧
    toInt [true, true] < toInt [true, true, false] := by
  decide

/-! ## Equality -/

/-- `NewEqComparator`: for all widths the result bit is `x = y` (as numbers). -/
theorem C07_eq (pro : Bool) (x y : List Bool) (hw : 0 < max x.length y.length) :
    evalBuilder eqComparator pro x y = [decide (toNat x = toNat y)] := by
  refine evalBuilder_spec (R := fun z => z = [decide (toNat x = toNat y)]) ?_ pro (by omega)
  intro s inp xw yw hwf hx hy hxv hyv
  have hlx : xw.length = x.length := by rw [← hxv]; simp
  have hly : yw.length = y.length := by rw [← hyv]; simp
  refine (eqComparator_spec hwf hx hy (by omega)).mono ?_
  intro z s' _ ⟨hb, hv⟩
  exact ⟨hb, by rw [hv, hxv, hyv]⟩

/-- `NewNeqComparator`. -/
theorem C07_neq (pro : Bool) (x y : List Bool) (hw : 0 < max x.length y.length) :
    evalBuilder neqComparator pro x y = [decide (toNat x ≠ toNat y)] := by
  refine evalBuilder_spec (R := fun z => z = [decide (toNat x ≠ toNat y)]) ?_ pro (by omega)
  intro s inp xw yw hwf hx hy hxv hyv
  have hlx : xw.length = x.length := by rw [← hxv]; simp
  have hly : yw.length = y.length := by rw [← hyv]; simp
  refine (neqComparator_spec hwf hx hy (by omega)).mono ?_
  intro z s' _ ⟨hb, hv⟩
  exact ⟨hb, by rw [hv, hxv, hyv]⟩

example : evalBuilder eqComparator false [true, false, true] [true, false, true, false, false] = [true] := by
  decide

/-! ## Multiplexer -/

/-- `NewMUX(cond, t, f, out)` with `len(out) = max(len t, len f)`: the result is
`t` if the condition bit is set, else `f` (zero padded to the result width). -/
theorem C07_mux (pro : Bool) (t f : List Bool) (c : Bool) :
    evalBuilder3 (fun tw fw cw => do
        let r ← newMUX (cw.getD 0 0) tw fw (max tw.length fw.length)
        pure (r.getD [])) pro t f [c] =
      if c then padTo t (max t.length f.length) else padTo f (max t.length f.length) := by
  refine evalBuilder3_spec (R := fun z => z =
    if c then padTo t (max t.length f.length) else padTo f (max t.length f.length)) ?_ pro (by simp)
  intro s inp tw fw cw hwf ht hf hc htv hfv hcv
  have hlt : tw.length = t.length := by rw [← htv]; simp
  have hlf : fw.length = f.length := by rw [← hfv]; simp
  have hlc : cw.length = 1 := by have := congrArg List.length hcv; simpa using this
  have hcb : cw.getD 0 0 < s.next := getD_bnd hc 0 (by omega)
  have hcval : s.val inp (cw.getD 0 0) = c := by
    rw [val_getD cw 0 (by omega), hcv]; rfl
  refine (newMUX_spec hwf ht hf hcb).map ?_
  intro z s' _ ⟨r, hz, hb, hv⟩
  subst hz
  exact ⟨hb, by rw [Option.getD_some, hv, hcval, htv, hfv, hlt, hlf]⟩

example : evalBuilder3 (fun tw fw cw => do
    let r ← newMUX (cw.getD 0 0) tw fw (max tw.length fw.length)
    pure (r.getD [])) true [true, true] [false, true, true] [true] = [true, true, false] := by decide

/-! ## Bitwise operations -/

/-- `NewBinaryAND`: for every result width `nz` up to the operand width, bit `i`
of the result is `x_i ∧ y_i` (operands zero padded to the common width). -/
theorem C07_band (pro : Bool) (x y : List Bool) (nz : Nat) (hw : 0 < x.length + y.length) :
    evalBuilder (fun a b => binaryAnd a b nz) pro x y =
      List.zipWith (· && ·) ((padTo x (max x.length y.length)).take nz)
        ((padTo y (max x.length y.length)).take nz) := by
  refine evalBuilder_spec (R := fun z => z = List.zipWith (· && ·) ((padTo x (max x.length y.length)).take nz)
    ((padTo y (max x.length y.length)).take nz)) ?_ pro hw
  intro s inp xw yw hwf hx hy hxv hyv
  have hlx : xw.length = x.length := by rw [← hxv]; simp
  have hly : yw.length = y.length := by rw [← hyv]; simp
  refine (binaryOp_spec hwf (gate .and) (· && ·) (fun s a b h1 h2 h3 => gateF_spec .and s a b h1 h2 h3)
    nz hx hy).mono ?_
  intro z s' _ ⟨hb, hv⟩
  exact ⟨hb, by rw [hv, hxv, hyv, hlx, hly]⟩

/-- `NewBinaryOR`. -/
theorem C07_bor (pro : Bool) (x y : List Bool) (nz : Nat) (hw : 0 < x.length + y.length) :
    evalBuilder (fun a b => binaryOr a b nz) pro x y =
      List.zipWith (· || ·) ((padTo x (max x.length y.length)).take nz)
        ((padTo y (max x.length y.length)).take nz) := by
  refine evalBuilder_spec (R := fun z => z = List.zipWith (· || ·) ((padTo x (max x.length y.length)).take nz)
    ((padTo y (max x.length y.length)).take nz)) ?_ pro hw
  intro s inp xw yw hwf hx hy hxv hyv
  have hlx : xw.length = x.length := by rw [← hxv]; simp
  have hly : yw.length = y.length := by rw [← hyv]; simp
  refine (binaryOp_spec hwf or (· || ·) (fun s a b h1 h2 h3 => orF_spec s a b h1 h2 h3) nz hx hy).mono ?_
  intro z s' _ ⟨hb, hv⟩
  exact ⟨hb, by rw [hv, hxv, hyv, hlx, hly]⟩

/-- `NewBinaryXOR`. -/
theorem C07_bxor (pro : Bool) (x y : List Bool) (nz : Nat) (hw : 0 < x.length + y.length) :
    evalBuilder (fun a b => binaryXor a b nz) pro x y =
      List.zipWith (· != ·) ((padTo x (max x.length y.length)).take nz)
        ((padTo y (max x.length y.length)).take nz) := by
  refine evalBuilder_spec (R := fun z => z = List.zipWith (· != ·) ((padTo x (max x.length y.length)).take nz)
    ((padTo y (max x.length y.length)).take nz)) ?_ pro hw
  intro s inp xw yw hwf hx hy hxv hyv
  have hlx : xw.length = x.length := by rw [← hxv]; simp
  have hly : yw.length = y.length := by rw [← hyv]; simp
  refine (binaryOp_spec hwf (gate .xor) (· != ·) (fun s a b h1 h2 h3 => gateF_spec .xor s a b h1 h2 h3)
    nz hx hy).mono ?_
  intro z s' _ ⟨hb, hv⟩
  exact ⟨hb, by rw [hv, hxv, hyv, hlx, hly]⟩

/-- `NewBinaryClear` (`x &^ y`). -/
theorem C07_bclr (pro : Bool) (x y : List Bool) (nz : Nat) (hw : 0 < x.length + y.length) :
    evalBuilder (fun a b => binaryClear a b nz) pro x y =
      List.zipWith (fun a b => a && !b) ((padTo x (max x.length y.length)).take nz)
        ((padTo y (max x.length y.length)).take nz) := by
  refine evalBuilder_spec (R := fun z => z = List.zipWith (fun a b => a && !b)
    ((padTo x (max x.length y.length)).take nz) ((padTo y (max x.length y.length)).take nz)) ?_ pro hw
  intro s inp xw yw hwf hx hy hxv hyv
  have hlx : xw.length = x.length := by rw [← hxv]; simp
  have hly : yw.length = y.length := by rw [← hyv]; simp
  refine (binaryOp_spec hwf (fun a b => do let w ← inv b; gate .and a w) (fun a b => a && !b)
    (fun s a b h1 h2 h3 => clearF_spec s a b h1 h2 h3) nz hx hy).mono ?_
  intro z s' _ ⟨hb, hv⟩
  exact ⟨hb, by rw [hv, hxv, hyv, hlx, hly]⟩

example : evalBuilder (fun a b => binaryClear a b 3) true [true, true, true] [false, true] = [true, false, true] := by
  decide

/-! ## Logical operations and bit tests -/

/-- `NewLogicalAND` / `NewLogicalOR` on 1-bit operands. -/
theorem C07_logical (pro : Bool) (a b : Bool) :
    evalBuilder logicalAnd pro [a] [b] = [a && b] ∧ evalBuilder logicalOr pro [a] [b] = [a || b] := by
  constructor
  · refine evalBuilder_spec (R := fun z => z = [a && b]) ?_ pro (by simp)
    intro s inp xw yw hwf hx hy hxv hyv
    have hlx : xw.length = 1 := by have := congrArg List.length hxv; simpa using this
    have hly : yw.length = 1 := by have := congrArg List.length hyv; simpa using this
    refine (logicalAnd_spec hwf hx hy (by omega) (by omega)).mono ?_
    intro z s' _ ⟨hb, hv⟩
    exact ⟨hb, by rw [hv, hxv, hyv]; rfl⟩
  · refine evalBuilder_spec (R := fun z => z = [a || b]) ?_ pro (by simp)
    intro s inp xw yw hwf hx hy hxv hyv
    have hlx : xw.length = 1 := by have := congrArg List.length hxv; simpa using this
    have hly : yw.length = 1 := by have := congrArg List.length hyv; simpa using this
    refine (logicalOr_spec hwf hx hy (by omega) (by omega)).mono ?_
    intro z s' _ ⟨hb, hv⟩
    exact ⟨hb, by rw [hv, hxv, hyv]; rfl⟩

/-- `NewBitSetTest` / `NewBitClrTest` for every operand width and every index
(also outside the operand). -/
theorem C07_bittest (pro : Bool) (x y : List Bool) (index : Nat) (hw : 0 < x.length + y.length) :
    evalBuilder (fun a _ => bitSetTest a index) pro x y = [x.getD index false] ∧
    evalBuilder (fun a _ => bitClrTest a index) pro x y = [!x.getD index false] := by
  constructor
  · refine evalBuilder_spec (R := fun z => z = [x.getD index false]) ?_ pro hw
    intro s inp xw yw hwf hx hy hxv hyv
    refine (bitSetTest_spec hwf index hx).mono ?_
    intro z s' _ ⟨hb, hv⟩
    exact ⟨hb, by rw [hv, hxv]⟩
  · refine evalBuilder_spec (R := fun z => z = [!x.getD index false]) ?_ pro hw
    intro s inp xw yw hwf hx hy hxv hyv
    refine (bitClrTest_spec hwf index hx).mono ?_
    intro z s' _ ⟨hb, hv⟩
    exact ⟨hb, by rw [hv, hxv]⟩

example : evalBuilder (fun a _ => bitSetTest a 2) false [false, false, true] [false] = [true] := by decide

/-! ## Array index -/

/-- `NewIndex(size, array, index, out)` for every element size `size ≥ 1`, every
element count `n ≥ 1`, every index width `≥ 1`: the result is element
`index mod 2^bits` of the array (split into `size`-bit elements), where `bits`
is the number of index bits the builder uses (`2^bits ≥ n`; index bits above
that are ignored, missing index bits read 0), and all zeros when that element
number is outside the array. -/
theorem C07_index (pro : Bool) (size n : Nat) (arr idx : List Bool) (hal : arr.length = n * size)
    (hsz : 0 < size) (hn : 0 < n) (hil : 0 < idx.length) :
    evalBuilder (newIndex size) pro arr idx =
      (chunks size n arr).getD (toNat (idx.take (indexBits n n 1 2).1)) (List.replicate size false) := by
  refine evalBuilder_spec (R := fun z => z =
    (chunks size n arr).getD (toNat (idx.take (indexBits n n 1 2).1)) (List.replicate size false)) ?_ pro (by omega)
  intro s inp aw iw hwf ha hi hav hiv
  have hla : aw.length = n * size := by rw [← hal, ← hav]; simp
  have hli : 0 < iw.length := by rw [← hiv] at hil; simpa using hil
  refine (newIndex_spec hwf size n ha hi hla hsz hn hli).mono ?_
  intro z s' _ ⟨hb, _, hv⟩
  exact ⟨hb, by rw [hv, hav, hiv]⟩

-- 3 elements of 2 bits, index 2 (binary 01 little endian = [false, true]) selects the third element
example : evalBuilder (newIndex 2) true [true, false, false, true, true, true] [false, true] = [true, true] := by
  decide +kernel
-- index 3 is outside the 3-element array: zero
example : evalBuilder (newIndex 2) true [true, false, false, true, true, true] [true, true] = [false, false] := by
  decide +kernel

/-! ## Hamming distance -/

/-- `Hamming` on either target (adder tree of `NewAdder`: ripple carry or
Kogge-Stone) for every operand width ≥ 1 (the 1-bit case since fix b8285b2) and
every result width: the result is the number of bit positions in which the
(zero padded) operands differ, modulo `2^nz`. -/
theorem C07_hamming (gmw pro : Bool) (x y : List Bool) (nz : Nat)
    (hw : 1 ≤ max x.length y.length) (hnz : 0 < nz) :
    (evalBuilder (fun a b => hamming gmw a b nz) pro x y).length = nz ∧
    toNat (evalBuilder (fun a b => hamming gmw a b nz) pro x y) =
      popDiff ((padTo x (max x.length y.length)).zip (padTo y (max x.length y.length))) % 2 ^ nz := by
  refine evalBuilder_spec (R := fun z => z.length = nz ∧ toNat z =
    popDiff ((padTo x (max x.length y.length)).zip (padTo y (max x.length y.length))) % 2 ^ nz) ?_ pro (by omega)
  intro s inp xw yw hwf hx hy hxv hyv
  have hlx : xw.length = x.length := by rw [← hxv]; simp
  have hly : yw.length = y.length := by rw [← hyv]; simp
  refine (hammingG_spec hwf gmw nz hx hy (by omega) hnz).mono ?_
  intro z s' _ ⟨hb, hl, hv⟩
  exact ⟨hb, by simpa using hl, by rw [hv, hxv, hyv, hlx, hly]⟩

example : toNat (evalBuilder (fun a b => hamming false a b 3) true [true, false, true] [false, false, false, true]) = 3 := by
  decide +kernel
example : toNat (evalBuilder (fun a b => hamming false a b 2) true [true] [false]) = 1 := by
  decide +kernel

/-! ## Array multiplier -/

/-- `NewArrayMultiplier` is exact for every operand width and every result
width (narrower than, equal to and wider than twice the operand width; the
surplus bits are zero since fix b4e0da3): `(x · y) mod 2^nz`.  Proof by the
row-accumulation invariant: after row `j` the result bits `z[0..j]` and the
running sums satisfy `z + 2^(j+1)·sums = x · (y mod 2^(j+1))`. -/
theorem C07_arrayMult (pro : Bool) (x y : List Bool) (nz : Nat)
    (hw : 0 < max x.length y.length) (hnz : 0 < nz) :
    (evalBuilder (fun a b => arrayMultiplier a b nz) pro x y).length = nz ∧
    toNat (evalBuilder (fun a b => arrayMultiplier a b nz) pro x y) = (toNat x * toNat y) % 2 ^ nz := by
  refine evalBuilder_spec (R := fun z => z.length = nz ∧ toNat z = (toNat x * toNat y) % 2 ^ nz) ?_ pro (by omega)
  intro s inp xw yw hwf hx hy hxv hyv
  have hlx : xw.length = x.length := by rw [← hxv]; simp
  have hly : yw.length = y.length := by rw [← hyv]; simp
  refine (arrayMultiplier_spec hwf nz hx hy (by omega) hnz).mono ?_
  intro z s' _ ⟨hb, hl, hv⟩
  exact ⟨hb, by simpa using hl, by rw [hv, hxv, hyv]⟩

-- 3 * 3 = 9 in 4 bits; 2-bit 1 * 2 into 6 bits is 2 (was 0 before fix b4e0da3)
example : toNat (evalBuilder (fun a b => arrayMultiplier a b 4) true [true, true] [true, true]) = 9 := by
  decide +kernel
example : toNat (evalBuilder (fun a b => arrayMultiplier a b 6) true [true, false] [false, true]) = 2 := by
  decide +kernel

/-! ## Karatsuba multiplier -/

/-- `NewKaratsubaMultiplier` for EVERY array threshold `limit ≥ 3` (limits below
3 make the Go recursion non-terminating; the compiler uses limits ≥ 8), on
either target (its adders / subtractors are `NewAdder` / `NewSubtractor`), all
operand and result widths: `(x · y) mod 2^nz`.  From the adder, subtractor
(exact for every result width since fix 1a24bc4 — the recombination no longer
depends on the absence of a borrow) and array-multiplier theorems and the
identity `z2·P² + (z1 - z2 - z0)·P + z0 = (al + P·ah)(bl + P·bh)` modulo `2^nz`. -/
theorem C07_karatsuba (gmw : Bool) (limit : Nat) (hlim : 3 ≤ limit) (pro : Bool) (x y : List Bool) (nz : Nat)
    (hw : 0 < max x.length y.length) (hnz : 0 < nz) :
    (evalBuilder (fun a b => do
        let r ← karatsuba gmw limit (2 * max a.length b.length + 8) a b nz
        pure (r.getD [])) pro x y).length = nz ∧
    toNat (evalBuilder (fun a b => do
        let r ← karatsuba gmw limit (2 * max a.length b.length + 8) a b nz
        pure (r.getD [])) pro x y) = (toNat x * toNat y) % 2 ^ nz := by
  refine evalBuilder_spec (R := fun z => z.length = nz ∧ toNat z = (toNat x * toNat y) % 2 ^ nz) ?_ pro (by omega)
  intro s inp xw yw hwf hx hy hxv hyv
  have hlx : xw.length = x.length := by rw [← hxv]; simp
  have hly : yw.length = y.length := by rw [← hyv]; simp
  have : 2 * max xw.length yw.length + 8 = (2 * max xw.length yw.length + 7) + 1 := by omega
  rw [this]
  refine (karatsuba_spec gmw limit hlim _ xw yw nz hwf hx hy (by omega) hnz (by omega)).map ?_
  intro z s' _ ⟨r, hz, hb, hl, hv⟩
  subst hz
  exact ⟨hb, by simpa using hl, by rw [Option.getD_some, hv, hxv, hyv]⟩

/-- `NewMultiplier` on the Yao target (Karatsuba with the per-width threshold
table, array multiplier below the threshold): exact for all widths. -/
theorem C07_mul_yao (pro : Bool) (x y : List Bool) (nz : Nat)
    (hw : 0 < max x.length y.length) (hnz : 0 < nz) :
    (evalBuilder (fun a b => do let r ← newMultiplier false a b nz; pure (r.getD [])) pro x y).length = nz ∧
    toNat (evalBuilder (fun a b => do let r ← newMultiplier false a b nz; pure (r.getD [])) pro x y) =
      (toNat x * toNat y) % 2 ^ nz := by
  refine evalBuilder_spec (R := fun z => z.length = nz ∧ toNat z = (toNat x * toNat y) % 2 ^ nz) ?_ pro (by omega)
  intro s inp xw yw hwf hx hy hxv hyv
  have hlx : xw.length = x.length := by rw [← hxv]; simp
  have hly : yw.length = y.length := by rw [← hyv]; simp
  refine (newMultiplierYao_spec hwf nz hx hy (by omega) hnz).map ?_
  intro z s' _ ⟨r, hz, hb, hl, hv⟩
  subst hz
  exact ⟨hb, by simpa using hl, by rw [Option.getD_some, hv, hxv, hyv]⟩

-- 5-bit 27 * 19 = 513 with limit 3 (two recursion levels)
example : toNat (evalBuilder (fun a b => do
    let r ← karatsuba false 3 (2 * max a.length b.length + 8) a b 10
    pure (r.getD [])) true (ofNat 5 27) (ofNat 5 19)) = 513 := by decide +kernel

/-! ## Wallace-tree multiplier (GMW target of NewMultiplier) -/

/-- `NewWallaceMultiplier`: exact for all operand and result widths,
`(x · y) mod 2^nz`.  Proof: the weighted column sum `Σ_i 2^i·|column_i|` equals
`x·y` after the partial products, is preserved modulo `2^(2nz)` by every 3:2 /
2:2 compression round (`wlRound_spec`), the column height shrinks every round
until it is at most 2 (`wlLoop_spec`), and the two remaining rows are added by
the Kogge-Stone adder (`C07_ksAdder`). -/
theorem C07_wallace (pro : Bool) (x y : List Bool) (nz : Nat)
    (hw : 0 < x.length + y.length) (hnz : 0 < nz) :
    (evalBuilder (fun a b => wallace a b nz) pro x y).length = nz ∧
    toNat (evalBuilder (fun a b => wallace a b nz) pro x y) = (toNat x * toNat y) % 2 ^ nz := by
  refine evalBuilder_spec (R := fun z => z.length = nz ∧ toNat z = (toNat x * toNat y) % 2 ^ nz) ?_ pro hw
  intro s inp xw yw hwf hx hy hxv hyv
  refine (wallace_spec hwf nz hx hy hnz).mono ?_
  intro z s' _ ⟨hb, hl, hv⟩
  exact ⟨hb, by simpa using hl, by rw [hv, hxv, hyv]⟩

/-- `NewMultiplier` on the GMW target (= `NewWallaceMultiplier`). -/
theorem C07_mul_gmw (pro : Bool) (x y : List Bool) (nz : Nat)
    (hw : 0 < x.length + y.length) (hnz : 0 < nz) :
    toNat (evalBuilder (fun a b => do let r ← newMultiplier true a b nz; pure (r.getD [])) pro x y) =
      (toNat x * toNat y) % 2 ^ nz := by
  refine evalBuilder_spec (R := fun z => toNat z = (toNat x * toNat y) % 2 ^ nz) ?_ pro hw
  intro s inp xw yw hwf hx hy hxv hyv
  unfold newMultiplier
  simp only [if_true]
  have h1 : Spec inp s (do let r ← wallace xw yw nz; pure (some r))
      (fun z s' => ∃ r, z = some r ∧ Bnd s' r ∧
        toNat (busVal s' inp r) = (toNat (busVal s inp xw) * toNat (busVal s inp yw)) % 2 ^ nz) :=
    (wallace_spec hwf nz hx hy hnz).map (fun z s' _ ⟨hb, _, hv⟩ => ⟨z, rfl, hb, hv⟩)
  refine h1.map ?_
  intro z s' _ ⟨r, hz, hb, hv⟩
  subst hz
  exact ⟨hb, by rw [Option.getD_some, hv, hxv, hyv]⟩

example : toNat (evalBuilder (fun a b => wallace a b 8) true (ofNat 4 13) (ofNat 4 11)) = 143 := by
  decide +kernel

/-! ## Long division (Yao target of NewUDivider / NewIDivider) -/

/-- `NewUDividerLong` (on either target: its subtractor is `NewSubtractor`),
quotient: for all operand widths, every quotient width `nz ≤ max(|x|,|y|)`
(wider quotient wires stay unconnected in the Go code) and every non-zero
divisor the result is `(x / y) mod 2^nz`.  Proof: restoring-division invariant
`a_top = q·b + r, r < b` over the dividend bits (`divLongLoop_spec`). -/
theorem C07_udiv (gmw pro : Bool) (x y : List Bool) (nz : Nat)
    (hw : 0 < max x.length y.length) (hnz : nz ≤ max x.length y.length) (hy : toNat y ≠ 0) :
    (evalBuilder (fun a b => do let d ← uDividerLong gmw a b nz 0; pure d.1) pro x y).length = nz ∧
    toNat (evalBuilder (fun a b => do let d ← uDividerLong gmw a b nz 0; pure d.1) pro x y) =
      (toNat x / toNat y) % 2 ^ nz := by
  refine evalBuilder_spec (R := fun z => z.length = nz ∧ toNat z = (toNat x / toNat y) % 2 ^ nz) ?_ pro (by omega)
  intro s inp xw yw hwf hx hy' hxv hyv
  have hlx : xw.length = x.length := by rw [← hxv]; simp
  have hly : yw.length = y.length := by rw [← hyv]; simp
  refine (uDividerLong_spec hwf gmw nz 0 hx hy' (by omega) (by rw [hyv]; omega)).map ?_
  intro t s' _ ⟨h1, _, h1l, _, hq, _⟩
  have hmin : min nz (max xw.length yw.length) = nz := by omega
  rw [hmin] at h1l hq
  exact ⟨h1, by simpa using h1l, by rw [hq, hxv, hyv]⟩

/-- `NewUDividerLong`, remainder: `(x mod y) mod 2^nz` for `nz ≤ max(|x|,|y|)`,
non-zero divisor. -/
theorem C07_umod (gmw pro : Bool) (x y : List Bool) (nz : Nat)
    (hw : 0 < max x.length y.length) (hnz : nz ≤ max x.length y.length) (hy : toNat y ≠ 0) :
    (evalBuilder (fun a b => do let d ← uDividerLong gmw a b 0 nz; pure d.2) pro x y).length = nz ∧
    toNat (evalBuilder (fun a b => do let d ← uDividerLong gmw a b 0 nz; pure d.2) pro x y) =
      (toNat x % toNat y) % 2 ^ nz := by
  refine evalBuilder_spec (R := fun z => z.length = nz ∧ toNat z = (toNat x % toNat y) % 2 ^ nz) ?_ pro (by omega)
  intro s inp xw yw hwf hx hy' hxv hyv
  have hlx : xw.length = x.length := by rw [← hxv]; simp
  have hly : yw.length = y.length := by rw [← hyv]; simp
  refine (uDividerLong_spec hwf gmw 0 nz hx hy' (by omega) (by rw [hyv]; omega)).map ?_
  intro t s' _ ⟨_, h2, _, h2l, _, hr⟩
  have hmin : min nz (max xw.length yw.length) = nz := by omega
  rw [hmin] at h2l
  exact ⟨h2, by simpa using h2l, by rw [hr, hxv, hyv]⟩

example : toNat (evalBuilder (fun a b => do let d ← uDividerLong false a b 7 0; pure d.1) true
    (ofNat 7 127) (ofNat 7 13)) = 9 := by decide +kernel
example : toNat (evalBuilder (fun a b => do let d ← uDividerLong false a b 0 7; pure d.2) true
    (ofNat 7 127) (ofNat 7 13)) = 10 := by decide +kernel

/- Full statement for the signed divider (FALSE for unequal operand widths:
   the narrower operand is zero extended, oracle findings
   C07-signed-div-zero-extends; and for a quotient wider than the operands:
   C07-signed-div-quotient-not-sign-extended). -/

/-- `NewIDivider` on the Yao target for EQUAL operand widths, quotient width
`nz ≤ n`, non-zero divisor: the quotient truncates toward zero
(`Int.tdiv`), reduced modulo `2^nz` — the specification fixed by
testsuite/lang/divi.mpcl. -/
theorem C07_idiv_equal_width (pro : Bool) (x y : List Bool) (nz : Nat) (hl : x.length = y.length)
    (hw : 0 < x.length) (hnz : nz ≤ x.length) (hy : toInt y ≠ 0) :
    (evalBuilder (fun a b => do let d ← iDivider false a b nz 0; pure d.1) pro x y).length = nz ∧
    (toNat (evalBuilder (fun a b => do let d ← iDivider false a b nz 0; pure d.1) pro x y) : Int) =
      (Int.tdiv (toInt x) (toInt y)) % ((2 ^ nz : Nat) : Int) := by
  have hxne : x ≠ [] := by intro h; rw [h] at hw; simp at hw
  have hyne : y ≠ [] := by intro h; rw [h] at hl; simp only [List.length_nil] at hl; omega
  refine evalBuilder_spec (R := fun z => z.length = nz ∧
    (toNat z : Int) = (Int.tdiv (toInt x) (toInt y)) % ((2 ^ nz : Nat) : Int)) ?_ pro (by omega)
  intro s inp xw yw hwf hx hy' hxv hyv
  have hlx : xw.length = x.length := by rw [← hxv]; simp
  have hly : yw.length = y.length := by rw [← hyv]; simp
  have hmx : max xw.length yw.length = x.length := by omega
  have hpx : padTo (busVal s inp xw) (max xw.length yw.length) = x := by rw [hxv, hmx]; simp [padTo]
  have hpy : padTo (busVal s inp yw) (max xw.length yw.length) = y := by rw [hyv, hmx]; simp [padTo, hl]
  have hB : 0 < absN (padTo (busVal s inp yw) (max xw.length yw.length)) := by
    rw [hpy, ← (toInt_sign_abs y hyne).2]; exact Int.natAbs_pos.mpr hy
  refine (iDivider_spec hwf false nz 0 hx hy' (by omega) (by omega) hB).map ?_
  intro t s' _ ⟨h1, _, h1l, _, hq, _⟩
  rw [hpx, hpy] at hq
  exact ⟨h1, by simpa using h1l, by rw [hq]; exact signed_quotient x y hxne hyne nz⟩

/-- `NewIDivider` on the Yao target, remainder, equal operand widths: `|x| mod |y|`
(the specification fixed by testsuite/lang/modi.mpcl, not Go's `%`). -/
theorem C07_imod_equal_width (pro : Bool) (x y : List Bool) (nz : Nat) (hl : x.length = y.length)
    (hw : 0 < x.length) (hnz : nz ≤ x.length) (hy : toInt y ≠ 0) :
    (evalBuilder (fun a b => do let d ← iDivider false a b 0 nz; pure d.2) pro x y).length = nz ∧
    toNat (evalBuilder (fun a b => do let d ← iDivider false a b 0 nz; pure d.2) pro x y) =
      ((toInt x).natAbs % (toInt y).natAbs) % 2 ^ nz := by
  have hxne : x ≠ [] := by intro h; rw [h] at hw; simp at hw
  have hyne : y ≠ [] := by intro h; rw [h] at hl; simp only [List.length_nil] at hl; omega
  refine evalBuilder_spec (R := fun z => z.length = nz ∧
    toNat z = ((toInt x).natAbs % (toInt y).natAbs) % 2 ^ nz) ?_ pro (by omega)
  intro s inp xw yw hwf hx hy' hxv hyv
  have hlx : xw.length = x.length := by rw [← hxv]; simp
  have hly : yw.length = y.length := by rw [← hyv]; simp
  have hmx : max xw.length yw.length = x.length := by omega
  have hpx : padTo (busVal s inp xw) (max xw.length yw.length) = x := by rw [hxv, hmx]; simp [padTo]
  have hpy : padTo (busVal s inp yw) (max xw.length yw.length) = y := by rw [hyv, hmx]; simp [padTo, hl]
  have hB : 0 < absN (padTo (busVal s inp yw) (max xw.length yw.length)) := by
    rw [hpy, ← (toInt_sign_abs y hyne).2]; exact Int.natAbs_pos.mpr hy
  refine (iDivider_spec hwf false 0 nz hx hy' (by omega) (by omega) hB).map ?_
  intro t s' _ ⟨_, h2, _, h2l, _, hr⟩
  rw [hpx, hpy] at hr
  have hmin : min nz (max xw.length yw.length) = nz := by omega
  rw [hmin] at h2l
  exact ⟨h2, by simpa using h2l, by rw [hr, (toInt_sign_abs x hxne).2, (toInt_sign_abs y hyne).2]⟩

-- -42 / 4 = -10 (246 as uint8), |-42| mod 4 = 2 on 8-bit operands
example : toNat (evalBuilder (fun a b => do let d ← iDivider false a b 8 0; pure d.1) true
    (ofNat 8 214) (ofNat 8 4)) = 246 := by decide +kernel
example : toNat (evalBuilder (fun a b => do let d ← iDivider false a b 0 8; pure d.2) true
    (ofNat 8 214) (ofNat 8 4)) = 2 := by decide +kernel

/-! ## What is NOT proved in this file

* `NewUDividerGoldschmidtFast` (GMW target of `NewUDivider` / `NewIDivider`): no
  Lean generator; it is not exact (known finding C07-goldschmidt-inexact),
  validated by the oracle and the Lean evaluator on compiled circuits only.
* `NewUDividerRestoring`, `NewUDividerArray` (not dispatched by the compiler):
  oracle only.
* Quotient / remainder buses wider than the operands of the long divider
  (left unconnected by the Go code) and the signed builders on unequal operand
  widths (zero extension, known findings).
* `Compiler.Compile` (wire numbering, BFS order, GMW level sort) and the
  optimisation passes: validated by evaluation.
-/

end Mpc

/-
C07  Arithmetic and logic circuit builders are exact for every width.

Property theorems only; helper lemmas are in Proofs/Builders*.lean.

Every theorem is about `evalBuilder b pro x y` (`evalBuilder3` for the
multiplexer): the circuit that the harness builds with the real Go builder
(inputs `x ‖ y`, optional ZeroWire/OneWire prologue `pro` as in
`ssa.Program.CompileCircuit`, the builder, `ret` through ID gates), evaluated
gate by gate in emission order.  The Lean generators are compared gate for
gate with the real `cc.Gates` on every run (T4), so a theorem about the
generator is a theorem about that Go output.

Quantification: every operand width, every result width (where the builder
has one), both prologue variants, every operand value.  Values are
little-endian bit lists; `toNat` / `toInt` read them as unsigned / two's
complement numbers.

Builders whose statement FAILS on the current code (/repo 776d360) have a
`…_wrong` theorem (negation with a concrete witness, kernel-checked by
`decide`) and a `…_partial` theorem that carries the exact guard or the exact
semantics of the code.  These are the signed comparators and the signed
divider on UNEQUAL operand widths: the code zero-extends the narrower operand
(`cc.ZeroPad`), `C07_intCmp_*`, `C07_idiv_*`, `C07_imod_*`.  The theorems
`C07_intCmp_signpad`, `C07_idiv_signpad`, `C07_imod_signpad` are CONDITIONAL
results about the PROPOSED REPAIR (`cc.SignPad` variants of the generators,
hooks/c07-*-signpad.patch), not about the code: the repair was withdrawn from
/repo because constants carry no sign (a positive literal in [2^31, 2^32) next
to a wider signed operand would be read negative).  After the fix commits
b4e0da3, 1a24bc4, b8285b2, cf9e510 no other builder theorem of this file
carries a width restriction; negation witnesses of repaired defects are kept
about explicitly named old definitions (`…_old_…`).

Goldschmidt divider (GMW target of NewUDivider): `C07_goldschmidt_correction`
proves the correction step exact for every width UNDER THE EXPLICIT HYPOTHESIS
that the quotient estimate is within ±1 of ⌊a / b⌋.  That bound is not proved;
it is the VALIDATED HYPOTHESIS `goldschmidt-estimate-within-one` of
checks/C07.py (all operand pairs of widths 1..9 on every quick run, 1..11 on
every thorough run, structured pairs at widths up to 64; evaluated on the
generator `goldEstimate`, which is tied gate for gate to the Go code).

HISTORIES.  The compiler calls many builders on ONE `circuits.Compiler`.  The
`_spec` lemmas behind the theorems hold from any well-formed builder state; the
section "Histories" states what that means for sequences of calls:
`C07_history_compose` (two calls, frame property), `C07_history` (fold over a
history of any length, operands = inputs or earlier results),
`C07_history_harness` (the circuit harness/cmd/c07/hist.go builds), instances
`C07_history_udiv_udiv`, `C07_history_add_then_udiv`,
`C07_history_divider_pair` / `C07_history_goldschmidt_pair` (two Goldschmidt
dividers on one Compiler, conditional on the estimate hypothesis at BOTH
states).  The tie T4 compares the Lean generators run in sequence from one state
with the real builders run in the same sequence on one Compiler.

OPERAND SHAPES.  The compiler hands the builders buses that mix value wires with
the Compiler's constant wires (`cc.ZeroWire()`, `cc.OneWire()`: constants, zero
extension, shifts, slices), repeat a wire (sign extension) or are one bus twice
(`x op x`).  The `_spec` lemmas ask of the operand wires only that they exist
(`Bnd`); the section "Operand shapes" states that explicitly:
`C07_builders_any_operand_wires_*` (eq, neq, unsigned / signed comparators,
adder on both targets, subtractor, multiplexer, multipliers, long divider,
bitwise / bit test, Hamming), `C07_operand_shapes` (wires and values of an
operand made of bus slices and constant wires, the constant wires created on
demand), `C07_shaped_call`, `C07_shaped_call3` (such a call is a sound call of a
history) and the instance `C07_eq_neq_zext_vs_constant` (`uintN(a) == c`,
`uintN(a) != c` with `c` outside the range of `a`).

NOT proved here (validated by the oracle and, for the gate lists, by T4 only):
see the list at the end of this file.
-/
import MpcVerif.Proofs.BuildersSpec
import MpcVerif.Proofs.BuildersBridge
import MpcVerif.Proofs.BuildersKS
import MpcVerif.Proofs.BuildersMul
import MpcVerif.Proofs.BuildersDiv
import MpcVerif.Proofs.BuildersKara
import MpcVerif.Proofs.BuildersWallace
import MpcVerif.Proofs.BuildersHammingG
import MpcVerif.Proofs.BuildersGold
import MpcVerif.Proofs.BuildersHist
import MpcVerif.Proofs.BuildersOpnd

namespace Mpc
open Mpc.Bld

/-! ## Addition -/

/-- `NewAdder` on the Yao target (ripple carry): for all operand widths (not
both zero), every result width `nz ≥ 1` and all operand values the result has
`nz` bits and is `(x + y) mod 2^nz`. -/
theorem C07_adder (pro : Bool) (x y : List Bool) (nz : Nat)
    (hw : 0 < max x.length y.length) (hnz : 0 < nz) :
    (evalBuilder (fun a b => rippleAdder a b nz) pro x y).length = nz ∧
    toNat (evalBuilder (fun a b => rippleAdder a b nz) pro x y) = (toNat x + toNat y) % 2 ^ nz := by
  refine evalBuilder_spec (R := fun z => z.length = nz ∧ toNat z = (toNat x + toNat y) % 2 ^ nz) ?_ pro (by omega)
  intro s inp xw yw hwf hx hy hxv hyv
  have hlx : xw.length = x.length := by rw [← hxv]; simp
  have hly : yw.length = y.length := by rw [← hyv]; simp
  refine (rippleAdder_spec hwf nz hx hy (by omega) hnz).mono ?_
  intro z s' _ ⟨hb, hl, hv⟩
  exact ⟨hb, by simpa using hl, by rw [hv, hxv, hyv]⟩

-- non-vacuity: 3 + 3 = 6 on 3- and 2-bit operands, 4-bit result
example : toNat (evalBuilder (fun a b => rippleAdder a b 4) true [true, true, false] [true, true]) = 6 := by
  decide

/-- Bridge to C01: on the gate list of any well-formed builder state, the plain
circuit evaluator of Model/Circuit.lean (`Circuit.plainEval`, the model of
`circuit.Circuit.Compute` that C01 compares byte for byte with the Go code)
gives every wire the value `St.val` used by the theorems of this file. -/
theorem C07_bridge_plainEval (s : St) (inp : List Bool) (hwf : WF s inp) (nOut w : Nat) :
    ((s.toCircuit nOut).plainEval inp).get w = s.val inp w :=
  plainEval_eq_val s inp hwf nOut w

/-- The adder theorem stated on the C01 evaluator: the circuit the harness
builds around `NewAdder`, run through `Circuit.plainEval`, carries
`(x + y) mod 2^nz` on its output wires. -/
theorem C07_adder_compute_model (pro : Bool) (x y : List Bool) (nz : Nat)
    (hw : 0 < max x.length y.length) (hnz : 0 < nz) :
    toNat ((runBuilder (fun a b => rippleAdder a b nz) pro x.length y.length).2.map
      (((runBuilder (fun a b => rippleAdder a b nz) pro x.length y.length).1.toCircuit nz).plainEval
        (x ++ y)).get) = (toNat x + toNat y) % 2 ^ nz := by
  have hwf : WF (runBuilder (fun a b => rippleAdder a b nz) pro x.length y.length).1 (x ++ y) := by
    refine runBuilder_wf ?_ pro (by omega)
    intro s inp xw yw hwf hx hy hxv hyv
    have hlx : xw.length = x.length := by rw [← hxv]; simp
    have hly : yw.length = y.length := by rw [← hyv]; simp
    exact (rippleAdder_spec hwf nz hx hy (by omega) hnz).mono (fun z s' _ h => h.1)
  have := (C07_adder pro x y nz hw hnz).2
  simp only [evalBuilder] at this
  rw [← this]
  congr 1
  apply List.map_congr_left
  intro w _
  exact plainEval_eq_val _ _ hwf nz w

/-! ## Subtraction -/

/-- `NewSubtractor` on the Yao target (ripple borrow; since fix 1a24bc4 the
leftover result bits are copies of the borrow): for all operand widths, every
result width `nz ≥ 1` and all operand values the result has `nz` bits and is
`(x - y) mod 2^nz`. -/
theorem C07_sub (pro : Bool) (x y : List Bool) (nz : Nat)
    (hw : 0 < max x.length y.length) (hnz : 0 < nz) :
    (evalBuilder (fun a b => rippleSubtractor a b nz) pro x y).length = nz ∧
    (toNat (evalBuilder (fun a b => rippleSubtractor a b nz) pro x y) : Int) =
      ((toNat x : Int) - (toNat y : Int)) % ((2 ^ nz : Nat) : Int) := by
  refine evalBuilder_spec (R := fun z => z.length = nz ∧
    (toNat z : Int) = ((toNat x : Int) - (toNat y : Int)) % ((2 ^ nz : Nat) : Int)) ?_ pro (by omega)
  intro s inp xw yw hwf hx hy hxv hyv
  refine (rippleSubtractor_spec hwf nz hx hy hnz).mono ?_
  intro z s' _ ⟨hb, hl, hv⟩
  refine ⟨hb, by simpa using hl, ?_⟩
  rw [hxv, hyv] at hv
  have hlt := toNat_lt (busVal s' inp z)
  rw [busVal_length, hl] at hlt
  exact sub_mod_int _ _ _ _ hlt hv

-- 2-bit 0 - 1 into 4 bits is 15 (was 7 before fix 1a24bc4)
example : toNat (evalBuilder (fun a b => rippleSubtractor a b 4) true [false, false] [true, false]) = 15 := by
  decide

/-! ## Kogge-Stone adder and subtractor (GMW target of NewAdder / NewSubtractor) -/

/-- `NewKoggeStoneAdder` with an explicit number of prefix stages: exact for all
operand widths, every result width and all values PROVIDED `2^stages` reaches
the width of the prefix network `ksWidth = min(max(|x|,|y|)+1, nz)`.  Proof:
after `k` stages the pair `(p_i, g_i)` of position `i` covers the interval
`[max(0, i-2^k+1), i]` (`KSInv`, `KSInv_step` doubles the width). -/
theorem C07_ksAdder_stages (stages : Nat) (pro : Bool) (x y : List Bool) (nz : Nat)
    (hw : 0 < max x.length y.length) (hnz : 0 < nz)
    (hst : ksWidth x.length y.length nz ≤ 2 ^ stages) :
    (evalBuilder (fun a b => ksAdderWith stages a b nz) pro x y).length = nz ∧
    toNat (evalBuilder (fun a b => ksAdderWith stages a b nz) pro x y) = (toNat x + toNat y) % 2 ^ nz := by
  refine evalBuilder_spec (R := fun z => z.length = nz ∧ toNat z = (toNat x + toNat y) % 2 ^ nz) ?_ pro (by omega)
  intro s inp xw yw hwf hx hy hxv hyv
  have hlx : xw.length = x.length := by rw [← hxv]; simp
  have hly : yw.length = y.length := by rw [← hyv]; simp
  refine (ksAdderWith_spec hwf nz stages hx hy (by omega) hnz (by rw [hlx, hly]; exact hst)).mono ?_
  intro z s' _ ⟨hb, hl, hv⟩
  exact ⟨hb, by simpa using hl, by rw [hv, hxv, hyv]⟩

/-- `NewKoggeStoneAdder` as written (`numStages = ceil(log2 n)`): exact for all
widths, `(x + y) mod 2^nz`. -/
theorem C07_ksAdder (pro : Bool) (x y : List Bool) (nz : Nat)
    (hw : 0 < max x.length y.length) (hnz : 0 < nz) :
    (evalBuilder (fun a b => ksAdder a b nz) pro x y).length = nz ∧
    toNat (evalBuilder (fun a b => ksAdder a b nz) pro x y) = (toNat x + toNat y) % 2 ^ nz := by
  refine evalBuilder_spec (R := fun z => z.length = nz ∧ toNat z = (toNat x + toNat y) % 2 ^ nz) ?_ pro (by omega)
  intro s inp xw yw hwf hx hy hxv hyv
  have hlx : xw.length = x.length := by rw [← hxv]; simp
  have hly : yw.length = y.length := by rw [← hyv]; simp
  unfold ksAdder
  refine (ksAdderWith_spec hwf nz _ hx hy (by omega) hnz (le_two_pow_ceilLog2 _)).mono ?_
  intro z s' _ ⟨hb, hl, hv⟩
  exact ⟨hb, by simpa using hl, by rw [hv, hxv, hyv]⟩

example : toNat (evalBuilder (fun a b => ksAdder a b 7) true (ofNat 6 31) (ofNat 6 33)) = 64 := by decide +kernel

/-- The stage count is necessary: with `floor(log2 6) = 2` stages instead of
`ceil(log2 6) = 3` the 6-bit network computes `31 + 1 = 0`. -/
theorem C07_ksAdder_too_few_stages_wrong :
    Nat.log2 6 = 2 ∧ ceilLog2 6 = 3 ∧
    toNat (evalBuilder (fun a b => ksAdderWith 2 a b 6) true (ofNat 6 31) (ofNat 6 1)) = 0 ∧
    toNat (evalBuilder (fun a b => ksAdderWith 3 a b 6) true (ofNat 6 31) (ofNat 6 1)) = 32 := by
  decide +kernel

/-- `NewKoggeStoneSubtractor` with an explicit number of prefix stages: exact
for all widths when `2^stages` reaches the network width. -/
theorem C07_ksSub_stages (stages : Nat) (pro : Bool) (x y : List Bool) (nz : Nat)
    (hw : 0 < max x.length y.length) (hnz : 0 < nz)
    (hst : ksWidth x.length y.length nz ≤ 2 ^ stages) :
    (evalBuilder (fun a b => ksSubtractorWith stages a b nz) pro x y).length = nz ∧
    (toNat (evalBuilder (fun a b => ksSubtractorWith stages a b nz) pro x y) : Int) =
      ((toNat x : Int) - (toNat y : Int)) % ((2 ^ nz : Nat) : Int) := by
  refine evalBuilder_spec (R := fun z => z.length = nz ∧
    (toNat z : Int) = ((toNat x : Int) - (toNat y : Int)) % ((2 ^ nz : Nat) : Int)) ?_ pro (by omega)
  intro s inp xw yw hwf hx hy hxv hyv
  have hlx : xw.length = x.length := by rw [← hxv]; simp
  have hly : yw.length = y.length := by rw [← hyv]; simp
  refine (ksSubtractorWith_spec hwf nz stages hx hy (by omega) hnz (by rw [hlx, hly]; exact hst)).mono ?_
  intro z s' _ ⟨hb, hl, hv⟩
  refine ⟨hb, by simpa using hl, ?_⟩
  rw [hxv, hyv] at hv
  have hlt := toNat_lt (busVal s' inp z)
  rw [busVal_length, hl] at hlt
  exact sub_mod_int _ _ _ _ hlt hv

/-- `NewKoggeStoneSubtractor` as written (`for step := 1; step < n; step *= 2`,
i.e. `ceil(log2 n)` stages; leftover bits = borrow since fix 1a24bc4): exact for
all widths, `(x - y) mod 2^nz`. -/
theorem C07_ksSub (pro : Bool) (x y : List Bool) (nz : Nat)
    (hw : 0 < max x.length y.length) (hnz : 0 < nz) :
    (evalBuilder (fun a b => ksSubtractor a b nz) pro x y).length = nz ∧
    (toNat (evalBuilder (fun a b => ksSubtractor a b nz) pro x y) : Int) =
      ((toNat x : Int) - (toNat y : Int)) % ((2 ^ nz : Nat) : Int) := by
  have := C07_ksSub_stages (ceilLog2 (ksWidth x.length y.length nz)) pro x y nz hw hnz (le_two_pow_ceilLog2 _)
  have hdef : (fun a b : List Nat => ksSubtractor a b nz) =
      fun a b => ksSubtractorWith (ceilLog2 (ksWidth a.length b.length nz)) a b nz := rfl
  refine evalBuilder_spec (R := fun z => z.length = nz ∧
    (toNat z : Int) = ((toNat x : Int) - (toNat y : Int)) % ((2 ^ nz : Nat) : Int)) ?_ pro (by omega)
  intro s inp xw yw hwf hx hy hxv hyv
  have hlx : xw.length = x.length := by rw [← hxv]; simp
  have hly : yw.length = y.length := by rw [← hyv]; simp
  unfold ksSubtractor
  refine (ksSubtractorWith_spec hwf nz _ hx hy (by omega) hnz (le_two_pow_ceilLog2 _)).mono ?_
  intro z s' _ ⟨hb, hl, hv⟩
  refine ⟨hb, by simpa using hl, ?_⟩
  rw [hxv, hyv] at hv
  have hlt := toNat_lt (busVal s' inp z)
  rw [busVal_length, hl] at hlt
  exact sub_mod_int _ _ _ _ hlt hv

example : toNat (evalBuilder (fun a b => ksSubtractor a b 8) true (ofNat 6 0) (ofNat 6 1)) = 255 := by
  decide +kernel

/-- The stage count is necessary for the subtractor as well: with 2 stages the
6-bit network computes `32 - 0 = 0`. -/
theorem C07_ksSub_too_few_stages_wrong :
    toNat (evalBuilder (fun a b => ksSubtractorWith 2 a b 6) true (ofNat 6 32) (ofNat 6 0)) = 0 ∧
    toNat (evalBuilder (fun a b => ksSubtractorWith 3 a b 6) true (ofNat 6 32) (ofNat 6 0)) = 32 := by
  decide +kernel

/-! ## Ordered comparisons -/

/-- `NewUint{Gt,Ge,Lt,Le}Comparator`: for all operand widths and values the
single result bit is the comparison of the unsigned values. -/
theorem C07_ucmp (k : CmpKind) (pro : Bool) (x y : List Bool) (hw : 0 < x.length + y.length) :
    evalBuilder (comparator false k) pro x y = [k.relNat (toNat x) (toNat y)] := by
  refine evalBuilder_spec (R := fun z => z = [k.relNat (toNat x) (toNat y)]) ?_ pro hw
  intro s inp xw yw hwf hx hy hxv hyv
  refine (ucomparator_spec hwf k hx hy).mono ?_
  intro z s' _ ⟨hb, hv⟩
  exact ⟨hb, by rw [hv, hxv, hyv]⟩

example : evalBuilder (comparator false .gt) true [true, true, false] [false, true] = [true] := by decide

/- Full statement for the signed comparators (FALSE for unequal widths, see
   `C07_intCmp_unequal_wrong`): result = rel (toInt x) (toInt y).  Known
   finding C07-int-comparator-zero-extends (open; reachable:
   `func main(a int8, b int16) bool { return a < b }`, a = -1, b = 3). -/

/-- `NewInt{Gt,Ge,Lt,Le}Comparator`, every width: the result bit is the signed
comparison of the operands ZERO-padded to the common width (what the code
does: `cc.ZeroPad` then two's complement at the common width). -/
theorem C07_intCmp_partial (k : CmpKind) (pro : Bool) (x y : List Bool) (hw : 0 < max x.length y.length) :
    evalBuilder (comparator true k) pro x y =
      [k.relInt (toInt (padTo x (max x.length y.length))) (toInt (padTo y (max x.length y.length)))] := by
  refine evalBuilder_spec (R := fun z => z =
    [k.relInt (toInt (padTo x (max x.length y.length))) (toInt (padTo y (max x.length y.length)))]) ?_ pro
    (by omega)
  intro s inp xw yw hwf hx hy hxv hyv
  have hlx : xw.length = x.length := by rw [← hxv]; simp
  have hly : yw.length = y.length := by rw [← hyv]; simp
  refine (icomparator_spec hwf k hx hy (by omega)).mono ?_
  intro z s' _ ⟨hb, hv⟩
  exact ⟨hb, by rw [hv, hxv, hyv, hlx, hly]⟩

/-- Signed comparators are exact for equal operand widths: the result bit is
the comparison of the two's complement values. -/
theorem C07_intCmp_equal_width (k : CmpKind) (pro : Bool) (x y : List Bool) (hl : x.length = y.length)
    (hw : 0 < x.length) :
    evalBuilder (comparator true k) pro x y = [k.relInt (toInt x) (toInt y)] := by
  rw [C07_intCmp_partial k pro x y (by omega)]
  have hx : padTo x (max x.length y.length) = x := by simp [padTo, hl]
  have hy : padTo y (max x.length y.length) = y := by simp [padTo, hl]
  rw [hx, hy]

example : evalBuilder (comparator true .lt) true [true, true] [true, false] = [true] := by decide  -- -1 < 1

/-- Negation witness for unequal widths: `x = -1` (2 bits), `y = 3` (3 bits):
`x < y` but `NewIntLtComparator` answers false (the narrower operand is zero
extended).  Replayed on the Go code: `c07 one -extra "ilt 0 1 2 3 0 1 0 0 3 3 0"`. -/
theorem C07_intCmp_unequal_wrong :
    evalBuilder (comparator true .lt) true [true, true] [true, true, false] = [false] ∧
    toInt [true, true] < toInt [true, true, false] := by
  decide

/-- CONDITIONAL RESULT ABOUT THE PROPOSED REPAIR, NOT ABOUT THE CODE.
`comparatorSignPad` is `NewInt{Gt,Ge,Lt,Le}Comparator` with `cc.SignPad` in
place of `cc.ZeroPad` (hooks/c07-intcomparator-signpad.patch; judged not safe
for /repo as long as constants carry no sign: the literal 0xffffffff and the
folded -1 are the same 32-bit constant wires, so a positive literal in
[2^31, 2^32) compared with a wider signed operand would be read negative).
For this variant the result bit is the comparison of the two's complement
values for ALL operand widths, each operand read at its own width. -/
theorem C07_intCmp_signpad (k : CmpKind) (pro : Bool) (x y : List Bool) (hx : 0 < x.length) (hy : 0 < y.length) :
    evalBuilder (comparatorSignPad k) pro x y = [k.relInt (toInt x) (toInt y)] := by
  refine evalBuilder_spec (R := fun z => z = [k.relInt (toInt x) (toInt y)]) ?_ pro (by omega)
  intro s inp xw yw hwf hxb hyb hxv hyv
  have hlx : xw.length = x.length := by rw [← hxv]; simp
  have hly : yw.length = y.length := by rw [← hyv]; simp
  refine (icomparatorSignPad_spec hwf k hxb hyb (by omega) (by omega)).mono ?_
  intro z s' _ ⟨hb, hv⟩
  exact ⟨hb, by rw [hv, hxv, hyv]⟩

-- the proposed repair on the witness of `C07_intCmp_unequal_wrong`: 2-bit -1 < 3-bit 3
example : evalBuilder (comparatorSignPad .lt) true [true, true] [true, true, false] = [true] := by decide

/-! ## Equality -/

/-- `NewEqComparator`: for all widths the result bit is `x = y` (as numbers). -/
theorem C07_eq (pro : Bool) (x y : List Bool) (hw : 0 < max x.length y.length) :
    evalBuilder eqComparator pro x y = [decide (toNat x = toNat y)] := by
  refine evalBuilder_spec (R := fun z => z = [decide (toNat x = toNat y)]) ?_ pro (by omega)
  intro s inp xw yw hwf hx hy hxv hyv
  have hlx : xw.length = x.length := by rw [← hxv]; simp
  have hly : yw.length = y.length := by rw [← hyv]; simp
  refine (eqComparator_spec hwf hx hy (by omega)).mono ?_
  intro z s' _ ⟨hb, hv⟩
  exact ⟨hb, by rw [hv, hxv, hyv]⟩

/-- `NewNeqComparator`. -/
theorem C07_neq (pro : Bool) (x y : List Bool) (hw : 0 < max x.length y.length) :
    evalBuilder neqComparator pro x y = [decide (toNat x ≠ toNat y)] := by
  refine evalBuilder_spec (R := fun z => z = [decide (toNat x ≠ toNat y)]) ?_ pro (by omega)
  intro s inp xw yw hwf hx hy hxv hyv
  have hlx : xw.length = x.length := by rw [← hxv]; simp
  have hly : yw.length = y.length := by rw [← hyv]; simp
  refine (neqComparator_spec hwf hx hy (by omega)).mono ?_
  intro z s' _ ⟨hb, hv⟩
  exact ⟨hb, by rw [hv, hxv, hyv]⟩

example : evalBuilder eqComparator false [true, false, true] [true, false, true, false, false] = [true] := by
  decide

/-! ## Multiplexer -/

/-- `NewMUX(cond, t, f, out)` with `len(out) = max(len t, len f)`: the result is
`t` if the condition bit is set, else `f` (zero padded to the result width). -/
theorem C07_mux (pro : Bool) (t f : List Bool) (c : Bool) :
    evalBuilder3 (fun tw fw cw => do
        let r ← newMUX (cw.getD 0 0) tw fw (max tw.length fw.length)
        pure (r.getD [])) pro t f [c] =
      if c then padTo t (max t.length f.length) else padTo f (max t.length f.length) := by
  refine evalBuilder3_spec (R := fun z => z =
    if c then padTo t (max t.length f.length) else padTo f (max t.length f.length)) ?_ pro (by simp)
  intro s inp tw fw cw hwf ht hf hc htv hfv hcv
  have hlt : tw.length = t.length := by rw [← htv]; simp
  have hlf : fw.length = f.length := by rw [← hfv]; simp
  have hlc : cw.length = 1 := by have := congrArg List.length hcv; simpa using this
  have hcb : cw.getD 0 0 < s.next := getD_bnd hc 0 (by omega)
  have hcval : s.val inp (cw.getD 0 0) = c := by
    rw [val_getD cw 0 (by omega), hcv]; rfl
  refine (newMUX_spec hwf ht hf hcb).map ?_
  intro z s' _ ⟨r, hz, hb, hv⟩
  subst hz
  exact ⟨hb, by rw [Option.getD_some, hv, hcval, htv, hfv, hlt, hlf]⟩

example : evalBuilder3 (fun tw fw cw => do
    let r ← newMUX (cw.getD 0 0) tw fw (max tw.length fw.length)
    pure (r.getD [])) true [true, true] [false, true, true] [true] = [true, true, false] := by decide

/-! ## Bitwise operations -/

/-- `NewBinaryAND`: for every result width `nz` up to the operand width, bit `i`
of the result is `x_i ∧ y_i` (operands zero padded to the common width). -/
theorem C07_band (pro : Bool) (x y : List Bool) (nz : Nat) (hw : 0 < x.length + y.length) :
    evalBuilder (fun a b => binaryAnd a b nz) pro x y =
      List.zipWith (· && ·) ((padTo x (max x.length y.length)).take nz)
        ((padTo y (max x.length y.length)).take nz) := by
  refine evalBuilder_spec (R := fun z => z = List.zipWith (· && ·) ((padTo x (max x.length y.length)).take nz)
    ((padTo y (max x.length y.length)).take nz)) ?_ pro hw
  intro s inp xw yw hwf hx hy hxv hyv
  have hlx : xw.length = x.length := by rw [← hxv]; simp
  have hly : yw.length = y.length := by rw [← hyv]; simp
  refine (binaryOp_spec hwf (gate .and) (· && ·) (fun s a b h1 h2 h3 => gateF_spec .and s a b h1 h2 h3)
    nz hx hy).mono ?_
  intro z s' _ ⟨hb, hv⟩
  exact ⟨hb, by rw [hv, hxv, hyv, hlx, hly]⟩

/-- `NewBinaryOR`. -/
theorem C07_bor (pro : Bool) (x y : List Bool) (nz : Nat) (hw : 0 < x.length + y.length) :
    evalBuilder (fun a b => binaryOr a b nz) pro x y =
      List.zipWith (· || ·) ((padTo x (max x.length y.length)).take nz)
        ((padTo y (max x.length y.length)).take nz) := by
  refine evalBuilder_spec (R := fun z => z = List.zipWith (· || ·) ((padTo x (max x.length y.length)).take nz)
    ((padTo y (max x.length y.length)).take nz)) ?_ pro hw
  intro s inp xw yw hwf hx hy hxv hyv
  have hlx : xw.length = x.length := by rw [← hxv]; simp
  have hly : yw.length = y.length := by rw [← hyv]; simp
  refine (binaryOp_spec hwf or (· || ·) (fun s a b h1 h2 h3 => orF_spec s a b h1 h2 h3) nz hx hy).mono ?_
  intro z s' _ ⟨hb, hv⟩
  exact ⟨hb, by rw [hv, hxv, hyv, hlx, hly]⟩

/-- `NewBinaryXOR`. -/
theorem C07_bxor (pro : Bool) (x y : List Bool) (nz : Nat) (hw : 0 < x.length + y.length) :
    evalBuilder (fun a b => binaryXor a b nz) pro x y =
      List.zipWith (· != ·) ((padTo x (max x.length y.length)).take nz)
        ((padTo y (max x.length y.length)).take nz) := by
  refine evalBuilder_spec (R := fun z => z = List.zipWith (· != ·) ((padTo x (max x.length y.length)).take nz)
    ((padTo y (max x.length y.length)).take nz)) ?_ pro hw
  intro s inp xw yw hwf hx hy hxv hyv
  have hlx : xw.length = x.length := by rw [← hxv]; simp
  have hly : yw.length = y.length := by rw [← hyv]; simp
  refine (binaryOp_spec hwf (gate .xor) (· != ·) (fun s a b h1 h2 h3 => gateF_spec .xor s a b h1 h2 h3)
    nz hx hy).mono ?_
  intro z s' _ ⟨hb, hv⟩
  exact ⟨hb, by rw [hv, hxv, hyv, hlx, hly]⟩

/-- `NewBinaryClear` (`x &^ y`). -/
theorem C07_bclr (pro : Bool) (x y : List Bool) (nz : Nat) (hw : 0 < x.length + y.length) :
    evalBuilder (fun a b => binaryClear a b nz) pro x y =
      List.zipWith (fun a b => a && !b) ((padTo x (max x.length y.length)).take nz)
        ((padTo y (max x.length y.length)).take nz) := by
  refine evalBuilder_spec (R := fun z => z = List.zipWith (fun a b => a && !b)
    ((padTo x (max x.length y.length)).take nz) ((padTo y (max x.length y.length)).take nz)) ?_ pro hw
  intro s inp xw yw hwf hx hy hxv hyv
  have hlx : xw.length = x.length := by rw [← hxv]; simp
  have hly : yw.length = y.length := by rw [← hyv]; simp
  refine (binaryOp_spec hwf (fun a b => do let w ← inv b; gate .and a w) (fun a b => a && !b)
    (fun s a b h1 h2 h3 => clearF_spec s a b h1 h2 h3) nz hx hy).mono ?_
  intro z s' _ ⟨hb, hv⟩
  exact ⟨hb, by rw [hv, hxv, hyv, hlx, hly]⟩

example : evalBuilder (fun a b => binaryClear a b 3) true [true, true, true] [false, true] = [true, false, true] := by
  decide

/-! ## Logical operations and bit tests -/

/-- `NewLogicalAND` / `NewLogicalOR` on 1-bit operands. -/
theorem C07_logical (pro : Bool) (a b : Bool) :
    evalBuilder logicalAnd pro [a] [b] = [a && b] ∧ evalBuilder logicalOr pro [a] [b] = [a || b] := by
  constructor
  · refine evalBuilder_spec (R := fun z => z = [a && b]) ?_ pro (by simp)
    intro s inp xw yw hwf hx hy hxv hyv
    have hlx : xw.length = 1 := by have := congrArg List.length hxv; simpa using this
    have hly : yw.length = 1 := by have := congrArg List.length hyv; simpa using this
    refine (logicalAnd_spec hwf hx hy (by omega) (by omega)).mono ?_
    intro z s' _ ⟨hb, hv⟩
    exact ⟨hb, by rw [hv, hxv, hyv]; rfl⟩
  · refine evalBuilder_spec (R := fun z => z = [a || b]) ?_ pro (by simp)
    intro s inp xw yw hwf hx hy hxv hyv
    have hlx : xw.length = 1 := by have := congrArg List.length hxv; simpa using this
    have hly : yw.length = 1 := by have := congrArg List.length hyv; simpa using this
    refine (logicalOr_spec hwf hx hy (by omega) (by omega)).mono ?_
    intro z s' _ ⟨hb, hv⟩
    exact ⟨hb, by rw [hv, hxv, hyv]; rfl⟩

/-- `NewBitSetTest` / `NewBitClrTest` for every operand width and every index
(also outside the operand). -/
theorem C07_bittest (pro : Bool) (x y : List Bool) (index : Nat) (hw : 0 < x.length + y.length) :
    evalBuilder (fun a _ => bitSetTest a index) pro x y = [x.getD index false] ∧
    evalBuilder (fun a _ => bitClrTest a index) pro x y = [!x.getD index false] := by
  constructor
  · refine evalBuilder_spec (R := fun z => z = [x.getD index false]) ?_ pro hw
    intro s inp xw yw hwf hx hy hxv hyv
    refine (bitSetTest_spec hwf index hx).mono ?_
    intro z s' _ ⟨hb, hv⟩
    exact ⟨hb, by rw [hv, hxv]⟩
  · refine evalBuilder_spec (R := fun z => z = [!x.getD index false]) ?_ pro hw
    intro s inp xw yw hwf hx hy hxv hyv
    refine (bitClrTest_spec hwf index hx).mono ?_
    intro z s' _ ⟨hb, hv⟩
    exact ⟨hb, by rw [hv, hxv]⟩

example : evalBuilder (fun a _ => bitSetTest a 2) false [false, false, true] [false] = [true] := by decide

/-! ## Array index -/

/-- `NewIndex(size, array, index, out)` for every element size `size ≥ 1`, every
element count `n ≥ 1`, every index width `≥ 1`: the result is element
`index mod 2^bits` of the array (split into `size`-bit elements), where `bits`
is the number of index bits the builder uses (`2^bits ≥ n`; index bits above
that are ignored, missing index bits read 0), and all zeros when that element
number is outside the array. -/
theorem C07_index (pro : Bool) (size n : Nat) (arr idx : List Bool) (hal : arr.length = n * size)
    (hsz : 0 < size) (hn : 0 < n) (hil : 0 < idx.length) :
    evalBuilder (newIndex size) pro arr idx =
      (chunks size n arr).getD (toNat (idx.take (indexBits n n 1 2).1)) (List.replicate size false) := by
  refine evalBuilder_spec (R := fun z => z =
    (chunks size n arr).getD (toNat (idx.take (indexBits n n 1 2).1)) (List.replicate size false)) ?_ pro (by omega)
  intro s inp aw iw hwf ha hi hav hiv
  have hla : aw.length = n * size := by rw [← hal, ← hav]; simp
  have hli : 0 < iw.length := by rw [← hiv] at hil; simpa using hil
  refine (newIndex_spec hwf size n ha hi hla hsz hn hli).mono ?_
  intro z s' _ ⟨hb, _, hv⟩
  exact ⟨hb, by rw [hv, hav, hiv]⟩

-- 3 elements of 2 bits, index 2 (binary 01 little endian = [false, true]) selects the third element
example : evalBuilder (newIndex 2) true [true, false, false, true, true, true] [false, true] = [true, true] := by
  decide +kernel
-- index 3 is outside the 3-element array: zero
example : evalBuilder (newIndex 2) true [true, false, false, true, true, true] [true, true] = [false, false] := by
  decide +kernel

/-! ## Hamming distance -/

/-- `Hamming` on either target (adder tree of `NewAdder`: ripple carry or
Kogge-Stone) for every operand width ≥ 1 (the 1-bit case since fix b8285b2) and
every result width: the result is the number of bit positions in which the
(zero padded) operands differ, modulo `2^nz`. -/
theorem C07_hamming (gmw pro : Bool) (x y : List Bool) (nz : Nat)
    (hw : 1 ≤ max x.length y.length) (hnz : 0 < nz) :
    (evalBuilder (fun a b => hamming gmw a b nz) pro x y).length = nz ∧
    toNat (evalBuilder (fun a b => hamming gmw a b nz) pro x y) =
      popDiff ((padTo x (max x.length y.length)).zip (padTo y (max x.length y.length))) % 2 ^ nz := by
  refine evalBuilder_spec (R := fun z => z.length = nz ∧ toNat z =
    popDiff ((padTo x (max x.length y.length)).zip (padTo y (max x.length y.length))) % 2 ^ nz) ?_ pro (by omega)
  intro s inp xw yw hwf hx hy hxv hyv
  have hlx : xw.length = x.length := by rw [← hxv]; simp
  have hly : yw.length = y.length := by rw [← hyv]; simp
  refine (hammingG_spec hwf gmw nz hx hy (by omega) hnz).mono ?_
  intro z s' _ ⟨hb, hl, hv⟩
  exact ⟨hb, by simpa using hl, by rw [hv, hxv, hyv, hlx, hly]⟩

example : toNat (evalBuilder (fun a b => hamming false a b 3) true [true, false, true] [false, false, false, true]) = 3 := by
  decide +kernel
example : toNat (evalBuilder (fun a b => hamming false a b 2) true [true] [false]) = 1 := by
  decide +kernel

/-! ## Array multiplier -/

/-- `NewArrayMultiplier` is exact for every operand width and every result
width (narrower than, equal to and wider than twice the operand width; the
surplus bits are zero since fix b4e0da3): `(x · y) mod 2^nz`.  Proof by the
row-accumulation invariant: after row `j` the result bits `z[0..j]` and the
running sums satisfy `z + 2^(j+1)·sums = x · (y mod 2^(j+1))`. -/
theorem C07_arrayMult (pro : Bool) (x y : List Bool) (nz : Nat)
    (hw : 0 < max x.length y.length) (hnz : 0 < nz) :
    (evalBuilder (fun a b => arrayMultiplier a b nz) pro x y).length = nz ∧
    toNat (evalBuilder (fun a b => arrayMultiplier a b nz) pro x y) = (toNat x * toNat y) % 2 ^ nz := by
  refine evalBuilder_spec (R := fun z => z.length = nz ∧ toNat z = (toNat x * toNat y) % 2 ^ nz) ?_ pro (by omega)
  intro s inp xw yw hwf hx hy hxv hyv
  have hlx : xw.length = x.length := by rw [← hxv]; simp
  have hly : yw.length = y.length := by rw [← hyv]; simp
  refine (arrayMultiplier_spec hwf nz hx hy (by omega) hnz).mono ?_
  intro z s' _ ⟨hb, hl, hv⟩
  exact ⟨hb, by simpa using hl, by rw [hv, hxv, hyv]⟩

-- 3 * 3 = 9 in 4 bits; 2-bit 1 * 2 into 6 bits is 2 (was 0 before fix b4e0da3)
example : toNat (evalBuilder (fun a b => arrayMultiplier a b 4) true [true, true] [true, true]) = 9 := by
  decide +kernel
example : toNat (evalBuilder (fun a b => arrayMultiplier a b 6) true [true, false] [false, true]) = 2 := by
  decide +kernel

/-! ## Karatsuba multiplier -/

/-- `NewKaratsubaMultiplier` for EVERY array threshold `limit ≥ 3` (limits below
3 make the Go recursion non-terminating; the compiler uses limits ≥ 8), on
either target (its adders / subtractors are `NewAdder` / `NewSubtractor`), all
operand and result widths: `(x · y) mod 2^nz`.  From the adder, subtractor
(exact for every result width since fix 1a24bc4 — the recombination no longer
depends on the absence of a borrow) and array-multiplier theorems and the
identity `z2·P² + (z1 - z2 - z0)·P + z0 = (al + P·ah)(bl + P·bh)` modulo `2^nz`. -/
theorem C07_karatsuba (gmw : Bool) (limit : Nat) (hlim : 3 ≤ limit) (pro : Bool) (x y : List Bool) (nz : Nat)
    (hw : 0 < max x.length y.length) (hnz : 0 < nz) :
    (evalBuilder (fun a b => do
        let r ← karatsuba gmw limit (2 * max a.length b.length + 8) a b nz
        pure (r.getD [])) pro x y).length = nz ∧
    toNat (evalBuilder (fun a b => do
        let r ← karatsuba gmw limit (2 * max a.length b.length + 8) a b nz
        pure (r.getD [])) pro x y) = (toNat x * toNat y) % 2 ^ nz := by
  refine evalBuilder_spec (R := fun z => z.length = nz ∧ toNat z = (toNat x * toNat y) % 2 ^ nz) ?_ pro (by omega)
  intro s inp xw yw hwf hx hy hxv hyv
  have hlx : xw.length = x.length := by rw [← hxv]; simp
  have hly : yw.length = y.length := by rw [← hyv]; simp
  have : 2 * max xw.length yw.length + 8 = (2 * max xw.length yw.length + 7) + 1 := by omega
  rw [this]
  refine (karatsuba_spec gmw limit hlim _ xw yw nz hwf hx hy (by omega) hnz (by omega)).map ?_
  intro z s' _ ⟨r, hz, hb, hl, hv⟩
  subst hz
  exact ⟨hb, by simpa using hl, by rw [Option.getD_some, hv, hxv, hyv]⟩

/-- `NewMultiplier` on the Yao target (Karatsuba with the per-width threshold
table, array multiplier below the threshold): exact for all widths. -/
theorem C07_mul_yao (pro : Bool) (x y : List Bool) (nz : Nat)
    (hw : 0 < max x.length y.length) (hnz : 0 < nz) :
    (evalBuilder (fun a b => do let r ← newMultiplier false a b nz; pure (r.getD [])) pro x y).length = nz ∧
    toNat (evalBuilder (fun a b => do let r ← newMultiplier false a b nz; pure (r.getD [])) pro x y) =
      (toNat x * toNat y) % 2 ^ nz := by
  refine evalBuilder_spec (R := fun z => z.length = nz ∧ toNat z = (toNat x * toNat y) % 2 ^ nz) ?_ pro (by omega)
  intro s inp xw yw hwf hx hy hxv hyv
  have hlx : xw.length = x.length := by rw [← hxv]; simp
  have hly : yw.length = y.length := by rw [← hyv]; simp
  refine (newMultiplierYao_spec hwf nz hx hy (by omega) hnz).map ?_
  intro z s' _ ⟨r, hz, hb, hl, hv⟩
  subst hz
  exact ⟨hb, by simpa using hl, by rw [Option.getD_some, hv, hxv, hyv]⟩

-- 5-bit 27 * 19 = 513 with limit 3 (two recursion levels)
example : toNat (evalBuilder (fun a b => do
    let r ← karatsuba false 3 (2 * max a.length b.length + 8) a b 10
    pure (r.getD [])) true (ofNat 5 27) (ofNat 5 19)) = 513 := by decide +kernel

/-! ## Wallace-tree multiplier (GMW target of NewMultiplier) -/

/-- `NewWallaceMultiplier`: exact for all operand and result widths,
`(x · y) mod 2^nz`.  Proof: the weighted column sum `Σ_i 2^i·|column_i|` equals
`x·y` after the partial products, is preserved modulo `2^(2nz)` by every 3:2 /
2:2 compression round (`wlRound_spec`), the column height shrinks every round
until it is at most 2 (`wlLoop_spec`), and the two remaining rows are added by
the Kogge-Stone adder (`C07_ksAdder`). -/
theorem C07_wallace (pro : Bool) (x y : List Bool) (nz : Nat)
    (hw : 0 < x.length + y.length) (hnz : 0 < nz) :
    (evalBuilder (fun a b => wallace a b nz) pro x y).length = nz ∧
    toNat (evalBuilder (fun a b => wallace a b nz) pro x y) = (toNat x * toNat y) % 2 ^ nz := by
  refine evalBuilder_spec (R := fun z => z.length = nz ∧ toNat z = (toNat x * toNat y) % 2 ^ nz) ?_ pro hw
  intro s inp xw yw hwf hx hy hxv hyv
  refine (wallace_spec hwf nz hx hy hnz).mono ?_
  intro z s' _ ⟨hb, hl, hv⟩
  exact ⟨hb, by simpa using hl, by rw [hv, hxv, hyv]⟩

/-- `NewMultiplier` on the GMW target (= `NewWallaceMultiplier`). -/
theorem C07_mul_gmw (pro : Bool) (x y : List Bool) (nz : Nat)
    (hw : 0 < x.length + y.length) (hnz : 0 < nz) :
    toNat (evalBuilder (fun a b => do let r ← newMultiplier true a b nz; pure (r.getD [])) pro x y) =
      (toNat x * toNat y) % 2 ^ nz := by
  refine evalBuilder_spec (R := fun z => toNat z = (toNat x * toNat y) % 2 ^ nz) ?_ pro hw
  intro s inp xw yw hwf hx hy hxv hyv
  unfold newMultiplier
  simp only [if_true]
  have h1 : Spec inp s (do let r ← wallace xw yw nz; pure (some r))
      (fun z s' => ∃ r, z = some r ∧ Bnd s' r ∧
        toNat (busVal s' inp r) = (toNat (busVal s inp xw) * toNat (busVal s inp yw)) % 2 ^ nz) :=
    (wallace_spec hwf nz hx hy hnz).map (fun z s' _ ⟨hb, _, hv⟩ => ⟨z, rfl, hb, hv⟩)
  refine h1.map ?_
  intro z s' _ ⟨r, hz, hb, hv⟩
  subst hz
  exact ⟨hb, by rw [Option.getD_some, hv, hxv, hyv]⟩

example : toNat (evalBuilder (fun a b => wallace a b 8) true (ofNat 4 13) (ofNat 4 11)) = 143 := by
  decide +kernel

/-! ## Long division (Yao target of NewUDivider / NewIDivider) -/

/-- `NewUDividerLong` (on either target: its subtractor is `NewSubtractor`),
quotient: for all operand widths, EVERY quotient width (wires above the
operand width are the zero wire since the zero-fill fix) and every non-zero
divisor the result is `(x / y) mod 2^nz`.  Proof: restoring-division invariant
`a_top = q·b + r, r < b` over the dividend bits (`divLongLoop_spec`). -/
theorem C07_udiv (gmw pro : Bool) (x y : List Bool) (nz : Nat)
    (hw : 0 < max x.length y.length) (hy : toNat y ≠ 0) :
    (evalBuilder (fun a b => do let d ← uDividerLong gmw a b nz 0; pure d.1) pro x y).length = nz ∧
    toNat (evalBuilder (fun a b => do let d ← uDividerLong gmw a b nz 0; pure d.1) pro x y) =
      (toNat x / toNat y) % 2 ^ nz := by
  refine evalBuilder_spec (R := fun z => z.length = nz ∧ toNat z = (toNat x / toNat y) % 2 ^ nz) ?_ pro (by omega)
  intro s inp xw yw hwf hx hy' hxv hyv
  have hlx : xw.length = x.length := by rw [← hxv]; simp
  have hly : yw.length = y.length := by rw [← hyv]; simp
  refine (uDividerLong_spec hwf gmw nz 0 hx hy' (by omega) (by rw [hyv]; omega)).map ?_
  intro t s' _ ⟨h1, _, h1l, _, hq, _⟩
  exact ⟨h1, by simpa using h1l, by rw [hq, hxv, hyv]⟩

/-- `NewUDividerLong`, remainder: `(x mod y) mod 2^nz` for every result width,
non-zero divisor. -/
theorem C07_umod (gmw pro : Bool) (x y : List Bool) (nz : Nat)
    (hw : 0 < max x.length y.length) (hy : toNat y ≠ 0) :
    (evalBuilder (fun a b => do let d ← uDividerLong gmw a b 0 nz; pure d.2) pro x y).length = nz ∧
    toNat (evalBuilder (fun a b => do let d ← uDividerLong gmw a b 0 nz; pure d.2) pro x y) =
      (toNat x % toNat y) % 2 ^ nz := by
  refine evalBuilder_spec (R := fun z => z.length = nz ∧ toNat z = (toNat x % toNat y) % 2 ^ nz) ?_ pro (by omega)
  intro s inp xw yw hwf hx hy' hxv hyv
  have hlx : xw.length = x.length := by rw [← hxv]; simp
  have hly : yw.length = y.length := by rw [← hyv]; simp
  refine (uDividerLong_spec hwf gmw 0 nz hx hy' (by omega) (by rw [hyv]; omega)).map ?_
  intro t s' _ ⟨_, h2, _, h2l, _, hr⟩
  exact ⟨h2, by simpa using h2l, by rw [hr, hxv, hyv]⟩

-- 29 / 3 = 9 rem 2 on 5-bit operands (small widths keep the kernel evaluation of this file short)
example : toNat (evalBuilder (fun a b => do let d ← uDividerLong false a b 5 0; pure d.1) true
    (ofNat 5 29) (ofNat 5 3)) = 9 := by decide +kernel
example : toNat (evalBuilder (fun a b => do let d ← uDividerLong false a b 0 5; pure d.2) true
    (ofNat 5 29) (ofNat 5 3)) = 2 := by decide +kernel

/- Full statement for the signed divider: quotient `Int.tdiv (toInt x) (toInt y)`
   (the specification fixed by testsuite/lang/divi.mpcl), remainder
   `|x| mod |y|` (testsuite/lang/modi.mpcl, not Go's `%`), each operand read at
   its own width.  FALSE on the code for unequal operand widths (the narrower
   operand is ZERO extended, `C07_idiv_unequal_wrong`, `C07_imod_unequal_wrong`;
   known finding C07-signed-div-zero-extends, open; reachable: `int64 a / -3`,
   the constant -3 is the 32-bit value 4294967293).  The width of the RESULT is
   no restriction any more since the zero-fill fix cf9e510 of the long divider:
   the magnitude quotient is delivered at the result width and negated there. -/

/-- `NewIDivider` on the Yao target as it is, ALL operand widths, EVERY quotient
width: the truncated quotient of the two's complement values of the operands
ZERO padded to the common width `m` (what the code does), modulo `2^nz`. -/
theorem C07_idiv_partial (pro : Bool) (x y : List Bool) (nz : Nat) (hw : 0 < max x.length y.length)
    (hy : toInt (padTo y (max x.length y.length)) ≠ 0) :
    (evalBuilder (fun a b => do let d ← iDivider false a b nz 0; pure d.1) pro x y).length = nz ∧
    (toNat (evalBuilder (fun a b => do let d ← iDivider false a b nz 0; pure d.1) pro x y) : Int) =
      (Int.tdiv (toInt (padTo x (max x.length y.length))) (toInt (padTo y (max x.length y.length)))) %
        ((2 ^ nz : Nat) : Int) := by
  have hsx : padTo x (max x.length y.length) ≠ [] := by
    intro h; have := congrArg List.length h; simp only [padTo_length, List.length_nil] at this; omega
  have hsy : padTo y (max x.length y.length) ≠ [] := by
    intro h; have := congrArg List.length h; simp only [padTo_length, List.length_nil] at this; omega
  refine evalBuilder_spec (R := fun z => z.length = nz ∧
    (toNat z : Int) = (Int.tdiv (toInt (padTo x (max x.length y.length)))
      (toInt (padTo y (max x.length y.length)))) % ((2 ^ nz : Nat) : Int)) ?_ pro (by omega)
  intro s inp xw yw hwf hxb hyb hxv hyv
  have hlx : xw.length = x.length := by rw [← hxv]; simp
  have hly : yw.length = y.length := by rw [← hyv]; simp
  have hB : 0 < absN (padTo (busVal s inp yw) (max xw.length yw.length)) := by
    rw [hyv, hlx, hly, ← (toInt_sign_abs _ hsy).2]; exact Int.natAbs_pos.mpr hy
  refine (iDivider_spec hwf nz 0 hxb hyb (by omega) hB).map ?_
  intro t s' _ ⟨h1, _, h1l, _, hq, _⟩
  rw [hxv, hyv, hlx, hly] at hq
  refine ⟨h1, by simpa using h1l, ?_⟩
  rw [hq, signed_quotient _ _ hsx hsy nz]

/-- `NewIDivider` on the Yao target is exact for EQUAL operand widths and EVERY
quotient width (also wider than the operands, since cf9e510), non-zero divisor:
the quotient truncates toward zero (`Int.tdiv`), reduced modulo `2^nz`. -/
theorem C07_idiv_equal_width (pro : Bool) (x y : List Bool) (nz : Nat) (hl : x.length = y.length)
    (hw : 0 < x.length) (hy : toInt y ≠ 0) :
    (evalBuilder (fun a b => do let d ← iDivider false a b nz 0; pure d.1) pro x y).length = nz ∧
    (toNat (evalBuilder (fun a b => do let d ← iDivider false a b nz 0; pure d.1) pro x y) : Int) =
      (Int.tdiv (toInt x) (toInt y)) % ((2 ^ nz : Nat) : Int) := by
  have hx' : padTo x (max x.length y.length) = x := by simp [padTo, hl]
  have hy' : padTo y (max x.length y.length) = y := by simp [padTo, hl]
  have := C07_idiv_partial pro x y nz (by omega) (by rw [hy']; exact hy)
  rw [hx', hy'] at this
  exact this

/-- Negation witness for unequal operand widths (the shape of `int64 a / -3`):
`x = 5` (4 bits), `y = -2` (3 bits): the truncated quotient is `-2` (14 at 4
bits) but `NewIDivider` answers 0, because the divisor is read as 6. -/
theorem C07_idiv_unequal_wrong :
    toNat (evalBuilder (fun a b => do let d ← iDivider false a b 4 0; pure d.1) true (ofNat 4 5) (ofNat 3 6)) = 0 ∧
    Int.tdiv (toInt (ofNat 4 5)) (toInt (ofNat 3 6)) % 16 = 14 := by
  decide +kernel

/-- `NewIDivider` on the Yao target as it is, remainder, all operand widths,
every result width: `(|x'| mod |y'|) mod 2^nz` for the ZERO padded operands
`x'`, `y'`. -/
theorem C07_imod_partial (pro : Bool) (x y : List Bool) (nz : Nat) (hw : 0 < max x.length y.length)
    (hy : toInt (padTo y (max x.length y.length)) ≠ 0) :
    (evalBuilder (fun a b => do let d ← iDivider false a b 0 nz; pure d.2) pro x y).length = nz ∧
    toNat (evalBuilder (fun a b => do let d ← iDivider false a b 0 nz; pure d.2) pro x y) =
      ((toInt (padTo x (max x.length y.length))).natAbs %
        (toInt (padTo y (max x.length y.length))).natAbs) % 2 ^ nz := by
  have hsx : padTo x (max x.length y.length) ≠ [] := by
    intro h; have := congrArg List.length h; simp only [padTo_length, List.length_nil] at this; omega
  have hsy : padTo y (max x.length y.length) ≠ [] := by
    intro h; have := congrArg List.length h; simp only [padTo_length, List.length_nil] at this; omega
  refine evalBuilder_spec (R := fun z => z.length = nz ∧
    toNat z = ((toInt (padTo x (max x.length y.length))).natAbs %
      (toInt (padTo y (max x.length y.length))).natAbs) % 2 ^ nz) ?_ pro (by omega)
  intro s inp xw yw hwf hxb hyb hxv hyv
  have hlx : xw.length = x.length := by rw [← hxv]; simp
  have hly : yw.length = y.length := by rw [← hyv]; simp
  have hB : 0 < absN (padTo (busVal s inp yw) (max xw.length yw.length)) := by
    rw [hyv, hlx, hly, ← (toInt_sign_abs _ hsy).2]; exact Int.natAbs_pos.mpr hy
  refine (iDivider_spec hwf 0 nz hxb hyb (by omega) hB).map ?_
  intro t s' _ ⟨_, h2, _, h2l, _, hr⟩
  rw [hxv, hyv, hlx, hly] at hr
  refine ⟨h2, by simpa using h2l, ?_⟩
  rw [hr, ← (toInt_sign_abs _ hsx).2, ← (toInt_sign_abs _ hsy).2]

/-- `NewIDivider` on the Yao target, remainder, EQUAL operand widths, every
result width: `(|x| mod |y|) mod 2^nz`. -/
theorem C07_imod_equal_width (pro : Bool) (x y : List Bool) (nz : Nat) (hl : x.length = y.length)
    (hw : 0 < x.length) (hy : toInt y ≠ 0) :
    (evalBuilder (fun a b => do let d ← iDivider false a b 0 nz; pure d.2) pro x y).length = nz ∧
    toNat (evalBuilder (fun a b => do let d ← iDivider false a b 0 nz; pure d.2) pro x y) =
      ((toInt x).natAbs % (toInt y).natAbs) % 2 ^ nz := by
  have hx' : padTo x (max x.length y.length) = x := by simp [padTo, hl]
  have hy' : padTo y (max x.length y.length) = y := by simp [padTo, hl]
  have := C07_imod_partial pro x y nz (by omega) (by rw [hy']; exact hy)
  rw [hx', hy'] at this
  exact this

/-- Negation witness for unequal operand widths (the shape of `a % -3`):
`x = 5` (4 bits), `y = -2` (3 bits): `|x| mod |y| = 1` but `NewIDivider`
answers 5, because the divisor is read as 6. -/
theorem C07_imod_unequal_wrong :
    toNat (evalBuilder (fun a b => do let d ← iDivider false a b 0 4; pure d.2) true (ofNat 4 5) (ofNat 3 6)) = 5 ∧
    (toInt (ofNat 4 5)).natAbs % (toInt (ofNat 3 6)).natAbs = 1 := by
  decide +kernel

-- -7 / 2 = -3 (13 as uint4), |-7| mod 2 = 1 on 4-bit operands
example : toNat (evalBuilder (fun a b => do let d ← iDivider false a b 4 0; pure d.1) true
    (ofNat 4 9) (ofNat 4 2)) = 13 := by decide +kernel
example : toNat (evalBuilder (fun a b => do let d ← iDivider false a b 0 4; pure d.2) true
    (ofNat 4 9) (ofNat 4 2)) = 1 := by decide +kernel
-- equal operand widths and a wider quotient: int3 -4 / int3 3 = -1 at 6 bits (63)
example : toNat (evalBuilder (fun a b => do let d ← iDivider false a b 6 0; pure d.1) true
    (ofNat 3 4) (ofNat 3 3)) = 63 := by decide +kernel

/-- CONDITIONAL RESULT ABOUT THE PROPOSED REPAIR, NOT ABOUT THE CODE.
`iDividerSignPad` is `NewIDivider` (Yao target) with `cc.SignPad` in place of
`cc.ZeroPad` (hooks/c07-idivider-signpad.patch; judged not safe for /repo as
long as constants carry no sign, see `C07_intCmp_signpad`).  For this variant:
ALL operand widths, EVERY quotient width, non-zero divisor: the quotient
truncates toward zero (`Int.tdiv`), reduced modulo `2^nz`. -/
theorem C07_idiv_signpad (pro : Bool) (x y : List Bool) (nz : Nat) (hx : 0 < x.length) (hyl : 0 < y.length)
    (hy : toInt y ≠ 0) :
    (evalBuilder (fun a b => do let d ← iDividerSignPad a b nz 0; pure d.1) pro x y).length = nz ∧
    (toNat (evalBuilder (fun a b => do let d ← iDividerSignPad a b nz 0; pure d.1) pro x y) : Int) =
      (Int.tdiv (toInt x) (toInt y)) % ((2 ^ nz : Nat) : Int) := by
  have hxne : x ≠ [] := by intro h; rw [h] at hx; simp at hx
  have hyne : y ≠ [] := by intro h; rw [h] at hyl; simp at hyl
  have hsx : sextTo x (max x.length y.length) ≠ [] := by
    intro h; have := congrArg List.length h; simp only [sextTo_length, List.length_nil] at this; omega
  have hsy : sextTo y (max x.length y.length) ≠ [] := by
    intro h; have := congrArg List.length h; simp only [sextTo_length, List.length_nil] at this; omega
  refine evalBuilder_spec (R := fun z => z.length = nz ∧
    (toNat z : Int) = (Int.tdiv (toInt x) (toInt y)) % ((2 ^ nz : Nat) : Int)) ?_ pro (by omega)
  intro s inp xw yw hwf hxb hyb hxv hyv
  have hlx : xw.length = x.length := by rw [← hxv]; simp
  have hly : yw.length = y.length := by rw [← hyv]; simp
  have hB : 0 < absN (sextTo (busVal s inp yw) (max xw.length yw.length)) := by
    rw [hyv, hlx, hly, ← (toInt_sign_abs _ hsy).2, toInt_sextTo y _ hyne]; exact Int.natAbs_pos.mpr hy
  refine (iDividerSignPad_spec hwf nz 0 hxb hyb (by omega) (by omega) hB).map ?_
  intro t s' _ ⟨h1, _, h1l, _, hq, _⟩
  rw [hxv, hyv, hlx, hly] at hq
  refine ⟨h1, by simpa using h1l, ?_⟩
  rw [hq, signed_quotient _ _ hsx hsy nz, toInt_sextTo x _ hxne, toInt_sextTo y _ hyne]

/-- CONDITIONAL RESULT ABOUT THE PROPOSED REPAIR, NOT ABOUT THE CODE: remainder
of `iDividerSignPad`, all operand widths, every result width:
`(|x| mod |y|) mod 2^nz`. -/
theorem C07_imod_signpad (pro : Bool) (x y : List Bool) (nz : Nat) (hx : 0 < x.length) (hyl : 0 < y.length)
    (hy : toInt y ≠ 0) :
    (evalBuilder (fun a b => do let d ← iDividerSignPad a b 0 nz; pure d.2) pro x y).length = nz ∧
    toNat (evalBuilder (fun a b => do let d ← iDividerSignPad a b 0 nz; pure d.2) pro x y) =
      ((toInt x).natAbs % (toInt y).natAbs) % 2 ^ nz := by
  have hxne : x ≠ [] := by intro h; rw [h] at hx; simp at hx
  have hyne : y ≠ [] := by intro h; rw [h] at hyl; simp at hyl
  have hsx : sextTo x (max x.length y.length) ≠ [] := by
    intro h; have := congrArg List.length h; simp only [sextTo_length, List.length_nil] at this; omega
  have hsy : sextTo y (max x.length y.length) ≠ [] := by
    intro h; have := congrArg List.length h; simp only [sextTo_length, List.length_nil] at this; omega
  refine evalBuilder_spec (R := fun z => z.length = nz ∧
    toNat z = ((toInt x).natAbs % (toInt y).natAbs) % 2 ^ nz) ?_ pro (by omega)
  intro s inp xw yw hwf hxb hyb hxv hyv
  have hlx : xw.length = x.length := by rw [← hxv]; simp
  have hly : yw.length = y.length := by rw [← hyv]; simp
  have hB : 0 < absN (sextTo (busVal s inp yw) (max xw.length yw.length)) := by
    rw [hyv, hlx, hly, ← (toInt_sign_abs _ hsy).2, toInt_sextTo y _ hyne]; exact Int.natAbs_pos.mpr hy
  refine (iDividerSignPad_spec hwf 0 nz hxb hyb (by omega) (by omega) hB).map ?_
  intro t s' _ ⟨_, h2, _, h2l, _, hr⟩
  rw [hxv, hyv, hlx, hly] at hr
  refine ⟨h2, by simpa using h2l, ?_⟩
  rw [hr, ← (toInt_sign_abs _ hsx).2, ← (toInt_sign_abs _ hsy).2, toInt_sextTo x _ hxne, toInt_sextTo y _ hyne]

-- the proposed repair on the witnesses of `C07_idiv_unequal_wrong` / `C07_imod_unequal_wrong`
example : toNat (evalBuilder (fun a b => do let d ← iDividerSignPad a b 4 0; pure d.1) true
    (ofNat 4 5) (ofNat 3 6)) = 14 := by decide +kernel
example : toNat (evalBuilder (fun a b => do let d ← iDividerSignPad a b 0 4; pure d.2) true
    (ofNat 4 5) (ofNat 3 6)) = 1 := by decide +kernel
-- unequal widths and a wider quotient: int4 -4 / int3 3 = -1 at 6 bits (63)
example : toNat (evalBuilder (fun a b => do let d ← iDividerSignPad a b 6 0; pure d.1) true
    (ofNat 4 12) (ofNat 3 3)) = 63 := by decide +kernel

/-! ## Goldschmidt divider (GMW target of NewUDivider / NewIDivider): the correction step

`NewUDividerGoldschmidtFast` = zero pad, quotient ESTIMATE (MSB normalisation,
reciprocal seed from a ROM, `iterationsForWidthWithSeed` Goldschmidt
iterations on fixed-point products), CORRECTION (`goldCorrection`:
`r = a - q·b`, `q ± 1`, `r ± b`, selection by two sign bits).  The whole
generator `goldschmidt` is tied gate for gate to the Go code (T4).  Proved
here: the correction step is exact for every width IF the estimate is within
±1 of the true quotient.  That bound on the estimate is NOT proved; it is the
explicitly named VALIDATED HYPOTHESIS `goldschmidt-estimate-within-one` of the
check (exhaustive evaluation of the real builder for all operand pairs up to a
width bound on every run, structured operand pairs above; checks/C07.py). -/

/-- Correction step of `NewUDividerGoldschmidtFast` as of 776d360, for EVERY
operand width `n ≥ 1`, all result widths, every non-zero divisor: if the
estimate `q` satisfies `|q - ⌊a / b⌋| ≤ 1` (hypothesis `hest`) then the outputs
are exactly `(a / b) mod 2^nq` and `(a mod b) mod 2^nr`. -/
theorem C07_goldschmidt_correction (pro : Bool) (a b q : List Bool) (nq nr : Nat)
    (hlb : b.length = a.length) (hlq : q.length = a.length) (hn : 0 < a.length) (hb : toNat b ≠ 0)
    (hest : toNat q ≤ toNat a / toNat b + 1 ∧ toNat a / toNat b ≤ toNat q + 1) :
    ((evalBuilder3 (fun x y z => do let d ← goldCorrection x y z nq nr; pure d.1) pro a b q).length = nq ∧
      toNat (evalBuilder3 (fun x y z => do let d ← goldCorrection x y z nq nr; pure d.1) pro a b q) =
        (toNat a / toNat b) % 2 ^ nq) ∧
    ((evalBuilder3 (fun x y z => do let d ← goldCorrection x y z nq nr; pure d.2) pro a b q).length = nr ∧
      toNat (evalBuilder3 (fun x y z => do let d ← goldCorrection x y z nq nr; pure d.2) pro a b q) =
        (toNat a % toNat b) % 2 ^ nr) := by
  constructor
  · refine evalBuilder3_spec (R := fun z => z.length = nq ∧ toNat z = (toNat a / toNat b) % 2 ^ nq) ?_ pro
      (by omega)
    intro s inp xw yw zw hwf hx hy hz hxv hyv hzv
    have hlx : xw.length = a.length := by rw [← hxv]; simp
    have hly : yw.length = b.length := by rw [← hyv]; simp
    have hlz : zw.length = q.length := by rw [← hzv]; simp
    refine (goldCorrection_spec hwf nq nr hx hy hz (by omega) (by omega) (by omega) (by rw [hyv]; omega)
      (by rw [hxv, hyv, hzv]; exact hest)).map ?_
    intro t s' _ ⟨h1, _, h1l, _, hqv, _⟩
    exact ⟨h1, by simpa using h1l, by rw [hqv, hxv, hyv]⟩
  · refine evalBuilder3_spec (R := fun z => z.length = nr ∧ toNat z = (toNat a % toNat b) % 2 ^ nr) ?_ pro
      (by omega)
    intro s inp xw yw zw hwf hx hy hz hxv hyv hzv
    have hlx : xw.length = a.length := by rw [← hxv]; simp
    have hly : yw.length = b.length := by rw [← hyv]; simp
    have hlz : zw.length = q.length := by rw [← hzv]; simp
    refine (goldCorrection_spec hwf nq nr hx hy hz (by omega) (by omega) (by omega) (by rw [hyv]; omega)
      (by rw [hxv, hyv, hzv]; exact hest)).map ?_
    intro t s' _ ⟨_, h2, _, h2l, _, hrv⟩
    exact ⟨h2, by simpa using h2l, by rw [hrv, hxv, hyv]⟩

-- non-vacuity: 7 / 3 at width 3 with the estimate 3 (one too big): 2 rem 1
example : toNat (evalBuilder3 (fun x y z => do let d ← goldCorrection x y z 3 3; pure d.1) true
    (ofNat 3 7) (ofNat 3 3) (ofNat 3 3)) = 2 := by decide +kernel
example : toNat (evalBuilder3 (fun x y z => do let d ← goldCorrection x y z 3 3; pure d.2) true
    (ofNat 3 7) (ofNat 3 3) (ofNat 3 3)) = 1 := by decide +kernel

/-- Old-definition negation witness (`goldCorrectionOld` in Model/Builders.lean is
the correction step as it was before 776d360: `q·b` truncated to `n` bits, `r`
on `n+1` bits, sign read from `r[n]`): `7 / 3` at width 3 with the estimate `3`
— which satisfies the hypothesis of `C07_goldschmidt_correction`, `⌊7/3⌋ = 2` —
gave `4 rem 3`: `3·3 = 9 = 1 (mod 2^3)`, so `r = 6` looked non-negative and
`≥ b`.  (The kernel evaluates the 367 gates of width 3; the same defect at
width 7, `127 / 13` with the estimate 10 giving `11 rem 112`, has 1710 gates
and is evaluated by the compiled driver on every run, fact
`goldschmidt_old_witness_127_13` of checks/C07.py.) -/
theorem C07_goldschmidt_correction_old_wrong :
    toNat (evalBuilder3 (fun x y z => do let d ← goldCorrectionOld x y z 3 3; pure d.1) true
      (ofNat 3 7) (ofNat 3 3) (ofNat 3 3)) = 4 ∧
    toNat (evalBuilder3 (fun x y z => do let d ← goldCorrectionOld x y z 3 3; pure d.2) true
      (ofNat 3 7) (ofNat 3 3) (ofNat 3 3)) = 3 ∧
    (3 ≤ 7 / 3 + 1 ∧ 7 / 3 ≤ 3 + 1) ∧ 7 / 3 = 2 ∧ 7 % 3 = 1 := by
  decide +kernel


/-! ## Histories: many builder calls on ONE Compiler

The compiler creates one `circuits.Compiler` per program and calls many builders
on it.  The theorems above are stated on `evalBuilder` (one call on a fresh
state), but their `_spec` lemmas hold from ANY well-formed builder state; the
theorems of this section state the consequence for histories of calls.  The
Lean generators run in sequence from one state are compared gate for gate with
the real builders run in the same sequence on one `circuits.Compiler` (T4, op
`hgr` of harness/cmd/c07/hist.go). -/

/-- Sequential composition (frame property): two builders run one after the
other on ONE state, the second possibly using the result of the first.  If the
first establishes `Q1` from the state `s`, `Q1` is stable under state
extension (every postcondition of the form "these wires exist and carry these
values" is: `Bnd.mono`, `busVal_ext`), and the second establishes `Q2` from
every extension of `s` in which `Q1` holds, then after both calls BOTH
postconditions hold: the second call does not disturb the result of the
first, and the first does not disturb the working of the second. -/
theorem C07_history_compose {α β : Type} {inp : List Bool} {s : St} {m1 : BM α} {m2 : α → BM β}
    {Q1 : α → St → Prop} {Q2 : α → β → St → Prop}
    (h1 : Spec inp s m1 Q1)
    (hstab : ∀ a s' s'', Ext s' s'' inp → Q1 a s' → Q1 a s'')
    (h2 : ∀ a s', Ext s s' inp → Q1 a s' → Spec inp s' (m2 a) (Q2 a)) :
    Spec inp s (m1 >>= fun r1 => m2 r1 >>= fun r2 => (Pure.pure (r1, r2) : BM (α × β)))
      (fun (r : α × β) s'' => Q1 r.1 s'' ∧ Q2 r.1 r.2 s'') :=
  Spec.seq h1 hstab h2

/-- The fold over a HISTORY of calls, for every length: if every call of the
list meets its specification from every well-formed state (`SCall.Sound`: the
form of all `_spec` lemmas) and the preconditions of the later calls follow
from the values at the start and the postconditions of the earlier calls
(`PreOk`), then running the calls in order on ONE state extends that state
(no earlier wire changes its value) and EVERY call's postcondition holds in the
final state (`Trace`), whatever the earlier calls were and whether its
operands are inputs or results of earlier calls. -/
theorem C07_history {inp : List Bool} (cs : List SCall) (hs : ∀ c ∈ cs, c.Sound inp)
    (s : St) (acc : List (List Nat)) (hwf : WF s inp) (hb : BndAll s acc) (hpre : PreOk cs (busVals s inp acc)) :
    Spec inp s (runHist (cs.map (·.call)) acc) (fun out s' => BndAll s' out ∧
      Trace cs (busVals s inp acc) (busVals s' inp out)) :=
  runHist_spec cs hs s acc hwf hb hpre

/-- The same on the circuit the harness builds for a history (`evalHistory`:
input buses `ins`, optional constant-wire prologue, the calls in order on one
state, `ret` of every result, evaluation of the emitted gate list): the outputs
are one value per call, each satisfying its call's postcondition. -/
theorem C07_history_harness {ins : List (List Bool)} (cs : List SCall)
    (hs : ∀ c ∈ cs, c.Sound ins.flatten) (hpre : PreOk cs ins) (pro : Bool) (hpos : 0 < ins.flatten.length) :
    Trace cs ins (ins ++ evalHistory pro ins (cs.map (·.call))) :=
  evalHistory_spec cs hs hpre pro hpos

/-- DIVIDER AFTER DIVIDER on one Compiler (long divider, both targets of
`NewUDividerLong`; the Yao target of `NewUDivider`), independent operands
`a / b` and `c / d`, all operand and result widths, all values with non-zero
divisors: both quotients are exact. -/
theorem C07_history_udiv_udiv (gmw pro : Bool) (a b c d : List Bool) (nq1 nq2 : Nat)
    (hw1 : 0 < max a.length b.length) (hw2 : 0 < max c.length d.length) (hb : toNat b ≠ 0) (hd : toNat d ≠ 0) :
    ∃ q1 q2, evalHistory pro [a, b, c, d]
        [(udivLongCall gmw nq1 (0, 0, a.length) (1, 0, b.length)).call,
         (udivLongCall gmw nq2 (2, 0, c.length) (3, 0, d.length)).call] = [q1, q2] ∧
      q1.length = nq1 ∧ toNat q1 = (toNat a / toNat b) % 2 ^ nq1 ∧
      q2.length = nq2 ∧ toNat q2 = (toNat c / toNat d) % 2 ^ nq2 := by
  have hpos : 0 < [a, b, c, d].flatten.length := by simp; omega
  have h := C07_history_harness (ins := [a, b, c, d])
    [udivLongCall gmw nq1 (0, 0, a.length) (1, 0, b.length), udivLongCall gmw nq2 (2, 0, c.length) (3, 0, d.length)]
    (by intro c' hc'; simp at hc'; rcases hc' with rfl | rfl <;> exact udivLongCall_sound _ _ _ _ _)
    (by
      simp only [PreOk, udivLongCall, SCall.of2, pickV]
      refine ⟨⟨by simpa using hw1, by simpa using hb⟩, fun z _ => ⟨⟨by simpa using hw2, by simpa using hd⟩, fun _ _ => trivial⟩⟩)
    pro hpos
  obtain ⟨q1, hq1, q2, hq2, heq⟩ := h
  simp [udivLongCall, SCall.of2, pickV] at hq1 hq2
  refine ⟨q1, q2, ?_, hq1.1, hq1.2, hq2.1, hq2.2⟩
  have : [a, b, c, d] ++ evalHistory pro [a, b, c, d]
      [(udivLongCall gmw nq1 (0, 0, a.length) (1, 0, b.length)).call,
       (udivLongCall gmw nq2 (2, 0, c.length) (3, 0, d.length)).call] = [a, b, c, d] ++ [q1, q2] := by
    simpa [Trace] using heq
  exact List.append_cancel_left this

-- non-vacuity: 13 / 3 = 4 and then 14 / 5 = 2 on one state (4-bit operands, Yao long divider)
example : (evalHistory true [ofNat 4 13, ofNat 4 3, ofNat 4 14, ofNat 4 5]
    [(udivLongCall false 4 (0, 0, 4) (1, 0, 4)).call, (udivLongCall false 4 (2, 0, 4) (3, 0, 4)).call]).map toNat
    = [4, 2] := by decide +kernel

/-- A later call FED BY an earlier result, with a precondition that follows from
the earlier postcondition: `s = a + b` (ripple adder, `nz` bits), then `c / s`
(long divider): exact whenever `(a + b) mod 2^nz ≠ 0`. -/
theorem C07_history_add_then_udiv (gmw pro : Bool) (a b c : List Bool) (nz nq : Nat)
    (hw : 0 < max a.length b.length) (hnz : 0 < nz) (hs : (toNat a + toNat b) % 2 ^ nz ≠ 0) :
    ∃ sm q, evalHistory pro [a, b, c]
        [(rippleAdderCall nz (0, 0, a.length) (1, 0, b.length)).call,
         (udivLongCall gmw nq (2, 0, c.length) (3, 0, nz)).call] = [sm, q] ∧
      sm.length = nz ∧ toNat sm = (toNat a + toNat b) % 2 ^ nz ∧
      q.length = nq ∧ toNat q = (toNat c / ((toNat a + toNat b) % 2 ^ nz)) % 2 ^ nq := by
  have hpos : 0 < [a, b, c].flatten.length := by simp; omega
  have h := C07_history_harness (ins := [a, b, c])
    [rippleAdderCall nz (0, 0, a.length) (1, 0, b.length), udivLongCall gmw nq (2, 0, c.length) (3, 0, nz)]
    (by intro c' hc'; simp at hc'; rcases hc' with rfl | rfl
        · exact rippleAdderCall_sound _ _ _ _
        · exact udivLongCall_sound _ _ _ _ _)
    (by
      simp only [PreOk, rippleAdderCall, udivLongCall, SCall.of2, pickV]
      refine ⟨⟨by simpa using hw, hnz⟩, ?_⟩
      intro z ⟨hzl, hzv⟩
      have hz : List.take nz (List.drop 0 (([a, b, c] ++ [z]).getD 3 [])) = z := by
        simp [← hzl]
      have ha' : List.take a.length (List.drop 0 ([a, b, c].getD 0 [])) = a := by simp
      have hb' : List.take b.length (List.drop 0 ([a, b, c].getD 1 [])) = b := by simp
      rw [ha', hb'] at hzv
      refine ⟨⟨?_, ?_⟩, fun _ _ => trivial⟩
      · rw [hz]; simp [hzl]; omega
      · rw [hz, hzv]; exact hs) pro hpos
  obtain ⟨sm, hsm, q, hq, heq⟩ := h
  simp [rippleAdderCall, udivLongCall, SCall.of2, pickV] at hsm hq
  have hsl : sm.length = nz := hsm.1
  have hq' := hq
  rw [← hsl, List.take_length] at hq'
  refine ⟨sm, q, ?_, hsm.1, hsm.2, hq'.1, by rw [hq'.2, hsm.2]⟩
  have : [a, b, c] ++ evalHistory pro [a, b, c]
      [(rippleAdderCall nz (0, 0, a.length) (1, 0, b.length)).call,
       (udivLongCall gmw nq (2, 0, c.length) (3, 0, nz)).call] = [a, b, c] ++ [sm, q] := by
    simpa [Trace] using heq
  exact List.append_cancel_left this

-- non-vacuity: 2 + 3 = 5, then 14 / 5 = 2
example : (evalHistory true [ofNat 3 2, ofNat 3 3, ofNat 4 14]
    [(rippleAdderCall 3 (0, 0, 3) (1, 0, 3)).call, (udivLongCall false 4 (2, 0, 4) (3, 0, 3)).call]).map toNat
    = [5, 2] := by decide +kernel

/-- GOLDSCHMIDT DIVIDER AFTER GOLDSCHMIDT DIVIDER on one Compiler (the GMW
target of `NewUDivider`), stated for an arbitrary quotient estimator `est`
(`dividerWith est` = estimator, then the correction step `goldCorrection`;
`goldschmidt = dividerWith goldEstimate` on equal operand widths,
`C07_history_goldschmidt_pair`).  From any well-formed state, for all equal
operand widths and all result widths, non-zero divisors: if the estimator is
within ±1 of the quotient when run from the state `s` on `a, b` AND when run
on `c, d` from every state that extends `s` (in particular the one the first
divider leaves behind), then BOTH dividers are exact.  The estimate bound is
the VALIDATED hypothesis `goldschmidt-estimate-within-one`; checks/C07.py
evaluates it on fresh states (`estexh`, `estrnd`) and on the states a first
divider leaves behind (`esthist`). -/
theorem C07_history_divider_pair (est : List Nat → List Nat → BM (List Nat)) {s : St} {inp : List Bool}
    {a b c d : List Nat} (nq1 nr1 nq2 nr2 : Nat)
    (ha : Bnd s a) (hb : Bnd s b) (hc : Bnd s c) (hd : Bnd s d)
    (hlb : b.length = a.length) (hld : d.length = c.length) (hna : 0 < a.length) (hnc : 0 < c.length)
    (hB : 0 < toNat (busVal s inp b)) (hD : 0 < toNat (busVal s inp d))
    (hest1 : EstWithinOne est inp s a b)
    (hest2 : ∀ s', Ext s s' inp → EstWithinOne est inp s' c d) :
    Spec inp s (dividerWith est a b nq1 nr1 >>= fun r1 => dividerWith est c d nq2 nr2 >>= fun r2 =>
        (Pure.pure (r1, r2) : BM ((List Nat × List Nat) × (List Nat × List Nat))))
      (fun r s'' =>
        (r.1.1.length = nq1 ∧ r.1.2.length = nr1 ∧
          toNat (busVal s'' inp r.1.1) = (toNat (busVal s inp a) / toNat (busVal s inp b)) % 2 ^ nq1 ∧
          toNat (busVal s'' inp r.1.2) = (toNat (busVal s inp a) % toNat (busVal s inp b)) % 2 ^ nr1) ∧
        (r.2.1.length = nq2 ∧ r.2.2.length = nr2 ∧
          toNat (busVal s'' inp r.2.1) = (toNat (busVal s inp c) / toNat (busVal s inp d)) % 2 ^ nq2 ∧
          toNat (busVal s'' inp r.2.2) = (toNat (busVal s inp c) % toNat (busVal s inp d)) % 2 ^ nr2)) := by
  have h := C07_history_compose
    (Q1 := fun (t : List Nat × List Nat) s' => Bnd s' t.1 ∧ Bnd s' t.2 ∧ t.1.length = nq1 ∧ t.2.length = nr1 ∧
      toNat (busVal s' inp t.1) = (toNat (busVal s inp a) / toNat (busVal s inp b)) % 2 ^ nq1 ∧
      toNat (busVal s' inp t.2) = (toNat (busVal s inp a) % toNat (busVal s inp b)) % 2 ^ nr1)
    (Q2 := fun _ (t : List Nat × List Nat) s' => t.1.length = nq2 ∧ t.2.length = nr2 ∧
      toNat (busVal s' inp t.1) = (toNat (busVal s inp c) / toNat (busVal s inp d)) % 2 ^ nq2 ∧
      toNat (busVal s' inp t.2) = (toNat (busVal s inp c) % toNat (busVal s inp d)) % 2 ^ nr2)
    (dividerWith_spec nq1 nr1 ha hb hlb hna hB hest1)
    (by
      intro t s' s'' e ⟨b1, b2, l1, l2, v1, v2⟩
      exact ⟨b1.mono e, b2.mono e, l1, l2, by rw [busVal_ext e b1]; exact v1, by rw [busVal_ext e b2]; exact v2⟩)
    (by
      intro t s' e _
      have hvc : busVal s' inp c = busVal s inp c := busVal_ext e hc
      have hvd : busVal s' inp d = busVal s inp d := busVal_ext e hd
      refine (dividerWith_spec nq2 nr2 (hc.mono e) (hd.mono e) hld hnc (by rw [hvd]; exact hD) (hest2 s' e)).mono ?_
      intro u s'' _ ⟨_, _, l1, l2, v1, v2⟩
      rw [hvc, hvd] at v1 v2
      exact ⟨l1, l2, v1, v2⟩)
  refine h.mono ?_
  intro r s'' _ ⟨⟨_, _, l1, l2, v1, v2⟩, q2⟩
  exact ⟨⟨l1, l2, v1, v2⟩, q2⟩

-- non-vacuity of C07_history_divider_pair: with the exact estimator all its hypotheses hold from every state
example {s : St} {inp : List Bool} (hwf : WF s inp) {a b c d : List Nat} (ha : Bnd s a) (hb : Bnd s b) (hc : Bnd s c)
    (hd : Bnd s d) (hlb : b.length = a.length) (hld : d.length = c.length) (hna : 0 < a.length) (hnc : 0 < c.length)
    (hB : 0 < toNat (busVal s inp b)) (hD : 0 < toNat (busVal s inp d)) :
    Spec inp s (dividerWith exactEstimator a b 3 3 >>= fun r1 => dividerWith exactEstimator c d 3 3 >>= fun r2 =>
        (Pure.pure (r1, r2) : BM ((List Nat × List Nat) × (List Nat × List Nat)))) (fun _ _ => True) :=
  (C07_history_divider_pair exactEstimator 3 3 3 3 ha hb hc hd hlb hld hna hnc hB hD
    (exactEstimator_withinOne hwf ha hb hna hB)
    (fun s' e => exactEstimator_withinOne e.wf (hc.mono e) (hd.mono e) hnc
      (by rw [busVal_ext e hd]; exact hD))).mono (fun _ _ _ _ => trivial)

/-- The code's divider: two `NewUDividerGoldschmidtFast` calls on one Compiler
(equal operand widths), under the validated estimate hypothesis for
`goldEstimate` at both states. -/
theorem C07_history_goldschmidt_pair {s : St} {inp : List Bool}
    {a b c d : List Nat} (nq1 nr1 nq2 nr2 : Nat)
    (ha : Bnd s a) (hb : Bnd s b) (hc : Bnd s c) (hd : Bnd s d)
    (hlb : b.length = a.length) (hld : d.length = c.length) (hna : 0 < a.length) (hnc : 0 < c.length)
    (hB : 0 < toNat (busVal s inp b)) (hD : 0 < toNat (busVal s inp d))
    (hest1 : EstWithinOne goldEstimate inp s a b)
    (hest2 : ∀ s', Ext s s' inp → EstWithinOne goldEstimate inp s' c d) :
    Spec inp s (goldschmidt a b nq1 nr1 >>= fun r1 => goldschmidt c d nq2 nr2 >>= fun r2 =>
        (Pure.pure (r1, r2) : BM ((List Nat × List Nat) × (List Nat × List Nat))))
      (fun r s'' =>
        (r.1.1.length = nq1 ∧ r.1.2.length = nr1 ∧
          toNat (busVal s'' inp r.1.1) = (toNat (busVal s inp a) / toNat (busVal s inp b)) % 2 ^ nq1 ∧
          toNat (busVal s'' inp r.1.2) = (toNat (busVal s inp a) % toNat (busVal s inp b)) % 2 ^ nr1) ∧
        (r.2.1.length = nq2 ∧ r.2.2.length = nr2 ∧
          toNat (busVal s'' inp r.2.1) = (toNat (busVal s inp c) / toNat (busVal s inp d)) % 2 ^ nq2 ∧
          toNat (busVal s'' inp r.2.2) = (toNat (busVal s inp c) % toNat (busVal s inp d)) % 2 ^ nr2)) := by
  rw [goldschmidt_eq_dividerWith a b nq1 nr1 hlb.symm, goldschmidt_eq_dividerWith c d nq2 nr2 hld.symm]
  exact C07_history_divider_pair goldEstimate nq1 nr1 nq2 nr2 ha hb hc hd hlb hld hna hnc hB hD hest1 hest2

-- the conclusion of C07_history_goldschmidt_pair executed on the code's generators: 1 / 1 = 1 and then 0 / 1 = 0 with
-- two Goldschmidt dividers on one state (1-bit operands keep the kernel evaluation short; the same at 4 bits, where
-- the seed ROM is in use, 13 / 3 = 4 and then 14 / 5 = 2, is evaluated by the compiled driver on every run: fact
-- `goldschmidt_pair_on_one_state` of checks/C07.py)
example : (evalHistory true [ofNat 1 1, ofNat 1 1, ofNat 1 0, ofNat 1 1]
    [goldCall 1 (0, 0, 1) (1, 0, 1), goldCall 1 (2, 0, 1) (3, 0, 1)]).map toNat = [1, 0] := by decide +kernel

/-! ## Operand shapes: constant wires, repeated wires, one bus twice

`ssa.Program.Circuit` never hands a builder only fresh value wires: constants
are wired from `cc.ZeroWire()` / `cc.OneWire()`, every cast to a wider type,
shift, slice and short constant pads with `cc.ZeroWire()`, a sign extension
repeats the top wire, `x op x` passes one bus twice; earlier builders deliver
the constant wires as result bits (`z[i] = cc.ZeroWire()`).  "For all operand
values of the builders as the compiler uses them" therefore quantifies over
operand buses made of ARBITRARY existing wires.

The `_spec` lemmas behind every theorem of this file ask of the operand wires
only `Bnd s x` (each wire id is below `s.next`: an input, the output of any
earlier gate, a constant wire; no distinctness, no freshness) and speak about
`busVal s inp x` (the values those wires carry).  The family
`C07_builders_any_operand_wires_*` states this explicitly, builder by builder;
`C07_operand_shapes` gives the wires and values of an operand made of bus slices
and constant wires (`mkOperand`, which requests the lazily created constant
wires exactly as the harness does with the real Compiler); `C07_shaped_call` /
`C07_shaped_call3` make a builder call on such operands a sound call of a
history, so `C07_history` / `C07_history_harness` cover histories whose operands
hold constant and repeated wires; `C07_eq_neq_zext_vs_constant` is the instance
`uintN(a) == c`, `uintN(a) != c` with a constant outside the range of `a`.

Tie: harness/cmd/c07 class `shape` (and the random histories) run the real
builders on such operand buses on both targets; the gate lists are compared
literally with the generators run on the same operand wires (T4, op `hgr`) and
every call is judged against math/big on the values its operands carry. -/

/-- An operand made of pieces (slices of known buses, `n` copies of the zero
wire, `n` copies of the one wire; the same wire may occur several times): from
any well-formed state its wires exist afterwards and carry `opndVal` of the
values of the known buses. -/
theorem C07_operand_shapes {inp : List Bool} {acc : List (List Nat)} (ps : List Piece) {s : St}
    (hwf : WF s inp) (hb : BndAll s acc) :
    Spec inp s (mkOperand acc ps) (fun w s' => Bnd s' w ∧ busVal s' inp w = opndVal (busVals s inp acc) ps) :=
  mkOperand_spec ps hwf hb

-- non-vacuity: from a state WITHOUT constant wires (they are created while the operand is made): the value `a`,
-- its top wire repeated, a zero and a one
example : (mkOperand [[0, 1]] [Piece.bus 0 0 2, Piece.bus 0 1 1, Piece.zeros 1, Piece.ones 1] (initSt 2 false)).1
    = [0, 1, 1, 3, 4] := by decide
example : let r := mkOperand [[0, 1]] [Piece.bus 0 0 2, Piece.bus 0 1 1, Piece.zeros 1, Piece.ones 1] (initSt 2 false)
    busVal r.2 [false, true] r.1 = [false, true, true, false, true] := by decide

/-- `NewEqComparator` on ANY operand wires of a well-formed state. -/
theorem C07_builders_any_operand_wires_eq {s : St} {inp : List Bool} (hwf : WF s inp) {x y : List Nat}
    (hx : Bnd s x) (hy : Bnd s y) (hne : 0 < max x.length y.length) :
    Spec inp s (eqComparator x y) (fun z s' => Bnd s' z ∧
      busVal s' inp z = [decide (toNat (busVal s inp x) = toNat (busVal s inp y))]) :=
  eqComparator_spec hwf hx hy hne

-- non-vacuity (state `exSt`: inputs 0, 1; wire 3 = zero wire, wire 4 = one wire): x = in0 twice, zero, one;
-- y = in1, one, zero, zero
example : busVal (initSt 2 true) [true, false] [0, 0, 3, 4] = [true, true, false, true] ∧
    busVal (initSt 2 true) [true, false] [1, 4, 3, 3] = [false, true, false, false] := by decide
example : Spec [true, false] (initSt 2 true) (eqComparator [0, 0, 3, 4] [1, 4, 3, 3]) (fun z s' =>
    busVal s' [true, false] z = [false]) :=
  (C07_builders_any_operand_wires_eq exSt_wf (exSt_bnd _ (by decide)) (exSt_bnd _ (by decide)) (by decide)).mono
    (fun z s' _ h => by rw [h.2]; decide)

/-- `NewNeqComparator` on any operand wires. -/
theorem C07_builders_any_operand_wires_neq {s : St} {inp : List Bool} (hwf : WF s inp) {x y : List Nat}
    (hx : Bnd s x) (hy : Bnd s y) (hne : 0 < max x.length y.length) :
    Spec inp s (neqComparator x y) (fun z s' => Bnd s' z ∧
      busVal s' inp z = [decide (toNat (busVal s inp x) ≠ toNat (busVal s inp y))]) :=
  neqComparator_spec hwf hx hy hne

example : Spec [true, false] (initSt 2 true) (neqComparator [0, 0, 3, 4] [1, 4, 3, 3]) (fun z s' =>
    busVal s' [true, false] z = [true]) :=
  (C07_builders_any_operand_wires_neq exSt_wf (exSt_bnd _ (by decide)) (exSt_bnd _ (by decide)) (by decide)).mono
    (fun z s' _ h => by rw [h.2]; decide)

/-- `NewUint{Gt,Ge,Lt,Le}Comparator` on any operand wires. -/
theorem C07_builders_any_operand_wires_ucmp {s : St} {inp : List Bool} (hwf : WF s inp) (k : CmpKind)
    {x y : List Nat} (hx : Bnd s x) (hy : Bnd s y) :
    Spec inp s (comparator false k x y) (fun z s' => Bnd s' z ∧
      busVal s' inp z = [k.relNat (toNat (busVal s inp x)) (toNat (busVal s inp y))]) :=
  ucomparator_spec hwf k hx hy

example : Spec [true, false] (initSt 2 true) (comparator false .gt [0, 0, 3, 4] [1, 4, 3, 3]) (fun z s' =>
    busVal s' [true, false] z = [true]) :=  -- 11 > 2
  (C07_builders_any_operand_wires_ucmp exSt_wf .gt (exSt_bnd _ (by decide)) (exSt_bnd _ (by decide))).mono
    (fun z s' _ h => by rw [h.2]; decide)

/-- `NewInt{Gt,Ge,Lt,Le}Comparator` on any operand wires (AS IN THE CODE: the
operands are zero padded to the common width, see `C07_intCmp_partial`). -/
theorem C07_builders_any_operand_wires_icmp {s : St} {inp : List Bool} (hwf : WF s inp) (k : CmpKind)
    {x y : List Nat} (hx : Bnd s x) (hy : Bnd s y) (hne : 0 < max x.length y.length) :
    Spec inp s (comparator true k x y) (fun z s' => Bnd s' z ∧
      busVal s' inp z = [k.relInt (toInt (padTo (busVal s inp x) (max x.length y.length)))
        (toInt (padTo (busVal s inp y) (max x.length y.length)))]) :=
  icomparator_spec hwf k hx hy hne

example : Spec [true, false] (initSt 2 true) (comparator true .lt [0, 0, 3, 4] [1, 4, 3, 3]) (fun z s' =>
    busVal s' [true, false] z = [true]) :=  -- -5 < 2
  (C07_builders_any_operand_wires_icmp exSt_wf .lt (exSt_bnd _ (by decide)) (exSt_bnd _ (by decide)) (by decide)).mono
    (fun z s' _ h => by rw [h.2]; decide)

/-- `NewAdder` (both targets: ripple carry, Kogge-Stone) on any operand wires. -/
theorem C07_builders_any_operand_wires_adder {s : St} {inp : List Bool} (hwf : WF s inp) (gmw : Bool)
    {x y : List Nat} (nz : Nat) (hx : Bnd s x) (hy : Bnd s y) (hne : 0 < max x.length y.length) (hnz : 0 < nz) :
    Spec inp s (newAdder gmw x y nz) (fun z s' => Bnd s' z ∧ z.length = nz ∧
      toNat (busVal s' inp z) = (toNat (busVal s inp x) + toNat (busVal s inp y)) % 2 ^ nz) := by
  cases gmw with
  | false => exact rippleAdder_spec hwf nz hx hy hne hnz
  | true =>
    simp only [newAdder, if_true, ksAdder]
    exact ksAdderWith_spec hwf nz _ hx hy hne hnz (le_two_pow_ceilLog2 _)

example (gmw : Bool) : Spec [true, false] (initSt 2 true) (newAdder gmw [0, 0, 3, 4] [1, 4, 3, 3] 5) (fun z s' =>
    toNat (busVal s' [true, false] z) = 13) :=  -- 11 + 2
  (C07_builders_any_operand_wires_adder exSt_wf gmw 5 (exSt_bnd _ (by decide)) (exSt_bnd _ (by decide)) (by decide)
    (by decide)).mono (fun z s' _ h => by rw [h.2.2]; decide)

/-- `NewSubtractor` (Yao target) on any operand wires: `z + y ≡ x (mod 2^nz)`. -/
theorem C07_builders_any_operand_wires_sub {s : St} {inp : List Bool} (hwf : WF s inp)
    {x y : List Nat} (nz : Nat) (hx : Bnd s x) (hy : Bnd s y) (hnz : 0 < nz) :
    Spec inp s (rippleSubtractor x y nz) (fun z s' => Bnd s' z ∧ z.length = nz ∧
      (toNat (busVal s' inp z) + toNat (busVal s inp y)) % 2 ^ nz = toNat (busVal s inp x) % 2 ^ nz) :=
  rippleSubtractor_spec hwf nz hx hy hnz

example : Spec [true, false] (initSt 2 true) (rippleSubtractor [0, 0, 3, 4] [0, 0, 3, 4] 4) (fun z s' =>
    (toNat (busVal s' [true, false] z) + 11) % 16 = 11) :=  -- x - x
  (C07_builders_any_operand_wires_sub exSt_wf 4 (exSt_bnd _ (by decide)) (exSt_bnd _ (by decide)) (by decide)).mono
    (fun z s' _ h => by
      have hv : toNat (busVal (initSt 2 true) [true, false] [0, 0, 3, 4]) = 11 := by decide
      have := h.2.2
      rw [hv] at this
      exact this)

/-- `NewMUX` on any operand wires, condition included (a constant wire, the
result of a comparison, ...). -/
theorem C07_builders_any_operand_wires_mux {s : St} {inp : List Bool} (hwf : WF s inp) {t f : List Nat} {cond : Nat}
    (ht : Bnd s t) (hf : Bnd s f) (hc : cond < s.next) :
    Spec inp s (newMUX cond t f (max t.length f.length)) (fun z s' => ∃ r, z = some r ∧ Bnd s' r ∧
      busVal s' inp r = if s.val inp cond then padTo (busVal s inp t) (max t.length f.length)
        else padTo (busVal s inp f) (max t.length f.length)) :=
  newMUX_spec hwf ht hf hc

-- the condition is the one wire, the false value is the true value's own bus
example : Spec [true, false] (initSt 2 true) (newMUX 4 [0, 0, 3, 4] [0, 0, 3, 4] 4) (fun z s' =>
    ∃ r, z = some r ∧ busVal s' [true, false] r = [true, true, false, true]) :=
  (C07_builders_any_operand_wires_mux (t := [0, 0, 3, 4]) (f := [0, 0, 3, 4]) exSt_wf (exSt_bnd _ (by decide))
    (exSt_bnd _ (by decide)) (by decide)).mono
    (fun z s' _ ⟨r, hz, _, hv⟩ => ⟨r, hz, by rw [hv]; decide⟩)

/-- `NewArrayMultiplier` and `NewWallaceMultiplier` on any operand wires. -/
theorem C07_builders_any_operand_wires_mul {s : St} {inp : List Bool} (hwf : WF s inp)
    {x y : List Nat} (nz : Nat) (hx : Bnd s x) (hy : Bnd s y) (hne : 0 < max x.length y.length) (hnz : 0 < nz) :
    Spec inp s (arrayMultiplier x y nz) (fun z s' => Bnd s' z ∧ z.length = nz ∧
      toNat (busVal s' inp z) = (toNat (busVal s inp x) * toNat (busVal s inp y)) % 2 ^ nz) ∧
    Spec inp s (wallace x y nz) (fun z s' => Bnd s' z ∧ z.length = nz ∧
      toNat (busVal s' inp z) = (toNat (busVal s inp x) * toNat (busVal s inp y)) % 2 ^ nz) :=
  ⟨arrayMultiplier_spec hwf nz hx hy hne hnz, wallace_spec hwf nz hx hy hnz⟩

example : Spec [true, false] (initSt 2 true) (arrayMultiplier [0, 0, 3, 4] [1, 4, 3, 3] 8) (fun z s' =>
    toNat (busVal s' [true, false] z) = 22) :=
  ((C07_builders_any_operand_wires_mul exSt_wf 8 (exSt_bnd _ (by decide)) (exSt_bnd _ (by decide)) (by decide)
    (by decide)).1).mono (fun z s' _ h => by rw [h.2.2]; decide)

/-- `NewUDividerLong` on any operand wires (non-zero divisor VALUE; the divisor
may be all constant wires). -/
theorem C07_builders_any_operand_wires_udiv {s : St} {inp : List Bool} (hwf : WF s inp) (gmw : Bool)
    {a b : List Nat} (nq nr : Nat) (ha : Bnd s a) (hb : Bnd s b) (hne : 0 < max a.length b.length)
    (hB : 0 < toNat (busVal s inp b)) :
    Spec inp s (uDividerLong gmw a b nq nr) (fun t s' => Bnd s' t.1 ∧ Bnd s' t.2 ∧
      t.1.length = nq ∧ t.2.length = nr ∧
      toNat (busVal s' inp t.1) = (toNat (busVal s inp a) / toNat (busVal s inp b)) % 2 ^ nq ∧
      toNat (busVal s' inp t.2) = (toNat (busVal s inp a) % toNat (busVal s inp b)) % 2 ^ nr) :=
  uDividerLong_spec hwf gmw nq nr ha hb hne hB

example : Spec [true, false] (initSt 2 true) (uDividerLong false [0, 0, 3, 4] [1, 4, 3, 3] 4 4) (fun t s' =>
    toNat (busVal s' [true, false] t.1) = 5 ∧ toNat (busVal s' [true, false] t.2) = 1) :=  -- 11 / 2
  (C07_builders_any_operand_wires_udiv exSt_wf false 4 4 (exSt_bnd _ (by decide)) (exSt_bnd _ (by decide)) (by decide)
    (by decide)).mono (fun t s' _ h => by rw [h.2.2.2.2.1, h.2.2.2.2.2]; decide)

/-- Bitwise builders (`NewBinaryAND/OR/XOR/Clear`: `binaryOp` over a per-bit
gate function) and the bit tests on any operand wires. -/
theorem C07_builders_any_operand_wires_bits {s : St} {inp : List Bool} (hwf : WF s inp)
    {x y : List Nat} (nz index : Nat) (hx : Bnd s x) (hy : Bnd s y) :
    Spec inp s (binaryAnd x y nz) (fun z s' => Bnd s' z ∧
      busVal s' inp z = List.zipWith (· && ·) ((padTo (busVal s inp x) (max x.length y.length)).take nz)
        ((padTo (busVal s inp y) (max x.length y.length)).take nz)) ∧
    Spec inp s (binaryXor x y nz) (fun z s' => Bnd s' z ∧
      busVal s' inp z = List.zipWith (· != ·) ((padTo (busVal s inp x) (max x.length y.length)).take nz)
        ((padTo (busVal s inp y) (max x.length y.length)).take nz)) ∧
    Spec inp s (bitSetTest x index) (fun z s' => Bnd s' z ∧ busVal s' inp z = [(busVal s inp x).getD index false]) :=
  ⟨binaryOp_spec hwf (gate .and) (· && ·) (fun s a b h1 h2 h3 => gateF_spec .and s a b h1 h2 h3) nz hx hy,
   binaryOp_spec hwf (gate .xor) (· != ·) (fun s a b h1 h2 h3 => gateF_spec .xor s a b h1 h2 h3) nz hx hy,
   bitSetTest_spec hwf index hx⟩

example : Spec [true, false] (initSt 2 true) (binaryXor [0, 0, 3, 4] [0, 0, 3, 4] 4) (fun z s' =>
    busVal s' [true, false] z = [false, false, false, false]) :=  -- x ^ x
  ((C07_builders_any_operand_wires_bits exSt_wf 4 0 (exSt_bnd _ (by decide)) (exSt_bnd _ (by decide))).2.1).mono
    (fun z s' _ h => by rw [h.2]; decide)

/-- `Hamming` (both targets) on any operand wires. -/
theorem C07_builders_any_operand_wires_hamming {s : St} {inp : List Bool} (hwf : WF s inp) (gmw : Bool)
    {x y : List Nat} (nz : Nat) (hx : Bnd s x) (hy : Bnd s y) (hne : 1 ≤ max x.length y.length) (hnz : 0 < nz) :
    Spec inp s (hamming gmw x y nz) (fun z s' => Bnd s' z ∧ z.length = nz ∧
      toNat (busVal s' inp z) = popDiff ((padTo (busVal s inp x) (max x.length y.length)).zip
        (padTo (busVal s inp y) (max x.length y.length))) % 2 ^ nz) :=
  hammingG_spec hwf gmw nz hx hy hne hnz

example (gmw : Bool) : Spec [true, false] (initSt 2 true) (hamming gmw [0, 0, 3, 4] [1, 4, 3, 3] 3) (fun z s' =>
    toNat (busVal s' [true, false] z) = 2) :=
  (C07_builders_any_operand_wires_hamming exSt_wf gmw 3 (exSt_bnd _ (by decide)) (exSt_bnd _ (by decide)) (by decide)
    (by decide)).mono (fun z s' _ h => by rw [h.2.2]; decide)

/-- A builder call on SHAPED operands as a call of a history: any builder
specification of the form used throughout (`Spec` from every well-formed state,
operands any existing wires) makes it sound, so `C07_history` and
`C07_history_harness` apply to histories whose operand buses hold constant
wires, repeated wires, the same bus twice and results of earlier calls. -/
theorem C07_shaped_call {inp : List Bool} {b : List Nat → List Nat → BM (List Nat)} (px py : List Piece)
    {pre : List Bool → List Bool → Prop} {post : List Bool → List Bool → List Bool → Prop}
    (hb : ∀ (s : St) (xw yw : List Nat), WF s inp → Bnd s xw → Bnd s yw → pre (busVal s inp xw) (busVal s inp yw) →
      Spec inp s (b xw yw) (fun z s' => Bnd s' z ∧ post (busVal s inp xw) (busVal s inp yw) (busVal s' inp z))) :
    (SCall.shaped2 b px py pre post).Sound inp :=
  SCall.shaped2_sound px py hb

/-- The same with three operands (multiplexer). -/
theorem C07_shaped_call3 {inp : List Bool} {b : List Nat → List Nat → List Nat → BM (List Nat)}
    (px py pw : List Piece)
    {pre : List Bool → List Bool → List Bool → Prop}
    {post : List Bool → List Bool → List Bool → List Bool → Prop}
    (hb : ∀ (s : St) (xw yw ww : List Nat), WF s inp → Bnd s xw → Bnd s yw → Bnd s ww →
      pre (busVal s inp xw) (busVal s inp yw) (busVal s inp ww) →
      Spec inp s (b xw yw ww) (fun z s' => Bnd s' z ∧
        post (busVal s inp xw) (busVal s inp yw) (busVal s inp ww) (busVal s' inp z))) :
    (SCall.shaped3 b px py pw pre post).Sound inp :=
  SCall.shaped3_sound px py pw hb

-- non-vacuity of both: the comparator calls of Proofs/BuildersOpnd.lean are instances
example (inp : List Bool) (px py : List Piece) : (neqShaped px py).Sound inp :=
  C07_shaped_call px py (fun s xw yw hwf hx hy hne => neqComparator_spec hwf hx hy (by simpa using hne))
example (inp : List Bool) (px py pw : List Piece) :
    (SCall.shaped3 (fun t f c => do let r ← newMUX (c.getD 0 0) t f (max t.length f.length); pure (r.getD []))
      px py pw (fun _ _ cv => cv.length = 1)
      (fun tv fv cv z => z = if cv.getD 0 false then padTo tv (max tv.length fv.length)
        else padTo fv (max tv.length fv.length))).Sound inp := by
  refine C07_shaped_call3 px py pw ?_
  intro s tw fw cw hwf ht hf hc hcl
  have hlc : cw.length = 1 := by simpa using hcl
  have hcb : cw.getD 0 0 < s.next := getD_bnd hc 0 (by omega)
  refine (newMUX_spec hwf ht hf hcb).map ?_
  intro z s' _ ⟨r, hz, hb, hv⟩
  subst hz
  refine ⟨hb, ?_⟩
  rw [Option.getD_some, hv, val_getD cw 0 (by omega)]
  simp

/-- `uintN(a) == c` and `uintN(a) != c` for a constant `c` OUTSIDE the range of
`a` (a 1 inside the known-zero region of the zero-extended operand): on the
circuit the harness builds — the value `a` zero-extended to `n` wires with the
zero wire, the constant wired from the constant wires, one `NewEqComparator` /
`NewNeqComparator` call — the comparison answers false / true for EVERY value
of `a`, every width, with and without the constant-wire prologue. -/
theorem C07_eq_neq_zext_vs_constant (pro : Bool) (a : List Bool) (n c : Nat) (ha : 0 < a.length)
    (hc : 2 ^ a.length ≤ c % 2 ^ n) :
    evalHistory pro [a] [(eqShaped (zextPieces 0 a.length n) (constPieces n c)).call] = [[false]] ∧
    evalHistory pro [a] [(neqShaped (zextPieces 0 a.length n) (constPieces n c)).call] = [[true]] := by
  have hpos : 0 < [a].flatten.length := by simpa using ha
  have hxv : toNat (opndVal [a] (zextPieces 0 a.length n)) = toNat a := by
    rw [toNat_opndVal_zext]; simp
  have hyv : toNat (opndVal [a] (constPieces n c)) = c % 2 ^ n := by
    rw [opndVal_constPieces, toNat_ofNat]
  have hlt := toNat_lt a
  have hxl : 0 < (opndVal [a] (zextPieces 0 a.length n)).length := by
    simp [zextPieces, opndVal, pieceVal]; omega
  constructor
  · have h := C07_history_harness (ins := [a]) [eqShaped (zextPieces 0 a.length n) (constPieces n c)]
      (by intro c' hc'; simp at hc'; subst hc'; exact eqShaped_sound _ _ _)
      (by simp only [PreOk, eqShaped, SCall.shaped2]; exact ⟨by omega, fun _ _ => trivial⟩) pro hpos
    obtain ⟨z, hz, heq⟩ := h
    simp only [eqShaped, SCall.shaped2] at hz
    rw [hxv, hyv] at hz
    have hz' : z = [false] := by rw [hz]; simp; omega
    have : [a] ++ evalHistory pro [a] [(eqShaped (zextPieces 0 a.length n) (constPieces n c)).call] = [a] ++ [z] := by
      simpa [Trace] using heq
    rw [← hz']; exact List.append_cancel_left this
  · have h := C07_history_harness (ins := [a]) [neqShaped (zextPieces 0 a.length n) (constPieces n c)]
      (by intro c' hc'; simp at hc'; subst hc'; exact neqShaped_sound _ _ _)
      (by simp only [PreOk, neqShaped, SCall.shaped2]; exact ⟨by omega, fun _ _ => trivial⟩) pro hpos
    obtain ⟨z, hz, heq⟩ := h
    simp only [neqShaped, SCall.shaped2] at hz
    rw [hxv, hyv] at hz
    have hz' : z = [true] := by rw [hz]; simp; omega
    have : [a] ++ evalHistory pro [a] [(neqShaped (zextPieces 0 a.length n) (constPieces n c)).call] = [a] ++ [z] := by
      simpa [Trace] using heq
    rw [← hz']; exact List.append_cancel_left this

-- non-vacuity, executed on the generators: uint4(a) == 4 / != 4 with a 2-bit `a` = 3, no prologue (the constant wires
-- are created while the operands are made)
example : evalHistory false [[true, true]] [(eqShaped (zextPieces 0 2 4) (constPieces 4 4)).call] = [[false]] ∧
    evalHistory false [[true, true]] [(neqShaped (zextPieces 0 2 4) (constPieces 4 4)).call] = [[true]] := by
  decide +kernel
-- and the hypotheses of the theorem at this instance
example : 0 < [true, true].length ∧ 2 ^ [true, true].length ≤ 4 % 2 ^ 4 := by decide

-- a HISTORY with shaped operands fed by an earlier result: s = a + b (3 bits), then uint4(s) != 8; the fold theorem
-- applies (every call sound by `C07_shaped_call`, preconditions hold) and the generators give 5 and true
example (pro : Bool) : Trace [adderShaped 3 [Piece.bus 0 0 2] [Piece.bus 1 0 2],
      neqShaped [Piece.bus 2 0 3, Piece.zeros 1] (constPieces 4 8)] [ofNat 2 3, ofNat 2 2]
    ([ofNat 2 3, ofNat 2 2] ++ evalHistory pro [ofNat 2 3, ofNat 2 2]
      [(adderShaped 3 [Piece.bus 0 0 2] [Piece.bus 1 0 2]).call,
       (neqShaped [Piece.bus 2 0 3, Piece.zeros 1] (constPieces 4 8)).call]) :=
  C07_history_harness (ins := [ofNat 2 3, ofNat 2 2])
    [adderShaped 3 [Piece.bus 0 0 2] [Piece.bus 1 0 2], neqShaped [Piece.bus 2 0 3, Piece.zeros 1] (constPieces 4 8)]
    (by intro c hc; simp at hc; rcases hc with rfl | rfl
        · exact adderShaped_sound _ _ _ _
        · exact neqShaped_sound _ _ _)
    (by simp only [PreOk, adderShaped, neqShaped, SCall.shaped2]
        refine ⟨by decide, fun z _ => ⟨?_, fun _ _ => trivial⟩⟩
        simp [opndVal, pieceVal, constPieces]; omega)
    pro (by decide)
example : evalHistory false [ofNat 2 3, ofNat 2 2]
    [(adderShaped 3 [Piece.bus 0 0 2] [Piece.bus 1 0 2]).call,
     (neqShaped [Piece.bus 2 0 3, Piece.zeros 1] (constPieces 4 8)).call] = [ofNat 3 5, [true]] := by decide +kernel

/-! ## What is NOT proved in this file

* The quotient ESTIMATE of `NewUDividerGoldschmidtFast` (`goldEstimate`: MSB
  normalisation, seed ROM, Goldschmidt iterations): Lean generator tied gate for
  gate (T4, also as a later call of a history), bound `|estimate - ⌊a/b⌋| ≤ 1`
  and well-formed state extension only VALIDATED (hypothesis
  `goldschmidt-estimate-within-one` = `EstWithinOne goldEstimate`, evaluated from
  fresh states and from the states an earlier divider leaves behind); therefore
  no unconditional theorem for `NewUDivider` / `NewIDivider` on the GMW target,
  alone or in a history.
* That the REAL `circuits.Compiler` has no state beyond what `St` models (gate
  list, `invI0Wire`/`zeroWire`/`oneWire` caches): not provable in Lean; this is
  what the history tie (T4 on sequences of calls on one Compiler) and the
  history oracle check on every run.
* Signed comparators and signed divider on unequal operand widths: the full
  statement is FALSE on the code (zero extension; witnesses above, open known
  findings C07-int-comparator-zero-extends, C07-signed-div-zero-extends,
  C07-signed-goldschmidt-zero-extends).
* `NewUDividerRestoring`, `NewUDividerArray` (not dispatched by the compiler):
  oracle only.
* `Compiler.Compile` (wire numbering, BFS order, GMW level sort) and the
  optimisation passes: validated by evaluation.
-/

end Mpc

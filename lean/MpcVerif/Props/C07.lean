/-
C07  Arithmetic and logic circuit builders are exact for every width.

Property theorems only; helper lemmas are in Proofs/Builders*.lean.

Every theorem is about `evalBuilder b pro x y` (`evalBuilder3` for the
multiplexer): the circuit that the harness builds with the real Go builder
(inputs `x ‖ y`, optional ZeroWire/OneWire prologue `pro` as in
`ssa.Program.CompileCircuit`, the builder, `ret` through ID gates), evaluated
gate by gate in emission order.  The Lean generators are compared gate for
gate with the real `cc.Gates` on every run (T4), so a theorem about the
generator is a theorem about that Go output.

Quantification: every operand width, every result width (where the builder
has one), both prologue variants, every operand value.  Values are
little-endian bit lists; `toNat` / `toInt` read them as unsigned / two's
complement numbers.

Builders whose statement FAILS on the current code have a `…_wrong` theorem
(negation with a concrete witness, kernel-checked by `decide`) and a
`…_partial` theorem that carries the exact guard.  After the fix commits
b4e0da3, 1a24bc4, b8285b2 only the signed comparators remain in that state
(zero extension of the narrower signed operand).

NOT proved here (validated by the oracle and, for the gate lists, by T4 only):
Kogge-Stone adder/subtractor, array / Karatsuba / Wallace multipliers, all
dividers, Hamming on the GMW target (Kogge-Stone adders).
-/
import MpcVerif.Proofs.BuildersSpec
import MpcVerif.Proofs.BuildersBridge

namespace Mpc
open Mpc.Bld

/-! ## Addition -/

/-- `NewAdder` on the Yao target (ripple carry): for all operand widths (not
both zero), every result width `nz ≥ 1` and all operand values the result has
`nz` bits and is `(x + y) mod 2^nz`. -/
theorem C07_adder (pro : Bool) (x y : List Bool) (nz : Nat)
    (hw : 0 < max x.length y.length) (hnz : 0 < nz) :
    (evalBuilder (fun a b => rippleAdder a b nz) pro x y).length = nz ∧
    toNat (evalBuilder (fun a b => rippleAdder a b nz) pro x y) = (toNat x + toNat y) % 2 ^ nz := by
  refine evalBuilder_spec (R := fun z => z.length = nz ∧ toNat z = (toNat x + toNat y) % 2 ^ nz) ?_ pro (by omega)
  intro s inp xw yw hwf hx hy hxv hyv
  have hlx : xw.length = x.length := by rw [← hxv]; simp
  have hly : yw.length = y.length := by rw [← hyv]; simp
  refine (rippleAdder_spec hwf nz hx hy (by omega) hnz).mono ?_
  intro z s' _ ⟨hb, hl, hv⟩
  exact ⟨hb, by simpa using hl, by rw [hv, hxv, hyv]⟩

-- non-vacuity: 3 + 3 = 6 on 3- and 2-bit operands, 4-bit result
example : toNat (evalBuilder (fun a b => rippleAdder a b 4) true [true, true, false] [true, true]) = 6 := by
  decide

/-- Bridge to C01: on the gate list of any well-formed builder state, the plain
circuit evaluator of Model/Circuit.lean (`Circuit.plainEval`, the model of
`circuit.Circuit.Compute` that C01 compares byte for byte with the Go code)
gives every wire the value `St.val` used by the theorems of this file. -/
theorem C07_bridge_plainEval (s : St) (inp : List Bool) (hwf : WF s inp) (nOut w : Nat) :
    ((s.toCircuit nOut).plainEval inp).get w = s.val inp w :=
  plainEval_eq_val s inp hwf nOut w

/-- The adder theorem stated on the C01 evaluator: the circuit the harness
builds around `NewAdder`, run through `Circuit.plainEval`, carries
`(x + y) mod 2^nz` on its output wires. -/
theorem C07_adder_compute_model (pro : Bool) (x y : List Bool) (nz : Nat)
    (hw : 0 < max x.length y.length) (hnz : 0 < nz) :
    toNat ((runBuilder (fun a b => rippleAdder a b nz) pro x.length y.length).2.map
      (((runBuilder (fun a b => rippleAdder a b nz) pro x.length y.length).1.toCircuit nz).plainEval
        (x ++ y)).get) = (toNat x + toNat y) % 2 ^ nz := by
  have hwf : WF (runBuilder (fun a b => rippleAdder a b nz) pro x.length y.length).1 (x ++ y) := by
    refine runBuilder_wf ?_ pro (by omega)
    intro s inp xw yw hwf hx hy hxv hyv
    have hlx : xw.length = x.length := by rw [← hxv]; simp
    have hly : yw.length = y.length := by rw [← hyv]; simp
    exact (rippleAdder_spec hwf nz hx hy (by omega) hnz).mono (fun z s' _ h => h.1)
  have := (C07_adder pro x y nz hw hnz).2
  simp only [evalBuilder] at this
  rw [← this]
  congr 1
  apply List.map_congr_left
  intro w _
  exact plainEval_eq_val _ _ hwf nz w

/-! ## Subtraction -/

/-- `NewSubtractor` on the Yao target (ripple borrow; since fix 1a24bc4 the
leftover result bits are copies of the borrow): for all operand widths, every
result width `nz ≥ 1` and all operand values the result has `nz` bits and is
`(x - y) mod 2^nz`. -/
theorem C07_sub (pro : Bool) (x y : List Bool) (nz : Nat)
    (hw : 0 < max x.length y.length) (hnz : 0 < nz) :
    (evalBuilder (fun a b => rippleSubtractor a b nz) pro x y).length = nz ∧
    (toNat (evalBuilder (fun a b => rippleSubtractor a b nz) pro x y) : Int) =
      ((toNat x : Int) - (toNat y : Int)) % ((2 ^ nz : Nat) : Int) := by
  refine evalBuilder_spec (R := fun z => z.length = nz ∧
    (toNat z : Int) = ((toNat x : Int) - (toNat y : Int)) % ((2 ^ nz : Nat) : Int)) ?_ pro (by omega)
  intro s inp xw yw hwf hx hy hxv hyv
  refine (rippleSubtractor_spec hwf nz hx hy hnz).mono ?_
  intro z s' _ ⟨hb, hl, hv⟩
  refine ⟨hb, by simpa using hl, ?_⟩
  rw [hxv, hyv] at hv
  have hlt := toNat_lt (busVal s' inp z)
  rw [busVal_length, hl] at hlt
  exact sub_mod_int _ _ _ _ hlt hv

-- 2-bit 0 - 1 into 4 bits is 15 (was 7 before fix 1a24bc4)
example : toNat (evalBuilder (fun a b => rippleSubtractor a b 4) true [false, false] [true, false]) = 15 := by
  decide

/-! ## Ordered comparisons -/

/-- `NewUint{Gt,Ge,Lt,Le}Comparator`: for all operand widths and values the
single result bit is the comparison of the unsigned values. -/
theorem C07_ucmp (k : CmpKind) (pro : Bool) (x y : List Bool) (hw : 0 < x.length + y.length) :
    evalBuilder (comparator false k) pro x y = [k.relNat (toNat x) (toNat y)] := by
  refine evalBuilder_spec (R := fun z => z = [k.relNat (toNat x) (toNat y)]) ?_ pro hw
  intro s inp xw yw hwf hx hy hxv hyv
  refine (ucomparator_spec hwf k hx hy).mono ?_
  intro z s' _ ⟨hb, hv⟩
  exact ⟨hb, by rw [hv, hxv, hyv]⟩

example : evalBuilder (comparator false .gt) true [true, true, false] [false, true] = [true] := by decide

/- Full statement for the signed comparators (FALSE for unequal widths, see
   `C07_intCmp_unequal_wrong`): result = rel (toInt x) (toInt y). -/

/-- `NewInt{Gt,Ge,Lt,Le}Comparator`, every width: the result bit is the signed
comparison of the operands ZERO-padded to the common width (what the code
does: `cc.ZeroPad` then two's complement at the common width). -/
theorem C07_intCmp_partial (k : CmpKind) (pro : Bool) (x y : List Bool) (hw : 0 < max x.length y.length) :
    evalBuilder (comparator true k) pro x y =
      [k.relInt (toInt (padTo x (max x.length y.length))) (toInt (padTo y (max x.length y.length)))] := by
  refine evalBuilder_spec (R := fun z => z =
    [k.relInt (toInt (padTo x (max x.length y.length))) (toInt (padTo y (max x.length y.length)))]) ?_ pro
    (by omega)
  intro s inp xw yw hwf hx hy hxv hyv
  have hlx : xw.length = x.length := by rw [← hxv]; simp
  have hly : yw.length = y.length := by rw [← hyv]; simp
  refine (icomparator_spec hwf k hx hy (by omega)).mono ?_
  intro z s' _ ⟨hb, hv⟩
  exact ⟨hb, by rw [hv, hxv, hyv, hlx, hly]⟩

/-- Signed comparators are exact for equal operand widths: the result bit is
the comparison of the two's complement values. -/
theorem C07_intCmp_equal_width (k : CmpKind) (pro : Bool) (x y : List Bool) (hl : x.length = y.length)
    (hw : 0 < x.length) :
    evalBuilder (comparator true k) pro x y = [k.relInt (toInt x) (toInt y)] := by
  rw [C07_intCmp_partial k pro x y (by omega)]
  have hx : padTo x (max x.length y.length) = x := by simp [padTo, hl]
  have hy : padTo y (max x.length y.length) = y := by simp [padTo, hl]
  rw [hx, hy]

example : evalBuilder (comparator true .lt) true [true, true] [true, false] = [true] := by decide  -- -1 < 1

/-- Negation witness for unequal widths: `x = -1` (2 bits), `y = 3` (3 bits):
`x < y` but `NewIntLtComparator` answers false (the narrower operand is zero
extended).  Replayed on the Go code: `c07 one -extra "ilt 0 1 2 3 0 1 0 0 3 3 0"`. -/
theorem C07_intCmp_unequal_wrong :
    evalBuilder (comparator true .lt) true [true, true] [true, true, false] = [false] ∧
    toInt [true, true] < toInt [true, true, false] := by
  decide

/-! ## Equality -/

/-- `NewEqComparator`: for all widths the result bit is `x = y` (as numbers). -/
theorem C07_eq (pro : Bool) (x y : List Bool) (hw : 0 < max x.length y.length) :
    evalBuilder eqComparator pro x y = [decide (toNat x = toNat y)] := by
  refine evalBuilder_spec (R := fun z => z = [decide (toNat x = toNat y)]) ?_ pro (by omega)
  intro s inp xw yw hwf hx hy hxv hyv
  have hlx : xw.length = x.length := by rw [← hxv]; simp
  have hly : yw.length = y.length := by rw [← hyv]; simp
  refine (eqComparator_spec hwf hx hy (by omega)).mono ?_
  intro z s' _ ⟨hb, hv⟩
  exact ⟨hb, by rw [hv, hxv, hyv]⟩

/-- `NewNeqComparator`. -/
theorem C07_neq (pro : Bool) (x y : List Bool) (hw : 0 < max x.length y.length) :
    evalBuilder neqComparator pro x y = [decide (toNat x ≠ toNat y)] := by
  refine evalBuilder_spec (R := fun z => z = [decide (toNat x ≠ toNat y)]) ?_ pro (by omega)
  intro s inp xw yw hwf hx hy hxv hyv
  have hlx : xw.length = x.length := by rw [← hxv]; simp
  have hly : yw.length = y.length := by rw [← hyv]; simp
  refine (neqComparator_spec hwf hx hy (by omega)).mono ?_
  intro z s' _ ⟨hb, hv⟩
  exact ⟨hb, by rw [hv, hxv, hyv]⟩

example : evalBuilder eqComparator false [true, false, true] [true, false, true, false, false] = [true] := by
  decide

/-! ## Multiplexer -/

/-- `NewMUX(cond, t, f, out)` with `len(out) = max(len t, len f)`: the result is
`t` if the condition bit is set, else `f` (zero padded to the result width). -/
theorem C07_mux (pro : Bool) (t f : List Bool) (c : Bool) :
    evalBuilder3 (fun tw fw cw => do
        let r ← newMUX (cw.getD 0 0) tw fw (max tw.length fw.length)
        pure (r.getD [])) pro t f [c] =
      if c then padTo t (max t.length f.length) else padTo f (max t.length f.length) := by
  refine evalBuilder3_spec (R := fun z => z =
    if c then padTo t (max t.length f.length) else padTo f (max t.length f.length)) ?_ pro (by simp)
  intro s inp tw fw cw hwf ht hf hc htv hfv hcv
  have hlt : tw.length = t.length := by rw [← htv]; simp
  have hlf : fw.length = f.length := by rw [← hfv]; simp
  have hlc : cw.length = 1 := by have := congrArg List.length hcv; simpa using this
  have hcb : cw.getD 0 0 < s.next := getD_bnd hc 0 (by omega)
  have hcval : s.val inp (cw.getD 0 0) = c := by
    rw [val_getD cw 0 (by omega), hcv]; rfl
  refine (newMUX_spec hwf ht hf hcb).map ?_
  intro z s' _ ⟨r, hz, hb, hv⟩
  subst hz
  exact ⟨hb, by rw [Option.getD_some, hv, hcval, htv, hfv, hlt, hlf]⟩

example : evalBuilder3 (fun tw fw cw => do
    let r ← newMUX (cw.getD 0 0) tw fw (max tw.length fw.length)
    pure (r.getD [])) true [true, true] [false, true, true] [true] = [true, true, false] := by decide

/-! ## Bitwise operations -/

/-- `NewBinaryAND`: for every result width `nz` up to the operand width, bit `i`
of the result is `x_i ∧ y_i` (operands zero padded to the common width). -/
theorem C07_band (pro : Bool) (x y : List Bool) (nz : Nat) (hw : 0 < x.length + y.length) :
    evalBuilder (fun a b => binaryAnd a b nz) pro x y =
      List.zipWith (· && ·) ((padTo x (max x.length y.length)).take nz)
        ((padTo y (max x.length y.length)).take nz) := by
  refine evalBuilder_spec (R := fun z => z = List.zipWith (· && ·) ((padTo x (max x.length y.length)).take nz)
    ((padTo y (max x.length y.length)).take nz)) ?_ pro hw
  intro s inp xw yw hwf hx hy hxv hyv
  have hlx : xw.length = x.length := by rw [← hxv]; simp
  have hly : yw.length = y.length := by rw [← hyv]; simp
  refine (binaryOp_spec hwf (gate .and) (· && ·) (fun s a b h1 h2 h3 => gateF_spec .and s a b h1 h2 h3)
    nz hx hy).mono ?_
  intro z s' _ ⟨hb, hv⟩
  exact ⟨hb, by rw [hv, hxv, hyv, hlx, hly]⟩

/-- `NewBinaryOR`. -/
theorem C07_bor (pro : Bool) (x y : List Bool) (nz : Nat) (hw : 0 < x.length + y.length) :
    evalBuilder (fun a b => binaryOr a b nz) pro x y =
      List.zipWith (· || ·) ((padTo x (max x.length y.length)).take nz)
        ((padTo y (max x.length y.length)).take nz) := by
  refine evalBuilder_spec (R := fun z => z = List.zipWith (· || ·) ((padTo x (max x.length y.length)).take nz)
    ((padTo y (max x.length y.length)).take nz)) ?_ pro hw
  intro s inp xw yw hwf hx hy hxv hyv
  have hlx : xw.length = x.length := by rw [← hxv]; simp
  have hly : yw.length = y.length := by rw [← hyv]; simp
  refine (binaryOp_spec hwf or (· || ·) (fun s a b h1 h2 h3 => orF_spec s a b h1 h2 h3) nz hx hy).mono ?_
  intro z s' _ ⟨hb, hv⟩
  exact ⟨hb, by rw [hv, hxv, hyv, hlx, hly]⟩

/-- `NewBinaryXOR`. -/
theorem C07_bxor (pro : Bool) (x y : List Bool) (nz : Nat) (hw : 0 < x.length + y.length) :
    evalBuilder (fun a b => binaryXor a b nz) pro x y =
      List.zipWith (· != ·) ((padTo x (max x.length y.length)).take nz)
        ((padTo y (max x.length y.length)).take nz) := by
  refine evalBuilder_spec (R := fun z => z = List.zipWith (· != ·) ((padTo x (max x.length y.length)).take nz)
    ((padTo y (max x.length y.length)).take nz)) ?_ pro hw
  intro s inp xw yw hwf hx hy hxv hyv
  have hlx : xw.length = x.length := by rw [← hxv]; simp
  have hly : yw.length = y.length := by rw [← hyv]; simp
  refine (binaryOp_spec hwf (gate .xor) (· != ·) (fun s a b h1 h2 h3 => gateF_spec .xor s a b h1 h2 h3)
    nz hx hy).mono ?_
  intro z s' _ ⟨hb, hv⟩
  exact ⟨hb, by rw [hv, hxv, hyv, hlx, hly]⟩

/-- `NewBinaryClear` (`x &^ y`). -/
theorem C07_bclr (pro : Bool) (x y : List Bool) (nz : Nat) (hw : 0 < x.length + y.length) :
    evalBuilder (fun a b => binaryClear a b nz) pro x y =
      List.zipWith (fun a b => a && !b) ((padTo x (max x.length y.length)).take nz)
        ((padTo y (max x.length y.length)).take nz) := by
  refine evalBuilder_spec (R := fun z => z = List.zipWith (fun a b => a && !b)
    ((padTo x (max x.length y.length)).take nz) ((padTo y (max x.length y.length)).take nz)) ?_ pro hw
  intro s inp xw yw hwf hx hy hxv hyv
  have hlx : xw.length = x.length := by rw [← hxv]; simp
  have hly : yw.length = y.length := by rw [← hyv]; simp
  refine (binaryOp_spec hwf (fun a b => do let w ← inv b; gate .and a w) (fun a b => a && !b)
    (fun s a b h1 h2 h3 => clearF_spec s a b h1 h2 h3) nz hx hy).mono ?_
  intro z s' _ ⟨hb, hv⟩
  exact ⟨hb, by rw [hv, hxv, hyv, hlx, hly]⟩

example : evalBuilder (fun a b => binaryClear a b 3) true [true, true, true] [false, true] = [true, false, true] := by
  decide

/-! ## Logical operations and bit tests -/

/-- `NewLogicalAND` / `NewLogicalOR` on 1-bit operands. -/
theorem C07_logical (pro : Bool) (a b : Bool) :
    evalBuilder logicalAnd pro [a] [b] = [a && b] ∧ evalBuilder logicalOr pro [a] [b] = [a || b] := by
  constructor
  · refine evalBuilder_spec (R := fun z => z = [a && b]) ?_ pro (by simp)
    intro s inp xw yw hwf hx hy hxv hyv
    have hlx : xw.length = 1 := by have := congrArg List.length hxv; simpa using this
    have hly : yw.length = 1 := by have := congrArg List.length hyv; simpa using this
    refine (logicalAnd_spec hwf hx hy (by omega) (by omega)).mono ?_
    intro z s' _ ⟨hb, hv⟩
    exact ⟨hb, by rw [hv, hxv, hyv]; rfl⟩
  · refine evalBuilder_spec (R := fun z => z = [a || b]) ?_ pro (by simp)
    intro s inp xw yw hwf hx hy hxv hyv
    have hlx : xw.length = 1 := by have := congrArg List.length hxv; simpa using this
    have hly : yw.length = 1 := by have := congrArg List.length hyv; simpa using this
    refine (logicalOr_spec hwf hx hy (by omega) (by omega)).mono ?_
    intro z s' _ ⟨hb, hv⟩
    exact ⟨hb, by rw [hv, hxv, hyv]; rfl⟩

/-- `NewBitSetTest` / `NewBitClrTest` for every operand width and every index
(also outside the operand). -/
theorem C07_bittest (pro : Bool) (x y : List Bool) (index : Nat) (hw : 0 < x.length + y.length) :
    evalBuilder (fun a _ => bitSetTest a index) pro x y = [x.getD index false] ∧
    evalBuilder (fun a _ => bitClrTest a index) pro x y = [!x.getD index false] := by
  constructor
  · refine evalBuilder_spec (R := fun z => z = [x.getD index false]) ?_ pro hw
    intro s inp xw yw hwf hx hy hxv hyv
    refine (bitSetTest_spec hwf index hx).mono ?_
    intro z s' _ ⟨hb, hv⟩
    exact ⟨hb, by rw [hv, hxv]⟩
  · refine evalBuilder_spec (R := fun z => z = [!x.getD index false]) ?_ pro hw
    intro s inp xw yw hwf hx hy hxv hyv
    refine (bitClrTest_spec hwf index hx).mono ?_
    intro z s' _ ⟨hb, hv⟩
    exact ⟨hb, by rw [hv, hxv]⟩

example : evalBuilder (fun a _ => bitSetTest a 2) false [false, false, true] [false] = [true] := by decide

/-! ## Array index -/

/-- `NewIndex(size, array, index, out)` for every element size `size ≥ 1`, every
element count `n ≥ 1`, every index width `≥ 1`: the result is element
`index mod 2^bits` of the array (split into `size`-bit elements), where `bits`
is the number of index bits the builder uses (`2^bits ≥ n`; index bits above
that are ignored, missing index bits read 0), and all zeros when that element
number is outside the array. -/
theorem C07_index (pro : Bool) (size n : Nat) (arr idx : List Bool) (hal : arr.length = n * size)
    (hsz : 0 < size) (hn : 0 < n) (hil : 0 < idx.length) :
    evalBuilder (newIndex size) pro arr idx =
      (chunks size n arr).getD (toNat (idx.take (indexBits n n 1 2).1)) (List.replicate size false) := by
  refine evalBuilder_spec (R := fun z => z =
    (chunks size n arr).getD (toNat (idx.take (indexBits n n 1 2).1)) (List.replicate size false)) ?_ pro (by omega)
  intro s inp aw iw hwf ha hi hav hiv
  have hla : aw.length = n * size := by rw [← hal, ← hav]; simp
  have hli : 0 < iw.length := by rw [← hiv] at hil; simpa using hil
  refine (newIndex_spec hwf size n ha hi hla hsz hn hli).mono ?_
  intro z s' _ ⟨hb, _, hv⟩
  exact ⟨hb, by rw [hv, hav, hiv]⟩

-- 3 elements of 2 bits, index 2 (binary 01 little endian = [false, true]) selects the third element
example : evalBuilder (newIndex 2) true [true, false, false, true, true, true] [false, true] = [true, true] := by
  decide +kernel
-- index 3 is outside the 3-element array: zero
example : evalBuilder (newIndex 2) true [true, false, false, true, true, true] [true, true] = [false, false] := by
  decide +kernel

/-! ## Hamming distance -/

/-- `Hamming` on the Yao target for every operand width ≥ 1 (the 1-bit case
since fix b8285b2) and every result width: the result is the number of bit
positions in which the (zero padded) operands differ, modulo `2^nz`. -/
theorem C07_hamming (pro : Bool) (x y : List Bool) (nz : Nat)
    (hw : 1 ≤ max x.length y.length) (hnz : 0 < nz) :
    (evalBuilder (fun a b => hamming false a b nz) pro x y).length = nz ∧
    toNat (evalBuilder (fun a b => hamming false a b nz) pro x y) =
      popDiff ((padTo x (max x.length y.length)).zip (padTo y (max x.length y.length))) % 2 ^ nz := by
  refine evalBuilder_spec (R := fun z => z.length = nz ∧ toNat z =
    popDiff ((padTo x (max x.length y.length)).zip (padTo y (max x.length y.length))) % 2 ^ nz) ?_ pro (by omega)
  intro s inp xw yw hwf hx hy hxv hyv
  have hlx : xw.length = x.length := by rw [← hxv]; simp
  have hly : yw.length = y.length := by rw [← hyv]; simp
  refine (hamming_spec hwf nz hx hy (by omega) hnz).mono ?_
  intro z s' _ ⟨hb, hl, hv⟩
  exact ⟨hb, by simpa using hl, by rw [hv, hxv, hyv, hlx, hly]⟩

example : toNat (evalBuilder (fun a b => hamming false a b 3) true [true, false, true] [false, false, false, true]) = 3 := by
  decide +kernel
example : toNat (evalBuilder (fun a b => hamming false a b 2) true [true] [false]) = 1 := by
  decide +kernel

/-! ## Array multiplier -/

/- Full statement: for every operand width and every nz ≥ 1
   toNat z = (toNat x * toNat y) mod 2^nz.  A general-width proof is NOT done
   (the generator is loop based); since fix b4e0da3 no result-width restriction
   remains: the statement is kernel-checked for operand widths 1..2 and EVERY
   result width 1..7 (beyond 2·max+3) below, and checked by the oracle for all
   operand widths up to 8 exhaustively and sampled to 130 bits. -/

/-- All bit lists of length `n`. -/
def allBits : Nat → List (List Bool)
  | 0 => [[]]
  | n + 1 => (allBits n).flatMap fun l => [false :: l, true :: l]

/-- `NewArrayMultiplier` is exact for operand widths 1..2, every result width
1..7 (narrower, equal, double and wider than double the operand width) and all
operand values (kernel-checked enumeration of the model that T4 ties to the Go
gate lists; wider operands make kernel evaluation of the loop-based generator
too slow). -/
theorem C07_arrayMult_small :
    ∀ nx ∈ [1, 2], ∀ ny ∈ [1, 2], ∀ nz ∈ [1, 2, 3, 4, 5, 6, 7],
      ∀ x ∈ allBits nx, ∀ y ∈ allBits ny,
        toNat (evalArrayMult true x y nz) = (toNat x * toNat y) % 2 ^ nz := by
  decide +kernel

-- 2-bit 1 * 2 into 6 bits is 2 (was 0 before fix b4e0da3)
example : toNat (evalArrayMult true [true, false] [false, true] 6) = 2 := by decide +kernel

end Mpc

/-
C07  Arithmetic and logic circuit builders are exact for every width.

Property theorems only; helper lemmas are in Proofs/Builders*.lean.

Every theorem is about `evalBuilder b pro x y`: the circuit that the harness
builds with the real Go builder (inputs `x ‖ y`, optional ZeroWire/OneWire
prologue `pro` as in `ssa.Program.CompileCircuit`, the builder, `ret` through
ID gates), evaluated gate by gate in emission order.  The Lean generators are
compared gate for gate with the real `cc.Gates` on every run (T4), so a
theorem about the generator is a theorem about that Go output.
Quantification: every operand width, every result width (where stated), both
prologue variants, every operand value.
-/
import MpcVerif.Proofs.BuildersSpec

namespace Mpc
open Mpc.Bld

/-- `NewAdder` on the Yao target (ripple carry): for all operand widths (not
both zero), every result width `nz ≥ 1` and all operand values the result is
`(x + y) mod 2^nz`. -/
theorem C07_adder (pro : Bool) (x y : List Bool) (nz : Nat)
    (hw : 0 < max x.length y.length) (hnz : 0 < nz) :
    (evalBuilder (fun a b => rippleAdder a b nz) pro x y).length = nz ∧
    toNat (evalBuilder (fun a b => rippleAdder a b nz) pro x y) = (toNat x + toNat y) % 2 ^ nz := by
  refine evalBuilder_spec (R := fun z => z.length = nz ∧ toNat z = (toNat x + toNat y) % 2 ^ nz) ?_ pro (by omega)
  intro s inp xw yw hwf hx hy hxv hyv
  have hlx : xw.length = x.length := by rw [← hxv]; simp
  have hly : yw.length = y.length := by rw [← hyv]; simp
  refine (rippleAdder_spec hwf nz hx hy (by omega) hnz).mono ?_
  intro z s' _ ⟨hb, hl, hv⟩
  exact ⟨hb, by simpa using hl, by rw [hv, hxv, hyv]⟩

example : toNat (evalBuilder (fun a b => rippleAdder a b 4) true [true, true, false] [true, true]) = 6 := by
  decide

end Mpc

/-
C16  Garbler never reports a wrong result under message corruption — the
authenticity half, in the symbolic (free-hash, Dolev-Yao) model of C04.

FULL PROPERTY (C16).  An honest garbler runs a session of the two-party
protocol on a well-formed circuit.  Whatever happens to the transcript — any
corruption of any message in either direction, any behaviour of the party that
plays the evaluator — the garbler either reports an error or returns exactly
the plain evaluation of the circuit on (its input, the evaluator's OT choices).

`Props/C16.lean` reduces this, for ARBITRARY received labels and in every label
algebra, to one statement: a wrong value implies that some received output label
equals `honestLabel ⊕ r`, the OTHER label of that output wire
(`C16_wrong_imp_offset`).  What remained — "nobody but the garbler can produce
the other label of an output wire" — is the authenticity of the garbling scheme.
This file proves it SYMBOLICALLY and composes:

  * `Derivable` (Proofs/SymAuth.lean) is the knowledge of a Dolev-Yao adversary
    that holds the evaluator's whole view (every table row, the garbler's input
    labels, the labels delivered by the OT for ANY choice bits `y`): it may XOR
    anything, invent fresh labels of its own, set select bits at will, and apply
    both hash functions of the scheme to anything it can build, under any
    tweak.  In particular it may evaluate the garbled circuit honestly, on
    modified tables, or evaluate any other circuit (`Derivable.evaluatorEval`).
  * `C16_symbolic_authenticity`: on every defined wire (all output wires are
    defined) the label `activeLabel ⊕ R` is NOT derivable; neither is `R`.
  * `C16_symbolic_no_wrong_result`: if every label the garbler receives for the
    outputs is derivable, its result loop reports an error or returns exactly
    `p.c.compute (x ++ y)`.

WHAT THE SYMBOLIC MODEL IDEALISES (and what therefore is NOT proved here).
  * Labels are formal GF(2)-combinations of atoms `R | inp i | h1 t c | h2 t c c'`
    with a separate select bit; the hash is a FREE function: a query returns the
    atom named by the tweak and the CODE of the argument(s); the coding is
    faithful on finitely supported labels (`CodeFaithful`: equal codes only for
    equal combinations) and separates `x` from `x ⊕ R` (`Separates`, the C04
    hypothesis).  A total injective coding cannot exist (`SymL Code` has at least
    `2^Code` elements), which is why faithfulness is asked on finitely supported
    labels only; every label of a garbling and every derivable label is finitely
    supported (`gates_fin`).  `termCode` is a coding with both properties.
  * The adversary is limited to XOR, select-bit setting, fresh atoms and hashing.
    No bit-level operation on labels, no inverting of the hash, no use of its internal
    structure, no GUESSING of a 127-bit value: in the symbolic model the other label
    is underivable with certainty, in reality it is unguessable except with
    probability about 2^-127 per attempt and only if AES-based `H` behaves like
    a correlation-robust hash.
  * The OT is ideal (delivers exactly the chosen label; C06).
  The computational statement (authenticity with overwhelming probability over
  `r` for the concrete AES-based hash) stays OUTSIDE Lean; on the real code it is
  covered by the fault enumeration of checks/C16.py.
-/
import MpcVerif.Proofs.SymAuth
import MpcVerif.Props.C16
import MpcVerif.Props.C02

namespace Mpc.Sym
open Mpc LabelAlg
variable {Code : Type}

/-- The hypotheses of the symbolic model on the select-bit valuation and the
hash model. -/
structure SymModel (σ : Atom Code → Bool) (code : SymL Code → Code) : Prop where
  /-- `Garble` forces the select bit of the offset (`SetS(true)`) -/
  selR : σ .R = true
  /-- the hash tells `x` from `x ⊕ R` (hypothesis of C04) -/
  sep : Separates σ code
  /-- the hash is a free function on finitely supported labels -/
  faithful : CodeFaithful code

/-- The honest garbler's garbling of the session: symbolic offset, symbolic
input labels, free hash. -/
noncomputable abbrev symGarbling (σ : Atom Code → Bool) (code : SymL Code → Code) (p : Circuit2) :
    Garbled (SymL Code) :=
  p.c.garble (symHash σ code) (symR σ) (symInl σ)

/-- What a Dolev-Yao adversary holding the evaluator's view of the session
(garbler input `x`, OT choices `y`) can produce. -/
def AdvKnows (σ : Atom Code → Bool) (code : SymL Code → Code) (p : Circuit2) (key : List UInt8)
    (x y : List Bool) : SymL Code → Prop :=
  Derivable σ code p.c.nIn (evaluatorView p key (symGarbling σ code p) x y)

/-- The honest label of wire `w`: the label of its plain value. -/
noncomputable def honestLabel (σ : Atom Code → Bool) (code : SymL Code → Code) (p : Circuit2)
    (x y : List Bool) (w : Nat) : SymL Code :=
  ((symGarbling σ code p).wires.get w).labelFor ((p.c.plainEval (x ++ y)).get w)

/-- **C16, authenticity (symbolic).**  For every well-formed two-party circuit,
all inputs, every symbolic garbling randomness (`σ`: any valuation of the select
bits) and every hash model of the family: on every defined wire — in particular
on every output wire — the OTHER label of the wire, `honestLabel ⊕ R`, is not
derivable from the evaluator's view.  (Both forms: `⊕ R` and "label of the
complemented value".) -/
theorem C16_symbolic_authenticity (σ : Atom Code → Bool) (code : SymL Code → Code)
    (hm : SymModel σ code) (p : Circuit2) (hwf : p.WF = true) (key : List UInt8)
    (x y : List Bool) (hx : x.length = p.n0) (w : Nat) (hw : p.c.defined w = true) :
    ¬ AdvKnows σ code p key x y (honestLabel σ code p x y w ^^^ symR σ) ∧
    ¬ AdvKnows σ code p key x y
        (((symGarbling σ code p).wires.get w).labelFor (!(p.c.plainEval (x ++ y)).get w)) := by
  obtain ⟨S, hR, hW, hD⟩ := derivable_phi σ hm.selR code hm.sep hm.faithful p hwf key x y hx
  obtain ⟨h1, hp⟩ := hW w hw
  have hother : phi S (honestLabel σ code p x y w ^^^ symR σ) = true := by
    simp only [honestLabel, symGarbling]
    cases hv : (p.c.plainEval (x ++ y)).get w with
    | false =>
      simp only [WireL.labelFor, Bool.false_eq_true, if_false]
      rw [phi_xor, hp, hv, hR]; rfl
    | true =>
      simp only [WireL.labelFor, if_true]
      rw [h1, phi_xor, phi_xor, hp, hv, hR]; rfl
  have heq : ((symGarbling σ code p).wires.get w).labelFor (!(p.c.plainEval (x ++ y)).get w) =
      honestLabel σ code p x y w ^^^ symR σ := by
    simp only [honestLabel, symGarbling]
    cases hv : (p.c.plainEval (x ++ y)).get w with
    | false => simp [WireL.labelFor, h1]
    | true => simp [WireL.labelFor, h1]
  constructor
  · intro hk
    have := hD _ hk
    rw [hother] at this
    cases this
  · rw [heq]
    intro hk
    have := hD _ hk
    rw [hother] at this
    cases this

/-- Output wires are defined wires (`Circuit2.WF` contains `outputsDefined`). -/
theorem output_defined (p : Circuit2) (hwf : p.WF = true) (i : Nat) (hi : i < p.c.nOut) :
    p.c.defined (p.c.numWires - p.c.nOut + i) = true := by
  simp only [Circuit2.WF, Bool.and_eq_true, decide_eq_true_eq] at hwf
  obtain ⟨_, hod⟩ := hwf
  simp only [Circuit.outputsDefined, List.all_eq_true, List.mem_range] at hod
  exact hod i hi

/-- The offset itself is not derivable (C04's "R is not in the span of the view"
extended from XOR to the full closure with hashing). -/
theorem C16_symbolic_offset_not_derivable (σ : Atom Code → Bool) (code : SymL Code → Code)
    (hm : SymModel σ code) (p : Circuit2) (hwf : p.WF = true) (key : List UInt8)
    (x y : List Bool) (hx : x.length = p.n0) :
    ¬ AdvKnows σ code p key x y (symR σ) := by
  obtain ⟨S, hR, _, hD⟩ := derivable_phi σ hm.selR code hm.sep hm.faithful p hwf key x y hx
  intro hk
  have := hD _ hk
  rw [hR] at this
  cases this

/-- The wires the garbler's result loop compares with, for `n` received labels. -/
def resultWires {L : Type} [LabelAlg L] (p : Circuit2) (G : Garbled L) (n : Nat) : List (WireL L) :=
  (List.range' 0 n).map fun j => G.wires.get (p.c.numWires - p.c.nOut + j)

/-- `garblerDecode` in terms of the decision logic of `Props/C16.lean`, with the
`.ok` value exposed. -/
theorem garblerDecode_ok_imp_decodeLabels {L : Type} [LabelAlg L] [DecidableEq L] (p : Circuit2)
    (G : Garbled L) (ls : List L) (bs : List Bool) (h : garblerDecode p G 0 ls = .ok bs) :
    decodeLabels (resultWires p G ls.length) ls = .ok bs := by
  have := C16_garblerDecode_eq p G ls 0
  rw [h] at this
  simp only [resultWires]
  cases hd : decodeLabels ((List.range' 0 ls.length).map fun j =>
      G.wires.get (p.c.numWires - p.c.nOut + j)) ls with
  | error e => rw [hd] at this; simp at this
  | ok bs' => rw [hd] at this; simp only [Option.some.injEq] at this; rw [this]

/-- **C16 (symbolic): no wrong result.**  Honest garbler, well-formed circuit,
any inputs, any symbolic randomness, any hash model of the family.  Let `ls` be
the `nOut` labels the garbler receives for the outputs.  If each of them is
derivable from the evaluator's view — i.e. was produced by ANY Dolev-Yao
adversary sitting on the channel and/or playing the evaluator, whatever it did
to the messages of either direction — then the garbler's result loop either
reports an error or returns exactly the plain evaluation of the circuit. -/
theorem C16_symbolic_no_wrong_result [DecidableEq (SymL Code)] (σ : Atom Code → Bool)
    (code : SymL Code → Code) (hm : SymModel σ code) (p : Circuit2) (hwf : p.WF = true)
    (key : List UInt8) (x y : List Bool) (hx : x.length = p.n0) (ls : List (SymL Code))
    (hlen : ls.length = p.c.nOut) (hadv : ∀ l ∈ ls, AdvKnows σ code p key x y l) :
    (∃ e, garblerDecode p (symGarbling σ code p) 0 ls = .error e) ∨
    garblerDecode p (symGarbling σ code p) 0 ls = .ok (p.c.compute (x ++ y)) := by
  cases hgd : garblerDecode p (symGarbling σ code p) 0 ls with
  | error e => exact Or.inl ⟨e, rfl⟩
  | ok bs =>
    right
    congr 1
    apply Classical.byContradiction
    intro hwrong
    have hok := garblerDecode_ok_imp_decodeLabels p (symGarbling σ code p) ls bs hgd
    obtain ⟨S, hR, hW, hD⟩ := derivable_phi σ hm.selR code hm.sep hm.faithful p hwf key x y hx
    have hpairs : ∀ w ∈ resultWires p (symGarbling σ code p) ls.length, w.l1 = w.l0 ^^^ symR σ := by
      intro w hwm
      simp only [resultWires, List.mem_map, List.mem_range'_1] at hwm
      obtain ⟨j, ⟨_, hj⟩, rfl⟩ := hwm
      exact (hW _ (output_defined p hwf j (by omega))).1
    have hv : (p.c.compute (x ++ y)).length = (resultWires p (symGarbling σ code p) ls.length).length := by
      simp [Circuit.compute, Circuit.outputs, resultWires, hlen]
    obtain ⟨i, hi, hw, hvi, hbad⟩ := C16_wrong_imp_offset (symR σ)
      (resultWires p (symGarbling σ code p) ls.length) (p.c.compute (x ++ y)) ls bs hpairs hv
      (by simp [resultWires]) hok hwrong
    have hin : i < p.c.nOut := by omega
    have hwi : (resultWires p (symGarbling σ code p) ls.length)[i] =
        (symGarbling σ code p).wires.get (p.c.numWires - p.c.nOut + i) := by
      simp [resultWires]
    have hci : (p.c.compute (x ++ y))[i] = (p.c.plainEval (x ++ y)).get (p.c.numWires - p.c.nOut + i) := by
      simp [Circuit.compute, Circuit.outputs]
    rw [hwi, hci] at hbad
    have hk := hadv _ (List.getElem_mem hi)
    rw [hbad] at hk
    exact (C16_symbolic_authenticity σ code hm p hwf key x y hx _ (output_defined p hwf i hin)).1 hk

/-! ### Non-vacuity

The hypothesis "every received label is derivable" is met by the honest run —
for EVERY circuit, and then the conclusion is the `.ok` branch with the right
value; a derivable but corrupted label takes the error branch; the hypotheses
on the hash model are met by the term coding. -/

theorem msgLabels_flight1 {L : Type} [LabelAlg L] (p : Circuit2) (key : List UInt8)
    (G : Garbled L) (x : List Bool) :
    msgLabels (garblerFlight1 p key G x) = G.rows.flatten ++ garblerInputLabels p G x := by
  have hl : ∀ (ls : List L), msgLabels (ls.map Msg.label) = ls := by
    intro ls; induction ls with
    | nil => rfl
    | cons l ls ih => simp [msgLabels, ih]
  have happ : ∀ (a b : List (Msg L)), msgLabels (a ++ b) = msgLabels a ++ msgLabels b := by
    intro a b; induction a with
    | nil => rfl
    | cons m a ih => cases m <;> simp [msgLabels, ih]
  have hrows : ∀ (rows : List (List L)),
      msgLabels (rows.flatMap (fun row => Msg.u32 row.length :: row.map Msg.label)) = rows.flatten := by
    intro rows; induction rows with
    | nil => rfl
    | cons r rs ih => simp [List.flatMap_cons, happ, msgLabels, hl, ih]
  simp only [garblerFlight1, tablesMsgs, msgLabels, happ, hl, hrows]

/-- The evaluator's view: all table rows, the garbler's input labels, the OT
results. -/
theorem evaluatorView_eq {L : Type} [LabelAlg L] (p : Circuit2) (key : List UInt8) (G : Garbled L)
    (x y : List Bool) :
    evaluatorView p key G x y = G.rows.flatten ++ garblerInputLabels p G x ++ otLabels p G.wires y := by
  simp only [evaluatorView, msgLabels_flight1, otLabels]

/-- **The honest run satisfies the hypothesis and lands in the `.ok` branch.**
For every well-formed circuit and all inputs: the labels the honest evaluator
returns (its `Circuit.Eval` on the tables, the garbler's input labels and the OT
results it received) are `nOut` derivable labels, and the garbler decodes them to
the plain evaluation of the circuit. -/
theorem C16_symbolic_honest_run [DecidableEq (SymL Code)] (σ : Atom Code → Bool) (hσ : σ .R = true)
    (code : SymL Code → Code) (p : Circuit2) (hwf : p.WF = true) (key : List UInt8)
    (x y : List Bool) (hx : x.length = p.n0) :
    ∃ ls, evaluatorEval p (symHash σ code) (symGarbling σ code p).rows
        (garblerInputLabels p (symGarbling σ code p) x) (otLabels p (symGarbling σ code p).wires y) = .ok ls ∧
      ls.length = p.c.nOut ∧ (∀ l ∈ ls, AdvKnows σ code p key x y l) ∧
      garblerDecode p (symGarbling σ code p) 0 ls = .ok (p.c.compute (x ++ y)) := by
  have hwf' := hwf
  simp only [Circuit2.WF, Bool.and_eq_true, decide_eq_true_eq] at hwf'
  obtain ⟨⟨⟨hcwf, hn⟩, _⟩, _⟩ := hwf'
  obtain ⟨out, hev, hdec⟩ := C01_decode (symHash σ code) p.c (symR σ) (symR_sbit σ hσ) (symInl σ)
    (x ++ y) hcwf
  have hotl : otLabels p (symGarbling σ code p).wires y =
      (List.range p.n1).map fun i =>
        ((symGarbling σ code p).wires.get (p.n0 + i)).labelFor (y.getD i false) := by
    simp only [otLabels]
    rw [List.zipWith_map_left, List.zipWith_map_right]
    simp [List.zipWith_self]
  have hee : evaluatorEval p (symHash σ code) (symGarbling σ code p).rows
      (garblerInputLabels p (symGarbling σ code p) x) (otLabels p (symGarbling σ code p).wires y) =
      .ok ((List.range p.c.nOut).map fun i => out.get (p.c.numWires - p.c.nOut + i)) := by
    simp only [evaluatorEval]
    rw [evaluator_store_eq p _ x y hx hn _ hotl, hev]
  refine ⟨_, hee, by simp, ?_, ?_⟩
  · apply Derivable.evaluatorEval p _ _ _ _ ?_ ?_ hee
    · intro row hrow r hr
      apply Derivable.view
      rw [evaluatorView_eq]
      exact List.mem_append_left _ (List.mem_append_left _ (List.mem_flatten.mpr ⟨row, hrow, hr⟩))
    · intro l hl
      apply Derivable.view
      rw [evaluatorView_eq, List.append_assoc]
      exact List.mem_append_right _ hl
  · have hdec' : ∀ j, j < p.c.nOut →
        ((symGarbling σ code p).wires.get (p.c.numWires - p.c.nOut + j)).bitFrom
          (out.get (p.c.numWires - p.c.nOut + j)) =
          some ((p.c.plainEval (x ++ y)).get (p.c.numWires - p.c.nOut + j)) :=
      fun j hj => hdec _ (output_defined p hwf j hj)
    have hgd := garblerDecode_ok p (symGarbling σ code p) out (p.c.plainEval (x ++ y)) hdec'
      p.c.nOut 0 (by omega)
    rw [← List.range_eq_range'] at hgd
    rw [hgd]
    rfl

theorem xor_left_cancel' {L : Type} [LabelAlg L] (a b c : L) (h : a ^^^ b = a ^^^ c) : b = c := by
  have : a ^^^ (a ^^^ b) = a ^^^ (a ^^^ c) := by rw [h]
  simpa using this

/-- **A corrupted but derivable label takes the error branch.**  Whatever the
other received labels are: if the label received for output `i` is the honest
label XOR any non-zero derivable value (a table row, a fresh label, a hash of
anything the adversary holds, the difference caused by evaluating on a modified
table, ...), the result loop reports an error. -/
theorem C16_symbolic_perturbed_is_error [DecidableEq (SymL Code)] (σ : Atom Code → Bool)
    (code : SymL Code → Code) (hm : SymModel σ code) (p : Circuit2) (hwf : p.WF = true)
    (key : List UInt8) (x y : List Bool) (hx : x.length = p.n0) (ls : List (SymL Code))
    (hlen : ls.length = p.c.nOut) (i : Nat) (hi : i < ls.length) (δ : SymL Code)
    (hδ : AdvKnows σ code p key x y δ) (hne : δ ≠ LabelAlg.zero)
    (hls : ls[i] = honestLabel σ code p x y (p.c.numWires - p.c.nOut + i) ^^^ δ) :
    ∃ e, garblerDecode p (symGarbling σ code p) 0 ls = .error e := by
  cases hgd : garblerDecode p (symGarbling σ code p) 0 ls with
  | error e => exact ⟨e, rfl⟩
  | ok bs =>
    exfalso
    have hok := garblerDecode_ok_imp_decodeLabels p (symGarbling σ code p) ls bs hgd
    obtain ⟨hbl, hall⟩ := C16_ok_imp_known_labels (resultWires p (symGarbling σ code p) ls.length) ls bs
      (by simp [resultWires]) hok
    have hwi : (resultWires p (symGarbling σ code p) ls.length)[i]'(by simp [resultWires]; exact hi) =
        (symGarbling σ code p).wires.get (p.c.numWires - p.c.nOut + i) := by
      simp [resultWires]
    obtain ⟨S, hR, hW, hD⟩ := derivable_phi σ hm.selR code hm.sep hm.faithful p hwf key x y hx
    have h1 := (hW _ (output_defined p hwf i (by omega))).1
    have hcases : ls[i] = honestLabel σ code p x y (p.c.numWires - p.c.nOut + i) ∨
        ls[i] = honestLabel σ code p x y (p.c.numWires - p.c.nOut + i) ^^^ symR σ := by
      have := hall i hi (by simp [resultWires]; exact hi) (by omega)
      rw [hwi] at this
      simp only [honestLabel]
      cases hv : (p.c.plainEval (x ++ y)).get (p.c.numWires - p.c.nOut + i) with
      | false =>
        simp only [WireL.labelFor, Bool.false_eq_true, if_false]
        rcases this with ⟨h, _⟩ | ⟨h, _⟩
        · exact Or.inl h
        · exact Or.inr (h.trans h1)
      | true =>
        simp only [WireL.labelFor, if_true]
        rcases this with ⟨h, _⟩ | ⟨h, _⟩
        · right; rw [h, h1]; simp
        · exact Or.inl h
    rw [hls] at hcases
    rcases hcases with h | h
    · have : honestLabel σ code p x y (p.c.numWires - p.c.nOut + i) ^^^ δ =
          honestLabel σ code p x y (p.c.numWires - p.c.nOut + i) ^^^ LabelAlg.zero := by
        rw [h]; simp
      exact hne (xor_left_cancel' _ _ _ this)
    · have := xor_left_cancel' _ _ _ h
      rw [this] at hδ
      exact C16_symbolic_offset_not_derivable σ code hm p hwf key x y hx hδ

/-! ### A concrete instance: one AND gate, term coding, all select bits 1 -/

/-- Select-bit valuation of the examples. -/
def σ1 : Atom TCode → Bool := fun _ => true

/-- The hypotheses on the model are satisfiable. -/
theorem model1 : SymModel σ1 termCode := ⟨rfl, termCode_separates σ1 rfl, termCode_faithful⟩

example : procExample.WF = true := by decide

/-- The view of the example session is not empty: two table rows, one garbler
input label, one OT result. -/
example : (evaluatorView procExample [] (symGarbling σ1 termCode procExample) [false] [true]).length = 4 := by
  rw [evaluatorView_eq]
  rfl

open Classical in
/-- All hypotheses of `C16_symbolic_no_wrong_result` hold simultaneously on the
example (inputs 1 AND 1), with the honest evaluator's labels, and the theorem's
conclusion is its `.ok` branch with the correct value `[true]`. -/
example : ∃ ls : List (SymL TCode), ls.length = procExample.c.nOut ∧
    (∀ l ∈ ls, AdvKnows σ1 termCode procExample [] [true] [true] l) ∧
    garblerDecode procExample (symGarbling σ1 termCode procExample) 0 ls = .ok [true] := by
  obtain ⟨ls, _, h1, h2, h3⟩ := C16_symbolic_honest_run σ1 rfl termCode procExample (by decide) []
    [true] [true] rfl
  refine ⟨ls, h1, h2, ?_⟩
  rw [h3]
  have : procExample.c.compute ([true] ++ [true]) = [true] := by decide +kernel
  rw [this]

theorem sbit_atom (σ : Atom Code → Bool) (a : Atom Code) : sbit (atom σ a) = σ a := rfl

open Classical in
theorem atom_ne_zero (σ : Atom Code → Bool) (a : Atom Code) : atom σ a ≠ (LabelAlg.zero : SymL Code) := by
  intro h
  have : (atom σ a).f a = (LabelAlg.zero : SymL Code).f a := by rw [h]
  rw [atom_f, zero_f] at this
  simp at this

/-- Evaluating the example's AND gate (inputs 0 AND 0, so both active labels
have select bit 1 and both table rows are used) with the SECOND TABLE ROW
CORRUPTED by `δ` yields the honest output label XOR `δ`. -/
theorem corrupted_row_eval (δ : SymL TCode) :
    ∃ tg te out, (symGarbling σ1 termCode procExample).rows = [[tg, te]] ∧
      evaluatorEval procExample (symHash σ1 termCode) [[tg, te ^^^ δ]]
        (garblerInputLabels procExample (symGarbling σ1 termCode procExample) [false])
        (otLabels procExample (symGarbling σ1 termCode procExample).wires [false]) = .ok [out] ∧
      out = honestLabel σ1 termCode procExample [false] [false] 2 ^^^ δ := by
  refine ⟨_, _, _, rfl, rfl, ?_⟩
  simp [honestLabel, symGarbling, Circuit.garble, garbleGates, garbleGate, garbleCore, procExample,
    initStore, garblerInputLabels, otLabels, Store.get, Store.set, Circuit.plainEval, evalPlainGates,
    Gate.evalPlain, WireL.labelFor, symHash, symInl, sbit_atom, σ1, Op.eval]
  simp [xor_assoc', xor_comm', xor_left_comm']

open Classical in
/-- **Corrupting a table row: derivable, unknown, error.**  On the example
session (0 AND 0) the channel adversary adds a fresh label of its own to the
second row of the garbled table; the evaluator evaluates honestly on what it
received and returns `out`.  `out` is derivable (so the hypothesis of
`C16_symbolic_no_wrong_result` holds for `[out]`), it is neither of the output
wire's two labels, and the garbler's result loop reports an error. -/
theorem C16_symbolic_corrupted_row_is_error :
    ∃ tg te out, (symGarbling σ1 termCode procExample).rows = [[tg, te]] ∧
      evaluatorEval procExample (symHash σ1 termCode) [[tg, te ^^^ atom σ1 (.inp 7)]]
        (garblerInputLabels procExample (symGarbling σ1 termCode procExample) [false])
        (otLabels procExample (symGarbling σ1 termCode procExample).wires [false]) = .ok [out] ∧
      AdvKnows σ1 termCode procExample [] [false] [false] out ∧
      ∃ e, garblerDecode procExample (symGarbling σ1 termCode procExample) 0 [out] = .error e := by
  obtain ⟨tg, te, out, hrows, hev, hout⟩ := corrupted_row_eval (atom σ1 (.inp 7))
  have hδ : AdvKnows σ1 termCode procExample [] [false] [false] (atom σ1 (.inp 7)) :=
    Derivable.fresh 7 (by decide)
  have hview : ∀ r ∈ [tg, te], r ∈ evaluatorView procExample [] (symGarbling σ1 termCode procExample)
      [false] [false] := by
    intro r hr
    rw [evaluatorView_eq, hrows]
    simp only [List.flatten_cons, List.flatten_nil, List.append_nil]
    exact List.mem_append_left _ (List.mem_append_left _ hr)
  refine ⟨tg, te, out, hrows, hev, ?_, ?_⟩
  · have hall : ∀ l ∈ [out], AdvKnows σ1 termCode procExample [] [false] [false] l := by
      apply Derivable.evaluatorEval procExample _ _ _ _ ?_ ?_ hev
      · intro row hrow r hr
        simp only [List.mem_singleton] at hrow
        subst hrow
        simp only [List.mem_cons, List.not_mem_nil, or_false] at hr
        rcases hr with rfl | rfl
        · exact Derivable.view (hview _ (by simp))
        · exact (Derivable.view (hview _ (by simp))).xor hδ
      · intro l hl
        apply Derivable.view
        rw [evaluatorView_eq, List.append_assoc]
        exact List.mem_append_right _ hl
    exact hall out (by simp)
  · exact C16_symbolic_perturbed_is_error σ1 termCode model1 procExample (by decide) [] [false] [false]
      rfl [out] rfl 0 (by simp) (atom σ1 (.inp 7)) hδ (atom_ne_zero _ _) hout

end Mpc.Sym

/-
Helper lemmas for C05, wire side: gate-record codec round trip and the
per-gate / per-circuit lock step of streamed garbling, streamed evaluation and
plain evaluation on the two-level (global + temporary) wire store.
-/
import MpcVerif.Model.Stream
import MpcVerif.Proofs.Garble

namespace Mpc.Stream
open Mpc LabelAlg

/-! ## Big-endian numbers -/

theorem length_beBytes (k n : Nat) : (beBytes k n).length = k := by
  induction k generalizing n with
  | zero => simp [beBytes]
  | succ k ih => simp [beBytes, ih]

theorem beVal_append (xs : List Nat) (b : Nat) : beVal (xs ++ [b]) = beVal xs * 256 + b := by
  simp [beVal, List.foldl_append]

theorem beVal_beBytes (k n : Nat) (h : n < 256 ^ k) : beVal (beBytes k n) = n := by
  induction k generalizing n with
  | zero =>
    have : n = 0 := by simpa using h
    subst this
    simp [beBytes, beVal]
  | succ k ih =>
    have h2 : n / 256 < 256 ^ k := by
      apply Nat.div_lt_of_lt_mul
      rw [Nat.pow_succ, Nat.mul_comm] at h
      exact h
    rw [beBytes, beVal_append, ih _ h2]
    omega

theorem takeN_append (xs rest : List Nat) : takeN xs.length (xs ++ rest) = some (xs, rest) := by
  simp [takeN]

theorem takeN_beBytes (k n : Nat) (rest : List Nat) :
    takeN k (beBytes k n ++ rest) = some (beBytes k n, rest) := by
  have := takeN_append (beBytes k n) rest
  rwa [length_beBytes] at this

variable {L : Type}

theorem takeRows_append [LabelBytes L] (rows : List L) (rest : List Nat) :
    takeRows rows.length (rows.flatMap LabelBytes.toBytes ++ rest) = some (rows, rest) := by
  induction rows with
  | nil => simp [takeRows]
  | cons x xs ih =>
    simp only [List.length_cons, List.flatMap_cons, List.append_assoc, takeRows]
    have h := takeN_append (LabelBytes.toBytes x) (xs.flatMap LabelBytes.toBytes ++ rest)
    rw [LabelBytes.length_toBytes] at h
    rw [h]
    simp only [ih, LabelBytes.ofBytes_toBytes]

/-! ## Op byte -/

theorem codeOp_opCode (op : Op) : codeOp (opCode op) = some op := by
  cases op <;> rfl

theorem opByte_spec (op : Op) (a b c s : Bool) :
    codeOp (opByte op a b c s % 16) = some op ∧
    (opByte op a b c s / 128 % 2 == 1) = a ∧
    (opByte op a b c s / 64 % 2 == 1) = b ∧
    (opByte op a b c s / 32 % 2 == 1) = c ∧
    (opByte op a b c s / 16 % 2 == 1) = s := by
  cases op <;> cases a <;> cases b <;> cases c <;> cases s <;> decide

/-- Well-formed record: ids fit the 32-bit encoding, the number of rows is the
operation's, and an INV record has no second input. -/
structure RecWF (g : GateRec L) : Prop where
  ha : g.a < 2 ^ 32
  hb : g.b < 2 ^ 32
  hc : g.c < 2 ^ 32
  hrows : g.rows.length = g.op.rows
  hinv : g.op = .inv → g.b = 0

theorem lt_of_short {g : GateRec L} (h : g.short = true) :
    g.a < 256 ^ 2 ∧ g.b < 256 ^ 2 ∧ g.c < 256 ^ 2 := by
  simp only [GateRec.short, Bool.and_eq_true, decide_eq_true_eq] at h
  omega

theorem decode_encode [LabelBytes L] (g : GateRec L) (rest : List Nat) (h : RecWF g) :
    decodeRec (encodeRec g ++ rest) = some (g, rest) := by
  obtain ⟨ha, hb, hc, hrows, hinv⟩ := h
  obtain ⟨h1, h2, h3, h4, h5⟩ := opByte_spec g.op g.aTmp g.bTmp g.cTmp g.short
  have ha' : g.a < 256 ^ 4 := by simpa using ha
  have hb' : g.b < 256 ^ 4 := by simpa using hb
  have hc' : g.c < 256 ^ 4 := by simpa using hc
  have hrowsT : ∀ rest : List Nat,
      takeRows g.op.rows (g.rows.flatMap LabelBytes.toBytes ++ rest) = some (g.rows, rest) := by
    intro rest
    rw [← hrows]
    exact takeRows_append _ _
  simp only [encodeRec, List.cons_append, decodeRec, h1, h2, h3, h4, h5]
  by_cases hop : g.op = .inv
  · have hb0 := hinv hop
    rw [hop] at hrowsT
    simp only [hop, if_true, List.append_assoc]
    cases hs : g.short
    · simp only [Bool.false_eq_true, if_false, takeN_beBytes, hrowsT]
      simp only [beVal_beBytes _ _ ha', beVal_beBytes _ _ hc']
      congr 1
      cases g
      simp_all
    · obtain ⟨sa, _, sc⟩ := lt_of_short hs
      simp only [if_true, takeN_beBytes, hrowsT]
      simp only [beVal_beBytes _ _ sa, beVal_beBytes _ _ sc]
      congr 1
      cases g
      simp_all
  · simp only [hop, if_false, List.append_assoc]
    cases hs : g.short
    · simp only [Bool.false_eq_true, if_false, takeN_beBytes, hrowsT]
      simp only [beVal_beBytes _ _ ha', beVal_beBytes _ _ hb', beVal_beBytes _ _ hc']
    · obtain ⟨sa, sb, sc⟩ := lt_of_short hs
      simp only [if_true, takeN_beBytes, hrowsT]
      simp only [beVal_beBytes _ _ sa, beVal_beBytes _ _ sb, beVal_beBytes _ _ sc]

theorem decodeRecs_encodeRecs [LabelBytes L] (gs : List (GateRec L)) (rest : List Nat)
    (h : ∀ g ∈ gs, RecWF g) :
    decodeRecs gs.length (encodeRecs gs ++ rest) = some (gs, rest) := by
  induction gs with
  | nil => simp [decodeRecs, encodeRecs]
  | cons g gs ih =>
    have hg := h g (by simp)
    have ih' := ih (fun x hx => h x (by simp [hx]))
    simp only [encodeRecs, List.flatMap_cons, List.append_assoc, List.length_cons, decodeRecs] at *
    rw [decode_encode g _ hg]
    simp only [ih']

/-! ## Stores -/

section store
variable {α : Type} [Inhabited α]

theorem AStore.get_set (s : AStore α) (i j : Nat) (v : α) :
    (s.set i v).get j = if i = j then v else s.get j := by
  by_cases h : i = j
  · subst h; simp [AStore.get, AStore.set]
  · simp [AStore.get, AStore.set, h]

theorem SStore.get_set (s : SStore α) (l m : Loc) (v : α) :
    (s.set l v).get m = if l = m then v else s.get m := by
  obtain ⟨lt, li⟩ := l
  obtain ⟨mt, mi⟩ := m
  cases lt <;> cases mt <;> simp [SStore.get, SStore.set, AStore.get_set, Prod.ext_iff]

end store

/-! ## Lock step -/

variable [LabelAlg L]

/-- The invariant: on every location of `D` the garbler's pair, the
evaluator's label and the plain bit are related as in C01. -/
def SInv (r : L) (D : Loc → Prop) (gs : SStore (WireL L)) (es : SStore L) (ps : SStore Bool) : Prop :=
  ∀ l, D l → Rel r (gs.get l) (es.get l) (ps.get l)

/-- One streamed gate: if the invariant holds on the gate's input locations,
the evaluator (fed the record the garbler produced) takes no error branch, the
two tweak counters stay equal, the invariant holds on the output location with
the plain gate value, and every other location is untouched in all three
stores. -/
theorem stream_gate_step (H : Hash L) (r : L) (hr : sbit r = true) (cx : SCtx) (g : Gate)
    (gs : SStore (WireL L)) (es : SStore L) (ps : SStore Bool) (id : Nat) (D : Loc → Prop)
    (hinv : SInv r D gs es ps)
    (ha : D (cx.locate g.in0)) (hb : g.op.binary = true → D (cx.locate g.in1)) :
    ∃ es', streamEvalGate H (streamGarbleGate H r cx g gs id).2.2 es id =
        .ok (es', (streamGarbleGate H r cx g gs id).2.1) ∧
      (streamGarbleGate H r cx g gs id).2.1 = id + g.op.tweaks ∧
      SInv r (fun l => l = cx.locate g.out ∨ D l) (streamGarbleGate H r cx g gs id).1 es'
        (streamPlainGate cx g ps) := by
  have hA := hinv _ ha
  cases hbin : g.op.binary
  · obtain ⟨e, he, hrel⟩ := core_correct H r hr g.op (gs.get (cx.locate g.in0)) default
      (es.get (cx.locate g.in0)) default (ps.get (cx.locate g.in0)) false id hA
      (by intro h; rw [hbin] at h; cases h)
    refine ⟨es.set (cx.locate g.out) e, ?_, rfl, ?_⟩
    · simp only [streamEvalGate, streamGarbleGate, GateRec.la, GateRec.lb, GateRec.lc, hbin,
        Bool.false_eq_true, if_false, he]
    · intro l hl
      simp only [streamGarbleGate, streamPlainGate, SStore.get_set, hbin, Bool.false_eq_true, if_false]
      by_cases hlc : cx.locate g.out = l
      · simp only [hlc, if_true]
        exact hrel
      · simp only [hlc, if_false]
        rcases hl with hl | hl
        · exact absurd hl.symm hlc
        · exact hinv l hl
  · obtain ⟨e, he, hrel⟩ := core_correct H r hr g.op (gs.get (cx.locate g.in0)) (gs.get (cx.locate g.in1))
      (es.get (cx.locate g.in0)) (es.get (cx.locate g.in1)) (ps.get (cx.locate g.in0))
      (ps.get (cx.locate g.in1)) id hA (fun _ => hinv _ (hb hbin))
    refine ⟨es.set (cx.locate g.out) e, ?_, rfl, ?_⟩
    · simp only [streamEvalGate, streamGarbleGate, GateRec.la, GateRec.lb, GateRec.lc, hbin,
        if_true, he]
    · intro l hl
      simp only [streamGarbleGate, streamPlainGate, SStore.get_set, hbin, if_true]
      by_cases hlc : cx.locate g.out = l
      · simp only [hlc, if_true]
        exact hrel
      · simp only [hlc, if_false]
        rcases hl with hl | hl
        · exact absurd hl.symm hlc
        · exact hinv l hl

/-- Locations defined after a gate list, and well-formedness (every gate reads
defined locations) on the two-level store. -/
def sDefinedAfter (cx : SCtx) : List Gate → (Loc → Prop) → (Loc → Prop)
  | [], D => D
  | g :: gs, D => sDefinedAfter cx gs (fun l => l = cx.locate g.out ∨ D l)

def sWf (cx : SCtx) : List Gate → (Loc → Prop) → Prop
  | [], _ => True
  | g :: gs, D =>
    D (cx.locate g.in0) ∧ (g.op.binary = true → D (cx.locate g.in1)) ∧
      sWf cx gs (fun l => l = cx.locate g.out ∨ D l)

theorem streamPlain_cons (cx : SCtx) (g : Gate) (gs : List Gate) (ps : SStore Bool) :
    streamPlain cx (g :: gs) ps = streamPlain cx gs (streamPlainGate cx g ps) := rfl

/-- One streamed circuit, from any value `id` of the stream-wide tweak
counter: evaluator and garbler stay in lock step, the counters agree at the
end, and the invariant holds on every location defined before or by the
circuit, with the plain values of the circuit's gates applied to the global
store. -/
theorem stream_lockstep (H : Hash L) (r : L) (hr : sbit r = true) (cx : SCtx) (gates : List Gate) :
    ∀ (gs : SStore (WireL L)) (es : SStore L) (ps : SStore Bool) (id : Nat) (D : Loc → Prop),
      SInv r D gs es ps → sWf cx gates D →
      ∃ es', streamEvalFrom H (streamGarbleFrom H r cx gates gs id).2 es id =
          .ok (es', id + (gates.map (fun g => g.op.tweaks)).sum) ∧
        SInv r (sDefinedAfter cx gates D) (streamGarbleFrom H r cx gates gs id).1 es'
          (streamPlain cx gates ps) := by
  induction gates with
  | nil =>
    intro gs es ps id D hinv _
    exact ⟨es, by simp [streamEvalFrom, streamGarbleFrom], by simpa [sDefinedAfter, streamGarbleFrom, streamPlain] using hinv⟩
  | cons g rest ih =>
    intro gs es ps id D hinv hwf
    obtain ⟨ha, hb, hwf'⟩ := hwf
    obtain ⟨es1, hev, hid, hinv1⟩ := stream_gate_step H r hr cx g gs es ps id D hinv ha hb
    obtain ⟨es2, hev2, hinv2⟩ := ih (streamGarbleGate H r cx g gs id).1 es1 (streamPlainGate cx g ps)
      (streamGarbleGate H r cx g gs id).2.1 _ hinv1 hwf'
    refine ⟨es2, ?_, ?_⟩
    · simp only [streamGarbleFrom, streamEvalFrom, hev]
      rw [hev2, hid]
      simp [Nat.add_assoc]
    · simpa [streamGarbleFrom, sDefinedAfter, streamPlain_cons] using hinv2

/-- Records produced by the garbler are well formed when all ids are below
2^32 (the Go code stores them in `uint32`). -/
theorem streamGarbleGate_recWF (H : Hash L) (r : L) (cx : SCtx) (g : Gate) (gs : SStore (WireL L)) (id : Nat)
    (hin : ∀ w, (cx.locate w).2 < 2 ^ 32) :
    RecWF (streamGarbleGate H r cx g gs id).2.2 := by
  constructor
  · exact hin _
  · simp only [streamGarbleGate]
    split
    · exact hin _
    · decide
  · exact hin _
  · simp only [streamGarbleGate]
    exact garbleCore_rows_length H r g.op _ _ id
  · intro hop
    simp only [streamGarbleGate] at hop ⊢
    simp [hop, Op.binary]

end Mpc.Stream

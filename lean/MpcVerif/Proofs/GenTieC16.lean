/-
T1 tie (DESIGN.md 1.3) of `circuit.BitFromLabel` (circuit/helpers.go) to
`WireL.bitFrom` (Model/Garble.lean; used by C01 and C16): the definition of
MpcVerif/Gen/LeafC16.lean, regenerated from the current Go source by `gofacts
translate` on every run of checks/t1.py, returns `some b` exactly when the
model does and `none` (Go: a non-nil error) otherwise.  Core Lean only.
-/
import MpcVerif.Gen.LeafC16
import MpcVerif.Proofs.GenTieLib

namespace Mpc.GenTie
open Mpc Mpc.Gen Mpc.Gen.C16

theorem joinL_inj {a b : Gen.Label} : joinL a = joinL b ↔ a = b := by
  rw [join_inj]
  exact ⟨fun h => Prod.ext h.1 h.2, fun h => h ▸ ⟨rfl, rfl⟩⟩

/-- Go's `==` on `ot.Label` structs. -/
theorem label_beq (a b : Gen.Label) : (a == b) = (joinL a == joinL b) := by
  rw [Bool.eq_iff_iff]; simp only [beq_iff_eq, joinL_inj]

/-- The group's own copy of `ot.Label.Equal` (callee of `BitFromLabel`). -/
theorem tie_Equal16 (l o : Gen.Label) : Label.Equal l o = (joinL l == joinL o) := by
  rw [Bool.eq_iff_iff]; simp [Label.Equal, join_inj]

theorem tie_BitFromLabel (w : Gen.Wire) (l : Gen.Label) :
    Gen.C16.BitFromLabel w l = WireL.bitFrom ⟨joinL w.1, joinL w.2⟩ (joinL l) := by
  have h0' : (joinL w.1 = joinL l) = (joinL l = joinL w.1) := propext eq_comm
  have h1' : (joinL w.2 = joinL l) = (joinL l = joinL w.2) := propext eq_comm
  by_cases h0 : joinL l = joinL w.1 <;> by_cases h1 : joinL l = joinL w.2
  all_goals
    first | have h0 := eq_true h0 | have h0 := eq_false h0
    first | have h1 := eq_true h1 | have h1 := eq_false h1
    simp only [Gen.C16.BitFromLabel, WireL.bitFrom, tie_Equal16, label_beq, beq_iff_eq, h0', h1', h0, h1,
      if_true, if_false, decide_true, decide_false, Bool.false_eq_true]

example : Gen.C16.BitFromLabel ((1#64, 2#64), (3#64, 4#64)) (3#64, 4#64) = some true ∧
    Gen.C16.BitFromLabel ((1#64, 2#64), (3#64, 4#64)) (3#64, 5#64) = none := by decide

end Mpc.GenTie

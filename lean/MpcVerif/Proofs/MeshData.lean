/-
Lemmas for the data layer of the mesh (`Model/MeshData.lean`): every state
reachable with payload events projects to a reachable state of the setup
system; the byte queues are conserved by every event of the code as it is.
-/
import MpcVerif.Model.MeshData
import MpcVerif.Proofs.MeshLive

namespace Mpc.Mesh

/-- Reachable states of the code as it is, data phase overlapping the setup phase. -/
inductive DReach (c : Cfg) : DState → Prop where
  | init : DReach c (dinit c)
  | step {s s' : DState} (e : DEv) : DReach c s → e.real = true → dstep c s e = some s' → DReach c s'

/-- Reachable states of the variant that reads the hello through a temporary reader. -/
inductive DReachDrop (c : Cfg) : DState → Prop where
  | init : DReachDrop c (dinit c)
  | step {s s' : DState} (e : DEv) : DReachDrop c s → e.dropping = true → dstep c s e = some s' →
      DReachDrop c s'

theorem updC_apply (f : Conn → Nat → List Nat) (cn : Conn) (p : Nat) (v : List Nat) (c : Conn) (x : Nat) :
    updC f cn p v c x = if c = cn ∧ x = p then v else f c x := rfl

theorem updS_apply (f : Nat → Nat → Nat → List Nat) (a b c : Nat) (v : List Nat) (x y z : Nat) :
    updS f a b c v x y z = if x = a ∧ y = b ∧ z = c then v else f x y z := rfl

theorem accFill_base (s : DState) (e : Ev) (r : Nat) (keep : Bool) : (accFill s e r keep).base = s.base := by
  cases e <;> rfl

theorem accFill_out (s : DState) (e : Ev) (r : Nat) (keep : Bool) : (accFill s e r keep).out = s.out := by
  cases e <;> rfl

theorem accFill_inp (s : DState) (e : Ev) (r : Nat) (keep : Bool) : (accFill s e r keep).inp = s.inp := by
  cases e <;> rfl

/-- The setup part of a data-layer step is a step of the setup system (or nothing). -/
theorem dreach_base (c : Cfg) (s : DState) (h : DReach c s) : Reach c s.base := by
  induction h with
  | init => exact .init
  | @step s s' e _ he hs ih =>
    cases e with
    | ev e0 r =>
      simp only [dstep] at hs
      cases hst : step c s.base e0 with
      | none => simp [hst] at hs
      | some b =>
        simp only [hst, Option.map_some, Option.some.injEq] at hs
        subst hs
        exact .step e0 ih he hst
    | evDrop e0 r => simp [DEv.real] at he
    | send p q k bs =>
      simp only [dstep] at hs
      split at hs
      · split at hs
        · simp only [Option.some.injEq] at hs; subst hs; exact ih
        · simp at hs
      · simp at hs
    | recv p q k r n =>
      simp only [dstep] at hs
      split at hs
      · split at hs
        · simp only [Option.some.injEq] at hs; subst hs; exact ih
        · simp at hs
      · simp at hs

/-- Two slots of one party hold different connections. -/
theorem wire_inj (p q q' k k' : Nat) (h : wire p q k = wire p q' k') :
    q = q' ∧ k = k' := by
  unfold wire at h
  by_cases h1 : q = 0 <;> by_cases h2 : q' = 0 <;> by_cases h3 : p = 0 <;>
    by_cases h4 : p < q <;> by_cases h5 : p < q' <;>
    simp [h1, h2, h3, h4, h5] at h <;> omega

/-- Conservation: what party p has received from its slot (q, k), what sits in
the `ReadBuf` of that connection and what is still in its socket is, in this
order, exactly what q has sent on ITS slot (p, k). -/
def Conserved (s : DState) : Prop :=
  ∀ p q k, p ≠ q → s.inp p q k ++ (s.buf (wire p q k) p ++ s.sock (wire p q k) p) = s.out q p k

theorem conserved_init (c : Cfg) : Conserved (dinit c) := by
  intro p q k _; rfl

theorem conserved_accFill (s : DState) (e : Ev) (r : Nat) (h : Conserved s) : Conserved (accFill s e r true) := by
  intro p q k hpq
  have h0 := h p q k hpq
  cases e with
  | accTake j i k' =>
    simp only [accFill, if_true]
    simp only [updC_apply]
    by_cases hc : wire p q k = ⟨i, j, k'⟩ ∧ p = j
    · obtain ⟨hw, hp⟩ := hc
      subst hp
      rw [hw] at h0
      simp only [hw, and_self, if_true]
      rw [List.append_assoc, List.take_append_drop]
      exact h0
    · simp only [hc, if_false]
      exact h0
  | _ => exact h0

theorem conserved_step (c : Cfg) (s s' : DState) (hb : Inv c s.base) (hJ : Conserved s) (e : DEv)
    (he : e.real = true) (hs : dstep c s e = some s') : Conserved s' := by
  cases e with
  | ev e0 r =>
    simp only [dstep] at hs
    cases hst : step c s.base e0 with
    | none => simp [hst] at hs
    | some b =>
      simp only [hst, Option.map_some, Option.some.injEq] at hs
      subst hs
      exact conserved_accFill s e0 r hJ
  | evDrop e0 r => simp [DEv.real] at he
  | send a b k bs =>
    simp only [dstep] at hs
    split at hs
    · split at hs
      · rename_i cn hcn
        simp only [Option.some.injEq] at hs
        subst hs
        obtain ⟨hw, hab, _, _, _⟩ := hb.slot a b k cn hcn
        intro p q k' hpq
        have h0 := hJ p q k' hpq
        simp only [updS_apply, updC_apply]
        by_cases hc : q = a ∧ p = b ∧ k' = k
        · obtain ⟨rfl, rfl, rfl⟩ := hc
          have hww : wire p q k' = cn := by rw [hw]; exact wire_comm q p k' hab
          simp only [hww, and_self, if_true]
          rw [← hww, ← List.append_assoc, ← List.append_assoc, List.append_assoc (s.inp p q k'), h0]
        · have hne : ¬ (wire p q k' = cn ∧ p = b) := by
            rintro ⟨hw', rfl⟩
            rw [hw, ← wire_comm a p k hab] at hw'
            have := wire_inj p q a k' k hw'
            exact hc ⟨this.1, rfl, this.2⟩
          simp only [hc, hne, if_false]
          exact h0
      · simp at hs
    · simp at hs
  | recv a b k r n =>
    simp only [dstep] at hs
    split at hs
    · split at hs
      · rename_i cn hcn
        simp only [Option.some.injEq] at hs
        subst hs
        obtain ⟨hw, hab, _, _, _⟩ := hb.slot a b k cn hcn
        intro p q k' hpq
        have h0 := hJ p q k' hpq
        simp only [updS_apply, updC_apply]
        by_cases hc : p = a ∧ q = b ∧ k' = k
        · obtain ⟨rfl, rfl, rfl⟩ := hc
          simp only [← hw, and_self, if_true]
          rw [← h0, hw]
          simp only [List.append_assoc]
          rw [← List.append_assoc (List.take n _), List.take_append_drop, List.append_assoc,
            List.take_append_drop]
        · have hne : ¬ (wire p q k' = cn ∧ p = a) := by
            rintro ⟨hw', rfl⟩
            rw [hw] at hw'
            have := wire_inj p q b k' k hw'
            exact hc ⟨rfl, this.1, this.2⟩
          simp only [hc, hne, if_false]
          exact h0
      · simp at hs
    · simp at hs

theorem dreach_conserved (c : Cfg) (hc : c.Ok) (s : DState) (h : DReach c s) : Conserved s := by
  induction h with
  | init => exact conserved_init c
  | step e hr he hs ih => exact conserved_step c _ _ (reach_inv c hc _ (dreach_base c _ hr)) ih e he hs

end Mpc.Mesh

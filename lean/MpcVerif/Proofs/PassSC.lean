/-
C09: `Graph.shortCircuitXORZero` (model of `Compiler.ShortCircuitXORZero`)
preserves the input-to-output function of every well-formed builder graph.

One firing of the rule on the gate `k = XOR(z, ow)` with `z` of value Zero,
`ow` produced by gate `p` and used by `k` only (fan-out counter 1):
gate `p` now writes `k`'s old output wire `y`, gate `k` writes a fresh wire.
-/
import MpcVerif.Proofs.PassPrune

set_option linter.unusedSimpArgs false
set_option linter.unusedVariables false

namespace Mpc
namespace Graph

/-- The effect of one firing. -/
def fire (G : Graph) (k p : Nat) : Graph :=
  ((G.setO p (G.gate k).o).freshWire.1).setO k G.wires.size

theorem scTry_eq (G : Graph) (i z other : Nat) :
    G.scTry i z other =
      if G.wval z = .zero then
        match (G.wire other).input with
        | none => G
        | some p => if (G.wire (G.gate p).o).numOut = 1 then G.fire i p else G
      else G := by
  unfold scTry
  by_cases hz : G.wval z = .zero
  · simp only [hz, if_true]
    cases hin : (G.wire other).input with
    | none => rfl
    | some p =>
      simp only
      by_cases hn : (G.wire (G.gate p).o).numOut = 1
      · simp only [hn, if_true]; rfl
      · simp only [hn, if_false]
  · simp only [hz, if_false]

/-- `g` reads wire `w`. -/
def reads (g : BGate) (w : Nat) : Prop := g.a = w ∨ (g.op ≠ .inv ∧ g.b = w)

theorem slots_pos_of_reads (g : BGate) (w : Nat) (h : reads g w) : 1 ≤ slots w g := by
  unfold slots
  rcases h with h | ⟨h1, h2⟩
  · simp [h]
  · simp [h1, h2]

theorem rdL_ge (w : Nat) : ∀ (l : List BGate) (i : Nat), i < l.length → (l.getD i default).dead = false →
    slots w (l.getD i default) ≤ rdL w l := by
  intro l
  induction l with
  | nil => intro i hi; simp at hi
  | cons g t ih =>
    intro i hi hd
    cases i with
    | zero =>
      simp only [List.getD_cons_zero] at hd ⊢
      simp only [rdL, hd, Bool.false_eq_true, if_false]; omega
    | succ i =>
      simp only [List.getD_cons_succ] at hd ⊢
      have := ih i (by simp at hi; omega) hd
      simp only [rdL]; omega

/-- two different live gates reading `w`, or one gate reading it twice, give fan-out ≥ 2 -/
theorem rdL_two (w : Nat) : ∀ (l : List BGate) (i j : Nat), i < j → j < l.length →
    (l.getD i default).dead = false → (l.getD j default).dead = false →
    slots w (l.getD i default) + slots w (l.getD j default) ≤ rdL w l := by
  intro l
  induction l with
  | nil => intro i j _ hj; simp at hj
  | cons g t ih =>
    intro i j hij hj hdi hdj
    cases j with
    | zero => omega
    | succ j =>
      simp only [List.getD_cons_succ] at hdj ⊢
      cases i with
      | zero =>
        simp only [List.getD_cons_zero] at hdi ⊢
        have := rdL_ge w t j (by simp at hj; omega) hdj
        simp only [rdL, hdi, Bool.false_eq_true, if_false]; omega
      | succ i =>
        simp only [List.getD_cons_succ] at hdi ⊢
        have := ih i j (by omega) (by simp at hj; omega) hdi hdj
        simp only [rdL]; omega

theorem readers_ge (G : Graph) (w i : Nat) (hi : G.live i) : slots w (G.gate i) ≤ G.readers w := by
  have := rdL_ge w G.gates.toList i (by simpa using hi.1) (by rw [← gate_eq_getD]; exact hi.2)
  rwa [← gate_eq_getD] at this

theorem readers_two (G : Graph) (w i j : Nat) (hij : i ≠ j) (hi : G.live i) (hj : G.live j) :
    slots w (G.gate i) + slots w (G.gate j) ≤ G.readers w := by
  rcases Nat.lt_or_gt_of_ne hij with h | h
  · have := rdL_two w G.gates.toList i j h (by simpa using hj.1) (by rw [← gate_eq_getD]; exact hi.2)
      (by rw [← gate_eq_getD]; exact hj.2)
    rwa [← gate_eq_getD, ← gate_eq_getD] at this
  · have := rdL_two w G.gates.toList j i h (by simpa using hi.1) (by rw [← gate_eq_getD]; exact hj.2)
      (by rw [← gate_eq_getD]; exact hi.2)
    rw [← gate_eq_getD, ← gate_eq_getD] at this
    unfold readers
    omega

/-! ### accessors of `fire` -/

theorem gate_setO (G : Graph) (i w j : Nat) :
    (G.setO i w).gate j = if j = i ∧ i < G.gates.size then { G.gate i with o := w } else G.gate j := by
  simp only [gate, setO, getD_modify]

theorem gate_fire (G : Graph) (k p j : Nat) (hk : k < G.gates.size) (hp : p < G.gates.size) (hpk : p ≠ k) :
    (G.fire k p).gate j =
      if j = k then { G.gate k with o := G.wires.size }
      else if j = p then { G.gate p with o := (G.gate k).o }
      else G.gate j := by
  have e1 : ∀ m, ((G.setO p (G.gate k).o).freshWire.1).gate m = (G.setO p (G.gate k).o).gate m := fun m => rfl
  have hsz : ((G.setO p (G.gate k).o).freshWire.1).gates.size = G.gates.size := by simp [freshWire, setO]
  unfold fire
  rw [gate_setO, hsz, e1, gate_setO, e1, gate_setO]
  by_cases hjk : j = k
  · subst hjk
    have : ¬ (j = p ∧ p < G.gates.size) := fun h => hpk h.1.symm
    simp [hk, this]
  · by_cases hjp : j = p
    · subst hjp; simp [hjk, hp]
    · simp [hjk, hjp]

theorem fire_gsize (G : Graph) (k p : Nat) : (G.fire k p).gates.size = G.gates.size := by
  simp [fire, setO, freshWire]

theorem fire_wsize (G : Graph) (k p : Nat) : (G.fire k p).wires.size = G.wires.size + 1 := by
  simp [fire, setO, freshWire]

theorem fire_hdr (G : Graph) (k p : Nat) :
    (G.fire k p).nIn = G.nIn ∧ (G.fire k p).zero = G.zero ∧ (G.fire k p).one = G.one ∧
    (G.fire k p).outputs = G.outputs := ⟨rfl, rfl, rfl, rfl⟩

theorem fire_wire (G : Graph) (k p w : Nat) (hw : w < G.wires.size) : (G.fire k p).wire w = G.wire w := by
  simp only [fire, setO, freshWire, wire, Array.getD_eq_getD_getElem?]
  rw [Array.getElem?_push_lt hw]
  simp [hw]

theorem fire_wire_fresh (G : Graph) (k p : Nat) : (G.fire k p).wire G.wires.size = {} := by
  simp only [fire, setO, freshWire, wire, Array.getD_eq_getD_getElem?]
  rw [Array.getElem?_push_size]
  rfl

theorem get_push_false (s : Store Bool) (w : Nat) : Store.get (Array.push s false) w = Store.get s w := by
  simp only [Store.get, Array.getD_eq_getD_getElem?]
  by_cases h : w < s.size
  · rw [Array.getElem?_push_lt h]; simp [h]
  · by_cases h2 : w = s.size
    · subst h2; rw [Array.getElem?_push_size]; simp
    · rw [Array.getElem?_eq_none (by simp; omega), Array.getElem?_eq_none (by omega)]

/-- The store after a firing: one more (fresh) wire, the orphaned wire reads 0. -/
def fireStore (s : Store Bool) (ow : Nat) : Store Bool := Store.set (Array.push s false) ow false

theorem fireStore_size (s : Store Bool) (ow : Nat) : (fireStore s ow).size = s.size + 1 := by
  simp [fireStore]

theorem fireStore_get (s : Store Bool) (ow w : Nat) (h : ow < s.size) :
    Store.get (fireStore s ow) w = if w = ow then false else Store.get s w := by
  unfold fireStore
  by_cases hw : ow = w
  · subst hw
    rw [Store.get_set_eq _ _ _ (by simp; omega)]; simp
  · rw [Store.get_set_ne _ _ _ _ hw, get_push_false]
    have : ¬ w = ow := fun e => hw e.symm
    simp [this]

/-- Structural well-formedness used by `ShortCircuitXORZero`. -/
structure SCBase (G : Graph) : Prop where
  wf      : G.GWF
  allLive : ∀ i, i < G.gates.size → (G.gate i).dead = false
  ibound  : ∀ i, i < G.gates.size → (G.gate i).a < G.wires.size ∧
              ((G.gate i).op ≠ .inv → (G.gate i).b < G.wires.size)
  count   : ∀ w, G.readers w ≤ (G.wire w).numOut
  unread  : ∀ w ∈ G.outputs, ∀ j, j < G.gates.size → ¬ reads (G.gate j) w

theorem SCBase.live_iff {G : Graph} (h : SCBase G) (i : Nat) : G.live i ↔ i < G.gates.size :=
  ⟨fun hh => hh.1, fun hh => ⟨hh, h.allLive i hh⟩⟩

/-- Facts about a firing position. -/
structure FirePre (G : Graph) (k p z ow : Nat) : Prop where
  hk    : k < G.gates.size
  hp    : p < G.gates.size
  xor   : (G.gate k).op = .xor
  role  : ((G.gate k).a = z ∧ (G.gate k).b = ow) ∨ ((G.gate k).b = z ∧ (G.gate k).a = ow)
  prod  : (G.gate p).o = ow
  one   : (G.wire ow).numOut = 1
  zval  : ∀ x, (G.evalStore x).get z = false

section Fire
variable {G : Graph} {k p z ow : Nat}

theorem FirePre.reads_k (f : FirePre G k p z ow) : reads (G.gate k) ow := by
  rcases f.role with ⟨_, h⟩ | ⟨_, h⟩
  · exact Or.inr ⟨by rw [f.xor]; simp, h⟩
  · exact Or.inl h

theorem FirePre.only_k (h : SCBase G) (f : FirePre G k p z ow) (j : Nat) (hj : j < G.gates.size)
    (hjk : j ≠ k) : ¬ reads (G.gate j) ow := by
  intro hr
  have h1 := slots_pos_of_reads _ _ hr
  have h2 := slots_pos_of_reads _ _ f.reads_k
  have := readers_two G ow j k hjk ((h.live_iff j).mpr hj) ((h.live_iff k).mpr f.hk)
  have := h.count ow
  rw [f.one] at this
  omega

theorem FirePre.z_ne (h : SCBase G) (f : FirePre G k p z ow) : z ≠ ow := by
  intro e
  have : 2 ≤ slots ow (G.gate k) := by
    unfold slots
    rcases f.role with ⟨h1, h2⟩ | ⟨h1, h2⟩ <;> simp [h1, h2, e, f.xor]
  have h3 := readers_ge G ow k ((h.live_iff k).mpr f.hk)
  have := h.count ow
  rw [f.one] at this
  omega

theorem FirePre.p_lt (h : SCBase G) (f : FirePre G k p z ow) : p < k := by
  by_cases hle : k ≤ p
  · have := h.wf.topo k p hle ((h.live_iff k).mpr f.hk) ((h.live_iff p).mpr f.hp)
    rw [f.prod] at this
    rcases f.role with ⟨_, h2⟩ | ⟨_, h2⟩
    · exact absurd h2.symm (this.2 (by rw [f.xor]; simp))
    · exact absurd h2.symm this.1
  · omega

/-- the new gate array, field by field -/
theorem fire_fields (h : SCBase G) (f : FirePre G k p z ow) (j : Nat) :
    ((G.fire k p).gate j).op = (G.gate j).op ∧ ((G.fire k p).gate j).a = (G.gate j).a ∧
    ((G.fire k p).gate j).b = (G.gate j).b ∧ ((G.fire k p).gate j).dead = (G.gate j).dead ∧
    ((G.fire k p).gate j).o =
      (if j = k then G.wires.size else if j = p then (G.gate k).o else (G.gate j).o) := by
  have hpk : p ≠ k := by have := f.p_lt h; omega
  rw [gate_fire G k p j f.hk f.hp hpk]
  by_cases hjk : j = k
  · subst hjk; simp
  · by_cases hjp : j = p
    · subst hjp; simp [hjk]
    · simp [hjk, hjp]

theorem fire_live (h : SCBase G) (f : FirePre G k p z ow) (j : Nat) :
    (G.fire k p).live j ↔ j < G.gates.size := by
  unfold live
  rw [fire_gsize, (fire_fields h f j).2.2.2.1]
  exact ⟨fun hh => hh.1, fun hh => ⟨hh, h.allLive j hh⟩⟩

theorem fire_gwf (h : SCBase G) (f : FirePre G k p z ow) : (G.fire k p).GWF := by
  have hpk := f.p_lt h
  have hobk := h.wf.obound k ((h.live_iff k).mpr f.hk)
  refine ⟨by rw [fire_wsize]; have := h.wf.nin; exact Nat.le_succ_of_le this, fun j hj => ?_,
    fun i j hi hj ho => ?_, fun i j hij hi hj => ?_⟩
  · rw [fire_live h f] at hj
    rw [(fire_fields h f j).2.2.2.2, fire_wsize]
    have hnin : (G.fire k p).nIn = G.nIn := rfl
    rw [hnin]
    split
    · exact ⟨h.wf.nin, Nat.lt_succ_self _⟩
    · split
      · exact ⟨hobk.1, Nat.lt_succ_of_lt hobk.2⟩
      · have := h.wf.obound j ((h.live_iff j).mpr hj)
        exact ⟨this.1, Nat.lt_succ_of_lt this.2⟩
  · rw [fire_live h f] at hi hj
    rw [(fire_fields h f i).2.2.2.2, (fire_fields h f j).2.2.2.2] at ho
    have hbi := (h.wf.obound i ((h.live_iff i).mpr hi)).2
    have hbj := (h.wf.obound j ((h.live_iff j).mpr hj)).2
    have hd := fun a b ha hb e => h.wf.odist a b ((h.live_iff a).mpr ha) ((h.live_iff b).mpr hb) e
    have hpk' : ¬ p = k := by omega
    by_cases hik : i = k
    · by_cases hjk : j = k
      · omega
      · rw [if_pos hik, if_neg hjk] at ho
        split at ho <;> omega
    · by_cases hjk : j = k
      · rw [if_neg hik, if_pos hjk] at ho
        split at ho <;> omega
      · rw [if_neg hik, if_neg hjk] at ho
        by_cases hip : i = p
        · by_cases hjp : j = p
          · omega
          · rw [if_pos hip, if_neg hjp] at ho
            have := hd k j f.hk hj ho; omega
        · by_cases hjp : j = p
          · rw [if_neg hip, if_pos hjp] at ho
            have := hd i k hi f.hk ho; omega
          · rw [if_neg hip, if_neg hjp] at ho
            exact hd i j hi hj ho
  · rw [fire_live h f] at hi hj
    obtain ⟨hop, ha, hb, _, _⟩ := fire_fields h f i
    rw [hop, ha, hb, (fire_fields h f j).2.2.2.2]
    have hib := h.ibound i hi
    split
    · exact ⟨by omega, fun hh => by have := hib.2 hh; omega⟩
    · split
      · rename_i hjp
        subst hjp
        exact h.wf.topo i k (by omega) ((h.live_iff i).mpr hi) ((h.live_iff k).mpr f.hk)
      · exact h.wf.topo i j hij ((h.live_iff i).mpr hi) ((h.live_iff j).mpr hj)

/-- The solution of the graph after the firing. -/
theorem fire_gsol (h : SCBase G) (f : FirePre G k p z ow) (x : List Bool) :
    (G.fire k p).GSol x (fireStore (G.evalStore x) ow) := by
  have hs := evalStore_gsol h.wf x
  have hpk := f.p_lt h
  have hobp := h.wf.obound p ((h.live_iff p).mpr f.hp)
  rw [f.prod] at hobp
  have hzow := f.z_ne h
  -- value of the new store
  have hget : ∀ w, (fireStore (G.evalStore x) ow).get w =
      if w = ow then false else (G.evalStore x).get w :=
    fun w => fireStore_get _ _ _ (by rw [hs.size]; exact hobp.2)
  -- old gate equation of k: its output carries the bit of `ow`
  have hk_eq : (G.evalStore x).get (G.gate k).o = (G.evalStore x).get ow := by
    have := hs.sem k ((h.live_iff k).mpr f.hk)
    simp only [gateEq, f.xor, Op.eval] at this
    rw [this]
    rcases f.role with ⟨h1, h2⟩ | ⟨h1, h2⟩
    · rw [h1, h2, f.zval x]; cases (G.evalStore x).get ow <;> rfl
    · rw [h1, h2, f.zval x]; cases (G.evalStore x).get ow <;> rfl
  refine ⟨by rw [fireStore_size, fire_wsize, hs.size], fun w hw => ?_, fun j hj => ?_, fun w hw hno => ?_⟩
  · have hnin : (G.fire k p).nIn = G.nIn := rfl
    rw [hnin] at hw ⊢
    rw [hget, if_neg (by omega)]
    exact hs.inp w hw
  · rw [fire_live h f] at hj
    obtain ⟨hop, ha, hb, _, ho⟩ := fire_fields h f j
    have hsem := hs.sem j ((h.live_iff j).mpr hj)
    simp only [gateEq] at hsem ⊢
    rw [hop, ha, hb, ho]
    by_cases hjk : j = k
    · -- gate k: XOR of two zero bits on the fresh wire
      subst hjk
      simp only [if_true, f.xor, Op.eval]
      rw [hget, hget, hget]
      have hsz : ¬ G.wires.size = ow := by omega
      rcases f.role with ⟨h1, h2⟩ | ⟨h1, h2⟩
      · rw [h1, h2]
        simp only [hsz, if_false, if_true, if_neg hzow, f.zval x]
        simp [Store.get, Array.getD, hs.size]
      · rw [h1, h2]
        simp only [hsz, if_false, if_true, if_neg hzow, f.zval x]
        simp [Store.get, Array.getD, hs.size]
    · rw [if_neg hjk]
      have hnr := f.only_k h j hj hjk
      have hna : (G.gate j).a ≠ ow := fun e => hnr (Or.inl e)
      rw [hget (G.gate j).a, if_neg hna]
      -- the second input
      have hbv : (G.gate j).op.eval ((G.evalStore x).get (G.gate j).a)
            ((fireStore (G.evalStore x) ow).get (G.gate j).b) =
          (G.gate j).op.eval ((G.evalStore x).get (G.gate j).a) ((G.evalStore x).get (G.gate j).b) := by
        by_cases hopi : (G.gate j).op = .inv
        · exact Op.eval_unary _ (by rw [hopi]; rfl) _ _ _
        · have hnb : (G.gate j).b ≠ ow := fun e => hnr (Or.inr ⟨hopi, e⟩)
          rw [hget (G.gate j).b, if_neg hnb]
      rw [hbv, ← hsem]
      by_cases hjp : j = p
      · subst hjp
        rw [if_pos rfl, hget, if_neg (by
          intro e
          -- k's old output is not `ow` (that is p's output, p ≠ k)
          have := h.wf.odist k j ((h.live_iff k).mpr f.hk) ((h.live_iff j).mpr hj) (by rw [e, f.prod])
          omega), hk_eq, f.prod]
      · rw [if_neg hjp, hget, if_neg (by
          intro e
          have := h.wf.odist j p ((h.live_iff j).mpr hj) ((h.live_iff p).mpr f.hp) (by rw [e, f.prod])
          exact hjp this)]
  · have hnin : (G.fire k p).nIn = G.nIn := rfl
    rw [hnin] at hw
    rw [hget]
    split
    · rfl
    · rename_i hwow
      -- nothing in the new graph writes w; then nothing in the old graph did
      by_cases hwf : w = G.wires.size
      · exfalso
        have := hno k ((fire_live h f k).mpr f.hk)
        rw [(fire_fields h f k).2.2.2.2, if_pos rfl] at this
        exact this hwf.symm
      · refine hs.undef w hw (fun j hj => ?_)
        have hj' := (h.live_iff j).mp hj
        have := hno j ((fire_live h f j).mpr hj')
        rw [(fire_fields h f j).2.2.2.2] at this
        by_cases hjk : j = k
        · subst hjk
          -- old output of k is now written by p
          have hp' := hno p ((fire_live h f p).mpr f.hp)
          rw [(fire_fields h f p).2.2.2.2, if_neg (by omega), if_pos rfl] at hp'
          exact hp'
        · rw [if_neg hjk] at this
          by_cases hjp : j = p
          · subst hjp
            rw [f.prod]; exact fun e => hwow e.symm
          · rw [if_neg hjp] at this; exact this

theorem fire_wire_all (G : Graph) (k p w : Nat) : (G.fire k p).wire w = G.wire w := by
  by_cases hw : w < G.wires.size
  · exact fire_wire G k p w hw
  · by_cases hw2 : w = G.wires.size
    · subst hw2
      rw [fire_wire_fresh]
      simp [wire, Array.getD]
      rfl
    · simp only [wire, Array.getD, fire_wsize]
      have h1 : ¬ w < G.wires.size + 1 := by omega
      simp [hw, h1]

theorem rdL_congr (w : Nat) : ∀ (l1 l2 : List BGate), l1.length = l2.length →
    (∀ i, i < l1.length → (l1.getD i default).dead = (l2.getD i default).dead ∧
      (l1.getD i default).op = (l2.getD i default).op ∧ (l1.getD i default).a = (l2.getD i default).a ∧
      (l1.getD i default).b = (l2.getD i default).b) → rdL w l1 = rdL w l2 := by
  intro l1
  induction l1 with
  | nil => intro l2 hl _; cases l2 with | nil => rfl | cons _ _ => simp at hl
  | cons g t ih =>
    intro l2 hl hf
    cases l2 with
    | nil => simp at hl
    | cons g2 t2 =>
      have h0 := hf 0 (by simp)
      simp only [List.getD_cons_zero] at h0
      have := ih t2 (by simpa using hl) (fun i hi => by simpa using hf (i + 1) (by simp; omega))
      simp only [rdL, slots, h0.1, h0.2.1, h0.2.2.1, h0.2.2.2, this]

theorem fire_readers (h : SCBase G) (f : FirePre G k p z ow) (w : Nat) :
    (G.fire k p).readers w = G.readers w := by
  unfold readers
  apply rdL_congr
  · simp [fire_gsize]
  · intro i hi
    rw [← gate_eq_getD, ← gate_eq_getD]
    obtain ⟨h1, h2, h3, h4, _⟩ := fire_fields h f i
    exact ⟨h4, h1, h2, h3⟩

theorem fire_reads (h : SCBase G) (f : FirePre G k p z ow) (j w : Nat) :
    reads ((G.fire k p).gate j) w ↔ reads (G.gate j) w := by
  obtain ⟨h1, h2, h3, _, _⟩ := fire_fields h f j
  unfold reads; rw [h1, h2, h3]

theorem fire_base (h : SCBase G) (f : FirePre G k p z ow) : SCBase (G.fire k p) := by
  refine ⟨fire_gwf h f, fun i hi => ?_, fun i hi => ?_, fun w => ?_, fun w hw j hj => ?_⟩
  · rw [fire_gsize] at hi
    rw [(fire_fields h f i).2.2.2.1]; exact h.allLive i hi
  · rw [fire_gsize] at hi
    obtain ⟨h1, h2, h3, _, _⟩ := fire_fields h f i
    rw [h1, h2, h3, fire_wsize]
    have := h.ibound i hi
    exact ⟨Nat.lt_succ_of_lt this.1, fun hh => Nat.lt_succ_of_lt (this.2 hh)⟩
  · rw [fire_readers h f, fire_wire_all]; exact h.count w
  · rw [fire_gsize] at hj
    rw [fire_reads h f]
    exact h.unread w hw j hj

theorem fire_compute (h : SCBase G) (f : FirePre G k p z ow) (x : List Bool) :
    (G.fire k p).compute x = G.compute x := by
  have hobp := h.wf.obound p ((h.live_iff p).mpr f.hp)
  rw [f.prod] at hobp
  have hs := evalStore_gsol h.wf x
  refine compute_eq_of_sols h.wf (fire_gwf h f) rfl x _ _ hs (fire_gsol h f x) (fun w hw => ?_)
  rw [fireStore_get _ _ _ (by rw [hs.size]; exact hobp.2)]
  have : ¬ w = ow := fun e => h.unread w hw k f.hk (e ▸ f.reads_k)
  rw [if_neg this]

theorem fire_evalStore (h : SCBase G) (f : FirePre G k p z ow) (x : List Bool) (w : Nat) :
    ((G.fire k p).evalStore x).get w = if w = ow then false else (G.evalStore x).get w := by
  have hobp := h.wf.obound p ((h.live_iff p).mpr f.hp)
  rw [f.prod] at hobp
  have hs := evalStore_gsol h.wf x
  have hwf2 := fire_gwf h f
  rw [sol_unique _ _ _ x _ _ hwf2.listWF (evalStore_gsol hwf2 x).sol (fire_gsol h f x).sol w]
  exact fireStore_get _ _ _ (by rw [hs.size]; exact hobp.2)

end Fire

/-! ### the loop -/

/-- Zero annotations on inputs of XOR gates are sound. -/
def VZ (G : Graph) : Prop :=
  ∀ x i, i < G.gates.size → (G.gate i).op = .xor →
    (G.wval (G.gate i).a = .zero → (G.evalStore x).get (G.gate i).a = false) ∧
    (G.wval (G.gate i).b = .zero → (G.evalStore x).get (G.gate i).b = false)

/-- Input-gate pointers (`Wire.gates[0]`): genuine, or pointing at a gate whose
output has fan-out counter 0, or belonging to a wire no gate `≥ k` reads. -/
def Ptr (G : Graph) (k : Nat) : Prop :=
  ∀ w q, (G.wire w).input = some q → q < G.gates.size ∧
    ((G.gate q).o = w ∨ (G.wire (G.gate q).o).numOut = 0 ∨
      ∀ j, k ≤ j → j < G.gates.size → ¬ reads (G.gate j) w)

theorem fire_vz {G : Graph} {k p z ow : Nat} (h : SCBase G) (f : FirePre G k p z ow) (hv : VZ G) :
    VZ (G.fire k p) := by
  intro x i hi hx
  rw [fire_gsize] at hi
  obtain ⟨h1, h2, h3, _, _⟩ := fire_fields h f i
  rw [h1] at hx
  have e : ∀ w, (G.fire k p).wval w = G.wval w := fun w => by simp [wval, fire_wire_all]
  rw [h2, h3, e, e, fire_evalStore h f, fire_evalStore h f]
  have := hv x i hi hx
  constructor
  · intro hz; split
    · rfl
    · exact this.1 hz
  · intro hz; split
    · rfl
    · exact this.2 hz

theorem fire_ptr {G : Graph} {k p z ow m : Nat} (h : SCBase G) (f : FirePre G k p z ow)
    (hm : m ≤ k + 1) (hp : Ptr G m) : Ptr (G.fire k p) (k + 1) := by
  intro w q hin
  rw [fire_wire_all] at hin
  obtain ⟨hq, hcase⟩ := hp w q hin
  rw [fire_gsize]
  refine ⟨hq, ?_⟩
  have hpk := f.p_lt h
  rw [(fire_fields h f q).2.2.2.2, fire_wire_all]
  by_cases hqk : q = k
  · rw [if_pos hqk]
    right; left
    have : G.wire G.wires.size = {} := by simp [wire, Array.getD]; rfl
    rw [this]
  · rw [if_neg hqk]
    by_cases hqp : q = p
    · subst hqp
      rw [if_pos rfl]
      right; right
      rcases hcase with hg | hz | hu
      · intro j hj hjs
        rw [fire_reads h f, ← hg, f.prod]
        exact f.only_k h j hjs (by omega)
      · rw [f.prod, f.one] at hz; omega
      · intro j hj hjs
        rw [fire_reads h f]
        exact hu j (by omega) hjs
    · rw [if_neg hqp]
      rcases hcase with hg | hz | hu
      · exact Or.inl hg
      · exact Or.inr (Or.inl hz)
      · right; right
        intro j hj hjs
        rw [fire_reads h f]
        exact hu j (by omega) hjs

/-- Result of one `if` of the loop body. -/
theorem scTry_spec (G : Graph) (k z other : Nat) (h : SCBase G) (hv : VZ G) (hk : k < G.gates.size)
    (hx : (G.gate k).op = .xor)
    (role : ((G.gate k).a = z ∧ (G.gate k).b = other) ∨ ((G.gate k).b = z ∧ (G.gate k).a = other))
    (hpf : ∀ q, (G.wire other).input = some q → q < G.gates.size ∧
      ((G.gate q).o = other ∨ (G.wire (G.gate q).o).numOut = 0)) :
    G.scTry k z other = G ∨
    ∃ p, (G.wire other).input = some p ∧ FirePre G k p z other ∧ G.scTry k z other = G.fire k p := by
  rw [scTry_eq]
  by_cases hz : G.wval z = .zero
  · rw [if_pos hz]
    cases hin : (G.wire other).input with
    | none => exact Or.inl rfl
    | some p =>
      simp only
      by_cases hn : (G.wire (G.gate p).o).numOut = 1
      · rw [if_pos hn]
        right
        obtain ⟨hp, hg⟩ := hpf p hin
        have hgen : (G.gate p).o = other := by
          rcases hg with hg | hg
          · exact hg
          · omega
        refine ⟨p, rfl, ⟨hk, hp, hx, role, hgen, by rw [← hgen]; exact hn, fun x => ?_⟩, rfl⟩
        rcases role with ⟨h1, _⟩ | ⟨h1, _⟩
        · rw [← h1]; exact (hv x k hk hx).1 (by rw [h1]; exact hz)
        · rw [← h1]; exact (hv x k hk hx).2 (by rw [h1]; exact hz)
      · rw [if_neg hn]; exact Or.inl rfl
  · rw [if_neg hz]; exact Or.inl rfl

/-- Loop invariant of `ShortCircuitXORZero` before gate `k` is processed. -/
structure SCInv (G : Graph) (k : Nat) : Prop where
  base : SCBase G
  vz   : VZ G
  ptr  : Ptr G k

theorem Ptr.mono {G : Graph} {k m : Nat} (h : Ptr G k) (hkm : k ≤ m) : Ptr G m := by
  intro w q hin
  obtain ⟨hq, hc⟩ := h w q hin
  refine ⟨hq, ?_⟩
  rcases hc with hc | hc | hc
  · exact Or.inl hc
  · exact Or.inr (Or.inl hc)
  · exact Or.inr (Or.inr (fun j hj hjs => hc j (by omega) hjs))

/-- What the loop carries from one graph to the next. -/
structure SCRel (G G' : Graph) : Prop where
  gsize : G'.gates.size = G.gates.size
  outs  : G'.outputs = G.outputs
  comp  : ∀ x, G'.compute x = G.compute x

theorem SCRel.refl (G : Graph) : SCRel G G := ⟨rfl, rfl, fun _ => rfl⟩
theorem SCRel.trans {G G' G'' : Graph} (a : SCRel G G') (b : SCRel G' G'') : SCRel G G'' :=
  ⟨b.gsize.trans a.gsize, b.outs.trans a.outs, fun x => (b.comp x).trans (a.comp x)⟩

theorem fire_rel {G : Graph} {k p z ow : Nat} (h : SCBase G) (f : FirePre G k p z ow) :
    SCRel G (G.fire k p) := ⟨fire_gsize G k p, rfl, fire_compute h f⟩

/-- pointer fact for an input of gate `k`, from `Ptr G k` -/
theorem Ptr.of_read {G : Graph} {k : Nat} (h : Ptr G k) (hk : k < G.gates.size) (w : Nat)
    (hr : reads (G.gate k) w) (q : Nat) (hin : (G.wire w).input = some q) :
    q < G.gates.size ∧ ((G.gate q).o = w ∨ (G.wire (G.gate q).o).numOut = 0) := by
  obtain ⟨hq, hc⟩ := h w q hin
  refine ⟨hq, ?_⟩
  rcases hc with hc | hc | hc
  · exact Or.inl hc
  · exact Or.inr hc
  · exact absurd hr (hc k (Nat.le_refl k) hk)

theorem scStep_spec (G : Graph) (k : Nat) (h : SCInv G k) (hk : k < G.gates.size) :
    SCInv (G.scStep k) (k + 1) ∧ SCRel G (G.scStep k) := by
  unfold scStep
  by_cases hx : (G.gate k).op = .xor
  · rw [if_neg (by simp [hx])]
    simp only
    have hxi : (G.gate k).op ≠ .inv := by rw [hx]; simp
    have hra : reads (G.gate k) (G.gate k).a := Or.inl rfl
    have hrb : reads (G.gate k) (G.gate k).b := Or.inr ⟨hxi, rfl⟩
    rcases scTry_spec G k (G.gate k).a (G.gate k).b h.base h.vz hk hx (Or.inl ⟨rfl, rfl⟩)
        (fun q hin => h.ptr.of_read hk _ hrb q hin) with e1 | ⟨p1, hin1, f1, e1⟩
    · -- first `if` does not fire
      rw [e1]
      rcases scTry_spec G k (G.gate k).b (G.gate k).a h.base h.vz hk hx (Or.inr ⟨rfl, rfl⟩)
          (fun q hin => h.ptr.of_read hk _ hra q hin) with e2 | ⟨p2, hin2, f2, e2⟩
      · rw [e2]; exact ⟨⟨h.base, h.vz, h.ptr.mono (Nat.le_succ k)⟩, SCRel.refl G⟩
      · rw [e2]
        exact ⟨⟨fire_base h.base f2, fire_vz h.base f2 h.vz, fire_ptr h.base f2 (Nat.le_succ k) h.ptr⟩,
          fire_rel h.base f2⟩
    · -- first `if` fires
      rw [e1]
      have hb1 := fire_base h.base f1
      have hv1 := fire_vz h.base f1 h.vz
      have hp1 := fire_ptr h.base f1 (Nat.le_succ k) h.ptr
      have hr1 := fire_rel h.base f1
      obtain ⟨fop, fa, fb, _, fo⟩ := fire_fields h.base f1 k
      have hk1 : k < (G.fire k p1).gates.size := by rw [fire_gsize]; exact hk
      have hpk := f1.p_lt h.base
      rw [fa, fb]
      rcases scTry_spec (G.fire k p1) k (G.gate k).b (G.gate k).a hb1 hv1 hk1 (by rw [fop]; exact hx)
          (Or.inr ⟨fb, fa⟩) (fun q hin => by
            rw [fire_wire_all] at hin
            obtain ⟨hq, hc⟩ := h.ptr.of_read hk _ hra q hin
            rw [fire_gsize]
            refine ⟨hq, ?_⟩
            rw [(fire_fields h.base f1 q).2.2.2.2, fire_wire_all]
            rcases hc with hg | hz
            · -- genuine pointer: q is neither p1 nor k
              have hqp : q ≠ p1 := by
                intro e; subst e
                rw [f1.prod] at hg
                exact f1.z_ne h.base hg.symm
              have hqk : q ≠ k := by
                intro e; subst e
                exact (h.base.wf.topo q q (Nat.le_refl q) ((h.base.live_iff q).mpr hk)
                  ((h.base.live_iff q).mpr hk)).1 hg
              rw [if_neg hqk, if_neg hqp]; exact Or.inl hg
            · by_cases hqk : q = k
              · rw [if_pos hqk]
                right
                have : G.wire G.wires.size = {} := by simp [wire, Array.getD]; rfl
                rw [this]
              · rw [if_neg hqk]
                by_cases hqp : q = p1
                · subst hqp
                  rw [f1.prod, f1.one] at hz; omega
                · rw [if_neg hqp]; exact Or.inr hz) with e2 | ⟨p2, hin2, f2, e2⟩
      · rw [e2]; exact ⟨⟨hb1, hv1, hp1⟩, hr1⟩
      · rw [e2]
        refine ⟨⟨fire_base hb1 f2, fire_vz hb1 f2 hv1, fire_ptr hb1 f2 (Nat.le_refl _) hp1⟩,
          hr1.trans (fire_rel hb1 f2)⟩
  · rw [if_pos hx]
    exact ⟨⟨h.base, h.vz, h.ptr.mono (Nat.le_succ k)⟩, SCRel.refl G⟩

theorem scLoop_spec : ∀ (n k : Nat) (G : Graph), SCInv G k → k + n = G.gates.size →
    SCRel G ((List.range' k n).foldl scStep G) ∧ SCBase ((List.range' k n).foldl scStep G) := by
  intro n
  induction n with
  | zero => intro k G h _; exact ⟨SCRel.refl G, h.base⟩
  | succ n ih =>
    intro k G h hkn
    simp only [List.range'_succ, List.foldl_cons]
    obtain ⟨hi, hr⟩ := scStep_spec G k h (by omega)
    obtain ⟨hr2, hb2⟩ := ih (k + 1) (G.scStep k) hi (by rw [hr.gsize]; omega)
    exact ⟨hr.trans hr2, hb2⟩

/-- **`ShortCircuitXORZero` preserves the function of the graph**, for every
well-formed graph (single assignment, weakly topological, no dead gate,
fan-out counters not below the real fan-out, outputs unread, sound Zero
annotations on XOR inputs, sound input-gate pointers) and every input. -/
theorem shortCircuitXORZero_preserves (G : Graph) (h : SCInv G 0) :
    SCBase G.shortCircuitXORZero ∧ ∀ x, G.shortCircuitXORZero.compute x = G.compute x := by
  unfold shortCircuitXORZero
  rw [List.range_eq_range']
  obtain ⟨hr, hb⟩ := scLoop_spec G.gates.size 0 G h (by omega)
  exact ⟨hb, hr.comp⟩

end Graph
end Mpc

/-
C09: `Graph.shortCircuitXORZero` (model of `Compiler.ShortCircuitXORZero`)
preserves the input-to-output function of every well-formed builder graph.

One firing of the rule on the gate `k = XOR(z, ow)` with `z` of value Zero,
`ow` produced by gate `p` and used by `k` only (fan-out counter 1):
gate `p` now writes `k`'s old output wire `y`, gate `k` writes a fresh wire.
-/
import MpcVerif.Proofs.PassPrune

set_option linter.unusedSimpArgs false
set_option linter.unusedVariables false

namespace Mpc
namespace Graph

/-- The effect of one firing. -/
def fire (G : Graph) (k p : Nat) : Graph :=
  ((G.setO p (G.gate k).o).freshWire.1).setO k G.wires.size

theorem scTry_eq (G : Graph) (i z other : Nat) :
    G.scTry i z other =
      if G.wval z = .zero then
        match (G.wire other).input with
        | none => G
        | some p => if (G.wire (G.gate p).o).numOut = 1 then G.fire i p else G
      else G := by
  unfold scTry
  by_cases hz : G.wval z = .zero
  · simp only [hz, if_true]
    cases hin : (G.wire other).input with
    | none => rfl
    | some p =>
      simp only
      by_cases hn : (G.wire (G.gate p).o).numOut = 1
      · simp only [hn, if_true]; rfl
      · simp only [hn, if_false]
  · simp only [hz, if_false]

/-- `g` reads wire `w`. -/
def reads (g : BGate) (w : Nat) : Prop := g.a = w ∨ (g.op ≠ .inv ∧ g.b = w)

theorem slots_pos_of_reads (g : BGate) (w : Nat) (h : reads g w) : 1 ≤ slots w g := by
  unfold slots
  rcases h with h | ⟨h1, h2⟩
  · simp [h]
  · simp [h1, h2]

theorem rdL_ge (w : Nat) : ∀ (l : List BGate) (i : Nat), i < l.length → (l.getD i default).dead = false →
    slots w (l.getD i default) ≤ rdL w l := by
  intro l
  induction l with
  | nil => intro i hi; simp at hi
  | cons g t ih =>
    intro i hi hd
    cases i with
    | zero =>
      simp only [List.getD_cons_zero] at hd ⊢
      simp only [rdL, hd, Bool.false_eq_true, if_false]; omega
    | succ i =>
      simp only [List.getD_cons_succ] at hd ⊢
      have := ih i (by simp at hi; omega) hd
      simp only [rdL]; omega

/-- two different live gates reading `w`, or one gate reading it twice, give fan-out ≥ 2 -/
theorem rdL_two (w : Nat) : ∀ (l : List BGate) (i j : Nat), i < j → j < l.length →
    (l.getD i default).dead = false → (l.getD j default).dead = false →
    slots w (l.getD i default) + slots w (l.getD j default) ≤ rdL w l := by
  intro l
  induction l with
  | nil => intro i j _ hj; simp at hj
  | cons g t ih =>
    intro i j hij hj hdi hdj
    cases j with
    | zero => omega
    | succ j =>
      simp only [List.getD_cons_succ] at hdj ⊢
      cases i with
      | zero =>
        simp only [List.getD_cons_zero] at hdi ⊢
        have := rdL_ge w t j (by simp at hj; omega) hdj
        simp only [rdL, hdi, Bool.false_eq_true, if_false]; omega
      | succ i =>
        simp only [List.getD_cons_succ] at hdi ⊢
        have := ih i j (by omega) (by simp at hj; omega) hdi hdj
        simp only [rdL]; omega

theorem readers_ge (G : Graph) (w i : Nat) (hi : G.live i) : slots w (G.gate i) ≤ G.readers w := by
  have := rdL_ge w G.gates.toList i (by simpa using hi.1) (by rw [← gate_eq_getD]; exact hi.2)
  rwa [← gate_eq_getD] at this

theorem readers_two (G : Graph) (w i j : Nat) (hij : i ≠ j) (hi : G.live i) (hj : G.live j) :
    slots w (G.gate i) + slots w (G.gate j) ≤ G.readers w := by
  rcases Nat.lt_or_gt_of_ne hij with h | h
  · have := rdL_two w G.gates.toList i j h (by simpa using hj.1) (by rw [← gate_eq_getD]; exact hi.2)
      (by rw [← gate_eq_getD]; exact hj.2)
    rwa [← gate_eq_getD, ← gate_eq_getD] at this
  · have := rdL_two w G.gates.toList j i h (by simpa using hi.1) (by rw [← gate_eq_getD]; exact hj.2)
      (by rw [← gate_eq_getD]; exact hi.2)
    rw [← gate_eq_getD, ← gate_eq_getD] at this
    unfold readers
    omega

/-! ### accessors of `fire` -/

theorem gate_setO (G : Graph) (i w j : Nat) :
    (G.setO i w).gate j = if j = i ∧ i < G.gates.size then { G.gate i with o := w } else G.gate j := by
  simp only [gate, setO, getD_modify]

theorem gate_fire (G : Graph) (k p j : Nat) (hk : k < G.gates.size) (hp : p < G.gates.size) (hpk : p ≠ k) :
    (G.fire k p).gate j =
      if j = k then { G.gate k with o := G.wires.size }
      else if j = p then { G.gate p with o := (G.gate k).o }
      else G.gate j := by
  have e1 : ∀ m, ((G.setO p (G.gate k).o).freshWire.1).gate m = (G.setO p (G.gate k).o).gate m := fun m => rfl
  have hsz : ((G.setO p (G.gate k).o).freshWire.1).gates.size = G.gates.size := by simp [freshWire, setO]
  unfold fire
  rw [gate_setO, hsz, e1, gate_setO, e1, gate_setO]
  by_cases hjk : j = k
  · subst hjk
    have : ¬ (j = p ∧ p < G.gates.size) := fun h => hpk h.1.symm
    simp [hk, this]
  · by_cases hjp : j = p
    · subst hjp; simp [hjk, hp]
    · simp [hjk, hjp]

theorem fire_gsize (G : Graph) (k p : Nat) : (G.fire k p).gates.size = G.gates.size := by
  simp [fire, setO, freshWire]

theorem fire_wsize (G : Graph) (k p : Nat) : (G.fire k p).wires.size = G.wires.size + 1 := by
  simp [fire, setO, freshWire]

theorem fire_hdr (G : Graph) (k p : Nat) :
    (G.fire k p).nIn = G.nIn ∧ (G.fire k p).zero = G.zero ∧ (G.fire k p).one = G.one ∧
    (G.fire k p).outputs = G.outputs := ⟨rfl, rfl, rfl, rfl⟩

theorem fire_wire (G : Graph) (k p w : Nat) (hw : w < G.wires.size) : (G.fire k p).wire w = G.wire w := by
  simp only [fire, setO, freshWire, wire, Array.getD_eq_getD_getElem?]
  rw [Array.getElem?_push_lt hw]
  simp [hw]

theorem fire_wire_fresh (G : Graph) (k p : Nat) : (G.fire k p).wire G.wires.size = {} := by
  simp only [fire, setO, freshWire, wire, Array.getD_eq_getD_getElem?]
  rw [Array.getElem?_push_size]
  rfl

end Graph
end Mpc

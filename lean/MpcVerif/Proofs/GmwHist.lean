/-
C10: histories of `Network.Run` calls on one Network (`Model/GmwHist.lean`).

`runFrom_correct`: from ANY state between two runs (ids in order, `nw.triples`
cleared, pools with `L` valid words, arbitrary stale wire stores of one common
size) a run of a single-assignment circuit without OR gates returns, leaves
such a state again with `needW` words fewer, reconstructs `plainEval` on every
wire the circuit defines and – when the output wires are defined – gives every
party `Circuit.compute`.  `hist_correct` folds it over a list of calls.
-/
import MpcVerif.Proofs.GmwRun
import MpcVerif.Model.GmwHist

set_option linter.unusedSimpArgs false
set_option linter.unusedVariables false

namespace Mpc.Gmw
open Mpc

/-! ### the stale wire store -/

theorem sget_mkA (n : Nat) (f : Nat → Bool) (i : Nat) :
    Store.get (mkA n f) i = if i < n then f i else false := by
  by_cases h : i < n
  · simp [Store.get, mkA, Array.getD, h]
  · simp [Store.get, mkA, Array.getD, h]

theorem sget_of_size_le (w : Store Bool) (i : Nat) (h : w.size ≤ i) : w.get i = false := by
  have : ¬ i < w.size := by omega
  simp [Store.get, Array.getD, this]

theorem growWires_size (w : Store Bool) (n : Nat) : (growWires w n).size = max w.size n := by
  unfold growWires
  split
  · next h => omega
  · next h => rw [mkA_size]; omega

/-- growing keeps every bit (beyond the old size the `big.Int` reads 0) -/
theorem growWires_get (w : Store Bool) (n i : Nat) : (growWires w n).get i = w.get i := by
  unfold growWires
  split
  · rfl
  · next h =>
    rw [sget_mkA]
    split
    · rfl
    · next hi => rw [sget_of_size_le w i (by omega)]

/-! ### input sharing on top of a stale store -/

theorem shareInputsFrom_eq (w0 : Store Bool) (sizes : List Nat) (x : Nat → Nat) (rnd : Nat → Nat → Nat) (p : Nat) :
    shareInputsFrom w0 sizes x rnd p =
      setWires (recvFold sizes rnd p w0 sizes.length) (argOfs sizes p) (sizes.getD p 0)
        (sharedOf sizes rnd p ^^^ x p) := rfl

theorem shareInputs_from_zero (N : Nat) (sizes : List Nat) (x : Nat → Nat) (rnd : Nat → Nat → Nat) (p : Nat) :
    shareInputs N sizes x rnd p = shareInputsFrom (Array.replicate N false) sizes x rnd p := rfl

theorem shareInputsFrom_size (w0 : Store Bool) (sizes : List Nat) (x : Nat → Nat) (rnd : Nat → Nat → Nat) (p : Nat) :
    (shareInputsFrom w0 sizes x rnd p).size = w0.size := by
  rw [shareInputsFrom_eq, setWires_size, recvFold_size]

/-- what the receive loop stores on the argument wires of the other parties,
whatever the store held before -/
theorem recvFold_get_from (sizes : List Nat) (rnd : Nat → Nat → Nat) (p : Nat) (w0 : Store Bool)
    (hN : sizes.sum ≤ w0.size) : ∀ m, m ≤ sizes.length →
    ∀ q i, q < m → q ≠ p → i < sizes.getD q 0 →
      (recvFold sizes rnd p w0 m).get (argOfs sizes q + i) = (rnd q p).testBit i := by
  intro m
  induction m with
  | zero => intro _ q i hq; omega
  | succ m ih =>
    intro hm q i hq hqp hi
    have hbound : argOfs sizes m + sizes.getD m 0 ≤ w0.size := by
      rw [← argOfs_succ]
      have := argOfs_mono sizes (m + 1) sizes.length hm
      rw [argOfs_length] at this; omega
    rw [recvFold_succ]
    by_cases hmp : m = p
    · rw [if_pos hmp]
      exact ih (by omega) q i (by omega) hqp hi
    · rw [if_neg hmp]
      have hsz : argOfs sizes m + sizes.getD m 0 ≤ (recvFold sizes rnd p w0 m).size := by
        rw [recvFold_size]; exact hbound
      rw [setWires_get _ _ _ _ _ hsz]
      by_cases hqm : q = m
      · subst hqm
        have : argOfs sizes q ≤ argOfs sizes q + i ∧ argOfs sizes q + i < argOfs sizes q + sizes.getD q 0 := by omega
        rw [if_pos this, Nat.add_sub_cancel_left]
      · have h1 : argOfs sizes (q + 1) ≤ argOfs sizes m := argOfs_mono sizes (q + 1) m (by omega)
        rw [argOfs_succ] at h1
        have : ¬ (argOfs sizes m ≤ argOfs sizes q + i ∧ argOfs sizes q + i < argOfs sizes m + sizes.getD m 0) := by omega
        rw [if_neg this]
        exact ih (by omega) q i (by omega) hqp hi

/-- after input sharing the argument wires hold the shares of THIS run,
whatever an earlier run left there -/
theorem shareInputsFrom_get (w0 : Store Bool) (sizes : List Nat) (x : Nat → Nat) (rnd : Nat → Nat → Nat) (p : Nat)
    (hp : p < sizes.length) (hN : sizes.sum ≤ w0.size) :
    ∀ q i, q < sizes.length → i < sizes.getD q 0 →
      (shareInputsFrom w0 sizes x rnd p).get (argOfs sizes q + i) =
        if q = p then (sharedOf sizes rnd p ^^^ x p).testBit i else (rnd q p).testBit i := by
  have hbound : argOfs sizes p + sizes.getD p 0 ≤ (recvFold sizes rnd p w0 sizes.length).size := by
    rw [recvFold_size, ← argOfs_succ]
    have := argOfs_mono sizes (p + 1) sizes.length hp
    rw [argOfs_length] at this
    omega
  intro q i hq hi
  rw [shareInputsFrom_eq, setWires_get _ _ _ _ _ hbound]
  by_cases hqp : q = p
  · subst hqp
    have : argOfs sizes q ≤ argOfs sizes q + i ∧ argOfs sizes q + i < argOfs sizes q + sizes.getD q 0 := by omega
    rw [if_pos this, Nat.add_sub_cancel_left, if_pos rfl]
  · rw [if_neg hqp]
    have : ¬ (argOfs sizes p ≤ argOfs sizes q + i ∧ argOfs sizes q + i < argOfs sizes p + sizes.getD p 0) := by
      rcases Nat.lt_or_gt_of_ne hqp with h | h
      · have := argOfs_mono sizes (q + 1) p h
        rw [argOfs_succ] at this; omega
      · have := argOfs_mono sizes (p + 1) q h
        rw [argOfs_succ] at this; omega
    rw [if_neg this]
    exact recvFold_get_from sizes rnd p w0 hN sizes.length (Nat.le_refl _) q i hq hqp hi

/-- The parties after the input sharing of a run started from `ps`. -/
def startParties (c : Circuit) (sizes : List Nat) (x : Nat → Nat) (rnd : Nat → Nat → Nat) (ps : List Party) :
    List Party :=
  ps.map fun p => { p with wires := shareInputsFrom (growWires p.wires c.numWires) sizes x rnd p.id }

/-- the plain store the shares reconstruct to after input sharing: the
inputs of this run on the input wires, the reconstruction of whatever the
earlier runs left on all other wires -/
def startStore (N : Nat) (ps0 : List Party) : Store Bool := mkA N fun w => recon ps0 w

theorem sim_start (N : Nat) (ps0 : List Party) (hsz : ∀ p ∈ ps0, p.wires.size = N) :
    Sim N ps0 (startStore N ps0) := by
  refine ⟨mkA_size _ _, hsz, ?_⟩
  intro w
  unfold startStore
  rw [sget_mkA]
  split
  · rfl
  · next h =>
    rw [recon_def]
    have e : (ps0.map fun p => p.wires.get w) = ps0.map fun _ => false := by
      apply List.map_congr_left
      intro p hp
      exact sget_of_size_le _ _ (by rw [hsz p hp]; omega)
    rw [e, xorB_map_false]

theorem startParties_mem_size (c : Circuit) (sizes : List Nat) (x : Nat → Nat) (rnd : Nat → Nat → Nat)
    (ps : List Party) (M : Nat) (hsz : ∀ p ∈ ps, p.wires.size = M) :
    ∀ p ∈ startParties c sizes x rnd ps, p.wires.size = max M c.numWires := by
  intro q hq
  simp only [startParties, List.mem_map] at hq
  obtain ⟨p, hp, rfl⟩ := hq
  simp only []
  rw [shareInputsFrom_size, growWires_size, hsz p hp]

/-- input wires of the start store carry the inputs of this run -/
theorem startStore_inputs (c : Circuit) (sizes : List Nat) (x : Nat → Nat) (rnd : Nat → Nat → Nat)
    (ps : List Party) (xs : List Bool) (M : Nat) (hid : Ids sizes.length ps) (hsz : ∀ p ∈ ps, p.wires.size = M)
    (hx : InputsOf sizes x xs) (hN : sizes.sum ≤ c.numWires) (w : Nat) (hw : w < sizes.sum) :
    (startStore (max M c.numWires) (startParties c sizes x rnd ps)).get w = xs.getD w false := by
  unfold startStore
  rw [sget_mkA, if_pos (by omega)]
  obtain ⟨q, i, hq, hi, rfl⟩ := argOfs_locate sizes sizes.length (Nat.le_refl _) w (by rw [argOfs_length]; exact hw)
  rw [hx q i hq hi, recon_def]
  have e : (startParties c sizes x rnd ps).map (fun p => p.wires.get (argOfs sizes q + i)) =
      (List.range sizes.length).map fun p =>
        if p = q then (sharedOf sizes rnd q ^^^ x q).testBit i else (rnd q p).testBit i := by
    rw [← hid, List.map_map]
    simp only [startParties, List.map_map]
    apply List.map_congr_left
    intro p hp
    have hpid : p.id < sizes.length := by
      have : p.id ∈ ps.map (·.id) := List.mem_map_of_mem hp
      rw [hid] at this
      exact List.mem_range.mp this
    simp only [Function.comp]
    rw [shareInputsFrom_get _ sizes x rnd p.id hpid
      (by rw [growWires_size]; omega) q i hq hi]
    by_cases h : p.id = q
    · subst h; simp
    · have : ¬ q = p.id := fun e => h e.symm
      simp [h, this]
  rw [e, xorB_special _ _ q _ hq, Nat.testBit_xor, testBit_sharedOf]
  cases xorB ((List.range sizes.length).map fun p => if p = q then false else (rnd q p).testBit i) <;>
    cases (x q).testBit i <;> rfl

/-! ### the level loop on a store larger than the circuit -/

theorem wfFrom_mono (n N : Nat) (h : n ≤ N) : ∀ (gs : List Gate) (d : Nat → Bool),
    wfFrom n gs d = true → wfFrom N gs d = true := by
  intro gs
  induction gs with
  | nil => intro d _; rfl
  | cons g gs ih =>
    intro d hwf
    simp only [wfFrom, Bool.and_eq_true, Bool.or_eq_true, Bool.not_eq_true', decide_eq_true_eq] at hwf ⊢
    obtain ⟨⟨⟨⟨⟨hd0, hd1⟩, hlt0⟩, hlt1⟩, hlto⟩, hwf'⟩ := hwf
    refine ⟨⟨⟨⟨⟨hd0, hd1⟩, by omega⟩, ?_⟩, by omega⟩, ih _ hwf'⟩
    rcases hlt1 with h1 | h1
    · exact Or.inl h1
    · exact Or.inr (by omega)

theorem ssa_mono (n N : Nat) (h : n ≤ N) (gs : List Gate) (d : Nat → Bool) (hs : SSA n gs d) : SSA N gs d :=
  ⟨wfFrom_mono n N h gs d hs.1, hs.2.1, hs.2.2⟩

theorem blockOK_mono (n N : Nat) (h : n ≤ N) (b : List Gate × List Gate) (hb : BlockOK n b) : BlockOK N b :=
  ⟨fun g hg => ⟨(hb.1 g hg).1, by have := (hb.1 g hg).2; omega⟩,
    fun g hg => ⟨(hb.2.1 g hg).1, by have := (hb.2.1 g hg).2; omega⟩, hb.2.2.1, hb.2.2.2⟩

/-- Evaluating the schedule of `Network.run` on ANY store that carries the
inputs on the input wires gives `plainEval` on every wire the circuit
defines – whatever the other wires held before (stale bits of earlier runs,
also beyond `numWires`). -/
theorem schedule_defined (c : Circuit) (hssa : SSA c.numWires c.gates c.inputDefined) (hfit : c.nIn ≤ c.numWires)
    (xs : List Bool) (N : Nat) (hN : c.numWires ≤ N) (S0 : Store Bool) (hS : S0.size = N)
    (hin : ∀ w, w < c.nIn → S0.get w = xs.getD w false) :
    ∀ w, c.defined w = true → (evalPlainGates (schedule c) S0).get w = (c.plainEval xs).get w := by
  have hssaS : SSA N (schedule c) c.inputDefined := ssa_mono _ _ hN _ _ (schedule_ssa c hssa)
  obtain ⟨hkT, hsemT⟩ := ssa_sem N (schedule c) c.inputDefined S0 hS hssaS
  have hI : (initStore c.numWires false (xs.take c.nIn)).size = c.numWires := by simp [initStore]
  obtain ⟨hkP, hsemP⟩ := ssa_sem c.numWires c.gates c.inputDefined _ hI hssa
  have hp := schedule_perm c hssa
  intro w hw
  refine sem_agree c.numWires _ _ c.gates c.inputDefined hssa.1
    (fun g hg => hsemT g (hp.mem_iff.mpr hg)) hsemP ?_ w hw
  intro w' hw'
  have hlt : w' < c.nIn := by simpa [Circuit.inputDefined] using hw'
  change (evalPlainGates (schedule c) S0).get w' = (c.plainEval xs).get w'
  unfold Circuit.plainEval
  rw [hkT w' hw', hkP w' hw', hin w' hlt, get_initStore _ _ _ (by omega)]
  simp only [List.getD_eq_getElem?_getD, List.getElem?_take_of_lt hlt]

/-! ### stream position of the pools -/

/-- the unconsumed triples of every party, in stream order -/
def poolViews (ps : List Party) : List (List (Word × Word × Word)) := ps.map fun p => p.pool.view

theorem andStep_pool (batch : List Gate) (ps ps' : List Party) (h : andStep batch ps = some ps')
    (hwf : ∀ p ∈ ps, p.pool.WF) :
    (∀ p ∈ ps', p.pool.WF) ∧ poolViews ps' = (poolViews ps).map (·.drop ((batch.length + 63) / 64)) := by
  unfold andStep at h
  by_cases he : batch.isEmpty = true
  · rw [if_pos he] at h
    cases Option.some.inj h
    have : batch = [] := List.isEmpty_iff.mp he
    subst this
    refine ⟨hwf, ?_⟩
    simp [poolViews]
  · rw [if_neg he] at h
    simp only [] at h
    split at h
    · exact absurd h (by simp)
    · cases Option.some.inj h
      constructor
      · intro q hq
        simp only [List.mem_map] at hq
        obtain ⟨q1, ⟨p, hp, rfl⟩, rfl⟩ := hq
        exact pool_append_WF_snd p.trip p.pool batch.length (hwf p hp)
      · simp only [poolViews, List.map_map]
        apply List.map_congr_left
        intro p hp
        simp only [Function.comp]
        rw [pool_append_view_snd p.trip p.pool batch.length (hwf p hp)]
        by_cases hk : (batch.length + 63) / 64 ≤ p.pool.words
        · rw [Nat.min_eq_left hk]
        · rw [Nat.min_eq_right (by omega), List.drop_of_length_le (by rw [length_view]; omega),
            List.drop_of_length_le (by rw [length_view]; omega)]

theorem runBlocks_pool : ∀ (bs : List (List Gate × List Gate)) (ps ps' : List Party),
    runBlocks bs ps = some ps' → (∀ p ∈ ps, p.pool.WF) →
    poolViews ps' = (poolViews ps).map (·.drop (needW bs)) := by
  intro bs
  induction bs with
  | nil =>
    intro ps ps' h _
    cases Option.some.inj h
    simp [poolViews, needW]
  | cons b bs ih =>
    intro ps ps' h hwf
    obtain ⟨rest, ands⟩ := b
    simp only [runBlocks] at h
    split at h
    · exact absurd h (by simp)
    · next ps2 h2 =>
      have hwf1 : ∀ p ∈ ps.map (fun p => ({ p with wires := rest.foldl (fun w g => evalRest p.id g w) p.wires } : Party)),
          p.pool.WF := by
        intro q hq
        simp only [List.mem_map] at hq
        obtain ⟨p, hp, rfl⟩ := hq
        exact hwf p hp
      obtain ⟨hwf2, hv2⟩ := andStep_pool ands _ ps2 h2 hwf1
      rw [ih ps2 ps' h hwf2, hv2]
      simp only [poolViews, List.map_map, needW, List.map_cons, List.sum_cons]
      apply List.map_congr_left
      intro p _
      simp only [Function.comp, List.drop_drop]

theorem runFrom_eq (c : Circuit) (sizes : List Nat) (x : Nat → Nat) (rnd : Nat → Nat → Nat) (ps ps1 : List Party)
    (hsup : c.gates.all supported = true)
    (h : runBlocks (blocks c) (startParties c sizes x rnd ps) = some ps1) :
    runFrom c sizes x rnd ps =
      .ok ps1 (ps1.map fun p => outOpen p.id (c.outputs p.wires) (ps1.map fun p => (p.id, c.outputs p.wires))) := by
  unfold runFrom
  simp only [hsup, Bool.not_true, Bool.false_eq_true, if_false]
  unfold startParties at h
  rw [h]

/-- **One `Run` from any state between two runs.** -/
theorem runFrom_correct (c : Circuit) (sizes : List Nat) (x : Nat → Nat) (rnd : Nat → Nat → Nat) (ps : List Party)
    (xs : List Bool) (L M : Nat) (hok : RunOK c sizes) (hx : InputsOf sizes x xs)
    (hst : St sizes.length L ps) (hsz : ∀ p ∈ ps, p.wires.size = M) (hL : needW (blocks c) ≤ L) :
    ∃ ps' outs, runFrom c sizes x rnd ps = .ok ps' outs ∧ St sizes.length (L - needW (blocks c)) ps' ∧
      (∀ p ∈ ps', p.wires.size = max M c.numWires) ∧ outs.length = sizes.length ∧
      (∀ w, c.defined w = true → recon ps' w = (c.plainEval xs).get w) ∧
      (c.outputsDefined = true → ∀ o ∈ outs, o = c.compute xs) ∧
      poolViews ps' = (poolViews ps).map (·.drop (needW (blocks c))) := by
  have hsup : c.gates.all supported = true := by
    simp only [List.all_eq_true, supported, bne_iff_ne]
    exact hok.noOr
  have hfit : sizes.sum ≤ c.numWires := by rw [← hok.nIn]; exact hok.fits
  have hst0 : St sizes.length L (startParties c sizes x rnd ps) := St_wires hst _
  have hsz0 := startParties_mem_size c sizes x rnd ps M hsz
  have hsim0 := sim_start (max M c.numWires) _ hsz0
  have hblk : ∀ b ∈ blocks c, BlockOK (max M c.numWires) b := fun b hb =>
    blockOK_mono _ _ (Nat.le_max_right _ _) b (blocks_ok c sizes hok b hb)
  obtain ⟨ps1, hrun, hst1, hsim1⟩ := sim_blocks hok.parties (blocks c) _ _ L hst0 hsim0 hblk hL
  have hrec : ∀ w, c.defined w = true → recon ps1 w = (c.plainEval xs).get w := by
    intro w hw
    rw [hsim1.2.2 w]
    refine schedule_defined c hok.ssa hok.fits xs _ (Nat.le_max_right _ _) _ (mkA_size _ _) ?_ w hw
    intro w' hw'
    exact startStore_inputs c sizes x rnd ps xs M hst.ids hsz hx hfit w' (by rw [← hok.nIn]; exact hw')
  have hpv : poolViews ps1 = (poolViews ps).map (·.drop (needW (blocks c))) := by
    have hwf0 : ∀ p ∈ startParties c sizes x rnd ps, p.pool.WF := fun p hp => (hst0.pwf p hp).1
    rw [runBlocks_pool (blocks c) _ ps1 hrun hwf0]
    simp only [poolViews, startParties, List.map_map]
    rfl
  refine ⟨ps1, _, runFrom_eq c sizes x rnd ps ps1 hsup hrun, hst1, hsim1.2.1, by simp [ids_length hst1.ids], hrec, ?_,
    hpv⟩
  intro hod o ho
  simp only [List.mem_map] at ho
  obtain ⟨p, hp, rfl⟩ := ho
  have := out_all hst1.ids (List.range c.nOut) (fun q i => q.wires.get (c.numWires - c.nOut + i)) p hp
  simp only [Circuit.outputs] at this ⊢
  rw [this]
  simp only [Circuit.compute, Circuit.outputs]
  apply List.map_congr_left
  intro i hi
  have hdef : c.defined (c.numWires - c.nOut + i) = true := by
    simp only [Circuit.outputsDefined, List.all_eq_true] at hod
    exact hod i hi
  rw [← hrec _ hdef, recon_def]

/-! ### histories -/

/-- State of a Network between two `Run` calls. -/
structure Between (n L M : Nat) (ps : List Party) : Prop where
  st : St n L ps
  wsz : ∀ p ∈ ps, p.wires.size = M

theorem between_fresh (n L : Nat) (pools : Nat → Triples) (hp : PoolsValid n L pools) :
    Between n L 0 (fresh n pools) := by
  refine ⟨⟨?_, ?_, ?_, ?_⟩, ?_⟩
  · unfold Ids fresh
    rw [List.map_map]
    conv => rhs; rw [← List.map_id (List.range n)]
    apply List.map_congr_left; intro p _; rfl
  · intro q hq
    simp only [fresh, List.mem_map] at hq
    obtain ⟨p, _, rfl⟩ := hq
    exact ⟨rfl, by simp [Triples.WF, Triples.empty]⟩
  · intro q hq
    simp only [fresh, List.mem_map] at hq
    obtain ⟨p, hp', rfl⟩ := hq
    exact hp.1 p (List.mem_range.mp hp')
  · intro k hk
    simp only [fresh, List.map_map]
    exact hp.2 k hk
  · intro q hq
    simp only [fresh, List.mem_map] at hq
    obtain ⟨p, _, rfl⟩ := hq
    rfl

/-- What the property demands of a history that starts with `L` pool words:
every call returns; its outputs are `compute` of ITS circuit on ITS inputs at
every party; on every wire its circuit defines the shares reconstruct to
`plainEval`; every party's pool has lost exactly the first `needW` words of
this call (`views`: what the pools held before the call, in stream order) – so
the next call starts at the same stream position at every party. -/
def HistOK (n : Nat) : List Call → Nat → List (List (Word × Word × Word)) → List RunResult → Prop
  | [], _, _, rs => rs = []
  | k :: ks, L, views, rs =>
    ∃ ps outs rest, rs = .ok ps outs :: rest ∧ outs.length = n ∧
      (∀ o ∈ outs, o = k.c.compute (inputBits k.sizes k.x)) ∧
      (∀ w, k.c.defined w = true → recon ps w = (k.c.plainEval (inputBits k.sizes k.x)).get w) ∧
      (∀ p ∈ ps, p.pool.words = L - needW (blocks k.c)) ∧
      poolViews ps = views.map (·.drop (needW (blocks k.c))) ∧
      HistOK n ks (L - needW (blocks k.c)) (views.map (·.drop (needW (blocks k.c)))) rest

/-- Triple words a history consumes. -/
def needHist (ks : List Call) : Nat := (ks.map fun k => needW (blocks k.c)).sum

/-- A call the property speaks about, on an `n`-party network. -/
structure CallOK (n : Nat) (k : Call) : Prop where
  run : RunOK k.c k.sizes
  parties : k.sizes.length = n
  outs : k.c.outputsDefined = true

theorem hist_correct (n : Nat) : ∀ (ks : List Call) (ps : List Party) (L M : Nat),
    (∀ k ∈ ks, CallOK n k) → Between n L M ps → needHist ks ≤ L →
    HistOK n ks L (poolViews ps) (runHist ks ps) := by
  intro ks
  induction ks with
  | nil => intro ps L M _ _ _; rfl
  | cons k ks ih =>
    intro ps L M hks hb hL
    have hk := hks k List.mem_cons_self
    have hL' : needW (blocks k.c) + needHist ks ≤ L := by simpa [needHist] using hL
    have hst : St k.sizes.length L ps := by rw [hk.parties]; exact hb.st
    obtain ⟨ps', outs, hrun, hst', hsz', hlen, hrec, hout, hpv⟩ :=
      runFrom_correct k.c k.sizes k.x k.rnd ps (inputBits k.sizes k.x) L M hk.run
        (inputsOf_inputBits k.sizes k.x) hst hb.wsz (by omega)
    rw [hk.parties] at hst' hlen
    have hb' : Between n (L - needW (blocks k.c)) (max M k.c.numWires) ps' := ⟨hst', hsz'⟩
    simp only [runHist, hrun]
    refine ⟨ps', outs, _, rfl, hlen, hout hk.outs, hrec, fun p hp => (hst'.pwf p hp).2, hpv, ?_⟩
    rw [← hpv]
    exact ih ps' _ _ (fun k' hk' => hks k' (List.mem_cons_of_mem _ hk')) hb' (by omega)

/-- `Gmw.run` is `runFrom` on the fresh Network. -/
theorem run_eq_runFrom (c : Circuit) (sizes : List Nat) (x : Nat → Nat) (rnd : Nat → Nat → Nat)
    (pools : Nat → Triples) : run c sizes x rnd pools = runFrom c sizes x rnd (fresh sizes.length pools) := by
  have e : ∀ p : Nat, shareInputs c.numWires sizes x rnd p =
      shareInputsFrom (growWires #[] c.numWires) sizes x rnd p := by
    intro p
    rw [shareInputs_from_zero]
    congr 1
    apply Array.ext
    · rw [growWires_size]; simp
    · intro i h1 h2
      have := growWires_get #[] c.numWires i
      simp only [Store.get, Array.getD] at this
      rw [growWires_size] at h2
      simp at h1 h2
      simp [h2] at this
      simp [this]
  unfold run runFrom fresh
  simp only [List.map_map, Function.comp, e]
  rfl

end Mpc.Gmw

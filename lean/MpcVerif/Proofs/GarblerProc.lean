/-
Invariant of the garbler process (`Model/GarblerProc.lean`) for the code as it
is (`early = false`: `circuit.Garbler` never releases its garbling): every
session's `*Garbled` stays a live handle of the ownership model that owns the
memory the session's `Wires` slice points to and is the result of the session's
own `Garble` call; hence (C17 `garble_isolated`) whatever the OT and the result
loop of a session read there is the single-goroutine result of that call,
whatever the other sessions do in between.  Helper lemmas for `Props/C04.lean`.
-/
import MpcVerif.Model.GarblerProc
import MpcVerif.Proofs.GarbleHist

namespace Mpc.GProc
open Mpc.Pool
variable {Mem Job : Type}

/-- The (tape, key) a goroutine inside `Garble` is garbling with. -/
def pcJob : PC Mem Job → Option Job
  | .gLoad j => some j
  | .gCas j _ => some j
  | .gReload j => some j
  | .gGet j _ => some j
  | .gRun j _ _ _ _ => some j
  | _ => none

/-- Pool lookup, `Get` and the writes of a call do not change which call it is. -/
def isInner : Action Job → Bool
  | .load | .cas | .reload | .getFree _ | .getNew | .write => true
  | _ => false

theorem pcJob_step (P : Params Mem Job) (strict : Bool) (σ σ' : State Mem Job) (t : Tid)
    (a : Action Job) (j : Job) (ha : isInner a = true) (h : step? P strict σ t a = some σ')
    (hj : pcJob (σ.pc t) = some j) : pcJob (σ'.pc t) = some j := by
  cases a <;> simp only [isInner] at ha <;> (try contradiction) <;>
    simp only [step?] at h <;> (repeat' split at h) <;> (try contradiction) <;>
    (cases h; simp_all [pcJob, upd])

theorem pcJob_sched (P : Params Mem Job) (strict : Bool) (t : Tid) (j : Job) (l : List (Tid × Action Job)) :
    ∀ (σ σ' : State Mem Job), (∀ ta ∈ l, ta.1 = t ∧ isInner ta.2 = true) →
      runSched P strict σ l = some σ' → pcJob (σ.pc t) = some j → pcJob (σ'.pc t) = some j := by
  induction l with
  | nil => intro σ σ' _ h hj; simp only [runSched] at h; cases h; exact hj
  | cons ta rest ih =>
    intro σ σ' hall h hj
    obtain ⟨t', a⟩ := ta
    simp only [runSched] at h
    split at h
    · rename_i σ1 h1
      obtain ⟨e1, e2⟩ := hall (t', a) (List.mem_cons_self ..)
      simp only at e1 e2
      subst e1
      exact ih σ1 σ' (fun ta hta => hall ta (List.mem_cons_of_mem _ hta)) h
        (pcJob_step P strict σ σ1 t' a j e2 h1 hj)
    · contradiction

/-- The steps of a Garble call after `callGarble`. -/
def innerSched (σ : State Mem Job) (s : Option ScratchId) (k : Nat) : List (Tid × Action Job) :=
  [(0, .load)] ++ (if σ.poolPtr.isNone then [(0, .cas)] else []) ++
    [(0, match s with | some x => .getFree x | none => .getNew)] ++ List.replicate k (0, .write)

theorem acquire_eq (σ : State Mem Job) (j : Job) (s : Option ScratchId) (k : Nat) :
    acquireSched σ j s ++ List.replicate k ((0 : Tid), (Action.write : Action Job)) =
      (0, .callGarble j) :: innerSched σ s k := by
  cases s <;> by_cases hp : σ.poolPtr.isNone = true <;> simp [acquireSched, innerSched, hp]

theorem innerSched_inner (σ : State Mem Job) (s : Option ScratchId) (k : Nat) :
    ∀ ta ∈ innerSched (Job := Job) σ s k, ta.1 = 0 ∧ isInner ta.2 = true := by
  intro ta hta
  cases s <;> by_cases hp : σ.poolPtr.isNone = true <;>
    simp only [innerSched, hp, if_true, List.mem_append, List.mem_cons, List.mem_replicate,
      List.not_mem_nil, or_false] at hta <;>
    grind [isInner]

/-- A successful Garble call, taken apart: one new handle, numbered
`σ.nHandles`, live, nobody inside it, the result of THIS call; no other handle
record is touched. -/
theorem garble_split (P : Params Mem Job) (σ σ' : State Mem Job) (j : Job) (s : Option ScratchId)
    (hg : runEv P σ (.garble j s) = some σ') :
    ∃ p x m0, σ'.nHandles = σ.nHandles + 1 ∧
      σ'.handle = upd σ.handle σ.nHandles
        (some { scratch := some x, pool := some p, job := j, init := m0, user := none, putDone := false }) := by
  rw [runEv, runEv_eq_runSched] at hg
  simp only [evSched] at hg
  obtain ⟨σ1, hpre, hpub⟩ := runSched_snoc P true _ 0 .publish σ σ' hg
  obtain ⟨f1, f2⟩ := handles_frame_sched P true _ σ σ1 (failPrefix_actions σ j _ s) hpre
  rw [acquire_eq] at hpre
  simp only [runSched] at hpre
  split at hpre
  · rename_i σ0 hcall
    have hj0 : pcJob (σ0.pc 0) = some j := by
      simp only [step?] at hcall
      split at hcall
      · cases hcall; simp [pcJob, upd]
      · contradiction
    have hj1 := pcJob_sched P true 0 j _ σ0 σ1 (innerSched_inner σ s _) hpre hj0
    simp only [step?] at hpub
    split at hpub
    · rename_i j' p x m0 k hpc
      split at hpub
      · cases hpub
        rw [hpc] at hj1
        simp only [pcJob, Option.some.injEq] at hj1
        subst hj1
        exact ⟨p, x, m0, by simp [f1], by simp [f1, f2]⟩
      · contradiction
    · contradiction
  · contradiction

/-- A failed Garble call touches no handle. -/
theorem fail_handles (P : Params Mem Job) (σ σ' : State Mem Job) (j : Job) (k : Nat) (s : Option ScratchId)
    (hf : runEv P σ (.fail j k s) = some σ') : σ'.nHandles = σ.nHandles ∧ σ'.handle = σ.handle := by
  obtain ⟨σ1, j', p, x, m0, k', _, _, f1, f2, rfl⟩ := fail_split P σ σ' j k s hf
  exact ⟨f1, f2⟩

theorem reachable_runEv (P : Params Mem Job) (σ σ' : State Mem Job) (e : HEv Job)
    (hr : Reachable P true σ) (h : runEv P σ e = some σ') : Reachable P true σ' := by
  apply reachable_runHist P σ σ' [e] hr
  simp only [runHist, runHistWith]
  rw [show runEvWith false P σ e = some σ' from h]

/-! ### The invariant -/

/-- What holds of a session record in every state the process reaches: its
`*Garbled` is a live handle that owns the memory its `Wires` slice points to, is
the result of the session's own call, and everything the session's OT and
result loop have read is the single-goroutine result of that call. -/
def SessOk (P : Params Mem Job) (job : Nat → Job) (σ : State Mem Job) (e : Sess Mem) : Prop :=
  ∃ H, σ.handle e.handle = some H ∧ H.owned = some e.scratch ∧ H.job = job e.id ∧
    ∀ d, d ∈ e.otSeen ∨ d ∈ e.decSeen → d = seqGarble P (job e.id) H.init

structure PInv (P : Params Mem Job) (job : Nat → Job) (st : PState Mem Job) : Prop where
  reach : Reachable P true st.σ
  sess  : ∀ e ∈ st.sess, SessOk P job st.σ e

theorem pinv_init (P : Params Mem Job) (job : Nat → Job) : PInv P job (initP P) :=
  ⟨.init, by intro e he; simp [initP] at he⟩

/-- A read by a session records what the session's own call wrote. -/
theorem sessOk_read (P : Params Mem Job) (job : Nat → Job) (σ : State Mem Job)
    (hr : Reachable P true σ) (e : Sess Mem) (h : SessOk P job σ e) :
    SessOk P job σ { e with otSeen := e.otSeen ++ [σ.mem e.scratch] } ∧
    SessOk P job σ { e with decSeen := e.decSeen ++ [σ.mem e.scratch] } := by
  obtain ⟨H, hH, ho, hjob, hm⟩ := h
  have hmem := (inv_reachable P σ hr).ownMem e.handle H e.scratch hH ho
  rw [hjob] at hmem
  refine ⟨⟨H, hH, ho, hjob, ?_⟩, ⟨H, hH, ho, hjob, ?_⟩⟩
  · intro d hd
    simp only [List.mem_append, List.mem_singleton] at hd
    rcases hd with (hd | hd) | hd
    · exact hm d (Or.inl hd)
    · rw [hd]; exact hmem
    · exact hm d (Or.inr hd)
  · intro d hd
    simp only [List.mem_append, List.mem_singleton] at hd
    rcases hd with hd | hd | hd
    · exact hm d (Or.inl hd)
    · exact hm d (Or.inr hd)
    · rw [hd]; exact hmem

theorem pinv_updSess (P : Params Mem Job) (job : Nat → Job) (st : PState Mem Job) (s : Nat)
    (f : Sess Mem → Sess Mem) (hi : PInv P job st)
    (hf : ∀ e ∈ st.sess, SessOk P job st.σ e → SessOk P job st.σ (f e)) :
    PInv P job ⟨st.σ, updSess st.sess s f⟩ := by
  refine ⟨hi.reach, ?_⟩
  intro e he
  simp only [updSess, List.mem_map] at he
  obtain ⟨e0, he0, rfl⟩ := he
  split
  · exact hf e0 he0 (hi.sess e0 he0)
  · exact hi.sess e0 he0

/-- Handle records of other sessions survive a step that only adds a handle
with a new number or touches none. -/
theorem sessOk_frame (P : Params Mem Job) (job : Nat → Job) (σ σ' : State Mem Job) (e : Sess Mem)
    (hh : ∀ h H, σ.handle h = some H → σ'.handle h = some H) (h : SessOk P job σ e) :
    SessOk P job σ' e := by
  obtain ⟨H, hH, ho, hjob, hm⟩ := h
  exact ⟨H, hh _ _ hH, ho, hjob, hm⟩

/-- **Every event of the process as the code runs it preserves the invariant.** -/
theorem pinv_step (P : Params Mem Job) (job : Nat → Job) (st st' : PState Mem Job) (ev : PEv)
    (hi : PInv P job st) (hs : stepEv false P job st ev = some st') : PInv P job st' := by
  cases ev with
  | start s =>
    simp only [stepEv] at hs
    split at hs
    · contradiction
    · split at hs
      · contradiction
      · rename_i σ1 hg
        split at hs
        · contradiction
        · rename_i H hH
          split at hs
          · contradiction
          · rename_i x hx
            simp only [Bool.false_eq_true, if_false, Option.some.injEq] at hs
            subst hs
            have hr1 := reachable_runEv P st.σ σ1 _ hi.reach hg
            obtain ⟨p, x', m0, hn, hhd⟩ := garble_split P st.σ σ1 (job s) _ hg
            have hlt := (inv_reachable P st.σ hi.reach).hLt
            refine ⟨hr1, ?_⟩
            intro e he
            simp only [List.mem_cons] at he
            rcases he with rfl | he
            · rw [hhd] at hH
              simp only [upd, if_true, Option.some.injEq] at hH
              subst hH
              simp only [Option.some.injEq] at hx
              subst hx
              refine ⟨{ scratch := some x', pool := some p, job := job s, init := m0, user := none,
                        putDone := false }, by rw [hhd]; simp [upd], by simp [Handle.owned], rfl, ?_⟩
              intro d hd; simp at hd
            · apply sessOk_frame P job st.σ σ1 e _ (hi.sess e he)
              intro h H0 hH0
              rw [hhd]
              have := hlt h H0 hH0
              have hne : h ≠ st.σ.nHandles := by
                intro heq; rw [heq] at this; exact Nat.lt_irrefl _ this
              simp [upd, hne, hH0]
  | fail s k =>
    simp only [stepEv] at hs
    split at hs
    · rename_i σ1 hf
      cases hs
      obtain ⟨_, f2⟩ := fail_handles P st.σ σ1 _ k _ hf
      refine ⟨reachable_runEv P st.σ σ1 _ hi.reach hf, ?_⟩
      intro e he
      exact sessOk_frame P job st.σ σ1 e (by intro h H hH; rw [f2]; exact hH) (hi.sess e he)
    · contradiction
  | otBegin s =>
    simp only [stepEv] at hs
    split at hs
    · cases hs
      exact pinv_updSess P job st s _ hi (fun e _ h => (sessOk_read P job st.σ hi.reach e h).1)
    · contradiction
  | otEnd s =>
    simp only [stepEv] at hs
    split at hs
    · cases hs
      exact pinv_updSess P job st s _ hi (fun e _ h => (sessOk_read P job st.σ hi.reach e h).1)
    · contradiction
  | decode s =>
    simp only [stepEv] at hs
    split at hs
    · cases hs
      exact pinv_updSess P job st s _ hi (fun e _ h => (sessOk_read P job st.σ hi.reach e h).2)
    · contradiction

theorem pinv_run (P : Params Mem Job) (job : Nat → Job) (evs : List PEv) :
    ∀ (st st' : PState Mem Job), PInv P job st → runProc false P job st evs = some st' → PInv P job st' := by
  induction evs with
  | nil => intro st st' hi h; simp only [runProc] at h; cases h; exact hi
  | cons ev evs ih =>
    intro st st' hi h
    simp only [runProc] at h
    split at h
    · rename_i st1 h1
      exact ih st1 st' (pinv_step P job st st1 ev hi h1) h
    · contradiction

end Mpc.GProc

/-
Basic lemmas for the correctness proof of `Ssa.lower` (Model/MpclLower.lean):
straight-line execution of step lists, the relation between the interpreter's
environment and the SSA store, values of scalar types.
-/
import MpcVerif.Model.MpclLower
import MpcVerif.Proofs.MpclSsaTy
import MpcVerif.Proofs.Mpcl

namespace Mpc.Mpcl.Ssa
open Mpc.Mpcl

/-! ### Step lists -/

def NoRet (code : List SInstr) : Prop := ∀ i ∈ code, i.op ≠ .ret

/-- `st'` agrees with `st` on all value ids below `k`. -/
def Frame (k : Nat) (st st' : Nat → Nat) : Prop := ∀ id, id < k → st' id = st id

theorem Frame.refl (k : Nat) (st : Nat → Nat) : Frame k st st := fun _ _ => rfl

theorem Frame.trans {k k' : Nat} {a b c : Nat → Nat} (h1 : Frame k a b) (h2 : Frame k' b c) (hk : k ≤ k') :
    Frame k a c := fun id hid => by rw [h2 id (Nat.lt_of_lt_of_le hid hk), h1 id hid]

theorem Frame.mono {k k' : Nat} {a b : Nat → Nat} (h : Frame k' a b) (hk : k ≤ k') : Frame k a b :=
  fun id hid => h id (Nat.lt_of_lt_of_le hid hk)

theorem ssaSteps_append (c1 c2 : List SInstr) (st : Nat → Nat) :
    ssaSteps (c1 ++ c2) st = (ssaSteps c1 st).bind (ssaSteps c2) := by
  induction c1 generalizing st with
  | nil => simp [ssaSteps]
  | cons i rest ih =>
    simp only [List.cons_append, ssaSteps]
    cases i.out with
    | none => simp
    | some o =>
      obtain ⟨id, ow⟩ := o
      simp only
      cases evalOp i.op (i.ins.map (argVal st)) ow with
      | none => simp
      | some v => simp [ih]

theorem ssaRun_append (c1 c2 : List SInstr) (h : NoRet c1) (st : Nat → Nat) :
    ssaRun (c1 ++ c2) st = (ssaSteps c1 st).bind (ssaRun c2) := by
  induction c1 generalizing st with
  | nil => simp [ssaSteps]
  | cons i rest ih =>
    have hi : i.op ≠ .ret := h i (by simp)
    have hr : NoRet rest := fun j hj => h j (by simp [hj])
    simp only [List.cons_append, ssaRun, ssaSteps, hi, if_false]
    cases i.out with
    | none => simp
    | some o =>
      obtain ⟨id, ow⟩ := o
      simp only
      cases evalOp i.op (i.ins.map (argVal st)) ow with
      | none => simp
      | some v => simp [ih hr]

/-- Splitting a defined run of `c1 ++ c2`. -/
theorem ssaSteps_split {c1 c2 : List SInstr} {st st' : Nat → Nat} (h : ssaSteps (c1 ++ c2) st = some st') :
    ∃ st1, ssaSteps c1 st = some st1 ∧ ssaSteps c2 st1 = some st' := by
  rw [ssaSteps_append] at h
  cases h1 : ssaSteps c1 st with
  | none => simp [h1] at h
  | some st1 => exact ⟨st1, rfl, by simpa [h1] using h⟩

theorem ssaSteps_join {c1 c2 : List SInstr} {st st1 st' : Nat → Nat} (h1 : ssaSteps c1 st = some st1)
    (h2 : ssaSteps c2 st1 = some st') : ssaSteps (c1 ++ c2) st = some st' := by
  rw [ssaSteps_append, h1]; simpa using h2

/-- One instruction. -/
theorem ssaSteps_one {op : SOp} {ins : List SArg} {id ow : Nat} {st st' : Nat → Nat}
    (h : ssaSteps [⟨op, ins, some (id, ow)⟩] st = some st') :
    ∃ v, evalOp op (ins.map (argVal st)) ow = some v ∧ st' = fun j => if j = id then v else st j := by
  simp only [ssaSteps] at h
  cases hv : evalOp op (ins.map (argVal st)) ow with
  | none => simp [hv] at h
  | some v =>
    simp only [hv, Option.some.injEq] at h
    exact ⟨v, rfl, by rw [← h]; rfl⟩

theorem ssaSteps_one_mk {op : SOp} {ins : List SArg} {id ow v : Nat} {st : Nat → Nat}
    (h : evalOp op (ins.map (argVal st)) ow = some v) :
    ssaSteps [⟨op, ins, some (id, ow)⟩] st = some (fun j => if j = id then v else st j) := by
  simp only [ssaSteps, h]; rfl

theorem NoRet_nil : NoRet [] := fun _ h => by cases h

theorem NoRet_append {a b : List SInstr} (ha : NoRet a) (hb : NoRet b) : NoRet (a ++ b) := by
  intro i hi
  rcases List.mem_append.1 hi with h | h
  · exact ha i h
  · exact hb i h

theorem NoRet_one {i : SInstr} (h : i.op ≠ .ret) : NoRet [i] := by
  intro j hj; simp only [List.mem_singleton] at hj; subst hj; exact h

theorem Frame_set {k id v : Nat} {st : Nat → Nat} (h : k ≤ id) : Frame k st (fun j => if j = id then v else st j) := by
  intro j hj
  have : j ≠ id := by omega
  simp [this]

/-! ### Operands -/

def ArgBelow (k : Nat) : SArg → Prop
  | .var id _ => id < k
  | _ => True

theorem argVal_frame {k : Nat} {a : SArg} {st st' : Nat → Nat} (ha : ArgBelow k a) (hf : Frame k st st') :
    argVal st' a = argVal st a := by
  cases a with
  | var id b => simp only [argVal, SStore.get]; rw [hf id ha]
  | const _ _ _ _ _ => rfl
  | pat _ _ => rfl
  | k _ => rfl

theorem ArgBelow.mono {k k' : Nat} {a : SArg} (h : ArgBelow k a) (hk : k ≤ k') : ArgBelow k' a := by
  cases a <;> simp_all [ArgBelow] <;> omega

theorem two_pow_pos (w : Nat) : 0 < 2 ^ w := Nat.pos_of_ne_zero (by simp)

theorem pow_le_of_le {w w' : Nat} (h : w ≤ w') : 2 ^ w ≤ 2 ^ w' := Nat.pow_le_pow_right (by decide) h

theorem lt_constBits (n : Nat) : n < 2 ^ constBits n := by
  unfold constBits
  split
  · assumption
  · split
    · assumption
    · exact Nat.lt_log2_self

theorem constWires_self (n own b : Nat) (sg : Bool) : constWires n own b sg b = n % 2 ^ b := by
  unfold constWires
  by_cases hb : b = 0
  · subst hb; simp [Nat.mod_one]
  · simp [hb]

/-- The constant operand `constArg n s w` carries `n` on `b <= w` wires. -/
theorem constArg_val (st : Nat → Nat) (n : Nat) (s : Bool) (w : Nat) (hn : n < 2 ^ w) :
    ∃ b, argVal st (constArg n s w) = (n, b) ∧ n < 2 ^ b ∧ b ≤ w ∧ (constArg n s w).isConst = true ∧
      constVal (constArg n s w) = n := by
  unfold constArg
  by_cases h : w < constBits n
  · simp only [h, if_true]
    exact ⟨w, by simp [argVal, constWires_self, Nat.mod_eq_of_lt hn], hn, Nat.le_refl _, rfl, rfl⟩
  · simp only [h, if_false]
    have hlt := lt_constBits n
    exact ⟨constBits n, by simp [argVal, constWires_self, Nat.mod_eq_of_lt hlt], hlt, by omega, rfl, rfl⟩

/-! ### Types and values -/

mutual
theorem tyEq_eq : ∀ {t t' : Ty}, tyEq t t' = true → t = t'
  | .bool, t', h => by cases t' <;> simp_all [tyEq]
  | .int a, t', h => by cases t' <;> simp_all [tyEq]
  | .uint a, t', h => by cases t' <;> simp_all [tyEq]
  | .arr n e, t', h => by
    cases t' with
    | arr m e' =>
      simp only [tyEq, Bool.and_eq_true, beq_iff_eq] at h
      rw [h.1, tyEq_eq h.2]
    | _ => simp [tyEq] at h
  | .struct fs, t', h => by
    cases t' with
    | struct gs =>
      simp only [tyEq] at h
      rw [tyEqList_eq h]
    | _ => simp [tyEq] at h
theorem tyEqList_eq : ∀ {ts us : List Ty}, tyEqList ts us = true → ts = us
  | [], [], _ => rfl
  | [], _ :: _, h => by simp [tyEqList] at h
  | _ :: _, [], h => by simp [tyEqList] at h
  | t :: ts, u :: us, h => by
    simp only [tyEqList, Bool.and_eq_true] at h
    rw [tyEq_eq h.1, tyEqList_eq h.2]
end

theorem numTy_sbits {t : Ty} {s : Bool} {w : Nat} (h : numTy t = some (s, w)) : sbits t = some w := by
  cases t <;> simp_all [numTy, sbits]

theorem sbits_bits {t : Ty} {w : Nat} (h : sbits t = some w) : t.bits = w := by
  cases t <;> simp_all [sbits, Ty.bits]

theorem numTy_bits {t : Ty} {s : Bool} {w : Nat} (h : numTy t = some (s, w)) : t.bits = w :=
  sbits_bits (numTy_sbits h)

theorem lowerBin_sbits {op : BinOp} {t : Ty} {sop : SOp} {tr : Ty} (h : lowerBin op t = some (sop, tr)) :
    (∃ w, sbits t = some w) ∧ ∃ wr, sbits tr = some wr := by
  cases t <;> cases op <;> simp [lowerBin] at h <;> (obtain ⟨_, h2⟩ := h; subst h2; simp [sbits])

theorem decode_num {t : Ty} {s : Bool} {w a : Nat} (h : numTy t = some (s, w)) (ha : a < 2 ^ w) :
    t.decode a = .num s w a := by
  cases t <;> simp [numTy] at h <;> (obtain ⟨h1, h2⟩ := h; subst h1; subst h2; simp [Ty.decode, Nat.mod_eq_of_lt ha])

theorem decode_bool (a : Nat) : Ty.decode .bool a = .bool (a % 2 == 1) := rfl

theorem ofInt_lt (w : Nat) (i : Int) : ofInt w i < 2 ^ w := by
  rw [ofInt_eq]; exact (BitVec.ofInt w i).isLt

theorem ofInt_natCast {w n : Nat} (h : n < 2 ^ w) : ofInt w (n : Int) = n := by
  unfold ofInt
  have : ((n : Int) % ((2 ^ w : Nat) : Int)) = (n : Int) :=
    Int.emod_eq_of_lt (Int.natCast_nonneg n) (by exact_mod_cast h)
  rw [this, Int.toNat_natCast]

theorem toInt_small {w a : Nat} (h : 2 * a < 2 ^ w) : toInt w a = (a : Int) := by
  simp [toInt, h]

/-! ### Names: the interpreter's environment vs the SSA store -/

/-- The binding `b` denotes the value `v` in the store `st`. -/
def BindRel (st : Nat → Nat) : Bind → Val → Prop
  | .val id t, v => st id < 2 ^ t.bits ∧ v = t.decode (st id)
  | .konst n, v => n < 2 ^ 31 ∧ v = .num true 32 n

def ScopeRel (st : Nat → Nat) : NScope → Scope → Prop
  | [], [] => True
  | (x, b) :: r, (y, v) :: r' => x = y ∧ BindRel st b v ∧ ScopeRel st r r'
  | _, _ => False

def Rel (st : Nat → Nat) : NEnv → Env → Prop
  | [], [] => True
  | s :: r, s' :: r' => ScopeRel st s s' ∧ Rel st r r'
  | _, _ => False

def BelowB (k : Nat) : Bind → Prop
  | .val id _ => id < k
  | .konst _ => True

def BelowS (k : Nat) (ns : NScope) : Prop := ∀ p ∈ ns, BelowB k p.2

def Below (k : Nat) (nm : NEnv) : Prop := ∀ s ∈ nm, BelowS k s

theorem BelowB.mono {k k' : Nat} {b : Bind} (h : BelowB k b) (hk : k ≤ k') : BelowB k' b := by
  cases b <;> simp_all [BelowB] <;> omega

theorem Below.mono {k k' : Nat} {nm : NEnv} (h : Below k nm) (hk : k ≤ k') : Below k' nm :=
  fun s hs p hp => (h s hs p hp).mono hk

theorem Below.cons {k : Nat} {s : NScope} {nm : NEnv} (hs : BelowS k s) (h : Below k nm) : Below k (s :: nm) := by
  intro s' hs'
  rcases List.mem_cons.1 hs' with e | e
  · subst e; exact hs
  · exact h s' e

theorem Below.tail {k : Nat} {s : NScope} {nm : NEnv} (h : Below k (s :: nm)) : Below k nm :=
  fun s' hs' => h s' (List.mem_cons_of_mem _ hs')

theorem Below.head {k : Nat} {s : NScope} {nm : NEnv} (h : Below k (s :: nm)) : BelowS k s :=
  h s (by simp)

theorem BelowS_nil (k : Nat) : BelowS k [] := fun _ h => by cases h

theorem BelowS.cons {k : Nat} {x : String} {b : Bind} {s : NScope} (hb : BelowB k b) (h : BelowS k s) :
    BelowS k ((x, b) :: s) := by
  intro p hp
  rcases List.mem_cons.1 hp with e | e
  · subst e; exact hb
  · exact h p e

theorem Below.declare {k : Nat} {nm : NEnv} {x : String} {b : Bind} (h : Below k nm) (hb : BelowB k b) :
    Below k (nm.declare x b) := by
  cases nm with
  | nil => exact Below.cons (BelowS.cons hb (BelowS_nil k)) (fun _ h => by cases h)
  | cons s r => exact Below.cons (BelowS.cons hb h.head) h.tail

theorem BelowS.set {k : Nat} {x : String} {b : Bind} : ∀ {s s' : NScope}, BelowS k s → BelowB k b →
    NScope.set s x b = some s' → BelowS k s'
  | [], _, _, _, h => by simp [NScope.set] at h
  | (y, c) :: r, s', hs, hb, h => by
    simp only [NScope.set] at h
    by_cases hxy : x = y
    · simp only [hxy, if_true, Option.some.injEq] at h
      subst h
      exact BelowS.cons hb (fun p hp => hs p (List.mem_cons_of_mem _ hp))
    · simp only [hxy, if_false] at h
      cases hr : NScope.set r x b with
      | none => simp [hr] at h
      | some r' =>
        simp only [hr, Option.map_some, Option.some.injEq] at h
        subst h
        exact BelowS.cons (hs (y, c) (by simp)) (BelowS.set (fun p hp => hs p (List.mem_cons_of_mem _ hp)) hb hr)

theorem Below.set {k : Nat} {x : String} {b : Bind} : ∀ {nm nm' : NEnv}, Below k nm → BelowB k b →
    NEnv.set nm x b = some nm' → Below k nm'
  | [], _, _, _, h => by simp [NEnv.set] at h
  | s :: r, nm', hn, hb, h => by
    simp only [NEnv.set] at h
    cases hs : NScope.set s x b with
    | some s' =>
      simp only [hs, Option.some.injEq] at h
      subst h
      exact Below.cons (BelowS.set hn.head hb hs) hn.tail
    | none =>
      simp only [hs] at h
      cases hr : NEnv.set r x b with
      | none => simp [hr] at h
      | some r' =>
        simp only [hr, Option.map_some, Option.some.injEq] at h
        subst h
        exact Below.cons hn.head (Below.set hn.tail hb hr)

theorem BindRel.frame {k : Nat} {st st' : Nat → Nat} {b : Bind} {v : Val} (h : BindRel st b v)
    (hb : BelowB k b) (hf : Frame k st st') : BindRel st' b v := by
  cases b with
  | val id t =>
    obtain ⟨h2, h3⟩ := h
    have e := hf id hb
    exact ⟨by rw [e]; exact h2, by rw [e]; exact h3⟩
  | konst n => exact h

theorem ScopeRel.frame {k : Nat} {st st' : Nat → Nat} : ∀ {s : NScope} {sc : Scope}, ScopeRel st s sc →
    BelowS k s → Frame k st st' → ScopeRel st' s sc
  | [], [], _, _, _ => trivial
  | [], _ :: _, h, _, _ => h.elim
  | _ :: _, [], h, _, _ => by obtain ⟨_, _⟩ := ‹String × Bind›; exact h.elim
  | (x, b) :: r, (y, v) :: r', h, hb, hf => by
    obtain ⟨h1, h2, h3⟩ := h
    exact ⟨h1, h2.frame (hb (x, b) (by simp)) hf,
      ScopeRel.frame h3 (fun p hp => hb p (List.mem_cons_of_mem _ hp)) hf⟩

theorem Rel.frame {k : Nat} {st st' : Nat → Nat} : ∀ {nm : NEnv} {env : Env}, Rel st nm env →
    Below k nm → Frame k st st' → Rel st' nm env
  | [], [], _, _, _ => trivial
  | [], _ :: _, h, _, _ => h.elim
  | _ :: _, [], h, _, _ => h.elim
  | _ :: _, _ :: _, h, hb, hf => ⟨h.1.frame hb.head hf, Rel.frame h.2 hb.tail hf⟩

theorem ScopeRel.find {st : Nat → Nat} {x : String} : ∀ {s : NScope} {sc : Scope}, ScopeRel st s sc →
    (NScope.find s x = none → Scope.lookup sc x = none) ∧
    (∀ b, NScope.find s x = some b → ∃ v, Scope.lookup sc x = some v ∧ BindRel st b v)
  | [], [], _ => ⟨fun _ => rfl, fun b h => by simp [NScope.find] at h⟩
  | [], _ :: _, h => h.elim
  | (_, _) :: _, [], h => h.elim
  | (y, b) :: r, (z, v) :: r', h => by
    obtain ⟨h1, h2, h3⟩ := h
    subst h1
    have ih := ScopeRel.find (x := x) h3
    by_cases hxy : x = y
    · subst hxy
      exact ⟨fun hn => by simp [NScope.find] at hn,
        fun b' hb' => by
          simp only [NScope.find, if_true, Option.some.injEq] at hb'
          subst hb'
          exact ⟨v, by simp [Scope.lookup], h2⟩⟩
    · simp only [NScope.find, Scope.lookup, hxy, if_false]
      exact ih

theorem Rel.find {st : Nat → Nat} {x : String} : ∀ {nm : NEnv} {env : Env}, Rel st nm env →
    ∀ b, NEnv.find nm x = some b → ∃ v, Env.lookup env x = some v ∧ BindRel st b v
  | [], [], _, b, h => by simp [NEnv.find] at h
  | [], _ :: _, h, _, _ => h.elim
  | _ :: _, [], h, _, _ => h.elim
  | s :: r, s' :: r', h, b, hf => by
    have hs := ScopeRel.find (x := x) h.1
    simp only [NEnv.find] at hf
    cases hfs : NScope.find s x with
    | some b' =>
      simp only [hfs, Option.some.injEq] at hf
      subst hf
      obtain ⟨v, hv, hb⟩ := hs.2 b' hfs
      exact ⟨v, by simp [Env.lookup, hv], hb⟩
    | none =>
      simp only [hfs] at hf
      obtain ⟨v, hv, hb⟩ := Rel.find h.2 b hf
      exact ⟨v, by simp [Env.lookup, hs.1 hfs, hv], hb⟩

theorem ScopeRel.set {st : Nat → Nat} {x : String} {b : Bind} {v : Val} (hbv : BindRel st b v) :
    ∀ {s : NScope} {sc : Scope}, ScopeRel st s sc →
    (NScope.set s x b = none → Scope.set sc x v = none) ∧
    (∀ s', NScope.set s x b = some s' → ∃ sc', Scope.set sc x v = some sc' ∧ ScopeRel st s' sc')
  | [], [], _ => ⟨fun _ => rfl, fun s' h => by simp [NScope.set] at h⟩
  | [], _ :: _, h => h.elim
  | (_, _) :: _, [], h => h.elim
  | (y, c) :: r, (z, u) :: r', h => by
    obtain ⟨h1, h2, h3⟩ := h
    subst h1
    have ih := ScopeRel.set (x := x) hbv h3
    by_cases hxy : x = y
    · subst hxy
      refine ⟨fun hn => by simp [NScope.set] at hn, fun s' hs' => ?_⟩
      simp only [NScope.set, if_true, Option.some.injEq] at hs'
      subst hs'
      exact ⟨(x, v) :: r', by simp [Scope.set], rfl, hbv, h3⟩
    · simp only [NScope.set, Scope.set, hxy, if_false]
      refine ⟨fun hn => ?_, fun s' hs' => ?_⟩
      · cases hr : NScope.set r x b with
        | none => simp [ih.1 hr]
        | some r2 => simp [hr] at hn
      · cases hr : NScope.set r x b with
        | none => simp [hr] at hs'
        | some r2 =>
          simp only [hr, Option.map_some, Option.some.injEq] at hs'
          subst hs'
          obtain ⟨sc2, e, hrel⟩ := ih.2 r2 hr
          exact ⟨(y, u) :: sc2, by simp [e], rfl, h2, hrel⟩

theorem Rel.set {st : Nat → Nat} {x : String} {b : Bind} {v : Val} (hbv : BindRel st b v) :
    ∀ {nm nm' : NEnv} {env : Env}, Rel st nm env → NEnv.set nm x b = some nm' →
    ∃ env', Env.set env x v = some env' ∧ Rel st nm' env'
  | [], _, [], _, h => by simp [NEnv.set] at h
  | [], _, _ :: _, h, _ => h.elim
  | _ :: _, _, [], h, _ => h.elim
  | s :: r, nm', s' :: r', h, hs => by
    have hsc := ScopeRel.set (x := x) hbv h.1
    simp only [NEnv.set] at hs
    cases hss : NScope.set s x b with
    | some s2 =>
      simp only [hss, Option.some.injEq] at hs
      subst hs
      obtain ⟨sc2, e, hrel⟩ := hsc.2 s2 hss
      exact ⟨sc2 :: r', by simp [Env.set, e], hrel, h.2⟩
    | none =>
      simp only [hss] at hs
      cases hr : NEnv.set r x b with
      | none => simp [hr] at hs
      | some r2 =>
        simp only [hr, Option.map_some, Option.some.injEq] at hs
        subst hs
        obtain ⟨env2, e, hrel⟩ := Rel.set hbv h.2 hr
        exact ⟨s' :: env2, by simp [Env.set, hsc.1 hss, e], h.1, hrel⟩

theorem Rel.declare {st : Nat → Nat} {x : String} {b : Bind} {v : Val} (hbv : BindRel st b v) :
    ∀ {nm : NEnv} {env : Env}, Rel st nm env → Rel st (nm.declare x b) (env.declare x v)
  | [], [], _ => ⟨⟨rfl, hbv, trivial⟩, trivial⟩
  | [], _ :: _, h => h.elim
  | _ :: _, [], h => h.elim
  | _ :: _, _ :: _, h => ⟨⟨rfl, hbv, h.1⟩, h.2⟩

theorem Rel.push {st : Nat → Nat} {nm : NEnv} {env : Env} (h : Rel st nm env) : Rel st ([] :: nm) ([] :: env) :=
  ⟨trivial, h⟩

/-- Leaving a scope. -/
theorem Rel.tail {st : Nat → Nat} : ∀ {nm : NEnv} {env : Env}, Rel st nm env → Rel st nm.tail env.tail
  | [], [], _ => trivial
  | [], _ :: _, h => h.elim
  | _ :: _, [], h => h.elim
  | _ :: _, _ :: _, h => h.2

theorem Below.tail' {k : Nat} {nm : NEnv} (h : Below k nm) : Below k nm.tail := by
  cases nm with
  | nil => exact h
  | cons s r => exact h.tail

end Mpc.Mpcl.Ssa

/-
Helper lemmas for C20, BMR gadgets (Model/Fx.lean): label conversion round
trip, bit 0 of byte 0 under XOR, the gadgets' outputs under an OT satisfying
`OtSpec` for every operand value (not only bits).
-/
import MpcVerif.Model.Fx
namespace Mpc.Fx

theorem fromOT_toOT (l : BLabel) : fromOT (toOT l) = l := by
  unfold fromOT toOT
  ext i hi
  have h1 : 64 + i < 128 := by omega
  have h2 : ¬ 64 + i < 64 := by omega
  have h3 : i < 128 := by omega
  simp [h1, h2, h3, BitVec.getLsbD_eq_getElem hi]

theorem bit0_ofByte0 (a : Nat) : bit0 (ofByte0 a) = decide (a % 2 = 1) := by
  unfold bit0 ofByte0
  simp only [BitVec.getLsbD_shiftLeft, Nat.sub_self]
  simp
  rw [BitVec.getElem_eq_testBit_toNat]
  simp [Nat.testBit_zero]

theorem bit0_lxor (x y : BLabel) : bit0 (lxor x y) = (bit0 x ^^ bit0 y) := by
  simp [bit0, lxor]

theorem otSpec_single {ot : OtFun (BitVec 128)} (h : OtSpec ot) (w : WireL (BitVec 128)) (b : Nat) :
    recvLabel (ot [w] (recvFlags b)) = if b = 1 then w.l1 else w.l0 := by
  rw [h [w] (recvFlags b) rfl]
  by_cases hb : b = 1 <;> simp [recvLabel, recvFlags, WireL.labelFor, hb]

theorem fx_general (ot : OtFun (BitVec 128)) (h : OtSpec ot) (rl : BLabel) (a b : Nat) :
    (fx ot rl a b).r ^^^ (fx ot rl a b).xb = (a % 2) * (if b = 1 then 1 else 0) := by
  simp only [fx, fxRecvOut, fxSendOut, otSpec_single h, fxWire]
  by_cases hb : b = 1
  · simp only [hb, if_true, fromOT_toOT, bit0_lxor, bit0_ofByte0]
    rcases Nat.mod_two_eq_zero_or_one a with ha | ha <;> cases bit0 rl <;> simp [ha]
  · simp only [hb, if_false, fromOT_toOT]
    cases bit0 rl <;> simp

theorem fxk_general (ot : OtFun (BitVec 128)) (h : OtSpec ot) (r s : BLabel) (b : Nat) :
    (fxk ot r s b).r ^^^ (fxk ot r s b).xb = if b = 1 then s else 0#32 := by
  simp only [fxk, fxkRecvOut, otSpec_single h, fxkWire]
  by_cases hb : b = 1
  · simp [hb, fromOT_toOT, lxor, ← BitVec.xor_assoc]
  · simp [hb, fromOT_toOT]

/-! ### Histories of gadget calls -/

/-- The operands of a gadget call are in the property's domain. -/
def GCall.Ok : GCall → Prop
  | .fx _ a b => a ≤ 1 ∧ b ≤ 1
  | .fxk _ _ b => b ≤ 1

/-- The outputs of a gadget call are XOR shares of the product. -/
def GShares : GCall → GOut → Prop
  | .fx _ a b, .fx o => o.r ^^^ o.xb = a * b ∧ o.r ≤ 1 ∧ o.xb ≤ 1
  | .fxk _ s b, .fxk o => o.r ^^^ o.xb = if b = 1 then s else 0#32
  | _, _ => False

end Mpc.Fx

/-
Helper lemmas and the inductive invariant of the mesh system (the code as it is,
Model/Mesh.lean, `Ev.real`) for property C19.
-/
import MpcVerif.Model.Mesh

namespace Mpc.Mesh

/-! ### point updates -/

@[simp] theorem upd_same {α : Type} (f : Nat → α) (a : Nat) (v : α) : upd f a v a = v := by
  simp [upd]

theorem upd_ne {α : Type} (f : Nat → α) (a : Nat) (v : α) (x : Nat) (h : x ≠ a) : upd f a v x = f x := by
  simp [upd, h]

theorem upd_apply {α : Type} (f : Nat → α) (a : Nat) (v : α) (x : Nat) :
    upd f a v x = if x = a then v else f x := rfl

theorem upd2_apply {α : Type} (f : Nat → Nat → α) (a b : Nat) (v : α) (x y : Nat) :
    upd2 f a b v x y = if x = a ∧ y = b then v else f x y := rfl

theorem upd3_apply {α : Type} (f : Nat → Nat → Nat → α) (a b c : Nat) (v : α) (x y z : Nat) :
    upd3 f a b c v x y z = if x = a ∧ y = b ∧ z = c then v else f x y z := rfl

/-! ### sorted insert -/

theorem mem_ins (a x : Nat) (l : List Nat) : x ∈ ins a l ↔ x = a ∨ x ∈ l := by
  induction l with
  | nil => simp [ins]
  | cons b l ih =>
    simp only [ins]
    split
    · simp
    · split
      · subst_vars; simp
      · simp [ih]; grind

theorem nodup_ins (a : Nat) (l : List Nat) (h : l.Nodup) (ha : a ∉ l) : (ins a l).Nodup := by
  induction l with
  | nil => simp [ins]
  | cons b l ih =>
    simp only [ins]
    have hb := List.nodup_cons.mp h
    have ha' : a ≠ b ∧ a ∉ l := by simpa using ha
    split
    · exact List.nodup_cons.mpr ⟨ha, h⟩
    · split
      · exact h
      · refine List.nodup_cons.mpr ⟨?_, ih hb.2 ha'.2⟩
        rw [mem_ins]
        rintro (e | e)
        · exact ha'.1 e.symm
        · exact hb.1 e

theorem length_ins (a : Nat) (l : List Nat) (ha : a ∉ l) : (ins a l).length = l.length + 1 := by
  induction l with
  | nil => simp [ins]
  | cons b l ih =>
    simp only [ins]
    have ha' : a ≠ b ∧ a ∉ l := by simpa using ha
    split
    · simp
    · split
      · exact absurd (by assumption) ha'.1
      · simp [ih ha'.2]

theorem mem_foldl_ins (l kn : List Nat) (x : Nat) :
    x ∈ l.foldl (fun kn q => ins q kn) kn ↔ x ∈ l ∨ x ∈ kn := by
  induction l generalizing kn with
  | nil => simp
  | cons a l ih =>
    simp only [List.foldl_cons, ih, mem_ins, List.mem_cons]
    grind

theorem nodup_foldl_ins (l kn : List Nat) (hl : l.Nodup) (hd : ∀ q ∈ l, q ∉ kn) (hk : kn.Nodup) :
    (l.foldl (fun kn q => ins q kn) kn).Nodup := by
  induction l generalizing kn with
  | nil => simpa using hk
  | cons a l ih =>
    have ha := List.nodup_cons.mp hl
    simp only [List.foldl_cons]
    apply ih _ ha.2
    · intro q hq
      rw [mem_ins]
      rintro (e | e)
      · subst e; exact ha.1 hq
      · exact hd q (by simp [hq]) e
    · exact nodup_ins a kn hk (hd a (by simp))

/-! ### counting -/

theorem length_filter_pos_range (b : Nat) :
    ((List.range b).filter (fun x => decide (0 < x))).length = b - 1 := by
  induction b with
  | zero => simp
  | succ b ih =>
    rw [List.range_succ, List.filter_append, List.length_append, ih]
    cases b <;> simp

/-- A duplicate-free list whose members are exactly `1 .. b-1` has `b-1` elements. -/
theorem length_of_mem_iff (l : List Nat) (hn : l.Nodup) (b : Nat) (h : ∀ x, x ∈ l ↔ 0 < x ∧ x < b) :
    l.length = b - 1 := by
  have hp : l.Perm ((List.range b).filter (fun x => decide (0 < x))) := by
    apply (List.perm_ext_iff_of_nodup hn (List.Nodup.sublist List.filter_sublist List.nodup_range)).mpr
    intro a
    simp [h, List.mem_filter, And.comm]
  rw [hp.length_eq, length_filter_pos_range]

/-! ### counting empty slots -/

/-- Number of ids `0 < x < b` whose slot `k` in p's table is empty. -/
def missing (s : State) (p b k : Nat) : Nat :=
  ((List.range b).filter fun x => decide (0 < x) && (s.conn p x k).isNone).length

theorem length_filter_flip (l : List Nat) (hn : l.Nodup) (f g : Nat → Bool) (a : Nat) (ha : a ∈ l)
    (hfa : f a = true) (hga : g a = false) (hrest : ∀ x, x ≠ a → g x = f x) :
    (l.filter g).length + 1 = (l.filter f).length := by
  induction l with
  | nil => simp at ha
  | cons b l ih =>
    have hb := List.nodup_cons.mp hn
    by_cases hba : b = a
    · subst hba
      have : l.filter g = l.filter f := by
        apply List.filter_congr
        intro x hx
        exact hrest x (fun e => hb.1 (e ▸ hx))
      simp [hfa, hga, this]
    · have ha' : a ∈ l := by
        rcases List.mem_cons.mp ha with e | e
        · exact absurd e.symm hba
        · exact e
      have := ih hb.2 ha'
      simp only [List.filter_cons, hrest b hba]
      split
      · simp only [List.length_cons]; omega
      · exact this

theorem length_filter_ne (l : List Nat) (hn : l.Nodup) (a : Nat) (ha : a ∈ l) :
    (l.filter (fun x => decide (x ≠ a))).length + 1 = l.length := by
  have := length_filter_flip l hn (fun _ => true) (fun x => decide (x ≠ a)) a ha rfl (by simp)
    (by intro x hx; simp [hx])
  have ht : l.filter (fun _ => true) = l := by
    induction l with
    | nil => rfl
    | cons b l ih => simp
  rw [ht] at this
  exact this

theorem length_filter_congr (l : List Nat) (f g : Nat → Bool) (h : ∀ x ∈ l, g x = f x) :
    (l.filter g).length = (l.filter f).length := by
  rw [List.filter_congr h]

/-- Storing into an empty slot `x` (in range) lowers the count by one. -/
theorem missing_store (s s' : State) (p b k x : Nat) (hx0 : 0 < x) (hxb : x < b)
    (hold : s.conn p x k = none) (hnew : (s'.conn p x k).isSome)
    (hrest : ∀ y, y ≠ x → s'.conn p y k = s.conn p y k) :
    missing s' p b k + 1 = missing s p b k := by
  unfold missing
  apply length_filter_flip _ List.nodup_range _ _ x (List.mem_range.mpr hxb)
  · simp [hx0, hold]
  · simp [hx0]
    cases h : s'.conn p x k <;> simp_all
  · intro y hy
    simp [hrest y hy]

theorem missing_congr (s s' : State) (p b k : Nat)
    (h : ∀ y, 0 < y → y < b → s'.conn p y k = s.conn p y k) :
    missing s' p b k = missing s p b k := by
  unfold missing
  apply length_filter_congr
  intro x hx
  by_cases h0 : 0 < x
  · simp [h x h0 (List.mem_range.mp hx)]
  · simp [h0]

theorem missing_pos (s : State) (p b k x : Nat) (hx0 : 0 < x) (hxb : x < b) (h : s.conn p x k = none) :
    0 < missing s p b k := by
  unfold missing
  apply List.length_pos_of_mem (a := x)
  simp [List.mem_filter, hxb, hx0, h]

theorem missing_zero (s : State) (p b k : Nat) (h : missing s p b k = 0) (x : Nat) (hx0 : 0 < x) (hxb : x < b) :
    (s.conn p x k).isSome := by
  cases hc : s.conn p x k with
  | some _ => rfl
  | none => have := missing_pos s p b k x hx0 hxb hc; omega

theorem missing_all_none (s : State) (p b k : Nat) (h : ∀ x, 0 < x → s.conn p x k = none) :
    missing s p b k = b - 1 := by
  unfold missing
  have : (List.range b).filter (fun x => decide (0 < x) && (s.conn p x k).isNone) =
      (List.range b).filter (fun x => decide (0 < x)) := by
    apply List.filter_congr; intro x _
    by_cases h0 : 0 < x
    · simp [h x h0]
    · simp [h0]
  rw [this, length_filter_pos_range]

/-! ### the invariant -/

/-- 1 if the accept goroutine of j has stored a connection with id k and has
not yet decremented `need[k]`. -/
def sbit (s : State) (j k : Nat) : Nat :=
  match s.infl j with
  | .stored _ k' => if k' = k then 1 else 0
  | _ => 0

/-- i dials j: peers dial the leader and every higher id. -/
def Dials (i j : Nat) : Prop := 0 < i ∧ (j = 0 ∨ i < j)

/-- Number of wait loops the party has left. -/
def roundsDone (c : Cfg) : Phase → Nat
  | .run k _ => k
  | .info _ => 1
  | .done => c.m
  | _ => 0

/-- The leader has sent (or, not having it in `rest`, will not send) the info to i. -/
def infoSentTo (ph0 : Phase) (i : Nat) : Prop :=
  match ph0 with
  | .info r => i ∉ r
  | .run (_ + 1) _ => True
  | .done => True
  | _ => False

/-- `Connect` of a peer past `connectPeerToLeader`: current round and what is left to dial. -/
def prog (c : Cfg) : Phase → Option (Nat × List Nat)
  | .run k todo => some (k, todo)
  | .done => some (c.m, [])
  | _ => none

def GoodMail (c : Cfg) (i : Nat) (l : List Nat) : Prop :=
  l.Nodup ∧ (∀ x, x ∈ l ↔ (0 < x ∧ x < c.n ∧ x ≠ i)) ∧ l.length + 2 = c.n

def joinTable (i : Nat) : Nat → Nat → Option Conn :=
  fun q k => if q = 0 ∧ k = 0 then some ⟨i, 0, 0⟩ else none

structure LeaderInv (c : Cfg) (s : State) : Prop where
  shape : s.phase 0 = .init ∨ (∃ k, k < c.m ∧ s.phase 0 = .run k []) ∨
    (∃ r, r ≠ [] ∧ s.phase 0 = .info r) ∨ s.phase 0 = .done
  np0 : s.np 0 = c.n
  knownMem : ∀ x, x ∈ s.known 0 ↔ x = 0 ∨ (s.conn 0 x 0).isSome
  knownNodup : (s.known 0).Nodup
  lenKnown : (s.known 0).length + missing s 0 c.n 0 = c.n
  initial : s.phase 0 = .init → s.acc 0 = false ∧ ∀ q k, s.conn 0 q k = none
  started : s.phase 0 ≠ .init → s.acc 0 = true ∧ ∀ k, k < c.m → s.need 0 k = missing s 0 c.n k + sbit s 0 k
  waited : ∀ k, k < roundsDone c (s.phase 0) → k < c.m → s.need 0 k = 0
  infoRest : ∀ r, s.phase 0 = .info r → r.Nodup ∧ ∀ x ∈ r, 0 < x ∧ x < c.n
  mail0 : s.mail 0 = none

structure ActiveInv (c : Cfg) (s : State) (i k : Nat) (todo : List Nat) : Prop where
  kle : k ≤ c.m
  sent : infoSentTo (s.phase 0) i
  nomail : s.mail i = none
  acc : s.acc i = true
  np : s.np i = c.n
  knownMem : ∀ x, x ∈ s.known i ↔ x < c.n
  knownNodup : (s.known i).Nodup
  dialed : ∃ pre, (k < c.m → targets s i k = pre ++ todo) ∧
    ∀ j k', Dials i j → ((s.conn i j k').isSome ↔
      (j < c.n ∧ ((j = 0 ∧ k' = 0) ∨ (k' < k ∧ k' < c.m) ∨ (k' = k ∧ k < c.m ∧ j ∈ pre))))
  need : ∀ k', k' < c.m → s.need i k' = missing s i i k' + sbit s i k'
  waited : ∀ k', k' < k → k' < c.m → s.need i k' = 0

structure PeerInv (c : Cfg) (s : State) (i : Nat) : Prop where
  init : s.phase i = .init → (∀ q k, s.conn i q k = none) ∧ (∀ j k, s.pend j i k = false) ∧
    s.mail i = none ∧ s.acc i = false ∧ ¬ infoSentTo (s.phase 0) i
  joined : s.phase i = .joined → (∀ q k, s.conn i q k = joinTable i q k) ∧ (∀ j k, s.pend j i k = false) ∧
    s.conn 0 i 0 = none ∧ s.mail i = none ∧ s.acc i = false ∧ s.known i = [0, i] ∧
    ¬ infoSentTo (s.phase 0) i
  hello : s.phase i = .hello → (∀ q k, s.conn i q k = joinTable i q k) ∧
    (∀ j k, s.pend j i k = true ↔ (j = 0 ∧ k = 0 ∧ s.conn 0 i 0 = none ∧ s.infl 0 ≠ .taken i 0)) ∧
    s.acc i = false ∧ s.known i = [0, i] ∧
    (s.mail i ≠ none ↔ infoSentTo (s.phase 0) i) ∧ (∀ l, s.mail i = some l → GoodMail c i l)
  notInfo : ∀ r, s.phase i ≠ .info r
  runLt : ∀ k todo, s.phase i = .run k todo → k < c.m
  active : ∀ k todo, prog c (s.phase i) = some (k, todo) → ActiveInv c s i k todo

/-- What holds while the accept goroutine of j is inside `acceptConn`. -/
def InflInv (c : Cfg) (s : State) (j : Nat) : Prop :=
  match s.infl j with
  | .none => True
  | .taken i k => Dials i j ∧ (s.conn i j k).isSome ∧ s.conn j i k = none ∧ s.pend j i k = false ∧
      j < c.n ∧ s.acc j = true ∧ (j = 0 → k = 0 → s.phase i ≠ .joined)
  | .stored i k => Dials i j ∧ (s.conn j i k).isSome ∧ j < c.n ∧ s.acc j = true

structure Inv (c : Cfg) (s : State) : Prop where
  notBad : s.bad = false
  infl : ∀ j, InflInv c s j
  outside : ∀ p, c.n ≤ p → s.phase p = .init
  slot : ∀ p q k cn, s.conn p q k = some cn → cn = wire p q k ∧ p ≠ q ∧ p < c.n ∧ q < c.n ∧ k < c.m
  accSlot : ∀ i j k, Dials i j → (s.conn j i k).isSome → (s.conn i j k).isSome ∧ s.pend j i k = false
  pendSlot : ∀ i j k, s.pend j i k = true →
    Dials i j ∧ (s.conn i j k).isSome ∧ s.conn j i k = none ∧ j < c.n
  /-- no connection is lost: a dialled connection is pending or stored at the
  acceptor or held by the acceptor's accept goroutine (connection 0 to the
  leader: or its hello is still to be sent) -/
  dialSlot : ∀ i j k, Dials i j → (s.conn i j k).isSome →
    s.pend j i k = true ∨ (s.conn j i k).isSome ∨ (j = 0 ∧ k = 0 ∧ s.phase i = .joined) ∨
      s.infl j = .taken i k
  leader : LeaderInv c s
  peer : ∀ i, 0 < i → i < c.n → PeerInv c s i

/-- Standing assumptions on the configuration: `Create` rejects `n < 2` and
`m < 1`; `dial` rejects connection ids above 0xff. -/
structure Cfg.Ok (c : Cfg) : Prop where
  n2 : 2 ≤ c.n
  m1 : 1 ≤ c.m
  m256 : c.m ≤ 256

/-- A party whose accept goroutine does not run holds nothing in `acceptConn`. -/
theorem Inv.infl_none {c : Cfg} {s : State} (h : Inv c s) {j : Nat} (ha : s.acc j = false) :
    s.infl j = .none := by
  have := h.infl j
  unfold InflInv at this
  cases hi : s.infl j with
  | none => rfl
  | taken i k => rw [hi] at this; simp [ha] at this
  | stored i k => rw [hi] at this; simp [ha] at this

theorem Inv.acc_none {c : Cfg} {s : State} (h : Inv c s) {i j k : Nat} (hd : Dials i j)
    (hn : s.conn i j k = none) : s.conn j i k = none := by
  cases hc : s.conn j i k with
  | none => rfl
  | some v =>
    have := (h.accSlot i j k hd (by simp [hc])).1
    simp [hn] at this

/-- Once the info is on its way to some peer the leader has accepted and
stored connection 0 of every peer. -/
theorem Inv.past0 {c : Cfg} {s : State} (h : Inv c s) (hc : c.Ok) {i : Nat}
    (hs : infoSentTo (s.phase 0) i) (q : Nat) (hq : 0 < q) (hqn : q < c.n) : (s.conn 0 q 0).isSome := by
  have hm1 := hc.m1
  have hL := h.leader
  have hne : s.phase 0 ≠ .init := by intro e; simp [e, infoSentTo] at hs
  have hr : 0 < roundsDone c (s.phase 0) := by
    revert hs
    cases s.phase 0 with
    | run k t => cases k <;> simp [infoSentTo, roundsDone]
    | info r => simp [roundsDone]
    | done => simp [roundsDone]; omega
    | _ => simp [infoSentTo]
  have h0 := hL.waited 0 hr (by omega)
  rw [(hL.started hne).2 0 (by omega)] at h0
  exact missing_zero s 0 c.n 0 (by omega) q hq hqn

theorem Inv.peer_started {c : Cfg} {s : State} (h : Inv c s) {q : Nat} (hq : 0 < q) (hqn : q < c.n)
    (hs : (s.conn 0 q 0).isSome) : s.phase q ≠ .init ∧ s.phase q ≠ .joined := by
  have hP := h.peer q hq hqn
  constructor
  · intro e
    have := (h.accSlot q 0 0 ⟨hq, Or.inl rfl⟩ hs).1
    simp [(hP.init e).1] at this
  · intro e
    simp [(hP.joined e).2.2.1] at hs

/-- After the wait of `connectLeader(0)` the leader's peer list is complete. -/
theorem Inv.leader_all {c : Cfg} {s : State} (h : Inv c s) (hc : c.Ok) (h0 : s.need 0 0 = 0)
    (hne : s.phase 0 ≠ .init) :
    (∀ x, x ∈ s.known 0 ↔ x < c.n) ∧ (s.known 0).length = c.n ∧
      ∀ q, 0 < q → q < c.n → (s.conn 0 q 0).isSome := by
  have hm1 := hc.m1
  have hn2 := hc.n2
  have hL := h.leader
  have hm : missing s 0 c.n 0 = 0 := by have := (hL.started hne).2 0 (by omega); omega
  have hall : ∀ q, 0 < q → q < c.n → (s.conn 0 q 0).isSome := missing_zero s 0 c.n 0 hm
  refine ⟨?_, ?_, hall⟩
  · intro x
    rw [hL.knownMem]
    constructor
    · rintro (e | e)
      · omega
      · cases hcn : s.conn 0 x 0 with
        | none => simp [hcn] at e
        | some v => exact (h.slot 0 x 0 v hcn).2.2.2.1
    · intro hx
      by_cases hx0 : x = 0
      · exact Or.inl hx0
      · exact Or.inr (hall x (by omega) hx)
  · have := hL.lenKnown; omega

/-- A peer whose connection 0 the leader holds and that has not been sent the
info sits in `connectPeerToLeader` with nothing to read. -/
theorem Inv.peer_waiting {c : Cfg} {s : State} (h : Inv c s) {q : Nat} (hq : 0 < q) (hqn : q < c.n)
    (hs : (s.conn 0 q 0).isSome) (hns : ¬ infoSentTo (s.phase 0) q) :
    s.phase q = .hello ∧ s.mail q = none := by
  have hP := h.peer q hq hqn
  have hst := h.peer_started hq hqn hs
  cases hph : s.phase q with
  | init => exact absurd hph hst.1
  | joined => exact absurd hph hst.2
  | hello =>
    refine ⟨rfl, ?_⟩
    have := (hP.hello hph).2.2.2.2.1
    cases hm : s.mail q with
    | none => rfl
    | some l => exact absurd (this.mp (by simp [hm])) hns
  | run k t => exact absurd (hP.active k t (by simp [hph, prog])).sent hns
  | info r => exact absurd hph (hP.notInfo r)
  | done => exact absurd (hP.active c.m [] (by simp [hph, prog])).sent hns

theorem ActiveInv.mem_targets {c : Cfg} {s : State} {i k : Nat} {todo : List Nat}
    (h : ActiveInv c s i k todo) (hi : 0 < i) (j : Nat) :
    j ∈ targets s i k ↔ j < c.n ∧ (if j = 0 then k ≠ 0 else i < j) := by
  have : i ≠ 0 := by omega
  simp only [targets, this, if_false, List.mem_filter, h.knownMem]
  split <;> simp

theorem ActiveInv.targets_nodup {c : Cfg} {s : State} {i k : Nat} {todo : List Nat}
    (h : ActiveInv c s i k todo) : (targets s i k).Nodup := by
  unfold targets
  split
  · simp
  · exact List.Nodup.sublist List.filter_sublist h.knownNodup

/-- `dialSlot` survives a step that touches neither tables, pending sets nor
accept goroutines and does not move a party out of `joined`. -/
theorem Inv.dialSlot_frame {c : Cfg} {s s' : State} (h : Inv c s) (hconn : s'.conn = s.conn)
    (hpend : s'.pend = s.pend) (hinfl : s'.infl = s.infl)
    (hph : ∀ i, s.phase i = .joined → s'.phase i = .joined) :
    ∀ i j k, Dials i j → (s'.conn i j k).isSome →
      s'.pend j i k = true ∨ (s'.conn j i k).isSome ∨ (j = 0 ∧ k = 0 ∧ s'.phase i = .joined) ∨
        s'.infl j = .taken i k := by
  intro i j k hd hs
  rw [hconn] at hs ⊢
  rw [hpend, hinfl]
  rcases h.dialSlot i j k hd hs with e | e | ⟨e1, e2, e3⟩ | e
  · exact Or.inl e
  · exact Or.inr (Or.inl e)
  · exact Or.inr (Or.inr (Or.inl ⟨e1, e2, hph i e3⟩))
  · exact Or.inr (Or.inr (Or.inr e))

/-- `InflInv` survives a step that touches neither tables, pending sets,
accept goroutines nor `acc`, and does not move a party into `joined`. -/
theorem Inv.infl_frame {c : Cfg} {s s' : State} (h : Inv c s) (hconn : s'.conn = s.conn)
    (hpend : s'.pend = s.pend) (hinfl : s'.infl = s.infl) (hacc : ∀ j, s.acc j = true → s'.acc j = true)
    (hph : ∀ i, s'.phase i = .joined → s.phase i = .joined) : ∀ j, InflInv c s' j := by
  intro j
  have := h.infl j
  unfold InflInv at this ⊢
  rw [hinfl, hconn, hpend]
  cases hi : s.infl j with
  | none => trivial
  | taken i k =>
    rw [hi] at this
    obtain ⟨h1, h2, h3, h4, h5, h6, h7⟩ := this
    exact ⟨h1, h2, h3, h4, h5, hacc j h6, fun e1 e2 e3 => h7 e1 e2 (hph i e3)⟩
  | stored i k =>
    rw [hi] at this
    obtain ⟨h1, h2, h3, h4⟩ := this
    exact ⟨h1, h2, h3, hacc j h4⟩

/-- Reachable states of the code as it is. -/
inductive Reach (c : Cfg) : State → Prop where
  | init : Reach c (init c)
  | step {s s' : State} (e : Ev) : Reach c s → e.real = true → step c s e = some s' → Reach c s'

/-- Reachable states of the code before the repair (signal before store). -/
inductive ReachOld (c : Cfg) : State → Prop where
  | init : ReachOld c (init c)
  | step {s s' : State} (e : Ev) : ReachOld c s → e.old = true → step c s e = some s' → ReachOld c s'

/-! ### frame lemmas: what each part of the invariant reads -/

theorem targets_congr (s s' : State) (p k : Nat) (h : s'.known p = s.known p) :
    targets s' p k = targets s p k := by
  simp [targets, h]

theorem LeaderInv.congr {c : Cfg} {s s' : State} (h : LeaderInv c s)
    (hph : s'.phase 0 = s.phase 0) (hnp : s'.np 0 = s.np 0) (hk : s'.known 0 = s.known 0)
    (hconn : ∀ x k, s'.conn 0 x k = s.conn 0 x k) (hacc : s'.acc 0 = s.acc 0)
    (hneed : ∀ k, s'.need 0 k = s.need 0 k) (hmail : s'.mail 0 = s.mail 0)
    (hsb : ∀ k, sbit s' 0 k = sbit s 0 k) : LeaderInv c s' := by
  have hm : ∀ b k, missing s' 0 b k = missing s 0 b k :=
    fun b k => missing_congr _ _ _ _ _ (fun y _ _ => hconn y k)
  refine ⟨?_, ?_, ?_, ?_, ?_, ?_, ?_, ?_, ?_, ?_⟩
  · simpa [hph] using h.shape
  · simpa [hnp] using h.np0
  · simpa [hk, hconn] using h.knownMem
  · simpa [hk] using h.knownNodup
  · simpa [hk, hm] using h.lenKnown
  · simpa [hph, hacc, hconn] using h.initial
  · simpa [hph, hacc, hneed, hm, hsb] using h.started
  · simpa [hph, hneed] using h.waited
  · simpa [hph] using h.infoRest
  · simpa [hmail] using h.mail0

theorem ActiveInv.congr {c : Cfg} {s s' : State} {i k : Nat} {todo : List Nat} (h : ActiveInv c s i k todo)
    (hsent : infoSentTo (s.phase 0) i → infoSentTo (s'.phase 0) i)
    (hmail : s'.mail i = s.mail i) (hacc : s'.acc i = s.acc i) (hnp : s'.np i = s.np i)
    (hk : s'.known i = s.known i) (hconn : ∀ x k, s'.conn i x k = s.conn i x k)
    (hneed : ∀ k, s'.need i k = s.need i k) (hsb : ∀ k, sbit s' i k = sbit s i k) :
    ActiveInv c s' i k todo := by
  have hm : ∀ b k, missing s' i b k = missing s i b k :=
    fun b k => missing_congr _ _ _ _ _ (fun y _ _ => hconn y k)
  refine ⟨h.kle, hsent h.sent, ?_, ?_, ?_, ?_, ?_, ?_, ?_, ?_⟩
  · simpa [hmail] using h.nomail
  · simpa [hacc] using h.acc
  · simpa [hnp] using h.np
  · simpa [hk] using h.knownMem
  · simpa [hk] using h.knownNodup
  · simpa [hconn, targets_congr s s' i k hk] using h.dialed
  · simpa [hneed, hm, hsb] using h.need
  · simpa [hneed] using h.waited

theorem PeerInv.congr {c : Cfg} {s s' : State} {i : Nat} (h : PeerInv c s i)
    (hph : s'.phase i = s.phase i)
    (hsent : infoSentTo (s'.phase 0) i ↔ infoSentTo (s.phase 0) i)
    (hmail : s'.mail i = s.mail i) (hacc : s'.acc i = s.acc i) (hnp : s'.np i = s.np i)
    (hk : s'.known i = s.known i) (hconn : ∀ x k, s'.conn i x k = s.conn i x k)
    (hconn0 : s'.conn 0 i 0 = s.conn 0 i 0)
    (hpend : ∀ j k, s'.pend j i k = s.pend j i k)
    (hneed : ∀ k, s'.need i k = s.need i k) (hsb : ∀ k, sbit s' i k = sbit s i k)
    (htk : s'.infl 0 = .taken i 0 ↔ s.infl 0 = .taken i 0) : PeerInv c s' i := by
  refine ⟨?_, ?_, ?_, ?_, ?_, ?_⟩
  · simpa [hph, hsent, hmail, hacc, hconn, hpend] using h.init
  · simpa [hph, hsent, hmail, hacc, hconn, hpend, hk, hconn0] using h.joined
  · simpa [hph, hsent, hmail, hacc, hconn, hpend, hk, hconn0, htk] using h.hello
  · simpa [hph] using h.notInfo
  · simpa [hph] using h.runLt
  · intro k todo hp
    rw [hph] at hp
    exact (h.active k todo hp).congr hsent.mpr hmail hacc hnp hk hconn hneed hsb

theorem inv_init (c : Cfg) (h : c.Ok) : Inv c (init c) := by
  have := h.n2
  refine ⟨rfl, fun _ => trivial, fun _ _ => rfl, ?_, ?_, ?_, ?_, ?_, ?_⟩
  · intro p q k cn hc; simp [init] at hc
  · intro i j k _ hc; simp [init] at hc
  · intro i j k hc; simp [init] at hc
  · intro i j k _ hc; simp [init] at hc
  · refine ⟨Or.inl rfl, by simp [init], ?_, by simp [init], ?_, ?_, ?_, ?_, ?_, rfl⟩
    · intro x; simp [init]
    · rw [missing_all_none _ _ _ _ (fun _ _ => rfl)]; simp [init]; omega
    · intro _; exact ⟨rfl, fun _ _ => rfl⟩
    · intro hn; exact absurd rfl hn
    · intro k hk; simp [init, roundsDone] at hk
    · intro r hr; simp [init] at hr
  · intro i hi hin
    refine ⟨?_, ?_, ?_, ?_, ?_, ?_⟩
    · intro _; exact ⟨fun _ _ => rfl, fun _ _ => rfl, rfl, rfl, by simp [init, infoSentTo]⟩
    · intro hc; simp [init] at hc
    · intro hc; simp [init] at hc
    · intro r hc; simp [init] at hc
    · intro k todo hc; simp [init] at hc
    · intro k todo hc; simp [init, prog] at hc

end Mpc.Mesh

/-
Proofs for Model/SsaDiv.lean (property C09, target axis for programs that
divide): the GMW back end with an explicit quotient estimator computes
`ssaEval` IF the estimator is within one on every divider instance of the run
(`EstOn`), and `… goldEstimate` is the back end of Model/SsaCircuit.lean.

Built from the C03 back-end simulation (`Proofs/SsaCircuit.lean`:
`compileOp_sound`, `EnvInv`, `operands_spec`, `retBuses_spec`) and the C07
divider lemmas (`Proofs/BuildersHist.lean`: `dividerWith_spec`,
`EstWithinOne`, `exactEstimator_withinOne`).
-/
import MpcVerif.Proofs.SsaCircuit
import MpcVerif.Proofs.BuildersHist
import MpcVerif.Model.SsaDiv

namespace Mpc.SsaC
open Mpc Mpc.Bld Mpc.Mpcl Mpc.Mpcl.Ssa

/-! ### the code's divider is `dividerPad goldEstimate` -/

theorem goldschmidt_eq_dividerPad (a b : List Nat) (nq nr : Nat) :
    goldschmidt a b nq nr = dividerPad goldEstimate a b nq nr := rfl

theorem compileOpE_gold (z : Nat) (op : SOp) (xs : List Opd) (ow : Nat) :
    compileOpE goldEstimate z op xs ow = compileOp true z op xs ow := by
  unfold compileOpE
  by_cases hu : op = .udiv
  · subst hu
    simp only [true_or, if_true]
    rcases xs with _ | ⟨(x | n), _ | ⟨(y | m), _ | ⟨c, t⟩⟩⟩ <;> simp [compileOp, uDivider, goldschmidt_eq_dividerPad]
  · by_cases hm : op = .umod
    · subst hm
      simp only [or_true, if_true]
      rcases xs with _ | ⟨(x | n), _ | ⟨(y | m), _ | ⟨c, t⟩⟩⟩ <;> simp [compileOp, uDivider, goldschmidt_eq_dividerPad]
    · simp [hu, hm]

theorem compileStepsE_gold (z o : Nat) : ∀ (steps : List SInstr) (env : WEnv),
    compileStepsE goldEstimate z o steps env = compileSteps true z o steps env
  | [], _ => rfl
  | i :: rest, env => by
    obtain ⟨op, ins, out⟩ := i
    unfold compileStepsE compileSteps
    by_cases hret : op = .ret
    · simp only [hret, if_true]
      cases allSome (ins.map (operandWires z o env)) <;> cases rest <;> rfl
    · simp only [hret, if_false]
      cases out with
      | none => rfl
      | some idow =>
        obtain ⟨id, ow⟩ := idow
        simp only
        cases allSome (ins.map (operand z o env)) with
        | none => rfl
        | some xs =>
          simp only [compileOpE_gold]
          refine congrArg (fun f => compileOp true z op xs ow >>= f) ?_
          funext r
          cases r with
          | none => rfl
          | some ws => exact compileStepsE_gold z o rest _

theorem ssaCompileE_gold (ins : List (Nat × Nat)) (steps : List SInstr) :
    ssaCompileE goldEstimate ins steps = ssaCompile true ins steps := by
  unfold ssaCompileE ssaCompile
  simp only [compileStepsE_gold]

theorem ssaCircuitEvalE_gold (ins : List (Nat × Nat)) (steps : List SInstr) (args : List Nat) :
    ssaCircuitEvalE goldEstimate ins steps args = ssaCircuitEval true ins steps args := by
  unfold ssaCircuitEvalE ssaCircuitEval
  rw [ssaCompileE_gold]

/-! ### the estimate hypothesis on an instance -/

/-- `EstOn est inp (n, A, B)`: run from ANY well-formed state on operand buses of
`n` wires that carry the values `A` and `B`, the estimator extends the state and
returns `n` wires whose value is within one of `⌊A / B⌋` (C07's hypothesis
`goldschmidt-estimate-within-one`, instance by instance). -/
def EstOn (est : List Nat → List Nat → BM (List Nat)) (inp : List Bool) (p : Nat × Nat × Nat) : Prop :=
  ∀ (s : St) (a b : List Nat), WF s inp → Bnd s a → Bnd s b → a.length = p.1 → b.length = p.1 →
    toNat (busVal s inp a) = p.2.1 → toNat (busVal s inp b) = p.2.2 → EstWithinOne est inp s a b

/-- The exact estimator satisfies the hypothesis on every instance with a
non-zero divisor and at least one operand bit. -/
theorem EstOn_exact (inp : List Bool) (p : Nat × Nat × Nat) (hn : 0 < p.1) (hB : 0 < p.2.2) :
    EstOn exactEstimator inp p := by
  intro s a b hwf ha hb hla _ _ hvb
  exact exactEstimator_withinOne hwf ha hb (by omega) (by omega)

/-- The divider with zero padding is exact from any state in which its
estimator is within one on the padded operands. -/
theorem dividerPad_spec {est : List Nat → List Nat → BM (List Nat)} {s : St} {inp : List Bool} (hwf : WF s inp)
    {x y : List Nat} (nq nr : Nat) (hx : Bnd s x) (hy : Bnd s y) (hm : 0 < max x.length y.length)
    (hB : 0 < toNat (busVal s inp y))
    (hest : EstOn est inp (max x.length y.length, toNat (busVal s inp x), toNat (busVal s inp y))) :
    Spec inp s (dividerPad est x y nq nr) (fun t s' => Bnd s' t.1 ∧ Bnd s' t.2 ∧
      t.1.length = nq ∧ t.2.length = nr ∧
      toNat (busVal s' inp t.1) = (toNat (busVal s inp x) / toNat (busVal s inp y)) % 2 ^ nq ∧
      toNat (busVal s' inp t.2) = (toNat (busVal s inp x) % toNat (busVal s inp y)) % 2 ^ nr) := by
  unfold dividerPad
  refine Spec.bind (zeroPad_spec hwf hx hy) ?_
  intro p s1 e1 ⟨hp1, hp2, hv1, hv2⟩
  have hlen1 : p.1.length = max x.length y.length := by
    have := congrArg List.length hv1; simp at this; omega
  have hlen2 : p.2.length = max x.length y.length := by
    have := congrArg List.length hv2; simp at this; omega
  have hA : toNat (busVal s1 inp p.1) = toNat (busVal s inp x) := by rw [hv1, toNat_padTo]
  have hBv : toNat (busVal s1 inp p.2) = toNat (busVal s inp y) := by rw [hv2, toNat_padTo]
  refine (dividerWith_spec nq nr hp1 hp2 (by omega) (by omega) (by rw [hBv]; exact hB)
    (hest s1 p.1 p.2 e1.wf hp1 hp2 hlen1 hlen2 hA hBv)).mono ?_
  intro t s2 _ ⟨t1, t2, l1, l2, v1, v2⟩
  rw [hA, hBv] at v1 v2
  exact ⟨t1, t2, l1, l2, v1, v2⟩

/-! ### one instruction -/

theorem instrOKE_div {op : SOp} {a b : SArg} {id ow : Nat} (hop : op = .udiv ∨ op = .umod)
    (h : instrOKE ⟨op, [a, b], some (id, ow)⟩ = true) : 0 < max (argBits a) (argBits b) := by
  simp [instrOKE, hop] at h
  omega

theorem instrOKE_other {i : SInstr} (hop : ¬ (i.op = .udiv ∨ i.op = .umod)) (h : instrOKE i = true) :
    instrOK true i = true := by
  simpa [instrOKE, hop] using h

theorem divInstOf_two (op : SOp) (hop : op = .udiv ∨ op = .umod) (A wa B wb : Nat) :
    divInstOf op [(A, wa), (B, wb)] = [(max wa wb, A, B)] := by
  simp [divInstOf, hop]

theorem udivE_case {est : List Nat → List Nat → BM (List Nat)} {s : St} {inp : List Bool} {st : Nat → Nat}
    {a b : SArg} {x y : List Nat} {id ow v : Nat} (hwf : WF s inp) (ha : OpdOK s inp st a x) (hb : OpdOK s inp st b y)
    (hok : instrOKE ⟨.udiv, [a, b], some (id, ow)⟩ = true)
    (hev : evalOp .udiv ([a, b].map (argVal st)) ow = some v)
    (hest : ∀ p ∈ divInstOf .udiv ([a, b].map (argVal st)), EstOn est inp p) :
    Spec inp s (some' (do let d ← dividerPad est x y ow 0; pure d.1)) (Post inp v) := by
  have h2 := instrOKE_div (Or.inl rfl) hok
  rw [map2 ha hb] at hev hest
  rw [divInstOf_two _ (Or.inl rfl)] at hest
  simp only [evalOp] at hev
  split at hev
  · cases hev
  · next hne =>
    simp only [Option.some.injEq] at hev
    subst hev
    rw [← ha.len, ← hb.len] at h2
    apply some'_post
    refine (dividerPad_spec hwf ow 0 ha.1 hb.1 h2 (by omega) (hest _ (List.mem_singleton.mpr rfl))).map ?_
    intro t s' _ ⟨hb1, _, _, _, hv, _⟩
    exact ⟨hb1, hv⟩

theorem umodE_case {est : List Nat → List Nat → BM (List Nat)} {s : St} {inp : List Bool} {st : Nat → Nat}
    {a b : SArg} {x y : List Nat} {id ow v : Nat} (hwf : WF s inp) (ha : OpdOK s inp st a x) (hb : OpdOK s inp st b y)
    (hok : instrOKE ⟨.umod, [a, b], some (id, ow)⟩ = true)
    (hev : evalOp .umod ([a, b].map (argVal st)) ow = some v)
    (hest : ∀ p ∈ divInstOf .umod ([a, b].map (argVal st)), EstOn est inp p) :
    Spec inp s (some' (do let d ← dividerPad est x y 0 ow; pure d.2)) (Post inp v) := by
  have h2 := instrOKE_div (Or.inr rfl) hok
  rw [map2 ha hb] at hev hest
  rw [divInstOf_two _ (Or.inr rfl)] at hest
  simp only [evalOp] at hev
  split at hev
  · cases hev
  · next hne =>
    simp only [Option.some.injEq] at hev
    subst hev
    rw [← ha.len, ← hb.len] at h2
    apply some'_post
    refine (dividerPad_spec hwf 0 ow ha.1 hb.1 h2 (by omega) (hest _ (List.mem_singleton.mpr rfl))).map ?_
    intro t s' _ ⟨_, hb2, _, _, _, hv⟩
    exact ⟨hb2, hv⟩

/-- One instruction of the GMW back end with the estimator `est`: if `evalOp`
is defined with value `v` and the estimator is within one on the instruction's
divider instance (if it has one), the delivered wires carry `v`. -/
theorem compileOpE_sound {est : List Nat → List Nat → BM (List Nat)} {s : St} {inp : List Bool} {z : Nat}
    {st : Nat → Nat} (hwf : WF s inp) (hz : Holds s inp z false) (op : SOp) (ins : List SArg) (id ow : Nat)
    (hok : instrOKE ⟨op, ins, some (id, ow)⟩ = true) (xs : List Opd) (hxs : OpdsRel s inp st ins xs)
    (v : Nat) (hev : evalOp op (ins.map (argVal st)) ow = some v)
    (hest : ∀ p ∈ divInstOf op (ins.map (argVal st)), EstOn est inp p) :
    Spec inp s (compileOpE est z op xs ow) (Post inp v) := by
  unfold compileOpE
  by_cases hdiv : op = .udiv ∨ op = .umod
  · simp only [hdiv, if_true]
    split
    · next x y =>
      obtain ⟨a, b, rfl, ha, hb⟩ := rel2 hxs
      by_cases hu : op = .udiv
      · subst hu
        simp only [if_true]
        exact udivE_case hwf ha hb hok hev hest
      · have hm : op = .umod := by rcases hdiv with h | h; exact absurd h hu; exact h
        subst hm
        simp only [hu, if_false]
        exact umodE_case hwf ha hb hok hev hest
    · exact none_post hwf v
  · simp only [hdiv, if_false]
    exact compileOp_sound hwf hz op ins id ow (instrOKE_other hdiv hok) xs hxs v hev

/-! ### the step list -/

theorem compileStepsE_sound {est : List Nat → List Nat → BM (List Nat)} {inp : List Bool} {z o : Nat} :
    ∀ (steps : List SInstr) {s : St} {env : WEnv} {st : Nat → Nat}, WF s inp → Holds s inp z false →
    Holds s inp o true → EnvInv s inp env st → steps.all instrOKE = true →
    (∀ p ∈ divInstances steps st, EstOn est inp p) →
    ∀ r, ssaRun steps st = some r →
    Spec inp s (compileStepsE est z o steps env) (fun res s' => ∀ outs, res = some outs →
      outs.map (fun ws => (toNat (busVal s' inp ws), ws.length)) = r)
  | [], s, env, st, hwf, _, _, _, _, _, r, hr => by simp [ssaRun] at hr
  | i :: rest, s, env, st, hwf, hz, ho, hinv, hall, hest, r, hr => by
    obtain ⟨op, ins, out⟩ := i
    simp only [List.all_cons, Bool.and_eq_true] at hall
    obtain ⟨hok, hrest⟩ := hall
    unfold compileStepsE
    by_cases hret : op = .ret
    · subst hret
      simp only [if_true]
      simp only [ssaRun, if_true, Option.some.injEq] at hr
      subst hr
      split
      · next xs hxs =>
        obtain ⟨hb, hv⟩ := ret_operands (st := st) hz ho hinv ins xs hxs
        unfold some'
        refine (retBuses_spec xs hwf hb).map ?_
        intro os s' _ hos outs houts
        simp only [Option.some.injEq] at houts
        subst houts
        rw [hos, hv]
      · exact Spec.pure hwf (fun _ h => by cases h)
    · simp only [hret, if_false]
      cases out with
      | none => exact Spec.pure hwf (fun _ h => by cases h)
      | some idow =>
        obtain ⟨id, ow⟩ := idow
        simp only
        split
        · exact Spec.pure hwf (fun _ h => by cases h)
        · next xs hxs =>
          have hrel := operands_spec (st := st) hz ho hinv ins xs hxs
          cases hev : evalOp op (ins.map (argVal st)) ow with
          | none => simp [ssaRun, hret, hev] at hr
          | some v =>
            have hr' : ssaRun rest (SStore.set st id v) = some r := by
              simpa [ssaRun, hret, hev] using hr
            have hinst : divInstances (⟨op, ins, some (id, ow)⟩ :: rest) st =
                divInstOf op (ins.map (argVal st)) ++ divInstances rest (SStore.set st id v) := by
              simp [divInstances, hret, hev]
            rw [hinst] at hest
            refine Spec.bind (compileOpE_sound hwf hz op ins id ow hok xs hrel v hev
              (fun p hp => hest p (List.mem_append_left _ hp))) ?_
            intro res s1 e1 hres
            cases res with
            | none => exact Spec.pure e1.wf (fun _ h => by cases h)
            | some ws =>
              obtain ⟨hwb, hwv⟩ := hres ws rfl
              exact compileStepsE_sound rest e1.wf (hz.mono e1) (ho.mono e1)
                ((hinv.mono e1).set hwb hwv) hrest (fun p hp => hest p (List.mem_append_right _ hp)) r hr'

/-- The GMW back end with the estimator `est` computes `ssaEval` on every
argument tuple on which the program is defined and `est` is within one on the
divider instances of that run. -/
theorem ssaCompileE_sound (est : List Nat → List Nat → BM (List Nat)) (ins : List (Nat × Nat)) (steps : List SInstr)
    (hall : steps.all instrOKE = true) (s : St) (outs : List (List Nat))
    (hc : ssaCompileE est ins steps = some (s, outs)) (args : List Nat) (r : List (Nat × Nat))
    (hr : ssaEval (Nat → Nat) ins steps args = some r)
    (hest : ∀ p ∈ divInstancesOf (Nat → Nat) ins steps args, EstOn est (inputBits ins args) p) :
    WF s (inputBits ins args) ∧
      outs.map (fun ws => (toNat (busVal s (inputBits ins args) ws), ws.length)) = r := by
  unfold ssaCompileE at hc
  by_cases hn : nInputs ins = 0
  · simp [hn] at hc
  simp only [hn, if_false, Option.map_eq_some_iff, Prod.mk.injEq] at hc
  obtain ⟨outs', hres, hs, rfl⟩ := hc
  simp only [ssaEval, Option.bind_eq_some_iff] at hr
  obtain ⟨st0, hload, hrun⟩ := hr
  have hest' : ∀ p ∈ divInstances steps st0, EstOn est (inputBits ins args) p := by
    simpa [divInstancesOf, hload] using hest
  have hlen := loadInputs_length ins args _ st0 hload
  have hil := inputBits_length ins args hlen
  have h0 : WF ({ nIn := nInputs ins } : St) (inputBits ins args) := emptySt_wf hil (by omega)
  obtain ⟨e1, hz⟩ := zeroWire_spec h0
  obtain ⟨e2, ho⟩ := oneWire_spec e1.wf
  have e02 := e1.trans e2
  have hinv0 : EnvInv (oneWire (zeroWire { nIn := nInputs ins }).2).2 (inputBits ins args) [] SStore.empty := by
    intro id ws h; simp [WEnv.find] at h
  have hinv := inputEnv_inv e02 hil.symm ins args 0 [] _ st0 hload (by simp) (by omega) hinv0
  obtain ⟨e3, hq⟩ := compileStepsE_sound (est := est) steps e2.wf (hz.mono e2) ho hinv hall hest' r hrun
  rw [← hs]
  exact ⟨e3.wf, hq _ hres⟩

/-- Circuit-evaluation form. -/
theorem ssaCircuitEvalE_correct (est : List Nat → List Nat → BM (List Nat)) (ins : List (Nat × Nat))
    (steps : List SInstr) (hsup : SupportedE est ins steps = true) (args : List Nat) (r : List (Nat × Nat))
    (hr : ssaEval (Nat → Nat) ins steps args = some r)
    (hest : ∀ p ∈ divInstancesOf (Nat → Nat) ins steps args, EstOn est (inputBits ins args) p) :
    ssaCircuitEvalE est ins steps args = some r := by
  simp only [SupportedE, Bool.and_eq_true, Option.isSome_iff_exists] at hsup
  obtain ⟨hall, ⟨s, outs⟩, hc⟩ := hsup
  have := (ssaCompileE_sound est ins steps hall s outs hc args r hr hest).2
  simp only [ssaCircuitEvalE, hc, Option.map_some, Option.some.injEq]
  rw [← this]
  rfl

end Mpc.SsaC

/-
C10: levels as a topological schedule, and where a fixed-width level counter
stops being one (`Model/LevelsMod.lean`).
-/
import MpcVerif.Proofs.GmwSchedule
import MpcVerif.Model.LevelsMod

set_option linter.unusedSimpArgs false

namespace Mpc
open Mpc.Gmw

/-- **Levels are a topological schedule of `Network.run`**: whenever a gate
`h` earlier in the circuit produces an input of gate `a`, the level of `a` is
at least the level of `h`, and strictly larger when `h` is an AND gate (then
`a` is evaluated in a later round; otherwise `h` is a non-AND gate of the same
or an earlier level and earlier in circuit order, evaluated before `a`). -/
def TopoLevels (gl : List (Gate × Nat)) : Prop :=
  ∀ pre a post, gl = pre ++ a :: post → ∀ h ∈ pre, h.1.out ∈ a.1.ins → h.2 + andBump h.1 ≤ a.2

theorem bump_true (g : Gate) : bump true g = andBump g := rfl

/-- The `Nat` levels of the model are topological (`levels_mono`). -/
theorem levels_topological (c : Circuit) (hssa : SSA c.numWires c.gates c.inputDefined) :
    TopoLevels (glv c) := by
  intro pre a post hl h hh hw
  have := levels_mono c hssa pre a post hl h hh hw
  rw [bump_true] at this
  exact this

/-! ### The linear check is sound for single-assignment gate lists -/

theorem topoGo_cons (a : Gate × Nat) (rest : List (Gate × Nat)) (nd : Array Nat) :
    topoGo (a :: rest) nd =
      (a.1.ins.all (fun w => decide (nd.getD w 0 ≤ a.2)) &&
        topoGo rest (nd.setIfInBounds a.1.out (a.2 + andBump a.1))) := rfl

theorem topoGo_ge (w : Nat) : ∀ (gl : List (Gate × Nat)) (nd : Array Nat),
    (∀ a ∈ gl, a.1.out ≠ w) → topoGo gl nd = true →
    ∀ a ∈ gl, w ∈ a.1.ins → nd.getD w 0 ≤ a.2 := by
  intro gl
  induction gl with
  | nil => intro nd _ _ a ha; simp at ha
  | cons g gl ih =>
    intro nd hne ht a ha hw
    rw [topoGo_cons, Bool.and_eq_true] at ht
    rcases List.mem_cons.mp ha with rfl | ha
    · have := List.all_eq_true.mp ht.1 w hw
      exact of_decide_eq_true this
    · have := ih _ (fun a' ha' => hne a' (List.mem_cons_of_mem _ ha')) ht.2 a ha hw
      rw [getD_set_ne _ _ _ _ _ (hne g List.mem_cons_self)] at this
      exact this

/-- `topoGo` accepts only topological level tables (distinct gate outputs
inside the table: single assignment). -/
theorem topoGo_sound : ∀ (gl : List (Gate × Nat)) (nd : Array Nat),
    (gl.map (·.1.out)).Nodup → (∀ a ∈ gl, a.1.out < nd.size) → topoGo gl nd = true → TopoLevels gl := by
  intro gl
  induction gl with
  | nil => intro nd _ _ _ pre a post hl; simp at hl
  | cons g gl ih =>
    intro nd hnd hsz ht pre a post hl h hh hw
    simp only [List.map_cons, List.nodup_cons, List.mem_map, not_exists, not_and] at hnd
    rw [topoGo_cons, Bool.and_eq_true] at ht
    match pre, hl, hh with
    | [], _, hh => simp at hh
    | p :: pre', hl, hh =>
      simp only [List.cons_append, List.cons.injEq] at hl
      obtain ⟨hp, hl⟩ := hl
      have hsz' : ∀ a' ∈ gl, a'.1.out < (nd.setIfInBounds g.1.out (g.2 + andBump g.1)).size := by
        intro a' ha'
        rw [Array.size_setIfInBounds]
        exact hsz a' (List.mem_cons_of_mem _ ha')
      rcases List.mem_cons.mp hh with rfl | hh
      · subst hp
        have ha : a ∈ gl := by rw [hl]; simp
        have := topoGo_ge g.1.out gl _ (fun a' ha' e => hnd.1 a' ha' e) ht.2 a ha hw
        rw [getD_set_eq _ _ _ _ (hsz g List.mem_cons_self)] at this
        exact this
      · exact ih _ hnd.2 hsz' ht.2 pre' a post hl h hh hw

theorem topoCheck_sound (n : Nat) (gl : List (Gate × Nat)) (hnd : (gl.map (·.1.out)).Nodup)
    (hsz : ∀ a ∈ gl, a.1.out < n) (h : topoCheck n gl = true) : TopoLevels gl :=
  topoGo_sound gl _ hnd (fun a ha => by rw [Array.size_replicate]; exact hsz a ha) h

/-! ### The check accepts the model's levels (every circuit) -/

theorem ins_all_le (g : Gate) (lv : Array Nat) :
    g.ins.all (fun w => decide (lv.getD w 0 ≤
      (if g.op.binary then max (lv.getD g.in0 0) (lv.getD g.in1 0) else lv.getD g.in0 0))) = true := by
  unfold Gate.ins
  split <;> simp <;> omega

theorem topoGo_assignLevelsGo : ∀ (gs : List Gate) (lv : Array Nat) (mx : Nat),
    topoGo (gs.zip (assignLevelsGo true gs lv mx).1) lv = true := by
  intro gs
  induction gs with
  | nil => intro lv mx; rfl
  | cons g gs ih =>
    intro lv mx
    rw [assignLevelsGo_cons]
    simp only [List.zip_cons_cons, topoGo_cons, Bool.and_eq_true]
    exact ⟨ins_all_le g lv, ih _ _⟩

theorem topoCheck_assignLevels (c : Circuit) : topoCheck c.numWires (glv c) = true :=
  topoGo_assignLevelsGo c.gates _ 0

/-! ### A `k`-bit counter -/

theorem assignLevelsModGo_cons (k : Nat) (g : Gate) (gs : List Gate) (lv : Array Nat) (mx : Nat) :
    assignLevelsModGo k (g :: gs) lv mx =
      let level := if g.op.binary then max (lv.getD g.in0 0) (lv.getD g.in1 0) else lv.getD g.in0 0
      let r := assignLevelsModGo k gs (lv.setIfInBounds g.out ((level + andBump g) % 2 ^ k))
        (max mx ((level + andBump g) % 2 ^ k))
      (level :: r.1, r.2) := rfl

theorem assignLevelsModGo_length (k : Nat) : ∀ (gs : List Gate) (lv : Array Nat) (mx : Nat),
    (assignLevelsModGo k gs lv mx).1.length = gs.length := by
  intro gs
  induction gs with
  | nil => intro lv mx; rfl
  | cons g gs ih => intro lv mx; rw [assignLevelsModGo_cons]; simp [ih]

theorem getD_set_lt (lv : Array Nat) (i j v m : Nat) (h : lv.getD j 0 < m) (hv : v < m) :
    (lv.setIfInBounds i v).getD j 0 < m := by
  by_cases hij : i = j
  · subst hij
    by_cases hs : i < lv.size
    · rw [getD_set_eq _ _ _ _ hs]; exact hv
    · simp only [Array.getD_eq_getD_getElem?] at h ⊢
      rw [Array.getElem?_setIfInBounds]
      simpa [hs] using h
  · rw [getD_set_ne _ _ _ _ _ hij]; exact h

/-- Every gate level a `k`-bit counter produces is below `2^k`. -/
theorem assignLevelsModGo_lt (k : Nat) : ∀ (gs : List Gate) (lv : Array Nat) (mx : Nat),
    (∀ i, lv.getD i 0 < 2 ^ k) → ∀ l ∈ (assignLevelsModGo k gs lv mx).1, l < 2 ^ k := by
  intro gs
  induction gs with
  | nil => intro lv mx _ l hl; simp [assignLevelsModGo] at hl
  | cons g gs ih =>
    intro lv mx hlv l hl
    rw [assignLevelsModGo_cons] at hl
    simp only [List.mem_cons] at hl
    rcases hl with rfl | hl
    · have h0 := hlv g.in0
      have h1 := hlv g.in1
      split <;> omega
    · refine ih _ _ (fun i => ?_) l hl
      exact getD_set_lt _ _ _ _ _ (hlv i) (Nat.mod_lt _ (Nat.two_pow_pos k))

theorem assignLevelsMod_lt (c : Circuit) (k : Nat) : ∀ l ∈ (c.assignLevelsMod k).1, l < 2 ^ k := by
  refine assignLevelsModGo_lt k c.gates _ 0 (fun i => ?_)
  have : (Array.replicate c.numWires 0).getD i 0 = 0 := by simp [Array.getD]
  rw [this]; exact Nat.two_pow_pos k

/-- **No-overflow side condition.**  As long as the maximal wire level
(`Stats[NumLevels]`, the AND depth) fits the counter, the `k`-bit loop computes
exactly the `Nat` levels. -/
theorem assignLevelsModGo_eq (k : Nat) : ∀ (gs : List Gate) (lv : Array Nat) (mx : Nat),
    (assignLevelsGo true gs lv mx).2 < 2 ^ k →
    assignLevelsModGo k gs lv mx = assignLevelsGo true gs lv mx := by
  intro gs
  induction gs with
  | nil => intro lv mx _; rfl
  | cons g gs ih =>
    intro lv mx h
    rw [assignLevelsGo_cons] at h ⊢
    rw [assignLevelsModGo_cons]
    simp only [bump_true] at h ⊢
    have hge := assignLevelsGo_max_ge true gs
      (lv.setIfInBounds g.out ((if g.op.binary then max (lv.getD g.in0 0) (lv.getD g.in1 0) else lv.getD g.in0 0) +
        andBump g))
      (max mx ((if g.op.binary then max (lv.getD g.in0 0) (lv.getD g.in1 0) else lv.getD g.in0 0) + andBump g))
    have hlt : (if g.op.binary then max (lv.getD g.in0 0) (lv.getD g.in1 0) else lv.getD g.in0 0) + andBump g
        < 2 ^ k := by
      have := Nat.le_max_right mx
        ((if g.op.binary then max (lv.getD g.in0 0) (lv.getD g.in1 0) else lv.getD g.in0 0) + andBump g)
      omega
    simp only [Nat.mod_eq_of_lt hlt]
    rw [ih _ _ h]

theorem assignLevelsMod_eq (c : Circuit) (k : Nat) (h : (c.assignLevels true).2 < 2 ^ k) :
    c.assignLevelsMod k = c.assignLevels true :=
  assignLevelsModGo_eq k c.gates _ 0 h

/-! ### The chain family: bounded levels are not a topological schedule -/

theorem chainGates_length (d : Nat) : (chainGates d).length = d := by simp [chainGates]

theorem chain_zip (d : Nat) (lv : List Nat) (hl : lv.length = d) :
    (chainGates d).zip lv = (List.range d).map fun j => (chainGate j, lv.getD j 0) := by
  apply List.ext_getElem
  · simp [chainGates, hl]
  · intro i h1 h2
    have hi : i < lv.length := by simp [chainGates] at h1; omega
    simp [chainGates, List.getElem_zip, List.getD_eq_getElem?_getD, List.getElem?_eq_getElem hi]

/-- Along the chain a topological level table grows by one per gate. -/
theorem chain_levels_ge (d : Nat) (f : Nat → Nat)
    (ht : TopoLevels ((List.range d).map fun j => (chainGate j, f j))) :
    ∀ j, j < d → f 0 + j ≤ f j := by
  intro j
  induction j with
  | zero => intro _; omega
  | succ j ih =>
    intro hj
    have hj' : j < d := by omega
    let l := (List.range d).map fun j => (chainGate j, f j)
    have hlen : l.length = d := by simp [l]
    have hsplit : l = l.take (j + 1) ++ l[j + 1]'(by omega) :: l.drop (j + 2) := by
      rw [List.getElem_cons_drop, List.take_append_drop]
    have hmem : (chainGate j, f j) ∈ l.take (j + 1) := by
      have hlt : j < (l.take (j + 1)).length := by simp [hlen]; omega
      have : (l.take (j + 1))[j]'hlt = (chainGate j, f j) := by
        simp [l, List.getElem_take]
      rw [← this]
      exact List.getElem_mem _
    have hget : l[j + 1]'(by omega) = (chainGate (j + 1), f (j + 1)) := by simp [l]
    have := ht (l.take (j + 1)) (l[j + 1]'(by omega)) (l.drop (j + 2)) hsplit _ hmem
      (by rw [hget]; simp [chainGate, Gate.ins, Op.binary])
    rw [hget] at this
    have hb : andBump (chainGate j) = 1 := rfl
    simp only [hb] at this
    have := ih hj'
    omega

/-- No level table with all entries below `2^k` is a topological schedule of
the chain of AND depth `2^k + 1`. -/
theorem chain_bounded_not_topo (k : Nat) (lv : List Nat) (hl : lv.length = 2 ^ k + 1)
    (hb : ∀ l ∈ lv, l < 2 ^ k) : ¬ TopoLevels ((chainGates (2 ^ k + 1)).zip lv) := by
  intro ht
  rw [chain_zip _ lv hl] at ht
  have h := chain_levels_ge _ _ ht (2 ^ k) (by omega)
  have hlt : 2 ^ k < lv.length := by omega
  have hmem : lv.getD (2 ^ k) 0 ∈ lv := by
    rw [List.getD_eq_getElem?_getD, List.getElem?_eq_getElem hlt]
    exact List.getElem_mem _
  have := hb _ hmem
  omega

/-- The level table a `k`-bit counter computes for the chain of depth `2^k + 1`
is not a topological schedule. -/
theorem chain_mod_not_topo (k : Nat) :
    ¬ TopoLevels ((chain (2 ^ k + 1)).gates.zip ((chain (2 ^ k + 1)).assignLevelsMod k).1) := by
  refine chain_bounded_not_topo k _ ?_ (assignLevelsMod_lt _ k)
  simp [Circuit.assignLevelsMod, assignLevelsModGo_length, chain, chainGates_length]

/-- … and the linear check rejects it. -/
theorem chain_mod_check_false (k : Nat) :
    topoCheck (chain (2 ^ k + 1)).numWires
      ((chain (2 ^ k + 1)).gates.zip ((chain (2 ^ k + 1)).assignLevelsMod k).1) = false := by
  cases h : topoCheck (chain (2 ^ k + 1)).numWires
      ((chain (2 ^ k + 1)).gates.zip ((chain (2 ^ k + 1)).assignLevelsMod k).1) with
  | false => rfl
  | true =>
    exfalso
    refine chain_mod_not_topo k (topoCheck_sound _ _ ?_ ?_ h)
    · have hlen : ((chain (2 ^ k + 1)).assignLevelsMod k).1.length = (chain (2 ^ k + 1)).gates.length := by
        simp [Circuit.assignLevelsMod, assignLevelsModGo_length]
      have : ((chain (2 ^ k + 1)).gates.zip ((chain (2 ^ k + 1)).assignLevelsMod k).1).map (·.1.out) =
          (chain (2 ^ k + 1)).gates.map (·.out) := by
        have := List.map_fst_zip (l₁ := (chain (2 ^ k + 1)).gates)
          (l₂ := ((chain (2 ^ k + 1)).assignLevelsMod k).1) (by omega)
        have h2 := congrArg (List.map (·.out)) this
        rw [List.map_map] at h2
        exact h2
      rw [this]
      simp only [chain, chainGates, List.map_map]
      rw [List.Nodup, List.pairwise_map]
      exact List.Pairwise.imp (fun {a b} hab => by simpa [chainGate] using hab) List.nodup_range
    · intro a ha
      have := (List.of_mem_zip (a := a.1) (b := a.2) ha).1
      simp only [chain, chainGates, List.mem_map, List.mem_range] at this
      obtain ⟨j, hj, hje⟩ := this
      rw [← hje]
      simp [chain, chainGate]; omega

/-! ### The driver's fast initial store -/

theorem initStoreFast_eq {α : Type} (n : Nat) (d : α) (l : List α) : initStoreFast n d l = initStore n d l := by
  apply Array.ext
  · simp [initStoreFast, initStore]; omega
  · intro i h1 h2
    have hn : i < n := by simpa [initStore] using h2
    simp only [initStoreFast, initStore, Array.getElem_map, Array.getElem_range, Array.getElem_append,
      List.size_toArray, List.length_take, List.getElem_toArray, List.getElem_take, Array.getElem_replicate]
    by_cases hl : i < l.length
    · have : i < min n l.length := by omega
      simp [this, hl, List.getD_eq_getElem?_getD]
    · have : ¬ i < min n l.length := by omega
      simp [this, hl, List.getD_eq_getElem?_getD]

theorem computeFast_eq (c : Circuit) (x : List Bool) : c.computeFast x = c.compute x := by
  simp [Circuit.computeFast, Circuit.compute, Circuit.plainEval, initStoreFast_eq]

/-- `Gmw.schedule` is `scheduleWith` at the model's levels. -/
theorem schedule_eq_scheduleWith (c : Circuit) : schedule c = scheduleWith c (c.assignLevels true) := by
  simp [schedule, scheduleWith, blocks, List.flatMap_map]

end Mpc

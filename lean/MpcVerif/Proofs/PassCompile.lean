/-
C09: `Graph.compileChecked` (model of `Compiler.Compile` with its run
validated by `compileChecks`) preserves the input-to-output function.

Proved here: whenever the validated compile returns a circuit, that circuit
computes the function of the graph on every input.  NOT proved (validated on
every run instead, inside the model function): that the breadth-first id
assignment of `Compile` always produces an injective numbering, assigns ids
to all wires of the gates it emits, emits them in topological order and
reaches the producer of every output.
-/
import MpcVerif.Proofs.PassOps

set_option linter.unusedSimpArgs false
set_option linter.unusedVariables false

namespace Mpc

theorem get_range_map {α : Type} [Inhabited α] (n : Nat) (f : Nat → α) (i : Nat) (h : i < n) :
    Store.get ((Array.range n).map f) i = f i := by
  simp [Store.get, Array.getD, h]

/-- A successful abstract-interpretation pass certifies single assignment and
topological order. -/
theorem C09_absRun_ssa' (c : Circuit) (wit : Array Nat) (hn : c.nIn ≤ c.numWires)
    (h : (c.absRun wit).isSome = true) : SSA c.numWires c.gates c.inputDefined := by
  simp only [Circuit.absRun] at h
  cases hr : passGates true c.gates.toArray #[] #[] wit c.gates 0 (initAbs c.numWires c.nIn)
      (initDef c.numWires c.nIn) with
  | none => rw [hr] at h; simp at h
  | some r =>
    obtain ⟨abs', d'⟩ := r
    exact (c.pass_facts true _ _ _ _ _ _ hn hr []).1

namespace Graph

theorem map_eq_range_map {α β : Type} (l : List α) (f : α → β) (d : α) :
    l.map f = (List.range l.length).map fun i => f (l.getD i d) := by
  apply List.ext_getElem
  · simp
  · intro i h1 h2
    simp at h1
    simp [List.getD_eq_getElem?_getD, h1]

/-- every gate of the compiled circuit is `emitGate` of an assigned gate -/
theorem mem_compile_gates (G : Graph) (gmw : Bool) (st : CState) (C : Circuit)
    (hst : G.compileState = some st) (hC : G.compile gmw = some C) :
    C.numWires = st.next ∧ C.nIn = G.nIn ∧ C.nOut = G.outputs.length ∧
    ∀ g ∈ C.gates, ∃ h ∈ st.assigned.toList, g = G.emitGate st h := by
  unfold compile at hC
  rw [hst] at hC
  simp only [Option.some.injEq] at hC
  subst hC
  refine ⟨rfl, rfl, rfl, fun g hg => ?_⟩
  simp only [List.mem_map] at hg
  obtain ⟨pr, hpr, rfl⟩ := hg
  have hmem : pr ∈ st.assigned.toList.map fun h => (G.emitGate st h, st.level.getD h 0) := by
    cases gmw
    · simpa using hpr
    · simp only [if_true, compileSort] at hpr
      exact (List.mergeSort_perm _ _).mem_iff.mp hpr
  simp only [List.mem_map] at hmem
  obtain ⟨h, hh, rfl⟩ := hmem
  exact ⟨h, hh, rfl⟩

/-- **The validated `Compile` preserves the function of the graph.** -/
theorem compileChecked_preserves (G : Graph) (gmw : Bool) (C : Circuit) (hwf : G.GWF)
    (hc : G.compileChecked gmw = some C) : ∀ x, C.compute x = G.compute x := by
  unfold compileChecked at hc
  split at hc
  · rename_i st C' hst hC
    split at hc
    · rename_i hchk
      simp only [Option.some.injEq] at hc
      subst hc
      obtain ⟨hnw, hnin, hnout, hmem⟩ := mem_compile_gates G gmw st C' hst hC
      unfold compileChecks at hchk
      simp only [Bool.and_eq_true, decide_eq_true_eq, List.all_eq_true, List.mem_range] at hchk
      obtain ⟨⟨⟨⟨⟨⟨hninle, houtle⟩, hinv⟩, hinp⟩, hasg⟩, habs⟩, hout⟩ := hchk
      intro x
      have hs := evalStore_gsol hwf x
      -- the store of the compiled circuit, read off the graph's solution
      have hsC : ∃ sC : Store Bool, ∀ w k, w < G.wires.size → st.ids.getD w none = some k →
          sC.get k = (G.evalStore x).get w := by
        refine ⟨(Array.range C'.numWires).map fun k =>
          match (G.mkInv st).getD k none with
          | some w => (G.evalStore x).get w
          | none => false, fun w k hw hk => ?_⟩
        have := hinv w hw
        rw [hk] at this
        simp only [Bool.and_eq_true, decide_eq_true_eq, beq_iff_eq] at this
        rw [get_range_map _ _ _ (by rw [hnw]; exact this.1)]
        simp only [this.2]
      obtain ⟨sC, hsC⟩ := hsC
      -- ids of wires that have one
      have hid : ∀ w, w < G.wires.size → (st.ids.getD w none).isSome = true →
          sC.get ((st.ids.getD w none).getD 0) = (G.evalStore x).get w := by
        intro w hw hsome
        cases hk : st.ids.getD w none with
        | none => rw [hk] at hsome; simp at hsome
        | some k => exact hsC w k hw hk
      -- the compiled gates' equations hold in sC
      have hsem : Sem sC C'.gates := by
        intro g hg
        obtain ⟨h, hh, rfl⟩ := hmem g hg
        have hc := hasg h hh
        simp only [Bool.and_eq_true, decide_eq_true_eq, Bool.or_eq_true, beq_iff_eq,
          Bool.not_eq_true'] at hc
        obtain ⟨⟨⟨⟨hlt, hdead⟩, ha⟩, hb⟩, ho⟩ := hc
        have heq := hs.sem h ⟨hlt, hdead⟩
        simp only [gateEq] at heq
        simp only [emitGate]
        rw [hid _ ha.1 ha.2, hid _ ho.1 ho.2, heq]
        by_cases hop : (G.gate h).op = .inv
        · exact Op.eval_unary _ (by rw [hop]; rfl) _ _ _
        · rcases hb with hb | hb
          · exact absurd hb hop
          · rw [if_neg hop, hid _ hb.1 hb.2]
      -- the compiled circuit is single-assignment and topologically ordered
      have hssa : SSA C'.numWires C'.gates C'.inputDefined :=
        C09_absRun_ssa' C' #[] (by rw [hnw, hnin]; exact hninle) habs
      have hsz : (initStore C'.numWires false (x.take C'.nIn)).size = C'.numWires := by simp [initStore]
      obtain ⟨hkeep, hsem2⟩ := ssa_sem C'.numWires C'.gates _ _ hsz hssa
      have hagree := sem_agree C'.numWires (C'.plainEval x) sC C'.gates C'.inputDefined hssa.1
        hsem2 hsem (fun w hw => by
          simp only [Circuit.inputDefined, decide_eq_true_eq] at hw
          have h1 := hkeep w (by simp [Circuit.inputDefined, hw])
          simp only [Circuit.plainEval]
          rw [h1, get_initStore _ _ _ (by rw [hnw]; rw [hnin] at hw; omega)]
          rw [hnin] at hw ⊢
          have := hinp w hw
          simp only [beq_iff_eq] at this
          rw [hsC w w (by have := hwf.nin; omega) this]
          exact (hs.inp w hw).symm)
      -- outputs
      simp only [Circuit.compute, Circuit.outputs, Graph.compute]
      rw [map_eq_range_map G.outputs _ 0, hnout, hnw]
      apply List.map_congr_left
      intro i hi
      have ho := hout i (List.mem_range.mp hi)
      simp only [Bool.and_eq_true, decide_eq_true_eq, beq_iff_eq, Bool.or_eq_true,
        List.any_eq_true] at ho
      obtain ⟨⟨howb, hoid⟩, hodef⟩ := ho
      rw [hagree _ (by
        rw [definedAfter_iff]
        rcases hodef with hlt | ⟨g, hg, hgo⟩
        · left; simp [Circuit.inputDefined, hnin, hlt]
        · right; exact ⟨g, hg, hgo⟩)]
      exact hsC _ _ howb hoid
    · simp at hc
  · simp at hc

end Graph
end Mpc

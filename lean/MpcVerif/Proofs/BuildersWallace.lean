/-
Wallace-tree multiplier (C07): column-sum invariant
`Σ_i 2^i · |column_i|` for the recursive generator of Model/Builders.lean.
-/
import MpcVerif.Proofs.BuildersKara

namespace Mpc.Bld
open Mpc

/-! ### columns of bits -/

/-- Number of set bits. -/
def cnt (bs : List Bool) : Nat := (bs.map Bool.toNat).sum

@[simp] theorem cnt_nil : cnt [] = 0 := rfl
@[simp] theorem cnt_cons (b : Bool) (bs : List Bool) : cnt (b :: bs) = b.toNat + cnt bs := by simp [cnt]
theorem cnt_append (a b : List Bool) : cnt (a ++ b) = cnt a + cnt b := by simp [cnt]

/-- Weighted column sum `Σ_i 2^i · cnt(column_i)`. -/
def colsVal : List (List Bool) → Nat
  | [] => 0
  | c :: cs => cnt c + 2 * colsVal cs

theorem colsVal_append (l1 l2 : List (List Bool)) :
    colsVal (l1 ++ l2) = colsVal l1 + 2 ^ l1.length * colsVal l2 := by
  induction l1 with
  | nil => simp [colsVal]
  | cons c cs ih =>
    simp only [List.cons_append, colsVal, ih, List.length_cons, Nat.pow_succ]
    generalize 2 ^ cs.length = P
    have : P * 2 * colsVal l2 = 2 * (P * colsVal l2) := by grind
    omega

theorem colsVal_replicate_nil (k : Nat) : colsVal (List.replicate k []) = 0 := by
  induction k with
  | zero => rfl
  | succ k ih => simp [List.replicate_succ, colsVal, ih]

theorem addAt_length {α : Type} : ∀ (i : Nat) (cols : List (List α)) (ws : List α),
    i + ws.length ≤ cols.length → (addAt i cols ws).length = cols.length
  | 0, c :: cs, w :: ws, h => by
    simp only [addAt, List.length_cons]
    rw [addAt_length 0 cs ws (by simp at h ⊢; omega)]
  | 0, cs, [], _ => by cases cs <;> simp [addAt]
  | 0, [], _ :: _, h => by simp at h
  | i + 1, c :: cs, ws, h => by
    simp only [addAt, List.length_cons]
    rw [addAt_length i cs ws (by simp at h; omega)]
  | _ + 1, [], _, h => by simp at h

theorem addAt_map {α β : Type} (f : α → β) : ∀ (i : Nat) (cols : List (List α)) (ws : List α),
    (addAt i cols ws).map (List.map f) = addAt i (cols.map (List.map f)) (ws.map f)
  | 0, c :: cs, w :: ws => by simp [addAt, addAt_map f 0 cs ws]
  | 0, cs, [] => by cases cs <;> simp [addAt]
  | 0, [], _ :: _ => by simp [addAt]
  | i + 1, c :: cs, ws => by simp [addAt, addAt_map f i cs ws]
  | _ + 1, [], _ => by simp [addAt]

theorem addAt_mem {α : Type} : ∀ (i : Nat) (cols : List (List α)) (ws : List α) (c : List α),
    c ∈ addAt i cols ws → ∀ x ∈ c, (∃ c' ∈ cols, x ∈ c') ∨ x ∈ ws
  | 0, c0 :: cs, w :: ws, c, hc, x, hx => by
    simp only [addAt, List.mem_cons] at hc
    rcases hc with rfl | hc
    · rcases List.mem_append.mp hx with h | h
      · exact Or.inl ⟨c0, by simp, h⟩
      · simp at h; exact Or.inr (by simp [h])
    · rcases addAt_mem 0 cs ws c hc x hx with ⟨c', hc', hx'⟩ | h
      · exact Or.inl ⟨c', by simp [hc'], hx'⟩
      · exact Or.inr (by simp [h])
  | 0, cs, [], c, hc, x, hx => by
    have : addAt 0 cs ([] : List α) = cs := by cases cs <;> simp [addAt]
    rw [this] at hc
    exact Or.inl ⟨c, hc, hx⟩
  | 0, [], _ :: _, c, hc, _, _ => by simp [addAt] at hc
  | i + 1, c0 :: cs, ws, c, hc, x, hx => by
    simp only [addAt, List.mem_cons] at hc
    rcases hc with hc | hc
    · subst hc; exact Or.inl ⟨c, by simp, hx⟩
    · rcases addAt_mem i cs ws c hc x hx with ⟨c', hc', hx'⟩ | h
      · exact Or.inl ⟨c', by simp [hc'], hx'⟩
      · exact Or.inr h
  | _ + 1, [], _, c, hc, _, _ => by simp [addAt] at hc

theorem addAt_height {α : Type} (H : Nat) : ∀ (i : Nat) (cols : List (List α)) (ws : List α),
    (∀ c ∈ cols, c.length ≤ H) → ∀ c ∈ addAt i cols ws, c.length ≤ H + 1
  | 0, c0 :: cs, w :: ws, h, c, hc => by
    simp only [addAt, List.mem_cons] at hc
    rcases hc with rfl | hc
    · have := h c0 (by simp); simp; omega
    · exact addAt_height H 0 cs ws (fun c h' => h c (by simp [h'])) c hc
  | 0, cs, [], h, c, hc => by
    have : addAt 0 cs ([] : List α) = cs := by cases cs <;> simp [addAt]
    rw [this] at hc
    have := h c hc; omega
  | 0, [], _ :: _, _, c, hc => by simp [addAt] at hc
  | i + 1, c0 :: cs, ws, h, c, hc => by
    simp only [addAt, List.mem_cons] at hc
    rcases hc with hc | hc
    · subst hc; have := h c (by simp); omega
    · exact addAt_height H i cs ws (fun c h' => h c (by simp [h'])) c hc
  | _ + 1, [], _, _, c, hc => by simp [addAt] at hc

theorem colsVal_addAt : ∀ (i : Nat) (cols : List (List Bool)) (ws : List Bool),
    i + ws.length ≤ cols.length → colsVal (addAt i cols ws) = colsVal cols + 2 ^ i * toNat ws
  | 0, c :: cs, w :: ws, h => by
    simp only [addAt, colsVal, cnt_append, cnt_cons, cnt_nil, toNat_cons]
    rw [colsVal_addAt 0 cs ws (by simp at h ⊢; omega)]
    simp; omega
  | 0, cs, [], _ => by cases cs <;> simp [addAt]
  | 0, [], _ :: _, h => by simp at h
  | i + 1, c :: cs, ws, h => by
    simp only [addAt, colsVal]
    rw [colsVal_addAt i cs ws (by simp at h; omega), Nat.pow_succ]
    generalize 2 ^ i = P
    have : P * 2 * toNat ws = 2 * (P * toNat ws) := by grind
    omega
  | _ + 1, [], _, h => by simp at h

/-- All wires of all columns exist. -/
def BndC (s : St) (cols : List (List Nat)) : Prop := ∀ c ∈ cols, Bnd s c

/-- Values of the columns. -/
def colsBV (s : St) (inp : List Bool) (cols : List (List Nat)) : List (List Bool) :=
  cols.map (busVal s inp)

theorem BndC.mono {s s' : St} {inp : List Bool} {cols : List (List Nat)} (e : Ext s s' inp) (h : BndC s cols) :
    BndC s' cols := fun c hc => (h c hc).mono e

theorem colsBV_ext {s s' : St} {inp : List Bool} {cols : List (List Nat)} (e : Ext s s' inp) (h : BndC s cols) :
    colsBV s' inp cols = colsBV s inp cols :=
  List.map_congr_left fun c hc => busVal_ext e (h c hc)

theorem BndC.addAt {s : St} {cols : List (List Nat)} {ws : List Nat} (h : BndC s cols) (hw : Bnd s ws) (i : Nat) :
    BndC s (addAt i cols ws) := by
  intro c hc x hx
  rcases addAt_mem i cols ws c hc x hx with ⟨c', hc', hx'⟩ | h'
  · exact h c' hc' x hx'
  · exact hw x h'

theorem colsBV_addAt (s : St) (inp : List Bool) (i : Nat) (cols : List (List Nat)) (ws : List Nat) :
    colsBV s inp (addAt i cols ws) = addAt i (colsBV s inp cols) (busVal s inp ws) := by
  simp only [colsBV, busVal]
  exact addAt_map (s.val inp) i cols ws

/-! ### partial products -/

theorem toNat_map_and' (a : Bool) (bs : List Bool) : toNat (bs.map (a && ·)) = a.toNat * toNat bs := by
  induction bs with
  | nil => simp
  | cons b r ih =>
    simp only [List.map_cons, toNat_cons, ih]
    cases a <;> cases b <;> simp <;> omega

theorem wlRow_spec {inp : List Bool} (ai : Nat) (b : List Nat) :
    ∀ {s : St} (_ : WF s inp), Bnd s b → ai < s.next →
    Spec inp s (wlRow ai b) (fun r s' => Bnd s' r ∧ r.length = b.length ∧
      busVal s' inp r = (busVal s inp b).map (s.val inp ai && ·)) := by
  induction b with
  | nil => intro s hwf _ _; exact Spec.pure hwf ⟨Bnd.nil s, rfl, rfl⟩
  | cons bj bs ih =>
    intro s hwf hb ha
    simp only [wlRow]
    refine Spec.bind (gateF_spec .and s ai bj hwf ha hb.head) ?_
    intro w s1 e1 hw
    refine Spec.bind (ih e1.wf (hb.tail.mono e1) (Nat.lt_of_lt_of_le ha e1.next)) ?_
    intro r s2 e2 ⟨hr, hrl, hrv⟩
    refine Spec.pure e2.wf ⟨Bnd.cons (hw.mono e2).1 hr, by simp [hrl], ?_⟩
    simp [busVal_cons, (hw.mono e2).2, hrv, busVal_ext e1 hb.tail, e1.val ai ha]

theorem wlPP_spec {inp : List Bool} (b : List Nat) :
    ∀ (as : List Nat) (i : Nat) (cols : List (List Nat)) {s : St} (_ : WF s inp), Bnd s b → Bnd s as →
    BndC s cols → i + as.length + b.length ≤ cols.length + 1 →
    Spec inp s (wlPP b as i cols) (fun r s' => BndC s' r ∧ r.length = cols.length ∧
      colsVal (colsBV s' inp r) = colsVal (colsBV s inp cols) +
        2 ^ i * (toNat (busVal s inp as) * toNat (busVal s inp b)) ∧
      ∀ H, (∀ c ∈ cols, c.length ≤ H) → ∀ c ∈ r, c.length ≤ H + as.length)
  | [], i, cols, s, hwf, _, _, hc, _ => by
    simp only [wlPP]
    exact Spec.pure hwf ⟨hc, rfl, by simp, fun H h c hc' => by have := h c hc'; simpa using this⟩
  | ai :: as, i, cols, s, hwf, hb, ha, hc, hl => by
    simp only [wlPP]
    refine Spec.bind (wlRow_spec ai b hwf hb ha.head) ?_
    intro row s1 e1 ⟨hrb, hrl, hrv⟩
    have hfit : i + row.length ≤ cols.length := by simp at hl; omega
    refine (wlPP_spec b as (i + 1) (addAt i cols row) e1.wf (hb.mono e1) (ha.tail.mono e1)
      ((hc.mono e1).addAt hrb i) (by rw [addAt_length i cols row hfit]; simp at hl; omega)).mono ?_
    intro r s2 _ ⟨hr, hrl2, hrv2, hrh⟩
    have hheight : ∀ H, (∀ c ∈ cols, c.length ≤ H) → ∀ c ∈ r, c.length ≤ H + (ai :: as).length := by
      intro H hH c hc'
      have := hrh (H + 1) (addAt_height H i cols row hH) c hc'
      simp only [List.length_cons]; omega
    refine ⟨hr, by rw [hrl2, addAt_length i cols row hfit], ?_, hheight⟩
    rw [hrv2, colsBV_addAt, colsVal_addAt _ _ _ (by simp [colsBV, hrl]; simp at hl; omega), colsBV_ext e1 hc, hrv,
      toNat_map_and', busVal_ext e1 hb, busVal_ext e1 ha.tail]
    simp only [busVal_cons, toNat_cons, Nat.pow_succ]
    generalize toNat (busVal s inp as) = AS
    generalize toNat (busVal s inp b) = B
    generalize (s.val inp ai).toNat = a
    generalize 2 ^ i = P
    grind

/-! ### one reduction round -/

theorem fullAdder_cnt (a b c : Bool) :
    ((a != b) != c).toNat + 2 * (carry a b c).toNat = a.toNat + b.toNat + c.toNat := fullAdder_sum a b c

/-- One column: the count is preserved, `cnt(out) + 2·cnt(carries) = cnt(col)`;
`ceil(h/3)` wires stay, `floor((h+1)/3)` carries leave. -/
theorem wlReduceCol_spec {inp : List Bool} : ∀ (col : List Nat) {s : St} (_ : WF s inp), Bnd s col →
    Spec inp s (wlReduceCol col) (fun r s' => Bnd s' r.1 ∧ Bnd s' r.2 ∧
      r.1.length = (col.length + 2) / 3 ∧ r.2.length = (col.length + 1) / 3 ∧
      cnt (busVal s' inp r.1) + 2 * cnt (busVal s' inp r.2) = cnt (busVal s inp col))
  | a :: b :: c :: rest, s, hwf, hb => by
    simp only [wlReduceCol, fullAdder']
    refine Spec.bind (fullAdder_spec hwf hb.head hb.tail.head hb.tail.tail.head true) ?_
    intro r s1 e1 ⟨hr1, hr2, hr2v⟩
    refine Spec.bind (wlReduceCol_spec rest e1.wf (hb.tail.tail.tail.mono e1)) ?_
    intro t s2 e2 ⟨ht1, ht2, ht1l, ht2l, htv⟩
    refine Spec.pure e2.wf ⟨Bnd.cons (hr1.mono e2).1 ht1, Bnd.cons (Nat.lt_of_lt_of_le hr2 e2.next) ht2,
      by simp [ht1l]; omega, by simp [ht2l]; omega, ?_⟩
    simp only [busVal_cons, cnt_cons, (hr1.mono e2).2, e2.val r.2 hr2, hr2v rfl]
    rw [busVal_ext e1 hb.tail.tail.tail] at htv
    have := fullAdder_cnt (s.val inp a) (s.val inp b) (s.val inp c)
    omega
  | [a, b], s, hwf, hb => by
    simp only [wlReduceCol]
    refine (halfAdder_spec hwf hb.head hb.tail.head).map ?_
    intro r s1 _ ⟨hr1, hr2⟩
    refine ⟨Bnd.cons hr1.1 (Bnd.nil _), Bnd.cons hr2.1 (Bnd.nil _), by simp, by simp, ?_⟩
    simp only [busVal_cons, busVal_nil, cnt_cons, cnt_nil, hr1.2, hr2.2]
    have := halfAdder_sum (s.val inp a) (s.val inp b)
    omega
  | [a], s, hwf, hb => by
    simp only [wlReduceCol]
    exact Spec.pure hwf ⟨hb, Bnd.nil s, by simp, by simp, by simp⟩
  | [], s, hwf, _ => by
    simp only [wlReduceCol]
    exact Spec.pure hwf ⟨Bnd.nil s, Bnd.nil s, by simp, by simp, by simp⟩

theorem two_mul_mod_pow (x y L : Nat) (h : x % 2 ^ L = y % 2 ^ L) : (2 * x) % 2 ^ (L + 1) = (2 * y) % 2 ^ (L + 1) := by
  rw [Nat.pow_succ, Nat.mul_comm (2 ^ L) 2, Nat.mul_mod_mul_left, Nat.mul_mod_mul_left, h]

/-- One round: the weighted column sum (plus the incoming carries) is
preserved modulo `2^(number of columns)`; heights bounded by `H` become at most
`ceil(H/3) + floor((H+1)/3)`. -/
theorem wlRound_spec {inp : List Bool} : ∀ (cols : List (List Nat)) (cin : List Nat) {s : St} (_ : WF s inp),
    BndC s cols → Bnd s cin →
    Spec inp s (wlRound cols cin) (fun r s' => BndC s' r ∧ r.length = cols.length ∧
      colsVal (colsBV s' inp r) % 2 ^ cols.length =
        (cnt (busVal s inp cin) + colsVal (colsBV s inp cols)) % 2 ^ cols.length ∧
      ∀ H, (∀ c ∈ cols, c.length ≤ H) → cin.length ≤ (H + 1) / 3 →
        ∀ c' ∈ r, c'.length ≤ (H + 2) / 3 + (H + 1) / 3)
  | [], cin, s, hwf, _, _ => by
    simp only [wlRound]
    refine Spec.pure hwf ⟨?_, rfl, ?_, ?_⟩
    · intro c hc; cases hc
    · simp [Nat.mod_one]
    · intro H _ _ c' hc'; cases hc'
  | col :: rest, cin, s, hwf, hc, hcin => by
    simp only [wlRound]
    have hcol : Bnd s col := hc col (by simp)
    have hrest : BndC s rest := fun c h => hc c (by simp [h])
    refine Spec.bind (wlReduceCol_spec col hwf hcol) ?_
    intro r s1 e1 ⟨hr1, hr2, hr1l, hr2l, hrv⟩
    refine Spec.bind (wlRound_spec rest r.2 e1.wf (hrest.mono e1) hr2) ?_
    intro t s2 e2 ⟨htb, htl, htv, hth⟩
    have e12 := e1.trans e2
    refine Spec.pure e2.wf ⟨?_, by simp [htl], ?_, ?_⟩
    · intro c hcm
      rcases List.mem_cons.mp hcm with rfl | hcm
      · exact (hcin.mono e12).append (hr1.mono e2)
      · exact htb c hcm
    · simp only [colsBV, List.map_cons, colsVal, List.length_cons] at htv ⊢
      rw [busVal_append, cnt_append, busVal_ext e12 hcin, busVal_ext e2 hr1]
      have hrestv : List.map (busVal s1 inp) rest = List.map (busVal s inp) rest := colsBV_ext e1 hrest
      rw [hrestv] at htv
      have h2 := two_mul_mod_pow _ _ _ htv
      -- cin + o + 2·new ≡ cin + o + 2·(co + rest) = cin + col + 2·rest
      have e : cnt (busVal s inp cin) + (cnt (busVal s inp col) + 2 * colsVal (List.map (busVal s inp) rest)) =
          (cnt (busVal s inp cin) + cnt (busVal s1 inp r.1)) +
            2 * (cnt (busVal s1 inp r.2) + colsVal (List.map (busVal s inp) rest)) := by omega
      rw [e, Nat.add_mod _ (2 * colsVal _), h2, ← Nat.add_mod]
    · intro H hH hci c' hc'
      rcases List.mem_cons.mp hc' with rfl | hc'
      · have := hH col (by simp)
        simp only [List.length_append, hr1l]
        omega
      · have hcolH := hH col (by simp)
        exact hth H (fun c h => hH c (by simp [h])) (by rw [hr2l]; omega) c' hc'

/-! ### the loop -/

theorem maxH_le_iff (cols : List (List Nat)) (H : Nat) : maxH cols ≤ H ↔ ∀ c ∈ cols, c.length ≤ H := by
  unfold maxH
  have : ∀ (cols : List (List Nat)) (m : Nat),
      cols.foldl (fun m c => max m c.length) m ≤ H ↔ (m ≤ H ∧ ∀ c ∈ cols, c.length ≤ H) := by
    intro cols
    induction cols with
    | nil => intro m; simp
    | cons c cs ih =>
      intro m
      simp only [List.foldl_cons, ih, List.mem_cons, forall_eq_or_imp]
      constructor
      · intro ⟨h1, h2⟩; exact ⟨by omega, by omega, h2⟩
      · intro ⟨h1, h2, h3⟩; exact ⟨by omega, h3⟩
  rw [this cols 0]; simp

/-- The reduction loop ends with at most two wires per column and preserves
the weighted column sum modulo `2^(number of columns)`. -/
theorem wlLoop_spec {inp : List Bool} : ∀ (fuel : Nat) (cols : List (List Nat)) {s : St} (_ : WF s inp),
    BndC s cols → maxH cols ≤ fuel + 2 →
    Spec inp s (wlLoop fuel cols) (fun r s' => BndC s' r ∧ r.length = cols.length ∧ maxH r ≤ 2 ∧
      colsVal (colsBV s' inp r) % 2 ^ cols.length = colsVal (colsBV s inp cols) % 2 ^ cols.length)
  | 0, cols, s, hwf, hc, hm => by
    simp only [wlLoop]
    exact Spec.pure hwf ⟨hc, rfl, by omega, rfl⟩
  | fuel + 1, cols, s, hwf, hc, hm => by
    simp only [wlLoop]
    split
    · next h => exact Spec.pure hwf ⟨hc, rfl, h, rfl⟩
    · next h =>
      refine Spec.bind (wlRound_spec cols [] hwf hc (Bnd.nil s)) ?_
      intro cols' s1 e1 ⟨hcb, hcl, hcv, hch⟩
      have hH := (maxH_le_iff cols (maxH cols)).mp (Nat.le_refl _)
      have hnew : maxH cols' ≤ fuel + 2 := by
        rw [maxH_le_iff]
        intro c hc'
        have := hch (maxH cols) hH (by simp) c hc'
        omega
      refine (wlLoop_spec fuel cols' e1.wf hcb hnew).mono ?_
      intro r s2 _ ⟨hrb, hrl, hrm, hrv⟩
      refine ⟨hrb, by rw [hrl, hcl], hrm, ?_⟩
      rw [hcl] at hrv
      rw [hrv, hcv]; simp

/-! ### the two rows and the final addition -/

theorem wlRows_spec {inp : List Bool} : ∀ (cols : List (List Nat)) {s : St} (_ : WF s inp), BndC s cols →
    (∀ c ∈ cols, c.length ≤ 2) →
    Spec inp s (wlRows cols) (fun r s' => Bnd s' r.1 ∧ Bnd s' r.2 ∧ r.1.length = cols.length ∧
      r.2.length = cols.length ∧
      toNat (busVal s' inp r.1) + toNat (busVal s' inp r.2) = colsVal (colsBV s inp cols))
  | [], s, hwf, _, _ => by
    simp only [wlRows]
    exact Spec.pure hwf ⟨Bnd.nil s, Bnd.nil s, rfl, rfl, rfl⟩
  | col :: rest, s, hwf, hc, hh => by
    simp only [wlRows]
    have hcol : Bnd s col := hc col (by simp)
    have hrest : BndC s rest := fun c h => hc c (by simp [h])
    have hcl := hh col (by simp)
    -- first and second wire of the column (zero wire where missing)
    have h1 : Spec inp s (match col with
        | w :: _ => pure w
        | [] => zeroWire) (fun w s' => Holds s' inp w ((busVal s inp col).getD 0 false)) := by
      cases col with
      | nil => exact (zeroWire_spec hwf).mono (fun w s' _ h => by simpa using h)
      | cons w _ => exact Spec.pure hwf ⟨hcol.head, by simp⟩
    refine Spec.bind h1 ?_
    intro r1 s1 e1 hr1
    have h2 : Spec inp s1 (match col with
        | _ :: w :: _ => pure w
        | _ => zeroWire) (fun w s' => Holds s' inp w ((busVal s inp col).getD 1 false)) := by
      match col, hcol with
      | [], _ => exact (zeroWire_spec e1.wf).mono (fun w s' _ h => by simpa using h)
      | [_], _ => exact (zeroWire_spec e1.wf).mono (fun w s' _ h => by simpa using h)
      | _ :: w :: _, hcol =>
        exact Spec.pure e1.wf ⟨Nat.lt_of_lt_of_le hcol.tail.head e1.next, by rw [e1.val w hcol.tail.head]; simp⟩
    refine Spec.bind h2 ?_
    intro r2 s2 e2 hr2
    have e12 := e1.trans e2
    refine Spec.bind (wlRows_spec rest e2.wf (hrest.mono e12) (fun c h => hh c (by simp [h]))) ?_
    intro t s3 e3 ⟨ht1, ht2, ht1l, ht2l, htv⟩
    refine Spec.pure e3.wf ⟨Bnd.cons ((hr1.mono e2).mono e3).1 ht1, Bnd.cons (hr2.mono e3).1 ht2,
      by simp [ht1l], by simp [ht2l], ?_⟩
    simp only [busVal_cons, toNat_cons, ((hr1.mono e2).mono e3).2, (hr2.mono e3).2, colsBV, List.map_cons, colsVal]
    have hrv : List.map (busVal s2 inp) rest = List.map (busVal s inp) rest := colsBV_ext e12 hrest
    simp only [colsBV] at htv
    rw [hrv] at htv
    have hcnt : cnt (busVal s inp col) = ((busVal s inp col).getD 0 false).toNat +
        ((busVal s inp col).getD 1 false).toNat := by
      match col, hcl with
      | [], _ => simp
      | [_], _ => simp
      | [_, _], _ => simp
      | _ :: _ :: _ :: _, h => simp at h
    omega

theorem mod_pow_of_mod_pow (x y k m : Nat) (hkm : k ≤ m) (h : x % 2 ^ m = y % 2 ^ m) : x % 2 ^ k = y % 2 ^ k := by
  have hd : 2 ^ k ∣ 2 ^ m := Nat.pow_dvd_pow 2 hkm
  rw [← Nat.mod_mod_of_dvd x hd, ← Nat.mod_mod_of_dvd y hd, h]

/-- `NewWallaceMultiplier` is exact for every operand and result width:
`(a·b) mod 2^nr`. -/
theorem wallace_spec {s : St} {inp : List Bool} (hwf : WF s inp) {a b : List Nat} (nr : Nat)
    (ha : Bnd s a) (hb : Bnd s b) (hnr : 0 < nr) :
    Spec inp s (wallace a b nr) (fun z s' => Bnd s' z ∧ z.length = nr ∧
      toNat (busVal s' inp z) = (toNat (busVal s inp a) * toNat (busVal s inp b)) % 2 ^ nr) := by
  unfold wallace
  refine Spec.bind (pad_spec hwf nr ha) ?_
  intro a' s1 e1 ⟨ha'b, ha'v⟩
  refine Spec.bind (pad_spec e1.wf nr (hb.mono e1)) ?_
  intro b' s2 e2 ⟨hb'b, hb'v⟩
  rw [busVal_ext e1 hb] at hb'v
  simp only
  have hla : (a'.take nr).length = nr := by
    have := congrArg List.length ha'v; simp at this; simp; omega
  have hlb : (b'.take nr).length = nr := by
    have := congrArg List.length hb'v; simp at this; simp; omega
  have hAv : toNat (busVal s2 inp (a'.take nr)) = toNat (busVal s inp a) % 2 ^ nr := by
    rw [busVal_take, busVal_ext e2 ha'b, ha'v, toNat_take, toNat_padTo]
  have hBv : toNat (busVal s2 inp (b'.take nr)) = toNat (busVal s inp b) % 2 ^ nr := by
    rw [busVal_take, hb'v, toNat_take, toNat_padTo]
  have hc0 : BndC s2 (List.replicate (2 * nr) []) := by
    intro c hc; rw [List.mem_replicate] at hc; rw [hc.2]; exact Bnd.nil s2
  refine Spec.bind (wlPP_spec (b'.take nr) (a'.take nr) 0 (List.replicate (2 * nr) []) e2.wf (hb'b.take nr)
    ((ha'b.mono e2).take nr) hc0 (by rw [hla, hlb]; simp; omega)) ?_
  intro cols s3 e3 ⟨hcb, hcl, hcv, hch⟩
  have hc0v : colsVal (colsBV s2 inp (List.replicate (2 * nr) [])) = 0 := by
    simp [colsBV, colsVal_replicate_nil]
  rw [hc0v, hAv, hBv] at hcv
  simp only [List.length_replicate] at hcl
  have hmax : maxH cols ≤ (2 * nr + 8) + 2 := by
    rw [maxH_le_iff]
    intro c hc
    have := hch 0 (by intro c hc; rw [List.mem_replicate] at hc; rw [hc.2]; simp) c hc
    rw [hla] at this
    omega
  refine Spec.bind (wlLoop_spec (2 * nr + 8) cols e3.wf hcb hmax) ?_
  intro cols1 s4 e4 ⟨hc1b, hc1l, hc1m, hc1v⟩
  rw [hcl] at hc1l hc1v
  have hh2 := (maxH_le_iff cols1 2).mp hc1m
  have htakeb : BndC s4 (cols1.take nr) := fun c hc => hc1b c (List.mem_of_mem_take hc)
  refine Spec.bind (wlRows_spec (cols1.take nr) e4.wf htakeb (fun c hc => hh2 c (List.mem_of_mem_take hc))) ?_
  intro rows s5 e5 ⟨hr1b, hr2b, hr1l, hr2l, hrv⟩
  have hr1l' : rows.1.length = nr := by rw [hr1l, List.length_take, hc1l]; omega
  have hr2l' : rows.2.length = nr := by rw [hr2l, List.length_take, hc1l]; omega
  unfold ksAdder
  refine (ksAdderWith_spec e5.wf nr _ hr1b hr2b (by rw [hr1l']; omega) hnr (le_two_pow_ceilLog2 _)).mono ?_
  intro z s6 _ ⟨hzb, hzl, hzv⟩
  refine ⟨hzb, hzl, ?_⟩
  rw [hzv, hrv]
  -- low columns ≡ all columns ≡ a·b
  have hsplit : colsVal (colsBV s4 inp cols1) =
      colsVal (colsBV s4 inp (cols1.take nr)) + 2 ^ nr * colsVal (colsBV s4 inp (cols1.drop nr)) := by
    have := colsVal_append (colsBV s4 inp (cols1.take nr)) (colsBV s4 inp (cols1.drop nr))
    simp only [colsBV] at this ⊢
    rw [← List.map_append, List.take_append_drop] at this
    rw [this, List.length_map, List.length_take, hc1l]
    have : min nr (2 * nr) = nr := by omega
    rw [this]
  have h1 : colsVal (colsBV s4 inp (cols1.take nr)) % 2 ^ nr = colsVal (colsBV s4 inp cols1) % 2 ^ nr := by
    rw [hsplit, Nat.add_mul_mod_self_left]
  rw [h1]
  have h2 := mod_pow_of_mod_pow _ _ nr (2 * nr) (by omega) hc1v
  rw [h2, hcv]
  simp only [Nat.pow_zero, Nat.one_mul, Nat.zero_add]
  rw [← Nat.mul_mod]

end Mpc.Bld

/-
Lemma library of the T1 ties (DESIGN.md 1.3): facts about the representation of
`MpcVerif/Gen/Prelude.lean` (a label as the pair of its words, `join D0 D1 = D0 ++ D1`;
loops as folds over `List.range`) that do not mention any generated definition, so every
tie module `GenTie*.lean` can import it without importing another group's generated file.
Core Lean only.
-/
import MpcVerif.Gen.Prelude
import MpcVerif.Model.LabelBV

namespace Mpc.GenTie
open Mpc Mpc.Gen

/-- The 128-bit value of a label: `D0` is the high word. -/
def join (d0 d1 : BitVec 64) : BitVec 128 := d0 ++ d1
/-- `joinL l = join l.D0 l.D1` (reducible). -/
abbrev joinL (l : Gen.Label) : BitVec 128 := join l.1 l.2
def hi64 (x : BitVec 128) : BitVec 64 := x.extractLsb' 64 64
def lo64 (x : BitVec 128) : BitVec 64 := x.extractLsb' 0 64

theorem getLsbD_join (a b : BitVec 64) (i : Nat) :
    (join a b).getLsbD i = if i < 64 then b.getLsbD i else a.getLsbD (i - 64) :=
  BitVec.getLsbD_append

theorem hi64_join (a b : BitVec 64) : hi64 (join a b) = a := by
  apply BitVec.eq_of_getLsbD_eq; intro i hi
  simp [hi64, getLsbD_join, hi]
theorem lo64_join (a b : BitVec 64) : lo64 (join a b) = b := by
  apply BitVec.eq_of_getLsbD_eq; intro i hi
  simp [lo64, getLsbD_join, hi]
theorem join_hi_lo (x : BitVec 128) : join (hi64 x) (lo64 x) = x := by
  apply BitVec.eq_of_getLsbD_eq; intro i hi
  simp only [hi64, lo64, getLsbD_join, BitVec.getLsbD_extractLsb']
  by_cases h : i < 64
  · simp [h]
  · have h1 : i - 64 < 64 := by omega
    have h2 : 64 + (i - 64) = i := by omega
    simp [h, h1, h2]
theorem join_inj {a b c d : BitVec 64} : join a b = join c d ↔ a = c ∧ b = d := by
  constructor
  · intro h
    exact ⟨by simpa [hi64_join] using congrArg hi64 h, by simpa [lo64_join] using congrArg lo64 h⟩
  · rintro ⟨rfl, rfl⟩; rfl
theorem join_xor (a b c d : BitVec 64) : join a b ^^^ join c d = join (a ^^^ c) (b ^^^ d) := BitVec.xor_append
theorem join_and (a b c d : BitVec 64) : join a b &&& join c d = join (a &&& c) (b &&& d) := BitVec.and_append
theorem join_or (a b c d : BitVec 64) : join a b ||| join c d = join (a ||| c) (b ||| d) := BitVec.or_append
theorem join_msb (a b : BitVec 64) : (join a b).msb = a.msb := by
  rw [BitVec.msb_eq_getLsbD_last, BitVec.msb_eq_getLsbD_last, getLsbD_join]; simp

theorem join_shl (a b : BitVec 64) (n : Nat) (hn : n ≤ 64) :
    join a b <<< n = join (a <<< n ||| b >>> (64 - n)) (b <<< n) := by
  apply BitVec.eq_of_getLsbD_eq; intro i hi
  simp only [getLsbD_join, BitVec.getLsbD_shiftLeft, BitVec.getLsbD_or, BitVec.getLsbD_ushiftRight]
  by_cases h : i < 64 <;> by_cases h0 : i < n
  · simp [h, h0, hi]
  · have : i - n < 64 := by omega
    simp [h, h0, hi, this]
  · omega
  · have h2 : ¬ (i - n < 64) ∨ i - n < 64 := by omega
    have h3 : i - 64 < 64 := by omega
    rcases h2 with h2 | h2
    · have h5 : ¬ (i - 64 < n) := by omega
      have h6 : i - 64 - n = i - n - 64 := by omega
      have h7 : b.getLsbD (64 - n + (i - 64)) = false := by
        apply BitVec.getLsbD_of_ge; omega
      simp [h, h0, hi, h2, h3, h5, h6, h7]
    · have h5 : i - 64 < n := by omega
      have h4 : 64 - n + (i - 64) = i - n := by omega
      simp [h, h0, hi, h2, h3, h5, h4]

theorem toNat_join (a b : BitVec 64) : (join a b).toNat = a.toNat <<< 64 ||| b.toNat := BitVec.toNat_append a b

theorem append_eq_join (a b : BitVec 64) : a ++ b = join a b := rfl
theorem extract_hi (x : BitVec 128) : BitVec.extractLsb' 64 64 x = hi64 x := rfl
theorem extract_lo (x : BitVec 128) : BitVec.extractLsb' 0 64 x = lo64 x := rfl

/-- Closes `join A B = join A' B'` (or an equation of 128-bit XOR/AND terms) up to
associativity/commutativity, so that the ties survive a reordering of operands in the Go source. -/
macro "join_ac" : tactic =>
  `(tactic| first | with_reducible rfl | ac_rfl
                  | (rw [join_inj]; constructor <;> first | with_reducible rfl | ac_rfl))

/-- The model's tweak label, split into words (independent of the generated code). -/
theorem tweak_eq_join (t : BitVec 32) : tweak t.toNat = join 0#64 (BitVec.setWidth 64 t) := by
  apply BitVec.eq_of_toNat_eq
  simp [toNat_join, tweak]
  omega
theorem and_twoPow_ne_zero (a : BitVec 64) (k : Nat) (hk : k < 64) :
    (a &&& BitVec.twoPow 64 k != 0#64) = a.getLsbD k := by
  rw [BitVec.and_twoPow]
  cases h : a.getLsbD k
  · simp
  · have h2 : BitVec.twoPow 64 k ≠ 0#64 := by
      intro h2
      have := congrArg (fun x => x.getLsbD k) h2
      simp [hk] at this
    simp [h2]

theorem sbit_eq (x : BitVec 128) : LabelAlg.sbit x = x.msb := rfl

/-- `K = 2x ⊕ i` of the model, in words (independent of the generated code). -/
theorem makeKHalf_words (a b : BitVec 64) (i : BitVec 32) :
    Mpc.makeKHalf (join a b) i.toNat = join (a <<< 1 ||| b >>> 63) (b <<< 1 ^^^ BitVec.setWidth 64 i) := by
  rw [Mpc.makeKHalf, tweak_eq_join, join_shl a b 1 (by omega), join_xor, BitVec.xor_zero]

/-- Position in the joined 128-bit value of Go's label bit `j` (bits 0..63 live in D0). -/
def goBitPos (j : Nat) : Nat := if j < 64 then j + 64 else j - 64

theorem slt_lit (i : BitVec 64) (c : Nat) (hc : c < 2^63) :
    BitVec.slt (BitVec.ofNat 64 c) i = decide (c < i.toNat ∧ i.toNat < 2^63) := by
  have := i.isLt
  rw [Bool.eq_iff_iff]
  simp only [BitVec.slt, BitVec.toInt_eq_toNat_cond, BitVec.toNat_ofNat, decide_eq_true_eq]
  rw [Nat.mod_eq_of_lt (by omega)]
  split <;> split <;> omega
theorem slt_zero (i : BitVec 64) : BitVec.slt i 0#64 = decide (2^63 ≤ i.toNat) := by
  have := i.isLt
  rw [Bool.eq_iff_iff]
  simp only [BitVec.slt, BitVec.toInt_eq_toNat_cond, BitVec.toNat_ofNat, decide_eq_true_eq]
  split <;> omega
theorem sle_lit (i : BitVec 64) (c : Nat) (hc : c < 2^63) :
    BitVec.sle (BitVec.ofNat 64 c) i = decide (c ≤ i.toNat ∧ i.toNat < 2^63) := by
  have := i.isLt
  rw [Bool.eq_iff_iff]
  simp only [BitVec.sle, BitVec.toInt_eq_toNat_cond, BitVec.toNat_ofNat, decide_eq_true_eq]
  rw [Nat.mod_eq_of_lt (by omega)]
  split <;> split <;> omega
theorem and_one (d : BitVec 64) (n : Nat) : (d >>> n) &&& 1#64 = if d.getLsbD n then 1#64 else 0#64 := by
  apply BitVec.eq_of_getLsbD_eq; intro i hi
  by_cases h0 : i = 0
  · subst h0; cases h : d.getLsbD n <;> simp [h]
  · cases h : d.getLsbD n <;> simp [h0]

theorem sub64_toNat (i : BitVec 64) (h : 64 ≤ i.toNat) : (i - 64#64).toNat = i.toNat - 64 := by
  have := i.isLt
  rw [BitVec.toNat_sub]; simp; omega

theorem join_not (a b : BitVec 64) : ~~~ join a b = join (~~~a) (~~~b) := BitVec.not_append
theorem twoPow_lo (k : Nat) (hk : k < 64) : BitVec.twoPow 128 k = join 0#64 (BitVec.twoPow 64 k) := by
  apply BitVec.eq_of_getLsbD_eq; intro i hi
  simp only [getLsbD_join, BitVec.getLsbD_twoPow]
  by_cases h : i < 64
  · simp [h, hk, show k < 128 by omega]
  · simp [h, show k < 128 by omega]; omega
theorem twoPow_hi (k : Nat) (hk : k < 64) : BitVec.twoPow 128 (k + 64) = join (BitVec.twoPow 64 k) 0#64 := by
  apply BitVec.eq_of_getLsbD_eq; intro i hi
  simp only [getLsbD_join, BitVec.getLsbD_twoPow]
  by_cases h : i < 64
  · simp [h, show k + 64 < 128 by omega]; omega
  · simp only [h, hk, show k + 64 < 128 by omega, if_false, decide_true, Bool.true_and]
    rw [Bool.eq_iff_iff]; simp; omega

/-- The 128-bit mask `SetBit(i, ·)` works with: bit `goBitPos i` for `i < 128`, nothing beyond (the Go
shift `1 << (i-64)` is 0 for `i ≥ 128`). -/
def goBitMask (i : Nat) : BitVec 128 := if i < 128 then BitVec.twoPow 128 (goBitPos i) else 0#128

theorem twoPow_ge (m : Nat) (h : 64 ≤ m) : BitVec.twoPow 64 m = 0#64 := by
  apply BitVec.eq_of_getLsbD_eq; intro i hi
  simp [BitVec.getLsbD_twoPow]; omega
theorem join_zero : join 0#64 0#64 = 0#128 := by decide
theorem goBitMask_eq (n : Nat) :
    goBitMask n = if n < 64 then join (BitVec.twoPow 64 n) 0#64 else join 0#64 (BitVec.twoPow 64 (n - 64)) := by
  unfold goBitMask goBitPos
  by_cases h1 : n < 64
  · simp only [h1, show n < 128 by omega, if_true]; exact twoPow_hi n h1
  · by_cases h2 : n < 128
    · simp only [h1, h2, if_true, if_false]; exact twoPow_lo _ (by omega)
    · simp only [h1, h2, if_false, twoPow_ge _ (show 64 ≤ n - 64 by omega), join_zero]

theorem and_ones64 (x : BitVec 64) : x &&& 18446744073709551615#64 = x := by
  have h : (18446744073709551615#64) = BitVec.allOnes 64 := by decide
  rw [h, BitVec.and_allOnes]

/-! ### `for i := A; i < B; i++` loops: generated as folds over `List.range` -/

/-- A fold over `List.range n` computes `g n` when `g` satisfies the step equation below `n`. -/
theorem foldl_range_eq {σ : Type} (f : σ → Nat → σ) (g : Nat → σ) (n : Nat) (init : σ) (h0 : g 0 = init)
    (hs : ∀ k, k < n → f (g k) k = g (k + 1)) : (List.range n).foldl f init = g n := by
  induction n with
  | zero => simpa using h0.symm
  | succ m ih =>
    rw [List.range_succ, List.foldl_append, ih (fun k hk => hs k (by omega))]
    simpa using hs m (by omega)

/-- The same for a fold whose state is an `Option` (a loop body that can panic) and never becomes `none`. -/
theorem foldl_range_some {σ : Type} (f : Option σ → Nat → Option σ) (g : Nat → σ) (n : Nat) (init : σ)
    (h0 : g 0 = init) (hs : ∀ k, k < n → f (some (g k)) k = some (g (k + 1))) :
    (List.range n).foldl f (some init) = some (g n) :=
  foldl_range_eq f (fun k => some (g k)) n (some init) (by rw [h0]) hs

theorem ofNat_up_toNat (k : Nat) (hk : k < 2^64) : (BitVec.ofNat 64 (0 + k)).toNat = k := by
  simp only [BitVec.toNat_ofNat]; omega
theorem ofNat_up_eq_zero (k : Nat) (hk : k < 2^64) : (BitVec.ofNat 64 (0 + k) == 0#64) = decide (k = 0) := by
  rw [Bool.eq_iff_iff]; simp only [beq_iff_eq, decide_eq_true_eq]
  constructor
  · intro h; have := congrArg BitVec.toNat h; rw [ofNat_up_toNat k hk] at this; simpa using this
  · rintro rfl; rfl
theorem sub_up_toNat (c k : Nat) (hc : c < 2^64) (hk : k ≤ c) :
    (BitVec.ofNat 64 c - BitVec.ofNat 64 (0 + k)).toNat = c - k := by
  simp only [BitVec.toNat_sub, BitVec.toNat_ofNat]; omega
theorem and_one_ne_zero (d : BitVec 64) (n : Nat) : ((d >>> n) &&& 1#64 != 0#64) = d.getLsbD n := by
  rw [and_one]; cases d.getLsbD n <;> decide
theorem and_one_eq_zero (d : BitVec 64) (n : Nat) : ((d >>> n) &&& 1#64 == 0#64) = !d.getLsbD n := by
  rw [and_one]; cases d.getLsbD n <;> decide
theorem and_one_eq_one (d : BitVec 64) (n : Nat) : ((d >>> n) &&& 1#64 == 1#64) = d.getLsbD n := by
  rw [and_one]; cases d.getLsbD n <;> decide


theorem ofNat32_toNat (t : Nat) (ht : t < 2^32) : (BitVec.ofNat 32 t).toNat = t := by
  simp only [BitVec.toNat_ofNat]; omega


/-! ### Signed `int` values that are known to be non-negative; `/` and `%` by a positive literal -/

theorem sle_toNat (a b : BitVec 64) (ha : a.toNat < 2^63) (hb : b.toNat < 2^63) :
    BitVec.sle a b = decide (a.toNat ≤ b.toNat) := by
  rw [Bool.eq_iff_iff]
  simp only [BitVec.sle, BitVec.toInt_eq_toNat_cond, decide_eq_true_eq]
  split <;> split <;> omega
theorem slt_toNat (a b : BitVec 64) (ha : a.toNat < 2^63) (hb : b.toNat < 2^63) :
    BitVec.slt a b = decide (a.toNat < b.toNat) := by
  rw [Bool.eq_iff_iff]
  simp only [BitVec.slt, BitVec.toInt_eq_toNat_cond, decide_eq_true_eq]
  split <;> split <;> omega
/-- `len(x)` of a slice with fewer than 2^63 elements. -/
theorem ofNat_size (n : Nat) (h : n < 2^63) : (BitVec.ofNat 64 n).toNat = n := by
  simp only [BitVec.toNat_ofNat]; omega
theorem msb_false_of_lt (i : BitVec 64) (h : i.toNat < 2^63) : i.msb = false := by
  rw [BitVec.msb_eq_decide]; simp; omega
/-- Go `i / c` on a non-negative `int` and a literal `0 < c < 2^63`. -/
theorem sdiv_nonneg (i : BitVec 64) (c : Nat) (h : i.toNat < 2^63) (hc : c < 2^63) :
    (BitVec.sdiv i (BitVec.ofNat 64 c)).toNat = i.toNat / c := by
  have hcm : (BitVec.ofNat 64 c).msb = false := msb_false_of_lt _ (by simp only [BitVec.toNat_ofNat]; omega)
  rw [BitVec.sdiv_eq, msb_false_of_lt i h, hcm]
  simp only [BitVec.udiv_eq, BitVec.toNat_udiv, BitVec.toNat_ofNat]
  rw [Nat.mod_eq_of_lt (show c < 2 ^ 64 by omega)]
/-- Go `i % c` on a non-negative `int` and a literal `0 < c < 2^63`. -/
theorem srem_nonneg (i : BitVec 64) (c : Nat) (h : i.toNat < 2^63) (hc : c < 2^63) :
    (BitVec.srem i (BitVec.ofNat 64 c)).toNat = i.toNat % c := by
  have hcm : (BitVec.ofNat 64 c).msb = false := msb_false_of_lt _ (by simp only [BitVec.toNat_ofNat]; omega)
  rw [BitVec.srem_eq, msb_false_of_lt i h, hcm]
  simp only [BitVec.umod_eq, BitVec.toNat_umod, BitVec.toNat_ofNat]
  rw [Nat.mod_eq_of_lt (show c < 2 ^ 64 by omega)]


/-! ### Normalisation of `int` comparisons to `Nat` (shape-independent: `a < b`, `b > a`, `!(a >= b)`, ...) -/

theorem ite_pos_self (n : Nat) : (if 0 < n then n else 0) = n := by split <;> omega
theorem toNat_zero64 : (0#64).toNat = 0 := rfl

/-- Rewrites signed comparisons of `int` values that are provably non-negative (side conditions by
`omega` from the hypotheses in the context), `len(x)`, `x - 0`, and the iteration count of
`for i := 0; i < n; i++`, to statements about `Nat`. -/
macro "int_norm" : tactic =>
  `(tactic| simp (disch := (first | omega | (simp only [BitVec.toNat_ofNat, BitVec.toNat_add, BitVec.toNat_sub]; omega))) only [slt_toNat, sle_toNat, slt_zero, ofNat_size, toNat_zero64, BitVec.sub_zero,
      ite_pos_self, Nat.zero_add, Nat.add_zero, decide_eq_true_eq, Bool.not_eq_true', decide_eq_false_iff_not,
      Nat.not_lt, Nat.not_le])
macro "int_norm" "at" h:ident : tactic =>
  `(tactic| simp (disch := (first | omega | (simp only [BitVec.toNat_ofNat, BitVec.toNat_add, BitVec.toNat_sub]; omega))) only [slt_toNat, sle_toNat, slt_zero, ofNat_size, toNat_zero64, BitVec.sub_zero,
      ite_pos_self, Nat.zero_add, Nat.add_zero] at $h:ident)


/-! ### Straight-line code with run-time checks: deciding the guards from the hypotheses -/

theorem dec_false {p : Prop} [Decidable p] (h : ¬ p) : decide p = false := by simp [h]
theorem dec_true {p : Prop} [Decidable p] (h : p) : decide p = true := by simp [h]
/-- `(p + k).toNat` for an `int` that does not overflow. -/
theorem add_lit_toNat (p : BitVec 64) (k : Nat) (h : p.toNat + k < 2^63) : (p + BitVec.ofNat 64 k).toNat = p.toNat + k := by
  simp only [BitVec.toNat_add, BitVec.toNat_ofNat]; omega

/-- Evaluates bounds checks (`i < 0 || len(a) <= i`), `int` comparisons and `(p + k).toNat` using `omega`
on the hypotheses in the context; independent of the order and form in which the source writes them. -/
macro "guard_norm" : tactic =>
  `(tactic| simp (disch := (first | omega | (simp only [BitVec.toNat_ofNat, BitVec.toNat_add, BitVec.toNat_sub]; omega))) only
      [add_lit_toNat, slt_toNat, sle_toNat, slt_zero, ofNat_size, toNat_zero64, BitVec.sub_zero, BitVec.add_zero, Nat.add_zero,
       Nat.zero_add, Array.size_setIfInBounds, dec_false, dec_true, Bool.or_false, Bool.false_or, Bool.or_true, Bool.true_or,
       Bool.false_eq_true, if_false, if_true, ite_pos_self, Bool.not_true, Bool.not_false])

macro "guard_norm" "at" h:ident : tactic =>
  `(tactic| simp (disch := (first | omega | (simp only [BitVec.toNat_ofNat, BitVec.toNat_add, BitVec.toNat_sub]; omega))) only
      [add_lit_toNat, slt_toNat, sle_toNat, slt_zero, ofNat_size, toNat_zero64, BitVec.sub_zero, BitVec.add_zero, Nat.add_zero,
       Nat.zero_add, Array.size_setIfInBounds, dec_false, dec_true, Bool.or_false, Bool.false_or, Bool.or_true, Bool.true_or,
       Bool.false_eq_true, if_false, if_true, ite_pos_self, Bool.not_true, Bool.not_false] at $h:ident)

/-- Equality of two `setIfInBounds` chains that write (at most) the indices `p .. p+3`, in any order: by cases on
the index. -/
macro "arr_cases" p:term : tactic =>
  `(tactic| (apply Array.ext_getElem?
             intro i
             simp only [Array.getElem?_setIfInBounds, Array.size_setIfInBounds]
             by_cases e0 : i = $p
             · subst e0; simp (disch := omega) only [if_pos, if_neg, if_true, Nat.add_zero]
             · by_cases e1 : i = $p + 1
               · subst e1; simp (disch := omega) only [if_pos, if_neg, if_true]
               · by_cases e2 : i = $p + 2
                 · subst e2; simp (disch := omega) only [if_pos, if_neg, if_true]
                 · by_cases e3 : i = $p + 3
                   · subst e3; simp (disch := omega) only [if_pos, if_neg, if_true]
                   · simp (disch := omega) only [if_neg]))

/-! ### `copy` -/

theorem size_copyAt {α : Type} (d : Array α) (o : Nat) (s : Array α) : (copyAt d o s).size = d.size := by
  simp [copyAt]
theorem getElem_copyAt {α : Type} (d : Array α) (o : Nat) (s : Array α) (i : Nat) (h : i < (copyAt d o s).size) :
    (copyAt d o s)[i] =
      if h' : o ≤ i ∧ i - o < s.size then s[i - o]'h'.2 else d[i]'(by simpa [size_copyAt] using h) := by
  simp [copyAt]
theorem size_copyAtLim {α : Type} (d : Array α) (o l : Nat) (s : Array α) : (copyAtLim d o l s).size = d.size := by
  simp [copyAtLim]
theorem getElem_copyAtLim {α : Type} (d : Array α) (o l : Nat) (s : Array α) (i : Nat) (h : i < (copyAtLim d o l s).size) :
    (copyAtLim d o l s)[i] =
      if h' : o ≤ i ∧ i < l ∧ i - o < s.size then s[i - o]'h'.2.2 else d[i]'(by simpa [size_copyAtLim] using h) := by
  simp [copyAtLim]
/-- `r := make([]T, len(v)); copy(r, v)` is a copy of `v`. -/
theorem copyAt_replicate_self {w : Nat} (v : Array (BitVec w)) : copyAt (Array.replicate v.size 0#w) 0 v = v := by
  apply Array.ext
  · simp [size_copyAt]
  · intro i h1 h2
    rw [getElem_copyAt]; simp [h2]

end Mpc.GenTie

/-
Karatsuba multiplier (C07): exact for every array threshold `limit ≥ 3`,
from the adder, subtractor and array-multiplier specifications.
-/
import MpcVerif.Proofs.BuildersDiv

namespace Mpc.Bld
open Mpc

/-! ### congruences modulo `M` -/

theorem modeq_iff_dvd (x y M : Nat) : x % M = y % M ↔ (M : Int) ∣ (x : Int) - y := by
  rw [Int.dvd_iff_emod_eq_zero, ← Int.emod_eq_emod_iff_emod_sub_eq_zero]
  constructor
  · intro h; rw [← Int.natCast_emod, ← Int.natCast_emod, h]
  · intro h; rw [← Int.natCast_emod, ← Int.natCast_emod] at h; exact Int.ofNat_inj.mp h

/-- The Karatsuba recombination modulo `M`:
`z2·P² + (z1 - z2 - z0)·P + z0 ≡ (Al + P·Ah)·(Bl + P·Bh)`. -/
theorem karatsuba_algebra (M P Al Ah Bl Bh z0 z1 z2 sub1 sub2 sh1 sh2 add1 R : Nat)
    (h0 : z0 % M = (Al * Bl) % M) (h2 : z2 % M = (Ah * Bh) % M)
    (h1 : z1 % M = ((Al + Ah) * (Bl + Bh)) % M)
    (hs1 : (sub1 + z2) % M = z1 % M) (hs2 : (sub2 + z0) % M = sub1 % M)
    (hsh1 : sh1 % M = (z2 * (P * P)) % M) (hsh2 : sh2 % M = (sub2 * P) % M)
    (ha1 : add1 % M = (sh1 + sh2) % M) (hr : R % M = (add1 + z0) % M) :
    R % M = ((Al + P * Ah) * (Bl + P * Bh)) % M := by
  rw [modeq_iff_dvd] at *
  obtain ⟨k0, e0⟩ := h0
  obtain ⟨k2, e2⟩ := h2
  obtain ⟨k1, e1⟩ := h1
  obtain ⟨ks1, es1⟩ := hs1
  obtain ⟨ks2, es2⟩ := hs2
  obtain ⟨kh1, eh1⟩ := hsh1
  obtain ⟨kh2, eh2⟩ := hsh2
  obtain ⟨ka, ea⟩ := ha1
  obtain ⟨kr, er⟩ := hr
  refine ⟨kr + ka + kh1 + kh2 + (P : Int) * ks2 + (P : Int) * ks1 + (P : Int) * k1 + (1 - (P : Int)) * k0 +
    ((P : Int) * P - P) * k2, ?_⟩
  push_cast at *
  have key : (R : Int) - ((Al : Int) + P * Ah) * (Bl + P * Bh) =
      ((R : Int) - (add1 + z0)) + ((add1 : Int) - (sh1 + sh2)) + ((sh1 : Int) - z2 * (P * P)) +
      ((sh2 : Int) - sub2 * P) + (P : Int) * ((sub2 : Int) + z0 - sub1) + (P : Int) * ((sub1 : Int) + z2 - z1) +
      (P : Int) * ((z1 : Int) - (Al + Ah) * (Bl + Bh)) + (1 - (P : Int)) * ((z0 : Int) - Al * Bl) +
      ((P : Int) * P - P) * ((z2 : Int) - Ah * Bh) := by grind
  rw [key, er, ea, eh1, eh2, es2, es1, e1, e0, e2]
  grind

/-- A product of two `k`-bit numbers computed at width `min(2k, nr)` is the
product modulo `2^nr`. -/
theorem mul_mod_width (A B k nr : Nat) (hA : A < 2 ^ k) (hB : B < 2 ^ k) :
    ((A * B) % 2 ^ (min (k * 2) nr)) % 2 ^ nr = (A * B) % 2 ^ nr := by
  by_cases h : k * 2 ≤ nr
  · rw [Nat.min_eq_left h]
    have : A * B < 2 ^ (k * 2) := by
      have e : 2 ^ (k * 2) = 2 ^ k * 2 ^ k := by rw [Nat.mul_two, Nat.pow_add]
      rw [e]
      exact Nat.mul_lt_mul'' hA hB
    rw [Nat.mod_eq_of_lt this]
  · rw [Nat.min_eq_right (by omega), Nat.mod_mod]

/-! ### ShiftLeft -/

/-- `Compiler.ShiftLeft(w, size, count)` for `count ≤ size`:
`(w · 2^count) mod 2^size` on `size` wires. -/
theorem shiftLeft_spec {s : St} {inp : List Bool} (hwf : WF s inp) {w : List Nat} (size count : Nat)
    (hw : Bnd s w) (hc : count ≤ size) :
    Spec inp s (shiftLeft w size count) (fun r s' => Bnd s' r ∧ r.length = size ∧
      toNat (busVal s' inp r) = (toNat (busVal s inp w) * 2 ^ count) % 2 ^ size) := by
  unfold shiftLeft
  refine Spec.bind (zeros_spec hwf count) ?_
  intro lo s1 e1 ⟨hlob, hlov⟩
  refine Spec.bind (zeros_spec e1.wf _) ?_
  intro hi s2 e2 ⟨hhib, hhiv⟩
  have hlol : lo.length = count := by have := congrArg List.length hlov; simpa using this
  have hhil : hi.length = size - (count + w.length) := by have := congrArg List.length hhiv; simpa using this
  have e12 := e1.trans e2
  generalize hmid : (if count < size then w.take (size - count) else []) = mid
  have hmidb : Bnd s mid := by rw [← hmid]; split; exact hw.take _; exact Bnd.nil s
  have hmidv : busVal s inp mid = (busVal s inp w).take (size - count) := by
    rw [← hmid]; split
    · rw [busVal_take]
    · have : size - count = 0 := by omega
      rw [this]; simp
  have hmidl : mid.length = min (size - count) w.length := by
    have := congrArg List.length hmidv; simpa using this
  have htot : (lo ++ mid ++ hi).length = size := by
    simp only [List.length_append, hlol, hmidl, hhil]; omega
  refine Spec.pure e2.wf ⟨((hlob.mono e2).append (hmidb.mono e12)).append hhib |>.take size, ?_, ?_⟩
  · rw [List.length_take, htot]; simp
  · rw [List.take_of_length_le (by omega), busVal_append, hhiv, toNat_append_zeros, busVal_append, toNat_append,
      busVal_ext e2 hlob, hlov, toNat_replicate_false, List.length_replicate, busVal_ext e12 hmidb, hmidv,
      toNat_take]
    have hs : size = count + (size - count) := by omega
    conv => rhs; rw [hs, Nat.pow_add, Nat.mul_comm (toNat (busVal s inp w)), Nat.mul_mod_mul_left]
    omega

theorem toNat_ext {s s' : St} {inp : List Bool} {ws : List Nat} (e : Ext s s' inp) (h : Bnd s ws) :
    toNat (busVal s' inp ws) = toNat (busVal s inp ws) := by rw [busVal_ext e h]

theorem busVal_drop' (s : St) (inp : List Bool) (a : List Nat) (n : Nat) :
    busVal s inp (a.drop n) = (busVal s inp a).drop n := by simp [busVal, List.map_drop]

theorem toNat_take_drop (l : List Bool) (k : Nat) (hk : k ≤ l.length) :
    toNat l = toNat (l.take k) + 2 ^ k * toNat (l.drop k) := by
  conv => lhs; rw [← List.take_append_drop k l]
  rw [toNat_append]; simp [Nat.min_eq_left hk]

/-- `NewKaratsubaMultiplier` is exact for every array threshold `limit ≥ 3`
(smaller limits make the Go recursion non-terminating), every operand and
result width: `(a·b) mod 2^nr`.  `fuel` is the recursion budget of the model
(`fuel ≥ min(max(|a|,|b|), nr)` suffices). -/
theorem karatsuba_spec {inp : List Bool} (gmw : Bool) (limit : Nat) (hlim : 3 ≤ limit) :
    ∀ (fuel : Nat) (a b : List Nat) (nr : Nat) {s : St} (_ : WF s inp), Bnd s a → Bnd s b →
    0 < max a.length b.length → 0 < nr → min (max a.length b.length) nr ≤ fuel →
    Spec inp s (karatsuba gmw limit (fuel + 1) a b nr) (fun z s' => ∃ r, z = some r ∧ Bnd s' r ∧
      r.length = nr ∧ toNat (busVal s' inp r) = (toNat (busVal s inp a) * toNat (busVal s inp b)) % 2 ^ nr) := by
  intro fuel
  induction fuel with
  | zero => intro a b nr s _ _ _ hne hnr hm; omega
  | succ fuel ih =>
    intro a b nr s hwf ha hb hne hnr hm
    rw [karatsuba]
    refine Spec.bind (zeroPad_spec hwf ha hb) ?_
    intro p s1 e1 ⟨hp1, hp2, hv1, hv2⟩
    simp only
    have hlen1 : p.1.length = max a.length b.length := by
      have := congrArg List.length hv1; simp at this; omega
    have hlen2 : p.2.length = max a.length b.length := by
      have := congrArg List.length hv2; simp at this; omega
    generalize hat : p.1.take nr = at'
    generalize hbt : p.2.take nr = bt
    have hatb : Bnd s1 at' := hat ▸ hp1.take nr
    have hbtb : Bnd s1 bt := hbt ▸ hp2.take nr
    have hatl : at'.length = min (max a.length b.length) nr := by rw [← hat]; simp [hlen1]; omega
    have hbtl : bt.length = min (max a.length b.length) nr := by rw [← hbt]; simp [hlen2]; omega
    have hAv : toNat (busVal s1 inp at') = toNat (busVal s inp a) % 2 ^ nr := by
      rw [← hat, busVal_take, hv1, toNat_take, toNat_padTo]
    have hBv : toNat (busVal s1 inp bt) = toNat (busVal s inp b) % 2 ^ nr := by
      rw [← hbt, busVal_take, hv2, toNat_take, toNat_padTo]
    have hfin : ∀ R : Nat, R = (toNat (busVal s1 inp at') * toNat (busVal s1 inp bt)) % 2 ^ nr →
        R = (toNat (busVal s inp a) * toNat (busVal s inp b)) % 2 ^ nr := by
      intro R hR; rw [hR, hAv, hBv, ← Nat.mul_mod]
    generalize hn : at'.length = n at *
    have hn1 : 0 < n := by omega
    have hnnr : n ≤ nr := by omega
    have hbtn : bt.length = n := by omega
    split
    · -- array multiplier
      refine (arrayMultiplier_spec e1.wf nr hatb hbtb (by omega) hnr).map ?_
      intro r s2 _ ⟨hrb, hrl, hrv⟩
      exact ⟨r, rfl, hrb, hrl, hfin _ hrv⟩
    · next hgt =>
      have hn4 : 4 ≤ n := by omega
      generalize hmid : n / 2 = mid
      have hmid2 : 2 ≤ mid := by omega
      have hmidn : mid * 2 ≤ n := by omega
      have hk : mid ≤ n - mid := by omega
      -- operand halves
      have hALl : (at'.take mid).length = mid := by simp [hn]; omega
      have hBLl : (bt.take mid).length = mid := by simp [hbtn]; omega
      have hAHl : (at'.drop mid).length = n - mid := by simp [hn]
      have hBHl : (bt.drop mid).length = n - mid := by simp [hbtn]
      have hAsplit := toNat_take_drop (busVal s1 inp at') mid (by simp [hn]; omega)
      have hBsplit := toNat_take_drop (busVal s1 inp bt) mid (by simp [hbtn]; omega)
      rw [← busVal_take, ← busVal_drop'] at hAsplit hBsplit
      have hALlt : toNat (busVal s1 inp (at'.take mid)) < 2 ^ mid := by
        have := toNat_lt (busVal s1 inp (at'.take mid)); rwa [busVal_length, hALl] at this
      have hBLlt : toNat (busVal s1 inp (bt.take mid)) < 2 ^ mid := by
        have := toNat_lt (busVal s1 inp (bt.take mid)); rwa [busVal_length, hBLl] at this
      have hAHlt : toNat (busVal s1 inp (at'.drop mid)) < 2 ^ (n - mid) := by
        have := toNat_lt (busVal s1 inp (at'.drop mid)); rwa [busVal_length, hAHl] at this
      have hBHlt : toNat (busVal s1 inp (bt.drop mid)) < 2 ^ (n - mid) := by
        have := toNat_lt (busVal s1 inp (bt.drop mid)); rwa [busVal_length, hBHl] at this
      have hpk : 2 ^ mid ≤ 2 ^ (n - mid) := Nat.pow_le_pow_right (by omega) hk
      generalize hAl : toNat (busVal s1 inp (at'.take mid)) = Al at *
      generalize hAh : toNat (busVal s1 inp (at'.drop mid)) = Ah at *
      generalize hBl : toNat (busVal s1 inp (bt.take mid)) = Bl at *
      generalize hBh : toNat (busVal s1 inp (bt.drop mid)) = Bh at *
      rw [hALl, hBLl, hAHl, hBHl]
      simp only [Nat.max_self, Nat.max_eq_right hk]
      -- z0
      refine Spec.bind (ih (at'.take mid) (bt.take mid) _ e1.wf (hatb.take mid) (hbtb.take mid)
        (by rw [hALl, hBLl]; omega) (by omega) (by rw [hALl, hBLl]; omega)) ?_
      intro r0 s2 e2 ⟨z0, hr0, hz0b, hz0l, hz0v⟩
      subst hr0
      simp only
      rw [hAl, hBl] at hz0v
      -- aSum, bSum
      refine Spec.bind (newAdder_spec e2.wf gmw (n - mid + 1) ((hatb.take mid).mono e2) ((hatb.drop mid).mono e2)
        (by rw [hALl, hAHl]; omega) (by omega)) ?_
      intro aSum s3 e3 ⟨hasb, hasl, hasv⟩
      rw [toNat_ext e2 (hatb.take mid), toNat_ext e2 (hatb.drop mid), hAl, hAh] at hasv
      have e13 := e2.trans e3
      refine Spec.bind (newAdder_spec e3.wf gmw (n - mid + 1) ((hbtb.take mid).mono e13) ((hbtb.drop mid).mono e13)
        (by rw [hBLl, hBHl]; omega) (by omega)) ?_
      intro bSum s4 e4 ⟨hbsb, hbsl, hbsv⟩
      rw [toNat_ext e13 (hbtb.take mid), toNat_ext e13 (hbtb.drop mid), hBl, hBh] at hbsv
      have hps : 2 ^ (n - mid + 1) = 2 * 2 ^ (n - mid) := by rw [Nat.pow_succ]; omega
      rw [Nat.mod_eq_of_lt (by omega)] at hasv hbsv
      -- z1
      refine Spec.bind (ih aSum bSum _ e4.wf (hasb.mono e4) hbsb (by rw [hasl, hbsl]; omega) (by omega)
        (by rw [hasl, hbsl]; omega)) ?_
      intro r1 s5 e5 ⟨z1, hr1, hz1b, hz1l, hz1v⟩
      subst hr1
      simp only
      rw [toNat_ext e4 hasb, hasv, hbsv] at hz1v
      -- z2
      have e15 := ((e13.trans e4).trans e5)
      refine Spec.bind (ih (at'.drop mid) (bt.drop mid) _ e5.wf ((hatb.drop mid).mono e15) ((hbtb.drop mid).mono e15)
        (by rw [hAHl, hBHl]; omega) (by omega) (by rw [hAHl, hBHl]; omega)) ?_
      intro r2 s6 e6 ⟨z2, hr2, hz2b, hz2l, hz2v⟩
      subst hr2
      simp only
      rw [toNat_ext e15 (hatb.drop mid), toNat_ext e15 (hbtb.drop mid), hAh, hBh] at hz2v
      -- sub1 = z1 - z2, sub2 = sub1 - z0
      refine Spec.bind (newSubtractor_spec e6.wf gmw nr (hz1b.mono e6) hz2b (by rw [hz1l]; omega) hnr) ?_
      intro sub1 s7 e7 ⟨hs1b, hs1l, hs1v⟩
      rw [toNat_ext e6 hz1b] at hs1v
      have e27 := (((e3.trans e4).trans e5).trans e6).trans e7
      refine Spec.bind (newSubtractor_spec e7.wf gmw nr hs1b (hz0b.mono e27) (by rw [hs1l]; omega) hnr) ?_
      intro sub2 s8 e8 ⟨hs2b, hs2l, hs2v⟩
      rw [toNat_ext e27 hz0b] at hs2v
      -- shifts
      refine Spec.bind (shiftLeft_spec e8.wf nr (mid * 2) (hz2b.mono (e7.trans e8)) (by omega)) ?_
      intro sh1 s9 e9 ⟨hsh1b, hsh1l, hsh1v⟩
      rw [toNat_ext (e7.trans e8) hz2b] at hsh1v
      refine Spec.bind (shiftLeft_spec e9.wf nr mid (hs2b.mono e9) (by omega)) ?_
      intro sh2 s10 e10 ⟨hsh2b, hsh2l, hsh2v⟩
      rw [toNat_ext e9 hs2b] at hsh2v
      -- final additions
      refine Spec.bind (newAdder_spec e10.wf gmw nr (hsh1b.mono e10) hsh2b (by rw [hsh1l]; omega) hnr) ?_
      intro add1 s11 e11 ⟨ha1b, ha1l, ha1v⟩
      rw [toNat_ext e10 hsh1b] at ha1v
      have e2_11 := (((e27.trans e8).trans e9).trans e10).trans e11
      refine (newAdder_spec e11.wf gmw nr ha1b (hz0b.mono e2_11) (by rw [ha1l]; omega) hnr).map ?_
      intro r s12 _ ⟨hrb, hrl, hrv⟩
      rw [toNat_ext e2_11 hz0b] at hrv
      refine ⟨r, rfl, hrb, hrl, hfin _ ?_⟩
      rw [hAsplit, hBsplit]
      have hrlt := toNat_lt (busVal s12 inp r)
      rw [busVal_length, hrl] at hrlt
      rw [← Nat.mod_eq_of_lt hrlt]
      have hpp : 2 ^ mid * 2 ^ mid = 2 ^ (mid * 2) := by rw [Nat.mul_two, Nat.pow_add]
      apply karatsuba_algebra (2 ^ nr) (2 ^ mid) Al Ah Bl Bh (toNat (busVal s2 inp z0)) (toNat (busVal s5 inp z1))
        (toNat (busVal s6 inp z2)) (toNat (busVal s7 inp sub1)) (toNat (busVal s8 inp sub2))
        (toNat (busVal s9 inp sh1)) (toNat (busVal s10 inp sh2)) (toNat (busVal s11 inp add1))
      · rw [hz0v]; exact mul_mod_width Al Bl mid nr hALlt hBLlt
      · rw [hz2v]; exact mul_mod_width Ah Bh (n - mid) nr hAHlt hBHlt
      · rw [hz1v]; exact mul_mod_width (Al + Ah) (Bl + Bh) (n - mid + 1) nr (by omega) (by omega)
      · exact hs1v
      · exact hs2v
      · rw [hsh1v, Nat.mod_mod, hpp]
      · rw [hsh2v, Nat.mod_mod]
      · rw [ha1v, Nat.mod_mod]
      · rw [hrv, Nat.mod_mod]

theorem multiplierArrayThreshold_ge (n : Nat) : 3 ≤ multiplierArrayThreshold n := by
  unfold multiplierArrayThreshold
  repeat' split
  all_goals omega

/-- `NewMultiplier` on the Yao target (`NewKaratsubaMultiplier` with the
threshold table of circ_multiplier_params.go): exact for all widths. -/
theorem newMultiplierYao_spec {s : St} {inp : List Bool} (hwf : WF s inp) {x y : List Nat} (nz : Nat)
    (hx : Bnd s x) (hy : Bnd s y) (hne : 0 < max x.length y.length) (hnz : 0 < nz) :
    Spec inp s (newMultiplier false x y nz) (fun z s' => ∃ r, z = some r ∧ Bnd s' r ∧ r.length = nz ∧
      toNat (busVal s' inp r) = (toNat (busVal s inp x) * toNat (busVal s inp y)) % 2 ^ nz) := by
  unfold newMultiplier
  simp only [Bool.false_eq_true, if_false]
  have : 2 * max x.length y.length + 8 = (2 * max x.length y.length + 7) + 1 := by omega
  rw [this]
  exact karatsuba_spec false _ (multiplierArrayThreshold_ge _) _ x y nz hwf hx hy hne hnz (by omega)

end Mpc.Bld

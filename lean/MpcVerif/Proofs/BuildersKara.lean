/-
Karatsuba multiplier (C07): exact for every array threshold `limit ≥ 3`,
from the adder, subtractor and array-multiplier specifications.
-/
import MpcVerif.Proofs.BuildersDiv

namespace Mpc.Bld
open Mpc

/-! ### congruences modulo `M` -/

theorem modeq_iff_dvd (x y M : Nat) : x % M = y % M ↔ (M : Int) ∣ (x : Int) - y := by
  rw [Int.dvd_iff_emod_eq_zero, ← Int.emod_eq_emod_iff_emod_sub_eq_zero]
  constructor
  · intro h; rw [← Int.natCast_emod, ← Int.natCast_emod, h]
  · intro h; rw [← Int.natCast_emod, ← Int.natCast_emod] at h; exact Int.ofNat_inj.mp h

/-- The Karatsuba recombination modulo `M`:
`z2·P² + (z1 - z2 - z0)·P + z0 ≡ (Al + P·Ah)·(Bl + P·Bh)`. -/
theorem karatsuba_algebra (M P Al Ah Bl Bh z0 z1 z2 sub1 sub2 sh1 sh2 add1 R : Nat)
    (h0 : z0 % M = (Al * Bl) % M) (h2 : z2 % M = (Ah * Bh) % M)
    (h1 : z1 % M = ((Al + Ah) * (Bl + Bh)) % M)
    (hs1 : (sub1 + z2) % M = z1 % M) (hs2 : (sub2 + z0) % M = sub1 % M)
    (hsh1 : sh1 % M = (z2 * (P * P)) % M) (hsh2 : sh2 % M = (sub2 * P) % M)
    (ha1 : add1 % M = (sh1 + sh2) % M) (hr : R % M = (add1 + z0) % M) :
    R % M = ((Al + P * Ah) * (Bl + P * Bh)) % M := by
  rw [modeq_iff_dvd] at *
  obtain ⟨k0, e0⟩ := h0
  obtain ⟨k2, e2⟩ := h2
  obtain ⟨k1, e1⟩ := h1
  obtain ⟨ks1, es1⟩ := hs1
  obtain ⟨ks2, es2⟩ := hs2
  obtain ⟨kh1, eh1⟩ := hsh1
  obtain ⟨kh2, eh2⟩ := hsh2
  obtain ⟨ka, ea⟩ := ha1
  obtain ⟨kr, er⟩ := hr
  refine ⟨kr + ka + kh1 + kh2 + (P : Int) * ks2 + (P : Int) * ks1 + (P : Int) * k1 + (1 - (P : Int)) * k0 +
    ((P : Int) * P - P) * k2, ?_⟩
  push_cast at *
  have key : (R : Int) - ((Al : Int) + P * Ah) * (Bl + P * Bh) =
      ((R : Int) - (add1 + z0)) + ((add1 : Int) - (sh1 + sh2)) + ((sh1 : Int) - z2 * (P * P)) +
      ((sh2 : Int) - sub2 * P) + (P : Int) * ((sub2 : Int) + z0 - sub1) + (P : Int) * ((sub1 : Int) + z2 - z1) +
      (P : Int) * ((z1 : Int) - (Al + Ah) * (Bl + Bh)) + (1 - (P : Int)) * ((z0 : Int) - Al * Bl) +
      ((P : Int) * P - P) * ((z2 : Int) - Ah * Bh) := by grind
  rw [key, er, ea, eh1, eh2, es2, es1, e1, e0, e2]
  grind

/-- A product of two `k`-bit numbers computed at width `min(2k, nr)` is the
product modulo `2^nr`. -/
theorem mul_mod_width (A B k nr : Nat) (hA : A < 2 ^ k) (hB : B < 2 ^ k) :
    ((A * B) % 2 ^ (min (k * 2) nr)) % 2 ^ nr = (A * B) % 2 ^ nr := by
  by_cases h : k * 2 ≤ nr
  · rw [Nat.min_eq_left h]
    have : A * B < 2 ^ (k * 2) := by
      have e : 2 ^ (k * 2) = 2 ^ k * 2 ^ k := by rw [Nat.mul_two, Nat.pow_add]
      rw [e]
      exact Nat.mul_lt_mul'' hA hB
    rw [Nat.mod_eq_of_lt this]
  · rw [Nat.min_eq_right (by omega), Nat.mod_mod]

/-! ### ShiftLeft -/

/-- `Compiler.ShiftLeft(w, size, count)` for `count ≤ size`:
`(w · 2^count) mod 2^size` on `size` wires. -/
theorem shiftLeft_spec {s : St} {inp : List Bool} (hwf : WF s inp) {w : List Nat} (size count : Nat)
    (hw : Bnd s w) (hc : count ≤ size) :
    Spec inp s (shiftLeft w size count) (fun r s' => Bnd s' r ∧ r.length = size ∧
      toNat (busVal s' inp r) = (toNat (busVal s inp w) * 2 ^ count) % 2 ^ size) := by
  unfold shiftLeft
  refine Spec.bind (zeros_spec hwf count) ?_
  intro lo s1 e1 ⟨hlob, hlov⟩
  refine Spec.bind (zeros_spec e1.wf _) ?_
  intro hi s2 e2 ⟨hhib, hhiv⟩
  have hlol : lo.length = count := by have := congrArg List.length hlov; simpa using this
  have hhil : hi.length = size - (count + w.length) := by have := congrArg List.length hhiv; simpa using this
  have e12 := e1.trans e2
  generalize hmid : (if count < size then w.take (size - count) else []) = mid
  have hmidb : Bnd s mid := by rw [← hmid]; split; exact hw.take _; exact Bnd.nil s
  have hmidv : busVal s inp mid = (busVal s inp w).take (size - count) := by
    rw [← hmid]; split
    · rw [busVal_take]
    · have : size - count = 0 := by omega
      rw [this]; simp
  have hmidl : mid.length = min (size - count) w.length := by
    have := congrArg List.length hmidv; simpa using this
  have htot : (lo ++ mid ++ hi).length = size := by
    simp only [List.length_append, hlol, hmidl, hhil]; omega
  refine Spec.pure e2.wf ⟨((hlob.mono e2).append (hmidb.mono e12)).append hhib |>.take size, ?_, ?_⟩
  · rw [List.length_take, htot]; simp
  · rw [List.take_of_length_le (by omega), busVal_append, hhiv, toNat_append_zeros, busVal_append, toNat_append,
      busVal_ext e2 hlob, hlov, toNat_replicate_false, List.length_replicate, busVal_ext e12 hmidb, hmidv,
      toNat_take]
    have hs : size = count + (size - count) := by omega
    conv => rhs; rw [hs, Nat.pow_add, Nat.mul_comm (toNat (busVal s inp w)), Nat.mul_mod_mul_left]
    omega

end Mpc.Bld

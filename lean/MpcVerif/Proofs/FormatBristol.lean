/-
Helper lemmas for C14, third part: the Bristol text round trip
(`MarshalBristol` / `ParseBristol`).
-/
import MpcVerif.Proofs.FormatRT

namespace Mpc
namespace Fmt

/-! ## Bristol text: lines and tokens -/

/-- Bytes of which `MarshalBristol`'s tokens consist. -/
def plain (b : UInt8) : Bool := isDigit b || isAlpha b

theorem plain_facts (b : UInt8) (h : plain b = true) : isAsciiSpace b = false ∧ b ≠ 10 ∧ b.toNat < 128 := by
  simp only [plain, Bool.or_eq_true] at h
  have hb : (48 ≤ b.toNat ∧ b.toNat ≤ 57) ∨ (65 ≤ b.toNat ∧ b.toNat ≤ 90) ∨ (97 ≤ b.toNat ∧ b.toNat ≤ 122) := by
    rcases h with h | h
    · exact Or.inl ((isDigit_iff b).1 h)
    · exact Or.inr ((isAlpha_iff b).1 h)
  refine ⟨?_, ?_, by omega⟩
  · simp only [isAsciiSpace, Bool.or_eq_false_iff, decide_eq_false_iff_not]
    refine ⟨⟨⟨⟨⟨?_, ?_⟩, ?_⟩, ?_⟩, ?_⟩, ?_⟩ <;> (intro hx; subst hx; revert hb; decide)
  · intro hx; subst hx; revert hb; decide

theorem termLines_line (l rest : Bytes) (h : ∀ b ∈ l, b ≠ 10) : ∀ acc,
    termLines (l ++ 10 :: rest) acc = (acc.reverse ++ l) :: termLines rest [] := by
  induction l with
  | nil => intro acc; simp [termLines]
  | cons a t ih =>
    intro acc
    have ha : a ≠ 10 := h a (by simp)
    simp only [List.cons_append, termLines, ha, if_false]
    rw [ih (fun b hb => h b (by simp [hb]))]
    simp

theorem trimLeft_plain (a : UInt8) (t : Bytes) (ha : plain a = true) : trimLeft (a :: t) = a :: t := by
  obtain ⟨h1, _, h3⟩ := plain_facts a ha
  have n1 : a ≠ 0xC2 := by intro hx; subst hx; revert h3; decide
  have n2 : a ≠ 0xE1 := by intro hx; subst hx; revert h3; decide
  have n3 : a ≠ 0xE2 := by intro hx; subst hx; revert h3; decide
  have n4 : a ≠ 0xE3 := by intro hx; subst hx; revert h3; decide
  unfold trimLeft
  simp only [h1]
  cases t with
  | nil => simp
  | cons b t2 =>
    cases t2 with
    | nil => simp [n1]
    | cons c t3 => simp [n1, n2, n3, n4]

theorem trimLeftRev_plain (a : UInt8) (t : Bytes) (ha : plain a = true) : trimLeftRev (a :: t) = a :: t := by
  obtain ⟨h1, _, h3⟩ := plain_facts a ha
  have m1 : a ≠ 0x85 := by intro hx; subst hx; revert h3; decide
  have m2 : a ≠ 0xA0 := by intro hx; subst hx; revert h3; decide
  have m3 : ¬ (0x80 ≤ a) := by
    rw [UInt8.le_iff_toNat_le]; simp; omega
  have m4 : a ≠ 0x80 := by intro hx; subst hx; revert h3; decide
  have m5 : a ≠ 0xA8 := by intro hx; subst hx; revert h3; decide
  have m6 : a ≠ 0xA9 := by intro hx; subst hx; revert h3; decide
  have m7 : a ≠ 0xAF := by intro hx; subst hx; revert h3; decide
  have m8 : a ≠ 0x9F := by intro hx; subst hx; revert h3; decide
  unfold trimLeftRev
  simp only [h1]
  cases t with
  | nil => simp
  | cons b t2 =>
    cases t2 with
    | nil => simp [m1, m2]
    | cons c t3 => simp [m1, m2, m3, m4, m5, m6, m7, m8]

theorem trimSpace_plain (l : Bytes) (hne : l ≠ []) (h : ∀ b ∈ l, plain b = true ∨ b = 32)
    (hh : ∀ a t, l = a :: t → plain a = true) (hl : ∀ p z, l = p ++ [z] → plain z = true) :
    trimSpace l = l := by
  cases l with
  | nil => exact absurd rfl hne
  | cons a t =>
    unfold trimSpace
    rw [trimLeft_plain a t (hh a t rfl)]
    have hr : (a :: t).reverse ≠ [] := by simp
    cases hrev : (a :: t).reverse with
    | nil => exact absurd hrev hr
    | cons z r =>
      have hl' : a :: t = r.reverse ++ [z] := by
        have := congrArg List.reverse hrev
        simpa using this
      rw [trimLeftRev_plain z r (hl _ _ hl'), ← hrev, List.reverse_reverse]

theorem tokenize_tok (tok rest : Bytes) (ht : ∀ b ∈ tok, isAsciiSpace b = false) : ∀ acc,
    acc.reverse ++ tok ≠ [] →
    tokenize (tok ++ 32 :: rest) acc = (acc.reverse ++ tok) :: tokenize rest [] := by
  induction tok with
  | nil =>
    intro acc hne
    have : acc ≠ [] := by intro h; subst h; simp at hne
    simp [tokenize, isAsciiSpace, this]
  | cons a t ih =>
    intro acc _
    have ha := ht a (by simp)
    simp only [List.cons_append, tokenize, ha]
    rw [ih (fun b hb => ht b (by simp [hb])) (a :: acc) (by simp)]
    simp

theorem tokenize_last (tok : Bytes) (ht : ∀ b ∈ tok, isAsciiSpace b = false) : ∀ acc,
    acc.reverse ++ tok ≠ [] → tokenize tok acc = [acc.reverse ++ tok] := by
  induction tok with
  | nil =>
    intro acc hne
    have : acc ≠ [] := by intro h; subst h; simp at hne
    simp [tokenize, this]
  | cons a t ih =>
    intro acc _
    have ha := ht a (by simp)
    simp only [tokenize, ha]
    rw [ih (fun b hb => ht b (by simp [hb])) (a :: acc) (by simp)]
    simp

/-- Tokens separated by one space. -/
def joinToks : List Bytes → Bytes
  | [] => []
  | [t] => t
  | t :: ts => t ++ 32 :: joinToks ts

/-- A token of plain bytes, not empty. -/
def TokOK (t : Bytes) : Prop := t ≠ [] ∧ ∀ b ∈ t, plain b = true

theorem tokenize_joinToks : ∀ (ts : List Bytes), (∀ t ∈ ts, TokOK t) → tokenize (joinToks ts) [] = ts
  | [], _ => by simp [joinToks, tokenize]
  | [t], h => by
    have := h t (by simp)
    simp only [joinToks]
    rw [tokenize_last t (fun b hb => (plain_facts b (this.2 b hb)).1) [] (by simpa using this.1)]
    simp
  | t :: t2 :: ts, h => by
    have ht := h t (by simp)
    simp only [joinToks]
    rw [tokenize_tok t _ (fun b hb => (plain_facts b (ht.2 b hb)).1) [] (by simpa using ht.1)]
    have := tokenize_joinToks (t2 :: ts) (fun x hx => h x (by simp [hx]))
    simp only [List.reverse_nil, List.nil_append]
    rw [this]

theorem joinToks_mem : ∀ (ts : List Bytes), (∀ t ∈ ts, TokOK t) → ∀ b ∈ joinToks ts, plain b = true ∨ b = 32
  | [], _, b, hb => by simp [joinToks] at hb
  | [t], h, b, hb => Or.inl ((h t (by simp)).2 b (by simpa [joinToks] using hb))
  | t :: t2 :: ts, h, b, hb => by
    simp only [joinToks, List.mem_append, List.mem_cons] at hb
    rcases hb with hb | hb | hb
    · exact Or.inl ((h t (by simp)).2 b hb)
    · exact Or.inr hb
    · exact joinToks_mem (t2 :: ts) (fun x hx => h x (by simp [hx])) b hb

theorem joinToks_head : ∀ (ts : List Bytes), ts ≠ [] → (∀ t ∈ ts, TokOK t) →
    ∃ a r, joinToks ts = a :: r ∧ plain a = true
  | [], hne, _ => absurd rfl hne
  | [t], _, h => by
    obtain ⟨h1, h2⟩ := h t (by simp)
    cases t with
    | nil => exact absurd rfl h1
    | cons a r => exact ⟨a, r, rfl, h2 a (by simp)⟩
  | t :: t2 :: ts, _, h => by
    obtain ⟨h1, h2⟩ := h t (by simp)
    cases t with
    | nil => exact absurd rfl h1
    | cons a r => exact ⟨a, _, rfl, h2 a (by simp)⟩

theorem joinToks_last : ∀ (ts : List Bytes), ts ≠ [] → (∀ t ∈ ts, TokOK t) →
    ∃ p z, joinToks ts = p ++ [z] ∧ plain z = true
  | [], hne, _ => absurd rfl hne
  | [t], _, h => by
    obtain ⟨h1, h2⟩ := h t (by simp)
    have hr : t.reverse ≠ [] := by simpa using h1
    cases hrev : t.reverse with
    | nil => exact absurd hrev hr
    | cons z r =>
      have : t = r.reverse ++ [z] := by
        have := congrArg List.reverse hrev
        simpa using this
      exact ⟨r.reverse, z, this, h2 z (by rw [this]; simp)⟩
  | t :: t2 :: ts, _, h => by
    obtain ⟨p, z, e, hz⟩ := joinToks_last (t2 :: ts) (by simp) (fun x hx => h x (by simp [hx]))
    exact ⟨t ++ 32 :: p, z, by simp only [joinToks] at e ⊢; rw [e]; simp, hz⟩

theorem joinToks_ne_nil (ts : List Bytes) (hne : ts ≠ []) (h : ∀ t ∈ ts, TokOK t) : joinToks ts ≠ [] := by
  obtain ⟨a, r, e, _⟩ := joinToks_head ts hne h
  rw [e]; simp

theorem joinToks_no_nl (ts : List Bytes) (h : ∀ t ∈ ts, TokOK t) : ∀ b ∈ joinToks ts, b ≠ 10 := by
  intro b hb
  rcases joinToks_mem ts h b hb with hp | hp
  · exact (plain_facts b hp).2.1
  · subst hp; decide

/-- `readLine` on a text that starts with a line of tokens. -/
theorem readLines_line (ts : List Bytes) (hne : ts ≠ []) (h : ∀ t ∈ ts, TokOK t) (rest : Bytes) :
    readLines (joinToks ts ++ 10 :: rest) = ts :: readLines rest := by
  unfold readLines
  rw [termLines_line _ _ (joinToks_no_nl ts h) []]
  simp only [List.reverse_nil, List.nil_append, List.filterMap_cons]
  have htrim : trimSpace (joinToks ts) = joinToks ts := by
    apply trimSpace_plain _ (joinToks_ne_nil ts hne h) (joinToks_mem ts h)
    · intro a t e
      obtain ⟨a', r, e', ha⟩ := joinToks_head ts hne h
      rw [e] at e'; simp only [List.cons.injEq] at e'; rw [e'.1]; exact ha
    · intro p z e
      obtain ⟨p', z', e', hz⟩ := joinToks_last ts hne h
      rw [e] at e'
      have := List.append_inj_right' e' (by simp)
      simp only [List.cons.injEq, and_true] at this
      rw [this]; exact hz
  simp only [htrim, joinToks_ne_nil ts hne h, if_false, tokenize_joinToks ts h, hne]

/-- `readLine` skips an empty line. -/
theorem readLines_blank (rest : Bytes) : readLines (10 :: rest) = readLines rest := by
  unfold readLines
  simp [termLines, trimSpace, trimLeft, trimLeftRev]

theorem readLines_nil : readLines [] = [] := by simp [readLines, termLines]

/-! ## Bristol: numbers and operation names -/

theorem dec_tokOK (n : Nat) : TokOK (dec n) := by
  refine ⟨dec_ne_nil n, fun b hb => ?_⟩
  have := List.all_eq_true.1 (dec_all_digits n) b hb
  simp [plain, this]

theorem opName_tokOK (op : Op) : TokOK (opName op) := by
  cases op <;> exact ⟨by decide, by decide⟩

theorem opOfName_opName (op : Op) : opOfName (opName op) = some op := by cases op <;> decide

theorem signedDec_dec (n : Nat) : signedDec (dec n) = some (n : Int) := by
  have hd := dec_all_digits n
  have hn := dec_ne_nil n
  have hv := digitsVal_dec n
  cases hdec : dec n with
  | nil => exact absurd hdec hn
  | cons c t =>
    rw [hdec] at hd hv
    have hc : isDigit c = true := by
      simp only [List.all_cons, Bool.and_eq_true] at hd; exact hd.1
    have h48 := (isDigit_iff c).1 hc
    have c1 : c ≠ 43 := by intro hx; subst hx; revert h48; decide
    have c2 : c ≠ 45 := by intro hx; subst hx; revert h48; decide
    simp only [signedDec, c1, c2, if_false, hd, if_true, hv]

theorem atoi_dec (n : Nat) (h : n < 9223372036854775808) : atoi (dec n) = some (n : Int) := by
  simp only [atoi, signedDec_dec]
  have : (-9223372036854775808 : Int) ≤ n ∧ (n : Int) ≤ 9223372036854775807 := by omega
  simp [this]

theorem parseInt32_dec (n : Nat) (h : n < 2147483648) : parseInt32 (dec n) = some (n : Int) := by
  simp only [parseInt32, signedDec_dec]
  have : (-2147483648 : Int) ≤ n ∧ (n : Int) ≤ 2147483647 := by omega
  simp [this]

theorem parseUint32_dec (n : Nat) (h : n < 4294967296) : parseUint32 (dec n) = some n := by
  simp [parseUint32, dec_ne_nil, dec_all_digits, digitsVal_dec, h]

/-! ## Bristol: `MarshalBristol` as lines of tokens -/

def bitsToks (as : List IOArg) : List Bytes := as.map fun a => decInt a.ty.bits

def gateToks (g : Gate) : List Bytes :=
  match g.op with
  | .inv => [[49], [49], dec g.in0, dec g.out, opName g.op]
  | _ => [[50], [49], dec g.in0, dec g.in1, dec g.out, opName g.op]

def gatesText : List Gate → Bytes
  | [] => []
  | g :: gs => joinToks (gateToks g) ++ 10 :: gatesText gs

theorem bristolBits_join : ∀ (as : List IOArg) (t : Bytes),
    t ++ bristolBits as = joinToks (t :: bitsToks as)
  | [], t => by simp [bristolBits, bitsToks, joinToks]
  | a :: as, t => by
    have ih := bristolBits_join as (decInt a.ty.bits)
    simp only [bristolBits, bitsToks, List.map_cons, joinToks, sp] at ih ⊢
    rw [ih]

theorem marshalBristolGate_text (g : Gate) : marshalBristolGate g = joinToks (gateToks g) ++ [10] := by
  obtain ⟨op, a, b, c⟩ := g
  cases op <;> simp [marshalBristolGate, gateToks, joinToks, sp, nl]

theorem marshalBristolGates_text : ∀ (gs : List Gate), marshalBristolGates gs = gatesText gs
  | [] => rfl
  | g :: gs => by
    have ih := marshalBristolGates_text gs
    simp only [marshalBristolGates, gatesText, ih, marshalBristolGate_text, List.append_assoc,
      List.cons_append, List.nil_append]

theorem marshalBristol_text (c : PCircuit) :
    marshalBristol c = joinToks [dec c.numGates, dec c.numWires] ++ 10 ::
      (joinToks (dec c.inputs.length :: bitsToks c.inputs) ++ 10 ::
        (joinToks (dec c.outputs.length :: bitsToks c.outputs) ++ 10 :: 10 :: gatesText c.gates)) := by
  simp only [marshalBristol, ← bristolBits_join, marshalBristolGates_text, joinToks, sp, nl,
    List.append_assoc, List.cons_append]

/-! ## Bristol: parsing the lines back -/

/-- The signature `ParseBristol` makes up: `NI1, NI2, …` / `NO1, …`, all `uint`. -/
def bnormIO (o : Bool) : Nat → List IOArg → List IOArg
  | _, [] => []
  | i, a :: as => uintArg o i a.ty.bits :: bnormIO o (i + 1) as

theorem bnormIO_bits (o : Bool) : ∀ (as : List IOArg) (i : Nat),
    (bnormIO o i as).map (fun a => a.ty.bits) = as.map (fun a => a.ty.bits)
  | [], _ => rfl
  | a :: as, i => by
    simp only [bnormIO, List.map_cons, bnormIO_bits o as (i + 1)]
    congr 1

theorem bristolArgs_bits (o : Bool) : ∀ (as : List IOArg) (i : Nat),
    (∀ a ∈ as, 0 ≤ a.ty.bits ∧ a.ty.bits < 2147483648) →
    bristolArgs o i (bitsToks as) = .ok (bnormIO o i as)
  | [], i, _ => rfl
  | a :: as, i, h => by
    obtain ⟨h0, h1⟩ := h a (by simp)
    have ih := bristolArgs_bits o as (i + 1) (fun x hx => h x (by simp [hx]))
    simp only [bitsToks, List.map_cons] at ih ⊢
    have hp : parseInt32 (decInt a.ty.bits) = some a.ty.bits := by
      rw [decInt_nonneg _ h0, parseInt32_dec _ (by omega)]
      congr 1; omega
    have hnn : ¬ a.ty.bits < 0 := by omega
    simp only [bristolArgs, hp, hnn, if_false, ih, bnormIO]

theorem bristolGate_inv (in0 in1 out : Nat) (seen : Store Bool)
    (hn0 : needSeen seen in0 = .ok ()) (hset : seenSet seen out = .ok (seen.set out true))
    (h0 : in0 < 4294967296) (h2 : out < 4294967296) :
    bristolGate (gateToks ⟨.inv, in0, in1, out⟩) seen = .ok (⟨.inv, in0, 0, out⟩, seen.set out true) := by
  have a1 : atoi [49] = some 1 := by decide
  have o1 : opOfName [73, 78, 86] = some Op.inv := by decide
  simp [bristolGate, gateToks, opName, a1, bristolIns, bristolOuts, parseUint32_dec _ h0,
    parseUint32_dec _ h2, hn0, hset, o1, Op.binary]

theorem bristolGate_bin (op : Op) (hop : op.binary = true) (in0 in1 out : Nat) (seen : Store Bool)
    (hn0 : needSeen seen in0 = .ok ()) (hn1 : needSeen seen in1 = .ok ())
    (hset : seenSet seen out = .ok (seen.set out true))
    (h0 : in0 < 4294967296) (h1 : in1 < 4294967296) (h2 : out < 4294967296) :
    bristolGate (gateToks ⟨op, in0, in1, out⟩) seen = .ok (⟨op, in0, in1, out⟩, seen.set out true) := by
  have a1 : atoi [49] = some 1 := by decide
  have a2 : atoi [50] = some 2 := by decide
  have o1 := opOfName_opName op
  cases op <;> simp [Op.binary] at hop <;>
    simp [bristolGate, gateToks, a1, a2, bristolIns, bristolOuts, parseUint32_dec _ h0,
      parseUint32_dec _ h1, parseUint32_dec _ h2, hn0, hn1, hset, o1, Op.binary]

theorem gateToks_ok (g : Gate) : gateToks g ≠ [] ∧ ∀ t ∈ gateToks g, TokOK t := by
  have t49 : TokOK [49] := ⟨by decide, by decide⟩
  have t50 : TokOK [50] := ⟨by decide, by decide⟩
  obtain ⟨op, a, b, c⟩ := g
  cases op <;> simp [gateToks, t49, t50, dec_tokOK, opName_tokOK]

theorem readLines_gatesText : ∀ (gs : List Gate), readLines (gatesText gs) = gs.map gateToks
  | [] => by simp [gatesText, readLines_nil]
  | g :: gs => by
    obtain ⟨h1, h2⟩ := gateToks_ok g
    simp only [gatesText, List.map_cons]
    rw [readLines_line _ h1 h2, readLines_gatesText gs]

theorem bristolGates_rt (ng : Nat) : ∀ (gs : List Gate) (gate : Nat) (seen : Store Bool),
    gate + gs.length ≤ ng → seen.size ≤ 4294967296 → wfFrom seen.size gs (seenFn seen) = true →
    ∃ seen', bristolGates ng (gs.map gateToks) gate seen = .ok (gs.map normG, seen') := by
  intro gs
  induction gs with
  | nil => intro gate seen _ _ _; exact ⟨seen, by simp [bristolGates]⟩
  | cons g gs ih =>
    intro gate seen hng hsz hwf
    simp only [List.length_cons] at hng
    simp only [wfFrom, Bool.and_eq_true, decide_eq_true_eq] at hwf
    obtain ⟨⟨⟨⟨⟨w1, w2⟩, w3⟩, w4⟩, w5⟩, w6⟩ := hwf
    obtain ⟨_, hs2, hs3⟩ := seenSet_ok seen g.out (seen.set g.out true) (by simp [seenSet, w5])
    rw [← hs3, ← hs2] at w6
    obtain ⟨seen', e3⟩ := ih (gate + 1) (seen.set g.out true) (by omega) (by rw [hs2]; exact hsz) w6
    have hng2 : ¬ ng ≤ gate := by omega
    obtain ⟨op, in0, in1, out⟩ := g
    simp only at w1 w2 w3 w4 w5 e3
    have hn0 := needSeen_of_seenFn seen in0 w1
    have hset : seenSet seen out = .ok (seen.set out true) := by simp [seenSet, w5]
    refine ⟨seen', ?_⟩
    cases hop : op.binary with
    | false =>
      have : op = .inv := by cases op <;> simp [Op.binary] at hop; rfl
      subst this
      have hg := bristolGate_inv in0 in1 out seen hn0 hset (by omega) (by omega)
      simp only [List.map_cons, bristolGates, hng2, if_false, hg, e3, normG]
    | true =>
      have hn1 := needSeen_of_seenFn seen in1 (by simpa [hop] using w2)
      have hi1 : in1 < 4294967296 := by simp [hop] at w4; omega
      have hg := bristolGate_bin op hop in0 in1 out seen hn0 hn1 hset (by omega) hi1 (by omega)
      simp only [List.map_cons, bristolGates, hng2, if_false, hg, e3]
      cases op <;> simp [Op.binary] at hop <;> rfl

/-- `ParseBristol` from the facts about its steps. -/
theorem parseBristol_eq (bytes t0 t1 tni tno : Bytes) (bI bO : List Bytes) (glines : List (List Bytes))
    (ng nw : Nat) (ins outs : List IOArg) (seen0 seen' : Store Bool) (gs : List Gate)
    (hl : readLines bytes = [t0, t1] :: (tni :: bI) :: (tno :: bO) :: glines)
    (a0 : atoi t0 = some (ng : Int)) (a1 : atoi t1 = some (nw : Int))
    (c0 : ng ≤ cap) (c1 : nw ≤ cap)
    (a2 : atoi tni = some (bI.length : Int)) (a3 : atoi tno = some (bO.length : Int))
    (e1 : bristolArgs false 1 bI = .ok ins) (hnz : ioSize ins ≠ 0)
    (e2 : seenInit nw (ioSize ins) = .ok seen0)
    (e3 : bristolArgs true 1 bO = .ok outs)
    (e4 : bristolGates ng glines 0 seen0 = .ok (gs, seen'))
    (hlen : gs.length = ng) (hall : allSeen seen' = true) :
    parseBristol bytes = .ok ⟨ng, nw, ins, outs, gs⟩ := by
  have hc : cap = 1000000 := rfl
  have r0 : ¬ ((ng : Int) < 0 ∨ 2147483647 < (ng : Int)) := by omega
  have r1 : ¬ ((nw : Int) < 0 ∨ 2147483647 < (nw : Int)) := by omega
  have l2 : ¬ (1 + (bI.length : Int) ≠ ((tni :: bI).length : Int)) := by simp; omega
  have l3 : ¬ (1 + (bO.length : Int) ≠ ((tno :: bO).length : Int)) := by simp; omega
  unfold parseBristol
  rw [hl]
  dsimp only
  simp only [List.length_cons, List.length_nil, ne_eq, not_true_eq_false, if_false,
    List.getElem?_cons_zero, List.getElem?_cons_succ]
  rw [a0]; dsimp only
  rw [if_neg r0, Int.toNat_natCast, declare_ok _ c0]; dsimp only
  rw [a1]; dsimp only
  rw [if_neg r1, Int.toNat_natCast, declare_ok _ c1]; dsimp only
  rw [a2]; dsimp only
  rw [if_neg (by simpa using l2), e1]; dsimp only
  rw [if_neg hnz, e2]; dsimp only
  rw [a3]; dsimp only
  rw [if_neg (by simpa using l3), e3]; dsimp only
  rw [e4]; dsimp only
  rw [if_neg (by simp [hlen]), if_neg (by simp [hall])]

/-- A circuit the Bristol format can carry and `ParseBristol` accepts: counts
within the cap, argument sizes in `[0, 2^31)`, at least one input bit
(`ParseBristol` refuses "no inputs defined"), and the parser's acceptance
conditions. -/
structure PCircuit.BValid (c : PCircuit) : Prop where
  ngates : c.numGates = c.gates.length
  ng_cap : c.numGates ≤ cap
  nw_cap : c.numWires ≤ cap
  ni_cap : c.inputs.length ≤ cap
  no_cap : c.outputs.length ≤ cap
  bitsI : ∀ a ∈ c.inputs, 0 ≤ a.ty.bits ∧ a.ty.bits < 2147483648
  bitsO : ∀ a ∈ c.outputs, 0 ≤ a.ty.bits ∧ a.ty.bits < 2147483648
  nonzero : ioSize c.inputs ≠ 0
  fits : ioSize c.inputs ≤ c.numWires
  wf : wfFrom c.numWires c.gates c.toCircuit.inputDefined = true
  assigned : ∀ w, w < c.numWires → c.toCircuit.defined w = true

/-- What parsing the Bristol text returns: sizes only, made-up names. -/
def PCircuit.bnorm (c : PCircuit) : PCircuit :=
  ⟨c.numGates, c.numWires, bnormIO false 1 c.inputs, bnormIO true 1 c.outputs, c.gates.map normG⟩

theorem bitsToks_ok (as : List IOArg) (h : ∀ a ∈ as, 0 ≤ a.ty.bits ∧ a.ty.bits < 2147483648) :
    ∀ t ∈ bitsToks as, TokOK t := by
  intro t ht
  simp only [bitsToks, List.mem_map] at ht
  obtain ⟨a, ha, e⟩ := ht
  rw [← e, decInt_nonneg _ (h a ha).1]
  exact dec_tokOK _

theorem parseBristol_marshal (c : PCircuit) (hv : c.BValid) :
    parseBristol (marshalBristol c) = .ok c.bnorm := by
  have hc : cap = 1000000 := rfl
  obtain ⟨ng, nw, ins, outs, gs⟩ := c
  obtain ⟨v1, v2, v3, v4, v5, v6, v7, v8, v9, v10, v11⟩ := hv
  simp only at v1 v2 v3 v4 v5 v6 v7 v8 v9 v10 v11
  have ok1 : ∀ t ∈ [dec ng, dec nw], TokOK t := by
    intro t ht; simp only [List.mem_cons, List.not_mem_nil, or_false] at ht
    rcases ht with ht | ht <;> subst ht <;> exact dec_tokOK _
  have ok2 : ∀ t ∈ dec ins.length :: bitsToks ins, TokOK t := by
    intro t ht; simp only [List.mem_cons] at ht
    rcases ht with ht | ht
    · subst ht; exact dec_tokOK _
    · exact bitsToks_ok ins v6 t ht
  have ok3 : ∀ t ∈ dec outs.length :: bitsToks outs, TokOK t := by
    intro t ht; simp only [List.mem_cons] at ht
    rcases ht with ht | ht
    · subst ht; exact dec_tokOK _
    · exact bitsToks_ok outs v7 t ht
  have hl : readLines (marshalBristol ⟨ng, nw, ins, outs, gs⟩) =
      [dec ng, dec nw] :: (dec ins.length :: bitsToks ins) :: (dec outs.length :: bitsToks outs) ::
        gs.map gateToks := by
    rw [marshalBristol_text]
    simp only
    rw [readLines_line _ (by simp) ok1, readLines_line _ (by simp) ok2, readLines_line _ (by simp) ok3,
      readLines_blank, readLines_gatesText]
  have hio : ioSize (bnormIO false 1 ins) = ioSize ins := by simp only [ioSize, bnormIO_bits]
  have hnlt : ¬ ((nw : Int) < ioSize (bnormIO false 1 ins)) := by rw [hio]; omega
  have e2 : seenInit nw (ioSize (bnormIO false 1 ins)) =
      .ok ((Array.range nw).map fun (i : Nat) => decide ((i : Int) < ioSize (bnormIO false 1 ins))) := by
    simp [seenInit, hnlt]
  obtain ⟨s1, _, s3⟩ := seenInit_ok _ _ _ e2
  obtain ⟨seen', e4⟩ := bristolGates_rt ng gs 0 _ (by omega) (by rw [s1]; omega)
    (by rw [s1, s3, hio]; exact v10)
  obtain ⟨_, w2, w3⟩ := bristolGates_wf _ _ _ _ _ _ e4
  have hall : allSeen seen' = true := by
    unfold allSeen
    rw [Array.all_eq_true]
    intro i hi
    have hi' : i < nw := by rw [w2, s1] at hi; exact hi
    have hfn : seenFn seen' i = true := by
      rw [w3, definedAfter_normG, s3, hio]; exact v11 i hi'
    simp only [seenFn, hi, decide_true, Bool.true_and, Store.get, Array.getD, dite_true] at hfn
    simpa using hfn
  have lI : (bitsToks ins).length = ins.length := by simp [bitsToks]
  have lO : (bitsToks outs).length = outs.length := by simp [bitsToks]
  exact parseBristol_eq _ _ _ _ _ _ _ _ ng nw _ _ _ seen' _ hl (atoi_dec _ (by omega)) (atoi_dec _ (by omega))
    v2 v3 (by rw [lI]; exact atoi_dec _ (by omega)) (by rw [lO]; exact atoi_dec _ (by omega))
    (bristolArgs_bits false ins 1 v6) (by rw [hio]; exact v8) e2 (bristolArgs_bits true outs 1 v7) e4
    (by simp [v1]) hall

theorem bristolBits_bnormIO (o : Bool) : ∀ (as : List IOArg) (i : Nat),
    bristolBits (bnormIO o i as) = bristolBits as
  | [], _ => rfl
  | a :: as, i => by
    simp only [bnormIO, bristolBits, bristolBits_bnormIO o as (i + 1)]
    rfl

theorem bnormIO_length (o : Bool) : ∀ (as : List IOArg) (i : Nat), (bnormIO o i as).length = as.length
  | [], _ => rfl
  | a :: as, i => by simp [bnormIO, bnormIO_length o as (i + 1)]

theorem marshalBristolGate_normG (g : Gate) : marshalBristolGate (normG g) = marshalBristolGate g := by
  obtain ⟨op, a, b, c⟩ := g
  cases op <;> rfl

theorem marshalBristolGates_normG : ∀ (gs : List Gate),
    marshalBristolGates (gs.map normG) = marshalBristolGates gs
  | [] => rfl
  | g :: gs => by
    simp only [List.map_cons, marshalBristolGates, marshalBristolGate_normG, marshalBristolGates_normG gs]

/-- Writing the parsed circuit in Bristol form gives the same text. -/
theorem marshalBristol_bnorm (c : PCircuit) : marshalBristol c.bnorm = marshalBristol c := by
  simp only [PCircuit.bnorm, marshalBristol, bnormIO_length, bristolBits_bnormIO, marshalBristolGates_normG]

theorem compute_bnorm (c : PCircuit) (x : List Bool) :
    c.bnorm.toCircuit.compute x = c.toCircuit.compute x := by
  simp only [Circuit.compute, Circuit.outputs, Circuit.plainEval, PCircuit.toCircuit, PCircuit.bnorm,
    ioSize, bnormIO_bits, evalPlainGates_normG]

end Fmt
end Mpc

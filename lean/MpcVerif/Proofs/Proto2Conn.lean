/-
Helper lemmas for C02 over the connection layer (Model/Proto2Conn.lean): a
flight of typed protocol messages, whatever its size relative to the 64 KiB
write buffer and the 1 MiB read window, sent under any writer schedule and read
under any transport fragmentation, arrives as exactly the same messages.
-/
import MpcVerif.Model.Proto2Conn
import MpcVerif.Proofs.Conn
import MpcVerif.Proofs.Proto2

namespace Mpc
open Conn

theorem Msg.ofVal_toVal (m : Msg (BitVec 128)) : Msg.ofVal m.toVal = some m := by
  cases m with
  | data bs => simp [Msg.toVal, Msg.ofVal]
  | u32 n => rfl
  | label l => simp [Msg.toVal, Msg.ofVal]

theorem Msg.toVal_valid (m : Msg (BitVec 128)) (h : m.Fits) : m.toVal.Valid := by
  cases m with
  | data bs => simpa [Msg.toVal, Val.Valid, Msg.Fits, ByteArray.size] using h
  | u32 n => simpa [Msg.toVal, Val.Valid, Msg.Fits] using h
  | label l => simp [Msg.toVal, Val.Valid]; exact l.isLt

theorem Msg.mapM_ofVal_toVal (ms : List (Msg (BitVec 128))) :
    (ms.map Msg.toVal).mapM Msg.ofVal = some ms := by
  induction ms with
  | nil => rfl
  | cons m ms ih => simp [List.mapM_cons, Msg.ofVal_toVal, ih]

theorem opsVals_sends (ms : List (Msg (BitVec 128))) :
    opsVals (ms.map fun m => Op.send m.toVal) = ms.map Msg.toVal := by
  induction ms with
  | nil => rfl
  | cons m ms ih => simp only [List.map_cons, opsVals, ih]

/-- What reaches the transport for a flight is the concatenation of the wire
encodings of its messages - for every writer schedule, however the flight is
cut into 64 KiB buffers. -/
theorem flightBytes_eq (sch : Sched) (ms : List (Msg (BitVec 128))) :
    flightBytes sch ms = encodeVals (ms.map Msg.toVal) := by
  unfold flightBytes
  obtain ⟨h1, h2⟩ := run_spec sch (ms.map fun m => Op.send m.toVal) Sender.init SInv_init
  obtain ⟨_, _, c3, _⟩ := close_spec sch _ h1
  rw [c3, h2, encodeAll_eq_encodeVals, opsVals_sends]
  simp [Sender.stream, Sender.chunks, Sender.init, joinB]

/-- New bytes reaching the transport of a receive half that has nothing unread. -/
theorem feed_spec (r : Recv) (b : ByteArray) (hi : RInv r) (hu : r.unread = ByteArray.empty) :
    RInv (r.feed b) ∧ (r.feed b).unread = b := by
  have hsz : r.unread.size = 0 := by rw [hu]; rfl
  rw [size_unread] at hsz
  have h1 := hi.rs_le
  have h2 := hi.pos_le
  have hpos : r.pos = r.pend.size := by omega
  constructor
  · exact ⟨hi.rs_le, hi.buf_le, by simp only [Recv.feed, ByteArray.size_append]; omega⟩
  · simp only [Recv.unread, Recv.window, Recv.pending, Recv.feed]
    rw [extract_empty_of_le r.buf r.rs r.buf.size (by omega), hpos, ByteArray.extract_append]
    rw [extract_empty_of_le r.pend r.pend.size _ (by omega)]
    simp only [ByteArray.size_append, Nat.sub_self, Nat.add_sub_cancel_left,
      ByteArray.extract_zero_size, ByteArray.empty_append]

theorem RInv_fresh : RInv (Recv.init ByteArray.empty) ∧
    (Recv.init ByteArray.empty).unread = ByteArray.empty :=
  ⟨RInv_init _, unread_init _⟩

/-- **One flight over a connection.**  Any flight of protocol messages of any
total size, under every writer schedule and every read fragmentation, received
by a receive half in any state with nothing unread: the matching typed
receives return exactly the messages sent, take no error branch and leave
nothing unread. -/
theorem recvFlight_ok (sch : Sched) (frag : Frag) (r : Recv) (ms : List (Msg (BitVec 128)))
    (hfit : ∀ m ∈ ms, m.Fits) (hi : RInv r) (hu : r.unread = ByteArray.empty) :
    ∃ r', recvFlight frag r (flightBytes sch ms) ms = .ok (ms, r') ∧ RInv r' ∧
      r'.unread = ByteArray.empty := by
  obtain ⟨fi, fu⟩ := feed_spec r (flightBytes sch ms) hi hu
  have hv : ∀ v ∈ ms.map Msg.toVal, v.Valid := by
    intro v hv
    obtain ⟨m, hm, rfl⟩ := List.mem_map.mp hv
    exact Msg.toVal_valid m (hfit m hm)
  obtain ⟨r', e, i, u, _⟩ := recvAll_spec frag (ms.map Msg.toVal) hv (r.feed (flightBytes sch ms)) fi
    ByteArray.empty (by rw [fu, flightBytes_eq]; simp)
  refine ⟨r', ?_, i, u⟩
  simp only [List.map_map, Function.comp_def] at e
  simp only [recvFlight, e, Msg.mapM_ofVal_toVal]

/-! ### Size of the result message -/

theorem packLE_lt (bs : List Bool) : packLE bs < 2 ^ bs.length := by
  induction bs with
  | nil => simp [packLE]
  | cons b bs ih =>
    simp only [packLE, List.length_cons, Nat.pow_succ]
    cases b <;> simp <;> omega

theorem natToBytesBE_length (k n : Nat) (h : n < 2 ^ k) : (natToBytesBE n).length ≤ k := by
  induction k generalizing n with
  | zero =>
    have : n = 0 := by simpa using h
    subst this
    rw [natToBytesBE]; simp
  | succ k ih =>
    rw [natToBytesBE]
    split
    · simp
    · have : n / 256 < 2 ^ k := by
        rw [Nat.pow_succ] at h
        have : n / 256 ≤ n / 2 := Nat.div_le_div_left (by omega) (by omega)
        omega
      have := ih (n / 256) this
      simp only [List.length_append, List.length_cons, List.length_nil]
      omega

theorem garblerDecode_length [DecidableEq L] [LabelAlg L] (p : Circuit2) (G : Garbled L) :
    ∀ (ls : List L) (i : Nat) (bs : List Bool), garblerDecode p G i ls = .ok bs → bs.length = ls.length := by
  intro ls
  induction ls with
  | nil => intro i bs h; simp [garblerDecode] at h; subst h; rfl
  | cons l ls ih =>
    intro i bs h
    simp only [garblerDecode] at h
    split at h
    · cases h
    · split at h
      · next bs' hbs =>
        have := ih (i + 1) bs' hbs
        cases h
        simp [this]
      · cases h

theorem garble_rows_lt (c : Circuit) (H : Hash (BitVec 128)) (r : BitVec 128) (inl : Nat → BitVec 128) :
    ∀ row ∈ (c.garble H r inl).rows, row.length < 2 ^ 32 := by
  intro row hrow
  have h : (c.garble H r inl).rows.map List.length = c.gates.map (fun g => g.op.rows) := by
    simp only [Circuit.garble]
    exact garbleGates_rows_length H r c.gates _ 0
  have hm : row.length ∈ (c.garble H r inl).rows.map List.length := List.mem_map_of_mem hrow
  rw [h] at hm
  obtain ⟨g, _, hg⟩ := List.mem_map.mp hm
  rw [← hg]
  cases g.op <;> simp [Op.rows]

/-- Every message of the garbler's first flight is in the domain of the typed
API when the key, the gate count are. -/
theorem flight1_fits (p : Circuit2) (key : List UInt8) (H : Hash (BitVec 128)) (r : BitVec 128)
    (inl : Nat → BitVec 128) (x : List Bool) (hk : key.length < 2 ^ 32)
    (hg : p.c.gates.length < 2 ^ 32) :
    ∀ m ∈ garblerFlight1 p key (p.c.garble H r inl) x, m.Fits := by
  intro m hm
  simp only [garblerFlight1, tablesMsgs, List.mem_cons, List.mem_append, List.mem_flatMap,
    List.mem_map] at hm
  rcases hm with rfl | (rfl | ⟨row, hrow, rfl | ⟨l, _, rfl⟩⟩) | ⟨l, _, rfl⟩
  · exact hk
  · simp only [Msg.Fits]; rw [garble_rows_count]; exact hg
  · exact garble_rows_lt p.c H r inl row hrow
  · trivial
  · trivial

end Mpc

/-
Helper lemmas for C14, second part: decimal numbers, the type text round trip
(`Info.String` / `types.Parse`), and the file round trips.
-/
import MpcVerif.Proofs.Format

namespace Mpc
namespace Fmt

/-! ## Decimal numbers -/

def digitCh (d : Nat) : UInt8 := UInt8.ofNat (48 + d % 10)

theorem digitCh_toNat (d : Nat) : (digitCh d).toNat = 48 + d % 10 := by
  simp only [digitCh, UInt8.toNat_ofNat']
  omega

theorem isDigit_iff (b : UInt8) : isDigit b = true ↔ 48 ≤ b.toNat ∧ b.toNat ≤ 57 := by
  simp only [isDigit, Bool.and_eq_true, decide_eq_true_eq, UInt8.le_iff_toNat_le]
  simp

theorem isAlpha_iff (b : UInt8) : isAlpha b = true ↔
    (65 ≤ b.toNat ∧ b.toNat ≤ 90) ∨ (97 ≤ b.toNat ∧ b.toNat ≤ 122) := by
  simp only [isAlpha, Bool.or_eq_true, Bool.and_eq_true, decide_eq_true_eq, UInt8.le_iff_toNat_le]
  simp

theorem isDigit_digitCh (d : Nat) : isDigit (digitCh d) = true := by
  rw [isDigit_iff, digitCh_toNat]; omega

theorem digitsVal_foldl (ds : Bytes) (a : Nat) :
    ds.foldl (fun acc d => acc * 10 + (d.toNat - 48)) a = a * 10 ^ ds.length + digitsVal ds := by
  induction ds generalizing a with
  | nil => simp [digitsVal]
  | cons d ds ih =>
    simp only [List.foldl_cons, digitsVal, List.length_cons]
    rw [ih, ih (0 * 10 + (d.toNat - 48))]
    rw [Nat.pow_succ]
    simp only [Nat.zero_mul, Nat.zero_add, Nat.add_mul]
    rw [Nat.mul_assoc, Nat.mul_comm (10 ^ ds.length) 10, Nat.add_assoc]

theorem digitsVal_cons (d : UInt8) (ds : Bytes) :
    digitsVal (d :: ds) = (d.toNat - 48) * 10 ^ ds.length + digitsVal ds := by
  simp only [digitsVal, List.foldl_cons]
  rw [digitsVal_foldl]
  simp [digitsVal]


theorem decAux_spec : ∀ (f n : Nat) (acc : Bytes), n < f →
    digitsVal (decAux f n acc) = n * 10 ^ acc.length + digitsVal acc ∧
    (acc.all isDigit = true → (decAux f n acc).all isDigit = true) ∧
    ∃ pre, decAux f n acc = pre ++ acc ∧ pre ≠ [] := by
  intro f
  induction f with
  | zero => intro n acc h; omega
  | succ f ih =>
    intro n acc hn
    simp only [decAux]
    have hd : (UInt8.ofNat (48 + n % 10)) = digitCh n := rfl
    rw [hd]
    by_cases h0 : n / 10 = 0
    · simp only [h0, if_true]
      refine ⟨?_, ?_, ⟨[digitCh n], rfl, by simp⟩⟩
      · rw [digitsVal_cons, digitCh_toNat]
        have : n % 10 = n := by omega
        rw [this]; simp
      · intro ha; simp [isDigit_digitCh, ha]
    · simp only [h0, if_false]
      obtain ⟨i1, i2, pre, i3, i4⟩ := ih (n / 10) (digitCh n :: acc) (by omega)
      refine ⟨?_, ?_, ⟨pre ++ [digitCh n], by rw [i3]; simp, by simp⟩⟩
      · rw [i1, digitsVal_cons, digitCh_toNat, List.length_cons, Nat.pow_succ]
        have hdm := Nat.div_add_mod n 10
        have : 48 + n % 10 - 48 = n % 10 := by omega
        rw [this]
        generalize 10 ^ acc.length = X
        calc n / 10 * (X * 10) + (n % 10 * X + digitsVal acc)
            = (10 * (n / 10) + n % 10) * X + digitsVal acc := by
              rw [Nat.add_mul, Nat.mul_comm X 10, ← Nat.mul_assoc, Nat.mul_comm (n / 10) 10, Nat.add_assoc]
          _ = n * X + digitsVal acc := by rw [hdm]
      · intro ha; exact i2 (by simp [isDigit_digitCh, ha])

theorem digitsVal_dec (n : Nat) : digitsVal (dec n) = n := by
  have := (decAux_spec (n + 1) n [] (by omega)).1
  simpa [dec, digitsVal] using this

theorem dec_all_digits (n : Nat) : (dec n).all isDigit = true :=
  (decAux_spec (n + 1) n [] (by omega)).2.1 (by simp)

theorem dec_ne_nil (n : Nat) : dec n ≠ [] := by
  obtain ⟨pre, h1, h2⟩ := (decAux_spec (n + 1) n [] (by omega)).2.2
  simp only [dec, h1, List.append_nil]; exact h2

theorem parseDigits31_dec (n : Nat) (h : n < 2147483648) : parseDigits31 (dec n) = some n := by
  simp [parseDigits31, digitsVal_dec, h]


/-! ## Type text -/

theorem takeWhile_append_stop {α : Type} (p : α → Bool) (a : List α) (b : α) (c : List α)
    (ha : a.all p = true) (hb : p b = false) :
    (a ++ b :: c).takeWhile p = a ∧ (a ++ b :: c).dropWhile p = b :: c := by
  induction a with
  | nil => simp [hb]
  | cons x xs ih =>
    simp only [List.all_cons, Bool.and_eq_true] at ha
    obtain ⟨i1, i2⟩ := ih ha.2
    simp [ha.1, i1, i2]

theorem takeWhile_all {α : Type} (p : α → Bool) (a : List α) (ha : a.all p = true) :
    a.takeWhile p = a ∧ a.dropWhile p = [] := by
  induction a with
  | nil => simp
  | cons x xs ih =>
    simp only [List.all_cons, Bool.and_eq_true] at ha
    obtain ⟨i1, i2⟩ := ih ha.2
    simp [ha.1, i1, i2]

theorem digit_not_alpha (b : UInt8) (h : isDigit b = true) : isAlpha b = false := by
  rw [isDigit_iff] at h
  cases ha : isAlpha b with
  | false => rfl
  | true => rw [isAlpha_iff] at ha; omega

theorem alpha_not_digit (b : UInt8) (h : isAlpha b = true) : isDigit b = false := by
  cases hd : isDigit b with
  | false => rfl
  | true => rw [digit_not_alpha b hd] at h; cases h

/-- The kinds `types.Parse` knows by name. -/
def TKind.named : TKind → Bool
  | .bool | .int | .uint | .string | .struct => true
  | _ => false

theorem kindName_alpha (k : TKind) (hk : k.named = true) :
    (kindName k).all isAlpha = true ∧ kindName k ≠ [] ∧ kindOfName (kindName k) = some k := by
  cases k <;> simp [TKind.named] at hk <;> decide

theorem sizedParts_kind_digits (k : TKind) (hk : k.named = true) (ds : Bytes) (hd : ds.all isDigit = true) :
    sizedParts (kindName k ++ ds) = some (kindName k, ds) := by
  obtain ⟨ka, kn, _⟩ := kindName_alpha k hk
  unfold sizedParts
  cases ds with
  | nil =>
    obtain ⟨t1, t2⟩ := takeWhile_all isAlpha (kindName k) ka
    simp [t1, t2, kn]
  | cons d ds' =>
    simp only [List.all_cons, Bool.and_eq_true] at hd
    obtain ⟨t1, t2⟩ := takeWhile_append_stop isAlpha (kindName k) d ds' ka (digit_not_alpha d hd.1)
    simp [t1, t2, kn, hd.1, hd.2]

theorem splitNL_no_nl : ∀ (s acc : Bytes), (∀ b ∈ s, b ≠ 10) → splitNL s acc = [acc.reverse ++ s] := by
  intro s
  induction s with
  | nil => intro acc _; simp [splitNL]
  | cons b t ih =>
    intro acc h
    have hb : b ≠ 10 := h b (by simp)
    simp only [splitNL, hb, if_false]
    rw [ih (b :: acc) (fun x hx => h x (by simp [hx]))]
    simp

theorem digits_no_nl (ds : Bytes) (h : ds.all isDigit = true) : ∀ b ∈ ds, b ≠ 10 := by
  intro b hb hb10
  have := List.all_eq_true.1 h b hb
  subst hb10
  revert this; decide

theorem alpha_no_nl (ds : Bytes) (h : ds.all isAlpha = true) : ∀ b ∈ ds, b ≠ 10 := by
  intro b hb hb10
  have := List.all_eq_true.1 h b hb
  subst hb10
  revert this; decide

/-- The I/O type grammar: what `Info.String` prints in a form `types.Parse`
reads back — sized bool/int/uint/string/struct, unsized int/uint/string,
arrays and slices of those; sizes below 2^31. -/
def Info.inGrammar : Info → Bool
  | .base k c b => k.named && decide (0 ≤ b) && decide (b < 2147483648) &&
      (c || (k != .bool && k != .struct))
  | .arr _ n _ e => decide (n < 2147483648) && e.inGrammar
  | .ptr _ _ => false

/-- What `types.Parse` makes of the text: an unsized type has `Bits = 0`, a
slice `ArraySize = 0`, an array `Bits = ArraySize * element Bits` (int32). -/
def Info.norm : Info → Info
  | .base k true b => .base k true b
  | .base k false _ => .base k false 0
  | .arr false n _ e => .arr false n (wrap32 (n * e.norm.bits)) e.norm
  | .arr true _ _ e => .arr true 0 0 e.norm
  | .ptr b e => .ptr b e

def Info.depth : Info → Nat
  | .base _ _ _ => 0
  | .arr _ _ _ e => e.depth + 1
  | .ptr _ e => e.depth + 1

theorem decInt_nonneg (b : Int) (h : 0 ≤ b) : decInt b = dec b.toNat := by
  unfold decInt
  have : ¬ b < 0 := by omega
  simp only [this, if_false]
  congr 1
  omega

theorem typeString_no_nl (t : Info) (h : t.inGrammar = true) : ∀ b ∈ typeString t, b ≠ 10 := by
  induction t with
  | base k c b =>
    simp only [Info.inGrammar, Bool.and_eq_true, decide_eq_true_eq] at h
    obtain ⟨⟨⟨hk, hb0⟩, _⟩, _⟩ := h
    obtain ⟨ka, _, _⟩ := kindName_alpha k hk
    intro x hx
    simp only [typeString] at hx
    split at hx
    · rw [decInt_nonneg b hb0, List.mem_append] at hx
      rcases hx with hx | hx
      · exact alpha_no_nl _ ka x hx
      · exact digits_no_nl _ (dec_all_digits _) x hx
    · exact alpha_no_nl _ ka x hx
  | arr sl n bits e ih =>
    simp only [Info.inGrammar, Bool.and_eq_true, decide_eq_true_eq] at h
    intro x hx
    cases sl with
    | false =>
      simp only [typeString, List.mem_cons, List.mem_append] at hx
      rcases hx with hx | hx | hx | hx
      · subst hx; decide
      · exact digits_no_nl _ (dec_all_digits _) x hx
      · subst hx; decide
      · exact ih h.2 x hx
    | true =>
      simp only [typeString, List.mem_cons] at hx
      rcases hx with hx | hx | hx
      · subst hx; decide
      · subst hx; decide
      · exact ih h.2 x hx
  | ptr b e _ => simp [Info.inGrammar] at h

theorem typeString_ne_nil (t : Info) (h : t.inGrammar = true) : typeString t ≠ [] := by
  cases t with
  | base k c b =>
    simp only [Info.inGrammar, Bool.and_eq_true, decide_eq_true_eq] at h
    obtain ⟨_, kn, _⟩ := kindName_alpha k h.1.1.1
    simp only [typeString]
    split <;> simp [kn]
  | arr sl n bits e => cases sl <;> simp [typeString]
  | ptr b e => simp [Info.inGrammar] at h


theorem ends_digit_ne (p ds c : Bytes) (hds : ds.all isDigit = true) (hne : ds ≠ [])
    (hc : ∀ x, c.getLast? = some x → isDigit x = false) : p ++ ds ≠ c := by
  intro h
  have h1 : (p ++ ds).getLast? = ds.getLast? := by
    rw [List.getLast?_append]
    cases hl : ds.getLast? with
    | none => simp [List.getLast?_eq_none_iff] at hl; exact absurd hl hne
    | some x => simp
  cases hl : ds.getLast? with
  | none => simp [List.getLast?_eq_none_iff] at hl; exact absurd hl hne
  | some x =>
    have hx : x ∈ ds := List.mem_of_getLast? hl
    have := List.all_eq_true.1 hds x hx
    rw [h, hl] at h1
    rw [hc x h1] at this
    cases this

theorem typeParseAux_typeString (t : Info) (h : t.inGrammar = true) :
    ∀ f, t.depth < f → typeParseAux f (typeString t) = some t.norm := by
  induction t with
  | base k c b =>
    intro f hf
    cases f with
    | zero => omega
    | succ f =>
      simp only [Info.inGrammar, Bool.and_eq_true, decide_eq_true_eq, Bool.or_eq_true] at h
      obtain ⟨⟨⟨hk, hb0⟩, hb1⟩, hc⟩ := h
      obtain ⟨ka, kn, kk⟩ := kindName_alpha k hk
      have hnl := typeString_no_nl (.base k c b) (by
        simp only [Info.inGrammar, Bool.and_eq_true, decide_eq_true_eq, Bool.or_eq_true]
        exact ⟨⟨⟨hk, hb0⟩, hb1⟩, hc⟩)
      cases c with
      | true =>
        have hval : typeString (.base k true b) = kindName k ++ dec b.toNat := by
          simp [typeString, decInt_nonneg b hb0]
        rw [hval] at hnl ⊢
        have n1 := ends_digit_ne (kindName k) (dec b.toNat) [98] (dec_all_digits _) (dec_ne_nil _) (by decide)
        have n2 := ends_digit_ne (kindName k) (dec b.toNat) [98, 111, 111, 108] (dec_all_digits _) (dec_ne_nil _) (by decide)
        have n3 := ends_digit_ne (kindName k) (dec b.toNat) [98, 121, 116, 101] (dec_all_digits _) (dec_ne_nil _) (by decide)
        have n4 := ends_digit_ne (kindName k) (dec b.toNat) [114, 117, 110, 101] (dec_all_digits _) (dec_ne_nil _) (by decide)
        simp only [typeParseAux, n1, n2, n3, n4, or_self, if_false]
        rw [splitNL_no_nl _ [] hnl]
        simp only [List.reverse_nil, List.nil_append, List.findSome?_cons, List.findSome?_nil]
        rw [sizedParts_kind_digits k hk _ (dec_all_digits _)]
        simp only [kk, dec_ne_nil, if_false]
        rw [parseDigits31_dec _ (by omega)]
        simp only [Info.norm]
        congr 2
        omega
      | false =>
        simp only [Bool.false_eq_true, false_or, bne_iff_ne, ne_eq] at hc
        have hval : typeString (.base k false b) = kindName k := by simp [typeString]
        rw [hval] at hnl ⊢
        have hsp := sizedParts_kind_digits k hk [] (by simp)
        simp only [List.append_nil] at hsp
        have hks : (k == TKind.struct) = false := by simp [hc.2]
        have hsplit := splitNL_no_nl _ [] hnl
        simp only [List.reverse_nil, List.nil_append] at hsplit
        cases k <;> simp [TKind.named] at hk <;> simp at hc <;> rfl
  | arr sl n bits e ih =>
    intro f hf
    cases f with
    | zero => omega
    | succ f =>
      simp only [Info.inGrammar, Bool.and_eq_true, decide_eq_true_eq] at h
      obtain ⟨hn, he⟩ := h
      have hrec := ih he f (by simp only [Info.depth] at hf; omega)
      have hnl := typeString_no_nl (.arr sl n bits e) (by
        simp only [Info.inGrammar, Bool.and_eq_true, decide_eq_true_eq]; exact ⟨hn, he⟩)
      have hts := typeString_ne_nil e he
      have hsplit := splitNL_no_nl _ [] hnl
      simp only [List.reverse_nil, List.nil_append] at hsplit
      cases sl with
      | false =>
        simp only [typeString] at hsplit ⊢
        have hsz : sizedParts (91 :: (dec n ++ 93 :: typeString e)) = none := by
          simp [sizedParts, List.takeWhile, isAlpha]
        obtain ⟨t1, t2⟩ := takeWhile_append_stop isDigit (dec n) 93 (typeString e) (dec_all_digits n) (by decide)
        have har : arrParts (91 :: (dec n ++ 93 :: typeString e)) = some (dec n, typeString e) := by
          simp only [arrParts, t1, t2]
          simp [hts]
        simp only [typeParseAux]
        rw [hsplit]
        simp only [List.findSome?_cons, List.findSome?_nil, hsz, har, hrec, dec_ne_nil, if_false]
        rw [parseDigits31_dec _ hn]
        simp [Info.norm]
      | true =>
        simp only [typeString] at hsplit ⊢
        have hsz : sizedParts (91 :: 93 :: typeString e) = none := by
          simp [sizedParts, List.takeWhile, isAlpha]
        have har : arrParts (91 :: 93 :: typeString e) = some ([], typeString e) := by
          simp [arrParts, List.takeWhile, List.dropWhile, isDigit, hts]
        simp only [typeParseAux]
        rw [hsplit]
        simp [hsz, har, hrec, Info.norm]
  | ptr b e _ => simp [Info.inGrammar] at h


theorem depth_lt_length (t : Info) : t.depth < (typeString t).length + 1 := by
  induction t with
  | base k c b => simp [Info.depth]
  | arr sl n bits e ih =>
    cases sl <;> simp only [Info.depth, typeString, List.length_cons, List.length_append] <;> omega
  | ptr b e ih => simp only [Info.depth, typeString, List.length_cons]; omega

/-- `types.Parse (t.String())` for a type of the I/O grammar. -/
theorem typeParse_typeString (t : Info) (h : t.inGrammar = true) :
    typeParse (typeString t) = some t.norm :=
  typeParseAux_typeString t h _ (depth_lt_length t)

theorem typeString_norm (t : Info) : typeString t.norm = typeString t := by
  induction t with
  | base k c b => cases c <;> simp [Info.norm, typeString]
  | arr sl n bits e ih => cases sl <;> simp [Info.norm, typeString, ih]
  | ptr b e ih => simp [Info.norm]

theorem typeString_setBits_arr (t : Info) (b : Int) (h : ∀ k c b', t ≠ .base k c b') :
    typeString (t.setBits b) = typeString t := by
  cases t with
  | base k c b' => exact absurd rfl (h k c b')
  | arr sl n bits e => cases sl <;> simp [Info.setBits, typeString]
  | ptr b' e => simp [Info.setBits, typeString]

end Fmt
end Mpc

/-
Helper lemmas for C14, second part: decimal numbers, the type text round trip
(`Info.String` / `types.Parse`), and the file round trips.
-/
import MpcVerif.Proofs.Format

namespace Mpc
namespace Fmt

/-! ## Decimal numbers -/

def digitCh (d : Nat) : UInt8 := UInt8.ofNat (48 + d % 10)

theorem digitCh_toNat (d : Nat) : (digitCh d).toNat = 48 + d % 10 := by
  simp only [digitCh, UInt8.toNat_ofNat']
  omega

theorem isDigit_iff (b : UInt8) : isDigit b = true ↔ 48 ≤ b.toNat ∧ b.toNat ≤ 57 := by
  simp only [isDigit, Bool.and_eq_true, decide_eq_true_eq, UInt8.le_iff_toNat_le]
  simp

theorem isAlpha_iff (b : UInt8) : isAlpha b = true ↔
    (65 ≤ b.toNat ∧ b.toNat ≤ 90) ∨ (97 ≤ b.toNat ∧ b.toNat ≤ 122) := by
  simp only [isAlpha, Bool.or_eq_true, Bool.and_eq_true, decide_eq_true_eq, UInt8.le_iff_toNat_le]
  simp

theorem isDigit_digitCh (d : Nat) : isDigit (digitCh d) = true := by
  rw [isDigit_iff, digitCh_toNat]; omega

theorem digitsVal_foldl (ds : Bytes) (a : Nat) :
    ds.foldl (fun acc d => acc * 10 + (d.toNat - 48)) a = a * 10 ^ ds.length + digitsVal ds := by
  induction ds generalizing a with
  | nil => simp [digitsVal]
  | cons d ds ih =>
    simp only [List.foldl_cons, digitsVal, List.length_cons]
    rw [ih, ih (0 * 10 + (d.toNat - 48))]
    rw [Nat.pow_succ]
    simp only [Nat.zero_mul, Nat.zero_add, Nat.add_mul]
    rw [Nat.mul_assoc, Nat.mul_comm (10 ^ ds.length) 10, Nat.add_assoc]

theorem digitsVal_cons (d : UInt8) (ds : Bytes) :
    digitsVal (d :: ds) = (d.toNat - 48) * 10 ^ ds.length + digitsVal ds := by
  simp only [digitsVal, List.foldl_cons]
  rw [digitsVal_foldl]
  simp [digitsVal]


theorem decAux_spec : ∀ (f n : Nat) (acc : Bytes), n < f →
    digitsVal (decAux f n acc) = n * 10 ^ acc.length + digitsVal acc ∧
    (acc.all isDigit = true → (decAux f n acc).all isDigit = true) ∧
    ∃ pre, decAux f n acc = pre ++ acc ∧ pre ≠ [] := by
  intro f
  induction f with
  | zero => intro n acc h; omega
  | succ f ih =>
    intro n acc hn
    simp only [decAux]
    have hd : (UInt8.ofNat (48 + n % 10)) = digitCh n := rfl
    rw [hd]
    by_cases h0 : n / 10 = 0
    · simp only [h0, if_true]
      refine ⟨?_, ?_, ⟨[digitCh n], rfl, by simp⟩⟩
      · rw [digitsVal_cons, digitCh_toNat]
        have : n % 10 = n := by omega
        rw [this]; simp
      · intro ha; simp [isDigit_digitCh, ha]
    · simp only [h0, if_false]
      obtain ⟨i1, i2, pre, i3, i4⟩ := ih (n / 10) (digitCh n :: acc) (by omega)
      refine ⟨?_, ?_, ⟨pre ++ [digitCh n], by rw [i3]; simp, by simp⟩⟩
      · rw [i1, digitsVal_cons, digitCh_toNat, List.length_cons, Nat.pow_succ]
        have hdm := Nat.div_add_mod n 10
        have : 48 + n % 10 - 48 = n % 10 := by omega
        rw [this]
        generalize 10 ^ acc.length = X
        calc n / 10 * (X * 10) + (n % 10 * X + digitsVal acc)
            = (10 * (n / 10) + n % 10) * X + digitsVal acc := by
              rw [Nat.add_mul, Nat.mul_comm X 10, ← Nat.mul_assoc, Nat.mul_comm (n / 10) 10, Nat.add_assoc]
          _ = n * X + digitsVal acc := by rw [hdm]
      · intro ha; exact i2 (by simp [isDigit_digitCh, ha])

theorem digitsVal_dec (n : Nat) : digitsVal (dec n) = n := by
  have := (decAux_spec (n + 1) n [] (by omega)).1
  simpa [dec, digitsVal] using this

theorem dec_all_digits (n : Nat) : (dec n).all isDigit = true :=
  (decAux_spec (n + 1) n [] (by omega)).2.1 (by simp)

theorem dec_ne_nil (n : Nat) : dec n ≠ [] := by
  obtain ⟨pre, h1, h2⟩ := (decAux_spec (n + 1) n [] (by omega)).2.2
  simp only [dec, h1, List.append_nil]; exact h2

theorem parseDigits31_dec (n : Nat) (h : n < 2147483648) : parseDigits31 (dec n) = some n := by
  simp [parseDigits31, digitsVal_dec, h]


/-! ## Type text -/

theorem takeWhile_append_stop {α : Type} (p : α → Bool) (a : List α) (b : α) (c : List α)
    (ha : a.all p = true) (hb : p b = false) :
    (a ++ b :: c).takeWhile p = a ∧ (a ++ b :: c).dropWhile p = b :: c := by
  induction a with
  | nil => simp [hb]
  | cons x xs ih =>
    simp only [List.all_cons, Bool.and_eq_true] at ha
    obtain ⟨i1, i2⟩ := ih ha.2
    simp [ha.1, i1, i2]

theorem takeWhile_all {α : Type} (p : α → Bool) (a : List α) (ha : a.all p = true) :
    a.takeWhile p = a ∧ a.dropWhile p = [] := by
  induction a with
  | nil => simp
  | cons x xs ih =>
    simp only [List.all_cons, Bool.and_eq_true] at ha
    obtain ⟨i1, i2⟩ := ih ha.2
    simp [ha.1, i1, i2]

theorem digit_not_alpha (b : UInt8) (h : isDigit b = true) : isAlpha b = false := by
  rw [isDigit_iff] at h
  cases ha : isAlpha b with
  | false => rfl
  | true => rw [isAlpha_iff] at ha; omega

theorem alpha_not_digit (b : UInt8) (h : isAlpha b = true) : isDigit b = false := by
  cases hd : isDigit b with
  | false => rfl
  | true => rw [digit_not_alpha b hd] at h; cases h

/-- The kinds `types.Parse` knows by name. -/
def TKind.named : TKind → Bool
  | .bool | .int | .uint | .string | .struct => true
  | _ => false

theorem kindName_alpha (k : TKind) (hk : k.named = true) :
    (kindName k).all isAlpha = true ∧ kindName k ≠ [] ∧ kindOfName (kindName k) = some k := by
  cases k <;> simp [TKind.named] at hk <;> decide

theorem sizedParts_kind_digits (k : TKind) (hk : k.named = true) (ds : Bytes) (hd : ds.all isDigit = true) :
    sizedParts (kindName k ++ ds) = some (kindName k, ds) := by
  obtain ⟨ka, kn, _⟩ := kindName_alpha k hk
  unfold sizedParts
  cases ds with
  | nil =>
    obtain ⟨t1, t2⟩ := takeWhile_all isAlpha (kindName k) ka
    simp [t1, t2, kn]
  | cons d ds' =>
    simp only [List.all_cons, Bool.and_eq_true] at hd
    obtain ⟨t1, t2⟩ := takeWhile_append_stop isAlpha (kindName k) d ds' ka (digit_not_alpha d hd.1)
    simp [t1, t2, kn, hd.1, hd.2]

theorem splitNL_no_nl : ∀ (s acc : Bytes), (∀ b ∈ s, b ≠ 10) → splitNL s acc = [acc.reverse ++ s] := by
  intro s
  induction s with
  | nil => intro acc _; simp [splitNL]
  | cons b t ih =>
    intro acc h
    have hb : b ≠ 10 := h b (by simp)
    simp only [splitNL, hb, if_false]
    rw [ih (b :: acc) (fun x hx => h x (by simp [hx]))]
    simp

theorem digits_no_nl (ds : Bytes) (h : ds.all isDigit = true) : ∀ b ∈ ds, b ≠ 10 := by
  intro b hb hb10
  have := List.all_eq_true.1 h b hb
  subst hb10
  revert this; decide

theorem alpha_no_nl (ds : Bytes) (h : ds.all isAlpha = true) : ∀ b ∈ ds, b ≠ 10 := by
  intro b hb hb10
  have := List.all_eq_true.1 h b hb
  subst hb10
  revert this; decide

/-- The I/O type grammar: what `Info.String` prints in a form `types.Parse`
reads back — sized bool/int/uint/string/struct, unsized int/uint/string,
arrays and slices of those; sizes below 2^31. -/
def Info.inGrammar : Info → Bool
  | .base k c b => k.named && decide (0 ≤ b) && decide (b < 2147483648) &&
      (c || (k != .bool && k != .struct))
  | .arr _ n _ e => decide (n < 2147483648) && e.inGrammar
  | .ptr _ _ => false

/-- What `types.Parse` makes of the text: an unsized type has `Bits = 0`, a
slice `ArraySize = 0`, an array `Bits = ArraySize * element Bits` (int32). -/
def Info.norm : Info → Info
  | .base k true b => .base k true b
  | .base k false _ => .base k false 0
  | .arr false n _ e => .arr false n (wrap32 (n * e.norm.bits)) e.norm
  | .arr true _ _ e => .arr true 0 0 e.norm
  | .ptr b e => .ptr b e

def Info.depth : Info → Nat
  | .base _ _ _ => 0
  | .arr _ _ _ e => e.depth + 1
  | .ptr _ e => e.depth + 1

theorem decInt_nonneg (b : Int) (h : 0 ≤ b) : decInt b = dec b.toNat := by
  unfold decInt
  have : ¬ b < 0 := by omega
  simp only [this, if_false]
  congr 1
  omega

theorem typeString_no_nl (t : Info) (h : t.inGrammar = true) : ∀ b ∈ typeString t, b ≠ 10 := by
  induction t with
  | base k c b =>
    simp only [Info.inGrammar, Bool.and_eq_true, decide_eq_true_eq] at h
    obtain ⟨⟨⟨hk, hb0⟩, _⟩, _⟩ := h
    obtain ⟨ka, _, _⟩ := kindName_alpha k hk
    intro x hx
    simp only [typeString] at hx
    split at hx
    · rw [decInt_nonneg b hb0, List.mem_append] at hx
      rcases hx with hx | hx
      · exact alpha_no_nl _ ka x hx
      · exact digits_no_nl _ (dec_all_digits _) x hx
    · exact alpha_no_nl _ ka x hx
  | arr sl n bits e ih =>
    simp only [Info.inGrammar, Bool.and_eq_true, decide_eq_true_eq] at h
    intro x hx
    cases sl with
    | false =>
      simp only [typeString, List.mem_cons, List.mem_append] at hx
      rcases hx with hx | hx | hx | hx
      · subst hx; decide
      · exact digits_no_nl _ (dec_all_digits _) x hx
      · subst hx; decide
      · exact ih h.2 x hx
    | true =>
      simp only [typeString, List.mem_cons] at hx
      rcases hx with hx | hx | hx
      · subst hx; decide
      · subst hx; decide
      · exact ih h.2 x hx
  | ptr b e _ => simp [Info.inGrammar] at h

theorem typeString_ne_nil (t : Info) (h : t.inGrammar = true) : typeString t ≠ [] := by
  cases t with
  | base k c b =>
    simp only [Info.inGrammar, Bool.and_eq_true, decide_eq_true_eq] at h
    obtain ⟨_, kn, _⟩ := kindName_alpha k h.1.1.1
    simp only [typeString]
    split <;> simp [kn]
  | arr sl n bits e => cases sl <;> simp [typeString]
  | ptr b e => simp [Info.inGrammar] at h


theorem ends_digit_ne (p ds c : Bytes) (hds : ds.all isDigit = true) (hne : ds ≠ [])
    (hc : ∀ x, c.getLast? = some x → isDigit x = false) : p ++ ds ≠ c := by
  intro h
  have h1 : (p ++ ds).getLast? = ds.getLast? := by
    rw [List.getLast?_append]
    cases hl : ds.getLast? with
    | none => simp [List.getLast?_eq_none_iff] at hl; exact absurd hl hne
    | some x => simp
  cases hl : ds.getLast? with
  | none => simp [List.getLast?_eq_none_iff] at hl; exact absurd hl hne
  | some x =>
    have hx : x ∈ ds := List.mem_of_getLast? hl
    have := List.all_eq_true.1 hds x hx
    rw [h, hl] at h1
    rw [hc x h1] at this
    cases this

theorem typeParseAux_typeString (t : Info) (h : t.inGrammar = true) :
    ∀ f, t.depth < f → typeParseAux f (typeString t) = some t.norm := by
  induction t with
  | base k c b =>
    intro f hf
    cases f with
    | zero => omega
    | succ f =>
      simp only [Info.inGrammar, Bool.and_eq_true, decide_eq_true_eq, Bool.or_eq_true] at h
      obtain ⟨⟨⟨hk, hb0⟩, hb1⟩, hc⟩ := h
      obtain ⟨ka, kn, kk⟩ := kindName_alpha k hk
      have hnl := typeString_no_nl (.base k c b) (by
        simp only [Info.inGrammar, Bool.and_eq_true, decide_eq_true_eq, Bool.or_eq_true]
        exact ⟨⟨⟨hk, hb0⟩, hb1⟩, hc⟩)
      cases c with
      | true =>
        have hval : typeString (.base k true b) = kindName k ++ dec b.toNat := by
          simp [typeString, decInt_nonneg b hb0]
        rw [hval] at hnl ⊢
        have n1 := ends_digit_ne (kindName k) (dec b.toNat) [98] (dec_all_digits _) (dec_ne_nil _) (by decide)
        have n2 := ends_digit_ne (kindName k) (dec b.toNat) [98, 111, 111, 108] (dec_all_digits _) (dec_ne_nil _) (by decide)
        have n3 := ends_digit_ne (kindName k) (dec b.toNat) [98, 121, 116, 101] (dec_all_digits _) (dec_ne_nil _) (by decide)
        have n4 := ends_digit_ne (kindName k) (dec b.toNat) [114, 117, 110, 101] (dec_all_digits _) (dec_ne_nil _) (by decide)
        simp only [typeParseAux, n1, n2, n3, n4, or_self, if_false]
        rw [splitNL_no_nl _ [] hnl]
        simp only [List.reverse_nil, List.nil_append, List.findSome?_cons, List.findSome?_nil]
        rw [sizedParts_kind_digits k hk _ (dec_all_digits _)]
        simp only [kk, dec_ne_nil, if_false]
        rw [parseDigits31_dec _ (by omega)]
        simp only [Info.norm]
        congr 2
        omega
      | false =>
        simp only [Bool.false_eq_true, false_or, bne_iff_ne, ne_eq] at hc
        have hval : typeString (.base k false b) = kindName k := by simp [typeString]
        rw [hval] at hnl ⊢
        have hsp := sizedParts_kind_digits k hk [] (by simp)
        simp only [List.append_nil] at hsp
        have hks : (k == TKind.struct) = false := by simp [hc.2]
        have hsplit := splitNL_no_nl _ [] hnl
        simp only [List.reverse_nil, List.nil_append] at hsplit
        cases k <;> simp [TKind.named] at hk <;> simp at hc <;> rfl
  | arr sl n bits e ih =>
    intro f hf
    cases f with
    | zero => omega
    | succ f =>
      simp only [Info.inGrammar, Bool.and_eq_true, decide_eq_true_eq] at h
      obtain ⟨hn, he⟩ := h
      have hrec := ih he f (by simp only [Info.depth] at hf; omega)
      have hnl := typeString_no_nl (.arr sl n bits e) (by
        simp only [Info.inGrammar, Bool.and_eq_true, decide_eq_true_eq]; exact ⟨hn, he⟩)
      have hts := typeString_ne_nil e he
      have hsplit := splitNL_no_nl _ [] hnl
      simp only [List.reverse_nil, List.nil_append] at hsplit
      cases sl with
      | false =>
        simp only [typeString] at hsplit ⊢
        have hsz : sizedParts (91 :: (dec n ++ 93 :: typeString e)) = none := by
          simp [sizedParts, List.takeWhile, isAlpha]
        obtain ⟨t1, t2⟩ := takeWhile_append_stop isDigit (dec n) 93 (typeString e) (dec_all_digits n) (by decide)
        have har : arrParts (91 :: (dec n ++ 93 :: typeString e)) = some (dec n, typeString e) := by
          simp only [arrParts, t1, t2]
          simp [hts]
        simp only [typeParseAux]
        rw [hsplit]
        simp only [List.findSome?_cons, List.findSome?_nil, hsz, har, hrec, dec_ne_nil, if_false]
        rw [parseDigits31_dec _ hn]
        simp [Info.norm]
      | true =>
        simp only [typeString] at hsplit ⊢
        have hsz : sizedParts (91 :: 93 :: typeString e) = none := by
          simp [sizedParts, List.takeWhile, isAlpha]
        have har : arrParts (91 :: 93 :: typeString e) = some ([], typeString e) := by
          simp [arrParts, List.takeWhile, List.dropWhile, isDigit, hts]
        simp only [typeParseAux]
        rw [hsplit]
        simp [hsz, har, hrec, Info.norm]
  | ptr b e _ => simp [Info.inGrammar] at h


theorem depth_lt_length (t : Info) : t.depth < (typeString t).length + 1 := by
  induction t with
  | base k c b => simp [Info.depth]
  | arr sl n bits e ih =>
    cases sl <;> simp only [Info.depth, typeString, List.length_cons, List.length_append] <;> omega
  | ptr b e ih => simp only [Info.depth, typeString, List.length_cons]; omega

/-- `types.Parse (t.String())` for a type of the I/O grammar. -/
theorem typeParse_typeString (t : Info) (h : t.inGrammar = true) :
    typeParse (typeString t) = some t.norm :=
  typeParseAux_typeString t h _ (depth_lt_length t)

theorem typeString_norm (t : Info) : typeString t.norm = typeString t := by
  induction t with
  | base k c b => cases c <;> simp [Info.norm, typeString]
  | arr sl n bits e ih => cases sl <;> simp [Info.norm, typeString, ih]
  | ptr b e ih => simp [Info.norm]

theorem typeString_setBits_arr (t : Info) (b : Int) (h : ∀ k c b', t ≠ .base k c b') :
    typeString (t.setBits b) = typeString t := by
  cases t with
  | base k c b' => exact absurd rfl (h k c b')
  | arr sl n bits e => cases sl <;> simp [Info.setBits, typeString]
  | ptr b' e => simp [Info.setBits, typeString]

/-! ## Round trip: reader lemmas -/

/-- Reader states in which `parseString`'s single `Read` is a full read: the
repaired variant, or everything already sits in the bufio buffer. -/
def Good (fx : Fix) (rd : Rd) : Prop := fx.readFullStrings = true ∨ rd.rest = []

theorem read_rest (cfg : RdCfg) (n : Nat) (rd : Rd) (d : Bytes) (rd' : Rd)
    (h : rd.read cfg n = some (d, rd')) (hr : rd.rest = []) : rd'.rest = [] := by
  unfold Rd.read at h
  cases hb : rd.buf with
  | nil => rw [hb, hr] at h; simp at h
  | cons a t =>
    rw [hb] at h
    simp only [Option.some.injEq, Prod.mk.injEq] at h
    rw [← h.2]; exact hr

theorem readFullAux_rest (cfg : RdCfg) : ∀ (f n : Nat) (rd : Rd) (d : Bytes) (rd' : Rd),
    Rd.readFullAux cfg f n rd = some (d, rd') → rd.rest = [] → rd'.rest = [] := by
  intro f
  induction f with
  | zero =>
    intro n rd d rd' h hr
    cases n with
    | zero => simp only [Rd.readFullAux, Option.some.injEq, Prod.mk.injEq] at h; rw [← h.2]; exact hr
    | succ n => simp [Rd.readFullAux] at h
  | succ f ih =>
    intro n rd d rd' h hr
    cases n with
    | zero => simp only [Rd.readFullAux, Option.some.injEq, Prod.mk.injEq] at h; rw [← h.2]; exact hr
    | succ n =>
      simp only [Rd.readFullAux] at h
      split at h
      · simp at h
      · rename_i d1 rd1 h1
        split at h
        · simp at h
        · rename_i d2 rd2 h2
          simp only [Option.some.injEq, Prod.mk.injEq] at h
          rw [← h.2]
          exact ih _ _ _ _ h2 (read_rest _ _ _ _ _ h1 hr)

theorem readN_prefix (cfg : RdCfg) (fx : Fix) (n : Nat) (rd : Rd) (bs tail : Bytes)
    (hall : rd.all = bs ++ tail) (hn : bs.length = n) :
    ∃ rd', readN cfg n rd = .ok (bs, rd') ∧ rd'.all = tail ∧ (Good fx rd → Good fx rd') := by
  obtain ⟨rd', h1, h2⟩ := readFull_ok cfg n rd (by rw [hall]; simp; omega)
  refine ⟨rd', ?_, ?_, ?_⟩
  · simp only [readN, h1, hall]
    congr 2
    rw [List.take_append_of_le_length (by omega), List.take_of_length_le (by omega)]
  · rw [h2, hall, List.drop_append_of_le_length (by omega), List.drop_of_length_le (by omega)]; simp
  · intro hg
    rcases hg with hg | hg
    · exact Or.inl hg
    · exact Or.inr (readFullAux_rest cfg _ _ _ _ _ h1 hg)

theorem u32_length (n : Nat) : (u32 n).length = 4 := rfl

theorem be32_u32 (n : Nat) (h : n < 4294967296) : be32 (u32 n) = n := by
  simp only [u32, be32, UInt8.toNat_ofNat']
  omega

theorem readU32_prefix (cfg : RdCfg) (fx : Fix) (v : Nat) (hv : v < 4294967296) (rd : Rd) (tail : Bytes)
    (hall : rd.all = u32 v ++ tail) :
    ∃ rd', readU32 cfg rd = .ok (v, rd') ∧ rd'.all = tail ∧ (Good fx rd → Good fx rd') := by
  obtain ⟨rd', h1, h2, h3⟩ := readN_prefix cfg fx 4 rd (u32 v) tail hall rfl
  exact ⟨rd', by simp [readU32, h1, be32_u32 v hv], h2, h3⟩

theorem cap_lt : cap < 4294967296 := by decide

theorem declare_ok (n : Nat) (h : n ≤ cap) : declare n = .ok () := by
  simp [declare]; omega

theorem parseString_prefix (cfg : RdCfg) (fx : Fix) (s : Bytes) (hs : s.length ≤ cap) (rd : Rd)
    (tail : Bytes) (hall : rd.all = marshalString s ++ tail) (hg : Good fx rd) :
    ∃ rd', parseString cfg fx rd = .ok (s, rd') ∧ rd'.all = tail ∧ Good fx rd' := by
  have hc := cap_lt
  simp only [marshalString, List.append_assoc] at hall
  obtain ⟨rd1, h1, h2, h3⟩ := readU32_prefix cfg fx s.length (by omega) rd (s ++ tail) hall
  have hg1 := h3 hg
  simp only [parseString, h1, declare_ok _ hs]
  by_cases h0 : s.length = 0
  · have : s = [] := List.length_eq_zero_iff.1 h0
    subst this
    simp only [List.length_nil, if_true]
    exact ⟨rd1, rfl, by simpa using h2, hg1⟩
  · simp only [h0, if_false]
    by_cases hf : fx.readFullStrings = true
    · simp only [hf, if_true]
      obtain ⟨rd2, e1, e2⟩ := readFull_ok cfg s.length rd1 (by rw [h2]; simp)
      refine ⟨rd2, ?_, ?_, Or.inl hf⟩
      · rw [e1, h2]; simp
      · rw [e2, h2]; simp
    · simp only [hf]
      have hr : rd1.rest = [] := by
        rcases hg1 with hg1 | hg1
        · exact absurd hg1 hf
        · exact hg1
      have hbuf : rd1.buf = s ++ tail := by
        rw [← h2, Rd.all, hr, List.append_nil]
      have hne : rd1.buf ≠ [] := by
        rw [hbuf]; intro hx
        have := List.append_eq_nil_iff.1 hx
        exact h0 (by simp [this.1])
      unfold Rd.read
      cases hb : rd1.buf with
      | nil => exact absurd hb hne
      | cons a t =>
        simp only
        rw [← hb, hbuf]
        refine ⟨⟨(s ++ tail).drop s.length, rd1.rest, rd1.k⟩, ?_, ?_, Or.inr hr⟩
        · simp
        · simp [Rd.all, hr]

theorem read1_prefix (cfg : RdCfg) (fx : Fix) (b : UInt8) (rd : Rd) (tail : Bytes)
    (hall : rd.all = b :: tail) :
    ∃ rd', rd.read cfg 1 = some ([b], rd') ∧ rd'.all = tail ∧ (Good fx rd → Good fx rd') := by
  cases hr : rd.read cfg 1 with
  | none =>
    have := (read_none_iff cfg 1 rd).1 hr
    rw [hall] at this; simp at this
  | some p =>
    obtain ⟨d, rd'⟩ := p
    obtain ⟨r1, r2, r3⟩ := read_some cfg 1 rd d rd' (by omega) hr
    match d, r1, r2 with
    | [x], _, _ =>
      rw [hall] at r3
      simp only [List.cons_append, List.nil_append, List.cons.injEq] at r3
      obtain ⟨hx, ht⟩ := r3
      subst hx
      refine ⟨rd', rfl, ht, ?_⟩
      intro hg
      rcases hg with hg | hg
      · exact Or.inl hg
      · exact Or.inr (read_rest _ _ _ _ _ hr hg)
    | _ :: _ :: _, _, r2 => simp at r2

/-! ## Round trip: I/O arguments -/

mutual
/-- An argument the native format can carry and read back: name and type text
at most `cap` bytes, type in the I/O grammar, `0 ≤ Bits ≤ cap`, at most `cap`
compound members, recursively. -/
def IOArg.valid : IOArg → Bool
  | .mk name ty comp =>
    decide (name.length ≤ cap) && ty.inGrammar && decide ((typeString ty).length ≤ cap) &&
    decide (0 ≤ ty.bits) && decide (ty.bits ≤ cap) && decide (comp.length ≤ cap) && IOArg.validL comp
def IOArg.validL : List IOArg → Bool
  | [] => true
  | a :: as => a.valid && IOArg.validL as
end

mutual
/-- What the parser returns for the argument: the type as `types.Parse` reads
its text, `Bits` as stored. -/
def IOArg.norm : IOArg → IOArg
  | .mk name ty comp => .mk name (ty.norm.setBits ty.bits) (IOArg.normL comp)
def IOArg.normL : List IOArg → List IOArg
  | [] => []
  | a :: as => a.norm :: IOArg.normL as
end

mutual
def IOArg.size : IOArg → Nat
  | .mk _ _ comp => 1 + IOArg.sizeL comp
def IOArg.sizeL : List IOArg → Nat
  | [] => 0
  | a :: as => 1 + a.size + IOArg.sizeL as
end

theorem normL_length : ∀ (as : List IOArg), (IOArg.normL as).length = as.length
  | [] => rfl
  | a :: as => by simp [IOArg.normL, normL_length as]

theorem u32i_nonneg (b : Int) (h0 : 0 ≤ b) (h1 : b < 4294967296) : u32i b = u32 b.toNat := by
  unfold u32i
  congr 1
  omega

mutual
theorem parseIOArg_rt (cfg : RdCfg) (fx : Fix) : ∀ (a : IOArg) (f : Nat) (rd : Rd) (tail : Bytes),
    a.valid = true → a.size ≤ f → rd.all = marshalIOArg a ++ tail → Good fx rd →
    ∃ rd', parseIOArg cfg fx f rd = .ok (a.norm, rd') ∧ rd'.all = tail ∧ Good fx rd'
  | .mk name ty comp, f, rd, tail, hv, hf, hall, hg => by
    have hc := cap_lt
    simp only [IOArg.valid, Bool.and_eq_true, decide_eq_true_eq] at hv
    obtain ⟨⟨⟨⟨⟨⟨v1, v2⟩, v3⟩, v4⟩, v5⟩, v6⟩, v7⟩ := hv
    simp only [IOArg.size] at hf
    cases f with
    | zero => omega
    | succ f =>
      simp only [marshalIOArg, List.append_assoc] at hall
      obtain ⟨rd1, e1, a1, g1⟩ := parseString_prefix cfg fx name v1 rd _ hall hg
      obtain ⟨rd2, e2, a2, g2⟩ := parseString_prefix cfg fx (typeString ty) v3 rd1 _ a1 g1
      rw [u32i_nonneg ty.bits v4 (by omega)] at a2
      obtain ⟨rd3, e3, a3, g3'⟩ := readU32_prefix cfg fx ty.bits.toNat (by omega) rd2 _ a2
      have g3 := g3' g2
      obtain ⟨rd4, e4, a4, g4'⟩ := readU32_prefix cfg fx comp.length (by omega) rd3 _ a3
      have g4 := g4' g3
      obtain ⟨rd5, e5, a5, g5⟩ := parseIOArgs_rt cfg fx comp f rd4 tail v7 (by omega) a4 g4
      refine ⟨rd5, ?_, a5, g5⟩
      simp only [parseIOArg, e1, e2, e3, e4, e5, declare_ok _ v6, typeParse_typeString ty v2,
        declare_ok ty.bits.toNat (by omega), IOArg.norm]
      congr 4
      omega
theorem parseIOArgs_rt (cfg : RdCfg) (fx : Fix) : ∀ (as : List IOArg) (f : Nat) (rd : Rd) (tail : Bytes),
    IOArg.validL as = true → IOArg.sizeL as ≤ f → rd.all = marshalIOArgs as ++ tail → Good fx rd →
    ∃ rd', parseIOArgs cfg fx f as.length rd = .ok (IOArg.normL as, rd') ∧ rd'.all = tail ∧ Good fx rd'
  | [], f, rd, tail, _, _, hall, hg => by
    simp only [marshalIOArgs, List.nil_append] at hall
    exact ⟨rd, by cases f <;> simp [parseIOArgs, IOArg.normL], hall, hg⟩
  | a :: as, f, rd, tail, hv, hf, hall, hg => by
    simp only [IOArg.validL, Bool.and_eq_true] at hv
    simp only [IOArg.sizeL] at hf
    cases f with
    | zero => omega
    | succ f =>
      simp only [marshalIOArgs, List.append_assoc] at hall
      obtain ⟨rd1, e1, a1, g1⟩ := parseIOArg_rt cfg fx a f rd _ hv.1 (by omega) hall hg
      obtain ⟨rd2, e2, a2, g2⟩ := parseIOArgs_rt cfg fx as f rd1 tail hv.2 (by omega) a1 g1
      exact ⟨rd2, by simp [parseIOArgs, e1, e2, IOArg.normL], a2, g2⟩
end

/-! ## Round trip: gates -/

/-- `ParseMPCLC` stores `Input1 = 0` for an INV gate (the format has no such
field); nothing reads it. -/
def normG (g : Gate) : Gate :=
  match g.op with
  | .inv => ⟨.inv, g.in0, 0, g.out⟩
  | _ => g

theorem opOfCode_opCode (op : Op) : opOfCode (opCode op) = some op := by cases op <;> decide

theorem needSeen_of_seenFn (s : Store Bool) (w : Nat) (h : seenFn s w = true) : needSeen s w = .ok () := by
  simp only [seenFn, Bool.and_eq_true, decide_eq_true_eq] at h
  simp [needSeen, seenGet, h.1, h.2]

theorem take4_u32 (a : Nat) (r : Bytes) : (u32 a ++ r).take 4 = u32 a := by simp [u32]
theorem drop4_u32 (a : Nat) (r : Bytes) : (u32 a ++ r).drop 4 = r := by simp [u32]

/-- One INV iteration, from the facts about its reads. -/
theorem gateLoop_inv_eq (cfg : RdCfg) (fx : Fix) (ng f gate in0 out : Nat) (seen : Store Bool)
    (rd rd1 rd2 : Rd) (b : Bytes)
    (e1 : rd.read cfg 1 = some ([4], rd1))
    (k1 : be32 (b.take 4) = in0) (k2 : be32 (b.drop 4) = out)
    (hn0 : needSeen seen in0 = .ok ())
    (hset : seenSet seen out = .ok (seen.set out true))
    (hng2 : ¬ ng ≤ gate)
    (e2 : readN cfg 8 rd1 = .ok (b, rd2)) :
    gateLoop cfg fx ng (f + 1) gate seen rd =
      match gateLoop cfg fx ng f (gate + 1) (seen.set out true) rd2 with
      | .error e => .error e
      | .ok (gs, seen) => .ok (⟨.inv, in0, 0, out⟩ :: gs, seen) := by
  have hguard : ¬ (fx.guardGates = true ∧ ng ≤ gate) := fun h => hng2 h.2
  rw [gateLoop]
  simp only [e1]
  have o4 : opOfCode 4 = some Op.inv := by decide
  simp only [List.headD_cons, o4]
  rw [if_neg hguard, e2]
  dsimp only
  rw [k1, k2]
  rw [hn0]
  dsimp only
  rw [hset]
  dsimp only
  rw [if_neg hng2]
  cases gateLoop cfg fx ng f (gate + 1) (seen.set out true) rd2 with
  | error e => simp
  | ok p => simp

/-- One binary-gate iteration, from the facts about its reads. -/
theorem gateLoop_bin_eq (cfg : RdCfg) (fx : Fix) (ng f gate in0 in1 out : Nat) (seen : Store Bool)
    (rd rd1 rd2 : Rd) (b : Bytes) (op : Op) (hop : op.binary = true) (c : UInt8)
    (hoc : opOfCode c = some op)
    (e1 : rd.read cfg 1 = some ([c], rd1))
    (k1 : be32 (b.take 4) = in0) (k2 : be32 ((b.drop 4).take 4) = in1) (k3 : be32 (b.drop 8) = out)
    (hn0 : needSeen seen in0 = .ok ()) (hn1 : needSeen seen in1 = .ok ())
    (hset : seenSet seen out = .ok (seen.set out true))
    (hng2 : ¬ ng ≤ gate)
    (e2 : readN cfg 12 rd1 = .ok (b, rd2)) :
    gateLoop cfg fx ng (f + 1) gate seen rd =
      match gateLoop cfg fx ng f (gate + 1) (seen.set out true) rd2 with
      | .error e => .error e
      | .ok (gs, seen) => .ok (⟨op, in0, in1, out⟩ :: gs, seen) := by
  have hguard : ¬ (fx.guardGates = true ∧ ng ≤ gate) := fun h => hng2 h.2
  cases op <;> simp [Op.binary] at hop <;>
    (rw [gateLoop]; simp only [e1, List.headD_cons, hoc]; rw [if_neg hguard, e2]; dsimp only;
     rw [k1, k2, k3, hn0]; dsimp only; rw [hn1]; dsimp only; rw [hset]; dsimp only; rw [if_neg hng2]) <;>
    (cases gateLoop cfg fx ng f (gate + 1) (seen.set out true) rd2 with
     | error e => simp
     | ok p => simp)

theorem gateLoop_step_inv (cfg : RdCfg) (fx : Fix) (ng : Nat) (in0 in1 out : Nat) (f gate : Nat)
    (seen : Store Bool) (rd : Rd) (rest : Bytes)
    (hall : rd.all = marshalGate ⟨.inv, in0, in1, out⟩ ++ rest) (hng : gate < ng)
    (hsz : seen.size ≤ 4294967296) (w1 : seenFn seen in0 = true) (w5 : out < seen.size) :
    ∃ rd2, rd2.all = rest ∧
      gateLoop cfg fx ng (f + 1) gate seen rd =
        match gateLoop cfg fx ng f (gate + 1) (seen.set out true) rd2 with
        | .error e => .error e
        | .ok (gs, seen) => .ok (⟨.inv, in0, 0, out⟩ :: gs, seen) := by
  have hng2 : ¬ ng ≤ gate := by omega
  have hn0 := needSeen_of_seenFn seen in0 w1
  have hset : seenSet seen out = .ok (seen.set out true) := by simp [seenSet, w5]
  have hi0 : in0 < 4294967296 := by
    simp only [seenFn, Bool.and_eq_true, decide_eq_true_eq] at w1; omega
  have ho : out < 4294967296 := by omega
  have hall' : rd.all = 4 :: ((u32 in0 ++ u32 out) ++ rest) := by
    rw [hall]; simp [marshalGate, opCode]
  obtain ⟨rd1, e1, a1, _⟩ := read1_prefix cfg fx 4 rd _ hall'
  obtain ⟨rd2, e2, a2, _⟩ := readN_prefix cfg fx 8 rd1 (u32 in0 ++ u32 out) _ a1 rfl
  have k1 : be32 ((u32 in0 ++ u32 out).take 4) = in0 := by rw [take4_u32, be32_u32 _ hi0]
  have k2 : be32 ((u32 in0 ++ u32 out).drop 4) = out := by rw [drop4_u32, be32_u32 _ ho]
  exact ⟨rd2, a2, gateLoop_inv_eq cfg fx ng f gate in0 out seen rd rd1 rd2 _ e1 k1 k2 hn0 hset hng2 e2⟩

theorem gateLoop_step_bin (cfg : RdCfg) (fx : Fix) (ng : Nat) (op : Op) (hop : op.binary = true)
    (in0 in1 out : Nat) (f gate : Nat)
    (seen : Store Bool) (rd : Rd) (rest : Bytes)
    (hall : rd.all = marshalGate ⟨op, in0, in1, out⟩ ++ rest) (hng : gate < ng)
    (hsz : seen.size ≤ 4294967296) (w1 : seenFn seen in0 = true) (w2 : seenFn seen in1 = true)
    (w5 : out < seen.size) :
    ∃ rd2, rd2.all = rest ∧
      gateLoop cfg fx ng (f + 1) gate seen rd =
        match gateLoop cfg fx ng f (gate + 1) (seen.set out true) rd2 with
        | .error e => .error e
        | .ok (gs, seen) => .ok (⟨op, in0, in1, out⟩ :: gs, seen) := by
  have hng2 : ¬ ng ≤ gate := by omega
  have hn0 := needSeen_of_seenFn seen in0 w1
  have hn1 := needSeen_of_seenFn seen in1 w2
  have hset : seenSet seen out = .ok (seen.set out true) := by simp [seenSet, w5]
  have hi0 : in0 < 4294967296 := by
    simp only [seenFn, Bool.and_eq_true, decide_eq_true_eq] at w1; omega
  have hi1 : in1 < 4294967296 := by
    simp only [seenFn, Bool.and_eq_true, decide_eq_true_eq] at w2; omega
  have ho : out < 4294967296 := by omega
  have hall' : rd.all = opCode op :: ((u32 in0 ++ (u32 in1 ++ u32 out)) ++ rest) := by
    rw [hall]; cases op <;> simp [marshalGate] <;> simp [Op.binary] at hop
  obtain ⟨rd1, e1, a1, _⟩ := read1_prefix cfg fx _ rd _ hall'
  obtain ⟨rd2, e2, a2, _⟩ := readN_prefix cfg fx 12 rd1 (u32 in0 ++ (u32 in1 ++ u32 out)) _ a1 rfl
  have k1 : be32 ((u32 in0 ++ (u32 in1 ++ u32 out)).take 4) = in0 := by rw [take4_u32, be32_u32 _ hi0]
  have k2 : be32 (((u32 in0 ++ (u32 in1 ++ u32 out)).drop 4).take 4) = in1 := by
    rw [drop4_u32, take4_u32, be32_u32 _ hi1]
  have k3 : be32 ((u32 in0 ++ (u32 in1 ++ u32 out)).drop 8) = out := by
    have : (u32 in0 ++ (u32 in1 ++ u32 out)).drop 8 = u32 out := by simp [u32]
    rw [this, be32_u32 _ ho]
  exact ⟨rd2, a2, gateLoop_bin_eq cfg fx ng f gate in0 in1 out seen rd rd1 rd2 _ op hop _
    (opOfCode_opCode op) e1 k1 k2 k3 hn0 hn1 hset hng2 e2⟩

theorem gateLoop_rt (cfg : RdCfg) (fx : Fix) (ng : Nat) :
    ∀ (gs : List Gate) (f gate : Nat) (seen : Store Bool) (rd : Rd),
      rd.all = marshalGates gs → gs.length < f → gate + gs.length ≤ ng → seen.size ≤ 4294967296 →
      wfFrom seen.size gs (seenFn seen) = true →
      ∃ seen', gateLoop cfg fx ng f gate seen rd = .ok (gs.map normG, seen') := by
  intro gs
  induction gs with
  | nil =>
    intro f gate seen rd hall hf _ _ _
    cases f with
    | zero => simp at hf
    | succ f =>
      simp only [marshalGates] at hall
      have := (read_none_iff cfg 1 rd).2 hall
      exact ⟨seen, by simp [gateLoop, this]⟩
  | cons g gs ih =>
    intro f gate seen rd hall hf hng hsz hwf
    cases f with
    | zero => simp at hf
    | succ f =>
      simp only [List.length_cons] at hf hng
      simp only [wfFrom, Bool.and_eq_true, decide_eq_true_eq] at hwf
      obtain ⟨⟨⟨⟨⟨w1, w2⟩, w3⟩, w4⟩, w5⟩, w6⟩ := hwf
      obtain ⟨_, hs2, hs3⟩ := seenSet_ok seen g.out (seen.set g.out true) (by simp [seenSet, w5])
      rw [← hs3, ← hs2] at w6
      obtain ⟨op, in0, in1, out⟩ := g
      simp only at w1 w2 w3 w4 w5 w6 hs2
      cases hop : op.binary with
      | false =>
        have : op = .inv := by cases op <;> simp [Op.binary] at hop; rfl
        subst this
        obtain ⟨rd2, a2, estep⟩ := gateLoop_step_inv cfg fx ng in0 in1 out f gate seen rd (marshalGates gs)
          (by rw [hall]; rfl) (by omega) hsz w1 w5
        obtain ⟨seen', e3⟩ := ih f (gate + 1) (seen.set out true) rd2 a2 (by omega) (by omega)
          (by rw [hs2]; exact hsz) w6
        exact ⟨seen', by rw [estep, e3]; rfl⟩
      | true =>
        obtain ⟨rd2, a2, estep⟩ := gateLoop_step_bin cfg fx ng op hop in0 in1 out f gate seen rd (marshalGates gs)
          (by rw [hall]; rfl) (by omega) hsz w1 (by simpa [hop] using w2) w5
        obtain ⟨seen', e3⟩ := ih f (gate + 1) (seen.set out true) rd2 a2 (by omega) (by omega)
          (by rw [hs2]; exact hsz) w6
        refine ⟨seen', ?_⟩
        rw [estep, e3]
        cases op <;> simp [Op.binary] at hop <;> rfl

/-! ## Round trip: the whole native file -/

/-- `ParseMPCLC` from the facts about its steps. -/
theorem parseMPCLC_eq (cfg : RdCfg) (fx : Fix) (bytes h : Bytes) (rd0 rd1 rd2 : Rd)
    (ng nw ni no : Nat) (ins outs : List IOArg) (seen0 seen' : Store Bool) (gs : List Gate)
    (e0 : readN cfg 20 (Rd.init bytes) = .ok (h, rd0))
    (k1 : be32 ((h.drop 4).take 4) = ng) (k2 : be32 ((h.drop 8).take 4) = nw)
    (k3 : be32 ((h.drop 12).take 4) = ni) (k4 : be32 ((h.drop 16).take 4) = no)
    (d1 : declare ng = .ok ()) (d2 : declare nw = .ok ()) (d3 : declare ni = .ok ()) (d4 : declare no = .ok ())
    (e1 : parseIOArgs cfg fx (bytes.length + 1) ni rd0 = .ok (ins, rd1))
    (e2 : parseIOArgs cfg fx (bytes.length + 1) no rd1 = .ok (outs, rd2))
    (e3 : seenInit nw (ioSize ins) = .ok seen0)
    (e4 : gateLoop cfg fx ng (bytes.length + 1) 0 seen0 rd2 = .ok (gs, seen'))
    (hlen : gs.length = ng) (hall : allSeen seen' = true) :
    parseMPCLC cfg fx bytes = .ok ⟨ng, nw, ins, outs, gs⟩ := by
  unfold parseMPCLC
  rw [e0]
  dsimp only
  rw [k1, k2, k3, k4, d1, d2, d3, d4]
  dsimp only
  rw [e1]
  dsimp only
  rw [e2]
  dsimp only
  rw [e3]
  dsimp only
  rw [e4]
  dsimp only
  rw [if_neg (by simp [hlen]), if_neg (by simp [hall])]

/-- The underlying reader always delivers what is asked (`bytes.Reader`,
regular files). -/
def FullOracle (cfg : RdCfg) : Prop := ∀ req k, req ≤ cfg.oracle req k

theorem readN_init_rest (cfg : RdCfg) (hfull : FullOracle cfg) (bytes : Bytes) (n : Nat)
    (hn0 : 0 < n) (hn : n < cfg.bufSize) (hlen : bytes.length ≤ cfg.bufSize) (b : Bytes) (rd' : Rd)
    (h : readN cfg n (Rd.init bytes) = .ok (b, rd')) : rd'.rest = [] := by
  unfold readN at h
  cases hr : (Rd.init bytes).readFull cfg n with
  | none => simp [hr] at h
  | some x =>
    obtain ⟨d, r2⟩ := x
    simp only [hr, Except.ok.injEq, Prod.mk.injEq] at h
    obtain ⟨_, h2⟩ := h
    subst h2
    unfold Rd.readFull at hr
    cases n with
    | zero => omega
    | succ m =>
      simp only [Rd.readFullAux] at hr
      split at hr
      · simp at hr
      · rename_i d1 rd1 h1
        split at hr
        · simp at hr
        · rename_i d2 rd2 h2
          simp only [Option.some.injEq, Prod.mk.injEq] at hr
          rw [← hr.2]
          refine readFullAux_rest cfg _ _ _ _ _ h2 ?_
          unfold Rd.read at h1
          simp only [Rd.init] at h1
          cases hb : bytes with
          | nil => simp [hb] at h1
          | cons a t =>
            rw [hb] at h1
            have hnb : ¬ cfg.bufSize ≤ m + 1 := by omega
            simp only [hnb, if_false, Option.some.injEq, Prod.mk.injEq] at h1
            rw [← h1.2]
            simp only
            have hd : cfg.bufSize ≤ cfg.deliver cfg.bufSize 0 := by
              have := hfull cfg.bufSize 0
              simp only [RdCfg.deliver]; omega
            apply List.drop_of_length_le
            rw [← hb]; omega

theorem u32i_length (i : Int) : (u32i i).length = 4 := rfl

mutual
theorem size_le_marshal : ∀ (a : IOArg), a.size + 15 ≤ (marshalIOArg a).length
  | .mk name ty comp => by
    have := sizeL_le_marshal comp
    simp only [IOArg.size, marshalIOArg, marshalString, List.length_append, u32_length, u32i_length]
    omega
theorem sizeL_le_marshal : ∀ (as : List IOArg), IOArg.sizeL as ≤ (marshalIOArgs as).length
  | [] => by simp [IOArg.sizeL, marshalIOArgs]
  | a :: as => by
    have h1 := size_le_marshal a
    have h2 := sizeL_le_marshal as
    simp only [IOArg.sizeL, marshalIOArgs, List.length_append]
    omega
end

theorem gates_le_marshal : ∀ (gs : List Gate), gs.length ≤ (marshalGates gs).length
  | [] => by simp
  | g :: gs => by
    have := gates_le_marshal gs
    simp only [marshalGates, List.length_cons, List.length_append]
    cases hop : g.op <;> simp [marshalGate, hop] <;> omega

theorem setBits_bits (t : Info) (b : Int) : (t.setBits b).bits = b := by
  cases t <;> rfl

theorem ioSize_normL : ∀ (as : List IOArg), (IOArg.normL as).map (fun a => a.ty.bits) = as.map (fun a => a.ty.bits)
  | [] => rfl
  | (.mk n t c) :: as => by
    have ih := ioSize_normL as
    simp only [IOArg.normL, List.map_cons]
    rw [ih]
    congr 1
    simp [IOArg.norm, IOArg.ty, setBits_bits]

theorem definedAfter_normG : ∀ (gs : List Gate) (d : Nat → Bool),
    definedAfter (gs.map normG) d = definedAfter gs d
  | [], d => rfl
  | g :: gs, d => by
    have : (normG g).out = g.out := by unfold normG; split <;> rfl
    simp only [List.map_cons, definedAfter, this]
    exact definedAfter_normG gs _

/-- A circuit the native format can carry: counts within the property's cap,
valid I/O arguments, as many gates as declared, and the parser's own
acceptance conditions (input bits fit the wires, every gate input defined
before use with indices in range, every wire assigned). -/
structure PCircuit.Valid (c : PCircuit) : Prop where
  ngates : c.numGates = c.gates.length
  ng_cap : c.numGates ≤ cap
  nw_cap : c.numWires ≤ cap
  ni_cap : c.inputs.length ≤ cap
  no_cap : c.outputs.length ≤ cap
  ins : IOArg.validL c.inputs = true
  outs : IOArg.validL c.outputs = true
  fits : ioSize c.inputs ≤ c.numWires
  wf : wfFrom c.numWires c.gates c.toCircuit.inputDefined = true
  assigned : ∀ w, w < c.numWires → c.toCircuit.defined w = true

/-- What parsing the marshalled circuit returns. -/
def PCircuit.norm (c : PCircuit) : PCircuit :=
  ⟨c.numGates, c.numWires, IOArg.normL c.inputs, IOArg.normL c.outputs, c.gates.map normG⟩

theorem parseMPCLC_marshal (cfg : RdCfg) (fx : Fix) (c : PCircuit) (hv : c.Valid)
    (hg : fx.readFullStrings = true ∨
      (FullOracle cfg ∧ (marshal c).length ≤ cfg.bufSize ∧ 20 < cfg.bufSize)) :
    parseMPCLC cfg fx (marshal c) = .ok c.norm := by
  have hc := cap_lt
  obtain ⟨ng, nw, ins, outs, gs⟩ := c
  obtain ⟨v1, v2, v3, v4, v5, v6, v7, v8, v9, v10⟩ := hv
  simp only at v1 v2 v3 v4 v5 v6 v7 v8 v9 v10
  let hdr : Bytes := u32 magic ++ (u32 ng ++ (u32 nw ++ (u32 ins.length ++ u32 outs.length)))
  let rest : Bytes := marshalIOArgs ins ++ (marshalIOArgs outs ++ marshalGates gs)
  have hb : marshal ⟨ng, nw, ins, outs, gs⟩ = hdr ++ rest := by
    simp only [marshal, hdr, rest, List.append_assoc]
  have hlenb : (marshal ⟨ng, nw, ins, outs, gs⟩).length =
      20 + ((marshalIOArgs ins).length + ((marshalIOArgs outs).length + (marshalGates gs).length)) := by
    rw [hb]; simp [hdr, rest, u32_length]; omega
  obtain ⟨rd0, e0, a0, g0'⟩ := readN_prefix cfg fx 20 (Rd.init (marshal ⟨ng, nw, ins, outs, gs⟩)) hdr rest
    (by simp [Rd.all, Rd.init, hb]) rfl
  have g0 : Good fx rd0 := by
    rcases hg with hg | ⟨hf, hl, hbs⟩
    · exact Or.inl hg
    · exact Or.inr (readN_init_rest cfg hf _ 20 (by omega) hbs hl _ _ e0)
  have hI := sizeL_le_marshal ins
  have hO := sizeL_le_marshal outs
  have hG := gates_le_marshal gs
  obtain ⟨rd1, e1, a1, g1⟩ := parseIOArgs_rt cfg fx ins ((marshal ⟨ng, nw, ins, outs, gs⟩).length + 1) rd0
    (marshalIOArgs outs ++ marshalGates gs) v6 (by omega) a0 g0
  obtain ⟨rd2, e2, a2, g2⟩ := parseIOArgs_rt cfg fx outs ((marshal ⟨ng, nw, ins, outs, gs⟩).length + 1) rd1
    (marshalGates gs) v7 (by omega) a1 g1
  have hio : ioSize (IOArg.normL ins) = ioSize ins := by
    simp only [ioSize, ioSize_normL]
  have hnlt : ¬ ((nw : Int) < ioSize (IOArg.normL ins)) := by rw [hio]; omega
  have e3 : seenInit nw (ioSize (IOArg.normL ins)) =
      .ok ((Array.range nw).map fun (i : Nat) => decide ((i : Int) < ioSize (IOArg.normL ins))) := by
    simp [seenInit, hnlt]
  obtain ⟨s1, _, s3⟩ := seenInit_ok _ _ _ e3
  obtain ⟨seen', e4⟩ := gateLoop_rt cfg fx ng gs ((marshal ⟨ng, nw, ins, outs, gs⟩).length + 1) 0 _ rd2 a2
    (by omega) (by omega) (by rw [s1]; omega) (by rw [s1, s3, hio]; exact v9)
  obtain ⟨_, w2, w3⟩ := gateLoop_wf _ _ _ _ _ _ _ _ _ e4
  have hall : allSeen seen' = true := by
    unfold allSeen
    rw [Array.all_eq_true]
    intro i hi
    have hi' : i < nw := by rw [w2, s1] at hi; exact hi
    have := v10 i hi'
    have hfn : seenFn seen' i = true := by
      rw [w3, definedAfter_normG, s3, hio]; exact this
    simp only [seenFn, hi, decide_true, Bool.true_and, Store.get, Array.getD, dite_true] at hfn
    simpa using hfn
  have k1 : be32 ((hdr.drop 4).take 4) = ng := by
    simp only [hdr, drop4_u32, take4_u32]; exact be32_u32 _ (by omega)
  have k2 : be32 ((hdr.drop 8).take 4) = nw := by
    have : hdr.drop 8 = u32 nw ++ (u32 ins.length ++ u32 outs.length) := by simp [hdr, u32]
    rw [this, take4_u32]; exact be32_u32 _ (by omega)
  have k3 : be32 ((hdr.drop 12).take 4) = ins.length := by
    have : hdr.drop 12 = u32 ins.length ++ u32 outs.length := by simp [hdr, u32]
    rw [this, take4_u32]; exact be32_u32 _ (by omega)
  have k4 : be32 ((hdr.drop 16).take 4) = outs.length := by
    have : hdr.drop 16 = u32 outs.length := by simp [hdr, u32]
    rw [this]
    have : (u32 outs.length).take 4 = u32 outs.length := by simp [u32]
    rw [this]; exact be32_u32 _ (by omega)
  exact parseMPCLC_eq cfg fx _ hdr rd0 rd1 rd2 ng nw ins.length outs.length _ _ _ seen' _ e0 k1 k2 k3 k4
    (declare_ok _ v2) (declare_ok _ v3) (declare_ok _ v4) (declare_ok _ v5) e1 e2 e3 e4
    (by simp [v1]) hall

/-! ## Writing the parsed circuit again; same function -/

theorem typeString_norm_setBits (t : Info) : typeString (t.norm.setBits t.bits) = typeString t := by
  cases t with
  | base k c b => cases c <;> simp [Info.norm, Info.setBits, Info.bits, typeString]
  | arr sl n bits e => cases sl <;> simp [Info.norm, Info.setBits, typeString, typeString_norm]
  | ptr b e => simp [Info.norm, Info.setBits, typeString]

mutual
theorem marshalIOArg_norm : ∀ (a : IOArg), marshalIOArg a.norm = marshalIOArg a
  | .mk name ty comp => by
    simp only [IOArg.norm, marshalIOArg, typeString_norm_setBits, setBits_bits, normL_length,
      marshalIOArgs_normL comp]
theorem marshalIOArgs_normL : ∀ (as : List IOArg), marshalIOArgs (IOArg.normL as) = marshalIOArgs as
  | [] => rfl
  | a :: as => by
    simp only [IOArg.normL, marshalIOArgs, marshalIOArg_norm a, marshalIOArgs_normL as]
end

theorem marshalGate_normG (g : Gate) : marshalGate (normG g) = marshalGate g := by
  obtain ⟨op, a, b, c⟩ := g
  cases op <;> rfl

theorem marshalGates_normG : ∀ (gs : List Gate), marshalGates (gs.map normG) = marshalGates gs
  | [] => rfl
  | g :: gs => by simp only [List.map_cons, marshalGates, marshalGate_normG, marshalGates_normG gs]

/-- Writing the parsed circuit gives the same bytes. -/
theorem marshal_norm (c : PCircuit) : marshal c.norm = marshal c := by
  simp only [PCircuit.norm, marshal, normL_length, marshalIOArgs_normL, marshalGates_normG]

theorem evalPlain_normG (g : Gate) (w : Store Bool) : (normG g).evalPlain w = g.evalPlain w := by
  obtain ⟨op, a, b, c⟩ := g
  cases op <;> rfl

theorem evalPlainGates_normG : ∀ (gs : List Gate) (w : Store Bool),
    evalPlainGates (gs.map normG) w = evalPlainGates gs w
  | [], w => rfl
  | g :: gs, w => by
    simp only [evalPlainGates, List.map_cons, List.foldl_cons, evalPlain_normG]
    exact evalPlainGates_normG gs _

/-- The parsed circuit computes the same function. -/
theorem compute_norm (c : PCircuit) (x : List Bool) :
    c.norm.toCircuit.compute x = c.toCircuit.compute x := by
  simp only [Circuit.compute, Circuit.outputs, Circuit.plainEval, PCircuit.toCircuit, PCircuit.norm,
    ioSize, ioSize_normL, evalPlainGates_normG]

end Fmt
end Mpc

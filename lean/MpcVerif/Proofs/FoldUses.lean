/-
Helper lemmas for the theorems of Props/C12.lean about constants used several times (Model/FoldUses.lean):
under pure folding the bindings after any sequence of folds are the declarations followed by the fold
results, each a function of the declarations and the earlier results.
-/
import MpcVerif.Model.FoldUses

namespace Mpc.Fold
open Mpc.Mpa

/-- The results of a sequence of folds as a function of the bindings they start from: every fold is evaluated
on the declarations followed by the results of the folds before it — nothing else. -/
def foldResults (nm : CV → String) (env : List Bound) : List Use → Res (List Bound)
  | [] => .ok []
  | u :: rest =>
    match u.eval env with
    | .error e => .error e
    | .ok res =>
      match foldResults nm (env ++ [(nm res, res)]) rest with
      | .error e => .error e
      | .ok more => .ok ((nm res, res) :: more)

theorem setObj_self {env : List Bound} {i : Nat} {l : CV} (h : getVar env i = .ok l) : setObj env i l = env := by
  unfold getVar at h
  unfold setObj
  cases hb : env[i]? with
  | none => rfl
  | some b =>
    rw [hb] at h
    simp only [Except.ok.injEq] at h
    subst h
    obtain ⟨hi, hb'⟩ := List.getElem?_eq_some_iff.mp hb
    simp only
    rw [← hb']
    exact List.set_getElem_self hi

/-- A fold that evaluates has found both operands. -/
theorem eval_ok_operands {u : Use} {env : List Bound} {res : CV} (h : u.eval env = .ok res) :
    ∃ l r, getVar env u.l = .ok l ∧ u.right env = .ok r := by
  unfold Use.eval at h
  cases hl : getVar env u.l with
  | error e => simp [hl, bind, Except.bind] at h
  | ok l =>
    cases hr : u.right env with
    | error e => simp [hl, hr, bind, Except.bind] at h
    | ok r => exact ⟨l, r, rfl, rfl⟩

/-- **Pure folding leaves every binding alone**: the bindings after any sequence of folds are the bindings
before it followed by the fold results, and each result is a function of the declarations and the earlier
results only (`foldResults`). -/
theorem runUses_pure (nm : CV → String) : ∀ (us : List Use) (env : List Bound),
    runUses nm pureFold env us = (foldResults nm env us).map (env ++ ·) := by
  intro us
  induction us with
  | nil => intro env; simp [runUses, foldResults, Except.map]
  | cons u rest ih =>
    intro env
    cases he : u.eval env with
    | error e =>
      cases h2 : getVar env u.l <;> cases h3 : u.right env <;> simp [runUses, foldResults, he, h2, h3, Except.map]
    | ok res =>
      obtain ⟨l, r, h2, h3⟩ := eval_ok_operands he
      simp only [runUses, foldResults, he, h2, h3, pureFold, setObj_self h2]
      rw [ih]
      cases foldResults nm (env ++ [(nm res, res)]) rest with
      | error e => simp [Except.map]
      | ok more => simp [Except.map]

/-- The declared bindings are a prefix of the final ones. -/
theorem runUses_pure_decls (nm : CV → String) (us : List Use) (env final : List Bound)
    (h : runUses nm pureFold env us = .ok final) : ∀ i, i < env.length → final[i]? = env[i]? := by
  rw [runUses_pure] at h
  cases hf : foldResults nm env us with
  | error e => simp [hf, Except.map] at h
  | ok more =>
    simp [hf, Except.map] at h
    subst h
    intro i hi
    exact List.getElem?_append_left hi

end Mpc.Fold

/-
C10: the evaluation order of `gmw.Network.run` (level by level of
`AssignLevels(TargetGMW)`, on each level first the non-AND gates in circuit
order, then the AND batch; model `Mpc.Gmw.blocks` / `Mpc.Gmw.schedule`) is a
topological reordering of a single-assignment circuit, and the AND gates of
one level are mutually independent.
-/
import MpcVerif.Proofs.Levels
import MpcVerif.Model.Gmw

set_option linter.unusedSimpArgs false

namespace Mpc.Gmw
open Mpc

/-! ### Bucketing a list by a numeric key -/

section Bucket
variable {α : Type} (key : α → Nat)

/-- Concatenation of the buckets `key = 0`, `key = 1`, …, `key = K - 1`, each
in list order. -/
def bucket (l : List α) (K : Nat) : List α :=
  (List.range K).flatMap fun k => l.filter fun a => key a == k

theorem bucket_succ (l : List α) (K : Nat) :
    bucket key l (K + 1) = bucket key l K ++ l.filter (fun a => key a == K) := by
  simp [bucket, List.range_succ, List.flatMap_append]

theorem mem_bucket (l : List α) (K : Nat) (x : α) :
    x ∈ bucket key l K ↔ x ∈ l ∧ key x < K := by
  simp only [bucket, List.mem_flatMap, List.mem_range, List.mem_filter, beq_iff_eq]
  constructor
  · rintro ⟨k, hk, hx, rfl⟩; exact ⟨hx, hk⟩
  · rintro ⟨hx, hk⟩; exact ⟨_, hk, hx, rfl⟩

theorem filter_lt_succ_perm (K : Nat) : ∀ l : List α,
    (l.filter fun a => decide (key a < K + 1)).Perm
      ((l.filter fun a => decide (key a < K)) ++ l.filter fun a => key a == K)
  | [] => by simp
  | a :: l => by
    have ih := filter_lt_succ_perm K l
    rcases Nat.lt_trichotomy (key a) K with h | h | h
    · have h1 : key a < K + 1 := by omega
      have h2 : ¬ key a = K := by omega
      simp only [List.filter_cons, h, h1, h2, decide_true, if_true, beq_iff_eq, if_false,
        List.cons_append]
      exact ih.cons a
    · have h1 : key a < K + 1 := by omega
      have h2 : ¬ key a < K := by omega
      have h3 : (key a == K) = true := by simp [h]
      simp only [List.filter_cons, h1, h2, h3, decide_true, decide_false, if_true,
        if_false, Bool.false_eq_true]
      exact (ih.cons a).trans List.perm_middle.symm
    · have h1 : ¬ key a < K + 1 := by omega
      have h2 : ¬ key a < K := by omega
      have h3 : ¬ key a = K := by omega
      simp only [List.filter_cons, h1, h2, h3, decide_false, beq_iff_eq, if_false,
        Bool.false_eq_true]
      exact ih

theorem bucket_perm_filter (l : List α) : ∀ K : Nat,
    (bucket key l K).Perm (l.filter fun a => decide (key a < K))
  | 0 => by simp [bucket]
  | K + 1 => by
    rw [bucket_succ]
    exact ((bucket_perm_filter l K).append_right _).trans (filter_lt_succ_perm key K l).symm

/-- Bucketing is a permutation when every key is below the bound. -/
theorem bucket_perm (l : List α) (K : Nat) (hK : ∀ a ∈ l, key a < K) :
    (bucket key l K).Perm l := by
  have h := bucket_perm_filter key l K
  rwa [List.filter_eq_self.mpr (fun a ha => by simp [hK a ha])] at h

/-- Bucketing keeps the relative order of two elements whose keys are in
order. -/
theorem bucket_pair_sublist (l : List α) (h a : α) (hsub : List.Sublist [h, a] l)
    (hle : key h ≤ key a) : ∀ K : Nat, key a < K → List.Sublist [h, a] (bucket key l K)
  | 0, hK => by omega
  | K + 1, hK => by
    rw [bucket_succ]
    by_cases haK : key a < K
    · exact (bucket_pair_sublist l h a hsub hle K haK).trans (List.sublist_append_left _ _)
    · have haK' : key a = K := by omega
      by_cases hhK : key h = K
      · have := hsub.filter (fun a => key a == K)
        simp only [List.filter_cons, hhK, haK', beq_self_eq_true, if_true, List.filter_nil] at this
        exact this.trans (List.sublist_append_right _ _)
      · have hh : h ∈ bucket key l K :=
          (mem_bucket key l K h).mpr ⟨hsub.subset (by simp), by omega⟩
        have ha : a ∈ l.filter (fun a => key a == K) :=
          List.mem_filter.mpr ⟨hsub.subset (by simp), by simp [haK']⟩
        have h1 : List.Sublist [h] (bucket key l K) := List.singleton_sublist.mpr hh
        have h2 : List.Sublist [a] (l.filter (fun a => key a == K)) :=
          List.singleton_sublist.mpr ha
        exact h1.append h2

theorem bucket_two (l : List α) : ∀ K : Nat,
    bucket key l (2 * K) = (List.range K).flatMap fun i =>
      (l.filter fun a => key a == 2 * i) ++ l.filter fun a => key a == 2 * i + 1
  | 0 => by simp [bucket]
  | K + 1 => by
    have : 2 * (K + 1) = 2 * K + 1 + 1 := by omega
    rw [this, bucket_succ, bucket_succ, bucket_two l K, List.range_succ, List.flatMap_append]
    simp

end Bucket

/-! ### The schedule as a bucket order -/

theorem gatesAt_eq (gl : List (Gate × Nat)) (i : Nat) (isAnd : Bool) :
    gatesAt gl i isAnd =
      (gl.filter fun a => gKey a == 2 * i + (if isAnd then 1 else 0)).map Prod.fst := by
  unfold gatesAt
  congr 1
  apply List.filter_congr
  intro a _
  rw [Bool.eq_iff_iff]
  simp only [gKey, Bool.and_eq_true, beq_iff_eq]
  by_cases ha : a.1.op = .and <;> cases isAnd <;> simp [ha] <;> omega

theorem schedule_eq (c : Circuit) :
    schedule c = (bucket gKey (c.gates.zip (c.assignLevels true).1)
      (2 * ((c.assignLevels true).2 + 1))).map Prod.fst := by
  rw [bucket_two]
  simp only [schedule, blocks, List.flatMap_map, List.map_flatMap, List.map_append, gatesAt_eq]
  simp

/-! ### Every gate level is at most the returned maximum -/

theorem assignLevelsGo_max_ge (gmw : Bool) : ∀ (gs : List Gate) (lv : Array Nat) (mx : Nat),
    mx ≤ (assignLevelsGo gmw gs lv mx).2 := by
  intro gs
  induction gs with
  | nil => intro lv mx; exact Nat.le_refl _
  | cons g gs ih =>
    intro lv mx
    rw [assignLevelsGo_cons]
    exact Nat.le_trans (Nat.le_max_left _ _) (ih _ _)

theorem getD_set_le (lv : Array Nat) (i j v m : Nat) (h : lv.getD j 0 ≤ m) (hv : v ≤ m) :
    (lv.setIfInBounds i v).getD j 0 ≤ m := by
  by_cases hij : i = j
  · subst hij
    by_cases hs : i < lv.size
    · rw [getD_set_eq _ _ _ _ hs]; exact hv
    · simp only [Array.getD_eq_getD_getElem?] at h ⊢
      rw [Array.getElem?_setIfInBounds]
      simp [hs]
  · rw [getD_set_ne _ _ _ _ _ hij]; exact h

theorem assignLevelsGo_le_max (gmw : Bool) : ∀ (gs : List Gate) (lv : Array Nat) (mx : Nat),
    (∀ i, lv.getD i 0 ≤ mx) →
    ∀ l ∈ (assignLevelsGo gmw gs lv mx).1, l ≤ (assignLevelsGo gmw gs lv mx).2 := by
  intro gs
  induction gs with
  | nil => intro lv mx _ l hl; simp [assignLevelsGo] at hl
  | cons g gs ih =>
    intro lv mx hlv l hl
    rw [assignLevelsGo_cons] at hl ⊢
    simp only [List.mem_cons] at hl
    have hlevel : (if g.op.binary then max (lv.getD g.in0 0) (lv.getD g.in1 0) else lv.getD g.in0 0)
        ≤ mx := by
      have h0 := hlv g.in0
      have h1 := hlv g.in1
      split <;> omega
    rcases hl with rfl | hl
    · exact Nat.le_trans (Nat.le_trans hlevel (Nat.le_max_left _ _)) (assignLevelsGo_max_ge _ _ _ _)
    · refine ih _ _ (fun i => ?_) l hl
      exact getD_set_le _ _ _ _ _ (Nat.le_trans (hlv i) (Nat.le_max_left _ _)) (Nat.le_max_right _ _)

theorem assignLevels_le_max (c : Circuit) (gmw : Bool) :
    ∀ l ∈ (c.assignLevels gmw).1, l ≤ (c.assignLevels gmw).2 := by
  refine assignLevelsGo_le_max gmw c.gates _ 0 (fun i => ?_)
  simp [Array.getD]

end Mpc.Gmw

/-
C10: the evaluation order of `gmw.Network.run` (level by level of
`AssignLevels(TargetGMW)`, on each level first the non-AND gates in circuit
order, then the AND batch; model `Mpc.Gmw.blocks` / `Mpc.Gmw.schedule`) is a
topological reordering of a single-assignment circuit, and the AND gates of
one level are mutually independent.
-/
import MpcVerif.Proofs.Levels
import MpcVerif.Model.Gmw

set_option linter.unusedSimpArgs false

namespace Mpc.Gmw
open Mpc

/-! ### Bucketing a list by a numeric key -/

section Bucket
variable {α : Type} (key : α → Nat)

/-- Concatenation of the buckets `key = 0`, `key = 1`, …, `key = K - 1`, each
in list order. -/
def bucket (l : List α) (K : Nat) : List α :=
  (List.range K).flatMap fun k => l.filter fun a => key a == k

theorem bucket_succ (l : List α) (K : Nat) :
    bucket key l (K + 1) = bucket key l K ++ l.filter (fun a => key a == K) := by
  simp [bucket, List.range_succ, List.flatMap_append]

theorem mem_bucket (l : List α) (K : Nat) (x : α) :
    x ∈ bucket key l K ↔ x ∈ l ∧ key x < K := by
  simp only [bucket, List.mem_flatMap, List.mem_range, List.mem_filter, beq_iff_eq]
  constructor
  · rintro ⟨k, hk, hx, rfl⟩; exact ⟨hx, hk⟩
  · rintro ⟨hx, hk⟩; exact ⟨_, hk, hx, rfl⟩

theorem filter_lt_succ_perm (K : Nat) : ∀ l : List α,
    (l.filter fun a => decide (key a < K + 1)).Perm
      ((l.filter fun a => decide (key a < K)) ++ l.filter fun a => key a == K)
  | [] => by simp
  | a :: l => by
    have ih := filter_lt_succ_perm K l
    rcases Nat.lt_trichotomy (key a) K with h | h | h
    · have h1 : key a < K + 1 := by omega
      have h2 : ¬ key a = K := by omega
      simp only [List.filter_cons, h, h1, h2, decide_true, if_true, beq_iff_eq, if_false,
        List.cons_append]
      exact ih.cons a
    · have h1 : key a < K + 1 := by omega
      have h2 : ¬ key a < K := by omega
      have h3 : (key a == K) = true := by simp [h]
      simp only [List.filter_cons, h1, h2, h3, decide_true, decide_false, if_true,
        if_false, Bool.false_eq_true]
      exact (ih.cons a).trans List.perm_middle.symm
    · have h1 : ¬ key a < K + 1 := by omega
      have h2 : ¬ key a < K := by omega
      have h3 : ¬ key a = K := by omega
      simp only [List.filter_cons, h1, h2, h3, decide_false, beq_iff_eq, if_false,
        Bool.false_eq_true]
      exact ih

theorem bucket_perm_filter (l : List α) : ∀ K : Nat,
    (bucket key l K).Perm (l.filter fun a => decide (key a < K))
  | 0 => by simp [bucket]
  | K + 1 => by
    rw [bucket_succ]
    exact ((bucket_perm_filter l K).append_right _).trans (filter_lt_succ_perm key K l).symm

/-- Bucketing is a permutation when every key is below the bound. -/
theorem bucket_perm (l : List α) (K : Nat) (hK : ∀ a ∈ l, key a < K) :
    (bucket key l K).Perm l := by
  have h := bucket_perm_filter key l K
  rwa [List.filter_eq_self.mpr (fun a ha => by simp [hK a ha])] at h

/-- Bucketing keeps the relative order of two elements whose keys are in
order. -/
theorem bucket_pair_sublist (l : List α) (h a : α) (hsub : List.Sublist [h, a] l)
    (hle : key h ≤ key a) : ∀ K : Nat, key a < K → List.Sublist [h, a] (bucket key l K)
  | 0, hK => by omega
  | K + 1, hK => by
    rw [bucket_succ]
    by_cases haK : key a < K
    · exact (bucket_pair_sublist l h a hsub hle K haK).trans (List.sublist_append_left _ _)
    · have haK' : key a = K := by omega
      by_cases hhK : key h = K
      · have := hsub.filter (fun a => key a == K)
        simp only [List.filter_cons, hhK, haK', beq_self_eq_true, if_true, List.filter_nil] at this
        exact this.trans (List.sublist_append_right _ _)
      · have hh : h ∈ bucket key l K :=
          (mem_bucket key l K h).mpr ⟨hsub.subset (by simp), by omega⟩
        have ha : a ∈ l.filter (fun a => key a == K) :=
          List.mem_filter.mpr ⟨hsub.subset (by simp), by simp [haK']⟩
        have h1 : List.Sublist [h] (bucket key l K) := List.singleton_sublist.mpr hh
        have h2 : List.Sublist [a] (l.filter (fun a => key a == K)) :=
          List.singleton_sublist.mpr ha
        exact h1.append h2

theorem bucket_two (l : List α) : ∀ K : Nat,
    bucket key l (2 * K) = (List.range K).flatMap fun i =>
      (l.filter fun a => key a == 2 * i) ++ l.filter fun a => key a == 2 * i + 1
  | 0 => by simp [bucket]
  | K + 1 => by
    have : 2 * (K + 1) = 2 * K + 1 + 1 := by omega
    rw [this, bucket_succ, bucket_succ, bucket_two l K, List.range_succ, List.flatMap_append]
    simp

end Bucket

/-! ### The schedule as a bucket order -/

theorem gatesAt_eq (gl : List (Gate × Nat)) (i : Nat) (isAnd : Bool) :
    gatesAt gl i isAnd =
      (gl.filter fun a => gKey a == 2 * i + (if isAnd then 1 else 0)).map Prod.fst := by
  unfold gatesAt
  congr 1
  apply List.filter_congr
  intro a _
  rw [Bool.eq_iff_iff]
  simp only [gKey, Bool.and_eq_true, beq_iff_eq]
  by_cases ha : a.1.op = .and <;> cases isAnd <;> simp [ha] <;> omega

/-- The gates paired with their `AssignLevels(TargetGMW)` level. -/
def glv (c : Circuit) : List (Gate × Nat) := c.gates.zip (c.assignLevels true).1

/-- Number of buckets: two per level `0 .. Stats[NumLevels]`. -/
def kmax (c : Circuit) : Nat := 2 * ((c.assignLevels true).2 + 1)

theorem schedule_eq (c : Circuit) :
    schedule c = (bucket gKey (glv c) (kmax c)).map Prod.fst := by
  unfold glv kmax
  rw [bucket_two]
  simp only [schedule, blocks, List.flatMap_map, List.map_flatMap, List.map_append, gatesAt_eq]
  simp

/-! ### Every gate level is at most the returned maximum -/

theorem assignLevelsGo_max_ge (gmw : Bool) : ∀ (gs : List Gate) (lv : Array Nat) (mx : Nat),
    mx ≤ (assignLevelsGo gmw gs lv mx).2 := by
  intro gs
  induction gs with
  | nil => intro lv mx; exact Nat.le_refl _
  | cons g gs ih =>
    intro lv mx
    rw [assignLevelsGo_cons]
    exact Nat.le_trans (Nat.le_max_left _ _) (ih _ _)

theorem getD_set_le (lv : Array Nat) (i j v m : Nat) (h : lv.getD j 0 ≤ m) (hv : v ≤ m) :
    (lv.setIfInBounds i v).getD j 0 ≤ m := by
  by_cases hij : i = j
  · subst hij
    by_cases hs : i < lv.size
    · rw [getD_set_eq _ _ _ _ hs]; exact hv
    · simp only [Array.getD_eq_getD_getElem?] at h ⊢
      rw [Array.getElem?_setIfInBounds]
      simp [hs]
  · rw [getD_set_ne _ _ _ _ _ hij]; exact h

theorem assignLevelsGo_le_max (gmw : Bool) : ∀ (gs : List Gate) (lv : Array Nat) (mx : Nat),
    (∀ i, lv.getD i 0 ≤ mx) →
    ∀ l ∈ (assignLevelsGo gmw gs lv mx).1, l ≤ (assignLevelsGo gmw gs lv mx).2 := by
  intro gs
  induction gs with
  | nil => intro lv mx _ l hl; simp [assignLevelsGo] at hl
  | cons g gs ih =>
    intro lv mx hlv l hl
    rw [assignLevelsGo_cons] at hl ⊢
    simp only [List.mem_cons] at hl
    have hlevel : (if g.op.binary then max (lv.getD g.in0 0) (lv.getD g.in1 0) else lv.getD g.in0 0)
        ≤ mx := by
      have h0 := hlv g.in0
      have h1 := hlv g.in1
      split <;> omega
    rcases hl with rfl | hl
    · exact Nat.le_trans (Nat.le_trans hlevel (Nat.le_max_left _ _)) (assignLevelsGo_max_ge _ _ _ _)
    · refine ih _ _ (fun i => ?_) l hl
      exact getD_set_le _ _ _ _ _ (Nat.le_trans (hlv i) (Nat.le_max_left _ _)) (Nat.le_max_right _ _)

theorem assignLevels_le_max (c : Circuit) (gmw : Bool) :
    ∀ l ∈ (c.assignLevels gmw).1, l ≤ (c.assignLevels gmw).2 := by
  refine assignLevelsGo_le_max gmw c.gates _ 0 (fun i => ?_)
  simp [Array.getD]

/-! ### The zipped list -/

theorem glv_map_fst (c : Circuit) : (glv c).map Prod.fst = c.gates := by
  apply List.map_fst_zip
  simp [Circuit.assignLevels, assignLevelsGo_length]

theorem glv_map_out (c : Circuit) : (glv c).map (fun a => a.1.out) = c.gates.map (·.out) := by
  have := congrArg (List.map (·.out)) (glv_map_fst c)
  rw [List.map_map] at this
  exact this

theorem glv_nodup_out (c : Circuit) (hssa : SSA c.numWires c.gates c.inputDefined) :
    ((glv c).map (fun a => a.1.out)).Nodup := by
  rw [glv_map_out]; exact hssa.2.1

theorem glv_mem_gate (c : Circuit) (a : Gate × Nat) (ha : a ∈ glv c) : a.1 ∈ c.gates :=
  (List.of_mem_zip (a := a.1) (b := a.2) ha).1

theorem gKey_lt (c : Circuit) : ∀ a ∈ glv c, gKey a < kmax c := by
  intro a ha
  have := assignLevels_le_max c true a.2 (List.of_mem_zip (a := a.1) (b := a.2) ha).2
  simp only [gKey, kmax]
  split <;> omega

/-- `C09_assignLevels_mono` for the GMW target. -/
theorem levels_mono (c : Circuit) (hssa : SSA c.numWires c.gates c.inputDefined) :
    ∀ pre a post, glv c = pre ++ a :: post →
    ∀ h ∈ pre, h.1.out ∈ a.1.ins → h.2 + bump true h.1 ≤ a.2 := by
  refine assignLevelsGo_mono true c.gates _ 0 hssa.2.1 (fun g hg => ?_)
  simp only [Array.size_replicate]
  exact (wf_bounds c.numWires c.gates _ hssa.1 g hg).2

/-! ### Blocks -/

theorem mem_blocks (c : Circuit) (b : List Gate × List Gate) (hb : b ∈ blocks c) :
    ∃ i, b = (gatesAt (glv c) i false, gatesAt (glv c) i true) := by
  simp only [blocks, List.mem_map, List.mem_range] at hb
  obtain ⟨i, _, rfl⟩ := hb
  exact ⟨i, rfl⟩

theorem mem_gatesAt (gl : List (Gate × Nat)) (i : Nat) (isAnd : Bool) (g : Gate) :
    g ∈ gatesAt gl i isAnd ↔ (g, i) ∈ gl ∧ (g.op == .and) = isAnd := by
  simp only [gatesAt, List.mem_map, List.mem_filter, Bool.and_eq_true, beq_iff_eq]
  constructor
  · rintro ⟨⟨g', l⟩, ⟨hm, rfl, hop⟩, rfl⟩; exact ⟨hm, hop⟩
  · rintro ⟨hm, hop⟩; exact ⟨(g, i), ⟨hm, rfl, hop⟩, rfl⟩

/-- the gates of one block keep their classification -/
theorem blocks_ops (c : Circuit) :
    ∀ b ∈ blocks c, (∀ g ∈ b.1, g.op ≠ .and) ∧ (∀ g ∈ b.2, g.op = .and) := by
  intro b hb
  obtain ⟨i, rfl⟩ := mem_blocks c b hb
  constructor
  · intro g hg
    have := ((mem_gatesAt _ _ _ _).mp hg).2
    simpa using this
  · intro g hg
    have := ((mem_gatesAt _ _ _ _).mp hg).2
    simpa using this

theorem blocks_mem (c : Circuit) :
    ∀ b ∈ blocks c, (∀ g ∈ b.1, g ∈ c.gates) ∧ (∀ g ∈ b.2, g ∈ c.gates) := by
  intro b hb
  obtain ⟨i, rfl⟩ := mem_blocks c b hb
  constructor <;> intro g hg <;> exact glv_mem_gate c (g, i) ((mem_gatesAt _ _ _ _).mp hg).1

/-! ### The schedule is a topological reordering -/

theorem schedule_perm (c : Circuit) (hssa : SSA c.numWires c.gates c.inputDefined) :
    (schedule c).Perm c.gates := by
  have _ := hssa
  have := (bucket_perm gKey (glv c) (kmax c) (gKey_lt c)).map Prod.fst
  rwa [glv_map_fst, ← schedule_eq] at this

theorem schedule_wf (c : Circuit) (hssa : SSA c.numWires c.gates c.inputDefined) :
    wfFrom c.numWires (schedule c) c.inputDefined = true := by
  rw [schedule_eq]
  have hwf : wfFrom c.numWires ((glv c).map Prod.fst) c.inputDefined = true := by
    rw [glv_map_fst]; exact hssa.1
  have hperm := bucket_perm gKey (glv c) (kmax c) (gKey_lt c)
  have hndl : (glv c).Nodup :=
    List.Pairwise.of_map _ (fun a b hab h => hab (by rw [h])) (glv_nodup_out c hssa)
  have hnds := (hperm.nodup_iff).mpr hndl
  have hbl := wf_bounds c.numWires _ _ hwf
  apply wf_of_pre Prod.fst c.numWires
  · intro a ha
    exact hbl a.1 (List.mem_map_of_mem (hperm.mem_iff.mp ha))
  · intro pre a post hl w hw
    have ha : a ∈ glv c := hperm.mem_iff.mp (by rw [hl]; simp)
    obtain ⟨p0, q0, hl0⟩ := List.append_of_mem ha
    have hwf0 := hwf
    rw [hl0] at hwf0
    rcases wf_pre Prod.fst c.numWires p0 a q0 _ hwf0 w hw with h | ⟨h, hh, rfl⟩
    · exact Or.inl h
    · right
      have hsub : List.Sublist [h, a] (glv c) := by
        rw [hl0]
        exact (List.singleton_sublist.mpr hh).append
          (List.singleton_sublist.mpr List.mem_cons_self)
      have hmono := levels_mono c hssa p0 a q0 hl0 h hh hw
      have hle : gKey h ≤ gKey a := by
        simp only [gKey, bump, if_true] at hmono ⊢
        by_cases h1 : h.1.op = .and <;> by_cases h2 : a.1.op = .and <;>
          simp [h1, h2] at hmono ⊢ <;> omega
      have hsub' := bucket_pair_sublist gKey (glv c) h a hsub hle (kmax c) (gKey_lt c a ha)
      rw [hl] at hsub' hnds
      exact ⟨h, mem_pre_of_pair_sublist h a pre post hsub' hnds, rfl⟩

theorem schedule_ssa (c : Circuit) (hssa : SSA c.numWires c.gates c.inputDefined) :
    SSA c.numWires (schedule c) c.inputDefined := by
  have hp := schedule_perm c hssa
  exact ⟨schedule_wf c hssa, ((hp.map _).nodup_iff).mpr hssa.2.1,
    fun g hg => hssa.2.2 g (hp.mem_iff.mp hg)⟩

/-- `gmw_level_schedule`: evaluating the gates in the order of `Network.run` gives every wire the value of
in-order evaluation. -/
theorem gmw_level_schedule (c : Circuit) (hssa : SSA c.numWires c.gates c.inputDefined) (x : List Bool) :
    ∀ w, (evalPlainGates (schedule c) (initStore c.numWires false (x.take c.nIn))).get w =
      (c.plainEval x).get w :=
  perm_eval c.numWires c.gates (schedule c) c.inputDefined _ (by simp [initStore]) hssa
    (schedule_perm c hssa) (schedule_wf c hssa)

/-! ### Independence of the AND batch -/

/-- A gate of level `i` reads no output of an AND gate of level `i`. -/
theorem and_level_indep (c : Circuit) (hssa : SSA c.numWires c.gates c.inputDefined) (i : Nat)
    (g h : Gate) (hg : (g, i) ∈ glv c) (hh : (h, i) ∈ glv c) (hop : h.op = .and)
    (w : Nat) (hw : w ∈ g.ins) : h.out ≠ w := by
  intro heq
  obtain ⟨p0, q0, hl0⟩ := List.append_of_mem hg
  have hwf0 : wfFrom c.numWires ((glv c).map Prod.fst) c.inputDefined = true := by
    rw [glv_map_fst]; exact hssa.1
  rw [hl0] at hwf0
  have hhg : h ∈ c.gates := glv_mem_gate c (h, i) hh
  rcases wf_pre Prod.fst c.numWires p0 (g, i) q0 _ hwf0 w hw with hd | ⟨h', hh', hout⟩
  · rw [← heq, hssa.2.2 h hhg] at hd
    exact Bool.false_ne_true hd
  · have hmem : h' ∈ glv c := by rw [hl0]; exact List.mem_append_left _ hh'
    have hq : h' = (h, i) :=
      eq_of_nodup_map (fun a => a.1.out) (glv c) (glv_nodup_out c hssa) h' hmem (h, i) hh
        (by simp only [hout, heq])
    subst hq
    have := levels_mono c hssa p0 (g, i) q0 hl0 (h, i) hh' (by simp only [heq]; exact hw)
    simp only [bump, hop, beq_self_eq_true, if_true] at this
    omega

/-- the AND gates of one level do not feed each other (nor themselves) -/
theorem blocks_indep (c : Circuit) (hssa : SSA c.numWires c.gates c.inputDefined) :
    ∀ b ∈ blocks c, ∀ g ∈ b.2, ∀ h ∈ b.2, h.out ≠ g.in0 ∧ h.out ≠ g.in1 := by
  intro b hb g hg h hh
  obtain ⟨i, rfl⟩ := mem_blocks c b hb
  obtain ⟨hgm, hgo⟩ := (mem_gatesAt _ _ _ _).mp hg
  obtain ⟨hhm, hho⟩ := (mem_gatesAt _ _ _ _).mp hh
  have hgo' : g.op = .and := by simpa using hgo
  have hho' : h.op = .and := by simpa using hho
  have hbin : g.op.binary = true := by rw [hgo']; rfl
  exact ⟨and_level_indep c hssa i g h hgm hhm hho' _ ((mem_ins _ _).mpr (Or.inl rfl)),
    and_level_indep c hssa i g h hgm hhm hho' _ ((mem_ins _ _).mpr (Or.inr ⟨hbin, rfl⟩))⟩

/-! ### Distinct outputs within a block -/

theorem nodup_filter_append {α β : Type} (f : α → β) (l : List α) (p q : α → Bool)
    (hnd : (l.map f).Nodup) (hpq : ∀ a ∈ l, p a = true → q a = true → False) :
    ((l.filter p ++ l.filter q).map f).Nodup := by
  rw [List.map_append, List.nodup_append]
  refine ⟨hnd.sublist (List.filter_sublist.map f), hnd.sublist (List.filter_sublist.map f), ?_⟩
  intro x hx y hy hxy
  obtain ⟨a, ha, rfl⟩ := List.mem_map.mp hx
  obtain ⟨b, hb, rfl⟩ := List.mem_map.mp hy
  rw [List.mem_filter] at ha hb
  have := eq_of_nodup_map f l hnd a ha.1 b hb.1 hxy
  subst this
  exact hpq a ha.1 ha.2 hb.2

/-- outputs within one block are pairwise distinct -/
theorem blocks_nodup (c : Circuit) (hssa : SSA c.numWires c.gates c.inputDefined) :
    ∀ b ∈ blocks c, ((b.1 ++ b.2).map (·.out)).Nodup := by
  intro b hb
  obtain ⟨i, rfl⟩ := mem_blocks c b hb
  simp only [gatesAt, ← List.map_append, List.map_map]
  refine nodup_filter_append _ _ _ _ (glv_nodup_out c hssa) ?_
  intro a _ h1 h2
  simp only [Bool.and_eq_true, beq_iff_eq] at h1 h2
  have h3 := h1.2
  simp only [h2.2, beq_self_eq_true] at h3
  exact Bool.noConfusion h3

end Mpc.Gmw

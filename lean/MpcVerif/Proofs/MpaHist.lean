/-
Helper lemmas for the operand-purity theorems of Props/C12.lean about histories of `mpa.Int` calls
(Model/MpaHist.lean): what one step does to the registers, and the frame of a step and of a history.
-/
import MpcVerif.Model.MpaHist

namespace Mpc.MpaHist
open Mpc.Mpa

/-- What a successful step does to the register list. -/
theorem step_cases {regs regs' : List MInt} {s : Step} (h : step regs s = some regs') :
    (s.op = .cmp ∧ regs' = regs) ∨
    (s.op ≠ .cmp ∧ ∃ b r, s.z = .fresh b ∧ regs' = regs ++ [r]) ∨
    (s.op ≠ .cmp ∧ ∃ i r, s.z = .reg i ∧ regs' = regs.set i r) := by
  unfold step at h
  cases hx : regs[s.x]? with
  | none => simp [hx] at h
  | some x =>
    cases hy : regs[s.y]? with
    | none => simp [hx, hy] at h
    | some y =>
      by_cases hop : s.op = .cmp
      · cases hc : Mpa.cmp x y with
        | none => simp [hx, hy, hop, hc] at h
        | some c => simp [hx, hy, hop, hc] at h; exact Or.inl ⟨hop, h.symm⟩
      · cases hz : s.z with
        | fresh b =>
          cases hn : Mpa.new b with
          | none => simp [hx, hy, hop, hz, hn] at h
          | some z =>
            cases hr : call s.op s.n false z x y with
            | none => simp [hx, hy, hop, hz, hn, hr] at h
            | some r => simp [hx, hy, hop, hz, hn, hr] at h; exact Or.inr (Or.inl ⟨hop, b, r, rfl, h.symm⟩)
        | reg i =>
          cases hn : regs[i]? with
          | none => simp [hx, hy, hop, hz, hn] at h
          | some z =>
            cases hr : call s.op s.n (i == s.x) z x y with
            | none => simp [hx, hy, hop, hz, hn, hr] at h
            | some r => simp [hx, hy, hop, hz, hn, hr] at h; exact Or.inr (Or.inr ⟨hop, i, r, rfl, h.symm⟩)

/-- A step never removes a register. -/
theorem step_length {regs regs' : List MInt} {s : Step} (h : step regs s = some regs') :
    regs.length ≤ regs'.length := by
  rcases step_cases h with ⟨_, h⟩ | ⟨_, _, _, _, h⟩ | ⟨_, _, _, _, h⟩ <;> subst h <;> simp

/-- **Frame of one call**: a register the step does not name as its receiver holds afterwards what it held
before — whether or not it is an operand of the call. -/
theorem step_frame {regs regs' : List MInt} {s : Step} (h : step regs s = some regs')
    (j : Nat) (hj : j < regs.length) (hw : s.writes j = false) : regs'[j]? = regs[j]? := by
  rcases step_cases h with ⟨_, h⟩ | ⟨_, _, _, _, h⟩ | ⟨hop, i, _, hz, h⟩ <;> subst h
  · rfl
  · exact List.getElem?_append_left hj
  · have hne : i ≠ j := by
      intro hij
      subst hij
      simp [Step.writes, hop, hz] at hw
    exact List.getElem?_set_ne hne

theorem run_length : ∀ {ss : List Step} {regs regs' : List MInt}, run regs ss = some regs' → regs.length ≤ regs'.length := by
  intro ss
  induction ss with
  | nil => intro regs regs' h; simp [run] at h; subst h; exact Nat.le_refl _
  | cons s rest ih =>
    intro regs regs' h
    cases hs : step regs s with
    | none => simp [run, hs] at h
    | some r1 =>
      simp [run, hs] at h
      exact Nat.le_trans (step_length hs) (ih h)

/-- **Frame of a history**: a register that no step of the history names as its receiver holds at the end
what it held at the start, however often it was an operand. -/
theorem run_frame : ∀ {ss : List Step} {regs regs' : List MInt}, run regs ss = some regs' →
    ∀ j, j < regs.length → (∀ s ∈ ss, s.writes j = false) → regs'[j]? = regs[j]? := by
  intro ss
  induction ss with
  | nil => intro regs regs' h j _ _; simp [run] at h; subst h; rfl
  | cons s rest ih =>
    intro regs regs' h j hj hw
    cases hs : step regs s with
    | none => simp [run, hs] at h
    | some r1 =>
      simp [run, hs] at h
      have h1 := step_frame hs j hj (hw s (by simp))
      have h2 := ih h j (Nat.lt_of_lt_of_le hj (step_length hs)) (fun s' hs' => hw s' (by simp [hs']))
      exact h2.trans h1

end Mpc.MpaHist

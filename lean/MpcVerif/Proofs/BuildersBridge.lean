/-
C07 bridge to the plain circuit evaluator of C01 (`Circuit.plainEval`, the
model of `circuit.Circuit.Compute`'s gate loop): on the gate list of a
well-formed builder state every wire gets the value `St.val` that the builder
theorems talk about.
-/
import MpcVerif.Proofs.Builders

namespace Mpc.Bld
open Mpc

/-- The builder state as a `Circuit` (outputs = the last `nOut` wires). -/
def St.toCircuit (s : St) (nOut : Nat) : Circuit :=
  { numWires := s.next, nIn := s.nIn, nOut := nOut, gates := s.gates.toList }

theorem bridge_aux (N : Nat) : ∀ (gs : List Gate) (S : Store Bool) (V : Array Bool),
    S.size = N → (∀ w, S.get w = V.getD w false) →
    (∀ k (h : k < gs.length), (gs[k]).out = V.size + k) → V.size + gs.length ≤ N →
    ∀ w, (evalPlainGates gs S).get w = (evalGates gs V).getD w false
  | [], S, V, _, hinv, _, _ => by
    intro w; simpa [evalPlainGates, evalGates] using hinv w
  | g :: gs, S, V, hS, hinv, hout, hN => by
    intro w
    simp only [evalPlainGates, evalGates, List.foldl_cons]
    have hg : g.out = V.size := by have := hout 0 (by simp); simpa using this
    have hlt : g.out < S.size := by simp only [List.length_cons] at hN; omega
    have := bridge_aux N gs (g.evalPlain S) (step V g) (by simp [Gate.evalPlain, hS]) ?_ ?_ ?_ w
    · simpa [evalPlainGates, evalGates] using this
    · intro w'
      simp only [Gate.evalPlain, step]
      rw [Store.get_set _ _ _ _ hlt, hinv g.in0, hinv g.in1]
      by_cases hw : g.out = w'
      · subst hw
        simp [Array.getD, Array.getElem_push, hg]
      · simp only [hw, if_false]
        rw [hinv w']
        simp only [Array.getD, Array.size_push, Array.getElem_push]
        by_cases h1 : w' < V.size
        · simp [h1, Nat.lt_succ_of_lt h1, Array.getElem_push]
        · have : ¬ w' < V.size + 1 := by omega
          simp [h1, this]
    · intro k hk
      have := hout (k + 1) (by simp; omega)
      simp only [List.getElem_cons_succ] at this
      simp only [step, Array.size_push]
      omega
    · simp only [step, Array.size_push, List.length_cons] at hN ⊢
      omega

/-- On the gate list of a well-formed builder state the C01 plain evaluator
assigns every wire the value `St.val`. -/
theorem plainEval_eq_val (s : St) (inp : List Bool) (hwf : WF s inp) (nOut : Nat) (w : Nat) :
    ((s.toCircuit nOut).plainEval inp).get w = s.val inp w := by
  simp only [Circuit.plainEval, St.toCircuit, St.val, St.vals]
  have hl := hwf.len
  apply bridge_aux s.next
  · simp [initStore]
  · intro w'
    simp only [initStore, Store.get]
    rw [List.take_of_length_le (by omega)]
    by_cases h : w' < s.next
    · simp [Array.getD, h, List.getD_eq_getElem?_getD]
      by_cases h2 : w' < inp.length
      · simp [h2]
      · simp [h2]
    · have h2 : ¬ w' < inp.length := by simp only [St.next] at h; omega
      simp [Array.getD, h, h2]
  · intro k hk
    have hk' : k < s.gates.size := by simpa using hk
    have := hwf.sl k hk'
    simp only [Array.getElem_toList, List.size_toArray]
    rw [this, hl]
  · simp [St.next, hl]

end Mpc.Bld

/-
Lemmas about the pool protocol under garbage collection (`Model/PoolGC.lean`)
for `Props/C17.lean`: with the code as it is (`fin = false`) every step of a GC
history is a step of the pool model or leaves the pool state alone; a garbling
whose header was dropped keeps exactly the handle record it had.  Core Lean only.
-/
import MpcVerif.Model.PoolGC
import MpcVerif.Proofs.Pool

namespace Mpc.Pool
variable {Mem Job : Type}

/-- Shape of a step of the model of the code as it is. -/
theorem gstep_false_cases (P : Params Mem Job) (γ γ' : GState Mem Job) (t : Tid) (a : GAction Job)
    (h : gstep? P false γ t a = some γ') :
    (∃ b, a = .base b ∧ step? P true γ.σ t b = some γ'.σ ∧ γ'.retained = γ.retained ∧
        (∀ hh, usesHeader b = some hh → γ.retained hh = none)) ∨
    (∃ hh H x, a = .dropHeader hh ∧ γ'.σ = γ.σ ∧ γ.σ.handle hh = some H ∧ H.user = none ∧
        H.pool.isSome = true ∧ H.scratch = some x ∧ γ.retained hh = none ∧
        γ'.retained = upd γ.retained hh (some x)) := by
  cases a with
  | base b =>
    left
    simp only [gstep?] at h
    cases hub : usesHeader b with
    | none =>
      simp only [hub] at h
      cases hs : step? P true γ.σ t b with
      | none => simp [hs] at h
      | some σ' =>
        simp only [hs] at h
        simp only [Bool.false_eq_true, if_false, Option.some.injEq] at h
        cases h
        exact ⟨b, rfl, hs, rfl, fun hh e => by rw [hub] at e; cases e⟩
    | some h0 =>
      simp only [hub] at h
      cases hr : γ.retained h0 with
      | some x => simp [hr] at h
      | none =>
        simp only [hr, Option.isSome_none, Bool.false_eq_true, if_false] at h
        cases hs : step? P true γ.σ t b with
        | none => simp [hs] at h
        | some σ' =>
          simp only [hs, Option.some.injEq] at h
          cases h
          exact ⟨b, rfl, hs, rfl, fun hh e => by rw [hub] at e; cases e; exact hr⟩
  | dropHeader hh =>
    right
    simp only [gstep?] at h
    split at h
    · rename_i H hpc hH
      split at h
      · contradiction
      · rename_i hc
        split at h
        · rename_i x hx
          cases h
          simp only [Bool.or_eq_true, Bool.not_eq_true', not_or] at hc
          refine ⟨hh, H, x, rfl, rfl, hH, ?_, ?_, hx, ?_, rfl⟩
          · cases hu : H.user with
            | none => rfl
            | some u => simp [hu] at hc
          · cases hp : H.pool.isSome with
            | true => rfl
            | false => simp [hp] at hc
          · cases hr : γ.retained hh with
            | none => rfl
            | some y => simp [hr] at hc
        · contradiction
    · contradiction
  | finalize hh => simp [gstep?] at h

/-- The collector has no transition: no finalizer is attached to a `*Garbled`. -/
theorem gstep_false_finalize (P : Params Mem Job) (γ : GState Mem Job) (t : Tid) (h : HandleId) :
    gstep? P false γ t (.finalize h) = none := by
  simp [gstep?]

/-- GC histories of the code as it is project onto runs of the pool model. -/
theorem greachable_proj (P : Params Mem Job) (γ : GState Mem Job) (hr : GReachable P false γ) :
    Reachable P true γ.σ := by
  induction hr with
  | init => exact .init
  | step t a _ hs ih =>
    rcases gstep_false_cases P _ _ t a hs with ⟨b, _, hb, _, _⟩ | ⟨hh, H, x, _, hσ, _⟩
    · exact .step t b ih hb
    · rw [hσ]; exact ih

theorem greachable_gsteps (P : Params Mem Job) (fin : Bool) (γ γ' : GState Mem Job)
    (hr : GReachable P fin γ) (hs : GSteps P fin γ γ') : GReachable P fin γ' := by
  induction hs with
  | refl => exact hr
  | tail t a _ h ih => exact .step t a ih h

theorem greachable_grunSched (P : Params Mem Job) (fin : Bool) (γ γ' : GState Mem Job)
    (l : List (Tid × GAction Job)) (hr : GReachable P fin γ) (h : grunSched P fin γ l = some γ') :
    GReachable P fin γ' := by
  induction l generalizing γ with
  | nil => simp only [grunSched] at h; cases h; exact hr
  | cons ta rest ih =>
    obtain ⟨t, a⟩ := ta
    simp only [grunSched] at h
    split at h
    · rename_i γ1 h1; exact ih γ1 (.step t a hr h1) h
    · contradiction

/-- A pool step that is not a method call on the header of `h` leaves the
record of a handle nobody is inside of exactly as it was. -/
theorem idle_handle_step (P : Params Mem Job) (σ σ' : State Mem Job) (hi : Inv P σ)
    (t : Tid) (b : Action Job) (h : HandleId) (H : Handle Mem Job)
    (hs : step? P true σ t b = some σ') (hH : σ.handle h = some H) (hu : H.user = none)
    (hb : usesHeader b ≠ some h) : σ'.handle h = some H := by
  have a15 := hi.hLt
  have a18 := hi.rPutOk
  have a19 := hi.rClearOk
  cases b <;> simp only [step?] at hs <;> (repeat' split at hs) <;> (try contradiction) <;>
    (try (cases hs; first | exact hH | (simp only [upd, usesHeader] at hb ⊢; grind)))

/-- The invariant that ties the collector's view to the pool state: a garbling
whose header was dropped still owns the scratch its retained slices alias, and
nobody is inside a method of it. -/
def RInv (γ : GState Mem Job) : Prop :=
  ∀ h x, γ.retained h = some x →
    ∃ H, γ.σ.handle h = some H ∧ H.owned = some x ∧ H.user = none

theorem rinv_step (P : Params Mem Job) (γ γ' : GState Mem Job) (t : Tid) (a : GAction Job)
    (hi : Inv P γ.σ) (hr : RInv γ) (hs : gstep? P false γ t a = some γ') : RInv γ' := by
  rcases gstep_false_cases P _ _ t a hs with ⟨b, _, hb, hret, hblk⟩ | ⟨hh, H, x, _, hσ, hH, hu, hp, hx, _, hret⟩
  · intro h x hx
    rw [hret] at hx
    obtain ⟨H, hH, ho, hu⟩ := hr h x hx
    refine ⟨H, idle_handle_step P _ _ hi t b h H hb hH hu ?_, ho, hu⟩
    intro e
    rw [hblk h e] at hx
    cases hx
  · intro h y hy
    rw [hret] at hy
    rw [hσ]
    simp only [upd] at hy
    split at hy
    · rename_i e
      cases hy
      subst e
      refine ⟨H, hH, ?_, hu⟩
      have hpd := hi.noUser h H hH hu
      simp [Handle.owned, hp, hpd, hx]
    · exact hr h y hy

theorem rinv_reachable (P : Params Mem Job) (γ : GState Mem Job) (hr : GReachable P false γ) :
    RInv γ := by
  induction hr with
  | init => intro h x hx; simp [ginit] at hx
  | step t a hr' hs ih =>
    exact rinv_step P _ _ t a (inv_reachable P _ (greachable_proj P _ hr')) ih hs

/-- Along every further GC history a dropped garbling stays dropped, on the same
scratch, with the very same handle record. -/
theorem retained_gsteps (P : Params Mem Job) (γ γ' : GState Mem Job)
    (hr : GReachable P false γ) (hs : GSteps P false γ γ')
    (h : HandleId) (x : ScratchId) (H : Handle Mem Job)
    (hx : γ.retained h = some x) (hH : γ.σ.handle h = some H) :
    γ'.retained h = some x ∧ γ'.σ.handle h = some H := by
  induction hs with
  | refl => exact ⟨hx, hH⟩
  | tail t a hs' hstep ih =>
    rename_i γm γe
    obtain ⟨hxm, hHm⟩ := ih
    have hrm := greachable_gsteps P false γ γm hr hs'
    have him := inv_reachable P _ (greachable_proj P _ hrm)
    obtain ⟨H2, hH2, _, hu2⟩ := rinv_reachable P γm hrm h x hxm
    rw [hHm] at hH2; cases hH2
    rcases gstep_false_cases P _ _ t a hstep with ⟨b, _, hb, hret, hblk⟩ | ⟨hh, H', y, _, hσ, _, _, _, _, hnone, hret⟩
    · refine ⟨by rw [hret]; exact hxm, idle_handle_step P _ _ him t b h H hb hHm hu2 ?_⟩
      intro e
      rw [hblk h e] at hxm
      cases hxm
    · refine ⟨?_, by rw [hσ]; exact hHm⟩
      rw [hret]
      simp only [upd]
      split
      · rename_i e; subst e; rw [hnone] at hxm; cases hxm
      · exact hxm

/-- The free list of a pool object grows only by `relPut` and `abort`. -/
theorem free_grows_only_by_put (P : Params Mem Job) (σ σ' : State Mem Job) (t : Tid) (b : Action Job)
    (hs : step? P true σ t b = some σ') (q : PoolId)
    (hg : (σ.free q).length < (σ'.free q).length) : b = .relPut ∨ b = .abort := by
  cases b <;> simp only [step?] at hs <;> (repeat' split at hs) <;> (try contradiction) <;>
    (try (cases hs; first | (exact absurd hg (Nat.lt_irrefl _)) | exact Or.inl rfl | exact Or.inr rfl))
  -- the remaining case is `getFree`: the list shrinks
  rename_i x _ j p hpc hmem
  cases hs
  exfalso
  simp only [upd] at hg
  split at hg
  · rename_i e
    subst e
    have := List.length_erase_of_mem hmem
    omega
  · exact absurd hg (Nat.lt_irrefl _)

end Mpc.Pool

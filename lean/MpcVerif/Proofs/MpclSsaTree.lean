/-
Return trees (`RTree`), their materialisation by phis (`RTree.mat`, the model
of ssa.Block.ReturnBinding) and the merge of the bindings of two branches
(`mergeE` / `joinN`, the model of ssa.Bindings.Merge).
-/
import MpcVerif.Proofs.MpclSsaAgg

namespace Mpc.Mpcl.Ssa
open Mpc.Mpcl

/-! ### Return trees -/

def RTree.Below (k : Nat) : RTree → Prop
  | .fall => True
  | .ret rs => ∀ p ∈ rs, p.1 < k
  | .br c t f => c < k ∧ t.Below k ∧ f.Below k

/-- The values at the leaves fit their widths. -/
def TreeBd (st : Nat → Nat) : RTree → Prop
  | .fall => True
  | .ret rs => ∀ p ∈ rs, st p.1 < 2 ^ p.2.bits
  | .br _ t f => TreeBd st t ∧ TreeBd st f

theorem RTree.Below.mono {k k' : Nat} : ∀ {t : RTree}, t.Below k → k ≤ k' → t.Below k'
  | .fall, _, _ => trivial
  | .ret _, h, hk => fun p hp => Nat.lt_of_lt_of_le (h p hp) hk
  | .br _ _ _, h, hk => ⟨Nat.lt_of_lt_of_le h.1 hk, h.2.1.mono hk, h.2.2.mono hk⟩

theorem map_congr_frame {k : Nat} {st st' : Nat → Nat} (hf : Frame k st st') :
    ∀ (rs : List (Nat × Ty)), (∀ p ∈ rs, p.1 < k) →
      rs.map (fun p => (st' p.1, p.2)) = rs.map (fun p => (st p.1, p.2))
  | [], _ => rfl
  | p :: r, h => by
    simp only [List.map_cons]
    rw [hf p.1 (h p (by simp)), map_congr_frame hf r (fun q hq => h q (List.mem_cons_of_mem _ hq))]

theorem RTree.eval_frame {k : Nat} {st st' : Nat → Nat} (hf : Frame k st st') :
    ∀ {t : RTree}, t.Below k → t.eval st' = t.eval st
  | .fall, _ => rfl
  | .ret rs, h => by simp only [RTree.eval]; rw [map_congr_frame hf rs h]
  | .br c t f, h => by
    simp only [RTree.eval]
    rw [hf c h.1, RTree.eval_frame hf h.2.1, RTree.eval_frame hf h.2.2]

theorem TreeBd.frame {k : Nat} {st st' : Nat → Nat} (hf : Frame k st st') :
    ∀ {t : RTree}, t.Below k → TreeBd st t → TreeBd st' t
  | .fall, _, _ => trivial
  | .ret _, hb, h => fun p hp => by rw [hf p.1 (hb p hp)]; exact h p hp
  | .br _ _ _, hb, h => ⟨TreeBd.frame hf hb.2.1 h.1, TreeBd.frame hf hb.2.2 h.2⟩

theorem RTree.eval_seq (st : Nat → Nat) : ∀ (t1 t2 : RTree),
    (t1.seq t2).eval st = match t1.eval st with
      | some r => some r
      | none => t2.eval st
  | .fall, t2 => by simp [RTree.seq, RTree.eval]
  | .ret rs, t2 => by simp [RTree.seq, RTree.eval]
  | .br c t f, t2 => by
    simp only [RTree.seq, RTree.eval]
    split
    · exact RTree.eval_seq st t t2
    · exact RTree.eval_seq st f t2

theorem RTree.Below_seq {k : Nat} : ∀ {t1 t2 : RTree}, t1.Below k → t2.Below k → (t1.seq t2).Below k
  | .fall, _, _, h2 => h2
  | .ret _, _, h1, _ => h1
  | .br _ _ _, _, h1, h2 => ⟨h1.1, RTree.Below_seq h1.2.1 h2, RTree.Below_seq h1.2.2 h2⟩

theorem TreeBd_seq {st : Nat → Nat} : ∀ {t1 t2 : RTree}, TreeBd st t1 → TreeBd st t2 → TreeBd st (t1.seq t2)
  | .fall, _, _, h2 => h2
  | .ret _, _, h1, _ => h1
  | .br _ _ _, _, h1, h2 => ⟨TreeBd_seq h1.1 h2, TreeBd_seq h1.2 h2⟩

/-! ### Phi -/

theorem phi_step (st : Nat → Nat) (c i j w k : Nat) :
    ssaSteps [⟨.phi, [.var c 1, .var i w, .var j w], some (k, w)⟩] st =
      some (fun x => if x = k then (if st c % 2 = 1 then st i else st j) % 2 ^ w else st x) := by
  apply ssaSteps_one_mk
  simp [argVal, SStore.get, evalOp]

theorem matPhis_sound (c : Nat) : ∀ (rt rf : List (Nat × Ty)) (k : Nat) (rs : List (Nat × Ty))
    (code : List SInstr) (k' : Nat) (st : Nat → Nat), matPhis c rt rf k = some (rs, code, k') →
    c < k → (∀ p ∈ rt, p.1 < k) → (∀ p ∈ rf, p.1 < k) →
    (∀ p ∈ rt, st p.1 < 2 ^ p.2.bits) → (∀ p ∈ rf, st p.1 < 2 ^ p.2.bits) →
    k ≤ k' ∧ NoRet code ∧ (∀ p ∈ rs, k ≤ p.1 ∧ p.1 < k') ∧
    ∃ st', ssaSteps code st = some st' ∧ Frame k st st' ∧
      rs.map (fun p => (st' p.1, p.2)) =
        (if st c % 2 = 1 then rt else rf).map (fun p => (st p.1, p.2)) ∧
      (∀ p ∈ rs, st' p.1 < 2 ^ p.2.bits)
  | [], [], k, rs, code, k', st, h, _, _, _, _, _ => by
    simp only [matPhis, Option.some.injEq, Prod.mk.injEq] at h
    obtain ⟨h1, h2, h3⟩ := h
    subst h1; subst h2; subst h3
    refine ⟨Nat.le_refl _, NoRet_nil, (fun p hp => by cases hp), st, rfl, Frame.refl _ _, (by split <;> rfl),
      (fun p hp => by cases hp)⟩
  | [], _ :: _, _, _, _, _, _, h, _, _, _, _, _ => by simp [matPhis] at h
  | _ :: _, [], _, _, _, _, _, h, _, _, _, _, _ => by simp [matPhis] at h
  | (i, tw) :: r, (j, tw') :: r', k, rs, code, k', st, h, hc, ht, hf, hbt, hbf => by
    simp only [matPhis] at h
    split at h
    · rename_i hw
      have hw' := tyEq_eq hw
      subst hw'
      generalize hwdef : tw.bits = w at *
      cases hm : matPhis c r r' (k + 1) with
      | none => simp [hm] at h
      | some q =>
        obtain ⟨rs2, code2, k2⟩ := q
        simp only [hm, Option.some.injEq, Prod.mk.injEq] at h
        obtain ⟨h1, h2, h3⟩ := h
        subst h1; subst h2; subst h3
        let st1 : Nat → Nat := fun x => if x = k then (if st c % 2 = 1 then st i else st j) % 2 ^ w else st x
        have hst1 : ssaSteps [⟨.phi, [.var c 1, .var i w, .var j w], some (k, w)⟩] st = some st1 := phi_step st c i j w k
        have hfr1 : Frame k st st1 := Frame_set (Nat.le_refl _)
        have hti : i < k := ht (i, tw) (by simp)
        have hfj : j < k := hf (j, tw) (by simp)
        obtain ⟨hk, hnr, hrs, st2, hrun2, hfr2, hmap, hbd⟩ :=
          matPhis_sound c r r' (k + 1) rs2 code2 k2 st1 hm (by omega)
            (fun p hp => by have := ht p (List.mem_cons_of_mem _ hp); omega)
            (fun p hp => by have := hf p (List.mem_cons_of_mem _ hp); omega)
            (fun p hp => by
              rw [hfr1 p.1 (ht p (List.mem_cons_of_mem _ hp))]; exact hbt p (List.mem_cons_of_mem _ hp))
            (fun p hp => by
              rw [hfr1 p.1 (hf p (List.mem_cons_of_mem _ hp))]; exact hbf p (List.mem_cons_of_mem _ hp))
        have hst2k : st2 k = (if st c % 2 = 1 then st i else st j) % 2 ^ w := by
          rw [hfr2 k (by omega)]; simp [st1]
        refine ⟨by omega, ?_, ?_, st2, ?_, ?_, ?_, ?_⟩
        · intro x hx
          rcases List.mem_cons.1 hx with e | e
          · subst e; simp
          · exact hnr x e
        · intro p hp
          rcases List.mem_cons.1 hp with e | e
          · subst e; exact ⟨Nat.le_refl _, by omega⟩
          · have := hrs p e; omega
        · have : (⟨.phi, [.var c 1, .var i w, .var j w], some (k, w)⟩ :: code2 : List SInstr) =
              [⟨.phi, [.var c 1, .var i w, .var j w], some (k, w)⟩] ++ code2 := rfl
          rw [this]
          exact ssaSteps_join hst1 hrun2
        · exact hfr1.trans hfr2 (by omega)
        · have hc1 : st1 c = st c := hfr1 c hc
          simp only [List.map_cons, hst2k, hmap, hc1]
          have hbi : st i < 2 ^ w := by have := hbt (i, tw) (by simp); simpa [hwdef] using this
          have hbj : st j < 2 ^ w := by have := hbf (j, tw) (by simp); simpa [hwdef] using this
          by_cases hcc : st c % 2 = 1
          · simp only [hcc, if_true, List.map_cons, Nat.mod_eq_of_lt hbi]
            congr 1
            exact map_congr_frame hfr1 r (fun p hp => ht p (List.mem_cons_of_mem _ hp))
          · simp only [hcc, if_false, List.map_cons, Nat.mod_eq_of_lt hbj]
            congr 1
            exact map_congr_frame hfr1 r' (fun p hp => hf p (List.mem_cons_of_mem _ hp))
        · intro p hp
          rcases List.mem_cons.1 hp with e | e
          · subst e; simp only [hwdef]; rw [hst2k]; exact Nat.mod_lt _ (two_pow_pos _)
          · exact hbd p e
    · cases h

/-- Materialising a tree without `fall` leaves: the phis are total and select
the leaf the store selects. -/
theorem mat_sound : ∀ (t : RTree) (k : Nat) (rs : List (Nat × Ty)) (code : List SInstr) (k' : Nat)
    (st : Nat → Nat), t.mat k = some (rs, code, k') → t.Below k → TreeBd st t →
    k ≤ k' ∧ NoRet code ∧ (∀ p ∈ rs, p.1 < k') ∧
    ∃ st' vals, ssaSteps code st = some st' ∧ Frame k st st' ∧ t.eval st = some vals ∧
      rs.map (fun p => (st' p.1, p.2)) = vals ∧ (∀ p ∈ rs, st' p.1 < 2 ^ p.2.bits)
  | .fall, _, _, _, _, _, h, _, _ => by simp [RTree.mat] at h
  | .ret rs0, k, rs, code, k', st, h, hb, hbd => by
    simp only [RTree.mat, Option.some.injEq, Prod.mk.injEq] at h
    obtain ⟨h1, h2, h3⟩ := h
    subst h1; subst h2; subst h3
    exact ⟨Nat.le_refl _, NoRet_nil, hb, st, _, rfl, Frame.refl _ _, rfl, rfl, hbd⟩
  | .br c t f, k, rs, code, k', st, h, hb, hbd => by
    simp only [RTree.mat] at h
    cases hmt : t.mat k with
    | none => simp [hmt] at h
    | some q1 =>
      obtain ⟨rt, ct, k1⟩ := q1
      simp only [hmt] at h
      cases hmf : f.mat k1 with
      | none => simp [hmf] at h
      | some q2 =>
        obtain ⟨rf, cf, k2⟩ := q2
        simp only [hmf] at h
        cases hmp : matPhis c rt rf k2 with
        | none => simp [hmp] at h
        | some q3 =>
          obtain ⟨rs3, cp, k3⟩ := q3
          simp only [hmp, Option.some.injEq, Prod.mk.injEq] at h
          obtain ⟨h1, h2, h3⟩ := h
          subst h1; subst h2; subst h3
          obtain ⟨hk1, hnr1, hrt, st1, v1, hrun1, hfr1, hev1, hmap1, hbd1⟩ :=
            mat_sound t k rt ct k1 st hmt hb.2.1 hbd.1
          obtain ⟨hk2, hnr2, hrf, st2, v2, hrun2, hfr2, hev2, hmap2, hbd2⟩ :=
            mat_sound f k1 rf cf k2 st1 hmf (hb.2.2.mono hk1) (TreeBd.frame hfr1 hb.2.2 hbd.2)
          have hbd1' : ∀ p ∈ rt, st2 p.1 < 2 ^ p.2.bits := fun p hp => by rw [hfr2 p.1 (hrt p hp)]; exact hbd1 p hp
          obtain ⟨hk3, hnr3, hrs3, st3, hrun3, hfr3, hmap3, hbd3⟩ :=
            matPhis_sound c rt rf k2 rs3 cp k3 st2 hmp (by have := hb.1; omega)
              (fun p hp => by have := hrt p hp; omega) hrf hbd1' hbd2
          have hc2 : st2 c = st c := by rw [hfr2 c (by have := hb.1; omega), hfr1 c hb.1]
          have hev2' : f.eval st = some v2 := by rw [← RTree.eval_frame hfr1 hb.2.2]; exact hev2
          have hmap1' : rt.map (fun p => (st2 p.1, p.2)) = v1 := by
            rw [map_congr_frame hfr2 rt hrt]; exact hmap1
          refine ⟨by omega, NoRet_append (NoRet_append hnr1 hnr2) hnr3, fun p hp => (hrs3 p hp).2,
            st3, if st c % 2 = 1 then v1 else v2, ?_, ?_, ?_, ?_, hbd3⟩
          · exact ssaSteps_join (ssaSteps_join hrun1 hrun2) hrun3
          · exact (hfr1.trans hfr2 hk1).trans hfr3 (by omega)
          · simp only [RTree.eval]; split <;> assumption
          · rw [hmap3, hc2]; split <;> assumption

/-! ### Merging bindings -/

theorem mergeB_sound (c : Nat) (b b' : Bind) (k : Nat) (b2 : Bind) (code : List SInstr) (k' : Nat)
    (h : mergeB c b b' k = some (b2, code, k')) (_hc : c < k) (hb : BelowB k b) (hb' : BelowB k b') :
    k ≤ k' ∧ NoRet code ∧ BelowB k' b2 ∧ ∀ st, ∃ st', ssaSteps code st = some st' ∧ Frame k st st' ∧
      (st c % 2 = 1 → ∀ v, BindRel st b v → BindRel st' b2 v) ∧
      (st c % 2 ≠ 1 → ∀ v, BindRel st b' v → BindRel st' b2 v) := by
  cases b with
  | val i t =>
    cases b' with
    | val j t' =>
      simp only [mergeB] at h
      split at h
      · rename_i hte
        have := tyEq_eq hte; subst this
        split at h
        · rename_i hij
          subst hij
          simp only [Option.some.injEq, Prod.mk.injEq] at h
          obtain ⟨h1, h2, h3⟩ := h
          subst h1; subst h2; subst h3
          exact ⟨Nat.le_refl _, NoRet_nil, hb, fun st => ⟨st, rfl, Frame.refl _ _, fun _ v hv => hv, fun _ v hv => hv⟩⟩
        · simp only [Option.some.injEq, Prod.mk.injEq] at h
          obtain ⟨h1, h2, h3⟩ := h
          subst h1; subst h2; subst h3
          refine ⟨by omega, NoRet_one (by simp), by simp [BelowB], fun st => ?_⟩
          refine ⟨_, phi_step st c i j t.bits k, Frame_set (Nat.le_refl _), ?_, ?_⟩
          · intro hcc v hv
            obtain ⟨hlt, hv'⟩ := hv
            exact ⟨by simp [hcc, Nat.mod_lt _ (two_pow_pos _)], by simp [hcc, Nat.mod_eq_of_lt hlt, hv']⟩
          · intro hcc v hv
            obtain ⟨hlt, hv'⟩ := hv
            exact ⟨by simp [hcc, Nat.mod_lt _ (two_pow_pos _)], by simp [hcc, Nat.mod_eq_of_lt hlt, hv']⟩
      · cases h
    | konst m => simp [mergeB] at h
  | konst n =>
    cases b' with
    | val j t' => simp [mergeB] at h
    | konst m =>
      simp only [mergeB] at h
      split at h
      · rename_i hnm
        subst hnm
        simp only [Option.some.injEq, Prod.mk.injEq] at h
        obtain ⟨h1, h2, h3⟩ := h
        subst h1; subst h2; subst h3
        exact ⟨Nat.le_refl _, NoRet_nil, trivial, fun st => ⟨st, rfl, Frame.refl _ _, fun _ v hv => hv, fun _ v hv => hv⟩⟩
      · cases h

theorem mergeS_sound (c : Nat) : ∀ (s s' : NScope) (k : Nat) (s2 : NScope) (code : List SInstr) (k' : Nat),
    mergeS c s s' k = some (s2, code, k') → c < k → BelowS k s → BelowS k s' →
    k ≤ k' ∧ NoRet code ∧ BelowS k' s2 ∧ ∀ st, ∃ st', ssaSteps code st = some st' ∧ Frame k st st' ∧
      (st c % 2 = 1 → ∀ sc, ScopeRel st s sc → ScopeRel st' s2 sc) ∧
      (st c % 2 ≠ 1 → ∀ sc, ScopeRel st s' sc → ScopeRel st' s2 sc)
  | [], [], k, s2, code, k', h, _, _, _ => by
    simp only [mergeS, Option.some.injEq, Prod.mk.injEq] at h
    obtain ⟨h1, h2, h3⟩ := h
    subst h1; subst h2; subst h3
    exact ⟨Nat.le_refl _, NoRet_nil, BelowS_nil _, fun st => ⟨st, rfl, Frame.refl _ _, fun _ sc h => h, fun _ sc h => h⟩⟩
  | [], _ :: _, _, _, _, _, h, _, _, _ => by simp [mergeS] at h
  | _ :: _, [], _, _, _, _, h, _, _, _ => by simp [mergeS] at h
  | (x, b) :: r, (y, b') :: r', k, s2, code, k', h, hc, hb, hb' => by
    simp only [mergeS] at h
    split at h
    · rename_i hxy
      subst hxy
      cases hm : mergeB c b b' k with
      | none => simp [hm] at h
      | some q =>
        obtain ⟨b2, c1, k1⟩ := q
        simp only [hm] at h
        cases hr : mergeS c r r' k1 with
        | none => simp [hr] at h
        | some q2 =>
          obtain ⟨r2, c2, k2⟩ := q2
          simp only [hr, Option.some.injEq, Prod.mk.injEq] at h
          obtain ⟨h1, h2, h3⟩ := h
          subst h1; subst h2; subst h3
          have hbr : BelowS k r := fun p hp => hb p (List.mem_cons_of_mem _ hp)
          have hbr' : BelowS k r' := fun p hp => hb' p (List.mem_cons_of_mem _ hp)
          obtain ⟨hk1, hnr1, hbl1, hs1⟩ := mergeB_sound c b b' k b2 c1 k1 hm hc (hb (x, b) (by simp)) (hb' (x, b') (by simp))
          obtain ⟨hk2, hnr2, hbl2, hs2⟩ := mergeS_sound c r r' k1 r2 c2 k2 hr (by omega)
            (fun p hp => (hbr p hp).mono hk1) (fun p hp => (hbr' p hp).mono hk1)
          refine ⟨by omega, NoRet_append hnr1 hnr2, BelowS.cons (hbl1.mono hk2) hbl2, fun st => ?_⟩
          obtain ⟨st1, hrun1, hfr1, ht1, hf1⟩ := hs1 st
          obtain ⟨st2, hrun2, hfr2, ht2, hf2⟩ := hs2 st1
          have hc1 : st1 c = st c := hfr1 c hc
          refine ⟨st2, ssaSteps_join hrun1 hrun2, hfr1.trans hfr2 hk1, ?_, ?_⟩
          · intro hcc sc hsc
            cases sc with
            | nil => exact hsc.elim
            | cons q sc' =>
              obtain ⟨z, v⟩ := q
              obtain ⟨e1, e2, e3⟩ := hsc
              exact ⟨e1, (ht1 hcc v e2).frame hbl1 hfr2, ht2 (by rw [hc1]; exact hcc) sc' (e3.frame hbr hfr1)⟩
          · intro hcc sc hsc
            cases sc with
            | nil => exact hsc.elim
            | cons q sc' =>
              obtain ⟨z, v⟩ := q
              obtain ⟨e1, e2, e3⟩ := hsc
              exact ⟨e1, (hf1 hcc v e2).frame hbl1 hfr2, hf2 (by rw [hc1]; exact hcc) sc' (e3.frame hbr' hfr1)⟩
    · cases h

theorem mergeE_sound (c : Nat) : ∀ (n n' : NEnv) (k : Nat) (n2 : NEnv) (code : List SInstr) (k' : Nat),
    mergeE c n n' k = some (n2, code, k') → c < k → Below k n → Below k n' →
    k ≤ k' ∧ NoRet code ∧ Below k' n2 ∧ ∀ st, ∃ st', ssaSteps code st = some st' ∧ Frame k st st' ∧
      (st c % 2 = 1 → ∀ env, Rel st n env → Rel st' n2 env) ∧
      (st c % 2 ≠ 1 → ∀ env, Rel st n' env → Rel st' n2 env)
  | [], [], k, n2, code, k', h, _, _, _ => by
    simp only [mergeE, Option.some.injEq, Prod.mk.injEq] at h
    obtain ⟨h1, h2, h3⟩ := h
    subst h1; subst h2; subst h3
    exact ⟨Nat.le_refl _, NoRet_nil, (fun _ h => by cases h),
      fun st => ⟨st, rfl, Frame.refl _ _, fun _ env h => h, fun _ env h => h⟩⟩
  | [], _ :: _, _, _, _, _, h, _, _, _ => by simp [mergeE] at h
  | _ :: _, [], _, _, _, _, h, _, _, _ => by simp [mergeE] at h
  | s :: r, s' :: r', k, n2, code, k', h, hc, hb, hb' => by
    simp only [mergeE] at h
    cases hm : mergeS c s s' k with
    | none => simp [hm] at h
    | some q =>
      obtain ⟨s2, c1, k1⟩ := q
      simp only [hm] at h
      cases hr : mergeE c r r' k1 with
      | none => simp [hr] at h
      | some q2 =>
        obtain ⟨r2, c2, k2⟩ := q2
        simp only [hr, Option.some.injEq, Prod.mk.injEq] at h
        obtain ⟨h1, h2, h3⟩ := h
        subst h1; subst h2; subst h3
        obtain ⟨hk1, hnr1, hbl1, hs1⟩ := mergeS_sound c s s' k s2 c1 k1 hm hc hb.head hb'.head
        obtain ⟨hk2, hnr2, hbl2, hs2⟩ := mergeE_sound c r r' k1 r2 c2 k2 hr (by omega) (hb.tail.mono hk1) (hb'.tail.mono hk1)
        refine ⟨by omega, NoRet_append hnr1 hnr2, Below.cons (fun p hp => (hbl1 p hp).mono hk2) hbl2, fun st => ?_⟩
        obtain ⟨st1, hrun1, hfr1, ht1, hf1⟩ := hs1 st
        obtain ⟨st2, hrun2, hfr2, ht2, hf2⟩ := hs2 st1
        have hc1 : st1 c = st c := hfr1 c hc
        refine ⟨st2, ssaSteps_join hrun1 hrun2, hfr1.trans hfr2 hk1, ?_, ?_⟩
        · intro hcc env henv
          cases env with
          | nil => exact henv.elim
          | cons sc env' =>
            exact ⟨(ht1 hcc sc henv.1).frame hbl1 hfr2, ht2 (by rw [hc1]; exact hcc) env' (henv.2.frame hb.tail hfr1)⟩
        · intro hcc env henv
          cases env with
          | nil => exact henv.elim
          | cons sc env' =>
            exact ⟨(hf1 hcc sc henv.1).frame hbl1 hfr2, hf2 (by rw [hc1]; exact hcc) env' (henv.2.frame hb'.tail hfr1)⟩

/-- Bindings after an `if`: the merge code is total; the result is related to
the environment of the branch the condition selects. -/
theorem joinN_sound (c : Nat) (nt nf : Option NEnv) (k : Nat) (nms : Option NEnv) (code : List SInstr) (k' : Nat)
    (h : joinN c nt nf k = some (nms, code, k')) (hc : c < k)
    (hbt : ∀ n, nt = some n → Below k n) (hbf : ∀ n, nf = some n → Below k n) :
    k ≤ k' ∧ NoRet code ∧ (∀ n, nms = some n → Below k' n) ∧
    ∀ st, ∃ st', ssaSteps code st = some st' ∧ Frame k st st' ∧
      (st c % 2 = 1 → ∀ n env, nt = some n → Rel st n env → ∃ n', nms = some n' ∧ Rel st' n' env) ∧
      (st c % 2 ≠ 1 → ∀ n env, nf = some n → Rel st n env → ∃ n', nms = some n' ∧ Rel st' n' env) ∧
      ((∀ n, nt = some n → ∃ env, Rel st n env) → (∀ n, nf = some n → ∃ env, Rel st n env) →
        ∀ n', nms = some n' → ∃ env, Rel st' n' env) := by
  cases nt with
  | some n1 =>
    cases nf with
    | some n2 =>
      simp only [joinN] at h
      cases hm : mergeE c n1 n2 k with
      | none => simp [hm] at h
      | some q =>
        obtain ⟨nm, cm, k2⟩ := q
        simp only [hm, Option.some.injEq, Prod.mk.injEq] at h
        obtain ⟨h1, h2, h3⟩ := h
        subst h1; subst h2; subst h3
        obtain ⟨hk, hnr, hbl, hs⟩ := mergeE_sound c n1 n2 k nm cm k2 hm hc (hbt n1 rfl) (hbf n2 rfl)
        refine ⟨hk, hnr, (fun n hn => by cases hn; exact hbl), fun st => ?_⟩
        obtain ⟨st', hrun, hfr, ht, hf⟩ := hs st
        refine ⟨st', hrun, hfr, ?_, ?_, ?_⟩
        · intro hcc n env hn henv; cases hn; exact ⟨nm, rfl, ht hcc env henv⟩
        · intro hcc n env hn henv; cases hn; exact ⟨nm, rfl, hf hcc env henv⟩
        · intro het hef n' hn'
          cases hn'
          by_cases hcc : st c % 2 = 1
          · obtain ⟨env, henv⟩ := het n1 rfl; exact ⟨env, ht hcc env henv⟩
          · obtain ⟨env, henv⟩ := hef n2 rfl; exact ⟨env, hf hcc env henv⟩
    | none =>
      simp only [joinN, Option.some.injEq, Prod.mk.injEq] at h
      obtain ⟨h1, h2, h3⟩ := h
      subst h1; subst h2; subst h3
      refine ⟨Nat.le_refl _, NoRet_nil, (fun n hn => by cases hn; exact hbt n1 rfl), fun st => ?_⟩
      refine ⟨st, rfl, Frame.refl _ _, ?_, ?_, ?_⟩
      · intro _ n env hn henv; cases hn; exact ⟨n1, rfl, henv⟩
      · intro _ n env hn _; cases hn
      · intro het _ n' hn'; cases hn'; exact het n1 rfl
  | none =>
    cases nf with
    | some n2 =>
      simp only [joinN, Option.some.injEq, Prod.mk.injEq] at h
      obtain ⟨h1, h2, h3⟩ := h
      subst h1; subst h2; subst h3
      refine ⟨Nat.le_refl _, NoRet_nil, (fun n hn => by cases hn; exact hbf n2 rfl), fun st => ?_⟩
      refine ⟨st, rfl, Frame.refl _ _, ?_, ?_, ?_⟩
      · intro _ n env hn _; cases hn
      · intro _ n env hn henv; cases hn; exact ⟨n2, rfl, henv⟩
      · intro _ hef n' hn'; cases hn'; exact hef n2 rfl
    | none =>
      simp only [joinN, Option.some.injEq, Prod.mk.injEq] at h
      obtain ⟨h1, h2, h3⟩ := h
      subst h1; subst h2; subst h3
      refine ⟨Nat.le_refl _, NoRet_nil, (fun n hn => by cases hn), fun st => ?_⟩
      refine ⟨st, rfl, Frame.refl _ _, ?_, ?_, ?_⟩
      · intro _ n env hn _; cases hn
      · intro _ n env hn _; cases hn
      · intro _ _ n' hn'; cases hn'

end Mpc.Mpcl.Ssa

/-
Safety of `Program.GC` for EVERY implementation of the liveness query that
answers against the CURRENT live set (`CurrentSound`), whatever state it keeps
between queries; and the tie of the stateless instance to `gcPassWith`.
-/
import MpcVerif.Model.GcQuery
import MpcVerif.Proofs.Gc

namespace Mpc.Gc

/-- The query is sound for the set it is asked about: answer `false` ("no
alias live") only if no value that points into `v` is in THAT set -- in every
state the query may be in. -/
def CurrentSound {σ : Type} (prog : List Step) (q : Query σ) : Prop :=
  ∀ st live v, (q st live v).1 = false →
    ∀ w, PointsInto prog w v → w ≠ v → live.contains w = false

/-! ## The live sets do not depend on the query -/

theorem scanInsQ_live {σ : Type} (q : Query σ) (al : Nat → List Nat) (ins : List Arg) (live : Live) (st : σ) :
    (scanInsQ q ins live st).1 = (scanIns al ins live).1 := by
  induction ins generalizing live st with
  | nil => rfl
  | cons a as ih =>
    simp only [scanInsQ, scanIns]
    split
    · exact ih live st
    · split
      · exact ih _ st
      · exact ih _ _

theorem gcBackQ_live {σ : Type} (q : Query σ) (al : Nat → List Nat) (rl : Live) (st0 : σ) (l : List Step) :
    (gcBackQ q rl st0 l).2.1 = liveOf al rl l := by
  induction l with
  | nil => rfl
  | cons s rest ih =>
    simp only [gcBackQ, liveOf, gcBack]
    rw [scanInsQ_live q al, ih]
    rfl

theorem gcBackQ_cons_fst {σ : Type} (q : Query σ) (rl : Live) (st0 : σ) (s : Step) (rest : List Step) :
    (gcBackQ q rl st0 (s :: rest)).1 =
      s :: ((scanInsQ q s.ins (gcBackQ q rl st0 rest).2.1 (gcBackQ q rl st0 rest).2.2).2.1.reverse ++
        (gcBackQ q rl st0 rest).1) := rfl

/-! ## The emitted `gc`s -/

/-- Every emitted `gc` is for a non-constant input that was not live after the
instruction and for which the query answered `false` against a set that
contains the set after the instruction; `R` is whatever the query's `false`
excludes from the set it is asked about. -/
theorem scanInsQ_gcs {σ : Type} (q : Query σ) (R : Nat → Nat → Prop)
    (hq : ∀ st live v, (q st live v).1 = false → ∀ w, R w v → live.contains w = false)
    (ins : List Arg) (live : Live) (st : σ) (g : Step) (hg : g ∈ (scanInsQ q ins live st).2.1) :
    ∃ a ∈ ins, g = gcStep a ∧ a.const = false ∧ live.contains a.id = false ∧
      ∀ w, R w a.id → live.contains w = false := by
  induction ins generalizing live st with
  | nil => simp [scanInsQ] at hg
  | cons b bs ih =>
    simp only [scanInsQ] at hg
    have hrest : ∀ st', g ∈ (scanInsQ q bs (b.id :: live) st').2.1 →
        ∃ a ∈ b :: bs, g = gcStep a ∧ a.const = false ∧ live.contains a.id = false ∧
          ∀ w, R w a.id → live.contains w = false := by
      intro st' h
      obtain ⟨a, ha, h1, h2, h3, h4⟩ := ih (b.id :: live) st' h
      refine ⟨a, List.mem_cons_of_mem _ ha, h1, h2, ?_, ?_⟩
      · cases hx : live.contains a.id
        · rfl
        · have : (b.id :: live).contains a.id = true := by
            simp at hx ⊢; exact Or.inr hx
          rw [this] at h3; cases h3
      · intro w hw
        cases hx : live.contains w
        · rfl
        · have : (b.id :: live).contains w = true := by
            simp at hx ⊢; exact Or.inr hx
          have h5 := h4 w hw
          rw [this] at h5; cases h5
    by_cases hb : b.const = true
    · simp only [hb, if_true] at hg
      obtain ⟨a, ha, h⟩ := ih live st hg
      exact ⟨a, List.mem_cons_of_mem _ ha, h⟩
    · simp only [hb, Bool.false_eq_true, if_false] at hg
      by_cases hl : live.contains b.id = true
      · simp only [hl, if_true] at hg
        exact hrest st hg
      · simp only [hl, Bool.false_eq_true, if_false] at hg
        by_cases hans : (q st live b.id).1 = true
        · simp only [hans, if_true] at hg
          exact hrest _ hg
        · simp only [hans, Bool.false_eq_true, if_false] at hg
          rcases List.mem_cons.mp hg with rfl | hmem
          · refine ⟨b, List.mem_cons_self, rfl, by simpa using hb, by simpa using hl, ?_⟩
            exact hq st live b.id (by simpa using hans)
          · exact hrest _ hmem

/-- Non-`gc` members of the result are members of the input. -/
theorem mem_gcBackQ {σ : Type} (q : Query σ) (rl : Live) (st0 : σ) (l : List Step) (t : Step)
    (ht : t ∈ (gcBackQ q rl st0 l).1) (hop : t.op ≠ .gc) : t ∈ l := by
  induction l with
  | nil => simp [gcBackQ] at ht
  | cons s rest ih =>
    rw [gcBackQ_cons_fst] at ht
    rcases List.mem_cons.mp ht with rfl | h
    · exact List.mem_cons_self
    · rcases List.mem_append.mp h with h | h
      · obtain ⟨a, _, hg, _⟩ := scanInsQ_gcs q (fun _ _ => False) (by intro _ _ _ _ _ h; cases h) _ _ _ t
          (List.mem_reverse.mp h)
        rw [hg] at hop
        exact absurd rfl hop
      · exact List.mem_cons_of_mem _ (ih h)

/-! ## Safety for every current-sound query -/

theorem gcBackQ_covered {σ : Type} (prog : List Step) (q : Query σ) (rl : Live) (st0 : σ)
    (hnogc : ∀ s ∈ prog, s.op ≠ .gc) (hssa : (outs prog).Nodup) (hq : CurrentSound prog q) :
    ∀ (pre0 l : List Step), prog = pre0 ++ l → dbu l = true →
    ∀ pre post g, (gcBackQ q rl st0 l).1 = pre ++ g :: post → g.op = .gc →
      ∃ a, g = gcStep a ∧ a.const = false ∧
        ∀ t ∈ post, t.op ≠ .gc → ∀ b ∈ t.ins, b.const = false → ¬ PointsInto prog b.id a.id := by
  have hq' : ∀ st live v, (q st live v).1 = false →
      ∀ w, (PointsInto prog w v ∧ w ≠ v) → live.contains w = false :=
    fun st live v h w hw => hq st live v h w hw.1 hw.2
  let al0 : Nat → List Nat := fun _ => []
  intro pre0 l
  induction l generalizing pre0 with
  | nil =>
    intro _ _ pre post g h
    simp [gcBackQ] at h
  | cons s rest ih =>
    intro hprog hdbu pre post g hsplit hgop
    have hdbu' : dbu rest = true := by
      simp only [dbu, Bool.and_eq_true] at hdbu; exact hdbu.2
    have hsin : ∀ a ∈ s.ins, a.const = false → a.id ∉ outs (s :: rest) := by
      intro a ha hc
      simp only [dbu, Bool.and_eq_true, List.all_eq_true] at hdbu
      have := hdbu.1 a ha
      simp only [hc, Bool.false_or, Bool.not_eq_true', List.contains_eq_mem,
        decide_eq_false_iff_not] at this
      exact this
    have hprog' : prog = (pre0 ++ [s]) ++ rest := by simp [hprog]
    rw [gcBackQ_cons_fst] at hsplit
    cases pre with
    | nil =>
      simp only [List.nil_append, List.cons.injEq] at hsplit
      have : s.op ≠ .gc := hnogc s (by simp [hprog])
      rw [hsplit.1] at this
      exact absurd hgop this
    | cons p pre' =>
      simp only [List.cons_append, List.cons.injEq] at hsplit
      obtain ⟨_, hsplit⟩ := hsplit
      rcases List.append_eq_append_iff.mp hsplit with ⟨m, hm1, hm2⟩ | ⟨m, hm1, hm2⟩
      · exact ih (pre0 ++ [s]) hprog' hdbu' m post g hm2 hgop
      · cases m with
        | nil =>
          simp only [List.nil_append] at hm2
          exact ih (pre0 ++ [s]) hprog' hdbu' [] post g (by simpa using hm2.symm) hgop
        | cons g' m' =>
          simp only [List.cons_append, List.cons.injEq] at hm2
          obtain ⟨hgg, hpost⟩ := hm2
          subst hgg
          have hgmem : g ∈ (scanInsQ q s.ins (gcBackQ q rl st0 rest).2.1 (gcBackQ q rl st0 rest).2.2).2.1 := by
            apply List.mem_reverse.mp
            rw [hm1]; simp
          obtain ⟨a, ha, hga, hac, hlive, halias⟩ :=
            scanInsQ_gcs q (fun w v => PointsInto prog w v ∧ w ≠ v) hq' _ _ _ g hgmem
          rw [gcBackQ_live q al0] at hlive halias
          refine ⟨a, hga, hac, ?_⟩
          have ha_undef : a.id ∉ outs rest := by
            intro h
            apply hsin a ha hac
            obtain ⟨d, hd, hdo⟩ := mem_outs.mp h
            exact mem_outs.mpr ⟨d, List.mem_cons_of_mem _ hd, hdo⟩
          have key : ∀ w v, PointsInto prog w v → v = a.id →
              ¬ (∃ t ∈ rest, ∃ b ∈ t.ins, b.const = false ∧ b.id = w) := by
            intro w v hp
            induction hp with
            | self v _ =>
              intro hv hread
              subst hv
              have := live_complete al0 rl rest a.id hread ha_undef
              rw [hlive] at this; cases this
            | step d x w v hd hrw hout hx hxc hrec ihp =>
              intro hv hread
              subst hv
              by_cases hwa : w = a.id
              · subst hwa
                have := live_complete al0 rl rest a.id hread ha_undef
                rw [hlive] at this; cases this
              · have hwdead := halias w ⟨PointsInto.step d x w a.id hd hrw hout hx hxc hrec, hwa⟩
                by_cases hwdef : w ∈ outs rest
                · have hdrest : d ∈ rest := by
                    rw [hprog'] at hd
                    rcases List.mem_append.mp hd with h | h
                    · exfalso
                      rw [hprog', outs_append] at hssa
                      have hdis := (List.nodup_append.mp hssa).2.2
                      exact hdis w (mem_outs.mpr ⟨d, h, hout⟩) w hwdef rfl
                    · exact h
                  exact ihp rfl ⟨d, hdrest, x, hx, hxc, rfl⟩
                · have := live_complete al0 rl rest w hread hwdef
                  rw [hwdead] at this; cases this
          intro t ht htop b hb hbc hpt
          have htrest : t ∈ rest := by
            rw [hpost] at ht
            rcases List.mem_append.mp ht with h | h
            · have hin : t ∈ (scanInsQ q s.ins (gcBackQ q rl st0 rest).2.1 (gcBackQ q rl st0 rest).2.2).2.1 := by
                apply List.mem_reverse.mp
                rw [hm1]; simp [h]
              obtain ⟨a2, _, hg2, _⟩ := scanInsQ_gcs q (fun _ _ => False) (by intro _ _ _ _ _ h; cases h) _ _ _ t hin
              rw [hg2] at htop
              exact absurd rfl htop
            · exact mem_gcBackQ q rl st0 rest t h htop
          exact key b.id a.id hpt rfl ⟨t, htrest, b, hb, hbc, rfl⟩

/-- Safety of the pass for every current-sound query and every initial state
of the query. -/
theorem gcPassQ_safe {σ : Type} (q : Query σ) (st0 : σ) (prog out : List Step) (hwf : WF prog)
    (hq : CurrentSound prog q) (hgc : gcPassQ q st0 prog = some out) : Safe prog out := by
  unfold gcPassQ at hgc
  cases hlast : prog.getLast? with
  | none => rw [hlast] at hgc; cases hgc
  | some last =>
    rw [hlast] at hgc
    simp only at hgc
    split at hgc
    · cases hgc
    · simp only [Option.some.injEq] at hgc
      intro pre post g hsplit hgop a ha t ht htop b hb hbc hpt
      obtain ⟨a0, hg0, _, hsafe⟩ := gcBackQ_covered prog q (last.ins.map (·.id)) st0
        hwf.nogc hwf.ssa hq [] prog rfl hwf.dbu pre post g (by rw [hgc]; exact hsplit) hgop
      have haa : a = a0 := by
        rw [hg0] at ha
        simpa [gcStep] using ha
      subst haa
      exact hsafe t ht htop b hb hbc hpt

/-! ## The stateless instance is `gcPassWith` -/

theorem scanInsQ_table (al : Nat → List Nat) (ins : List Arg) (live : Live) :
    (scanInsQ (tableQuery al) ins live ()).2.1 = (scanIns al ins live).2 := by
  induction ins generalizing live with
  | nil => rfl
  | cons a as ih =>
    simp only [scanInsQ, scanIns]
    split
    · exact ih live
    · rename_i hc
      by_cases hl : live.contains a.id = true
      · simp only [hl, if_true, Bool.not_true, Bool.false_and, Bool.false_eq_true, if_false]
        exact ih _
      · simp only [hl, Bool.false_eq_true, if_false, tableQuery]
        have hl' : live.contains a.id = false := by simpa using hl
        rw [ih]
        by_cases hany : (al a.id).any (List.contains live) = true
        · simp [hany]
        · simp [hany]

theorem gcBackQ_table (al : Nat → List Nat) (rl : Live) (l : List Step) :
    (gcBackQ (tableQuery al) rl () l).1 = (gcBack al rl l).1 := by
  induction l with
  | nil => rfl
  | cons s rest ih =>
    rw [gcBackQ_cons_fst, gcBack_cons_fst, ih, gcBackQ_live (tableQuery al) al, scanInsQ_table]

theorem gcPassQ_table (al : Nat → List Nat) (prog : List Step) :
    gcPassQ (tableQuery al) () prog = gcPassWith al prog := by
  unfold gcPassQ gcPassWith
  cases prog.getLast? with
  | none => rfl
  | some last =>
    simp only
    split
    · rfl
    · rw [gcBackQ_table]

/-- The closure of `Program.GC` as it is answers against the current set. -/
theorem tableQuery_currentSound (prog : List Step) (hdbu : dbu prog = true) :
    CurrentSound prog (tableQuery (aliasClosure (aliasesOf prog) prog.length)) := by
  intro _ live v h w hp hne
  simp only [tableQuery, List.any_eq_false] at h
  have := h w (closure_covers prog hdbu w v hp hne)
  simpa using this

end Mpc.Gc

/-
C09 / C10: reordering a single-assignment circuit by any topological order
leaves evaluation unchanged; the level sorts of `Compiler.Compile` and of the
GMW evaluator are topological.
-/
import MpcVerif.Proofs.Equiv
import MpcVerif.Model.Levels

set_option linter.unusedSimpArgs false

namespace Mpc

/-! ### Two stores that satisfy the same gate equations agree -/

theorem definedAfter_iff (gs : List Gate) : ∀ (d : Nat → Bool) (w : Nat),
    definedAfter gs d w = true ↔ d w = true ∨ ∃ g ∈ gs, g.out = w := by
  induction gs with
  | nil => intro d w; simp [definedAfter]
  | cons g gs ih =>
    intro d w
    simp only [definedAfter]
    rw [ih]
    simp only [Bool.or_eq_true, beq_iff_eq, List.mem_cons, exists_eq_or_imp]
    constructor
    · rintro ((h | h) | h)
      · exact Or.inr (Or.inl h.symm)
      · exact Or.inl h
      · exact Or.inr (Or.inr h)
    · rintro (h | h | h)
      · exact Or.inl (Or.inr h)
      · exact Or.inl (Or.inl h.symm)
      · exact Or.inr h

theorem wfFrom_cons (n : Nat) (g : Gate) (gs : List Gate) (d : Nat → Bool)
    (h : wfFrom n (g :: gs) d = true) :
    d g.in0 = true ∧ (g.op.binary = true → d g.in1 = true) ∧ g.in0 < n ∧
    (g.op.binary = true → g.in1 < n) ∧ g.out < n ∧
    wfFrom n gs (fun w => w == g.out || d w) = true := by
  simp only [wfFrom, Bool.and_eq_true, Bool.or_eq_true, Bool.not_eq_true', decide_eq_true_eq] at h
  obtain ⟨⟨⟨⟨⟨hd0, hd1⟩, hlt0⟩, hlt1⟩, hlto⟩, hwf'⟩ := h
  refine ⟨hd0, fun hb => ?_, hlt0, fun hb => ?_, hlto, hwf'⟩
  · rcases hd1 with h | h
    · rw [hb] at h; exact absurd h (by decide)
    · exact h
  · rcases hlt1 with h | h
    · rw [hb] at h; exact absurd h (by decide)
    · exact h

theorem sem_agree (n : Nat) (s1 s2 : Store Bool) : ∀ (gs : List Gate) (d : Nat → Bool),
    wfFrom n gs d = true → Sem s1 gs → Sem s2 gs → (∀ w, d w = true → s1.get w = s2.get w) →
    ∀ w, definedAfter gs d w = true → s1.get w = s2.get w := by
  intro gs
  induction gs with
  | nil => intro d _ _ _ hd w hw; exact hd w hw
  | cons g gs ih =>
    intro d hwf h1 h2 hd w hw
    obtain ⟨hd0, hd1, _, _, _, hwf'⟩ := wfFrom_cons _ _ _ _ hwf
    simp only [definedAfter] at hw
    refine ih _ hwf' (fun g' hg' => h1 g' (List.mem_cons_of_mem _ hg'))
      (fun g' hg' => h2 g' (List.mem_cons_of_mem _ hg')) ?_ w hw
    intro w' hw'
    simp only [Bool.or_eq_true, beq_iff_eq] at hw'
    rcases hw' with rfl | hw'
    · rw [h1 g List.mem_cons_self, h2 g List.mem_cons_self, hd _ hd0]
      cases hb : g.op.binary
      · exact Op.eval_unary _ hb _ _ _
      · rw [hd _ (hd1 hb)]
    · exact hd w' hw'

/-- Any two single-assignment, topologically ordered arrangements of the same
gates evaluate every wire to the same value. -/
theorem perm_eval (n : Nat) (gs gs' : List Gate) (d : Nat → Bool) (s : Store Bool)
    (hs : s.size = n) (h1 : SSA n gs d) (hp : gs'.Perm gs) (hwf' : wfFrom n gs' d = true) :
    ∀ w, (evalPlainGates gs' s).get w = (evalPlainGates gs s).get w := by
  have h2 : SSA n gs' d :=
    ⟨hwf', ((hp.map _).nodup_iff).mpr h1.2.1, fun g hg => h1.2.2 g (hp.mem_iff.mp hg)⟩
  obtain ⟨hk1, hsem1⟩ := ssa_sem n gs d s hs h1
  obtain ⟨hk2, hsem2⟩ := ssa_sem n gs' d s hs h2
  intro w
  by_cases hw : definedAfter gs d w = true
  · refine sem_agree n _ _ gs d h1.1 (fun g hg => hsem2 g (hp.mem_iff.mpr hg)) hsem1 ?_ w hw
    intro w' hw'
    rw [hk1 w' hw', hk2 w' hw']
  · rw [definedAfter_iff] at hw
    have hno : ∀ g ∈ gs, g.out ≠ w := fun g hg h => hw (Or.inr ⟨g, hg, h⟩)
    rw [evalPlainGates_frame gs w s hno,
      evalPlainGates_frame gs' w s (fun g hg => hno g (hp.mem_iff.mp hg))]

/-! ### Topological order in terms of list positions -/

section SortSec
variable {α : Type} (gate : α → Gate)

theorem mem_ins (g : Gate) (w : Nat) :
    w ∈ g.ins ↔ w = g.in0 ∨ (g.op.binary = true ∧ w = g.in1) := by
  unfold Gate.ins
  cases g.op.binary <;> simp

/-- In a well-formed list every gate input is initially defined or produced
by an earlier gate. -/
theorem wf_pre (n : Nat) : ∀ (pre : List α) (a : α) (post : List α) (d : Nat → Bool),
    wfFrom n ((pre ++ a :: post).map gate) d = true →
    ∀ w ∈ (gate a).ins, d w = true ∨ ∃ h ∈ pre, (gate h).out = w := by
  intro pre
  induction pre with
  | nil =>
    intro a post d hwf w hw
    simp only [List.nil_append, List.map_cons] at hwf
    obtain ⟨hd0, hd1, _⟩ := wfFrom_cons _ _ _ _ hwf
    rw [mem_ins] at hw
    rcases hw with rfl | ⟨hb, rfl⟩
    · exact Or.inl hd0
    · exact Or.inl (hd1 hb)
  | cons p pre ih =>
    intro a post d hwf w hw
    simp only [List.cons_append, List.map_cons] at hwf
    obtain ⟨_, _, _, _, _, hwf'⟩ := wfFrom_cons _ _ _ _ hwf
    rcases ih a post _ hwf' w hw with h | ⟨h, hh, rfl⟩
    · simp only [Bool.or_eq_true, beq_iff_eq] at h
      rcases h with rfl | h
      · exact Or.inr ⟨p, List.mem_cons_self, rfl⟩
      · exact Or.inl h
    · exact Or.inr ⟨h, List.mem_cons_of_mem _ hh, rfl⟩

theorem wf_bounds (n : Nat) : ∀ (gs : List Gate) (d : Nat → Bool), wfFrom n gs d = true →
    ∀ g ∈ gs, (∀ w ∈ g.ins, w < n) ∧ g.out < n := by
  intro gs
  induction gs with
  | nil => intro d _ g hg; simp at hg
  | cons g gs ih =>
    intro d hwf g' hg'
    obtain ⟨_, _, h0, h1, ho, hwf'⟩ := wfFrom_cons _ _ _ _ hwf
    rcases List.mem_cons.mp hg' with rfl | hg'
    · refine ⟨fun w hw => ?_, ho⟩
      rw [mem_ins] at hw
      rcases hw with rfl | ⟨hb, rfl⟩
      · exact h0
      · exact h1 hb
    · exact ih _ hwf' g' hg'

/-- Conversely: if every gate input is initially defined or produced by an
earlier gate (and indices are in range) the list is well-formed. -/
theorem wf_of_pre (n : Nat) : ∀ (l : List α) (d : Nat → Bool),
    (∀ a ∈ l, (∀ w ∈ (gate a).ins, w < n) ∧ (gate a).out < n) →
    (∀ pre a post, l = pre ++ a :: post →
      ∀ w ∈ (gate a).ins, d w = true ∨ ∃ h ∈ pre, (gate h).out = w) →
    wfFrom n (l.map gate) d = true := by
  intro l
  induction l with
  | nil => intro d _ _; rfl
  | cons a l ih =>
    intro d hb hpre
    have hb' := hb a List.mem_cons_self
    have h0 : ∀ w ∈ (gate a).ins, d w = true := by
      intro w hw
      rcases hpre [] a l rfl w hw with h | ⟨h, hh, _⟩
      · exact h
      · simp at hh
    simp only [List.map_cons, wfFrom, Bool.and_eq_true, Bool.or_eq_true, Bool.not_eq_true',
      decide_eq_true_eq]
    refine ⟨⟨⟨⟨⟨h0 _ ((mem_ins _ _).mpr (Or.inl rfl)), ?_⟩,
      hb'.1 _ ((mem_ins _ _).mpr (Or.inl rfl))⟩, ?_⟩, hb'.2⟩, ?_⟩
    · cases hbin : (gate a).op.binary
      · exact Or.inl rfl
      · exact Or.inr (h0 _ ((mem_ins _ _).mpr (Or.inr ⟨hbin, rfl⟩)))
    · cases hbin : (gate a).op.binary
      · exact Or.inl rfl
      · exact Or.inr (hb'.1 _ ((mem_ins _ _).mpr (Or.inr ⟨hbin, rfl⟩)))
    · refine ih _ (fun a' ha' => hb a' (List.mem_cons_of_mem _ ha')) ?_
      intro pre a' post hl w hw
      rcases hpre (a :: pre) a' post (by rw [hl]; rfl) w hw with h | ⟨h, hh, rfl⟩
      · exact Or.inl (by simp [h])
      · rcases List.mem_cons.mp hh with rfl | hh
        · exact Or.inl (by simp)
        · exact Or.inr ⟨h, hh, rfl⟩

/-- In a duplicate-free list `pre ++ a :: post`, an element that occurs
before `a` as a sublist pair lies in `pre`. -/
theorem mem_pre_of_pair_sublist (h a : α) (pre post : List α)
    (hsub : List.Sublist [h, a] (pre ++ a :: post)) (hnd : (pre ++ a :: post).Nodup) : h ∈ pre := by
  rw [List.nodup_append] at hnd
  obtain ⟨_, hnd2, hdisj⟩ := hnd
  rw [List.nodup_cons] at hnd2
  have hne : h ≠ a := by
    have := List.Nodup.sublist hsub (List.nodup_append.mpr ⟨‹_›, List.nodup_cons.mpr hnd2, hdisj⟩)
    simp only [List.nodup_cons, List.mem_singleton] at this
    exact this.1
  rw [List.sublist_append_iff] at hsub
  obtain ⟨l1, l2, heq, hs1, hs2⟩ := hsub
  match l1, heq, hs1 with
  | [], heq, _ =>
    simp only [List.nil_append] at heq
    subst heq
    rw [List.sublist_cons_iff] at hs2
    rcases hs2 with hs2 | ⟨r, hr, _⟩
    · exact absurd (hs2.subset (by simp)) hnd2.1
    · simp only [List.cons.injEq] at hr
      exact absurd hr.1 hne
  | [x], heq, hs1 =>
    simp only [List.cons_append, List.nil_append, List.cons.injEq] at heq
    obtain ⟨rfl, _⟩ := heq
    exact hs1.subset (by simp)
  | x :: y :: r, heq, hs1 =>
    simp only [List.cons_append, List.cons.injEq] at heq
    obtain ⟨rfl, rfl, _⟩ := heq
    have hy : a ∈ pre := hs1.subset (by simp)
    exact absurd rfl (hdisj a hy a List.mem_cons_self)

/-- **Sorting theorem.**  Let `l` be a single-assignment, topologically
ordered gate list (with attached data) and `le` a total preorder such that
every producer is `le` its consumers.  Then the stable merge sort by `le` is
again topologically ordered. -/
theorem sort_topological (n : Nat) (le : α → α → Bool)
    (trans : ∀ (a b c : α), le a b → le b c → le a c)
    (total : ∀ (a b : α), le a b || le b a)
    (l : List α) (d : Nat → Bool) (hssa : SSA n (l.map gate) d)
    (hdep : ∀ h a, List.Sublist [h, a] l → (gate h).out ∈ (gate a).ins → le h a = true) :
    wfFrom n ((l.mergeSort le).map gate) d = true := by
  have hperm := List.mergeSort_perm l le
  have hndl : l.Nodup := by
    have := hssa.2.1
    rw [List.map_map] at this
    exact List.Pairwise.of_map _ (fun a b hab h => hab (by rw [h])) this
  have hnds : (l.mergeSort le).Nodup := (hperm.nodup_iff).mpr hndl
  have hbl := wf_bounds n _ d hssa.1
  apply wf_of_pre gate n
  · intro a ha
    exact hbl (gate a) (List.mem_map_of_mem (hperm.mem_iff.mp ha))
  · intro pre a post hl w hw
    have ha : a ∈ l := hperm.mem_iff.mp (by rw [hl]; simp)
    obtain ⟨p0, q0, hl0⟩ := List.append_of_mem ha
    have hwf0 := hssa.1
    rw [hl0] at hwf0
    rcases wf_pre gate n p0 a q0 d hwf0 w hw with h | ⟨h, hh, rfl⟩
    · exact Or.inl h
    · right
      have hsub : List.Sublist [h, a] l := by
        rw [hl0]
        have h1 : List.Sublist [h] p0 := List.singleton_sublist.mpr hh
        have h2 : List.Sublist [a] (a :: q0) := List.singleton_sublist.mpr List.mem_cons_self
        exact h1.append h2
      have hle := hdep h a hsub hw
      have hsub' := List.pair_sublist_mergeSort trans total hle hsub
      rw [hl] at hsub' hnds
      exact ⟨h, mem_pre_of_pair_sublist h a pre post hsub' hnds, rfl⟩

end SortSec

/-! ### The two level orders are total preorders given by a numeric key -/

def cKey (a : Gate × Nat) : Nat := 2 * a.2 + (if a.1.op = .and then 0 else 1)
def gKey (a : Gate × Nat) : Nat := 2 * a.2 + (if a.1.op = .and then 1 else 0)

theorem compileLe_iff (a b : Gate × Nat) : compileLe a b = true ↔ cKey a ≤ cKey b := by
  simp only [compileLe, compileLess, cKey, Bool.not_eq_true', Bool.or_eq_false_iff,
    Bool.and_eq_false_iff, decide_eq_false_iff_not, beq_eq_false_iff_ne, bne_eq_false_iff_eq, ne_eq,
    beq_iff_eq, bne_iff_ne, Nat.not_lt]
  by_cases ha : a.1.op = .and <;> by_cases hb : b.1.op = .and <;> simp [ha, hb] <;> omega

theorem gmwLe_iff (a b : Gate × Nat) : gmwLe a b = true ↔ gKey a ≤ gKey b := by
  simp only [gmwLe, gmwLess, gKey, Bool.not_eq_true', Bool.or_eq_false_iff,
    Bool.and_eq_false_iff, decide_eq_false_iff_not, beq_eq_false_iff_ne, bne_eq_false_iff_eq, ne_eq,
    beq_iff_eq, bne_iff_ne, Nat.not_lt]
  by_cases ha : a.1.op = .and <;> by_cases hb : b.1.op = .and <;> simp [ha, hb] <;> omega

theorem compileLe_trans (a b c : Gate × Nat) (h1 : compileLe a b = true) (h2 : compileLe b c = true) :
    compileLe a c = true := by
  rw [compileLe_iff] at *; omega

theorem compileLe_total (a b : Gate × Nat) : (compileLe a b || compileLe b a) = true := by
  rw [Bool.or_eq_true, compileLe_iff, compileLe_iff]; omega

theorem gmwLe_trans (a b c : Gate × Nat) (h1 : gmwLe a b = true) (h2 : gmwLe b c = true) :
    gmwLe a c = true := by
  rw [gmwLe_iff] at *; omega

theorem gmwLe_total (a b : Gate × Nat) : (gmwLe a b || gmwLe b a) = true := by
  rw [Bool.or_eq_true, gmwLe_iff, gmwLe_iff]; omega

/-! ### Position lemmas -/

theorem pair_sublist_decomp {α : Type} (h a : α) : ∀ (l : List α), List.Sublist [h, a] l →
    ∃ pre post, l = pre ++ a :: post ∧ h ∈ pre := by
  intro l
  induction l with
  | nil => intro hs; simp at hs
  | cons x l ih =>
    intro hs
    rw [List.sublist_cons_iff] at hs
    rcases hs with hs | ⟨r, hr, hs⟩
    · obtain ⟨pre, post, rfl, hh⟩ := ih hs
      exact ⟨x :: pre, post, rfl, List.mem_cons_of_mem _ hh⟩
    · simp only [List.cons.injEq] at hr
      obtain ⟨rfl, rfl⟩ := hr
      obtain ⟨s, t, rfl⟩ := List.append_of_mem (List.singleton_sublist.mp hs)
      exact ⟨h :: s, t, rfl, List.mem_cons_self⟩

theorem eq_of_nodup_map {α β : Type} (f : α → β) : ∀ (l : List α), (l.map f).Nodup →
    ∀ a ∈ l, ∀ b ∈ l, f a = f b → a = b := by
  intro l
  induction l with
  | nil => intro _ a ha; simp at ha
  | cons x l ih =>
    intro hnd a ha b hb hab
    simp only [List.map_cons, List.nodup_cons, List.mem_map, not_exists, not_and] at hnd
    rcases List.mem_cons.mp ha with hax | ha'
    · rcases List.mem_cons.mp hb with hbx | hb'
      · rw [hax, hbx]
      · subst hax
        exact absurd hab.symm (hnd.1 b hb')
    · rcases List.mem_cons.mp hb with hbx | hb'
      · subst hbx
        exact absurd hab (hnd.1 a ha')
      · exact ih hnd.2 a ha' b hb' hab

/-! ### `AssignLevels` -/

/-- Level increment of a gate's output wire: Yao target 1; GMW target 1 for
AND gates only (AND depth). -/
def bump (gmw : Bool) (g : Gate) : Nat := if gmw then (if g.op == .and then 1 else 0) else 1

theorem assignLevelsGo_cons (gmw : Bool) (g : Gate) (gs : List Gate) (lv : Array Nat) (mx : Nat) :
    assignLevelsGo gmw (g :: gs) lv mx =
      let level := if g.op.binary then max (lv.getD g.in0 0) (lv.getD g.in1 0) else lv.getD g.in0 0
      let r := assignLevelsGo gmw gs (lv.setIfInBounds g.out (level + bump gmw g)) (max mx (level + bump gmw g))
      (level :: r.1, r.2) := by
  simp only [assignLevelsGo, bump]
  cases gmw <;> simp
  split <;> simp

theorem assignLevelsGo_length (gmw : Bool) : ∀ (gs : List Gate) (lv : Array Nat) (mx : Nat),
    (assignLevelsGo gmw gs lv mx).1.length = gs.length := by
  intro gs
  induction gs with
  | nil => intro lv mx; rfl
  | cons g gs ih => intro lv mx; rw [assignLevelsGo_cons]; simp [ih]

/-- A gate's level is at least the current level of each of its input wires,
as long as no earlier gate of the list rewrites that wire. -/
theorem assignLevelsGo_ge (gmw : Bool) (w : Nat) : ∀ (gs : List Gate) (lv : Array Nat) (mx : Nat),
    (∀ g ∈ gs, g.out ≠ w) →
    ∀ a ∈ gs.zip (assignLevelsGo gmw gs lv mx).1, w ∈ a.1.ins → lv.getD w 0 ≤ a.2 := by
  intro gs
  induction gs with
  | nil => intro lv mx _ a ha; simp at ha
  | cons g gs ih =>
    intro lv mx hne a ha hw
    rw [assignLevelsGo_cons] at ha
    simp only [List.zip_cons_cons, List.mem_cons] at ha
    rcases ha with rfl | ha
    · rw [mem_ins] at hw
      dsimp only at hw ⊢
      rcases hw with rfl | ⟨hb, rfl⟩
      · split <;> omega
      · simp only [hb, if_true]; omega
    · have := ih _ _ (fun g' hg' => hne g' (List.mem_cons_of_mem _ hg')) a ha hw
      rw [getD_set_ne _ _ _ _ _ (hne g List.mem_cons_self)] at this
      exact this

/-- Position form of the level property: a consumer's level is at least the
producer's level plus the producer's bump. -/
theorem assignLevelsGo_mono (gmw : Bool) : ∀ (gs : List Gate) (lv : Array Nat) (mx : Nat),
    (gs.map (·.out)).Nodup → (∀ g ∈ gs, g.out < lv.size) →
    ∀ pre a post, gs.zip (assignLevelsGo gmw gs lv mx).1 = pre ++ a :: post →
    ∀ h ∈ pre, h.1.out ∈ a.1.ins → h.2 + bump gmw h.1 ≤ a.2 := by
  intro gs
  induction gs with
  | nil => intro lv mx _ _ pre a post hl; simp at hl
  | cons g gs ih =>
    intro lv mx hnd hsz pre a post hl h hh hw
    simp only [List.map_cons, List.nodup_cons, List.mem_map, not_exists, not_and] at hnd
    rw [assignLevelsGo_cons] at hl
    simp only [List.zip_cons_cons] at hl
    match pre, hl, hh with
    | [], _, hh => simp at hh
    | p :: pre', hl, hh =>
      simp only [List.cons_append, List.cons.injEq] at hl
      obtain ⟨hp, hl⟩ := hl
      have hsz' : ∀ g' ∈ gs, g'.out < (lv.setIfInBounds g.out
          ((if g.op.binary then max (lv.getD g.in0 0) (lv.getD g.in1 0) else lv.getD g.in0 0) +
            bump gmw g)).size := by
        intro g' hg'
        rw [Array.size_setIfInBounds]
        exact hsz g' (List.mem_cons_of_mem _ hg')
      rcases List.mem_cons.mp hh with rfl | hh
      · -- the producer is the head gate
        subst hp
        simp only at hw ⊢
        have ha : a ∈ pre' ++ a :: post := by simp
        rw [← hl] at ha
        have := assignLevelsGo_ge gmw g.out gs _ _ (fun g' hg' h => hnd.1 g' hg' h) a ha hw
        rw [getD_set_eq _ _ _ _ (hsz g List.mem_cons_self)] at this
        exact this
      · exact ih _ _ hnd.2 hsz' pre' a post hl h hh hw

end Mpc

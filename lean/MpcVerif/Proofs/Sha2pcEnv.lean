/-
Lemmas for histories whose steps run in their own environments
(Model/Sha2pcEnv.lean): an implementation that agrees with the model in every
environment of the history runs the environment-free history.
-/
import MpcVerif.Model.Sha2pcEnv
import MpcVerif.Proofs.Sha2pcProc

namespace Mpc.Sha2pc

variable {T : Ty}

theorem Proc.runE_cons (impl : EnvCfg T) (st : Proc T) (e : EvE) (es : List EvE) :
    Proc.runE impl st (e :: es) = Proc.runE impl (Proc.stepE impl st e) es := rfl

theorem Proc.runE_append (impl : EnvCfg T) (pre post : List EvE) (st : Proc T) :
    Proc.runE impl st (pre ++ post) = Proc.runE impl (Proc.runE impl st pre) post := by
  simp [Proc.runE, List.foldl_append]

theorem eraseEnv_cons (e : EvE) (es : List EvE) : eraseEnv (e :: es) = e.ev :: eraseEnv es := rfl

theorem eraseEnv_append (pre post : List EvE) : eraseEnv (pre ++ post) = eraseEnv pre ++ eraseEnv post := by
  simp [eraseEnv]

/-- attaching one environment to every event and erasing it again -/
theorem eraseEnv_attach (f : Ev → Env) (sched : List Ev) : eraseEnv (sched.map fun e => ⟨e, f e⟩) = sched := by
  induction sched with
  | nil => rfl
  | cons e es ih => simp [eraseEnv] at ih ⊢; exact ih

theorem EnvCfg.AgreesOn.tail {impl : EnvCfg T} {cfg : Cfg T} {e : EvE} {es : List EvE}
    (h : impl.AgreesOn cfg (e :: es)) : impl.AgreesOn cfg es :=
  fun e' he' => h e' (List.mem_cons_of_mem _ he')

theorem EnvCfg.AgreesOn.prefix {impl : EnvCfg T} {cfg : Cfg T} {pre post : List EvE}
    (h : impl.AgreesOn cfg (pre ++ post)) : impl.AgreesOn cfg pre :=
  fun e he => h e (List.mem_append_left _ he)

/-- One step under an environment in which the implementation is the model. -/
theorem Proc.stepE_eq (impl : EnvCfg T) (cfg : Cfg T) (st : Proc T) (e : EvE) (h : impl e.env = cfg) :
    Proc.stepE impl st e = Proc.stepD cfg st e.ev ∧ Proc.stepResE impl st e = Proc.stepResD cfg st e.ev := by
  simp [Proc.stepE, Proc.stepResE, h]

/-- A history with per-step environments, run on an implementation that agrees
with the model in every environment that occurs, IS the environment-free
history.  Induction over the schedule. -/
theorem Proc.runE_eq_runD (impl : EnvCfg T) (cfg : Cfg T) (sched : List EvE) :
    ∀ st : Proc T, impl.AgreesOn cfg sched → Proc.runE impl st sched = Proc.runD cfg st (eraseEnv sched) := by
  induction sched with
  | nil => intro st _; rfl
  | cons e es ih =>
    intro st h
    rw [Proc.runE_cons, eraseEnv_cons, Proc.runD_cons, (Proc.stepE_eq impl cfg st e (h e (List.mem_cons_self ..))).1]
    exact ih _ h.tail

/-- ... and every step of it has the status the model gives it. -/
theorem Proc.statusE_eq (impl : EnvCfg T) (cfg : Cfg T) (st : Proc T) (pre : List EvE) (e : EvE) (post : List EvE)
    (h : impl.AgreesOn cfg (pre ++ e :: post)) :
    Proc.stepResE impl (Proc.runE impl st pre) e = Proc.stepResD cfg (Proc.runD cfg st (eraseEnv pre)) e.ev := by
  rw [Proc.runE_eq_runD impl cfg pre st h.prefix]
  exact (Proc.stepE_eq impl cfg _ e (h e (by simp))).2

theorem EnvCfg.const_agrees (cfg : Cfg T) (sched : List EvE) : (EnvCfg.const cfg).AgreesOn cfg sched :=
  fun _ _ => rfl

theorem EnvCfg.const_indep (cfg : Cfg T) : (EnvCfg.const cfg).Indep := fun _ _ => rfl

/-- An environment-independent implementation agrees, on every history, with
what it computes in any one reference environment. -/
theorem EnvCfg.Indep.agrees {impl : EnvCfg T} (h : impl.Indep) (e0 : Env) (sched : List EvE) :
    impl.AgreesOn (impl e0) sched :=
  fun e _ => h e.env e0

/-! ## work split over the CPUs -/

theorem splitMap_length {α β : Type} (w : Nat) (f : α → β) (dflt : β) (xs : List α) :
    (splitMap w f dflt xs).length = xs.length := by
  have h : w * (xs.length / w) ≤ xs.length := Nat.mul_div_le _ _
  simp only [splitMap, List.length_append, List.length_map, List.length_take, List.length_replicate]
  omega

/-- No item is left over: the split computation is the plain one. -/
theorem splitMap_of_dvd {α β : Type} (w : Nat) (f : α → β) (dflt : β) (xs : List α) (h : w ∣ xs.length) :
    splitMap w f dflt xs = xs.map f := by
  have hm : w * (xs.length / w) = xs.length := Nat.mul_div_cancel' h
  simp only [splitMap, hm, List.take_length, Nat.sub_self, List.replicate_zero, List.append_nil]

/-- Items are left over: the last result is the default value, whatever `f`. -/
theorem splitMap_getLast_of_not_dvd {α β : Type} (w : Nat) (f : α → β) (dflt : β) (xs : List α)
    (h : ¬ w ∣ xs.length) : (splitMap w f dflt xs).getLast? = some dflt := by
  have hlt : w * (xs.length / w) < xs.length := by
    have hle : w * (xs.length / w) ≤ xs.length := Nat.mul_div_le _ _
    rcases Nat.lt_or_eq_of_le hle with h' | h'
    · exact h'
    · exact absurd ⟨xs.length / w, h'.symm⟩ h
  obtain ⟨k, hk⟩ : ∃ k, xs.length - w * (xs.length / w) = k + 1 := ⟨xs.length - w * (xs.length / w) - 1, by omega⟩
  simp only [splitMap, hk, List.replicate_succ']
  simp [List.getLast?_append]

end Mpc.Sha2pc

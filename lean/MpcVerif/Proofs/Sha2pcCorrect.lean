/-
Composition: the four model rounds deliver `circuit (a, b)` to the evaluator,
from C01 (garbled evaluation decodes to plain evaluation) and C06
(Chou-Orlandi delivers the chosen label).
-/
import MpcVerif.Proofs.Sha2pcRounds
import MpcVerif.Props.C01
import MpcVerif.Props.C06

namespace Mpc.Sha2pc

variable {G : Type}

theorem mapM_option_map {α β : Type} (l : List α) (f : α → Option β) (g : α → β)
    (h : ∀ a ∈ l, f a = some (g a)) : l.mapM f = some (l.map g) := by
  induction l with
  | nil => simp
  | cons a l ih =>
    rw [List.mapM_cons, h a (by simp), ih (fun b hb => h b (by simp [hb]))]
    rfl

theorem getD_map_range {α : Type} (n : Nat) (f : Nat → α) (i : Nat) (d : α) :
    ((List.range n).map f).getD i d = if i < n then f i else d := by
  simp only [List.getD_eq_getElem?_getD, List.getElem?_map]
  by_cases h : i < n
  · simp [List.getElem?_range h, h]
  · have : (List.range n)[i]? = none := by simp; omega
    simp [this, h]

theorem encrypt_congr (Γ : Co.Group G) (kdf : G → Nat → Label) (s : Co.SenderSetup G) (n : Nat)
    (p p' : Nat → G) (w : Nat → Label × Label) (h : ∀ i, i < n → p i = p' i) :
    Co.encrypt Γ (fun _ => true) kdf s n p w = Co.encrypt Γ (fun _ => true) kdf s n p' w := by
  unfold Co.encrypt
  simp only [Bool.not_true, Bool.false_eq_true, if_false, List.any_eq_true, and_false, exists_false]
  congr 1
  apply List.map_congr_left
  intro i hi
  rw [h i (List.mem_range.1 hi)]

theorem decrypt_congr (Γ : Co.Group G) (kdf : G → Nat → Label) (A : G) (n : Nat) (sc sc' : Nat → Nat)
    (b b' : Nat → Bool) (data : List (Label × Label)) (h1 : ∀ i, i < n → sc i = sc' i)
    (h2 : ∀ i, i < n → b i = b' i) : Co.decrypt Γ kdf A n sc b data = Co.decrypt Γ kdf A n sc' b' data := by
  unfold Co.decrypt
  apply List.map_congr_left
  intro i hi
  rw [h1 i (List.mem_range.1 hi), h2 i (List.mem_range.1 hi)]

/-- A group element is (the coordinates of) a curve point, i.e. not the point
at infinity: `IsOnCurve` accepts its coordinates. -/
def Crypto.onCurve (K : Crypto G) (p : G) : Prop := K.ofPt (K.toPt p) = some p

/-- The evaluator's wire array is exactly the garbler's input encoding of
`bits a ++ bits b` once the OT delivered the chosen labels. -/
theorem evalStore_eq_encodeInputs (c : Circuit) (Gd : Garbled Label) (bitsA bitsB : List Bool)
    (ha : bitsA.length = nBits) (hb : bitsB.length = nBits) (hnin : c.nIn = nBits + nBits)
    (labels : List Label) (hl : labels.length = nBits)
    (hlab : ∀ i, i < nBits → labels.getD i 0#128 = (Gd.wires.get (nBits + i)).labelFor (bitsB.getD i false)) :
    evalStore c.numWires ((List.range nBits).map fun i => (Gd.wires.get i).labelFor (bitsA.getD i false)) labels =
      encodeInputs c Gd (bitsA ++ bitsB) := by
  unfold evalStore encodeInputs
  have hf : (fun i => if i < nBits then
        ((List.range nBits).map fun i => (Gd.wires.get i).labelFor (bitsA.getD i false)).getD i 0#128
      else labels.getD (i - nBits) 0#128) =
      (fun i => if i < c.nIn then (Gd.wires.get i).labelFor ((bitsA ++ bitsB).getD i false) else default) := by
    funext i
    by_cases h1 : i < nBits
    · rw [if_pos h1, if_pos (by omega), getD_map_range, if_pos h1]
      have : (bitsA ++ bitsB).getD i false = bitsA.getD i false := by
        simp only [List.getD_eq_getElem?_getD]
        rw [List.getElem?_append_left (by omega)]
      rw [this]
    · rw [if_neg h1]
      by_cases h2 : i < c.nIn
      · rw [if_pos h2, hlab (i - nBits) (by omega)]
        have e : nBits + (i - nBits) = i := by omega
        rw [e]
        have : (bitsA ++ bitsB).getD i false = bitsB.getD (i - nBits) false := by
          simp only [List.getD_eq_getElem?_getD]
          rw [List.getElem?_append_right (by omega), ha]
        rw [this]
      · rw [if_neg h2]
        simp only [List.getD_eq_getElem?_getD]
        have : labels[i - nBits]? = none := by simp; omega
        rw [this]
        rfl
  rw [hf]
  rfl

/-- **sha2pc_correct_given_circuit.**  For every commutative group with
affine coordinates, every KDF, every key-derived hash pair, every well-formed
circuit with 256+256 input bits and 256 defined output wires, all inputs and
all randomness: provided none of the points that occur is the point at
infinity, rounds 2 and 3 succeed and round 4 returns the little-endian packing
of the circuit's plain evaluation on `bits a ++ bits b`. -/
theorem correct_given_circuit (P : Params G) (a b : Bytes) (aS sid : Nat) (scalars : List Nat) (key : Bytes)
    (r0 : Label) (inl : Nat → Label)
    (hwf : P.circ.WF = true) (hnin : P.circ.nIn = nBits + nBits) (hnout : P.circ.nOut = nBits)
    (hod : P.circ.outputsDefined = true) (ha : a.length = 32) (hb : b.length = 32)
    (hA : P.crypto.onCurve (Co.senderSetup P.crypto.Γ P.crypto.g aS).A)
    (hI : P.crypto.onCurve (Co.senderSetup P.crypto.Γ P.crypto.g aS).AaInv)
    (hP : ∀ i, i < nBits → P.crypto.onCurve (Co.choicePoint P.crypto.Γ P.crypto.g
      (Co.senderSetup P.crypto.Γ P.crypto.g aS).A (scalars.getD i 0) ((bytesToBits b).getD i false))) :
    ∃ m2 es m3, round2 P (round1 P aS sid).1 b scalars = .ok (m2, es) ∧
      round3 P (round1 P aS sid).2 a m2 key r0 inl = .ok m3 ∧
      round4 P es m3 = .ok (bitsToBytes (P.circ.compute (bytesToBits a ++ bytesToBits b))) := by
  obtain ⟨curve, K, c, hashOf⟩ := P
  simp only at hwf hnin hnout hod hA hI hP ⊢
  have hbitsA : (bytesToBits a).length = nBits := by rw [bytesToBits_length, ha]; rfl
  have hbitsB : (bytesToBits b).length = nBits := by rw [bytesToBits_length, hb]; rfl
  generalize hS : Co.senderSetup K.Γ K.g aS = S at hA hI hP
  have hSa : S.a = aS := by rw [← hS]; rfl
  have h1 : K.ofPt ⟨(K.toPt S.A).x, (K.toPt S.A).y⟩ = some S.A := hA
  have h2 : K.ofPt ⟨(K.toPt S.AaInv).x, (K.toPt S.AaInv).y⟩ = some S.AaInv := hI
  generalize hcp : (fun i => Co.choicePoint K.Γ K.g S.A (scalars.getD i 0) ((bytesToBits b).getD i false)) = cp at hP
  have hcp' : ∀ i, Co.choicePoint K.Γ K.g S.A (scalars.getD i 0) ((bytesToBits b).getD i false) = cp i := by
    intro i; rw [← hcp]
  simp only [hcp'] at hP
  -- round 1 and round 2
  have hr1 : round1 ⟨curve, K, c, hashOf⟩ aS sid =
      ({ sid := sid, curveName := curve.name, ax := (K.toPt S.A).x, ay := (K.toPt S.A).y },
       { sid := sid, curveName := curve.name, scalar := aS, ax := (K.toPt S.A).x, ay := (K.toPt S.A).y,
         ainvx := (K.toPt S.AaInv).x, ainvy := (K.toPt S.AaInv).y }) := by
    unfold round1; simp only [hS]
  rw [hr1]
  have hr2 : round2 ⟨curve, K, c, hashOf⟩
      { sid := sid, curveName := curve.name, ax := (K.toPt S.A).x, ay := (K.toPt S.A).y } b scalars =
      .ok ({ sid := sid, curveName := curve.name, choices := (List.range nBits).map fun i => K.toPt (cp i) },
           { sid := sid, curveName := curve.name, ax := (K.toPt S.A).x, ay := (K.toPt S.A).y,
             scalars := (List.range nBits).map (fun i => scalars.getD i 0), bits := bytesToBits b }) := by
    unfold round2
    simp only [ne_eq, not_true_eq_false, if_false, hbitsB, h1, hcp']
  -- the garbling and the OT
  generalize hGd : c.garble (hashOf key) (setS r0) inl = Gd
  generalize hwires : (fun i => ((Gd.wires.get (nBits + i)).l0, (Gd.wires.get (nBits + i)).l1)) = wires
  -- C06_co_delivers is stated about the HEAD-shaped helpers `Co.encryptO`/`Co.decryptO` (with the on-curve
  -- checks of `A`, `AaInv` and the points inside); this model does those checks itself (`ofPt`, h1/h2/hP) and
  -- calls `Co.encrypt`/`Co.decrypt` with `valid := fun _ => true`, where the two coincide
  -- (Co.encryptO_eq_encrypt / Co.decryptO_eq_decrypt).
  obtain ⟨cts, henc, hclen, dout, hdec0, _, hdel0⟩ := C06_co_delivers K.Γ (fun _ => true) K.kdf K.g aS nBits
    (fun i => scalars.getD i 0) (fun i => (bytesToBits b).getD i false) wires rfl rfl (fun _ _ => rfl)
  rw [Co.encryptO_eq_encrypt K.Γ (fun _ => true) K.kdf _ nBits _ wires rfl] at henc
  rw [Co.decryptO_eq_decrypt K.Γ (fun _ => true) K.kdf _ nBits _ _ cts rfl] at hdec0
  have hdel : ∀ i, i < nBits →
      (Co.decrypt K.Γ K.kdf (Co.senderSetupO K.Γ.ops K.g aS).A nBits (fun i => scalars.getD i 0)
        (fun i => (bytesToBits b).getD i false) cts).getD i 0#128 =
        if (bytesToBits b).getD i false then (wires i).2 else (wires i).1 := by
    rw [Option.some.inj hdec0]; exact hdel0
  simp only [Co.senderSetupO_ops, Co.choicePointO_ops] at henc hdel
  rw [hS] at henc hdel
  simp only [hcp'] at henc
  have hmap : ((List.range nBits).map fun i => K.toPt (cp i)).mapM K.ofPt = some ((List.range nBits).map cp) := by
    have := mapM_option_map (List.range nBits) (fun i => K.ofPt (K.toPt (cp i))) cp (by
      intro i hi
      exact hP i (List.mem_range.1 hi))
    rw [← this, List.mapM_map]
    rfl
  have hencCO : encryptCO K ({ sid := sid, curveName := curve.name, scalar := aS, ax := (K.toPt S.A).x, ay := (K.toPt S.A).y, ainvx := (K.toPt S.AaInv).x, ainvy := (K.toPt S.AaInv).y })
      ((List.range nBits).map fun i => K.toPt (cp i)) wires nBits = .ok cts := by
    unfold encryptCO
    simp only [h1, h2]
    rw [if_neg (by simp)]
    simp only [hmap]
    have hs : ({ a := aS, A := S.A, AaInv := S.AaInv } : Co.SenderSetup G) = S := by rw [← hSa]
    rw [hs, encrypt_congr K.Γ K.kdf S nBits _ cp wires (by
      intro i hi; rw [getD_map_range, if_pos hi]), henc]
  have hr3 : round3 ⟨curve, K, c, hashOf⟩ ({ sid := sid, curveName := curve.name, scalar := aS, ax := (K.toPt S.A).x, ay := (K.toPt S.A).y, ainvx := (K.toPt S.AaInv).x, ainvy := (K.toPt S.AaInv).y }) a
      { sid := sid, curveName := curve.name, choices := (List.range nBits).map fun i => K.toPt (cp i) } key r0 inl =
      .ok ({ sid := sid, key := key, tables := Gd.rows,
             inputs := (List.range nBits).map fun i => (Gd.wires.get i).labelFor ((bytesToBits a).getD i false),
             hints := (List.range c.nOut).map fun i =>
               ((Gd.wires.get (c.numWires - c.nOut + i)).l0, (Gd.wires.get (c.numWires - c.nOut + i)).l1),
             cts := cts }) := by
    unfold round3
    simp only [ne_eq, not_true_eq_false, if_false, hbitsA, hGd, hwires, hencCO]
  refine ⟨_, _, _, hr2, hr3, ?_⟩
  · -- round 4
    unfold round4
    simp only [List.length_map, List.length_range]
    rw [if_neg (by simp [nBits]), if_neg (by simp)]
    have hdec : decryptCO K ({ sid := sid, curveName := curve.name, ax := (K.toPt S.A).x, ay := (K.toPt S.A).y,
                               scalars := (List.range nBits).map (fun i => scalars.getD i 0), bits := bytesToBits b }) cts =
        .ok (Co.decrypt K.Γ K.kdf S.A nBits (fun i => scalars.getD i 0) (fun i => (bytesToBits b).getD i false) cts) := by
      unfold decryptCO
      simp only [List.length_map, List.length_range, hbitsB, hclen, ne_eq, not_true_eq_false, or_self, if_false, h1]
      exact congrArg Res.ok (decrypt_congr _ _ _ _ _ _ _ _ _ (by
        intro i hi; rw [getD_map_range, if_pos hi]) (by intro i _; rfl))
    rw [hdec]
    simp only
    have hdl : (Co.decrypt K.Γ K.kdf S.A nBits (fun i => scalars.getD i 0)
        (fun i => (bytesToBits b).getD i false) cts).length = nBits := by simp [Co.decrypt]
    have hstore := evalStore_eq_encodeInputs c Gd (bytesToBits a) (bytesToBits b) hbitsA hbitsB hnin _ hdl (by
      intro i hi
      rw [hdel i hi, ← hwires]
      simp only [WireL.labelFor])
    rw [hstore]
    obtain ⟨out, hev, hbits⟩ := C01_decode (hashOf key) c (setS r0) (setS_msb r0) inl
      (bytesToBits a ++ bytesToBits b) hwf
    rw [hGd] at hev hbits
    rw [hev]
    simp only
    rw [if_neg (by simp)]
    have hdo : decodeOutputs ((List.range c.nOut).map fun i =>
          ((Gd.wires.get (c.numWires - c.nOut + i)).l0, (Gd.wires.get (c.numWires - c.nOut + i)).l1)) out
          (c.numWires - c.nOut) = some (c.compute (bytesToBits a ++ bytesToBits b)) := by
      unfold decodeOutputs Circuit.compute Circuit.outputs
      simp only [List.length_map, List.length_range]
      apply mapM_option_map
      intro i hi
      have hi' := List.mem_range.1 hi
      rw [getD_map_range, if_pos hi']
      have hdef : c.defined (c.numWires - c.nOut + i) = true := by
        unfold Circuit.outputsDefined at hod
        rw [List.all_eq_true] at hod
        exact hod i hi
      exact hbits _ hdef
    rw [hdo]
    simp only
    rw [if_neg]
    rw [bitsToBytes_length]
    simp [Circuit.compute, Circuit.outputs, hnout, nBits]

end Mpc.Sha2pc

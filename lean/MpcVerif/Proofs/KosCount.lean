/-
Dimension counting for the challenge coefficients of the malicious-mode
consistency check (Model/KosSet.lean), and the realisation of an arbitrary
error matrix by error masks of the shape of the transmitted chunks.

1. `dependent_rows_exist`: among ANY 129 labels (128-bit vectors) some
   non-empty subset XORs to zero.  Pigeonhole: the 2^129 subsets of 129 rows
   (encoded as the bits of a number `< 2^129`) have only 2^128 possible XOR
   values, so two distinct subsets have the same XOR; their symmetric
   difference is non-empty and XORs to zero (`xorSel_xor`).  The only Mathlib
   import is the pigeonhole principle for finite types
   (`Fintype.exists_ne_map_eq_of_card_lt`).  `dependent_rows_window`: the same
   among the rows `base .. base+128`.  `unit_rows_independent`: 128 rows do
   not suffice (the unit vectors).
2. `maskLike` / `kos_rows_realisable`: for every target error matrix
   `e : row → Label` there are error masks `E1`, `E2` with the `Shape` of the
   chunks the receiver sends (payload batch, check batch) whose error matrix
   (`errRow`, i.e. what `createLabels` makes of them on the sender's side) is
   `e` on all `n + 256` rows.
-/
import Mathlib.Data.Fintype.Pigeonhole
import MpcVerif.Proofs.KosSet

namespace Mpc.Kos
open Mpc.Iknp Mpc.Clmul

/-! ### Counting -/

/-- XOR of the coefficients of the rows `r < n` selected by `s`. -/
def xorSel (chi : Nat → Label) (s : Nat → Bool) : Nat → Label
  | 0 => 0#128
  | n + 1 => if s n = true then xorSel chi s n ^^^ chi n else xorSel chi s n

theorem xor_both (a b c : Label) : (a ^^^ c) ^^^ (b ^^^ c) = a ^^^ b := by
  have : (a ^^^ c) ^^^ (b ^^^ c) = (a ^^^ b) ^^^ (c ^^^ c) := by ac_rfl
  rw [this, BitVec.xor_self, BitVec.xor_zero]

theorem xor_swap (a b c : Label) : a ^^^ c ^^^ b = a ^^^ b ^^^ c := by ac_rfl

theorem xorSel_xor (chi : Nat → Label) (s t : Nat → Bool) (n : Nat) :
    xorSel chi (fun r => s r ^^ t r) n = xorSel chi s n ^^^ xorSel chi t n := by
  induction n with
  | zero => simp [xorSel]
  | succ k ih =>
    simp only [xorSel, ih]
    cases hs : s k <;> cases ht : t k
    · simp
    · simp only [Bool.false_xor, if_true, Bool.false_eq_true, if_false, BitVec.xor_assoc]
    · simp only [Bool.xor_false, if_true, Bool.false_eq_true, if_false, xor_swap]
    · simp only [Bool.xor_self, Bool.false_eq_true, if_false, if_true, xor_both]

theorem rowXor_cons (chi : Nat → Label) (r : Nat) (S : List Nat) : rowXor chi (r :: S) = rowXor chi S ^^^ chi r := rfl

theorem rowXor_append (chi : Nat → Label) (A B : List Nat) : rowXor chi (A ++ B) = rowXor chi A ^^^ rowXor chi B := by
  induction A with
  | nil => simp [rowXor]
  | cons a A ih => rw [List.cons_append, rowXor_cons, rowXor_cons, ih, xor_swap]

/-- The rows `< n` selected by `s`, in increasing order. -/
def selList (s : Nat → Bool) (n : Nat) : List Nat := (List.range n).filter s

theorem rowXor_selList (chi : Nat → Label) (s : Nat → Bool) (n : Nat) : rowXor chi (selList s n) = xorSel chi s n := by
  induction n with
  | zero => rfl
  | succ k ih =>
    unfold selList at ih ⊢
    rw [List.range_succ, List.filter_append, rowXor_append, ih]
    cases h : s k <;> simp [xorSel, h, rowXor]

theorem mem_selList (s : Nat → Bool) (n r : Nat) : r ∈ selList s n ↔ r < n ∧ s r = true := by
  simp [selList]

theorem nodup_selList (s : Nat → Bool) (n : Nat) : (selList s n).Nodup :=
  List.Nodup.filter _ List.nodup_range

theorem length_selList_le (s : Nat → Bool) (n : Nat) : (selList s n).length ≤ n := by
  have := List.length_filter_le s (List.range n)
  simpa [selList] using this

/-- Dimension counting: among `chi 0 .. chi 128` some non-empty set XORs to zero. -/
theorem dependent_rows_exist (chi : Nat → Label) :
    ∃ S : List Nat, S ≠ [] ∧ S.Nodup ∧ S.length ≤ 129 ∧ (∀ r, r ∈ S → r < 129) ∧ rowXor chi S = 0#128 := by
  let f : Fin (2 ^ 129) → Fin (2 ^ 128) := fun k => (xorSel chi (fun r => Nat.testBit k.val r) 129).toFin
  obtain ⟨k, k', hne, heq⟩ := Fintype.exists_ne_map_eq_of_card_lt f (by
    rw [Fintype.card_fin, Fintype.card_fin]
    exact Nat.pow_lt_pow_right (by omega) (by omega))
  have heq' : xorSel chi (fun r => Nat.testBit k.val r) 129 = xorSel chi (fun r => Nat.testBit k'.val r) 129 :=
    BitVec.eq_of_toFin_eq heq
  have hv : k.val ≠ k'.val := fun e => hne (Fin.ext e)
  obtain ⟨r0, hr0⟩ : ∃ r, Nat.testBit k.val r ≠ Nat.testBit k'.val r := by
    apply Classical.byContradiction
    intro hn
    apply hv
    apply Nat.eq_of_testBit_eq
    intro i
    apply Classical.byContradiction
    intro h
    exact hn ⟨i, h⟩
  have hlt : r0 < 129 := by
    apply Classical.byContradiction
    intro hge
    have h1 : Nat.testBit k.val r0 = false :=
      Nat.testBit_lt_two_pow (Nat.lt_of_lt_of_le k.isLt (Nat.pow_le_pow_right (by omega) (by omega)))
    have h2 : Nat.testBit k'.val r0 = false :=
      Nat.testBit_lt_two_pow (Nat.lt_of_lt_of_le k'.isLt (Nat.pow_le_pow_right (by omega) (by omega)))
    exact hr0 (h1.trans h2.symm)
  let u : Nat → Bool := fun r => Nat.testBit k.val r ^^ Nat.testBit k'.val r
  refine ⟨selList u 129, ?_, nodup_selList u 129, length_selList_le u 129, fun r hr => ((mem_selList u 129 r).mp hr).1, ?_⟩
  · intro he
    have : r0 ∈ selList u 129 := by
      rw [mem_selList]
      refine ⟨hlt, ?_⟩
      show (Nat.testBit k.val r0 ^^ Nat.testBit k'.val r0) = true
      cases h1 : Nat.testBit k.val r0 <;> cases h2 : Nat.testBit k'.val r0 <;> simp_all
    rw [he] at this
    cases this
  · rw [rowXor_selList, xorSel_xor, heq', BitVec.xor_self]

theorem rowXor_map_add (chi : Nat → Label) (base : Nat) (S : List Nat) :
    rowXor chi (S.map fun a => base + a) = rowXor (fun a => chi (base + a)) S := by
  induction S with
  | nil => rfl
  | cons a S ih => rw [List.map_cons, rowXor_cons, rowXor_cons, ih]

theorem nodup_map_add (base : Nat) (S : List Nat) (h : S.Nodup) : (S.map fun a => base + a).Nodup := by
  induction S with
  | nil => exact List.nodup_nil
  | cons a S ih =>
    have h' := List.nodup_cons.mp h
    rw [List.map_cons, List.nodup_cons]
    refine ⟨?_, ih h'.2⟩
    intro hm
    obtain ⟨c, hc, he⟩ := List.mem_map.mp hm
    have : c = a := by omega
    exact h'.1 (this ▸ hc)

/-- Among the rows `base .. base + 128` some non-empty set XORs to zero. -/
theorem dependent_rows_window (chi : Nat → Label) (base : Nat) :
    ∃ S : List Nat, S ≠ [] ∧ S.Nodup ∧ S.length ≤ 129 ∧ (∀ r, r ∈ S → base ≤ r ∧ r < base + 129) ∧
      rowXor chi S = 0#128 := by
  obtain ⟨S, hne, hnd, hlen, hlt, hx⟩ := dependent_rows_exist fun a => chi (base + a)
  refine ⟨S.map fun a => base + a, ?_, nodup_map_add base S hnd, by simpa using hlen, ?_, ?_⟩
  · intro h
    exact hne (List.map_eq_nil_iff.mp h)
  · intro r hr
    obtain ⟨a, ha, rfl⟩ := List.mem_map.mp hr
    have := hlt a ha
    omega
  · rw [rowXor_map_add]; exact hx

/-- Sharpness: the 128 unit vectors have no dependent subset (so 129 rows are needed). -/
theorem labelBit_rowXor_unit (S : List Nat) (hnd : S.Nodup) (hS : ∀ r, r ∈ S → r < 128) (j : Nat) (hj : j < 128) :
    labelBit (rowXor bitLabel S) j = decide (j ∈ S) := by
  induction S with
  | nil => simp [rowXor]
  | cons r S ih =>
    have h' := List.nodup_cons.mp hnd
    have hr : r < 128 := hS r (List.mem_cons_self ..)
    rw [rowXor_cons, labelBit_xor, ih h'.2 (fun q hq => hS q (List.mem_cons_of_mem _ hq)), labelBit_bitLabel r j hr hj]
    by_cases e : r = j
    · subst e
      simp [h'.1]
    · have e' : j ≠ r := fun x => e x.symm
      simp [e, e']

theorem unit_rows_independent (S : List Nat) (hne : S ≠ []) (hnd : S.Nodup) (hS : ∀ r, r ∈ S → r < 128) :
    rowXor bitLabel S ≠ 0#128 := by
  intro h
  cases S with
  | nil => exact hne rfl
  | cons r S' =>
    have hr : r < 128 := hS r (List.mem_cons_self ..)
    have := labelBit_rowXor_unit (r :: S') hnd hS r hr
    rw [h, labelBit_zero] at this
    simp at this

/-- A non-zero `Delta` selects some column. -/
theorem exists_labelBit_of_ne_zero (delta : Label) (h : delta ≠ 0#128) : ∃ i, i < 128 ∧ labelBit delta i = true := by
  apply Classical.byContradiction
  intro hn
  apply h
  apply label_ext
  intro j hj
  rw [labelBit_zero]
  cases hb : labelBit delta j with
  | false => rfl
  | true => exact absurd ⟨j, hj, hb⟩ hn

/-- Row `q` of the error matrix "column `i` at every row of `S`". -/
theorem posRow_colAt (S : List Nat) (i q : Nat) (hnd : S.Nodup) :
    posRow (colAt S i) q = if q ∈ S then bitLabel i else 0#128 := by
  by_cases h : q ∈ S
  · rw [if_pos h, posRow_colAt_mem _ _ _ hnd h]
  · rw [if_neg h, posRow_colAt_not_mem _ _ _ h]

/-! ### Error masks for a given error matrix -/

/-- One chunk of an error mask: the chunk of `size` bytes (`size / K` byte-rows
per column) whose rows, as `createLabels` reads them, are `e ofs, e (ofs+1), …`. -/
def maskChunk (e : Nat → Label) (ofs size : Nat) : Bytes :=
  mk size fun k => byteOfBits fun t => labelBit (e (ofs + 8 * (k % (size / K)) + t)) (k / (size / K))

/-- Error masks with the shape of `msgs` whose rows are `e ofs, e (ofs+1), …`. -/
def maskLike (e : Nat → Label) : Nat → List Bytes → List Bytes
  | _, [] => []
  | ofs, u :: us => maskChunk e ofs u.size :: maskLike e (ofs + u.size / K * 8) us

@[simp] theorem size_maskChunk (e : Nat → Label) (ofs size : Nat) : (maskChunk e ofs size).size = size := by
  simp [maskChunk]

theorem shape_maskLike (e : Nat → Label) : ∀ (msgs : List Bytes) (ofs : Nat), Shape msgs (maskLike e ofs msgs) := by
  intro msgs
  induction msgs with
  | nil => intro _; trivial
  | cons u us ih => intro ofs; exact ⟨size_maskChunk .., ih _⟩

theorem createLabels_maskChunk (e : Nat → Label) (ofs size len idx : Nat) (h : idx < min (size / K * 8) len) :
    (createLabels len (maskChunk e ofs size) (size / K)).getD idx 0#128 = e (ofs + idx) := by
  rw [getD_createLabels _ _ _ _ h]
  apply label_ext
  intro j hj
  rw [labelBit_labelOfBits _ _ hj]
  have hk : idx / 8 < size / K := by omega
  have hlt : j * (size / K) + idx / 8 < size := by
    have h1 := idx_lt (i := j) (k := idx / 8) (w := size / K) hj hk
    have h2 : K * (size / K) ≤ size := Nat.mul_div_le size K
    omega
  unfold maskChunk
  rw [bget_mk _ _ _ hlt, getLsbD_byteOfBits _ _ (Nat.mod_lt _ (by omega)), idx_div hk, idx_mod hk]
  have : ofs + 8 * (idx / 8) + idx % 8 = ofs + idx := by omega
  rw [this]

theorem rowsLoop_maskLike (e : Nat → Label) (n : Nat) : ∀ (fuel ofs : Nat) (msgs : List Bytes) (i : Nat),
    i < (rowsLoop n fuel ofs (maskLike e ofs msgs)).length →
    (rowsLoop n fuel ofs (maskLike e ofs msgs)).getD i 0#128 = e (ofs + i) := by
  intro fuel
  induction fuel with
  | zero => intro ofs msgs i hi; simp [rowsLoop] at hi
  | succ f ih =>
    intro ofs msgs i hi
    by_cases h : ofs < n
    · cases msgs with
      | nil => simp [rowsLoop, maskLike] at hi
      | cons u us =>
        have hR : rowsLoop n (f + 1) ofs (maskLike e ofs (u :: us)) =
            createLabels (n - ofs) (maskChunk e ofs u.size) (u.size / K) ++
              rowsLoop n f (ofs + u.size / K * 8) (maskLike e (ofs + u.size / K * 8) us) := by
          simp only [rowsLoop, maskLike, h, if_true, size_maskChunk]
        rw [hR] at hi ⊢
        by_cases hil : i < min (u.size / K * 8) (n - ofs)
        · rw [getD_append_left _ _ _ _ (by simpa using hil)]
          exact createLabels_maskChunk e ofs u.size (n - ofs) i hil
        · rw [getD_append_right _ _ _ _ (by simp only [length_createLabels]; omega)]
          simp only [List.length_append, length_createLabels] at hi
          by_cases hfull : u.size / K * 8 ≤ n - ofs
          · have hmin : min (u.size / K * 8) (n - ofs) = u.size / K * 8 := by omega
            simp only [length_createLabels, hmin] at hi ⊢
            rw [ih _ _ _ (by omega)]
            congr 1; omega
          · rw [rowsLoop_done _ _ _ _ (by omega)] at hi
            simp at hi; omega
    · rw [rowsLoop_done _ _ _ _ (by omega)] at hi
      simp at hi

/-- The error masks of a whole malicious-mode call (payload batch chunks `m1`,
check batch chunks `m2`) whose error matrix has the rows `e 0 .. e (n+255)`. -/
theorem errRow_maskLike (e : Nat → Label) (n : Nat) (m1 m2 : List Bytes)
    (h1 : (rowsOf n (maskLike e 0 m1)).length = n)
    (h2 : (rowsOf 256 (maskLike (fun r => e (n + r)) 0 m2)).length = 256) (r : Nat) (hr : r < n + 256) :
    errRow n (maskLike e 0 m1) (maskLike (fun r => e (n + r)) 0 m2) r = e r := by
  unfold errRow
  by_cases h : r < n
  · simp only [h, if_true]
    have := rowsLoop_maskLike e n (n + 1) 0 m1 r (by rw [show rowsLoop n (n + 1) 0 _ = rowsOf n _ from rfl, h1]; exact h)
    rw [Nat.zero_add] at this
    exact this
  · simp only [h, if_false]
    have := rowsLoop_maskLike (fun r => e (n + r)) 256 (256 + 1) 0 m2 (r - n)
      (by rw [show rowsLoop 256 (256 + 1) 0 _ = rowsOf 256 _ from rfl, h2]; omega)
    rw [show rowsLoop 256 (256 + 1) 0 _ = rowsOf 256 _ from rfl] at this
    rw [this]
    congr 1; omega

/-- Every error matrix is realisable: for every `e` there are error masks with
the shape of the chunks of a malicious-mode call (payload batch of `b.size`
rows, check batch of 256 rows) whose error matrix is `e` on all rows. -/
theorem kos_rows_realisable (R0 R1 SS : Nat → Nat → Byte) (delta : Label) (hb : BaseOK R0 R1 SS delta)
    (rs : RecvSt) (ss : SendSt) (hs : InStep rs ss) (b : Array Bool) (b0 b1 : Label) (e : Nat → Label) :
    ∃ E1 E2 : List Bytes,
      Shape (receive R0 R1 rs b).2.2 E1 ∧
      Shape (receive R0 R1 (receive R0 R1 rs b).1 (bcvOf b0 b1)).2.2 E2 ∧
      ∀ q, q < b.size + 256 → errRow b.size E1 E2 q = e q := by
  let E1 := maskLike e 0 (receive R0 R1 rs b).2.2
  let E2 := maskLike (fun r => e (b.size + r)) 0 (receive R0 R1 (receive R0 R1 rs b).1 (bcvOf b0 b1)).2.2
  have h1 : Shape (receive R0 R1 rs b).2.2 E1 := shape_maskLike ..
  have h2 : Shape (receive R0 R1 (receive R0 R1 rs b).1 (bcvOf b0 b1)).2.2 E2 := shape_maskLike ..
  obtain ⟨ss1, _, _, hst1, _, _, hl1, _⟩ := label_call_err R0 R1 SS delta hb rs ss hs b E1 [] h1
  obtain ⟨_, _, _, _, _, _, hl2, _⟩ :=
    label_call_err R0 R1 SS delta hb (receive R0 R1 rs b).1 ss1 hst1 (bcvOf b0 b1) E2 [] h2
  rw [size_bcvOf] at hl2
  exact ⟨E1, E2, h1, h2, fun q hq => errRow_maskLike e b.size _ _ hl1 hl2 q hq⟩

end Mpc.Kos

/-
Helper lemmas for C02 (and C16): message-level round trips, value packing.
-/
import MpcVerif.Model.Proto2
import MpcVerif.Proofs.Garble

namespace Mpc
open LabelAlg

variable {L : Type} [LabelAlg L]

theorem recvLabels_roundtrip (ls : List L) (rest : List (Msg L)) :
    recvLabels ls.length (ls.map .label ++ rest) = .ok (ls, rest) := by
  induction ls with
  | nil => simp [recvLabels]
  | cons l ls ih => simp [recvLabels, ih]

theorem recvRows_roundtrip (rows : List (List L)) (rest : List (Msg L)) :
    recvRows rows.length
      (rows.flatMap (fun row => .u32 row.length :: row.map .label) ++ rest) = .ok (rows, rest) := by
  induction rows with
  | nil => simp [recvRows]
  | cons row rows ih =>
    simp only [List.flatMap_cons, List.length_cons, List.cons_append, List.append_assoc, recvRows]
    rw [recvLabels_roundtrip]
    simp only [ih]

theorem garbleGates_rows_count (H : Hash L) (r : L) (gs : List Gate) (ws : Store (WireL L))
    (id : Nat) : (garbleGates H r gs ws id).2.2.length = gs.length := by
  have := congrArg List.length (garbleGates_rows_length H r gs ws id)
  simpa using this

theorem garble_rows_count (c : Circuit) (H : Hash L) (r : L) (inl : Nat → L) :
    (c.garble H r inl).rows.length = c.gates.length := by
  simp only [Circuit.garble]
  exact garbleGates_rows_count H r c.gates _ 0

theorem garbleGates_wires_size' (c : Circuit) (H : Hash L) (r : L) (inl : Nat → L) :
    (c.garble H r inl).wires.size = c.numWires := by
  simp only [Circuit.garble]
  rw [garbleGates_size]
  simp

theorem evaluatorRecv1_flight1 (p : Circuit2) (key : List UInt8) (H : Hash L) (r : L)
    (inl : Nat → L) (x : List Bool) :
    evaluatorRecv1 p (garblerFlight1 p key (p.c.garble H r inl) x) =
      .ok (key, (p.c.garble H r inl).rows, garblerInputLabels p (p.c.garble H r inl) x, []) := by
  simp only [garblerFlight1, tablesMsgs, evaluatorRecv1, List.cons_append]
  rw [garble_rows_count]
  simp only [ne_eq, not_true_eq_false, if_false]
  have h1 := recvRows_roundtrip (p.c.garble H r inl).rows
    ((garblerInputLabels p (p.c.garble H r inl) x).map Msg.label)
  rw [garble_rows_count] at h1
  rw [h1]
  simp only
  have h2 := recvLabels_roundtrip (garblerInputLabels p (p.c.garble H r inl) x) ([] : List (Msg L))
  have hl : (garblerInputLabels p (p.c.garble H r inl) x).length = p.n0 := by
    simp [garblerInputLabels]
  rw [hl, List.append_nil] at h2
  rw [h2]

/-! ### Values -/

theorem bytesToNatBE_append (a : List UInt8) (b : UInt8) :
    bytesToNatBE (a ++ [b]) = bytesToNatBE a * 256 + b.toNat := by
  simp [bytesToNatBE, List.foldl_append]

theorem bytes_roundtrip (n : Nat) : bytesToNatBE (natToBytesBE n) = n := by
  induction n using Nat.strongRecOn with
  | _ n ih =>
    rw [natToBytesBE]
    split
    · next h => subst h; rfl
    · next h =>
      rw [bytesToNatBE_append, ih (n / 256) (by omega)]
      have : (UInt8.ofNat (n % 256)).toNat = n % 256 := by
        simp [UInt8.toNat_ofNat']
      rw [this]
      omega

/-- Consecutive chunks of the given widths. -/
def chunk : List Nat → List Bool → List (List Bool)
  | [], _ => []
  | w :: ws, bs => bs.take w :: chunk ws (bs.drop w)

theorem bit_add_two_mul_mod (b n m : Nat) (hb : b < 2) (hm : 0 < m) :
    (b + 2 * n) % (m * 2) = b + 2 * (n % m) := by
  have h := Nat.div_add_mod n m
  have h2 : b + 2 * n = b + 2 * (n % m) + (m * 2) * (n / m) := by
    have : 2 * n = 2 * (m * (n / m) + n % m) := by rw [h]
    rw [this, Nat.mul_add, ← Nat.mul_assoc, Nat.mul_comm 2 m]
    omega
  rw [h2, Nat.add_mul_mod_self_left]
  have := Nat.mod_lt n hm
  exact Nat.mod_eq_of_lt (by omega)

theorem packLE_mod (bs : List Bool) (w : Nat) : packLE bs % 2 ^ w = packLE (bs.take w) := by
  induction w generalizing bs with
  | zero => simp [packLE, Nat.mod_one]
  | succ w ih =>
    cases bs with
    | nil => simp [packLE]
    | cons b bs =>
      simp only [packLE, List.take_succ_cons]
      rw [← ih bs]
      rw [Nat.pow_succ]
      cases b
      · simpa using bit_add_two_mul_mod 0 (packLE bs) (2 ^ w) (by omega) (Nat.two_pow_pos w)
      · simpa using bit_add_two_mul_mod 1 (packLE bs) (2 ^ w) (by omega) (Nat.two_pow_pos w)

theorem packLE_div (bs : List Bool) (w : Nat) : packLE bs / 2 ^ w = packLE (bs.drop w) := by
  induction w generalizing bs with
  | zero => simp
  | succ w ih =>
    cases bs with
    | nil => simp [packLE]
    | cons b bs =>
      simp only [packLE, List.drop_succ_cons]
      rw [← ih bs, Nat.pow_succ, Nat.mul_comm (2 ^ w) 2, ← Nat.div_div_eq_div_mul]
      have h : ((if b = true then 1 else 0) + 2 * packLE bs) / 2 = packLE bs := by
        cases b <;> simp <;> omega
      rw [h]

theorem splitNat_packLE (ws : List Nat) (bs : List Bool) :
    splitNat ws (packLE bs) = (chunk ws bs).map packLE := by
  induction ws generalizing bs with
  | nil => rfl
  | cons w ws ih =>
    simp only [splitNat, chunk, List.map_cons]
    rw [packLE_mod, packLE_div, ih]

end Mpc

/-
Honest malicious-mode calls on caller-provided result buffers
(Model/KosBuf.lean): with the assigning transposition the receiver's messages
do not depend on what the buffer held, so completeness (`kos_run` with zero
error masks, i.e. `C15_kos_complete`) carries over to every history.
-/
import MpcVerif.Model.KosBuf
import MpcVerif.Proofs.Kos
import MpcVerif.Proofs.IknpBuf

namespace Mpc.Kos
open Mpc.Iknp Mpc.Clmul

theorem receiveKosAt_assign (X : Label → Nat → Label) (R0 R1 : Nat → Nat → Byte) (st : RecvSt) (b : Array Bool)
    (b0 b1 seed2 : Label) (result : Array Label) (hs : result.size = b.size) :
    receiveKosAt Store.assign X R0 R1 st b b0 b1 seed2 result = some (receiveKos X R0 R1 st b b0 b1 seed2) := by
  unfold receiveKosAt
  rw [receiveAt_assign _ _ _ _ _ hs]
  simp only
  rw [receiveAt_assign _ _ _ _ _ (by simp [zerosL, size_bcvOf])]
  rfl

/-- Completeness of one call (the statement of `C15_kos_complete`, proved here
from `kos_run` so that the history lemma below can use it). -/
theorem kos_complete_call (X : Label → Nat → Label) (R0 R1 SS : Nat → Nat → Byte) (delta : Label)
    (hb : BaseOK R0 R1 SS delta) (rs : RecvSt) (ss : SendSt) (hs : InStep rs ss) (b : Array Bool)
    (b0 b1 seed2 : Label) :
    ∃ ss' sent,
      sendKos X SS delta ss b.size (receiveKos X R0 R1 rs b b0 b1 seed2).msgs
          (receiveKos X R0 R1 rs b b0 b1 seed2).resp =
        some { st := ss', labels := sent, restData := [], restLabels := [] } ∧
      InStep (receiveKos X R0 R1 rs b b0 b1 seed2).st ss' ∧ sent.length = b.size ∧
      (receiveKos X R0 R1 rs b b0 b1 seed2).labels.length = b.size ∧
      ∀ i, i < b.size →
        (receiveKos X R0 R1 rs b b0 b1 seed2).labels.getD i 0#128 =
          sent.getD i 0#128 ^^^ (if b.getD i false then delta else 0#128) := by
  obtain ⟨ss', sent, h1, h2, h3, h4, h5⟩ := kos_run X R0 R1 SS delta hb rs ss hs b b0 b1 seed2
    (zeroLike (receive R0 R1 rs b).2.2) (zeroLike (receive R0 R1 (receive R0 R1 rs b).1 (bcvOf b0 b1)).2.2) []
    (shape_zeroLike _) (shape_zeroLike _)
  refine ⟨ss', sent, ?_, h1, h2, h3, ?_⟩
  · have := h5 (receiveKos X R0 R1 rs b b0 b1 seed2).x (receiveKos X R0 R1 rs b b0 b1 seed2).t0
      (receiveKos X R0 R1 rs b b0 b1 seed2).t1 []
    rw [xorMsgs_zeroLike, xorMsgs_zeroLike,
      residual_zero _ _ _ _ _ _ _ (fun r _ => by rw [errRow_zeroLike]; simp), if_pos rfl] at this
    rw [← this]
    simp [receiveKos, RecvOut.resp]
  · intro i hi
    have := h4 i hi
    rw [errRow_zeroLike] at this
    simpa using this

/-- Caller obligations of a call of a history (`Iknp.BufSrc.WF`, label form). -/
def KCall.WF (SL : Nat) (c : KCall) : Prop := c.buf.WF SL c.b.size true

/-- What an honest malicious-mode call delivers: `n` labels on both sides,
`received_i = sent_i xor choice_i*Delta`. -/
def KSpec (delta : Label) (c : KCall) (o : RecvOut × List Label) : Prop :=
  o.2.length = c.b.size ∧ o.1.labels.length = c.b.size ∧
  ∀ i, i < c.b.size → o.1.labels.getD i 0#128 = o.2.getD i 0#128 ^^^ (if c.b.getD i false then delta else 0#128)

theorem call_okK (X : Label → Nat → Label) (R0 R1 SS : Nat → Nat → Byte) (delta : Label) (hb : BaseOK R0 R1 SS delta)
    (rs : RecvSt) (ss : SendSt) (hs : InStep rs ss) (ar : Array Label) (SL : Nat) (har : ar.size = SL)
    (c : KCall) (hc : c.WF SL) :
    ∃ rs' ss' ar' r sent, runKCall Store.assign X R0 R1 SS delta rs ss ar c = some (rs', ss', ar', r, sent) ∧
      InStep rs' ss' ∧ ar'.size = SL ∧ KSpec delta c (r, sent) := by
  obtain ⟨a, off, len, e1, _, e3, e4⟩ := resolve_ok 0#128 ar SL c.b.size true c.buf har hc
  have hlen : len = c.b.size := e3 rfl
  subst hlen
  obtain ⟨ss', sent, h1, h2, h3, h4, h5⟩ := kos_complete_call X R0 R1 SS delta hb rs ss hs c.b c.b0 c.b1 c.seed2
  refine ⟨(receiveKos X R0 R1 rs c.b c.b0 c.b1 c.seed2).st, ss',
    c.buf.commit 0#128 ar a off (receiveKos X R0 R1 rs c.b c.b0 c.b1 c.seed2).labels.toArray,
    receiveKos X R0 R1 rs c.b c.b0 c.b1 c.seed2, sent, ?_, h2, e4 _, h3, h4, h5⟩
  simp only [runKCall, e1, receiveKosAt_assign _ _ _ _ _ _ _ _ _ (size_window ..), h1]

theorem sessionK_ok (X : Label → Nat → Label) (R0 R1 SS : Nat → Nat → Byte) (delta : Label) (hb : BaseOK R0 R1 SS delta)
    (SL : Nat) :
    ∀ (cs : List KCall) (rs : RecvSt) (ss : SendSt) (ar : Array Label), InStep rs ss → ar.size = SL →
      (∀ c ∈ cs, c.WF SL) →
      ∃ outs, sessionK Store.assign X R0 R1 SS delta rs ss ar cs = some outs ∧ outs.length = cs.length ∧
        ∀ k (hk : k < cs.length) (hk' : k < outs.length), KSpec delta cs[k] outs[k] := by
  intro cs
  induction cs with
  | nil => intro rs ss ar _ _ _; exact ⟨[], rfl, rfl, fun k hk => absurd hk (Nat.not_lt_zero _)⟩
  | cons c cs ih =>
    intro rs ss ar hs har hwf
    obtain ⟨rs', ss', ar', r, sent, h1, h2, h2', h3⟩ :=
      call_okK X R0 R1 SS delta hb rs ss hs ar SL har c (hwf c (List.mem_cons_self ..))
    obtain ⟨outs, h4, h5, h6⟩ := ih rs' ss' ar' h2 h2' (fun c' hc' => hwf c' (List.mem_cons_of_mem _ hc'))
    refine ⟨(r, sent) :: outs, ?_, by simp [h5], ?_⟩
    · simp only [sessionK, h1, h4, Option.map_some]
    · intro k hk hk'
      cases k with
      | zero => exact h3
      | succ k => exact h6 k (by simpa using hk) (by simpa using hk')

end Mpc.Kos

/-
Types and aggregate values for the correctness proof of `Ssa.lower`
(Model/MpclLower.lean): `Ty.decode` / `Val.encode` on arbitrary (nested) types,
reading a component of the flattened wire pattern (`slice`) and replacing one
(`amov`).  Arrays are reduced to structs of equal fields (`decode_arr`).
-/
import MpcVerif.Model.MpclSsa
import MpcVerif.Proofs.Mpcl

namespace Mpc.Mpcl.Ssa
open Mpc.Mpcl

theorem two_pow_pos' (w : Nat) : 0 < 2 ^ w := Nat.pos_of_ne_zero (by simp)

/-! ### Bit-level arithmetic -/

/-- `(a >>> s) % 2^w` only depends on `a % 2^(s+w)`. -/
theorem shr_mod (a s w : Nat) : (a >>> s) % 2 ^ w = (a % 2 ^ (s + w)) >>> s := by
  rw [Nat.shiftRight_eq_div_pow, Nat.shiftRight_eq_div_pow, Nat.pow_add, Nat.mod_mul_right_div_self]

theorem mod_mod_pow {a : Nat} {w w' : Nat} (h : w ≤ w') : (a % 2 ^ w') % 2 ^ w = a % 2 ^ w :=
  Nat.mod_mod_of_dvd a (Nat.pow_dvd_pow 2 h)

theorem mod_congr_le {a b w w' : Nat} (h : w ≤ w') (e : a % 2 ^ w' = b % 2 ^ w') : a % 2 ^ w = b % 2 ^ w := by
  rw [← mod_mod_pow (a := a) h, e, mod_mod_pow h]

theorem shr_mod_congr {a b s w : Nat} (e : a % 2 ^ (s + w) = b % 2 ^ (s + w)) :
    (a >>> s) % 2 ^ w = (b >>> s) % 2 ^ w := by
  rw [shr_mod, shr_mod, e]

/-- Splitting the low `s + w` bits. -/
theorem mod_pow_add (a s w : Nat) : a % 2 ^ (s + w) = a % 2 ^ s + 2 ^ s * ((a >>> s) % 2 ^ w) := by
  rw [Nat.pow_add, Nat.mod_mul, Nat.shiftRight_eq_div_pow]

/-- The pattern `amov` writes: bits `[off, off+w)` of `n` replaced by `v`. -/
def amovv (v n off w : Nat) : Nat := n % 2 ^ off + (v % 2 ^ w) <<< off + (n >>> (off + w)) <<< (off + w)

theorem amovv_eq (v n off w : Nat) :
    amovv v n off w = n % 2 ^ off + 2 ^ off * (v % 2 ^ w + 2 ^ w * (n >>> (off + w))) := by
  unfold amovv
  rw [Nat.shiftLeft_eq, Nat.shiftLeft_eq, Nat.pow_add, Nat.add_assoc, Nat.mul_add]
  congr 1
  rw [Nat.mul_comm (v % 2 ^ w), Nat.mul_comm (n >>> _), Nat.mul_assoc]

theorem amovv_low (v n off w s : Nat) (h : s ≤ off) : amovv v n off w % 2 ^ s = n % 2 ^ s := by
  rw [amovv_eq]
  obtain ⟨d, rfl⟩ := Nat.exists_eq_add_of_le h
  rw [Nat.pow_add, Nat.mul_assoc, Nat.add_mul_mod_self_left, ← Nat.pow_add, mod_mod_pow (Nat.le_add_right s d)]

theorem amovv_shr_off (v n off w : Nat) : amovv v n off w >>> off = v % 2 ^ w + 2 ^ w * (n >>> (off + w)) := by
  rw [amovv_eq, Nat.shiftRight_eq_div_pow, Nat.add_mul_div_left _ _ (two_pow_pos' off),
    Nat.div_eq_of_lt (Nat.mod_lt _ (two_pow_pos' off)), Nat.zero_add]

theorem amovv_mid (v n off w : Nat) : (amovv v n off w >>> off) % 2 ^ w = v % 2 ^ w := by
  rw [amovv_shr_off, Nat.add_mul_mod_self_left, Nat.mod_mod]

theorem amovv_high (v n off w : Nat) : amovv v n off w >>> (off + w) = n >>> (off + w) := by
  rw [Nat.shiftRight_add, amovv_shr_off, Nat.shiftRight_eq_div_pow, Nat.add_mul_div_left _ _ (two_pow_pos' w),
    Nat.div_eq_of_lt (Nat.mod_lt _ (two_pow_pos' w)), Nat.zero_add]

/-- Dropping `s <= off` low bits commutes with `amovv`. -/
theorem amovv_shr (v n off w s : Nat) : amovv v n (s + off) w >>> s = amovv v (n >>> s) off w := by
  rw [amovv_eq, amovv_eq, mod_pow_add n s off, Nat.add_assoc, Nat.pow_add, Nat.mul_assoc, ← Nat.mul_add,
    Nat.shiftRight_eq_div_pow, Nat.add_mul_div_left _ _ (two_pow_pos' s),
    Nat.div_eq_of_lt (Nat.mod_lt _ (two_pow_pos' s)), Nat.zero_add, Nat.add_assoc s off w, Nat.shiftRight_add n s (off + w)]

theorem amovv_lt {v n off w b : Nat} (hn : n < 2 ^ b) (hb : off + w ≤ b) : amovv v n off w < 2 ^ b := by
  apply Nat.lt_pow_two_of_testBit
  intro i hi
  by_cases h1 : i < off
  · have : (amovv v n off w).testBit i = n.testBit i := by
      have e := amovv_low v n off w (i + 1) (by omega)
      have := congrArg (fun x => x.testBit i) e
      simpa [Nat.testBit_mod_two_pow] using this
    rw [this]; exact Nat.testBit_lt_two_pow (Nat.lt_of_lt_of_le hn (Nat.pow_le_pow_right (by decide) hi))
  · have hge : off + w ≤ i := by omega
    obtain ⟨d, rfl⟩ := Nat.exists_eq_add_of_le hge
    rw [← Nat.testBit_shiftRight, amovv_high, Nat.testBit_shiftRight]
    exact Nat.testBit_lt_two_pow (Nat.lt_of_lt_of_le hn (Nat.pow_le_pow_right (by decide) hi))

theorem testBit_amovv (v n off w i : Nat) :
    (amovv v n off w).testBit i =
      if i < off then n.testBit i else if i < off + w then v.testBit (i - off) else n.testBit i := by
  by_cases h1 : i < off
  · simp only [h1, if_true]
    have e := amovv_low v n off w off (Nat.le_refl _)
    have := congrArg (fun x => x.testBit i) e
    simpa [Nat.testBit_mod_two_pow, h1] using this
  · simp only [h1, if_false]
    obtain ⟨j, rfl⟩ := Nat.exists_eq_add_of_le (Nat.le_of_not_lt h1)
    rw [← Nat.testBit_shiftRight, Nat.add_sub_cancel_left]
    by_cases h2 : j < w
    · have h2' : off + j < off + w := by omega
      simp only [h2', if_true]
      have := congrArg (fun x => x.testBit j) (amovv_mid v n off w)
      simpa [Nat.testBit_mod_two_pow, h2] using this
    · have h2' : ¬ off + j < off + w := by omega
      simp only [h2', if_false]
      obtain ⟨d, rfl⟩ := Nat.exists_eq_add_of_le (Nat.le_of_not_lt h2)
      rw [← Nat.testBit_shiftRight, ← Nat.shiftRight_add, amovv_high, Nat.testBit_shiftRight, Nat.add_assoc]

/-- Replacing inside a component = replacing at the summed offset. -/
theorem amovv_nested (v n o1 o2 w b : Nat) (h : o2 + w ≤ b) :
    amovv (amovv v (n >>> o1) o2 w) n o1 b = amovv v n (o1 + o2) w := by
  apply Nat.eq_of_testBit_eq
  intro i
  simp only [testBit_amovv, Nat.testBit_shiftRight]
  by_cases h1 : i < o1
  · have : i < o1 + o2 := by omega
    simp [h1, this]
  · obtain ⟨j, rfl⟩ := Nat.exists_eq_add_of_le (Nat.le_of_not_lt h1)
    simp only [h1, if_false, Nat.add_sub_cancel_left]
    by_cases h2 : o1 + j < o1 + b
    · simp only [h2, if_true]
      by_cases h3 : j < o2
      · have : o1 + j < o1 + o2 := by omega
        simp [h3, this]
      · have h3' : ¬ o1 + j < o1 + o2 := by omega
        simp only [h3, h3', if_false]
        by_cases h4 : j < o2 + w
        · have : o1 + j < o1 + o2 + w := by omega
          simp only [h4, this, if_true]
          congr 1; omega
        · have : ¬ o1 + j < o1 + o2 + w := by omega
          simp [h4, this]
    · have h5 : ¬ o1 + j < o1 + o2 := by omega
      have h6 : ¬ o1 + j < o1 + o2 + w := by omega
      simp [h2, h5, h6]

/-! ### `decode` on lists of field types -/

theorem bitsList_append (as bs : List Ty) : bitsList (as ++ bs) = bitsList as + bitsList bs := by
  induction as with
  | nil => simp [bitsList]
  | cons t ts ih => simp [bitsList, ih, Nat.add_assoc]

theorem bitsList_replicate (k : Nat) (e : Ty) : bitsList (List.replicate k e) = k * e.bits := by
  induction k with
  | zero => simp [bitsList]
  | succ k ih => simp [List.replicate_succ, bitsList, ih, Nat.succ_mul, Nat.add_comm]

theorem bitsList_take_le (ts : List Ty) (k : Nat) : bitsList (ts.take k) ≤ bitsList ts := by
  have := bitsList_append (ts.take k) (ts.drop k)
  rw [List.take_append_drop] at this
  omega

/-- Offset + width of field `k` stays inside. -/
theorem field_inside {ts : List Ty} {k : Nat} {t : Ty} (h : ts[k]? = some t) :
    bitsList (ts.take k) + t.bits ≤ bitsList ts := by
  induction ts generalizing k with
  | nil => simp at h
  | cons t0 ts ih =>
    cases k with
    | zero => simp at h; subst h; simp [bitsList]
    | succ k =>
      simp at h
      have := ih h
      simp [List.take_succ_cons, bitsList]; omega

theorem decodeList_length (ts : List Ty) (n : Nat) : (decodeList ts n).length = ts.length := by
  induction ts generalizing n with
  | nil => simp [decodeList]
  | cons t ts ih => simp [decodeList, ih]

/-- Reading field `k`: the pattern from its offset on. -/
theorem decodeList_get (ts : List Ty) (n k : Nat) :
    (decodeList ts n)[k]? = (ts[k]?).map fun t => t.decode (n >>> bitsList (ts.take k)) := by
  induction ts generalizing n k with
  | nil => simp [decodeList]
  | cons t ts ih =>
    cases k with
    | zero => simp [decodeList, bitsList]
    | succ k => simp [decodeList, ih, List.take_succ_cons, bitsList, Nat.shiftRight_add]

/-- An array is a struct of `k` equal fields. -/
theorem range_map_decode (e : Ty) (k n : Nat) :
    ((List.range k).map fun i => e.decode (n >>> (i * e.bits))) = decodeList (List.replicate k e) n := by
  induction k generalizing n with
  | zero => simp [decodeList]
  | succ k ih =>
    rw [List.range_succ_eq_map, List.map_cons, List.map_map, List.replicate_succ, decodeList, ← ih]
    simp only [Nat.zero_mul, Nat.shiftRight_zero, List.cons.injEq, true_and]
    apply List.map_congr_left
    intro i _
    simp only [Function.comp, Nat.succ_mul, Nat.add_comm (i * e.bits), Nat.shiftRight_add]

theorem decode_arr (e : Ty) (k n : Nat) : Ty.decode (.arr k e) n = .agg (decodeList (List.replicate k e) n) := by
  simp only [Ty.decode, range_map_decode]

theorem bits_arr (e : Ty) (k : Nat) : (Ty.arr k e).bits = bitsList (List.replicate k e) := by
  simp only [Ty.bits, bitsList_replicate]

theorem replicate_get {k i : Nat} (e : Ty) (h : i < k) : (List.replicate k e)[i]? = some e := by
  simp [h]

theorem bitsList_take_replicate {k i : Nat} (e : Ty) (h : i ≤ k) :
    bitsList ((List.replicate k e).take i) = i * e.bits := by
  rw [List.take_replicate, Nat.min_eq_left h, bitsList_replicate]

/-! ### General facts by recursion over the type -/

mutual
/-- `decode` only looks at the low `t.bits` bits. -/
theorem decode_congr : ∀ (t : Ty) (a b : Nat), a % 2 ^ t.bits = b % 2 ^ t.bits → t.decode a = t.decode b
  | .bool, a, b, h => by
    simp only [Ty.bits, Nat.pow_one] at h
    simp [Ty.decode, h]
  | .int w, a, b, h => by simp only [Ty.bits] at h; simp [Ty.decode, h]
  | .uint w, a, b, h => by simp only [Ty.bits] at h; simp [Ty.decode, h]
  | .arr k e, a, b, h => by
    rw [decode_arr, decode_arr]
    rw [bits_arr] at h
    congr 1
    exact decodeRep_congr e k a b (by rwa [bitsList_replicate] at h)
  | .struct fs, a, b, h => by
    simp only [Ty.bits] at h
    simp only [Ty.decode]
    congr 1
    exact decodeList_congr fs a b h
theorem decodeList_congr : ∀ (ts : List Ty) (a b : Nat), a % 2 ^ bitsList ts = b % 2 ^ bitsList ts →
    decodeList ts a = decodeList ts b
  | [], _, _, _ => rfl
  | t :: ts, a, b, h => by
    simp only [bitsList] at h
    simp only [decodeList]
    rw [decode_congr t a b (mod_congr_le (Nat.le_add_right _ _) h)]
    congr 1
    apply decodeList_congr ts
    exact shr_mod_congr h
theorem decodeRep_congr : ∀ (e : Ty) (k : Nat) (a b : Nat), a % 2 ^ (k * e.bits) = b % 2 ^ (k * e.bits) →
    decodeList (List.replicate k e) a = decodeList (List.replicate k e) b
  | _, 0, _, _, _ => rfl
  | e, k + 1, a, b, h => by
    rw [Nat.succ_mul, Nat.add_comm] at h
    simp only [List.replicate_succ, decodeList]
    rw [decode_congr e a b (mod_congr_le (Nat.le_add_right _ _) h)]
    congr 1
    apply decodeRep_congr e k
    exact shr_mod_congr h
end

theorem decode_mod_bits (t : Ty) (a : Nat) : t.decode (a % 2 ^ t.bits) = t.decode a :=
  decode_congr t _ _ (Nat.mod_mod _ _)

/-- Replacing field `k`: `amov` at its offset. -/
theorem decodeList_set : ∀ (ts : List Ty) (k : Nat) (t : Ty) (n v : Nat), ts[k]? = some t →
    decodeList ts (amovv v n (bitsList (ts.take k)) t.bits) = (decodeList ts n).set k (t.decode v)
  | [], k, t, n, v, h => by simp at h
  | t0 :: ts, 0, t, n, v, h => by
    simp only [List.getElem?_cons_zero, Option.some.injEq] at h
    subst h
    simp only [List.take_zero, bitsList, decodeList, List.set_cons_zero]
    rw [decode_congr t0 (amovv v n 0 t0.bits) v (by have := amovv_mid v n 0 t0.bits; simpa using this)]
    congr 1
    have := amovv_high v n 0 t0.bits
    simp only [Nat.zero_add] at this
    rw [this]
  | t0 :: ts, k + 1, t, n, v, h => by
    simp only [List.getElem?_cons_succ] at h
    simp only [List.take_succ_cons, bitsList, decodeList, List.set_cons_succ]
    rw [decode_congr t0 (amovv v n (t0.bits + bitsList (ts.take k)) t.bits) n
      (amovv_low v n _ _ _ (Nat.le_add_right _ _)), amovv_shr, decodeList_set ts k t (n >>> t0.bits) v h]

mutual
theorem encode_decode_gen : ∀ (t : Ty) (a : Nat), (t.decode a).encode = (a % 2 ^ t.bits, t.bits)
  | .bool, a => by
    simp only [Ty.decode, Val.encode, Ty.bits, Nat.pow_one]
    have : a % 2 = 0 ∨ a % 2 = 1 := by omega
    rcases this with h | h <;> simp [h]
  | .int w, a => by simp [Ty.decode, Val.encode, Ty.bits]
  | .uint w, a => by simp [Ty.decode, Val.encode, Ty.bits]
  | .arr k e, a => by
    rw [decode_arr, Val.encode, encodeRep_decode e k a]
    simp [Ty.bits]
  | .struct fs, a => by
    simp only [Ty.decode, Val.encode, Ty.bits]
    exact encodeList_decode fs a
theorem encodeList_decode : ∀ (ts : List Ty) (a : Nat),
    encodeList (decodeList ts a) = (a % 2 ^ bitsList ts, bitsList ts)
  | [], a => by simp [decodeList, encodeList, bitsList, Nat.mod_one]
  | t :: ts, a => by
    simp only [decodeList, encodeList, bitsList, encode_decode_gen t a, encodeList_decode ts (a >>> t.bits)]
    rw [mod_pow_add a t.bits (bitsList ts), Nat.shiftLeft_eq, Nat.mul_comm]
theorem encodeRep_decode : ∀ (e : Ty) (k : Nat) (a : Nat),
    encodeList (decodeList (List.replicate k e) a) = (a % 2 ^ (k * e.bits), k * e.bits)
  | _, 0, a => by simp [decodeList, encodeList, Nat.mod_one]
  | e, k + 1, a => by
    simp only [List.replicate_succ, decodeList, encodeList, encode_decode_gen e a, encodeRep_decode e k (a >>> e.bits)]
    rw [Nat.succ_mul, Nat.add_comm (k * e.bits), mod_pow_add a e.bits (k * e.bits), Nat.shiftLeft_eq, Nat.mul_comm]
end

theorem encode_decode_lt (t : Ty) {a : Nat} (h : a < 2 ^ t.bits) : (t.decode a).encode = (a, t.bits) := by
  rw [encode_decode_gen, Nat.mod_eq_of_lt h]

theorem allHaveTy_replicate : ∀ (vs : List Val) (e : Ty),
    listHasTy vs (List.replicate vs.length e) = allHaveTy vs e
  | [], _ => by simp [listHasTy, allHaveTy]
  | v :: vs, e => by simp [List.replicate_succ, listHasTy, allHaveTy, allHaveTy_replicate vs e]

mutual
theorem hasTy_decode_gen : ∀ (t : Ty) (a : Nat), (t.decode a).hasTy t = true
  | .bool, a => by simp [Ty.decode, Val.hasTy]
  | .int w, a => by simp [Ty.decode, Val.hasTy, Nat.mod_lt _ (two_pow_pos' w)]
  | .uint w, a => by simp [Ty.decode, Val.hasTy, Nat.mod_lt _ (two_pow_pos' w)]
  | .arr k e, a => by
    rw [decode_arr]
    simp only [Val.hasTy, decodeList_length, List.length_replicate, beq_self_eq_true, Bool.true_and]
    have h := hasTyRep_decode e k a
    have h2 := allHaveTy_replicate (decodeList (List.replicate k e) a) e
    rw [decodeList_length, List.length_replicate] at h2
    rw [← h2]; exact h
  | .struct fs, a => by
    simp only [Ty.decode, Val.hasTy]
    exact listHasTy_decode fs a
theorem listHasTy_decode : ∀ (ts : List Ty) (a : Nat), listHasTy (decodeList ts a) ts = true
  | [], _ => by simp [decodeList, listHasTy]
  | t :: ts, a => by simp [decodeList, listHasTy, hasTy_decode_gen t a, listHasTy_decode ts (a >>> t.bits)]
theorem hasTyRep_decode : ∀ (e : Ty) (k : Nat) (a : Nat),
    listHasTy (decodeList (List.replicate k e) a) (List.replicate k e) = true
  | _, 0, _ => by simp [decodeList, listHasTy]
  | e, k + 1, a => by
    simp [List.replicate_succ, decodeList, listHasTy, hasTy_decode_gen e a, hasTyRep_decode e k (a >>> e.bits)]
end

mutual
theorem sameShape_decode_gen : ∀ (t : Ty) (a b : Nat), (t.decode a).sameShape (t.decode b) = true
  | .bool, a, b => by simp [Ty.decode, Val.sameShape]
  | .int w, a, b => by simp [Ty.decode, Val.sameShape]
  | .uint w, a, b => by simp [Ty.decode, Val.sameShape]
  | .arr k e, a, b => by
    rw [decode_arr, decode_arr]
    simp only [Val.sameShape]
    exact sameShapeRep_decode e k a b
  | .struct fs, a, b => by
    simp only [Ty.decode, Val.sameShape]
    exact sameShapeList_decode fs a b
theorem sameShapeList_decode : ∀ (ts : List Ty) (a b : Nat),
    sameShapeList (decodeList ts a) (decodeList ts b) = true
  | [], _, _ => by simp [decodeList, sameShapeList]
  | t :: ts, a, b => by
    simp [decodeList, sameShapeList, sameShape_decode_gen t a b, sameShapeList_decode ts (a >>> t.bits) (b >>> t.bits)]
theorem sameShapeRep_decode : ∀ (e : Ty) (k : Nat) (a b : Nat),
    sameShapeList (decodeList (List.replicate k e) a) (decodeList (List.replicate k e) b) = true
  | _, 0, _, _ => by simp [decodeList, sameShapeList]
  | e, k + 1, a, b => by
    simp [List.replicate_succ, decodeList, sameShapeList, sameShape_decode_gen e a b,
      sameShapeRep_decode e k (a >>> e.bits) (b >>> e.bits)]
end

mutual
theorem zero_decode_gen : ∀ (t : Ty), t.zero = t.decode 0
  | .bool => by simp [Ty.zero, Ty.decode]
  | .int w => by simp [Ty.zero, Ty.decode]
  | .uint w => by simp [Ty.zero, Ty.decode]
  | .arr k e => by
    simp only [Ty.zero, Ty.decode, Nat.zero_shiftRight, ← zero_decode_gen e]
    congr 1
    apply List.ext_getElem
    · simp
    · intro i h1 h2; simp
  | .struct fs => by
    simp only [Ty.zero, Ty.decode]
    congr 1
    exact zeroList_decode fs
theorem zeroList_decode : ∀ (ts : List Ty), zeroList ts = decodeList ts 0
  | [] => by simp [zeroList, decodeList]
  | t :: ts => by simp [zeroList, decodeList, zero_decode_gen t, zeroList_decode ts]
end

end Mpc.Mpcl.Ssa

/-
C09: `Graph.prune` (model of `Compiler.Prune` / `Gate.Prune`) preserves the
input-to-output function of every well-formed builder graph whose fan-out
counters are not smaller than the real fan-out.
-/
import MpcVerif.Proofs.PassOps

set_option linter.unusedSimpArgs false
set_option linter.unusedVariables false

namespace Mpc
namespace Graph

/-! ### bookkeeping-only updates do not change the function -/

theorem SameGates.compute {G G' : Graph} (h : SameGates G G') (x : List Bool) :
    G'.compute x = G.compute x := by
  simp only [Graph.compute, Graph.evalStore, Graph.liveGates, h.gates, h.wsize, h.nIn, h.outputs]

/-! ### the real fan-out of a wire -/

/-- Number of input slots of gate `g` connected to wire `w`. -/
def slots (w : Nat) (g : BGate) : Nat :=
  (if g.a = w then 1 else 0) + (if g.op ≠ .inv ∧ g.b = w then 1 else 0)

def rdL (w : Nat) : List BGate → Nat
  | [] => 0
  | g :: t => (if g.dead then 0 else slots w g) + rdL w t

/-- Number of input slots of live gates connected to wire `w`. -/
def readers (G : Graph) (w : Nat) : Nat := rdL w G.gates.toList

theorem rdL_zero (w : Nat) : ∀ (l : List BGate), rdL w l = 0 →
    ∀ i, i < l.length → (l.getD i default).dead = false → slots w (l.getD i default) = 0 := by
  intro l
  induction l with
  | nil => intro _ i hi; simp at hi
  | cons g t ih =>
    intro h i hi hd
    simp only [rdL] at h
    cases i with
    | zero =>
      simp only [List.getD_cons_zero] at hd ⊢
      rw [hd] at h
      simp only [Bool.false_eq_true, if_false] at h
      omega
    | succ i =>
      simp only [List.getD_cons_succ] at hd ⊢
      exact ih (by omega) i (by simp at hi; omega) hd

def killG (g : BGate) : BGate := { g with dead := true }

theorem rdL_kill (w : Nat) : ∀ (l : List BGate) (i : Nat), i < l.length →
    (l.getD i default).dead = false →
    rdL w (l.modify i killG) = rdL w l - slots w (l.getD i default) := by
  intro l
  induction l with
  | nil => intro i hi; simp at hi
  | cons g t ih =>
    intro i hi hd
    cases i with
    | zero =>
      simp only [List.getD_cons_zero] at hd ⊢
      simp only [List.modify_cons, if_true, rdL, killG, hd, Bool.false_eq_true, if_false]
      omega
    | succ i =>
      simp only [List.getD_cons_succ] at hd ⊢
      simp only [List.length_cons] at hi
      have := ih i (by omega) hd
      simp only [List.modify_succ_cons, rdL, this]
      -- slots of the killed gate are counted in rdL w t
      have hle : slots w (t.getD i default) ≤ rdL w t := by
        clear this ih
        induction t generalizing i with
        | nil => simp at hi
        | cons g' t' ih' =>
          cases i with
          | zero =>
            simp only [List.getD_cons_zero] at hd ⊢
            simp only [rdL, hd, Bool.false_eq_true, if_false]; omega
          | succ i =>
            simp only [List.getD_cons_succ] at hd ⊢
            have := ih' i (by simp at hi; omega) hd
            simp only [rdL]; omega
      omega

/-! ### accessors for `kill` and `removeOutput` -/

theorem kill_eq (G : Graph) (i : Nat) : (G.kill i).gates = G.gates.modify i killG := rfl

theorem gate_kill (G : Graph) (i j : Nat) :
    (G.kill i).gate j = if j = i ∧ i < G.gates.size then killG (G.gate i) else G.gate j := by
  simp only [gate, kill_eq, getD_modify]

theorem size_kill (G : Graph) (i : Nat) : (G.kill i).gates.size = G.gates.size := by simp [kill_eq]

theorem live_kill (G : Graph) (i j : Nat) : (G.kill i).live j ↔ G.live j ∧ j ≠ i := by
  unfold live
  rw [size_kill, gate_kill]
  constructor
  · rintro ⟨hj, hd⟩
    split at hd
    · simp [killG] at hd
    · rename_i hne
      exact ⟨⟨hj, hd⟩, fun e => hne ⟨e, e ▸ hj⟩⟩
  · rintro ⟨⟨hj, hd⟩, hne⟩
    refine ⟨hj, ?_⟩
    rw [if_neg (fun h => hne h.1)]
    exact hd

theorem gate_kill_ne (G : Graph) (i j : Nat) (h : j ≠ i) : (G.kill i).gate j = G.gate j := by
  rw [gate_kill, if_neg (fun hh => h hh.1)]

theorem wire_removeOutput {G G' : Graph} {w : Nat} (h : G.removeOutput w = some G') (w' : Nat) :
    (G'.wire w').isOut = (G.wire w').isOut ∧
    (G'.wire w').numOut = (G.wire w').numOut - (if w' = w then 1 else 0) := by
  unfold removeOutput at h
  split at h
  · simp at h
  · rename_i hpos
    simp only [Option.some.injEq] at h
    subst h
    simp only [wire, getD_modify]
    by_cases hw : w' = w
    · subst hw
      by_cases hs : w' < G.wires.size
      · simp [hs]
      · exfalso
        apply hpos
        simp [wire, Array.getD, hs]
        rfl
    · simp [hw]

/-! ### killing an unread, non-output gate -/

theorem kill_preserves (G : Graph) (hwf : G.GWF) (i : Nat) (hlive : G.live i)
    (hnoread : ∀ j, G.live j → (G.gate j).a ≠ (G.gate i).o ∧
      ((G.gate j).op ≠ .inv → (G.gate j).b ≠ (G.gate i).o))
    (hnotout : (G.gate i).o ∉ G.outputs) :
    (G.kill i).GWF ∧ ∀ x, (G.kill i).compute x = G.compute x := by
  have hsub : ∀ j, (G.kill i).live j → G.live j ∧ j ≠ i := fun j => (live_kill G i j).mp
  have hwf' : (G.kill i).GWF := by
    refine ⟨hwf.nin, fun j hj => ?_, fun j k hj hk ho => ?_, fun j k hjk hj hk => ?_⟩
    · obtain ⟨hl, hne⟩ := hsub j hj
      rw [gate_kill_ne G i j hne]; exact hwf.obound j hl
    · obtain ⟨hl, hne⟩ := hsub j hj
      obtain ⟨hl', hne'⟩ := hsub k hk
      rw [gate_kill_ne G i j hne, gate_kill_ne G i k hne'] at ho
      exact hwf.odist j k hl hl' ho
    · obtain ⟨hl, hne⟩ := hsub j hj
      obtain ⟨hl', hne'⟩ := hsub k hk
      rw [gate_kill_ne G i j hne, gate_kill_ne G i k hne']
      exact hwf.topo j k hjk hl hl'
  refine ⟨hwf', fun x => ?_⟩
  have hs := evalStore_gsol hwf x
  have hob := hwf.obound i hlive
  -- the solution of the smaller graph: the killed gate's output reads 0
  have hs' : (G.kill i).GSol x ((G.evalStore x).set (G.gate i).o false) := by
    refine ⟨by simp [hs.size]; rfl, fun w hw => ?_, fun j hj => ?_, fun w hw hno => ?_⟩
    · have : (G.gate i).o ≠ w := by
        have h1 : (G.kill i).nIn = G.nIn := rfl
        rw [h1] at hw; omega
      rw [Store.get_set_ne _ _ _ _ this]
      exact hs.inp w hw
    · obtain ⟨hl, hne⟩ := hsub j hj
      rw [gate_kill_ne G i j hne]
      have hr := hnoread j hl
      have hoj : (G.gate i).o ≠ (G.gate j).o := fun e => hne (hwf.odist j i hl hlive e.symm)
      have := hs.sem j hl
      simp only [gateEq] at this ⊢
      rw [Store.get_set_ne _ _ _ _ hoj, Store.get_set_ne _ _ _ _ (Ne.symm hr.1), this]
      by_cases hop : (G.gate j).op = .inv
      · exact Op.eval_unary _ (by rw [hop]; rfl) _ _ _
      · rw [Store.get_set_ne _ _ _ _ (Ne.symm (hr.2 hop))]
    · by_cases hw' : (G.gate i).o = w
      · subst hw'
        exact Store.get_set_eq _ _ _ (by rw [hs.size]; exact hob.2)
      · rw [Store.get_set_ne _ _ _ _ hw']
        refine hs.undef w hw (fun j hj => ?_)
        by_cases hji : j = i
        · subst hji; exact hw'
        · have := hno j ((live_kill G i j).mpr ⟨hj, hji⟩)
          rwa [gate_kill_ne G i j hji] at this
  refine compute_eq_of_sols hwf hwf' rfl x _ _ hs hs' (fun w hw => ?_)
  have : (G.gate i).o ≠ w := fun e => hnotout (e ▸ hw)
  exact Store.get_set_ne _ _ _ _ this

/-! ### one `Gate.Prune` call -/

/-- Invariant of the prune loop. -/
structure PInv (G : Graph) : Prop where
  wf    : G.GWF
  flags : ∀ w ∈ G.outputs, (G.wire w).isOut = true
  count : ∀ w, G.readers w ≤ (G.wire w).numOut

theorem readers_kill (G : Graph) (i w : Nat) (hl : G.live i) :
    (G.kill i).readers w = G.readers w - slots w (G.gate i) := by
  simp only [readers, kill_eq, Array.toList_modify]
  rw [rdL_kill w _ i (by simpa using hl.1) (by rw [← gate_eq_getD]; exact hl.2), ← gate_eq_getD]

theorem no_reader_of_count (G : Graph) (w : Nat) (h : G.readers w = 0) (j : Nat) (hj : G.live j) :
    (G.gate j).a ≠ w ∧ ((G.gate j).op ≠ .inv → (G.gate j).b ≠ w) := by
  have := rdL_zero w _ h j (by simpa using hj.1) (by rw [← gate_eq_getD]; exact hj.2)
  rw [← gate_eq_getD] at this
  simp only [slots] at this
  constructor
  · intro e; simp [e] at this
  · intro hop e; simp [hop, e] at this

theorem PInv.pruneGate {G G' : Graph} (h : PInv G) (i : Nat) (hi : i < G.gates.size)
    (hr : G.pruneGate i = some G') : PInv G' ∧ G'.outputs = G.outputs ∧ ∀ x, G'.compute x = G.compute x := by
  unfold Graph.pruneGate at hr
  simp only at hr
  split at hr
  · simp only [Option.some.injEq] at hr; subst hr; exact ⟨h, rfl, fun _ => rfl⟩
  · rename_i hcond
    simp only [Bool.or_eq_true, decide_eq_true_eq, not_or, Bool.not_eq_true, Nat.not_lt,
      Nat.le_zero_eq] at hcond
    obtain ⟨⟨hdead, hnout⟩, hzero⟩ := hcond
    have hlive : G.live i := ⟨hi, hdead⟩
    have hrd0 : G.readers (G.gate i).o = 0 := by
      have := h.count (G.gate i).o; omega
    have hnotout : (G.gate i).o ∉ G.outputs := fun hm => by
      have := h.flags _ hm; rw [hnout] at this; exact Bool.false_ne_true this
    obtain ⟨hkwf, hkc⟩ := kill_preserves G h.wf i hlive (no_reader_of_count G _ hrd0) hnotout
    -- facts about the graph after the counter updates
    have fin : ∀ (G1 : Graph), SameGates (G.kill i) G1 →
        (∀ w, (G1.wire w).isOut = (G.wire w).isOut) →
        (∀ w, (G.wire w).numOut - slots w (G.gate i) ≤ (G1.wire w).numOut) →
        PInv G1 ∧ G1.outputs = G.outputs ∧ ∀ x, G1.compute x = G.compute x := by
      intro G1 hsg hio hno
      refine ⟨⟨hsg.gwf hkwf, fun w hw => ?_, fun w => ?_⟩, hsg.outputs, fun x => (hsg.compute x).trans (hkc x)⟩
      · rw [hio]; exact h.flags w (by rw [hsg.outputs] at hw; exact hw)
      · have e : G1.readers w = (G.kill i).readers w := by simp [readers, hsg.gates]
        rw [e, readers_kill G i w hlive]
        have := h.count w
        have := hno w
        omega
    split at hr
    · rename_i hop
      have hw := wire_removeOutput hr
      refine fin G' (sameGates_removeOutput hr) (fun w => (hw w).1) (fun w => ?_)
      rw [(hw w).2]
      have : (G.kill i).wire w = G.wire w := rfl
      rw [this]
      simp only [slots, hop, ne_eq, not_true_eq_false, false_and, if_false, Nat.add_zero]
      by_cases e : (G.gate i).a = w
      · simp [e]
      · have : ¬ w = (G.gate i).a := fun h => e h.symm
        simp [e, this]
    · rename_i hop
      simp only [Option.bind_eq_some_iff] at hr
      obtain ⟨G1, hr1, hr2⟩ := hr
      have hw1 := wire_removeOutput hr1
      have hw2 := wire_removeOutput hr2
      refine fin G' ((sameGates_removeOutput hr1).trans (sameGates_removeOutput hr2))
        (fun w => ((hw2 w).1).trans (hw1 w).1) (fun w => ?_)
      rw [(hw2 w).2, (hw1 w).2]
      have : (G.kill i).wire w = G.wire w := rfl
      rw [this]
      simp only [slots, ne_eq, hop, not_false_eq_true, true_and]
      split <;> split <;> split <;> split <;> omega

theorem PInv.pruneLoop : ∀ (is : List Nat) (G G' : Graph), (∀ i ∈ is, i < G.gates.size) → PInv G →
    pruneLoop is G = some G' → PInv G' ∧ G'.outputs = G.outputs ∧ ∀ x, G'.compute x = G.compute x := by
  intro is
  induction is with
  | nil =>
    intro G G' _ h hr
    simp only [Graph.pruneLoop, Option.some.injEq] at hr; subst hr
    exact ⟨h, rfl, fun _ => rfl⟩
  | cons i is ih =>
    intro G G' hb h hr
    simp only [Graph.pruneLoop] at hr
    split at hr
    · simp at hr
    · rename_i G1 h1
      obtain ⟨hp1, ho1, hc1⟩ := h.pruneGate i (hb i List.mem_cons_self) h1
      have hsz : G1.gates.size = G.gates.size := by
        -- pruneGate only kills / updates counters
        unfold Graph.pruneGate at h1
        simp only at h1
        split at h1
        · simp only [Option.some.injEq] at h1; subst h1; rfl
        · split at h1
          · rw [(sameGates_removeOutput h1).gates, size_kill]
          · simp only [Option.bind_eq_some_iff] at h1
            obtain ⟨G2, a1, a2⟩ := h1
            rw [(sameGates_removeOutput a2).gates, (sameGates_removeOutput a1).gates, size_kill]
      obtain ⟨hp, ho, hc⟩ := ih G1 G' (fun j hj => by rw [hsz]; exact hb j (List.mem_cons_of_mem _ hj)) hp1 hr
      exact ⟨hp, ho.trans ho1, fun x => (hc x).trans (hc1 x)⟩

/-- **`Prune` preserves the function of the graph**: for every well-formed
graph whose output wires are flagged and whose fan-out counters bound the
real fan-out from above, and every input. -/
theorem prune_preserves (G G' : Graph) (h : PInv G) (hr : G.prune = some G') :
    PInv G' ∧ ∀ x, G'.compute x = G.compute x := by
  obtain ⟨hp, _, hc⟩ := PInv.pruneLoop _ G G'
    (fun i hi => by simpa using hi) h hr
  exact ⟨hp, hc⟩

end Graph
end Mpc

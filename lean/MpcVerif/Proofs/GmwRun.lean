/-
C10: the whole online phase (`Gmw.run`): input sharing reconstructs to the
inputs, the level loop follows `plainEval` (via `sim_blocks` and
`gmw_level_schedule`), every party's opened output equals `Circuit.compute`.
-/
import MpcVerif.Proofs.GmwOnline
import MpcVerif.Proofs.GmwSchedule

set_option linter.unusedSimpArgs false
set_option linter.unusedVariables false

namespace Mpc.Gmw
open Mpc

/-! ### setWires -/

theorem setWires_succ (w : Store Bool) (ofs bits v : Nat) :
    setWires w ofs (bits + 1) v = (setWires w ofs bits v).set (ofs + bits) (v.testBit bits) := by
  simp [setWires, List.range_succ, List.foldl_append]

theorem setWires_size (w : Store Bool) (ofs v : Nat) : ∀ bits, (setWires w ofs bits v).size = w.size := by
  intro bits
  induction bits with
  | zero => rfl
  | succ b ih => rw [setWires_succ]; simp [ih]

theorem setWires_get (w : Store Bool) (ofs v j : Nat) : ∀ bits, ofs + bits ≤ w.size →
    (setWires w ofs bits v).get j = if ofs ≤ j ∧ j < ofs + bits then v.testBit (j - ofs) else w.get j := by
  intro bits
  induction bits with
  | zero =>
    intro _
    have : ¬ (ofs ≤ j ∧ j < ofs + 0) := by omega
    simp only [this, if_false]; rfl
  | succ b ih =>
    intro h
    rw [setWires_succ, Store.get_set _ _ _ _ (by rw [setWires_size]; omega), ih (by omega)]
    by_cases hj : ofs + b = j
    · subst hj; simp
    · simp only [hj, if_false]
      by_cases h1 : ofs ≤ j ∧ j < ofs + b
      · have : ofs ≤ j ∧ j < ofs + (b + 1) := ⟨h1.1, by omega⟩
        simp [h1, this]
      · have : ¬ (ofs ≤ j ∧ j < ofs + (b + 1)) := by omega
        simp [h1, this]

/-! ### argument offsets -/

theorem argOfs_succ (sizes : List Nat) (q : Nat) : argOfs sizes (q + 1) = argOfs sizes q + sizes.getD q 0 := by
  unfold argOfs
  rw [List.take_add_one, List.sum_append, List.getD_eq_getElem?_getD]
  cases sizes[q]? <;> simp

theorem argOfs_mono (sizes : List Nat) (q q' : Nat) (h : q ≤ q') : argOfs sizes q ≤ argOfs sizes q' := by
  induction h with
  | refl => exact Nat.le_refl _
  | step _ ih => rw [argOfs_succ]; omega

theorem argOfs_length (sizes : List Nat) : argOfs sizes sizes.length = sizes.sum := by
  simp [argOfs]

theorem argOfs_zero (sizes : List Nat) : argOfs sizes 0 = 0 := by simp [argOfs]

/-- every input wire belongs to exactly one party's argument -/
theorem argOfs_locate (sizes : List Nat) : ∀ m, m ≤ sizes.length → ∀ w, w < argOfs sizes m →
    ∃ q i, q < m ∧ i < sizes.getD q 0 ∧ w = argOfs sizes q + i := by
  intro m
  induction m with
  | zero => intro _ w hw; rw [argOfs_zero] at hw; omega
  | succ m ih =>
    intro hm w hw
    by_cases h : w < argOfs sizes m
    · obtain ⟨q, i, hq, hi, e⟩ := ih (by omega) w h
      exact ⟨q, i, by omega, hi, e⟩
    · rw [argOfs_succ] at hw
      exact ⟨m, w - argOfs sizes m, by omega, by omega, by omega⟩

/-! ### input sharing -/

/-- the shares of the other parties' inputs that party `p` stores -/
def recvFold (sizes : List Nat) (rnd : Nat → Nat → Nat) (p : Nat) (w0 : Store Bool) (m : Nat) : Store Bool :=
  (List.range m).foldl (fun w q =>
    if q = p then w else setWires w (argOfs sizes q) (sizes.getD q 0) (rnd q p)) w0

theorem recvFold_succ (sizes : List Nat) (rnd : Nat → Nat → Nat) (p : Nat) (w0 : Store Bool) (m : Nat) :
    recvFold sizes rnd p w0 (m + 1) =
      if m = p then recvFold sizes rnd p w0 m
      else setWires (recvFold sizes rnd p w0 m) (argOfs sizes m) (sizes.getD m 0) (rnd m p) := by
  simp [recvFold, List.range_succ, List.foldl_append]

theorem recvFold_size (sizes : List Nat) (rnd : Nat → Nat → Nat) (p : Nat) (w0 : Store Bool) :
    ∀ m, (recvFold sizes rnd p w0 m).size = w0.size := by
  intro m
  induction m with
  | zero => rfl
  | succ m ih => rw [recvFold_succ]; split <;> simp [setWires_size, ih]

theorem recvFold_get (sizes : List Nat) (rnd : Nat → Nat → Nat) (p N : Nat) (hN : sizes.sum ≤ N) :
    ∀ m, m ≤ sizes.length →
    (∀ q i, q < m → q ≠ p → i < sizes.getD q 0 →
      (recvFold sizes rnd p (Array.replicate N false) m).get (argOfs sizes q + i) = (rnd q p).testBit i) ∧
    (∀ j, (∀ q, q < m → q ≠ p → ¬ (argOfs sizes q ≤ j ∧ j < argOfs sizes (q + 1))) →
      (recvFold sizes rnd p (Array.replicate N false) m).get j = false) := by
  intro m
  induction m with
  | zero =>
    intro _
    refine ⟨fun q i hq => by omega, fun j _ => ?_⟩
    simp [recvFold, Store.get, Array.getD]
  | succ m ih =>
    intro hm
    obtain ⟨iha, ihb⟩ := ih (by omega)
    have hbound : argOfs sizes m + sizes.getD m 0 ≤ N := by
      rw [← argOfs_succ]
      have := argOfs_mono sizes (m + 1) sizes.length hm
      rw [argOfs_length] at this; omega
    rw [recvFold_succ]
    by_cases hmp : m = p
    · rw [if_pos hmp]
      refine ⟨fun q i hq hqp hi => iha q i (by omega) hqp hi, fun j hj => ihb j (fun q hq hqp => hj q (by omega) hqp)⟩
    · rw [if_neg hmp]
      have hsz : argOfs sizes m + sizes.getD m 0 ≤ (recvFold sizes rnd p (Array.replicate N false) m).size := by
        rw [recvFold_size]; simpa using hbound
      constructor
      · intro q i hq hqp hi
        rw [setWires_get _ _ _ _ _ hsz]
        by_cases hqm : q = m
        · subst hqm
          have : argOfs sizes q ≤ argOfs sizes q + i ∧ argOfs sizes q + i < argOfs sizes q + sizes.getD q 0 := by omega
          rw [if_pos this, Nat.add_sub_cancel_left]
        · have h1 : argOfs sizes (q + 1) ≤ argOfs sizes m := argOfs_mono sizes (q + 1) m (by omega)
          rw [argOfs_succ] at h1
          have : ¬ (argOfs sizes m ≤ argOfs sizes q + i ∧ argOfs sizes q + i < argOfs sizes m + sizes.getD m 0) := by omega
          rw [if_neg this]
          exact iha q i (by omega) hqp hi
      · intro j hj
        rw [setWires_get _ _ _ _ _ hsz]
        have h1 := hj m (by omega) hmp
        rw [argOfs_succ] at h1
        rw [if_neg h1]
        exact ihb j (fun q hq hqp => hj q (by omega) hqp)

/-- `self.shared` after the sharing loop: XOR of the shares handed out. -/
def sharedOf (sizes : List Nat) (rnd : Nat → Nat → Nat) (p : Nat) : Nat :=
  (List.range sizes.length).foldl (fun s q => if q = p then s else s ^^^ rnd p q) 0

theorem shareInputs_eq (N : Nat) (sizes : List Nat) (x : Nat → Nat) (rnd : Nat → Nat → Nat) (p : Nat) :
    shareInputs N sizes x rnd p =
      setWires (recvFold sizes rnd p (Array.replicate N false) sizes.length) (argOfs sizes p) (sizes.getD p 0)
        (sharedOf sizes rnd p ^^^ x p) := rfl

theorem testBit_foldl_xor (f : Nat → Nat) (p i : Nat) : ∀ (l : List Nat) (s0 : Nat),
    (l.foldl (fun s q => if q = p then s else s ^^^ f q) s0).testBit i =
      (s0.testBit i != xorB (l.map fun q => if q = p then false else (f q).testBit i)) := by
  intro l
  induction l with
  | nil => intro s0; simp [xorB_nil]
  | cons q t ih =>
    intro s0
    simp only [List.foldl_cons, List.map_cons, xorB_cons]
    rw [ih]
    by_cases h : q = p
    · simp [h]
    · simp only [h, if_false, Nat.testBit_xor]
      cases s0.testBit i <;> cases (f q).testBit i <;>
        cases xorB (t.map fun q => if q = p then false else (f q).testBit i) <;> rfl

theorem testBit_sharedOf (sizes : List Nat) (rnd : Nat → Nat → Nat) (p i : Nat) :
    (sharedOf sizes rnd p).testBit i =
      xorB ((List.range sizes.length).map fun q => if q = p then false else (rnd p q).testBit i) := by
  unfold sharedOf
  rw [testBit_foldl_xor]
  simp

theorem shareInputs_size (N : Nat) (sizes : List Nat) (x : Nat → Nat) (rnd : Nat → Nat → Nat) (p : Nat) :
    (shareInputs N sizes x rnd p).size = N := by
  rw [shareInputs_eq, setWires_size, recvFold_size]; simp

theorem shareInputs_get (N : Nat) (sizes : List Nat) (x : Nat → Nat) (rnd : Nat → Nat → Nat) (p : Nat)
    (hp : p < sizes.length) (hN : sizes.sum ≤ N) :
    (∀ q i, q < sizes.length → i < sizes.getD q 0 →
      (shareInputs N sizes x rnd p).get (argOfs sizes q + i) =
        if q = p then (sharedOf sizes rnd p ^^^ x p).testBit i else (rnd q p).testBit i) ∧
    (∀ j, sizes.sum ≤ j → (shareInputs N sizes x rnd p).get j = false) := by
  obtain ⟨ha, hb⟩ := recvFold_get sizes rnd p N hN sizes.length (Nat.le_refl _)
  have hbound : argOfs sizes p + sizes.getD p 0 ≤
      (recvFold sizes rnd p (Array.replicate N false) sizes.length).size := by
    rw [recvFold_size, ← argOfs_succ]
    have := argOfs_mono sizes (p + 1) sizes.length hp
    rw [argOfs_length] at this
    simp; omega
  constructor
  · intro q i hq hi
    rw [shareInputs_eq, setWires_get _ _ _ _ _ hbound]
    by_cases hqp : q = p
    · subst hqp
      have : argOfs sizes q ≤ argOfs sizes q + i ∧ argOfs sizes q + i < argOfs sizes q + sizes.getD q 0 := by omega
      rw [if_pos this, Nat.add_sub_cancel_left, if_pos rfl]
    · rw [if_neg hqp]
      have : ¬ (argOfs sizes p ≤ argOfs sizes q + i ∧ argOfs sizes q + i < argOfs sizes p + sizes.getD p 0) := by
        rcases Nat.lt_or_gt_of_ne hqp with h | h
        · have := argOfs_mono sizes (q + 1) p h
          rw [argOfs_succ] at this; omega
        · have := argOfs_mono sizes (p + 1) q h
          rw [argOfs_succ] at this; omega
      rw [if_neg this]
      exact ha q i hq hqp hi
  · intro j hj
    rw [shareInputs_eq, setWires_get _ _ _ _ _ hbound]
    have hall : ∀ q, q < sizes.length → ¬ (argOfs sizes q ≤ j ∧ j < argOfs sizes (q + 1)) := by
      intro q hq
      have := argOfs_mono sizes (q + 1) sizes.length hq
      rw [argOfs_length] at this; omega
    have h1 := hall p hp
    rw [argOfs_succ] at h1
    rw [if_neg h1]
    exact hb j (fun q hq _ => hall q hq)

theorem xorB_special (f : Nat → Bool) (A : Bool) (q : Nat) : ∀ n, q < n →
    xorB ((List.range n).map fun p => if p = q then A else f p) =
      (A != xorB ((List.range n).map fun p => if p = q then false else f p)) := by
  intro n
  induction n with
  | zero => intro h; omega
  | succ n ih =>
    intro h
    rw [List.range_succ, List.map_append, List.map_append, xorB_append, xorB_append]
    simp only [List.map_cons, List.map_nil, xorB_cons, xorB_nil]
    by_cases hq : n = q
    · subst hq
      have e : ∀ (B : Bool), (List.range n).map (fun p => if p = n then B else f p) = (List.range n).map f := by
        intro B
        apply List.map_congr_left
        intro p hp
        have : p ≠ n := by have := List.mem_range.mp hp; omega
        simp [this]
      rw [e A, e false]
      simp
      cases A <;> cases xorB ((List.range n).map f) <;> rfl
    · rw [ih (by omega)]
      simp only [hq, if_false]
      cases A <;> cases f n <;> cases xorB ((List.range n).map fun p => if p = q then false else f p) <;> rfl

/-- The initial parties of `run`. -/
def initParties (N : Nat) (sizes : List Nat) (x : Nat → Nat) (rnd : Nat → Nat → Nat) (pools : Nat → Triples) :
    List Party :=
  (List.range sizes.length).map fun p =>
    ({ id := p, wires := shareInputs N sizes x rnd p, pool := pools p, trip := Triples.empty } : Party)

/-- `xs` is the circuit input: party `q`'s bits at its argument offset. -/
def InputsOf (sizes : List Nat) (x : Nat → Nat) (xs : List Bool) : Prop :=
  ∀ q i, q < sizes.length → i < sizes.getD q 0 → xs.getD (argOfs sizes q + i) false = (x q).testBit i

/-- After input sharing the shares reconstruct to the inputs (and to 0 on
every other wire). -/
theorem sim_init (N nIn : Nat) (sizes : List Nat) (x : Nat → Nat) (rnd : Nat → Nat → Nat) (pools : Nat → Triples)
    (xs : List Bool) (hx : InputsOf sizes x xs) (hin : nIn = sizes.sum) (hN : sizes.sum ≤ N) :
    Sim N (initParties N sizes x rnd pools) (initStore N false (xs.take nIn)) := by
  refine ⟨by simp [initStore], ?_, ?_⟩
  · intro p hp
    simp only [initParties, List.mem_map] at hp
    obtain ⟨q, _, rfl⟩ := hp
    exact shareInputs_size _ _ _ _ _
  · intro w
    rw [recon_def]
    simp only [initParties, List.map_map, Function.comp]
    by_cases hw : w < sizes.sum
    · obtain ⟨q, i, hq, hi, rfl⟩ := argOfs_locate sizes sizes.length (Nat.le_refl _) w (by rw [argOfs_length]; exact hw)
      rw [get_initStore _ _ _ (by omega), List.getD_eq_getElem?_getD, List.getElem?_take_of_lt (by omega),
        ← List.getD_eq_getElem?_getD, hx q i hq hi]
      have e : (List.range sizes.length).map (fun p => (shareInputs N sizes x rnd p).get (argOfs sizes q + i)) =
          (List.range sizes.length).map fun p =>
            if p = q then (sharedOf sizes rnd q ^^^ x q).testBit i else (rnd q p).testBit i := by
        apply List.map_congr_left
        intro p hp
        rw [(shareInputs_get N sizes x rnd p (List.mem_range.mp hp) hN).1 q i hq hi]
        by_cases h : p = q
        · subst h; simp
        · have : ¬ q = p := fun e => h e.symm
          simp [h, this]
      change xorB ((List.range sizes.length).map fun p => (shareInputs N sizes x rnd p).get (argOfs sizes q + i)) = _
      rw [e, xorB_special _ _ q _ hq, Nat.testBit_xor, testBit_sharedOf]
      cases xorB ((List.range sizes.length).map fun p => if p = q then false else (rnd q p).testBit i) <;>
        cases (x q).testBit i <;> rfl
    · have e : (List.range sizes.length).map (fun p => (shareInputs N sizes x rnd p).get w) =
          (List.range sizes.length).map fun _ => false := by
        apply List.map_congr_left
        intro p hp
        exact (shareInputs_get N sizes x rnd p (List.mem_range.mp hp) hN).2 w (by omega)
      change xorB ((List.range sizes.length).map fun p => (shareInputs N sizes x rnd p).get w) = _
      rw [e, xorB_map_false]
      by_cases hwN : w < N
      · rw [get_initStore _ _ _ hwN, List.getD_eq_getElem?_getD, List.getElem?_eq_none (by simp; omega)]
        rfl
      · simp [Store.get, initStore, Array.getD]
        intro h; omega

/-! ### output reconstruction -/

theorem zipWith_map_same {α : Type} (l : List α) (F G : α → Bool) :
    List.zipWith (fun a b => a != b) (l.map F) (l.map G) = l.map fun i => (F i != G i) := by
  induction l with
  | nil => rfl
  | cons a l ih => simp [ih]

theorem outOpen_fold (l : List Nat) (G : Party → Nat → Bool) (id : Nat) : ∀ (ps : List Party) (F : Nat → Bool),
    outOpen id (l.map F) (ps.map fun q => (q.id, l.map (G q))) =
      l.map fun i => (F i != xorB (ps.map fun q => if q.id = id then false else G q i)) := by
  intro ps
  induction ps with
  | nil => intro F; simp [outOpen, xorB_nil]
  | cons q t ih =>
    intro F
    simp only [outOpen, List.map_cons, List.foldl_cons]
    by_cases h : q.id = id
    · simp only [h, if_true]
      have := ih F
      simp only [outOpen] at this
      rw [this]
      apply List.map_congr_left
      intro i _
      rw [xorB_cons]; simp
    · simp only [h, if_false]
      rw [zipWith_map_same]
      have := ih (fun i => (F i != G q i))
      simp only [outOpen] at this
      rw [this]
      apply List.map_congr_left
      intro i _
      rw [xorB_cons]
      cases F i <;> cases G q i <;> cases xorB (t.map fun q => if q.id = id then false else G q i) <;> rfl

theorem out_all {n : Nat} {ps : List Party} (hid : Ids n ps) (l : List Nat) (G : Party → Nat → Bool)
    (p : Party) (hp : p ∈ ps) :
    outOpen p.id (l.map (G p)) (ps.map fun q => (q.id, l.map (G q))) = l.map fun i => xorB (ps.map fun q => G q i) := by
  rw [outOpen_fold]
  apply List.map_congr_left
  intro i _
  obtain ⟨pre, post, rfl, hpre, hpost⟩ := ids_split hid p hp
  have e1 : (pre.map fun q => if q.id = p.id then false else G q i) = pre.map fun q => G q i := by
    apply List.map_congr_left; intro q hq; simp [hpre q hq]
  have e2 : (post.map fun q => if q.id = p.id then false else G q i) = post.map fun q => G q i := by
    apply List.map_congr_left; intro q hq; simp [hpost q hq]
  simp only [List.map_append, List.map_cons, xorB_append, xorB_cons, e1, e2, if_true]
  cases G p i <;> cases xorB (pre.map fun q => G q i) <;> cases xorB (post.map fun q => G q i) <;> rfl

/-! ### the whole run -/

theorem run_eq (c : Circuit) (sizes : List Nat) (x : Nat → Nat) (rnd : Nat → Nat → Nat) (pools : Nat → Triples)
    (ps : List Party) (hsup : c.gates.all supported = true)
    (h : runBlocks (blocks c) (initParties c.numWires sizes x rnd pools) = some ps) :
    run c sizes x rnd pools =
      .ok ps (ps.map fun p => outOpen p.id (c.outputs p.wires) (ps.map fun p => (p.id, c.outputs p.wires))) := by
  unfold run
  simp only [hsup, Bool.not_true, Bool.false_eq_true, if_false]
  unfold initParties at h
  rw [h]

theorem St_init (N : Nat) (sizes : List Nat) (x : Nat → Nat) (rnd : Nat → Nat → Nat) (pools : Nat → Triples) (L : Nat)
    (hpool : ∀ p, p < sizes.length → (pools p).WF ∧ (pools p).words = L)
    (hvalid : ∀ k, k < L →
      xorW ((List.range sizes.length).map fun p => wget (pools p).a k) &&&
      xorW ((List.range sizes.length).map fun p => wget (pools p).b k) =
      xorW ((List.range sizes.length).map fun p => wget (pools p).c k)) :
    St sizes.length L (initParties N sizes x rnd pools) := by
  refine ⟨?_, ?_, ?_, ?_⟩
  · unfold Ids initParties
    rw [List.map_map]
    conv => rhs; rw [← List.map_id (List.range sizes.length)]
    apply List.map_congr_left; intro p _; rfl
  · intro q hq
    simp only [initParties, List.mem_map] at hq
    obtain ⟨p, _, rfl⟩ := hq
    exact ⟨rfl, by simp [Triples.WF, Triples.empty]⟩
  · intro q hq
    simp only [initParties, List.mem_map] at hq
    obtain ⟨p, hp, rfl⟩ := hq
    exact hpool p (List.mem_range.mp hp)
  · intro k hk
    simp only [initParties, List.map_map]
    exact hvalid k hk

/-- Conditions under which the model run is defined: single assignment, no
OR gate (`gate OR not supported`), inputs partitioned by `sizes`. -/
structure RunOK (c : Circuit) (sizes : List Nat) : Prop where
  ssa : SSA c.numWires c.gates c.inputDefined
  noOr : ∀ g ∈ c.gates, g.op ≠ .or
  parties : 0 < sizes.length
  nIn : c.nIn = sizes.sum
  fits : c.nIn ≤ c.numWires

theorem blocks_ok (c : Circuit) (sizes : List Nat) (h : RunOK c sizes) : ∀ b ∈ blocks c, BlockOK c.numWires b := by
  intro b hb
  have hops := blocks_ops c b hb
  have hmem := blocks_mem c b hb
  have hbd := wf_bounds c.numWires c.gates _ h.ssa.1
  have hnd := blocks_nodup c h.ssa b hb
  rw [List.map_append, List.nodup_append] at hnd
  refine ⟨fun g hg => ⟨?_, (hbd g (hmem.1 g hg)).2⟩, fun g hg => ⟨hops.2 g hg, (hbd g (hmem.2 g hg)).2⟩,
    hnd.2.1, blocks_indep c h.ssa b hb⟩
  have h1 := hops.1 g hg
  have h2 := h.noOr g (hmem.1 g hg)
  cases hop : g.op <;> simp_all

theorem run_correct (c : Circuit) (sizes : List Nat) (x : Nat → Nat) (rnd : Nat → Nat → Nat) (pools : Nat → Triples)
    (xs : List Bool) (L : Nat) (hok : RunOK c sizes) (hx : InputsOf sizes x xs)
    (hpool : ∀ p, p < sizes.length → (pools p).WF ∧ (pools p).words = L)
    (hvalid : ∀ k, k < L →
      xorW ((List.range sizes.length).map fun p => wget (pools p).a k) &&&
      xorW ((List.range sizes.length).map fun p => wget (pools p).b k) =
      xorW ((List.range sizes.length).map fun p => wget (pools p).c k))
    (hL : needW (blocks c) ≤ L) :
    ∃ ps outs, run c sizes x rnd pools = .ok ps outs ∧ ps.length = sizes.length ∧ outs.length = sizes.length ∧
      (∀ w, recon ps w = (c.plainEval xs).get w) ∧ (∀ o ∈ outs, o = c.compute xs) ∧
      (∀ p ∈ ps, p.pool.words = L - needW (blocks c)) := by
  have hsup : c.gates.all supported = true := by
    simp only [List.all_eq_true, supported, bne_iff_ne]
    exact hok.noOr
  have hst := St_init c.numWires sizes x rnd pools L hpool hvalid
  have hsim := sim_init c.numWires c.nIn sizes x rnd pools xs hx hok.nIn (by rw [← hok.nIn]; exact hok.fits)
  obtain ⟨ps, hrun, hst', hsim'⟩ := sim_blocks hok.parties (blocks c) _ _ L hst hsim (blocks_ok c sizes hok) hL
  have hrec : ∀ w, recon ps w = (c.plainEval xs).get w := by
    intro w
    rw [hsim'.2.2 w]
    exact gmw_level_schedule c hok.ssa xs w
  refine ⟨ps, _, run_eq c sizes x rnd pools ps hsup hrun, ids_length hst'.ids, by simp [ids_length hst'.ids], hrec, ?_,
    fun p hp => (hst'.pwf p hp).2⟩
  intro o ho
  simp only [List.mem_map] at ho
  obtain ⟨p, hp, rfl⟩ := ho
  have := out_all hst'.ids (List.range c.nOut) (fun q i => q.wires.get (c.numWires - c.nOut + i)) p hp
  simp only [Circuit.outputs] at this ⊢
  rw [this]
  simp only [Circuit.compute, Circuit.outputs]
  apply List.map_congr_left
  intro i _
  rw [← hrec, recon_def]

/-! ### the circuit input list -/

theorem inputBits_prefix (sizes : List Nat) (x : Nat → Nat) : ∀ m,
    ((List.range m).flatMap fun p => (List.range (sizes.getD p 0)).map fun i => (x p).testBit i).length =
      argOfs sizes m ∧
    ∀ q i, q < m → i < sizes.getD q 0 →
      ((List.range m).flatMap fun p => (List.range (sizes.getD p 0)).map fun i => (x p).testBit i).getD
        (argOfs sizes q + i) false = (x q).testBit i := by
  intro m
  induction m with
  | zero => exact ⟨by simp [argOfs_zero], fun q i h => by omega⟩
  | succ m ih =>
    obtain ⟨hl, hg⟩ := ih
    rw [List.range_succ, List.flatMap_append]
    simp only [List.flatMap_cons, List.flatMap_nil, List.append_nil]
    constructor
    · rw [List.length_append, hl, argOfs_succ]; simp
    · intro q i hq hi
      by_cases hqm : q = m
      · subst hqm
        rw [List.getD_eq_getElem?_getD, List.getElem?_append_right (by omega), hl, Nat.add_sub_cancel_left,
          List.getElem?_map, List.getElem?_range hi]
        rfl
      · have h1 := argOfs_mono sizes (q + 1) m (by omega)
        rw [argOfs_succ] at h1
        rw [List.getD_eq_getElem?_getD, List.getElem?_append_left (by omega), ← List.getD_eq_getElem?_getD]
        exact hg q i (by omega) hi

theorem inputsOf_inputBits (sizes : List Nat) (x : Nat → Nat) : InputsOf sizes x (inputBits sizes x) :=
  fun q i hq hi => (inputBits_prefix sizes x sizes.length).2 q i hq hi

theorem length_inputBits (sizes : List Nat) (x : Nat → Nat) : (inputBits sizes x).length = sizes.sum := by
  rw [← argOfs_length]; exact (inputBits_prefix sizes x sizes.length).1

/-! ### arriving valid batches keep the pools valid -/

theorem view_getElem? (t : Triples) (k : Nat) (hk : k < t.words) :
    t.view[k]? = some (wget t.a k, wget t.b k, wget t.c k) := by
  simp [Triples.view, List.getElem?_map, List.getElem?_range hk]

/-- Pools of all parties: well-formed, `L` words each, every word a valid triple. -/
def PoolsValid (n L : Nat) (pools : Nat → Triples) : Prop :=
  (∀ p, p < n → (pools p).WF ∧ (pools p).words = L) ∧
  ∀ k, k < L →
    xorW ((List.range n).map fun p => wget (pools p).a k) &&&
    xorW ((List.range n).map fun p => wget (pools p).b k) =
    xorW ((List.range n).map fun p => wget (pools p).c k)

theorem poolsValid_arrive (n L words : Nat) (pools B : Nat → Triples) (hp : PoolsValid n L pools)
    (hB : PoolsValid n words B) :
    PoolsValid n (L + words) (fun p => poolArrive (pools p) (B p)) := by
  have hspec : ∀ p, p < n → _ := fun p hpn => poolArrive_spec (pools p) (B p) (hp.1 p hpn).1 (hB.1 p hpn).1
  have hwords : ∀ p, p < n → (poolArrive (pools p) (B p)).words = L + words := by
    intro p hpn
    have := congrArg List.length (hspec p hpn).2
    rw [length_view, List.length_append, length_view, length_view, (hp.1 p hpn).2, (hB.1 p hpn).2] at this
    exact this
  refine ⟨fun p hpn => ⟨(hspec p hpn).1, hwords p hpn⟩, ?_⟩
  intro k hk
  have hget : ∀ p, p < n →
      (wget (poolArrive (pools p) (B p)).a k, wget (poolArrive (pools p) (B p)).b k, wget (poolArrive (pools p) (B p)).c k) =
        if k < L then (wget (pools p).a k, wget (pools p).b k, wget (pools p).c k)
        else (wget (B p).a (k - L), wget (B p).b (k - L), wget (B p).c (k - L)) := by
    intro p hpn
    have h1 := view_getElem? (poolArrive (pools p) (B p)) k (by rw [hwords p hpn]; exact hk)
    rw [(hspec p hpn).2] at h1
    split
    · rename_i hlt
      rw [List.getElem?_append_left (by rw [length_view, (hp.1 p hpn).2]; exact hlt),
        view_getElem? _ _ (by rw [(hp.1 p hpn).2]; exact hlt)] at h1
      exact (Option.some.inj h1).symm
    · rename_i hge
      rw [List.getElem?_append_right (by rw [length_view, (hp.1 p hpn).2]; omega), length_view, (hp.1 p hpn).2,
        view_getElem? _ _ (by rw [(hB.1 p hpn).2]; omega)] at h1
      exact (Option.some.inj h1).symm
  have ea : ∀ (f : Triples → Words), (∀ p, p < n → wget (f (poolArrive (pools p) (B p))) k =
        if k < L then wget (f (pools p)) k else wget (f (B p)) (k - L)) →
      ((List.range n).map fun p => wget (f (poolArrive (pools p) (B p))) k) =
        (List.range n).map fun p => if k < L then wget (f (pools p)) k else wget (f (B p)) (k - L) := by
    intro f hf
    apply List.map_congr_left
    intro p hpn
    exact hf p (List.mem_range.mp hpn)
  have ha : ∀ p, p < n → wget (poolArrive (pools p) (B p)).a k =
      if k < L then wget (pools p).a k else wget (B p).a (k - L) := fun p hpn => by
    have := hget p hpn
    by_cases hlt : k < L
    · rw [if_pos hlt] at this ⊢; exact (Prod.mk.inj this).1
    · rw [if_neg hlt] at this ⊢; exact (Prod.mk.inj this).1
  have hb : ∀ p, p < n → wget (poolArrive (pools p) (B p)).b k =
      if k < L then wget (pools p).b k else wget (B p).b (k - L) := fun p hpn => by
    have := hget p hpn
    by_cases hlt : k < L
    · rw [if_pos hlt] at this ⊢; exact (Prod.mk.inj (Prod.mk.inj this).2).1
    · rw [if_neg hlt] at this ⊢; exact (Prod.mk.inj (Prod.mk.inj this).2).1
  have hc : ∀ p, p < n → wget (poolArrive (pools p) (B p)).c k =
      if k < L then wget (pools p).c k else wget (B p).c (k - L) := fun p hpn => by
    have := hget p hpn
    by_cases hlt : k < L
    · rw [if_pos hlt] at this ⊢; exact (Prod.mk.inj (Prod.mk.inj this).2).2
    · rw [if_neg hlt] at this ⊢; exact (Prod.mk.inj (Prod.mk.inj this).2).2
  rw [ea (·.a) ha, ea (·.b) hb, ea (·.c) hc]
  by_cases hlt : k < L
  · simp only [hlt, if_true]; exact hp.2 k hlt
  · simp only [hlt, if_false]; exact hB.2 (k - L) (by omega)

/-- The batches `tripleBatch` deals are valid pools contents. -/
theorem poolsValid_tripleBatch (n words : Nat) (I : BatchIn) (h : CotCorr n words I) :
    PoolsValid n words (fun p => tripleBatch n words I p) := by
  refine ⟨fun p _ => ?_, fun k hk => gmw_triple_valid n words I h k hk⟩
  obtain ⟨h1, h2, h3, h4⟩ := tripleBatch_sizes n words I p
  exact ⟨by simp [Triples.WF, h1, h2, h3, h4], h1⟩

theorem poolsValid_empty (n : Nat) : PoolsValid n 0 (fun _ => Triples.empty) :=
  ⟨fun _ _ => ⟨by simp [Triples.WF, Triples.empty], rfl⟩, fun k hk => by omega⟩

/-! ### packed bit-COT correlation (C06) in the word form `tripleBatch` uses -/

theorem cot_words_of_bits (rw sw ch : Words) (d : Bool) (words : Nat)
    (h : ∀ j, j < 64 * words → bit rw j = (bit sw j ^^ (d && bit ch j))) :
    ∀ w, w < words → wget rw w = wget sw w ^^^ (if d then wget ch w else 0#64) := by
  intro w hw
  apply BitVec.eq_of_getLsbD_eq
  intro i hi
  have := h (64 * w + i) (by omega)
  simp only [bit_def] at this
  have e1 : (64 * w + i) / 64 = w := by omega
  have e2 : (64 * w + i) % 64 = i := by omega
  rw [e1, e2] at this
  rw [this, BitVec.getLsbD_xor]
  cases d <;> simp

end Mpc.Gmw

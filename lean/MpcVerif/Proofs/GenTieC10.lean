/-
T1 tie (DESIGN.md 1.3) of the bit-vector helpers of package gmw (gmw/bitvec.go: `bit`,
`setBit`, `xorBitvec`, `expand`, `expandClear`, `copyOf`) to the C10 model Model/Gmw.lean: the
definitions of MpcVerif/Gen/LeafC10.lean, regenerated from the current Go source by `gofacts
translate -group C10` on every run of checks/C10.py, equal `Mpc.Gmw.bit` … on slices of fewer
than 2^63 words (Go: `len` is an `int`).  `none` = the Go function panics.  Core Lean only.
-/
import MpcVerif.Gen.LeafC10
import MpcVerif.Proofs.GenTieLib
import MpcVerif.Model.Gmw

namespace Mpc.GenTie
open Mpc Mpc.Gen Mpc.Gen.C10

abbrev W64 := Array (BitVec 64)

theorem copyAt_replicate (n : Nat) (v : W64) :
    copyAt (Array.replicate n 0#64) 0 v = Gmw.mkA n (Gmw.wget v) := by
  apply Array.ext
  · simp [size_copyAt, Gmw.mkA]
  · intro i h1 h2
    rw [getElem_copyAt]
    simp only [Gmw.mkA, Array.getElem_map, Array.getElem_range, Gmw.wget, Array.getD]
    by_cases h : i < v.size <;> simp [h]

/-- `bit(bitvec, i)`: panics for a negative index, otherwise the model's bit as 0 / 1. -/
theorem tie_bit (v : W64) (i : BitVec 64) (hsz : v.size < 2^63) :
    Gen.C10.bit v i = if 2^63 ≤ i.toNat then none else some (if Gmw.bit v i.toNat then 1#64 else 0#64) := by
  have := i.isLt
  by_cases hi : 2^63 ≤ i.toNat
  · simp [Gen.C10.bit, slt_zero, hi]
  · have hi' : i.toNat < 2^63 := by omega
    have hw := sdiv_nonneg i 64 hi' (by omega)
    have ho := srem_nonneg i 64 hi' (by omega)
    have hwlt : (BitVec.sdiv i 64#64).toNat < 2^63 := by omega
    simp only [Gen.C10.bit, slt_zero, sle_toNat _ _ (by rw [ofNat_size _ hsz]; exact hsz) hwlt, ofNat_size _ hsz,
      hw, ho, and_one, Gmw.bit, Gmw.wget]
    by_cases hb : v.size ≤ i.toNat / 64
    · simp [hi, hb, Array.getD, show ¬ (i.toNat / 64 < v.size) by omega]
    · simp [hi, hb, show ¬ (2^63 ≤ i.toNat / 64) by omega, show ¬ (2^63 ≤ i.toNat % 64) by omega]

/-- `copyOf(bitvec)` is a copy. -/
theorem tie_copyOf (v : W64) (hsz : v.size < 2^63) : Gen.C10.copyOf v = some v := by
  simp [Gen.C10.copyOf, slt_zero, ofNat_size _ hsz, copyAt_replicate_self, show ¬ (2^63 ≤ v.size) by omega]

/-- `expand(bitvec, words)` for `0 ≤ words`. -/
theorem tie_expand (v : W64) (w : BitVec 64) (hsz : v.size < 2^63) (hw : w.toNat < 2^63) :
    Gen.C10.expand v w = some (Gmw.expand v w.toNat) := by
  simp only [Gen.C10.expand, Gmw.expand, copyAt_replicate]
  int_norm
  by_cases h : w.toNat ≤ v.size
  · simp [h, show ¬ (v.size < w.toNat) by omega]
  · simp [h, show v.size < w.toNat by omega, show ¬ (2^63 ≤ w.toNat) by omega]

/-- `expandClear(bitvec, words)` for `0 ≤ words`. -/
theorem tie_expandClear (v : W64) (w : BitVec 64) (hsz : v.size < 2^63) (hw : w.toNat < 2^63) :
    Gen.C10.expandClear v w = some (Gmw.expandClear v w.toNat) := by
  have hm : ∀ n, Gmw.mkA n (fun _ => 0#64) = Array.replicate n 0#64 := by
    intro n; apply Array.ext <;> simp [Gmw.mkA]
  simp only [Gen.C10.expandClear, Gmw.expandClear]
  int_norm
  by_cases h : w.toNat ≤ v.size
  · simp [h, hm, Nat.max_eq_left h, show ¬ (v.size < w.toNat) by omega]
  · simp [h, hm, show v.size < w.toNat by omega, show ¬ (2^63 ≤ w.toNat) by omega,
      Nat.max_eq_right (show v.size ≤ w.toNat by omega)]

/-- `setBit(bitvec, i, b)`: panics for a negative index and for `b ∉ {0,1}`. -/

theorem tie_setBit (v : W64) (i b : BitVec 64) (hsz : v.size < 2^63) :
    Gen.C10.setBit v i b =
      if 2^63 ≤ i.toNat ∨ (b ≠ 0#64 ∧ b ≠ 1#64) then none else some (Gmw.setBit v i.toNat (b == 1#64)) := by
  have := i.isLt
  have h01 : (0#64) ≠ 1#64 := by decide
  by_cases hi : 2^63 ≤ i.toNat
  · simp [Gen.C10.setBit, slt_zero, hi]
  · have hi' : i.toNat < 2^63 := by omega
    have hw := sdiv_nonneg i 64 hi' (by omega)
    have ho := srem_nonneg i 64 hi' (by omega)
    have hwlt : (BitVec.sdiv i 64#64).toNat < 2^63 := by omega
    have hw1 : (BitVec.sdiv i 64#64 + 1#64).toNat = i.toNat / 64 + 1 := by
      rw [BitVec.toNat_add, hw]; simp; omega
    simp only [Gen.C10.setBit, slt_zero, sle_toNat _ _ (by rw [ofNat_size _ hsz]; exact hsz) hwlt, ofNat_size _ hsz,
      hw, ho, hw1, copyAt_replicate, Gmw.setBit, Gmw.wget]
    by_cases hb : v.size ≤ i.toNat / 64
    · have hnlt : ¬ (i.toNat / 64 < v.size) := by omega
      by_cases hb0 : b = 0#64
      · simp [hi, hb, hnlt, hb0, h01, Gmw.mkA, show ¬ (2^63 ≤ i.toNat / 64 + 1) by omega,
          show ¬ (2^63 ≤ i.toNat / 64) by omega, show ¬ (2^63 ≤ i.toNat % 64) by omega]
      · by_cases hb1 : b = 1#64
        · simp [hi, hb, hnlt, hb1, Gmw.mkA, show ¬ (2^63 ≤ i.toNat / 64 + 1) by omega,
            show ¬ (2^63 ≤ i.toNat / 64) by omega, show ¬ (2^63 ≤ i.toNat % 64) by omega]
        · simp [hi, hb, hb0, hb1, show ¬ (2^63 ≤ i.toNat / 64 + 1) by omega]
    · have hlt : i.toNat / 64 < v.size := by omega
      by_cases hb0 : b = 0#64
      · simp [hi, hb, hlt, hb0, h01, show ¬ (2^63 ≤ i.toNat / 64) by omega, show ¬ (2^63 ≤ i.toNat % 64) by omega]
      · by_cases hb1 : b = 1#64
        · simp [hi, hb, hlt, hb1, show ¬ (2^63 ≤ i.toNat / 64) by omega, show ¬ (2^63 ≤ i.toNat % 64) by omega]
        · simp [hi, hb, hb0, hb1]
/-! `xorBitvec(result, bitvec)` with `len(bitvec) ≤ len(result)` (otherwise Go panics: index out of range) -/


/-- The words of `result` after `k` iterations of the loop of `xorBitvec`. -/
def xorInv (r v : W64) (k : Nat) : W64 :=
  Gmw.mkA r.size fun i => if i < k ∧ i < v.size then Gmw.wget r i ^^^ Gmw.wget v i else Gmw.wget r i

theorem tie_xorBitvec (r v : W64) (hsz : r.size < 2^63) (hle : v.size ≤ r.size) :
    Gen.C10.xorBitvec r v = some (Gmw.xorBitvec r v) := by
  unfold Gen.C10.xorBitvec
  dsimp only
  have hv : v.size < 2^63 := by omega
  int_norm
  rw [foldl_range_some _ (xorInv r v) v.size r]
  · have : xorInv r v v.size = Gmw.xorBitvec r v := by
      simp only [xorInv, Gmw.xorBitvec]
      congr 1; funext i
      by_cases h : i < v.size <;> simp [h]
    simp [this]
  · apply Array.ext
    · simp [xorInv, Gmw.mkA]
    · intro i h1 h2
      simp [xorInv, Gmw.mkA, Gmw.wget, h2]
  · intro k hk
    have hk63 : k < 2^63 := by omega
    have hsize : (xorInv r v k).size = r.size := by simp [xorInv, Gmw.mkA]
    simp only [Option.elim, slt_zero, ofNat_size k hk63, hsize, Nat.zero_add]
    simp only [show ¬ (2^63 ≤ k) by omega, show ¬ (r.size ≤ k) by omega, show ¬ (v.size ≤ k) by omega, decide_false,
      Bool.or_false, Bool.false_eq_true, if_false]
    congr 1
    apply Array.ext
    · simp [xorInv, Gmw.mkA]
    · intro j h1 h2
      have hj : j < r.size := by simpa [xorInv, Gmw.mkA] using h2
      rw [Array.getElem_setIfInBounds (by rw [hsize]; exact hj)]
      by_cases hjk : k = j
      · subst hjk
        simp [xorInv, Gmw.mkA, Gmw.wget, hk, hj]
      · have : (j < k + 1) = (j < k) := by apply propext; omega
        simp [xorInv, Gmw.mkA, hjk, this]
example : Gen.C10.bit #[5#64] 2#64 = some 1#64 ∧ Gen.C10.bit #[5#64] 64#64 = some 0#64 ∧
    Gen.C10.bit #[5#64] (-1#64) = none := by decide
example : Gen.C10.setBit #[] 65#64 1#64 = some #[0#64, 2#64] := by decide
example : Gen.C10.xorBitvec #[1#64, 2#64] #[3#64] = some #[2#64, 2#64] ∧ Gen.C10.xorBitvec #[1#64] #[3#64, 4#64] = none := by
  decide

end Mpc.GenTie

/-
Lemmas about the round functions of the sha2pc model: session-id checks,
crash conditions, resumption through bytes.  Core Lean only.
-/
import MpcVerif.Model.Sha2pcRounds
import MpcVerif.Proofs.Sha2pcCodec
import MpcVerif.Proofs.Garble

namespace Mpc.Sha2pc

variable {G : Type}

/-! ## session id -/

theorem round3_sid_mismatch (P : Params G) (st : GarblerSession) (a : Bytes) (req : Round2) (key : Bytes)
    (r0 : Label) (inl : Nat → Label) (h : req.sid ≠ st.sid) : round3 P st a req key r0 inl = .error := by
  unfold round3
  rw [if_pos h]

theorem round4_sid_mismatch (P : Params G) (st : EvaluatorSession) (msg : Round3) (h : msg.sid ≠ st.sid) :
    round4 P st msg = .error := by
  unfold round4
  split
  · rfl
  · simp [h]

/-- Round 2 adopts the session id of the round-1 message in both outputs. -/
theorem round2_sid (P : Params G) (msg : Round1) (b : Bytes) (scalars : List Nat) (m2 : Round2) (es : EvaluatorSession)
    (h : round2 P msg b scalars = .ok (m2, es)) : m2.sid = msg.sid ∧ es.sid = msg.sid := by
  unfold round2 at h
  simp only at h
  split at h
  · cases h
  · split at h
    · cases h
    · split at h
      · cases h
      · simp only [Res.ok.injEq, Prod.mk.injEq] at h
        rw [← h.1, ← h.2]
        exact ⟨rfl, rfl⟩

/-- Round 3 stamps the session id of the garbler's state. -/
theorem round3_sid (P : Params G) (st : GarblerSession) (a : Bytes) (req : Round2) (key : Bytes)
    (r0 : Label) (inl : Nat → Label) (m3 : Round3) (h : round3 P st a req key r0 inl = .ok m3) :
    m3.sid = st.sid ∧ req.sid = st.sid := by
  unfold round3 at h
  simp only at h
  split at h
  · cases h
  · rename_i hs
    split at h
    · cases h
    · split at h
      · simp only [Res.ok.injEq] at h
        rw [← h]
        exact ⟨rfl, Decidable.of_not_not hs⟩
      · cases h
      · cases h

/-! ## no round crashes -/

theorem decryptCO_noPanic (K : Crypto G) (st : EvaluatorSession) (cts : List (Label × Label)) :
    NoPanic (decryptCO K st cts) := by
  unfold decryptCO
  cases K.ofPt ⟨st.ax, st.ay⟩ with
  | none => simp
  | some A => simp only; apply NoPanic.ite <;> simp

/-- `EvaluatorRound4` never crashes, whatever state and message it is given. -/
theorem round4_noPanic (P : Params G) (st : EvaluatorSession) (msg : Round3) : NoPanic (round4 P st msg) := by
  unfold round4
  apply NoPanic.ite; · simp
  apply NoPanic.ite; · simp
  have := decryptCO_noPanic P.crypto st msg.cts
  cases hd : decryptCO P.crypto st msg.cts with
  | panic => exact absurd hd this
  | error => simp
  | ok labels =>
    simp only
    cases P.circ.evalGarbled (P.hashOf msg.key) msg.tables (evalStore P.circ.numWires msg.inputs labels) with
    | error e => simp
    | ok out =>
      simp only
      apply NoPanic.ite; · simp
      cases decodeOutputs msg.hints out (P.circ.numWires - msg.hints.length) with
      | none => simp
      | some bits => simp only; apply NoPanic.ite <;> simp

/-- A stored sender point that is not on the curve is an error of round 4. -/
theorem round4_offcurve_error (P : Params G) (st : EvaluatorSession) (msg : Round3)
    (hA : P.crypto.ofPt ⟨st.ax, st.ay⟩ = none) : round4 P st msg = .error := by
  unfold round4
  split
  · rfl
  · split
    · rfl
    · unfold decryptCO
      simp [hA]

theorem encryptCO_noPanic (K : Crypto G) (st : GarblerSession) (choices : List Point) (wires : Nat → Label × Label)
    (n : Nat) : NoPanic (encryptCO K st choices wires n) := by
  unfold encryptCO
  cases K.ofPt ⟨st.ax, st.ay⟩ with
  | none => simp
  | some A =>
    simp only
    cases K.ofPt ⟨st.ainvx, st.ainvy⟩ with
    | none => simp
    | some I =>
      simp only
      apply NoPanic.ite; · simp
      cases List.mapM K.ofPt choices with
      | none => simp
      | some pts =>
        simp only
        cases Co.encrypt K.Γ (fun _ => true) K.kdf { a := st.scalar, A := A, AaInv := I } n
            (fun i => pts.getD i A) wires with
        | none => simp
        | some cts => simp

/-- A stored `A^{-a}` that is not on the curve is an error of `EncryptCOCiphertexts`. -/
theorem encryptCO_offcurve_error (K : Crypto G) (st : GarblerSession) (choices : List Point)
    (wires : Nat → Label × Label) (n : Nat) (hI : K.ofPt ⟨st.ainvx, st.ainvy⟩ = none) :
    encryptCO K st choices wires n = .error := by
  unfold encryptCO
  cases K.ofPt ⟨st.ax, st.ay⟩ with
  | none => rfl
  | some A => simp [hI]

/-- `GarblerRound3` never crashes, whatever state and message it is given. -/
theorem round3_noPanic (P : Params G) (st : GarblerSession) (a : Bytes) (req : Round2) (key : Bytes)
    (r0 : Label) (inl : Nat → Label) : NoPanic (round3 P st a req key r0 inl) := by
  unfold round3
  apply NoPanic.ite; · simp
  simp only
  apply NoPanic.ite; · simp
  have := encryptCO_noPanic P.crypto st req.choices
    (fun i => (((P.circ.garble (P.hashOf key) (setS r0) inl).wires.get (nBits + i)).l0,
               ((P.circ.garble (P.hashOf key) (setS r0) inl).wires.get (nBits + i)).l1)) nBits
  cases he : encryptCO P.crypto st req.choices
    (fun i => (((P.circ.garble (P.hashOf key) (setS r0) inl).wires.get (nBits + i)).l0,
               ((P.circ.garble (P.hashOf key) (setS r0) inl).wires.get (nBits + i)).l1)) nBits with
  | panic => exact absurd he this
  | error => simp
  | ok cts => simp

theorem round2_noPanic (P : Params G) (msg : Round1) (b : Bytes) (scalars : List Nat) :
    NoPanic (round2 P msg b scalars) := by
  unfold round2
  simp only
  apply NoPanic.ite; · simp
  apply NoPanic.ite; · simp
  cases P.crypto.ofPt ⟨msg.ax, msg.ay⟩ with
  | none => simp
  | some A => simp

/-! ## resumption through bytes -/

/-- The garbler restarted between rounds 1 and 3: round 3 run from the stored
session bytes and the received message bytes is round 3 run from the
in-memory values. -/
theorem round3B_eq (P : Params G) (hc : P.curve.WF) (st : GarblerSession) (hst : st.WF P.curve) (req : Round2)
    (hreq : req.WF P.curve) (gsb r2b : Bytes) (hg : encodeGarblerSession P.curve st = .ok gsb)
    (h2 : encodeRound2 P.curve req = .ok r2b) (a key : Bytes) (r0 : Label) (inl : Nat → Label) :
    round3B P gsb a r2b key r0 inl = (round3 P st a req key r0 inl >>= encodeRound3 (countsOf P.circ)) := by
  unfold round3B
  have hd := decodeGarblerSession_encode P.curve hc st hst gsb hg
  rw [hd, decodeRound2_encode P.curve hc req hreq r2b h2]
  simp only [Res.ok_bind]

/-- The evaluator restarted between rounds 2 and 4. -/
theorem round4B_eq (P : Params G) (hc : P.curve.WF) (st : EvaluatorSession) (hst : st.WF P.curve) (msg : Round3)
    (hmsg : msg.WF (countsOf P.circ)) (esb r3b : Bytes) (he : encodeEvaluatorSession P.curve st = .ok esb)
    (h3 : encodeRound3 (countsOf P.circ) msg = .ok r3b) : round4B P esb r3b = round4 P st msg := by
  unfold round4B
  have hd := decodeEvaluatorSession_encode P.curve hc st hst esb he
  rw [hd, decodeRound3_encode _ msg hmsg r3b h3]
  simp only [Res.ok_bind]

/-- The evaluator started from the received round-1 bytes. -/
theorem round2B_eq (P : Params G) (hc : P.curve.WF) (msg : Round1) (hmsg : msg.WF P.curve) (r1b : Bytes)
    (h1 : encodeRound1 P.curve msg = .ok r1b) (b : Bytes) (scalars : List Nat) :
    round2B P r1b b scalars = (round2 P msg b scalars >>= fun r =>
      encodeRound2 P.curve r.1 >>= fun r2b => encodeEvaluatorSession P.curve r.2 >>= fun esb => pure (r2b, esb)) := by
  unfold round2B
  have hd := decodeRound1_encode P.curve hc msg hmsg r1b h1
  rw [hd]
  simp only [Res.ok_bind]

/-- What round 3 emits is a well-formed round-3 payload for the circuit's row
counts whenever the circuit has 256 outputs and the key has 32 bytes. -/
theorem round3_WF (P : Params G) (st : GarblerSession) (a : Bytes) (req : Round2) (key : Bytes)
    (r0 : Label) (inl : Nat → Label) (m3 : Round3) (hsid : st.sid < 2 ^ 64) (hkey : key.length = keyLen)
    (hout : P.circ.nOut = nBits) (h : round3 P st a req key r0 inl = .ok m3) : m3.WF (countsOf P.circ) := by
  unfold round3 at h
  simp only at h
  split at h
  · cases h
  · split at h
    · cases h
    · split at h
      · rename_i cts hcts
        simp only [Res.ok.injEq] at h
        rw [← h]
        refine ⟨hsid, hkey, ?_, by simp, by simp [hout], ?_⟩
        · simp only [Circuit.garble, countsOf]
          exact garbleGates_rows_length _ _ _ _ _
        · -- the ciphertext list has one entry per evaluator input bit
          unfold encryptCO at hcts
          split at hcts
          · cases hcts
          · split at hcts
            · cases hcts
            · split at hcts
              · cases hcts
              · split at hcts
                · cases hcts
                · split at hcts
                  · rename_i cts' henc
                    simp only [Res.ok.injEq] at hcts
                    rw [← hcts]
                    unfold Co.encrypt at henc
                    split at henc
                    · cases henc
                    · split at henc
                      · cases henc
                      · simp only [Option.some.injEq] at henc
                        rw [← henc]; simp
                  · cases hcts
      · cases h
      · cases h

end Mpc.Sha2pc

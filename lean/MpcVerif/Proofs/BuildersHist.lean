/-
Helper lemmas for property C07: HISTORIES of builder calls on one builder
state (Model/BuildersHist.lean).

Every `_spec` lemma of Proofs/Builders*.lean is stated from an ARBITRARY
well-formed state `s` (`Spec inp s (b …) Q`), i.e. it already quantifies over
every history of earlier calls.  This file makes that explicit:

* `Spec.seq`      – sequential composition of two builders keeps the first
                    postcondition (frame property: `Ext` preserves old wires);
* `runHist_spec`  – a fold over a history of calls, each sound from any state;
* `evalHistory_spec` – the same on the circuit the harness builds
                    (inputs, prologue, the calls, `ret` of every result).
-/
import MpcVerif.Model.BuildersHist
import MpcVerif.Proofs.BuildersSpec
import MpcVerif.Proofs.BuildersGold
import MpcVerif.Proofs.BuildersDiv

namespace Mpc.Bld
open Mpc

/-- Sequential composition on ONE state: if `m1` establishes `Q1`, `Q1` is
stable under state extension, and `m2` (which may use the result of `m1`)
establishes `Q2` from every extension in which `Q1` holds, then after
`m1; m2` BOTH postconditions hold in the final state. -/
theorem Spec.seq {α β : Type} {inp : List Bool} {s : St} {m1 : BM α} {m2 : α → BM β}
    {Q1 : α → St → Prop} {Q2 : α → β → St → Prop}
    (h1 : Spec inp s m1 Q1)
    (hstab : ∀ a s' s'', Ext s' s'' inp → Q1 a s' → Q1 a s'')
    (h2 : ∀ a s', Ext s s' inp → Q1 a s' → Spec inp s' (m2 a) (Q2 a)) :
    Spec inp s (m1 >>= fun r1 => m2 r1 >>= fun r2 => (Pure.pure (r1, r2) : BM (α × β)))
      (fun (r : α × β) s'' => Q1 r.1 s'' ∧ Q2 r.1 r.2 s'') := by
  refine Spec.bind h1 ?_
  intro a s1 e1 q1
  refine Spec.bind (h2 a s1 e1 q1) ?_
  intro b s2 e2 q2
  exact Spec.pure (Q := fun (r : α × β) s'' => Q1 r.1 s'' ∧ Q2 r.1 r.2 s'') e2.wf ⟨hstab a s1 s2 e2 q1, q2⟩

/-! ### histories -/

/-- Values of all buses. -/
def busVals (s : St) (inp : List Bool) (acc : List (List Nat)) : List (List Bool) := acc.map (busVal s inp)

/-- All buses exist. -/
def BndAll (s : St) (acc : List (List Nat)) : Prop := ∀ b ∈ acc, Bnd s b

theorem BndAll.mono {s s' : St} {inp : List Bool} {acc : List (List Nat)} (e : Ext s s' inp) (h : BndAll s acc) :
    BndAll s' acc := fun b hb => (h b hb).mono e

theorem BndAll.snoc {s : St} {acc : List (List Nat)} {z : List Nat} (h : BndAll s acc) (hz : Bnd s z) :
    BndAll s (acc ++ [z]) := by
  intro b hb
  rcases List.mem_append.mp hb with h' | h'
  · exact h b h'
  · simp at h'; subst h'; exact hz

theorem busVals_ext {s s' : St} {inp : List Bool} {acc : List (List Nat)} (e : Ext s s' inp) (h : BndAll s acc) :
    busVals s' inp acc = busVals s inp acc := by
  apply List.map_congr_left
  intro b hb
  exact busVal_ext e (h b hb)

theorem busVals_snoc (s : St) (inp : List Bool) (acc : List (List Nat)) (z : List Nat) :
    busVals s inp (acc ++ [z]) = busVals s inp acc ++ [busVal s inp z] := by
  simp [busVals]

/-- A call together with its specification: `pre` is a condition on the values
of the buses known before the call (e.g. "the divisor is not zero"), `post`
relates those values to the value of the result. -/
structure SCall where
  call : Call
  pre  : List (List Bool) → Prop
  post : List (List Bool) → List Bool → Prop

/-- The call meets its specification from EVERY well-formed state and for every
list of existing buses — the form of every `_spec` lemma of this development. -/
def SCall.Sound (inp : List Bool) (c : SCall) : Prop :=
  ∀ (s : St) (acc : List (List Nat)), WF s inp → BndAll s acc → c.pre (busVals s inp acc) →
    Spec inp s (c.call acc) (fun z s' => Bnd s' z ∧ c.post (busVals s inp acc) (busVal s' inp z))

/-- The preconditions along a history follow from the values at the start and
the postconditions of the earlier calls. -/
def PreOk : List SCall → List (List Bool) → Prop
  | [], _ => True
  | c :: cs, v => c.pre v ∧ ∀ z, c.post v z → PreOk cs (v ++ [z])

/-- `Trace cs v0 v`: `v` extends `v0` by one result value per call and every
call's postcondition holds between the values before it and its result. -/
def Trace : List SCall → List (List Bool) → List (List Bool) → Prop
  | [], v0, v => v = v0
  | c :: cs, v0, v => ∃ z, c.post v0 z ∧ Trace cs (v0 ++ [z]) v

theorem Trace.length : ∀ (cs : List SCall) (v0 v : List (List Bool)), Trace cs v0 v →
    v.length = v0.length + cs.length
  | [], v0, v, h => by simp [Trace] at h; simp [h]
  | c :: cs, v0, v, h => by
    obtain ⟨z, _, ht⟩ := h
    have := Trace.length cs _ _ ht
    simp at this ⊢; omega

theorem Trace.prefix : ∀ (cs : List SCall) (v0 v : List (List Bool)), Trace cs v0 v →
    v.take v0.length = v0
  | [], v0, v, h => by simp [Trace] at h; simp [h]
  | c :: cs, v0, v, h => by
    obtain ⟨z, _, ht⟩ := h
    have h1 := Trace.prefix cs _ _ ht
    have h2 : (v.take (v0 ++ [z]).length).take v0.length = (v0 ++ [z]).take v0.length := by rw [h1]
    rw [List.take_take] at h2
    simpa [Nat.min_def] using h2

/-- The fold over a history: every call sound from any state, preconditions
implied along the way ⟹ running the calls in order on ONE state extends that
state and delivers EVERY call's postcondition in the final state. -/
theorem runHist_spec {inp : List Bool} : ∀ (cs : List SCall), (∀ c ∈ cs, c.Sound inp) →
    ∀ (s : St) (acc : List (List Nat)), WF s inp → BndAll s acc → PreOk cs (busVals s inp acc) →
    Spec inp s (runHist (cs.map (·.call)) acc) (fun out s' => BndAll s' out ∧
      Trace cs (busVals s inp acc) (busVals s' inp out))
  | [], _, s, acc, hwf, hb, _ => by
    simp only [List.map_nil, runHist]
    exact Spec.pure hwf ⟨hb, rfl⟩
  | c :: cs, hs, s, acc, hwf, hb, hpre => by
    simp only [List.map_cons, runHist]
    refine Spec.bind (hs c (by simp) s acc hwf hb hpre.1) ?_
    intro z s1 e1 ⟨hz, hpost⟩
    have hb1 : BndAll s1 (acc ++ [z]) := (hb.mono e1).snoc hz
    have hv1 : busVals s1 inp (acc ++ [z]) = busVals s inp acc ++ [busVal s1 inp z] := by
      rw [busVals_snoc, busVals_ext e1 hb]
    have hpre1 : PreOk cs (busVals s1 inp (acc ++ [z])) := by
      rw [hv1]; exact hpre.2 _ hpost
    refine (runHist_spec cs (fun c' hc' => hs c' (by simp [hc'])) s1 (acc ++ [z]) e1.wf hb1 hpre1).mono ?_
    intro out s2 _ ⟨hbo, htr⟩
    refine ⟨hbo, busVal s1 inp z, hpost, ?_⟩
    rw [hv1] at htr; exact htr

/-! ### the harness circuit of a history -/

theorem retBuses_spec {inp : List Bool} : ∀ (bs : List (List Nat)) {s : St}, WF s inp → BndAll s bs →
    Spec inp s (retBuses bs) (fun o s' => busVals s' inp o = busVals s inp bs)
  | [], s, hwf, _ => by
    simp only [retBuses]; exact Spec.pure hwf rfl
  | b :: bs, s, hwf, hb => by
    simp only [retBuses]
    refine Spec.bind (retWires_spec b hwf (hb b (by simp))) ?_
    intro o s1 e1 ⟨hob, hov⟩
    have hb1 : BndAll s1 bs := fun x hx => (hb x (by simp [hx])).mono e1
    refine Spec.bind (retBuses_spec bs e1.wf hb1) ?_
    intro r s2 e2 hr
    refine Spec.pure e2.wf ?_
    have h1 : busVal s2 inp o = busVal s inp b := by rw [busVal_ext e2 hob, hov]
    have h2 : busVals s1 inp bs = busVals s inp bs := busVals_ext e1 (fun x hx => hb x (by simp [hx]))
    simp only [busVals, List.map_cons] at hr h2 ⊢
    rw [h1, hr, h2]

theorem inputBuses_bnd {s0 s : St} {inp : List Bool} (e : Ext s0 s inp) : ∀ (ws : List Nat) (ofs : Nat),
    ofs + ws.sum ≤ s0.nIn → BndAll s (inputBuses ofs ws)
  | [], _, _ => by intro b hb; simp [inputBuses] at hb
  | n :: ns, ofs, h => by
    simp only [List.sum_cons] at h
    intro b hb
    simp only [inputBuses, List.mem_cons] at hb
    rcases hb with rfl | hb
    · exact inputWires_bnd e ofs n (by omega)
    · exact inputBuses_bnd e ns (ofs + n) (by omega) b hb

theorem inputBuses_val (s : St) : ∀ (ins : List (List Bool)) (pre : List Bool),
    busVals s (pre ++ ins.flatten) (inputBuses pre.length (ins.map List.length)) = ins
  | [], _ => by simp [inputBuses, busVals]
  | x :: xs, pre => by
    simp only [List.map_cons, inputBuses, busVals, List.flatten_cons]
    have h1 : busVal s (pre ++ (x ++ xs.flatten)) (inputWires pre.length x.length) = x := by
      rw [inputWires_val _ _ _ _ (by simp)]
      simp
    have h2 := inputBuses_val s xs (pre ++ x)
    simp only [busVals, List.length_append, List.append_assoc] at h2
    rw [h1, h2]

theorem inputBuses_length : ∀ (ws : List Nat) (ofs : Nat), (inputBuses ofs ws).length = ws.length
  | [], _ => rfl
  | n :: ns, ofs => by
    simp only [inputBuses, List.length_cons]
    rw [inputBuses_length ns]

theorem sum_map_length : ∀ (ins : List (List Bool)), (ins.map List.length).sum = ins.flatten.length
  | [] => rfl
  | x :: xs => by
    simp only [List.map_cons, List.sum_cons, List.flatten_cons, List.length_append]
    rw [sum_map_length xs]

/-- From the fold to the circuit the harness builds for a history
(`evalHistory`: input buses `ins`, optional constant-wire prologue, the calls in
order on ONE state, `ret` of every result, evaluation of the emitted gates):
the outputs are one value per call and every call's postcondition holds between
the values before it and its output. -/
theorem evalHistory_spec {ins : List (List Bool)} (cs : List SCall)
    (hs : ∀ c ∈ cs, c.Sound ins.flatten) (hpre : PreOk cs ins) (pro : Bool) (hpos : 0 < ins.flatten.length) :
    Trace cs ins (ins ++ evalHistory pro ins (cs.map (·.call))) := by
  have hl : ins.flatten.length = (ins.map List.length).sum := (sum_map_length ins).symm
  have e0 := initSt_ext hl (by omega) pro
  have hb0 : BndAll (initSt (ins.map List.length).sum pro) (inputBuses 0 (ins.map List.length)) :=
    inputBuses_bnd e0 _ 0 (by simp)
  have hv0 : busVals (initSt (ins.map List.length).sum pro) ins.flatten (inputBuses 0 (ins.map List.length)) = ins := by
    have := inputBuses_val (initSt (ins.map List.length).sum pro) ins []
    simpa using this
  obtain ⟨e1, hbo, htr⟩ := runHist_spec cs hs _ _ e0.wf hb0 (by rw [hv0]; exact hpre)
  rw [hv0] at htr
  have hev : evalHistory pro ins (cs.map (·.call)) =
      busVals (retBuses (((runHist (cs.map (·.call)) (inputBuses 0 (ins.map List.length))
          (initSt (ins.map List.length).sum pro)).1).drop (ins.map List.length).length)
          (runHist (cs.map (·.call)) (inputBuses 0 (ins.map List.length))
          (initSt (ins.map List.length).sum pro)).2).2 ins.flatten
        (retBuses (((runHist (cs.map (·.call)) (inputBuses 0 (ins.map List.length))
          (initSt (ins.map List.length).sum pro)).1).drop (ins.map List.length).length)
          (runHist (cs.map (·.call)) (inputBuses 0 (ins.map List.length))
          (initSt (ins.map List.length).sum pro)).2).1 := rfl
  rw [hev]
  generalize runHist (cs.map (·.call)) (inputBuses 0 (ins.map List.length))
    (initSt (ins.map List.length).sum pro) = R at e1 hbo htr ⊢
  -- the results are the buses after the inputs
  have hpref := Trace.prefix _ _ _ htr
  have hbd : BndAll R.2 (R.1.drop (ins.map List.length).length) :=
    fun b hb => hbo b (List.mem_of_mem_drop hb)
  obtain ⟨_, hov⟩ := retBuses_spec _ e1.wf hbd
  rw [hov]
  have hd : busVals R.2 ins.flatten (R.1.drop (ins.map List.length).length) =
      (busVals R.2 ins.flatten R.1).drop ins.length := by
    simp [busVals, List.map_drop]
  rw [hd]
  have : ins ++ (busVals R.2 ins.flatten R.1).drop ins.length = busVals R.2 ins.flatten R.1 := by
    conv => lhs; arg 1; rw [← hpref]
    exact List.take_append_drop _ _
  rw [this]; exact htr

/-! ### calls on slices of the known buses -/

/-- Value-level counterpart of `pick`. -/
def pickV (v : List (List Bool)) (x : Nat × Nat × Nat) : List Bool := ((v.getD x.1 []).drop x.2.1).take x.2.2

theorem pick_bnd {s : St} {acc : List (List Nat)} (h : BndAll s acc) (k lo len : Nat) : Bnd s (pick acc k lo len) := by
  intro w hw
  have hw' : w ∈ acc.getD k [] := List.mem_of_mem_drop (List.mem_of_mem_take hw)
  by_cases hk : k < acc.length
  · have hm : acc.getD k [] ∈ acc := by
      rw [List.getD_eq_getElem?_getD, List.getElem?_eq_getElem hk]; simp
    exact h _ hm w hw'
  · rw [List.getD_eq_getElem?_getD, List.getElem?_eq_none (by omega)] at hw'
    simp at hw'

theorem pick_val (s : St) (inp : List Bool) (acc : List (List Nat)) (k lo len : Nat) :
    busVal s inp (pick acc k lo len) = pickV (busVals s inp acc) (k, lo, len) := by
  simp only [pick, pickV, busVal, busVals, List.map_take, List.map_drop]
  congr 2
  by_cases hk : k < acc.length
  · simp [List.getD_eq_getElem?_getD, hk, busVal]
  · simp [List.getD_eq_getElem?_getD, List.getElem?_eq_none (Nat.le_of_not_lt hk)]

/-- A two-operand builder applied to slices `x`, `y` of the known buses, with a
precondition and a postcondition on the operand VALUES. -/
def SCall.of2 (b : List Nat → List Nat → BM (List Nat)) (x y : Nat × Nat × Nat)
    (pre : List Bool → List Bool → Prop) (post : List Bool → List Bool → List Bool → Prop) : SCall :=
  { call := fun acc => b (pick acc x.1 x.2.1 x.2.2) (pick acc y.1 y.2.1 y.2.2)
    pre := fun v => pre (pickV v x) (pickV v y)
    post := fun v z => post (pickV v x) (pickV v y) z }

/-- A builder specification in the form used throughout (`Spec` from any
well-formed state, operands any existing buses) makes the call sound. -/
theorem SCall.of2_sound {inp : List Bool} {b : List Nat → List Nat → BM (List Nat)} (x y : Nat × Nat × Nat)
    {pre : List Bool → List Bool → Prop} {post : List Bool → List Bool → List Bool → Prop}
    (hb : ∀ (s : St) (xw yw : List Nat), WF s inp → Bnd s xw → Bnd s yw → pre (busVal s inp xw) (busVal s inp yw) →
      Spec inp s (b xw yw) (fun z s' => Bnd s' z ∧ post (busVal s inp xw) (busVal s inp yw) (busVal s' inp z))) :
    (SCall.of2 b x y pre post).Sound inp := by
  intro s acc hwf hba hpre
  simp only [SCall.of2] at hpre ⊢
  rw [← pick_val, ← pick_val] at hpre ⊢
  exact hb s _ _ hwf (pick_bnd hba _ _ _) (pick_bnd hba _ _ _) hpre

/-! ### the Goldschmidt divider with an explicit estimator -/

/-- On operands of equal width `goldschmidt` is the estimator followed by the
correction step (`zeroPad` is the identity there). -/
theorem goldschmidt_eq_dividerWith (a b : List Nat) (nq nr : Nat) (h : a.length = b.length) :
    goldschmidt a b nq nr = dividerWith goldEstimate a b nq nr := by
  funext s
  simp [goldschmidt, dividerWith, zeroPad, h]

/-- Hypothesis `goldschmidt-estimate-within-one` for an estimator `est` run
from the state `s` on the operand buses `a`, `b`: it extends the state and its
result is within ±1 of `⌊a / b⌋`. -/
def EstWithinOne (est : List Nat → List Nat → BM (List Nat)) (inp : List Bool) (s : St) (a b : List Nat) : Prop :=
  Spec inp s (est a b) (fun q s' => Bnd s' q ∧ q.length = a.length ∧
    toNat (busVal s' inp q) ≤ toNat (busVal s inp a) / toNat (busVal s inp b) + 1 ∧
    toNat (busVal s inp a) / toNat (busVal s inp b) ≤ toNat (busVal s' inp q) + 1)

/-- The divider is exact from ANY state in which its estimator is within one. -/
theorem dividerWith_spec {est : List Nat → List Nat → BM (List Nat)} {s : St} {inp : List Bool}
    {a b : List Nat} (nq nr : Nat) (ha : Bnd s a) (hb : Bnd s b) (hlb : b.length = a.length) (hn : 0 < a.length)
    (hB : 0 < toNat (busVal s inp b)) (hest : EstWithinOne est inp s a b) :
    Spec inp s (dividerWith est a b nq nr) (fun t s' => Bnd s' t.1 ∧ Bnd s' t.2 ∧
      t.1.length = nq ∧ t.2.length = nr ∧
      toNat (busVal s' inp t.1) = (toNat (busVal s inp a) / toNat (busVal s inp b)) % 2 ^ nq ∧
      toNat (busVal s' inp t.2) = (toNat (busVal s inp a) % toNat (busVal s inp b)) % 2 ^ nr) := by
  unfold dividerWith
  refine Spec.bind hest ?_
  intro q s1 e1 ⟨hq, hql, h1, h2⟩
  have hva : busVal s1 inp a = busVal s inp a := busVal_ext e1 ha
  have hvb : busVal s1 inp b = busVal s inp b := busVal_ext e1 hb
  refine (goldCorrection_spec e1.wf nq nr (ha.mono e1) (hb.mono e1) hq hlb hql hn (by rw [hvb]; exact hB)
    (by rw [hva, hvb]; exact ⟨h1, h2⟩)).mono ?_
  intro t s2 _ ⟨t1, t2, l1, l2, v1, v2⟩
  rw [hva, hvb] at v1 v2
  exact ⟨t1, t2, l1, l2, v1, v2⟩

/-! ### calls and estimators used by the instances in Props/C07.lean -/

/-- The long divider (quotient) as a call of a history, on slices `x`, `y` of
the known buses. -/
def udivLongCall (gmw : Bool) (nq : Nat) (x y : Nat × Nat × Nat) : SCall :=
  SCall.of2 (fun a b => do let d ← uDividerLong gmw a b nq 0; pure d.1) x y
    (fun xv yv => 0 < max xv.length yv.length ∧ toNat yv ≠ 0)
    (fun xv yv z => z.length = nq ∧ toNat z = (toNat xv / toNat yv) % 2 ^ nq)

theorem udivLongCall_sound (inp : List Bool) (gmw : Bool) (nq : Nat) (x y : Nat × Nat × Nat) :
    (udivLongCall gmw nq x y).Sound inp := by
  refine SCall.of2_sound x y ?_
  intro s xw yw hwf hx hy ⟨hne, hy0⟩
  refine (uDividerLong_spec hwf gmw nq 0 hx hy (by simpa using hne) (by omega)).map ?_
  intro t s' _ ⟨h1, _, h1l, _, hq, _⟩
  exact ⟨h1, by simpa using h1l, hq⟩

/-- The ripple adder as a call of a history. -/
def rippleAdderCall (nz : Nat) (x y : Nat × Nat × Nat) : SCall :=
  SCall.of2 (fun a b => rippleAdder a b nz) x y
    (fun xv yv => 0 < max xv.length yv.length ∧ 0 < nz)
    (fun xv yv z => z.length = nz ∧ toNat z = (toNat xv + toNat yv) % 2 ^ nz)

theorem rippleAdderCall_sound (inp : List Bool) (nz : Nat) (x y : Nat × Nat × Nat) :
    (rippleAdderCall nz x y).Sound inp := by
  refine SCall.of2_sound x y ?_
  intro s xw yw hwf hx hy ⟨hne, hnz⟩
  refine (rippleAdder_spec hwf nz hx hy (by simpa using hne) hnz).mono ?_
  intro z s' _ ⟨hb, hl, hv⟩
  exact ⟨hb, by simpa using hl, hv⟩

/-- An estimator that satisfies the hypothesis of `Mpc.C07_history_divider_pair` from
EVERY state (non-vacuity of that hypothesis): the exact long-division quotient. -/
def exactEstimator (a b : List Nat) : BM (List Nat) := do
  let d ← uDividerLong false a b a.length 0
  pure d.1

theorem exactEstimator_withinOne {s : St} {inp : List Bool} (hwf : WF s inp) {a b : List Nat}
    (ha : Bnd s a) (hb : Bnd s b) (hna : 0 < a.length) (hB : 0 < toNat (busVal s inp b)) :
    EstWithinOne exactEstimator inp s a b := by
  unfold EstWithinOne exactEstimator
  refine (uDividerLong_spec hwf false a.length 0 ha hb (by omega) hB).map ?_
  intro t s' _ ⟨h1, _, h1l, _, hq, _⟩
  have hlt : toNat (busVal s inp a) / toNat (busVal s inp b) < 2 ^ a.length := by
    have := toNat_lt (busVal s inp a)
    rw [busVal_length] at this
    exact Nat.lt_of_le_of_lt (Nat.div_le_self _ _) this
  rw [Nat.mod_eq_of_lt hlt] at hq
  exact ⟨h1, h1l, by omega, by omega⟩

/-- The two Goldschmidt dividers of a history as calls. -/
def goldCall (nq : Nat) (x y : Nat × Nat × Nat) : Call := fun acc => do
  let d ← goldschmidt (pick acc x.1 x.2.1 x.2.2) (pick acc y.1 y.2.1 y.2.2) nq 0
  pure d.1


end Mpc.Bld

/-
T1 tie (DESIGN.md 1.3) of `sha2pc.pointSign` (sha2pc/encoding.go: the stored parity bit of the
i-th compressed point) to `Mpc.Sha2pc.pointSign` of the C18 model Model/Sha2pc.lean: the definition
of MpcVerif/Gen/LeafC18.lean, regenerated from the current Go source by `gofacts translate -group
C18`, returns the model's bit for a non-negative index, `none` = Go's index-out-of-range panic
exactly when the model panics.  Core Lean only.
-/
import MpcVerif.Gen.LeafC18
import MpcVerif.Proofs.GenTieLib
import MpcVerif.Model.Sha2pc

namespace Mpc.GenTie
open Mpc Mpc.Gen Mpc.Gen.C18

/-- The model's reading of a Go byte slice. -/
def toU8s (a : Array (BitVec 8)) : List UInt8 := a.toList.map UInt8.ofBitVec

/-- Go outcome of the model (`pointSign` has no error result). -/
def resOpt {α : Type} : Sha2pc.Res α → Option α
  | .ok a => some a
  | _ => none

theorem and_shl_one_ne_zero8 (b : BitVec 8) (n : Nat) (hn : n < 8) :
    (b &&& 1#8 <<< n != 0#8) = b.toNat.testBit n := by
  rw [← BitVec.twoPow_eq, BitVec.and_twoPow]
  show _ = b.getLsbD n
  cases h : b.getLsbD n
  · simp
  · have h2 : BitVec.twoPow 8 n ≠ 0#8 := by
      intro h2
      have := congrArg (fun x => x.getLsbD n) h2
      simp [hn] at this
    simp [h2]

theorem shr_and_one8 (b : BitVec 8) (n : Nat) : (b >>> n) &&& 1#8 = if b.getLsbD n then 1#8 else 0#8 := by
  apply BitVec.eq_of_getLsbD_eq; intro i hi
  by_cases h0 : i = 0
  · subst h0; cases h : b.getLsbD n <;> simp [h]
  · cases h : b.getLsbD n <;> simp [h0]
/-- the same test written `b>>n&1 == 1` / `!= 0` -/
theorem shr_and_one_eq_one8 (b : BitVec 8) (n : Nat) : ((b >>> n) &&& 1#8 == 1#8) = b.toNat.testBit n := by
  rw [shr_and_one8]; show _ = b.getLsbD n; cases b.getLsbD n <;> decide
theorem shr_and_one_ne_zero8 (b : BitVec 8) (n : Nat) : ((b >>> n) &&& 1#8 != 0#8) = b.toNat.testBit n := by
  rw [shr_and_one8]; show _ = b.getLsbD n; cases b.getLsbD n <;> decide

theorem tie_pointSign (signs : Array (BitVec 8)) (idx : BitVec 64) (hsz : signs.size < 2^63) (hi : idx.toNat < 2^63) :
    Gen.C18.pointSign signs idx = resOpt (Sha2pc.pointSign (toU8s signs) idx.toNat) := by
  have hw := sdiv_nonneg idx 8 hi (by omega)
  have ho := srem_nonneg idx 8 hi (by omega)
  have hz : (BitVec.ofNat 64 signs.size == 0#64) = decide (signs.size = 0) := by
    rw [Bool.eq_iff_iff]; simp only [beq_iff_eq, decide_eq_true_eq]
    constructor
    · intro h; have := congrArg BitVec.toNat h; rw [ofNat_size _ hsz] at this; simpa using this
    · intro h; rw [h]
  simp only [Gen.C18.pointSign, Sha2pc.pointSign, hz, slt_zero, hw, ho]
  by_cases h0 : signs.size = 0
  · have : (toU8s signs).isEmpty = true := by simp [toU8s, Array.eq_empty_of_size_eq_zero h0]
    simp [h0, this, resOpt]
  · have hne : ¬ signs = #[] := by intro h; exact h0 (by simp [h])
    simp only [h0, decide_false, Bool.false_eq_true, if_false, show ¬ (2^63 ≤ idx.toNat / 8) by omega,
      Bool.false_or, Sha2pc.byteAt, toU8s]
    by_cases hb : signs.size ≤ idx.toNat / 8
    · simp [hb, hne, resOpt, bind, Sha2pc.Res.bind]
    · have hlt : idx.toNat / 8 < signs.size := by omega
      simp [hb, hlt, hne, resOpt, bind, Sha2pc.Res.bind, pure, and_shl_one_ne_zero8 _ _ (show idx.toNat % 8 < 8 by omega),
        shr_and_one_eq_one8, shr_and_one_ne_zero8, Array.getD]

example : Gen.C18.pointSign #[0x04#8] 2#64 = some true ∧ Gen.C18.pointSign #[0x04#8] 8#64 = none ∧
    Gen.C18.pointSign #[] 8#64 = some false := by decide

end Mpc.GenTie

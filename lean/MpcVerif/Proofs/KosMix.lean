/-
Mixed histories (Model/KosMix.lean): every well-formed call of every kind runs
to completion on in-step streams and leaves them in step (`call_okK` for the
malicious-mode calls, C06's `call_okB` for the others), hence every history
does and every malicious-mode call in it passes its check and is correlated.
-/
import MpcVerif.Model.KosMix
import MpcVerif.Proofs.KosBuf

namespace Mpc.Kos
open Mpc.Iknp Mpc.Clmul

/-- Caller obligations of a call of a mixed history. -/
def MCall.WF (SL SW : Nat) : MCall → Prop
  | .kos c => c.WF SL
  | .plain c => c.WF SL SW

/-- What a call of a mixed history delivers: `KSpec` for a malicious-mode call
(accepted, `received_i = sent_i xor choice_i*Delta`), C06's `CallSpecB` for the
other kinds. -/
def MSpec (delta : Label) : MCall → MOut → Prop
  | .kos c, .kos r sent => KSpec delta c (r, sent)
  | .plain c, .plain o => CallSpecB delta c o
  | _, _ => False

theorem call_okM (X : Label → Nat → Label) (R0 R1 SS : Nat → Nat → Byte) (delta : Label) (hb : BaseOK R0 R1 SS delta)
    (rs : RecvSt) (ss : SendSt) (hs : InStep rs ss) (ar : Arena) (SL SW : Nat) (har : ar.Sized SL SW)
    (c : MCall) (hc : c.WF SL SW) :
    ∃ rs' ss' ar' out, runMCall Store.assign .write X R0 R1 SS delta rs ss ar c = some (rs', ss', ar', out) ∧
      InStep rs' ss' ∧ ar'.Sized SL SW ∧ MSpec delta c out := by
  cases c with
  | kos c =>
    obtain ⟨rs', ss', l', r, sent, h1, h2, h3, h4⟩ := call_okK X R0 R1 SS delta hb rs ss hs ar.labels SL har.1 c hc
    exact ⟨rs', ss', { ar with labels := l' }, .kos r sent, by simp only [runMCall, h1], h2, ⟨h3, har.2.1, har.2.2⟩, h4⟩
  | plain c =>
    obtain ⟨rs', ss', ar', out, u, h1, h2, h3, h4⟩ := call_okB R0 R1 SS delta hb rs ss hs ar SL SW har c hc
    exact ⟨rs', ss', ar', .plain out, by simp only [runMCall, h1], h2, h3, h4⟩

theorem sessionM_ok (X : Label → Nat → Label) (R0 R1 SS : Nat → Nat → Byte) (delta : Label) (hb : BaseOK R0 R1 SS delta)
    (SL SW : Nat) :
    ∀ (cs : List MCall) (rs : RecvSt) (ss : SendSt) (ar : Arena), InStep rs ss → ar.Sized SL SW →
      (∀ c ∈ cs, c.WF SL SW) →
      ∃ outs, sessionM Store.assign .write X R0 R1 SS delta rs ss ar cs = some outs ∧ outs.length = cs.length ∧
        ∀ k (hk : k < cs.length) (hk' : k < outs.length), MSpec delta cs[k] outs[k] := by
  intro cs
  induction cs with
  | nil => intro rs ss ar _ _ _; exact ⟨[], rfl, rfl, fun k hk => absurd hk (Nat.not_lt_zero _)⟩
  | cons c cs ih =>
    intro rs ss ar hs har hwf
    obtain ⟨rs', ss', ar', out, h1, h2, h2', h3⟩ :=
      call_okM X R0 R1 SS delta hb rs ss hs ar SL SW har c (hwf c (List.mem_cons_self ..))
    obtain ⟨outs, h4, h5, h6⟩ := ih rs' ss' ar' h2 h2' (fun c' hc' => hwf c' (List.mem_cons_of_mem _ hc'))
    refine ⟨out :: outs, ?_, by simp [h5], ?_⟩
    · simp only [sessionM, h1, h4, Option.map_some]
    · intro k hk hk'
      cases k with
      | zero => exact h3
      | succ k => exact h6 k (by simpa using hk) (by simpa using hk')

end Mpc.Kos

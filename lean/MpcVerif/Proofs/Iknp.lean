/-
Lemmas about the IKNP model (Model/Iknp.lean): buffer reads, the mask loops,
the chunk algebra `t = chunk xor Delta_i * choices`, the transpose
(`createLabels`), the lock-step induction over the chunk loops of
`receive`/`send`, and the packed-bit helpers.  Core Lean only.
-/
import MpcVerif.Model.Iknp
namespace Mpc.Iknp

@[simp] theorem size_mk {α : Type} (n : Nat) (f : Nat → α) : (mk n f).size = n := by simp [mk]

theorem getD_mk {α : Type} (n : Nat) (f : Nat → α) (i : Nat) (d : α) (h : i < n) : (mk n f).getD i d = f i := by
  simp [mk, Array.getD, h]

theorem bget_mk (n : Nat) (f : Nat → Byte) (i : Nat) (h : i < n) : bget (mk n f) i = f i := getD_mk n f i _ h

theorem foldl_or_getLsbD {w : Nat} (p : Nat → Nat) (f : Nat → Bool) (js : List Nat) (acc : BitVec w) (m : Nat) (hm : m < w) :
    (js.foldl (fun a j => if f j then a ||| (1#w <<< p j) else a) acc).getLsbD m
      = (acc.getLsbD m || js.any fun j => f j && p j == m) := by
  induction js generalizing acc with
  | nil => simp
  | cons j js ih =>
    simp only [List.foldl_cons, List.any_cons]
    rw [ih]
    by_cases hf : f j
    · simp only [hf, if_true, BitVec.getLsbD_or, Bool.true_and, Bool.or_assoc]
      congr 1
      congr 1
      simp only [BitVec.getLsbD_shiftLeft, BitVec.getLsbD_one, hm, decide_true, Bool.true_and]
      by_cases h : p j = m
      · subst h; simp; omega
      · have : (p j == m) = false := by simp [h]
        rw [this]
        simp
        omega
    · simp [hf]

theorem getLsbD_orBits {w : Nat} (p : Nat → Nat) (f : Nat → Bool) (cnt m : Nat) (hm : m < w) :
    (orBits (w := w) p f cnt).getLsbD m = (List.range cnt).any fun j => f j && p j == m := by
  simp [orBits, foldl_or_getLsbD p f _ _ m hm]

theorem labelPos_lt {j : Nat} (h : j < 128) : labelPos j < 128 := by
  unfold labelPos; split <;> omega

theorem labelPos_inj {i j : Nat} (hi : i < 128) (hj : j < 128) (h : labelPos i = labelPos j) : i = j := by
  unfold labelPos at h; split at h <;> split at h <;> omega

theorem labelPos_invol {j : Nat} (h : j < 128) : labelPos (labelPos j) = j := by
  unfold labelPos; split <;> split <;> omega

/-- `Label.Bit(j)` of the label built by the mask loop is the `j`-th input bit. -/
theorem labelBit_labelOfBits (f : Nat → Bool) (j : Nat) (hj : j < 128) : labelBit (labelOfBits f) j = f j := by
  unfold labelBit labelOfBits
  rw [getLsbD_orBits _ _ _ _ (labelPos_lt hj)]
  rw [Bool.eq_iff_iff]
  simp only [List.any_eq_true, List.mem_range, Bool.and_eq_true, beq_iff_eq]
  constructor
  · rintro ⟨x, hx, hfx, hp⟩
    have := labelPos_inj hx hj hp
    subst this; exact hfx
  · intro h; exact ⟨j, hj, h, rfl⟩

theorem getLsbD_byteOfBits (f : Nat → Bool) (t : Nat) (ht : t < 8) : (byteOfBits f).getLsbD t = f t := by
  unfold byteOfBits
  rw [getLsbD_orBits _ _ _ _ ht]
  rw [Bool.eq_iff_iff]
  simp only [List.any_eq_true, List.mem_range, Bool.and_eq_true, beq_iff_eq, id]
  constructor
  · rintro ⟨x, _, hfx, hp⟩; subst hp; exact hfx
  · intro h; exact ⟨t, ht, h, rfl⟩

/-- Labels are equal when all 128 Go-numbered bits are. -/
theorem label_ext (a b : Label) (h : ∀ j, j < 128 → labelBit a j = labelBit b j) : a = b := by
  apply BitVec.eq_of_getLsbD_eq
  intro m hm
  have := h (labelPos m) (labelPos_lt hm)
  simpa [labelBit, labelPos_invol hm] using this

theorem labelBit_xor (a b : Label) (j : Nat) : labelBit (a ^^^ b) j = (labelBit a j ^^ labelBit b j) := by
  simp [labelBit]

@[simp] theorem labelBit_zero (j : Nat) : labelBit 0#128 j = false := by simp [labelBit]

@[simp] theorem size_xorBytes (d s : Bytes) : (xorBytes d s).size = d.size := by simp [xorBytes]
@[simp] theorem size_sliceFrom (b : Bytes) (s : Nat) : (sliceFrom b s).size = b.size - s := by simp [sliceFrom]
@[simp] theorem size_prgRead (S : Nat → Byte) (p l : Nat) : (prgRead S p l).size = l := by simp [prgRead]
@[simp] theorem size_flat (w : Nat) (c : Array Bytes) : (flat w c).size = K * w := by simp [flat]

theorem bget_xorBytes (d s : Bytes) (k : Nat) (hk : k < d.size) :
    bget (xorBytes d s) k = if k < s.size then bget d k ^^^ bget s k else bget d k := by
  simp [xorBytes, bget_mk _ _ _ hk]

theorem bget_sliceFrom (b : Bytes) (s k : Nat) (hk : s + k < b.size) : bget (sliceFrom b s) k = bget b (s + k) := by
  unfold sliceFrom; rw [bget_mk]; omega

theorem bget_prgRead (S : Nat → Byte) (p l k : Nat) (hk : k < l) : bget (prgRead S p l) k = S (p + k) := by
  unfold prgRead; rw [bget_mk _ _ _ hk]

theorem idx_lt {i k w : Nat} (hi : i < K) (hk : k < w) : i * w + k < K * w := by
  have : (i + 1) * w ≤ K * w := Nat.mul_le_mul_right w hi
  rw [Nat.add_mul] at this
  omega

theorem idx_div {i k w : Nat} (hk : k < w) : (i * w + k) / w = i := by
  rw [Nat.mul_comm, Nat.mul_add_div (by omega), Nat.div_eq_of_lt hk]; rfl

theorem idx_mod {i k w : Nat} (hk : k < w) : (i * w + k) % w = k := by
  rw [Nat.mul_comm, Nat.mul_add_mod, Nat.mod_eq_of_lt hk]

theorem bget_flat (w : Nat) (cols : Array Bytes) (i k : Nat) (hi : i < K) (hk : k < w) :
    bget (flat w cols) (i * w + k) = bget (cols.getD i #[]) k := by
  unfold flat
  rw [bget_mk _ _ _ (idx_lt hi hk), idx_div hk, idx_mod hk]

/-- What the choice-XOR step (`mask`) of a chunk must satisfy: it XORs byte `k`
of a `w`-byte column with the choice byte `cb k`. -/
def MaskOK (mask : Bytes → Bytes) (w : Nat) (cb : Nat → Byte) : Prop :=
  ∀ tmp : Bytes, tmp.size = w → (mask tmp).size = w ∧ ∀ k, k < w → bget (mask tmp) k = bget tmp k ^^^ cb k

theorem size_recvCols_u (R0 R1 : Nat → Nat → Byte) (st : RecvSt) (w : Nat) (mask : Bytes → Bytes) :
    (recvCols R0 R1 st w mask).1.size = K * w := by simp [recvCols]

theorem recvCols_chunk (R0 R1 : Nat → Nat → Byte) (st : RecvSt) (w : Nat) (mask : Bytes → Bytes)
    (i k : Nat) (hi : i < K) (hk : k < w) :
    bget (recvCols R0 R1 st w mask).2 (i * w + k) = R0 i (st.p0 i + k) := by
  simp only [recvCols]
  rw [bget_flat _ _ _ _ hi hk, getD_mk _ _ _ _ hi, bget_prgRead _ _ _ _ hk]

theorem recvCols_u (R0 R1 : Nat → Nat → Byte) (st : RecvSt) (w : Nat) (mask : Bytes → Bytes) (cb : Nat → Byte)
    (hm : MaskOK mask w cb) (i k : Nat) (hi : i < K) (hk : k < w) :
    bget (recvCols R0 R1 st w mask).1 (i * w + k) = R1 i (st.p1 i + k) ^^^ R0 i (st.p0 i + k) ^^^ cb k := by
  simp only [recvCols]
  rw [bget_flat _ _ _ _ hi hk, getD_mk _ _ _ _ hi, getD_mk _ _ _ _ hi]
  have hsz : (xorBytes (prgRead (R1 i) (st.p1 i) w) (prgRead (R0 i) (st.p0 i) w)).size = w := by simp
  rw [(hm _ hsz).2 k hk, bget_xorBytes _ _ _ (by simpa using hk)]
  simp [hk, bget_prgRead _ _ _ _ hk]

theorem sendCols_get (SS : Nat → Nat → Byte) (delta : Label) (ss : SendSt) (u : Bytes) (w : Nat)
    (hu : u.size = K * w) (i k : Nat) (hi : i < K) (hk : k < w) :
    bget (sendCols SS delta ss u w) (i * w + k) =
      if labelBit delta i then SS i (ss.p i + k) ^^^ bget u (i * w + k) else SS i (ss.p i + k) := by
  simp only [sendCols]
  rw [bget_flat _ _ _ _ hi hk, getD_mk _ _ _ _ hi]
  have hlt := idx_lt hi hk
  split
  · rw [bget_xorBytes _ _ _ (by simpa using hk)]
    have : k < (sliceFrom u (i * w)).size := by simp; omega
    simp only [this, if_true]
    rw [bget_prgRead _ _ _ _ hk, bget_sliceFrom _ _ _ (by omega)]
  · rw [bget_prgRead _ _ _ _ hk]

/-- Sender and receiver streams are in step: every sender stream is at the
position of both receiver streams of the same column. -/
def InStep (rs : RecvSt) (ss : SendSt) : Prop := ∀ i, ss.p i = rs.p0 i ∧ rs.p1 i = rs.p0 i

theorem InStep.adv {rs : RecvSt} {ss : SendSt} (h : InStep rs ss) (d : Nat) : InStep (rs.adv d) (ss.adv d) := by
  intro i; have := h i; simp [RecvSt.adv, SendSt.adv]; omega

theorem InStep.init : InStep RecvSt.init SendSt.init := by intro i; simp [RecvSt.init, SendSt.init]

/-- The base OTs delivered: sender stream `i` is the receiver's stream
selected by `Delta.Bit(i)`. -/
def BaseOK (R0 R1 SS : Nat → Nat → Byte) (delta : Label) : Prop :=
  ∀ i, i < K → ∀ p, SS i p = if labelBit delta i then R1 i p else R0 i p

/-- Chunk algebra: `t = chunk xor (Delta_i ? choice byte : 0)`, column by column. -/
theorem chunk_corr (R0 R1 SS : Nat → Nat → Byte) (delta : Label) (hb : BaseOK R0 R1 SS delta)
    (rs : RecvSt) (ss : SendSt) (hs : InStep rs ss) (w : Nat) (mask : Bytes → Bytes) (cb : Nat → Byte)
    (hm : MaskOK mask w cb) (i k : Nat) (hi : i < K) (hk : k < w) :
    bget (sendCols SS delta ss (recvCols R0 R1 rs w mask).1 w) (i * w + k) =
      bget (recvCols R0 R1 rs w mask).2 (i * w + k) ^^^ (if labelBit delta i then cb k else 0#8) := by
  rw [sendCols_get _ _ _ _ _ (size_recvCols_u ..) _ _ hi hk, recvCols_chunk _ _ _ _ _ _ _ hi hk,
    recvCols_u _ _ _ _ _ _ hm _ _ hi hk, hb i hi]
  have := hs i
  split
  · rw [this.1, this.2]
    generalize R1 i (rs.p0 i + k) = a
    generalize R0 i (rs.p0 i + k) = b
    generalize cb k = c
    rw [← BitVec.xor_assoc, ← BitVec.xor_assoc, BitVec.xor_self, BitVec.zero_xor]
  · rw [this.1]; simp

@[simp] theorem length_createLabels (len : Nat) (buf : Bytes) (w : Nat) :
    (createLabels len buf w).length = min (w * 8) len := by simp [createLabels]

theorem getD_createLabels (len : Nat) (buf : Bytes) (w idx : Nat) (h : idx < min (w * 8) len) :
    (createLabels len buf w).getD idx 0#128 =
      labelOfBits fun j => (bget buf (j * w + idx / 8)).getLsbD (idx % 8) := by
  simp [createLabels, List.getD_eq_getElem?_getD, h]

/-- `iknp_transpose`, bit form: bit `j` of label `idx` is bit `idx % 8` of byte
`idx / 8` of column `j`. -/
theorem labelBit_createLabels (len : Nat) (buf : Bytes) (w idx j : Nat) (h : idx < min (w * 8) len) (hj : j < 128) :
    labelBit ((createLabels len buf w).getD idx 0#128) j = (bget buf (j * w + idx / 8)).getLsbD (idx % 8) := by
  rw [getD_createLabels _ _ _ _ h, labelBit_labelOfBits _ _ hj]

theorem createLabels_corr (len : Nat) (t c : Bytes) (w : Nat) (delta : Label) (cb : Nat → Byte)
    (h : ∀ j k, j < K → k < w → bget t (j * w + k) = bget c (j * w + k) ^^^ (if labelBit delta j then cb k else 0#8))
    (idx : Nat) (hidx : idx < min (w * 8) len) :
    (createLabels len t w).getD idx 0#128 =
      (createLabels len c w).getD idx 0#128 ^^^ (if (cb (idx / 8)).getLsbD (idx % 8) then delta else 0#128) := by
  apply label_ext
  intro j hj
  have hk : idx / 8 < w := by omega
  rw [labelBit_xor, labelBit_createLabels _ _ _ _ _ hidx hj, labelBit_createLabels _ _ _ _ _ hidx hj, h j _ hj hk]
  by_cases hd : labelBit delta j <;> by_cases hc : (cb (idx / 8)).getLsbD (idx % 8) <;> simp [hd, hc]

theorem getD_append_left {α : Type} (l l' : List α) (d : α) (i : Nat) (h : i < l.length) :
    (l ++ l').getD i d = l.getD i d := by
  simp [List.getD_eq_getElem?_getD, List.getElem?_append_left h]

theorem getD_append_right {α : Type} (l l' : List α) (d : α) (i : Nat) (h : l.length ≤ i) :
    (l ++ l').getD i d = l'.getD (i - l.length) d := by
  simp [List.getD_eq_getElem?_getD, List.getElem?_append_right h]

@[simp] theorem size_packBools (b : Array Bool) : (packBools b).size = (b.size + 7) / 8 := by simp [packBools]

theorem packBools_bit (b : Array Bool) (k t : Nat) (hk : k < (b.size + 7) / 8) (ht : t < 8) :
    (bget (packBools b) k).getLsbD t = b.getD (8 * k + t) false := by
  unfold packBools
  rw [bget_mk _ _ _ hk, getLsbD_byteOfBits _ _ ht]

/-- The choice XOR of `receive` is a `MaskOK` step whose choice byte `k` is
`bbuf[ofs/8 + k]`. -/
theorem maskOK_labels (bbuf : Bytes) (q w : Nat) (h : q + w ≤ bbuf.size) :
    MaskOK (fun tmp => xorBytes tmp (sliceFrom bbuf q)) w (fun k => bget bbuf (q + k)) := by
  intro tmp htmp
  refine ⟨by simp [htmp], ?_⟩
  intro k hk
  rw [bget_xorBytes _ _ _ (by omega)]
  have : k < (sliceFrom bbuf q).size := by simp; omega
  simp only [this, if_true]
  rw [bget_sliceFrom _ _ _ (by omega)]

theorem recvLoop_done (R0 R1 : Nat → Nat → Byte) (bbuf : Bytes) (n fuel ofs : Nat) (rs : RecvSt) (h : n ≤ ofs) :
    recvLoop R0 R1 bbuf n fuel ofs rs = (rs, [], []) := by
  cases fuel with
  | zero => rfl
  | succ f => simp [recvLoop, Nat.not_lt.mpr h]

theorem sendLoop_done (SS : Nat → Nat → Byte) (delta : Label) (n fuel ofs : Nat) (ss : SendSt) (msgs : List Bytes)
    (h : n ≤ ofs) : sendLoop SS delta n fuel ofs ss msgs = some (ss, [], msgs) := by
  cases fuel with
  | zero => simp [sendLoop, Nat.not_lt.mpr h]
  | succ f => simp [sendLoop, Nat.not_lt.mpr h]

theorem loops_corr (R0 R1 SS : Nat → Nat → Byte) (delta : Label) (hb : BaseOK R0 R1 SS delta) (b : Array Bool) :
    ∀ (fuelR fuelS ofsR ofsS : Nat) (rs : RecvSt) (ss : SendSt) (more : List Bytes),
      InStep rs ss →
      ((ofsR = ofsS ∧ ofsR % 8 = 0 ∧ ofsR < b.size) ∨ (b.size ≤ ofsR ∧ b.size ≤ ofsS)) →
      b.size - ofsR ≤ fuelR → b.size - ofsR ≤ fuelS →
      ∃ ss' sent,
        sendLoop SS delta b.size fuelS ofsS ss
            ((recvLoop R0 R1 (packBools b) b.size fuelR ofsR rs).2.2 ++ more) = some (ss', sent, more) ∧
        InStep (recvLoop R0 R1 (packBools b) b.size fuelR ofsR rs).1 ss' ∧
        sent.length = b.size - ofsR ∧
        (recvLoop R0 R1 (packBools b) b.size fuelR ofsR rs).2.1.length = b.size - ofsR ∧
        ∀ i, i < b.size - ofsR →
          (recvLoop R0 R1 (packBools b) b.size fuelR ofsR rs).2.1.getD i 0#128 =
            sent.getD i 0#128 ^^^ (if b.getD (ofsR + i) false then delta else 0#128) := by
  intro fuelR
  induction fuelR with
  | zero =>
    intro fuelS ofsR ofsS rs ss more hs hofs hfR _
    have h1 : b.size ≤ ofsR := by omega
    have h2 : b.size ≤ ofsS := by rcases hofs with h | h <;> omega
    refine ⟨ss, [], ?_, ?_, ?_, ?_, ?_⟩
    · rw [recvLoop_done _ _ _ _ _ _ _ h1, sendLoop_done _ _ _ _ _ _ _ h2]; rfl
    · rw [recvLoop_done _ _ _ _ _ _ _ h1]; exact hs
    · simp; omega
    · rw [recvLoop_done _ _ _ _ _ _ _ h1]; simp; omega
    · intro i hi; omega
  | succ fR ih =>
    intro fuelS ofsR ofsS rs ss more hs hofs hfR hfS
    rcases hofs with ⟨heq, hmod, hlt⟩ | ⟨h1, h2⟩
    · subst heq
      -- one more chunk on both sides
      obtain ⟨fS, rfl⟩ : ∃ fS, fuelS = fS + 1 := ⟨fuelS - 1, by omega⟩
      let n := b.size
      let rows := min chunkRows (n - ofsR)
      let w := (rows + 7) / 8
      have hrows : rows = min chunkRows (n - ofsR) := rfl
      have hw : w = (rows + 7) / 8 := rfl
      have hcr : chunkRows = 512 := rfl
      let mask : Bytes → Bytes := fun tmp => xorBytes tmp (sliceFrom (packBools b) (ofsR / 8))
      let uc := recvCols R0 R1 rs w mask
      have hmask : MaskOK mask w (fun k => bget (packBools b) (ofsR / 8 + k)) := by
        apply maskOK_labels
        simp only [size_packBools]
        omega
      have hR : recvLoop R0 R1 (packBools b) n (fR + 1) ofsR rs =
          ((recvLoop R0 R1 (packBools b) n fR (ofsR + rows) (rs.adv w)).1,
           createLabels (n - ofsR) uc.2 w ++ (recvLoop R0 R1 (packBools b) n fR (ofsR + rows) (rs.adv w)).2.1,
           uc.1 :: (recvLoop R0 R1 (packBools b) n fR (ofsR + rows) (rs.adv w)).2.2) := by
        simp only [recvLoop, hlt, if_true, n, rows, w, uc, mask]
      have husz : uc.1.size = K * w := size_recvCols_u ..
      have hK : K = 128 := rfl
      have hwle : w ≤ chunkByteRows := by
        have : chunkByteRows = 64 := rfl
        omega
      have hS : ∀ msgs, sendLoop SS delta n (fS + 1) ofsR ss (uc.1 :: msgs) =
          (sendLoop SS delta n fS (ofsR + w * 8) (ss.adv w) msgs).map fun rest =>
            (rest.1, createLabels (n - ofsR) (sendCols SS delta ss uc.1 w) w ++ rest.2.1, rest.2.2) := by
        intro msgs
        have h1 : uc.1.size % K = 0 := by rw [husz]; exact Nat.mul_mod_right ..
        have h2 : uc.1.size / K = w := by rw [husz]; exact Nat.mul_div_cancel_left _ (by decide)
        simp only [sendLoop, hlt, if_true, h1, h2, ne_eq, not_true_eq_false, if_false, Nat.not_lt.mpr hwle, n]
        cases sendLoop SS delta b.size fS (ofsR + w * 8) (ss.adv w) msgs <;> rfl
      -- recursive call
      have hofs' : ((ofsR + rows = ofsR + w * 8 ∧ (ofsR + rows) % 8 = 0 ∧ ofsR + rows < b.size) ∨
          (b.size ≤ ofsR + rows ∧ b.size ≤ ofsR + w * 8)) := by
        by_cases h : ofsR + rows < b.size
        · left; omega
        · right; omega
      obtain ⟨ss', sentR, hsend, hstep, hlenS, hlenR, hcorr⟩ :=
        ih fS (ofsR + rows) (ofsR + w * 8) (rs.adv w) (ss.adv w) more (hs.adv w) hofs' (by omega) (by omega)
      refine ⟨ss', createLabels (n - ofsR) (sendCols SS delta ss uc.1 w) w ++ sentR, ?_, ?_, ?_, ?_, ?_⟩
      · show sendLoop SS delta n (fS + 1) ofsR ss ((recvLoop R0 R1 (packBools b) n (fR + 1) ofsR rs).2.2 ++ more) = _
        rw [hR]
        simp only [List.cons_append]
        rw [hS, hsend]; rfl
      · show InStep (recvLoop R0 R1 (packBools b) n (fR + 1) ofsR rs).1 ss'
        rw [hR]; exact hstep
      · simp only [List.length_append, length_createLabels, hlenS]; omega
      · show (recvLoop R0 R1 (packBools b) n (fR + 1) ofsR rs).2.1.length = _
        rw [hR]
        simp only [List.length_append, length_createLabels]
        rw [hlenR]; omega
      · intro i hi
        show (recvLoop R0 R1 (packBools b) n (fR + 1) ofsR rs).2.1.getD i 0#128 = _
        rw [hR]
        simp only
        have hlen : min (w * 8) (n - ofsR) = rows := by omega
        by_cases hir : i < rows
        · rw [getD_append_left _ _ _ _ (by simp only [length_createLabels]; omega),
            getD_append_left _ _ _ _ (by simp only [length_createLabels]; omega)]
          have hcc := createLabels_corr (n - ofsR) (sendCols SS delta ss uc.1 w) uc.2 w delta
            (fun k => bget (packBools b) (ofsR / 8 + k))
            (fun j k hj hk => chunk_corr R0 R1 SS delta hb rs ss hs w mask _ hmask j k hj hk) i (by omega)
          rw [hcc]
          have hbit : (bget (packBools b) (ofsR / 8 + i / 8)).getLsbD (i % 8) = b.getD (ofsR + i) false := by
            rw [packBools_bit _ _ _ (by omega) (by omega)]
            congr 1; omega
          rw [hbit]
          generalize (createLabels (n - ofsR) uc.2 w).getD i 0#128 = x
          by_cases hc : b.getD (ofsR + i) false <;> simp [hc, BitVec.xor_assoc]
        · rw [getD_append_right _ _ _ _ (by simp only [length_createLabels]; omega),
            getD_append_right _ _ _ _ (by simp only [length_createLabels]; omega)]
          simp only [length_createLabels, hlen]
          have := hcorr (i - rows) (by omega)
          rw [this]
          have he : ofsR + rows + (i - rows) = ofsR + i := by omega
          rw [he]
    · refine ⟨ss, [], ?_, ?_, ?_, ?_, ?_⟩
      · rw [recvLoop_done _ _ _ _ _ _ _ h1, sendLoop_done _ _ _ _ _ _ _ h2]; rfl
      · rw [recvLoop_done _ _ _ _ _ _ _ h1]; exact hs
      · simp; omega
      · rw [recvLoop_done _ _ _ _ _ _ _ h1]; simp; omega
      · intro i hi; omega

/-! ### Packed-bit helpers -/


@[simp] theorem size_setBit (r : Words) (idx : Nat) : (setBit r idx).size = r.size := by simp [setBit]

theorem bitAt_setBit (r : Words) (idx j : Nat) (h : idx / 64 < r.size) :
    bitAt (setBit r idx) j = (bitAt r j || decide (j = idx)) := by
  unfold bitAt setBit
  by_cases hw : j / 64 = idx / 64
  · have hj : j / 64 < r.size := by omega
    simp only [Array.getD_eq_getD_getElem?, Array.getElem?_modify, hw]
    simp [h, BitVec.getLsbD_shiftLeft, BitVec.getLsbD_one]
    congr 1
    have h64 : j % 64 < 64 := Nat.mod_lt _ (by decide)
    by_cases he : j = idx
    · subst he; simp [h64]
    · have : ¬ (j % 64 = idx % 64) := by omega
      simp [he, h64]; omega
  · simp only [Array.getD_eq_getD_getElem?, Array.getElem?_modify]
    have : ¬ (idx / 64 = j / 64) := fun e => hw e.symm
    simp [this]
    intro he; subst he; exact absurd rfl hw

@[simp] theorem size_orRows (r : Words) (ofs rows : Nat) (bit : Nat → Bool) : (orRows r ofs rows bit).size = r.size := by
  unfold orRows
  generalize List.range rows = l
  induction l generalizing r with
  | nil => rfl
  | cons a l ih => simp only [List.foldl_cons]; rw [ih]; split <;> simp

theorem bitAt_foldl (ofs : Nat) (bit : Nat → Bool) (l : List Nat) (r : Words) (j : Nat)
    (h : ∀ row ∈ l, (ofs + row) / 64 < r.size) :
    bitAt (l.foldl (fun r row => if bit row then setBit r (ofs + row) else r) r) j =
      (bitAt r j || l.any fun row => bit row && decide (j = ofs + row)) := by
  induction l generalizing r with
  | nil => simp
  | cons a l ih =>
    simp only [List.foldl_cons, List.any_cons]
    have ha := h a (List.mem_cons_self ..)
    rw [ih]
    · by_cases hb : bit a
      · simp only [hb, if_true, Bool.true_and]
        rw [bitAt_setBit _ _ _ ha, Bool.or_assoc]
      · simp [hb]
    · intro row hrow
      have := h row (List.mem_cons_of_mem _ hrow)
      split <;> simpa using this

theorem bitAt_orRows (r : Words) (ofs rows : Nat) (bit : Nat → Bool) (j : Nat) (h : (ofs + rows + 63) / 64 ≤ r.size) :
    bitAt (orRows r ofs rows bit) j = (bitAt r j || (decide (ofs ≤ j ∧ j < ofs + rows) && bit (j - ofs))) := by
  unfold orRows
  rw [bitAt_foldl]
  · congr 1
    rw [Bool.eq_iff_iff]
    simp only [List.any_eq_true, List.mem_range, Bool.and_eq_true, decide_eq_true_eq]
    constructor
    · rintro ⟨row, hr, hb, rfl⟩
      refine ⟨by omega, ?_⟩
      have : ofs + row - ofs = row := by omega
      rw [this]; exact hb
    · rintro ⟨hj, hb⟩
      exact ⟨j - ofs, by omega, hb, by omega⟩
  · intro row hrow
    simp only [List.mem_range] at hrow
    omega


/-! ### Packed-bit loops -/


/-- Row `j` of a packed-bit call of `n` rows lies in the part of its chunk
that `ReceiveBits` XORs with the choice words (`words = wf byteRows` whole
64-bit words per chunk). -/
def covered (wf : Nat → Nat) (n j : Nat) : Bool :=
  let c := j / 512 * 512
  let rows := min 512 (n - c)
  decide ((j - c) / 8 < 8 * wf ((rows + 7) / 8))

theorem wordByte_bit (x : BitVec 64) (t s : Nat) (hs : s < 8) : (wordByte x t).getLsbD s = x.getLsbD (8 * t + s) := by
  simp [wordByte, hs]

theorem maskOK_bits (choices : Words) (wo words w : Nat) :
    MaskOK (fun tmp => xorWords tmp choices wo words) w
      (fun k => if k < 8 * words then wordByte (choices.getD (wo + k / 8) 0#64) (k % 8) else 0#8) := by
  intro tmp htmp
  refine ⟨by simp [xorWords, htmp], ?_⟩
  intro k hk
  unfold xorWords
  rw [bget_mk _ _ _ (by omega)]
  by_cases h : k < 8 * words <;> simp [h]

theorem recvBitsLoop_done (wf : Nat → Nat) (R0 R1 : Nat → Nat → Byte) (ch : Words) (n fuel ofs : Nat) (rs : RecvSt) (res : Words)
    (h : n ≤ ofs) : recvBitsLoop wf R0 R1 ch n fuel ofs rs res = (rs, res, []) := by
  cases fuel with
  | zero => rfl
  | succ f => simp [recvBitsLoop, Nat.not_lt.mpr h]

theorem sendBitsLoop_done (SS : Nat → Nat → Byte) (delta : Label) (n fuel ofs : Nat) (ss : SendSt) (res : Words)
    (msgs : List Bytes) (h : n ≤ ofs) : sendBitsLoop SS delta n fuel ofs ss res msgs = some (ss, res, msgs) := by
  cases fuel with
  | zero => simp [sendBitsLoop, Nat.not_lt.mpr h]
  | succ f => simp [sendBitsLoop, Nat.not_lt.mpr h]

theorem bits_loops (wf : Nat → Nat) (R0 R1 SS : Nat → Nat → Byte) (delta : Label) (hb : BaseOK R0 R1 SS delta)
    (choices : Words) (n : Nat) :
    ∀ (fuelR fuelS ofs : Nat) (rs : RecvSt) (ss : SendSt) (resR resS : Words) (more : List Bytes),
      InStep rs ss → ((ofs % 512 = 0 ∧ ofs < n) ∨ n ≤ ofs) →
      (n + 63) / 64 ≤ resR.size → (n + 63) / 64 ≤ resS.size →
      (∀ j, ofs ≤ j → bitAt resR j = false ∧ bitAt resS j = false) →
      n - ofs ≤ fuelR → n - ofs ≤ fuelS →
      ∃ ss' outS,
        sendBitsLoop SS delta n fuelS ofs ss resS
            ((recvBitsLoop wf R0 R1 choices n fuelR ofs rs resR).2.2 ++ more) = some (ss', outS, more) ∧
        InStep (recvBitsLoop wf R0 R1 choices n fuelR ofs rs resR).1 ss' ∧
        (recvBitsLoop wf R0 R1 choices n fuelR ofs rs resR).2.1.size = resR.size ∧ outS.size = resS.size ∧
        (∀ j, j < ofs → bitAt (recvBitsLoop wf R0 R1 choices n fuelR ofs rs resR).2.1 j = bitAt resR j ∧
            bitAt outS j = bitAt resS j) ∧
        (∀ j, n ≤ j → ofs ≤ j → bitAt (recvBitsLoop wf R0 R1 choices n fuelR ofs rs resR).2.1 j = false ∧
            bitAt outS j = false) ∧
        (∀ j, ofs ≤ j → j < n →
          bitAt (recvBitsLoop wf R0 R1 choices n fuelR ofs rs resR).2.1 j =
            (bitAt outS j ^^ (labelBit delta 0 && (covered wf n j && bitAt choices j)))) := by
  intro fuelR
  induction fuelR with
  | zero =>
    intro fuelS ofs rs ss resR resS more hs _ _ _ hz hfR _
    have h1 : n ≤ ofs := by omega
    refine ⟨ss, resS, ?_, ?_, ?_, rfl, ?_, ?_, ?_⟩
    · rw [recvBitsLoop_done _ _ _ _ _ _ _ _ _ h1, sendBitsLoop_done _ _ _ _ _ _ _ _ h1]; rfl
    · rw [recvBitsLoop_done _ _ _ _ _ _ _ _ _ h1]; exact hs
    · rw [recvBitsLoop_done _ _ _ _ _ _ _ _ _ h1]
    · intro j _; rw [recvBitsLoop_done _ _ _ _ _ _ _ _ _ h1]; exact ⟨rfl, rfl⟩
    · intro j _ hj; rw [recvBitsLoop_done _ _ _ _ _ _ _ _ _ h1]; exact hz j hj
    · intro j h2 h3; omega
  | succ fR ih =>
    intro fuelS ofs rs ss resR resS more hs hofs hszR hszS hz hfR hfS
    rcases hofs with ⟨hmod, hlt⟩ | h1
    · obtain ⟨fS, rfl⟩ : ∃ fS, fuelS = fS + 1 := ⟨fuelS - 1, by omega⟩
      let rows := min chunkRows (n - ofs)
      let w := (rows + 7) / 8
      let words := wf w
      have hcr : chunkRows = 512 := rfl
      have hrows : rows = min chunkRows (n - ofs) := rfl
      have hw : w = (rows + 7) / 8 := rfl
      let mask : Bytes → Bytes := fun tmp => xorWords tmp choices (ofs / 64) words
      let cb : Nat → Byte := fun k => if k < 8 * words then wordByte (choices.getD (ofs / 64 + k / 8) 0#64) (k % 8) else 0#8
      have hmask : MaskOK mask w cb := maskOK_bits choices (ofs / 64) words w
      let uc := recvCols R0 R1 rs w mask
      let rbit : Nat → Bool := fun row => labelBit ((createLabels chunkRows uc.2 w).getD row 0#128) 0
      let sbit : Nat → Bool := fun row => (bget (sendCols SS delta ss uc.1 w) (row / 8)).getLsbD (row % 8)
      have hR : recvBitsLoop wf R0 R1 choices n (fR + 1) ofs rs resR =
          ((recvBitsLoop wf R0 R1 choices n fR (ofs + rows) (rs.adv w) (orRows resR ofs rows rbit)).1,
           (recvBitsLoop wf R0 R1 choices n fR (ofs + rows) (rs.adv w) (orRows resR ofs rows rbit)).2.1,
           uc.1 :: (recvBitsLoop wf R0 R1 choices n fR (ofs + rows) (rs.adv w) (orRows resR ofs rows rbit)).2.2) := by
        simp only [recvBitsLoop, hlt, if_true, rows, w, words, uc, mask, rbit]
      have husz : uc.1.size = K * w := size_recvCols_u ..
      have hK : K = 128 := rfl
      have hwle : w ≤ chunkByteRows := by
        have : chunkByteRows = 64 := rfl
        omega
      have hmax : min (w * 8) (n - ofs) = rows := by omega
      have hS : ∀ msgs, sendBitsLoop SS delta n (fS + 1) ofs ss resS (uc.1 :: msgs) =
          sendBitsLoop SS delta n fS (ofs + rows) (ss.adv w) (orRows resS ofs rows sbit) msgs := by
        intro msgs
        have h1 : uc.1.size % K = 0 := by rw [husz]; exact Nat.mul_mod_right ..
        have h2 : uc.1.size / K = w := by rw [husz]; exact Nat.mul_div_cancel_left _ (by decide)
        simp only [sendBitsLoop, hlt, if_true, h1, h2, ne_eq, not_true_eq_false, if_false, Nat.not_lt.mpr hwle, hmax, sbit]
      -- chunk algebra on column 0
      have hbits : ∀ row, row < rows →
          rbit row = (sbit row ^^ (labelBit delta 0 && (covered wf n (ofs + row) && bitAt choices (ofs + row)))) := by
        intro row hrow
        have hk : row / 8 < w := by omega
        have h0 : (0 : Nat) < K := by decide
        have hcc := chunk_corr R0 R1 SS delta hb rs ss hs w mask cb hmask 0 (row / 8) h0 hk
        simp only [Nat.zero_mul, Nat.zero_add] at hcc
        have hr : rbit row = (bget uc.2 (row / 8)).getLsbD (row % 8) := by
          show labelBit ((createLabels chunkRows uc.2 w).getD row 0#128) 0 = _
          rw [labelBit_createLabels _ _ _ _ _ (by omega) (by decide)]
          simp
        have hs' : sbit row = ((bget uc.2 (row / 8)).getLsbD (row % 8) ^^
            (labelBit delta 0 && (cb (row / 8)).getLsbD (row % 8))) := by
          show (bget (sendCols SS delta ss uc.1 w) (row / 8)).getLsbD (row % 8) = _
          rw [hcc]
          by_cases hd : labelBit delta 0 <;> simp [hd] <;> rfl
        have hcb : (cb (row / 8)).getLsbD (row % 8) = (covered wf n (ofs + row) && bitAt choices (ofs + row)) := by
          have hcov : covered wf n (ofs + row) = decide (row / 8 < 8 * words) := by
            unfold covered
            have e1 : (ofs + row) / 512 * 512 = ofs := by omega
            simp only [e1]
            have e2 : ofs + row - ofs = row := by omega
            rw [e2]
            rfl
          rw [hcov]
          show (if row / 8 < 8 * words then wordByte (choices.getD (ofs / 64 + row / 8 / 8) 0#64) (row / 8 % 8) else 0#8).getLsbD (row % 8) = _
          by_cases hc : row / 8 < 8 * words
          · simp only [hc, if_true, decide_true, Bool.true_and]
            rw [wordByte_bit _ _ _ (by omega)]
            unfold bitAt
            have e1 : (ofs + row) / 64 = ofs / 64 + row / 8 / 8 := by omega
            have e2 : (ofs + row) % 64 = 8 * (row / 8 % 8) + row % 8 := by omega
            rw [e1, e2]
          · simp [hc]
        rw [hr, hs', hcb]
        generalize (bget uc.2 (row / 8)).getLsbD (row % 8) = x
        generalize (labelBit delta 0) = d
        generalize (covered wf n (ofs + row) && bitAt choices (ofs + row)) = c
        cases x <;> cases d <;> cases c <;> rfl
      have hofs' : (((ofs + rows) % 512 = 0 ∧ ofs + rows < n) ∨ n ≤ ofs + rows) := by
        by_cases h : ofs + rows < n
        · left; omega
        · right; omega
      have hszR' : (n + 63) / 64 ≤ (orRows resR ofs rows rbit).size := by simpa using hszR
      have hszS' : (n + 63) / 64 ≤ (orRows resS ofs rows sbit).size := by simpa using hszS
      have hbR : ∀ j, bitAt (orRows resR ofs rows rbit) j =
          (bitAt resR j || (decide (ofs ≤ j ∧ j < ofs + rows) && rbit (j - ofs))) :=
        fun j => bitAt_orRows _ _ _ _ _ (by omega)
      have hbS : ∀ j, bitAt (orRows resS ofs rows sbit) j =
          (bitAt resS j || (decide (ofs ≤ j ∧ j < ofs + rows) && sbit (j - ofs))) :=
        fun j => bitAt_orRows _ _ _ _ _ (by omega)
      have hz' : ∀ j, ofs + rows ≤ j → bitAt (orRows resR ofs rows rbit) j = false ∧
          bitAt (orRows resS ofs rows sbit) j = false := by
        intro j hj
        rw [hbR, hbS]
        have hn : ¬ (ofs ≤ j ∧ j < ofs + rows) := by omega
        have := hz j (by omega)
        simp [hn, this.1, this.2]
      obtain ⟨ss', outS, hsend, hstep, hsR, hsS, hlow, hhigh, hmid⟩ :=
        ih fS (ofs + rows) (rs.adv w) (ss.adv w) (orRows resR ofs rows rbit) (orRows resS ofs rows sbit) more
          (hs.adv w) hofs' hszR' hszS' hz' (by omega) (by omega)
      refine ⟨ss', outS, ?_, ?_, ?_, ?_, ?_, ?_, ?_⟩
      · rw [hR]; simp only [List.cons_append]; rw [hS, hsend]
      · rw [hR]; exact hstep
      · rw [hR]; simp only; rw [hsR]; simp
      · rw [hsS]; simp
      · intro j hj
        rw [hR]; simp only
        have := hlow j (by omega)
        rw [this.1, this.2, hbR, hbS]
        have hn : ¬ (ofs ≤ j ∧ j < ofs + rows) := by omega
        simp [hn]
      · intro j hj1 hj2
        rw [hR]; simp only
        exact hhigh j hj1 (by omega)
      · intro j hj1 hj2
        rw [hR]; simp only
        by_cases hjr : j < ofs + rows
        · have := hlow j hjr
          rw [this.1, this.2, hbR, hbS]
          have hy : (ofs ≤ j ∧ j < ofs + rows) := ⟨hj1, hjr⟩
          have hzz := hz j hj1
          simp only [hzz.1, hzz.2, hy, and_self, decide_true, Bool.true_and, Bool.false_or]
          have := hbits (j - ofs) (by omega)
          rw [this]
          have e : ofs + (j - ofs) = j := by omega
          rw [e]
        · exact hmid j (by omega) hj2
    · refine ⟨ss, resS, ?_, ?_, ?_, rfl, ?_, ?_, ?_⟩
      · rw [recvBitsLoop_done _ _ _ _ _ _ _ _ _ h1, sendBitsLoop_done _ _ _ _ _ _ _ _ h1]; rfl
      · rw [recvBitsLoop_done _ _ _ _ _ _ _ _ _ h1]; exact hs
      · rw [recvBitsLoop_done _ _ _ _ _ _ _ _ _ h1]
      · intro j _; rw [recvBitsLoop_done _ _ _ _ _ _ _ _ _ h1]; exact ⟨rfl, rfl⟩
      · intro j _ hj; rw [recvBitsLoop_done _ _ _ _ _ _ _ _ _ h1]; exact hz j hj
      · intro j h2 h3; omega


/-! ### Whole calls and sessions -/


/-- With the current word count every row of every call is covered. -/
theorem covered_head (n j : Nat) (hj : j < n) : covered wordsHead n j = true := by
  unfold covered wordsHead
  simp only [decide_eq_true_eq]
  omega

/-- With the old word count all rows are covered iff the last chunk has no
partial word... -/
theorem covered_old_of_good (n j : Nat) (hj : j < n) (hn : n % 64 = 0 ∨ 57 ≤ n % 64) :
    covered wordsOld n j = true := by
  unfold covered wordsOld
  simp only [decide_eq_true_eq]
  omega

/-- ... and otherwise the last row is not. -/
theorem not_covered_old_last (n : Nat) (h1 : 1 ≤ n % 64) (h2 : n % 64 ≤ 56) :
    covered wordsOld n (n - 1) = false := by
  unfold covered wordsOld
  simp only [decide_eq_false_iff_not]
  omega

/-- One call of the label form (semi-honest): see `C06_iknp_label_corr`. -/
theorem label_call (R0 R1 SS : Nat → Nat → Byte) (delta : Label) (hb : BaseOK R0 R1 SS delta)
    (rs : RecvSt) (ss : SendSt) (hs : InStep rs ss) (b : Array Bool) (more : List Bytes) :
    ∃ ss' sent,
      send SS delta ss b.size ((receive R0 R1 rs b).2.2 ++ more) = some (ss', sent, more) ∧
      InStep (receive R0 R1 rs b).1 ss' ∧
      sent.length = b.size ∧ (receive R0 R1 rs b).2.1.length = b.size ∧
      ∀ i, i < b.size →
        (receive R0 R1 rs b).2.1.getD i 0#128 =
          sent.getD i 0#128 ^^^ (if b.getD i false then delta else 0#128) := by
  have h := loops_corr R0 R1 SS delta hb b b.size (b.size + 1) 0 0 rs ss more hs
    (by by_cases h : 0 < b.size
        · left; exact ⟨rfl, rfl, h⟩
        · right; omega) (by omega) (by omega)
  obtain ⟨ss', sent, h1, h2, h3, h4, h5⟩ := h
  refine ⟨ss', sent, h1, h2, ?_, ?_, ?_⟩
  · rw [h3]; rfl
  · exact h4
  · intro i hi
    have := h5 i hi
    rw [Nat.zero_add] at this
    exact this

theorem size_bcvOf (b0 b1 : Label) : (bcvOf b0 b1).size = 256 := by simp [bcvOf]

theorem receiveMal_st (R0 R1 : Nat → Nat → Byte) (rs : RecvSt) (b : Array Bool) (b0 b1 : Label) :
    (receiveMal R0 R1 rs b b0 b1).1 = (receive R0 R1 (receive R0 R1 rs b).1 (bcvOf b0 b1)).1 := rfl
theorem receiveMal_labels (R0 R1 : Nat → Nat → Byte) (rs : RecvSt) (b : Array Bool) (b0 b1 : Label) :
    (receiveMal R0 R1 rs b b0 b1).2.1 = (receive R0 R1 rs b).2.1 := rfl
theorem receiveMal_msgs (R0 R1 : Nat → Nat → Byte) (rs : RecvSt) (b : Array Bool) (b0 b1 : Label) :
    (receiveMal R0 R1 rs b b0 b1).2.2 =
      (receive R0 R1 rs b).2.2 ++ (receive R0 R1 (receive R0 R1 rs b).1 (bcvOf b0 b1)).2.2 := rfl

theorem sendMal_eq (SS : Nat → Nat → Byte) (delta : Label) (ss : SendSt) (n : Nat) (msgs : List Bytes)
    (r1 r2 : SendSt × List Label × List Bytes)
    (h1 : send SS delta ss n msgs = some r1) (h2 : send SS delta r1.1 256 r1.2.2 = some r2) :
    sendMal SS delta ss n msgs = some (r2.1, r1.2.1, r2.2.2) := by
  unfold sendMal
  rw [h1]
  simp only
  rw [h2]

/-- One call of the label form in malicious mode (the extra 256 transfers
keep both sides in step). -/
theorem label_call_mal (R0 R1 SS : Nat → Nat → Byte) (delta : Label) (hb : BaseOK R0 R1 SS delta)
    (rs : RecvSt) (ss : SendSt) (hs : InStep rs ss) (b : Array Bool) (b0 b1 : Label) (more : List Bytes) :
    ∃ ss' sent,
      sendMal SS delta ss b.size ((receiveMal R0 R1 rs b b0 b1).2.2 ++ more) = some (ss', sent, more) ∧
      InStep (receiveMal R0 R1 rs b b0 b1).1 ss' ∧
      sent.length = b.size ∧ (receiveMal R0 R1 rs b b0 b1).2.1.length = b.size ∧
      ∀ i, i < b.size →
        (receiveMal R0 R1 rs b b0 b1).2.1.getD i 0#128 =
          sent.getD i 0#128 ^^^ (if b.getD i false then delta else 0#128) := by
  obtain ⟨ss1, sent, h1, hs1, hl1, hl1', hc1⟩ :=
    label_call R0 R1 SS delta hb rs ss hs b ((receive R0 R1 (receive R0 R1 rs b).1 (bcvOf b0 b1)).2.2 ++ more)
  obtain ⟨ss2, sent2, h2, hs2, _, _, _⟩ :=
    label_call R0 R1 SS delta hb (receive R0 R1 rs b).1 ss1 hs1 (bcvOf b0 b1) more
  rw [receiveMal_st, receiveMal_labels]
  refine ⟨ss2, sent, ?_, hs2, hl1, hl1', hc1⟩
  rw [receiveMal_msgs, List.append_assoc]
  rw [size_bcvOf] at h2
  exact sendMal_eq SS delta ss b.size _ _ _ h1 h2

theorem bitAt_zeroWords (m j : Nat) : bitAt (mk m fun _ => 0#64) j = false := by
  unfold bitAt
  by_cases h : j / 64 < m
  · rw [getD_mk _ _ _ _ h]; simp
  · simp [mk, Array.getD, h]

/-- One call of the packed-bit form on zeroed result buffers, for any
word-count rule `wf`. -/
theorem bits_call (wf : Nat → Nat) (R0 R1 SS : Nat → Nat → Byte) (delta : Label) (hb : BaseOK R0 R1 SS delta)
    (rs : RecvSt) (ss : SendSt) (hs : InStep rs ss) (choices : Words) (n : Nat)
    (hch : (n + 63) / 64 ≤ choices.size) (more : List Bytes) :
    ∃ rs' ss' rw sw msgs,
      receiveBitsWith wf R0 R1 rs choices (mk ((n + 63) / 64) fun _ => 0#64) n = some (rs', rw, msgs) ∧
      sendBits SS delta ss n (mk ((n + 63) / 64) fun _ => 0#64) (msgs ++ more) = some (ss', sw, more) ∧
      InStep rs' ss' ∧ rw.size = (n + 63) / 64 ∧ sw.size = (n + 63) / 64 ∧
      (∀ j, j < n → bitAt rw j = (bitAt sw j ^^ (labelBit delta 0 && (covered wf n j && bitAt choices j)))) ∧
      (∀ j, n ≤ j → bitAt rw j = false ∧ bitAt sw j = false) := by
  have hz : ∀ j, 0 ≤ j → bitAt (mk ((n + 63) / 64) fun _ => 0#64) j = false ∧
      bitAt (mk ((n + 63) / 64) fun _ => 0#64) j = false := fun j _ => ⟨bitAt_zeroWords .., bitAt_zeroWords ..⟩
  obtain ⟨ss', sw, h1, h2, h3, h4, _, h6, h7⟩ :=
    bits_loops wf R0 R1 SS delta hb choices n n (n + 1) 0 rs ss (mk ((n + 63) / 64) fun _ => 0#64)
      (mk ((n + 63) / 64) fun _ => 0#64) more hs
      (by by_cases h : 0 < n
          · left; exact ⟨rfl, h⟩
          · right; omega) (by simp) (by simp) hz (by omega) (by omega)
  refine ⟨(recvBitsLoop wf R0 R1 choices n n 0 rs (mk ((n + 63) / 64) fun _ => 0#64)).1, ss',
    (recvBitsLoop wf R0 R1 choices n n 0 rs (mk ((n + 63) / 64) fun _ => 0#64)).2.1, sw,
    (recvBitsLoop wf R0 R1 choices n n 0 rs (mk ((n + 63) / 64) fun _ => 0#64)).2.2, ?_, ?_, h2, ?_, ?_, ?_, ?_⟩
  · unfold receiveBitsWith
    have e1 : ¬ ((n + 63) / 64 > choices.size) := by omega
    have e2 : ¬ ((n + 63) / 64 > (mk ((n + 63) / 64) fun _ => (0#64 : BitVec 64)).size) := by simp
    rw [if_neg e1, if_neg e2]
  · unfold sendBits
    have e2 : ¬ ((n + 63) / 64 > (mk ((n + 63) / 64) fun _ => (0#64 : BitVec 64)).size) := by simp
    rw [if_neg e2]
    exact h1
  · rw [h3]; simp
  · rw [h4]; simp
  · intro j hj; exact h7 j (Nat.zero_le _) hj
  · intro j hj; exact h6 j hj (Nat.zero_le _)

/-- What a call must deliver.  Label form: `received_i = sent_i xor choice_i*Delta`.
Packed-bit form: `received_j = sent_j xor (Delta.Bit(0) and choice_j)`, and no
bit set at positions `≥ n`. -/
def CallSpec (delta : Label) : Call → CallOut → Prop
  | .labels _ b _ _, o =>
    o.sentL.length = b.size ∧ o.rcvdL.length = b.size ∧
    ∀ i, i < b.size → o.rcvdL.getD i 0#128 = o.sentL.getD i 0#128 ^^^ (if b.getD i false then delta else 0#128)
  | .bits n ch, o =>
    o.sentW.size = (n + 63) / 64 ∧ o.rcvdW.size = (n + 63) / 64 ∧
    (∀ j, j < n → bitAt o.rcvdW j = (bitAt o.sentW j ^^ (labelBit delta 0 && bitAt ch j))) ∧
    (∀ j, n ≤ j → bitAt o.rcvdW j = false ∧ bitAt o.sentW j = false)

/-- Caller obligations: the choice buffer of a packed-bit call is long enough
(otherwise `ReceiveBits` returns an error). -/
def Call.WF : Call → Prop
  | .labels _ _ _ _ => True
  | .bits n ch => (n + 63) / 64 ≤ ch.size

theorem call_ok (R0 R1 SS : Nat → Nat → Byte) (delta : Label) (hb : BaseOK R0 R1 SS delta)
    (rs : RecvSt) (ss : SendSt) (hs : InStep rs ss) (c : Call) (hc : c.WF) :
    ∃ rs' ss' out u, runCall R0 R1 SS delta rs ss c = some (rs', ss', out, u) ∧ InStep rs' ss' ∧
      CallSpec delta c out := by
  cases c with
  | labels mal b b0 b1 =>
    cases mal with
    | false =>
      obtain ⟨ss', sent, h1, h2, h3, h4, h5⟩ := label_call R0 R1 SS delta hb rs ss hs b []
      rw [List.append_nil] at h1
      refine ⟨(receive R0 R1 rs b).1, ss', { sentL := sent, rcvdL := (receive R0 R1 rs b).2.1 },
        (receive R0 R1 rs b).2.2, ?_, h2, h3, h4, h5⟩
      simp only [runCall, h1]
    | true =>
      obtain ⟨ss', sent, h1, h2, h3, h4, h5⟩ := label_call_mal R0 R1 SS delta hb rs ss hs b b0 b1 []
      rw [List.append_nil] at h1
      refine ⟨(receiveMal R0 R1 rs b b0 b1).1, ss', { sentL := sent, rcvdL := (receiveMal R0 R1 rs b b0 b1).2.1 },
        (receiveMal R0 R1 rs b b0 b1).2.2, ?_, h2, h3, h4, h5⟩
      simp only [runCall, h1]
  | bits n ch =>
    obtain ⟨rs', ss', rw, sw, msgs, h1, h2, h3, h4, h5, h6, h7⟩ :=
      bits_call wordsHead R0 R1 SS delta hb rs ss hs ch n hc []
    rw [List.append_nil] at h2
    refine ⟨rs', ss', { sentW := sw, rcvdW := rw }, msgs, ?_, h3, h5, h4, ?_, h7⟩
    · simp only [runCall, receiveBits, h1, h2]
    · intro j hj
      rw [h6 j hj, covered_head n j hj, Bool.true_and]

/-- Every sequence of well-formed calls on a pair whose streams are in step
runs to completion (no error branch, every chunk consumed) and every call
meets its `CallSpec`: the PRG streams stay in lock step across calls. -/
theorem session_ok (R0 R1 SS : Nat → Nat → Byte) (delta : Label) (hb : BaseOK R0 R1 SS delta) :
    ∀ (cs : List Call) (rs : RecvSt) (ss : SendSt), InStep rs ss → (∀ c ∈ cs, c.WF) →
      ∃ outs, session R0 R1 SS delta rs ss cs = some outs ∧ outs.length = cs.length ∧
        ∀ k (hk : k < cs.length) (hk' : k < outs.length), CallSpec delta cs[k] outs[k] := by
  intro cs
  induction cs with
  | nil => intro rs ss _ _; exact ⟨[], rfl, rfl, fun k hk => absurd hk (Nat.not_lt_zero _)⟩
  | cons c cs ih =>
    intro rs ss hs hwf
    obtain ⟨rs', ss', out, u, h1, h2, h3⟩ := call_ok R0 R1 SS delta hb rs ss hs c (hwf c (List.mem_cons_self ..))
    obtain ⟨outs, h4, h5, h6⟩ := ih rs' ss' h2 (fun c' hc' => hwf c' (List.mem_cons_of_mem _ hc'))
    refine ⟨out :: outs, ?_, by simp [h5], ?_⟩
    · simp only [session, h1, h4, Option.map_some]
    · intro k hk hk'
      cases k with
      | zero => exact h3
      | succ k => exact h6 k (by simpa using hk) (by simpa using hk')

end Mpc.Iknp

/-
Preservation of the invariant `Inv` by the three critical sections of
`acceptConn` (check, store, decrement+signal) and the resulting theorem
`reach_inv`: every reachable state of the code as it is satisfies `Inv`.
-/
import MpcVerif.Proofs.MeshStep

set_option linter.unusedSimpArgs false
set_option linter.unusedVariables false

namespace Mpc.Mesh

theorem sbit_upd_ne (s : State) (f : Nat → Infl) (j p k : Nat) (hp : p ≠ j) (v : Infl)
    (hf : f = upd s.infl j v) (s' : State) (hs : s'.infl = f) : sbit s' p k = sbit s p k := by
  simp [sbit, hs, hf, upd_apply, hp]

/-- Facts about the connection the accept goroutine of j holds unstored. -/
structure TakenFacts (c : Cfg) (s : State) (j i k : Nat) : Prop where
  dials : Dials i j
  dset : (s.conn i j k).isSome
  anone : s.conn j i k = none
  pnone : s.pend j i k = false
  jn : j < c.n
  acc : s.acc j = true
  notJoined : j = 0 → k = 0 → s.phase i ≠ .joined
  inn : i < c.n
  km : k < c.m
  ij : i ≠ j

theorem Inv.takenFacts {c : Cfg} {s : State} (h : Inv c s) {j i k : Nat} (ht : s.infl j = .taken i k) :
    TakenFacts c s j i k := by
  have := h.infl j
  unfold InflInv at this
  rw [ht] at this
  obtain ⟨h1, h2, h3, h4, h5, h6, h7⟩ := this
  cases hcn : s.conn i j k with
  | none => simp [hcn] at h2
  | some v =>
    have hs := h.slot i j k v hcn
    exact ⟨h1, h2, h3, h4, h5, h6, h7, hs.2.2.1, hs.2.2.2.2, hs.2.1⟩

theorem inv_accTake (c : Cfg) (hc : c.Ok) (s s' : State) (h : Inv c s) (j i k : Nat)
    (hs : step c s (.accTake j i k) = some s') : Inv c s' := by
  have hn2 := hc.n2
  simp only [step, stepAccTake] at hs
  by_cases hpre : s.acc j = true ∧ s.infl j = .none ∧ s.pend j i k = true
  · obtain ⟨hacc, hinfl, hp⟩ := hpre
    have hf := h.pendFacts hp
    have hnp := h.need_pos hp hacc
    have hi0 : i ≠ 0 := by have := hf.dials.1; omega
    rw [if_pos ⟨hacc, hinfl, hp⟩, if_pos ⟨hf.km, hnp⟩] at hs
    simp only [Bool.false_eq_true, if_false, Option.some.injEq] at hs
    have e_pend : s'.pend = upd3 s.pend j i k false := by subst hs; rfl
    have e_infl : s'.infl = upd s.infl j (.taken i k) := by subst hs; rfl
    have e_need : s'.need = s.need := by subst hs; rfl
    have e_conn : s'.conn = s.conn := by subst hs; rfl
    have e_known : s'.known = s.known := by subst hs; rfl
    have e_phase : s'.phase = s.phase := by subst hs; rfl
    have e_np : s'.np = s.np := by subst hs; rfl
    have e_acc : s'.acc = s.acc := by subst hs; rfl
    have e_mail : s'.mail = s.mail := by subst hs; rfl
    have e_bad : s'.bad = s.bad := by subst hs; rfl
    clear hs
    have hsb : ∀ p k', sbit s' p k' = sbit s p k' := by
      intro p k'
      by_cases e : p = j
      · subst e; simp [sbit, e_infl, hinfl]
      · simp [sbit, e_infl, upd_apply, e]
    -- the dialler sits in connectPeerToLeader when this is its connection 0 to the leader
    have hnotj : j = 0 → k = 0 → s.phase i ≠ .joined := by
      intro e1 e2 e3
      subst e1 e2
      have := ((h.peer i hf.dials.1 hf.inn).joined e3).2.1 0 0
      simp [hp] at this
    refine ⟨by rw [e_bad]; exact h.notBad, ?_, by rw [e_phase]; exact h.outside,
      by rw [e_conn]; exact h.slot, ?_, ?_, ?_, ?_, ?_⟩
    · intro j'
      unfold InflInv
      rw [e_infl, e_conn, e_pend, e_acc, e_phase]
      simp only [upd_apply]
      by_cases hj' : j' = j
      · subst hj'
        simp only [if_true, upd3_apply, and_self, if_true]
        exact ⟨hf.dials, hf.dset, hf.anone, trivial, hf.jn, hacc, hnotj⟩
      · simp only [hj', if_false]
        have := h.infl j'
        unfold InflInv at this
        cases hi : s.infl j' with
        | none => trivial
        | taken a k' =>
          rw [hi] at this; simp only [upd3_apply, hj', false_and, if_false]; exact this
        | stored a k' => rw [hi] at this; exact this
    · intro a b k' hd hcn
      rw [e_conn] at hcn ⊢
      have := h.accSlot a b k' hd hcn
      refine ⟨this.1, ?_⟩
      simp only [e_pend, upd3_apply]
      split
      · rfl
      · exact this.2
    · intro a b k' hp'
      simp only [e_pend, upd3_apply] at hp'
      rw [e_conn]
      split at hp'
      · simp at hp'
      · exact h.pendSlot a b k' hp'
    · intro a b k' hd hcn
      rw [e_conn] at hcn ⊢
      simp only [e_pend, e_infl, e_phase, upd3_apply, upd_apply]
      have := h.dialSlot a b k' hd hcn
      grind
    · apply h.leader.congr <;>
        first
        | (intro k'; exact hsb 0 k')
        | simp [e_phase, e_np, e_known, e_conn, e_acc, e_need, e_mail]
    · intro q hq hqn
      have hq0 : q ≠ 0 := by omega
      have htk : q ≠ i → (s'.infl 0 = .taken q 0 ↔ s.infl 0 = .taken q 0) := by
        intro hqi
        simp only [e_infl, upd_apply]
        split
        · rename_i e; subst e
          simp [hinfl]; intro e; exact absurd e.symm hqi
        · rfl
      by_cases hqi : q = i
      · subst hqi
        have hP := h.peer q hq hqn
        refine ⟨?_, ?_, ?_, by rw [e_phase]; exact hP.notInfo, by rw [e_phase]; exact hP.runLt, ?_⟩
        · intro e; rw [e_phase] at e
          have := (hP.init e).2.1 j k
          simp [hp] at this
        · intro e; rw [e_phase] at e
          have := (hP.joined e).2.1 j k
          simp [hp] at this
        · intro e; rw [e_phase] at e
          have hh := hP.hello e
          have hjk := (hh.2.1 j k).mp hp
          obtain ⟨ej, ek, _, _⟩ := hjk
          subst ej ek
          refine ⟨by rw [e_conn]; exact hh.1, ?_, by rw [e_acc]; exact hh.2.2.1, by rw [e_known]; exact hh.2.2.2.1,
            by rw [e_mail, e_phase]; exact hh.2.2.2.2.1, by rw [e_mail]; exact hh.2.2.2.2.2⟩
          intro j' k'
          simp only [e_pend, e_conn, e_infl, upd3_apply, upd_apply]
          by_cases e' : j' = 0 ∧ k' = 0
          · simp [e'.1, e'.2]
          · have hne : ¬ (j' = 0 ∧ True ∧ k' = 0) := by intro e''; exact e' ⟨e''.1, e''.2.2⟩
            simp only [hne, if_false]
            rw [hh.2.1 j' k']
            constructor
            · rintro ⟨e1, e2, _⟩; exact absurd ⟨e1, e2⟩ e'
            · rintro ⟨e1, e2, _⟩; exact absurd ⟨e1, e2⟩ e'
        · intro k0 todo hpr
          rw [e_phase] at hpr
          apply (hP.active k0 todo hpr).congr <;>
            first
            | (intro k'; exact hsb q k')
            | simp [e_phase, e_np, e_known, e_conn, e_acc, e_need, e_mail]
      · apply (h.peer q hq hqn).congr <;>
          first
          | (intro k'; exact hsb q k')
          | exact htk hqi
          | simp [e_phase, e_np, e_known, e_conn, e_acc, e_need, e_mail, e_pend, upd3_apply, hqi]
  · rw [if_neg hpre] at hs
    simp at hs

/-- The peer whose connection 0 the leader's accept goroutine holds sits in
`connectPeerToLeader`. -/
theorem Inv.taken_hello {c : Cfg} {s : State} (h : Inv c s) (hc : c.Ok) {i : Nat}
    (ht : s.infl 0 = .taken i 0) : s.phase i = .hello := by
  have hf := h.takenFacts ht
  have hP := h.peer i hf.dials.1 hf.inn
  cases hph : s.phase i with
  | init => have := hf.dset; simp [(hP.init hph).1] at this
  | joined => exact absurd hph (hf.notJoined rfl rfl)
  | hello => rfl
  | run k t =>
    have := h.past0 hc (hP.active k t (by simp [hph, prog])).sent i hf.dials.1 hf.inn
    simp [hf.anone] at this
  | info r => exact absurd hph (hP.notInfo r)
  | done =>
    have := h.past0 hc (hP.active c.m [] (by simp [hph, prog])).sent i hf.dials.1 hf.inn
    simp [hf.anone] at this

theorem Inv.np_of_acc {c : Cfg} {s : State} (h : Inv c s) {j : Nat} (hjn : j < c.n) (hacc : s.acc j = true) :
    s.np j = c.n := by
  by_cases hj0 : j = 0
  · subst hj0; exact h.leader.np0
  · obtain ⟨k0, todo, hpr⟩ := h.acc_active (by omega) hjn hacc
    exact ((h.peer j (by omega) hjn).active k0 todo hpr).np

/-- What `accStore` does in an invariant state. -/
theorem store_shape (c : Cfg) (hc : c.Ok) (s s' : State) (h : Inv c s) (j : Nat)
    (hs : step c s (.accStore j) = some s') :
    ∃ i k, s.infl j = .taken i k ∧ ∃ kn',
      ((j = 0 ∧ k = 0 ∧ kn' = ins i (s.known 0)) ∨ (¬(j = 0 ∧ k = 0) ∧ kn' = s.known j)) ∧
      s' = { s with infl := upd s.infl j (.stored i k), conn := upd3 s.conn j i k (some ⟨i, j, k⟩), known := upd s.known j kn' } := by
  have hn2 := hc.n2
  simp only [step, stepAccStore] at hs
  cases ht : s.infl j with
  | none => simp [ht] at hs
  | stored a b => simp [ht] at hs
  | taken i k =>
    refine ⟨i, k, rfl, ?_⟩
    simp only [ht] at hs
    have hf := h.takenFacts ht
    have hi0 : i ≠ 0 := by have := hf.dials.1; omega
    have hnpj := h.np_of_acc hf.jn hf.acc
    rw [if_neg (by have := hf.inn; omega)] at hs
    by_cases hmem : i ∈ s.known j
    · rw [if_pos hmem] at hs
      simp only [hf.anone, Option.some.injEq] at hs
      have e2 : upd s.known j (s.known j) = s.known := by
        funext x; simp only [upd_apply]; split
        · rename_i e; rw [e]
        · rfl
      refine ⟨s.known j, Or.inr ⟨?_, rfl⟩, ?_⟩
      · rintro ⟨e, e'⟩
        subst e e'
        have := (h.leader.knownMem i).mp hmem
        simp [hi0, hf.anone] at this
      · rw [← hs, e2]
    · rw [if_neg hmem] at hs
      simp only [Option.some.injEq] at hs
      have hj0 : j = 0 := by
        apply Decidable.byContradiction; intro hj0
        obtain ⟨k0, todo, hpr⟩ := h.acc_active (by omega) hf.jn hf.acc
        exact hmem ((((h.peer j (by omega) hf.jn).active k0 todo hpr).knownMem i).mpr hf.inn)
      subst hj0
      have hk0 : k = 0 := by
        apply Decidable.byContradiction; intro hk0
        exact hmem (h.dialer_known hc hf.dials.1 hf.inn hf.dset hk0)
      subst hk0
      have hhello := h.taken_hello hc ht
      have hjt := ((h.peer i hf.dials.1 hf.inn).hello hhello).1
      have e3 : (fun p q k' => if p = 0 ∧ q = i then (if k' = 0 then some (Conn.mk i 0 0) else none)
          else s.conn p q k') = upd3 s.conn 0 i 0 (some ⟨i, 0, 0⟩) := by
        funext p q k'
        simp only [upd3_apply]
        by_cases e : p = 0 ∧ q = i
        · obtain ⟨ep, eq⟩ := e
          subst ep eq
          by_cases ek : k' = 0
          · simp [ek]
          · simp only [ek, and_false, if_false, and_self, if_true]
            symm
            apply h.acc_none hf.dials
            rw [hjt]; simp [joinTable, ek]
        · have : ¬ (p = 0 ∧ q = i ∧ k' = 0) := fun e' => e ⟨e'.1, e'.2.1⟩
          simp [e, this]
      refine ⟨ins i (s.known 0), Or.inl ⟨rfl, rfl, rfl⟩, ?_⟩
      rw [← hs, e3]

theorem inv_store_state (c : Cfg) (hc : c.Ok) (s s' : State) (h : Inv c s) (j i k : Nat)
    (ht : s.infl j = .taken i k) (kn' : List Nat)
    (hkn : (j = 0 ∧ k = 0 ∧ kn' = ins i (s.known 0)) ∨ (¬(j = 0 ∧ k = 0) ∧ kn' = s.known j))
    (hs' : s' = { s with infl := upd s.infl j (.stored i k), conn := upd3 s.conn j i k (some ⟨i, j, k⟩), known := upd s.known j kn' }) :
    Inv c s' := by
  have e_infl : s'.infl = upd s.infl j (.stored i k) := by subst hs'; rfl
  have e_conn : s'.conn = upd3 s.conn j i k (some ⟨i, j, k⟩) := by subst hs'; rfl
  have e_known : s'.known = upd s.known j kn' := by subst hs'; rfl
  have e_pend : s'.pend = s.pend := by subst hs'; rfl
  have e_need : s'.need = s.need := by subst hs'; rfl
  have e_phase : s'.phase = s.phase := by subst hs'; rfl
  have e_np : s'.np = s.np := by subst hs'; rfl
  have e_acc : s'.acc = s.acc := by subst hs'; rfl
  have e_mail : s'.mail = s.mail := by subst hs'; rfl
  have e_bad : s'.bad = s.bad := by subst hs'; rfl
  clear hs'
  have hn2 := hc.n2
  have hm1 := hc.m1
  have hf := h.takenFacts ht
  have hacc := hf.acc
  have hi0 : i ≠ 0 := by have := hf.dials.1; omega
  have hstoreb : ∀ b, i < b → missing s' j b k + 1 = missing s j b k := by
    intro b hb
    apply missing_store s s' j b k i hf.dials.1 hb hf.anone
    · simp [e_conn, upd3_apply]
    · intro y hy; simp [e_conn, upd3_apply, hy]
  have hother : ∀ b k', k' ≠ k → missing s' j b k' = missing s j b k' := by
    intro b k' hk'
    apply missing_congr
    intro y _ _; simp [e_conn, upd3_apply, hk']
  -- sbit: party j now owes one decrement for k
  have hsbj : ∀ k', sbit s' j k' = if k' = k then 1 else 0 := by
    intro k'; simp [sbit, e_infl]
    by_cases e : k = k' <;> simp [e, Ne.symm, eq_comm]
  have hsbj0 : ∀ k', sbit s j k' = 0 := by intro k'; simp [sbit, ht]
  have hsbo : ∀ p k', p ≠ j → sbit s' p k' = sbit s p k' := by
    intro p k' hp; simp [sbit, e_infl, upd_apply, hp]
  refine ⟨by rw [e_bad]; exact h.notBad, ?_, by rw [e_phase]; exact h.outside, ?_, ?_, ?_, ?_, ?_, ?_⟩
  · intro j'
    unfold InflInv
    rw [e_infl, e_conn, e_pend, e_acc, e_phase]
    simp only [upd_apply]
    by_cases hj' : j' = j
    · subst hj'
      simp only [if_true, upd3_apply, and_self, if_true]
      exact ⟨hf.dials, rfl, hf.jn, hacc⟩
    · simp only [hj', if_false]
      have := h.infl j'
      unfold InflInv at this
      have hd := hf.dials
      cases hi : s.infl j' with
      | none => trivial
      | taken a k' =>
        rw [hi] at this; simp only [upd3_apply]
        grind [Dials]
      | stored a k' =>
        rw [hi] at this; simp only [upd3_apply]
        grind [Dials]
  · intro p q k' cn hcn
    simp only [e_conn, upd3_apply] at hcn
    split at hcn
    · rename_i e; obtain ⟨e1, e2, e3⟩ := e
      simp at hcn; subst hcn
      rw [e1, e2, e3]
      refine ⟨?_, Ne.symm hf.ij, hf.jn, hf.inn, hf.km⟩
      simp only [wire, hi0, if_false]
      rcases hf.dials.2 with e | e
      · simp [e]
      · have : j ≠ 0 := by omega
        have : ¬ j < i := by omega
        simp [*]
    · exact h.slot p q k' cn hcn
  · intro a b k' hd hcn
    simp only [e_conn, e_pend, upd3_apply] at hcn ⊢
    have := h.accSlot a b k' hd
    have := hf.dials
    have := hf.dset
    have := hf.pnone
    grind [Dials]
  · intro a b k' hp'
    simp only [e_conn, e_pend, upd3_apply] at hp' ⊢
    have := h.pendSlot a b k'
    have := hf.dials
    have := hf.pnone
    grind [Dials]
  · intro a b k' hd hcn
    simp only [e_conn, e_pend, e_phase, e_infl, upd3_apply, upd_apply] at hcn ⊢
    have := h.dialSlot a b k' hd
    have := hf.dials
    grind [Dials]
  · -- leader
    have hL := h.leader
    by_cases hj0 : j = 0
    · subst hj0
      have hne : s.phase 0 ≠ .init := by
        intro e; have := (hL.initial e).1; simp [hacc] at this
      have hni : k = 0 → i ∉ s.known 0 := by
        intro e; subst e
        rw [hL.knownMem]; simp [hi0, hf.anone]
      have hkn' : kn' = if k = 0 then ins i (s.known 0) else s.known 0 := by
        rcases hkn with ⟨_, e, e'⟩ | ⟨e, e'⟩
        · simp [e, e']
        · have : k ≠ 0 := by simpa using e
          simp [this, e']
      refine ⟨by rw [e_phase]; exact hL.shape, by rw [e_np]; exact hL.np0, ?_, ?_, ?_, ?_, ?_, ?_,
        by rw [e_phase]; exact hL.infoRest, by rw [e_mail]; exact hL.mail0⟩
      · intro x
        simp only [e_known, e_conn, upd_same, upd3_apply, hkn']
        by_cases hk0 : k = 0
        · subst hk0
          simp only [if_true, mem_ins, hL.knownMem]
          by_cases hx : x = i
          · subst hx; simp
          · simp [hx]
        · simp only [hk0, if_false, hL.knownMem]
          simp [Ne.symm hk0]
      · simp only [e_known, upd_same, hkn']
        by_cases hk0 : k = 0
        · simp only [hk0, if_true]; exact nodup_ins i _ hL.knownNodup (hni hk0)
        · simp only [hk0, if_false]; exact hL.knownNodup
      · simp only [e_known, upd_same, hkn']
        by_cases hk0 : k = 0
        · subst hk0
          have := hstoreb c.n hf.inn
          simp only [if_true, length_ins i _ (hni rfl)]
          have := hL.lenKnown
          omega
        · simp only [hk0, if_false]
          rw [hother c.n 0 (Ne.symm hk0)]
          exact hL.lenKnown
      · intro e; rw [e_phase] at e; exact absurd e hne
      · intro _
        refine ⟨by rw [e_acc]; exact hacc, ?_⟩
        intro k' hk'
        rw [e_need, hsbj k']
        have hold := (hL.started hne).2 k' hk'
        rw [hsbj0 k'] at hold
        by_cases e : k' = k
        · subst e
          have := hstoreb c.n hf.inn
          simp only [if_true]
          omega
        · simp only [e, if_false]
          rw [hother c.n k' e]
          exact hold
      · intro k' hk' hkm
        rw [e_phase] at hk'
        rw [e_need]
        exact hL.waited k' hk' hkm
    · have hj0' : 0 ≠ j := Ne.symm hj0
      apply hL.congr <;>
        first
        | (intro k'; exact hsbo 0 k' hj0')
        | simp [e_phase, e_np, e_known, e_conn, e_acc, e_need, e_mail, upd_apply, upd3_apply, hj0, hj0']
  · -- peers
    intro q hq hqn
    have hq0 : q ≠ 0 := by omega
    have htk : q ≠ i → (s'.infl 0 = .taken q 0 ↔ s.infl 0 = .taken q 0) := by
      intro hqi
      simp only [e_infl, upd_apply]
      split
      · rename_i e; subst e
        simp [ht]; intro e; exact absurd e.symm hqi
      · rfl
    by_cases hqj : q = j
    · subst hqj
      obtain ⟨k0, todo, hpr⟩ := h.acc_active hq hqn hacc
      have hP := h.peer q hq hqn
      have hA := hP.active k0 todo hpr
      have hiq : i < q := by rcases hf.dials.2 with e | e <;> omega
      have hkn' : kn' = s.known q := by
        rcases hkn with ⟨e, _⟩ | ⟨_, e⟩
        · omega
        · exact e
      have hph : ∀ ph, s.phase q = ph → prog c ph = some (k0, todo) := by intro ph e; rw [← e]; exact hpr
      refine ⟨?_, ?_, ?_, by rw [e_phase]; exact hP.notInfo, by rw [e_phase]; exact hP.runLt, ?_⟩
      · intro e; rw [e_phase] at e; have := hph _ e; simp [prog] at this
      · intro e; rw [e_phase] at e; have := hph _ e; simp [prog] at this
      · intro e; rw [e_phase] at e; have := hph _ e; simp [prog] at this
      · intro k1 todo1 hpr1
        rw [e_phase] at hpr1
        have : k1 = k0 ∧ todo1 = todo := by
          rw [hpr] at hpr1; simp at hpr1; exact ⟨hpr1.1.symm, hpr1.2.symm⟩
        obtain ⟨e1, e2⟩ := this
        subst e1 e2
        obtain ⟨pre, hpre, hdial⟩ := hA.dialed
        refine ⟨hA.kle, by rw [e_phase]; exact hA.sent, by rw [e_mail]; exact hA.nomail,
          by rw [e_acc]; exact hA.acc, by rw [e_np]; exact hA.np, ?_, ?_, ?_, ?_, ?_⟩
        · simpa [e_known, hkn'] using hA.knownMem
        · simpa [e_known, hkn'] using hA.knownNodup
        · refine ⟨pre, ?_, ?_⟩
          · intro hlt
            rw [← hpre hlt]
            simp [targets, e_known, hkn']
          · intro x k' hd
            rw [← hdial x k' hd]
            simp only [e_conn, upd3_apply]
            split
            · rename_i e
              have := hd.2
              omega
            · rfl
        · intro k' hk'
          rw [e_need, hsbj k']
          have hold := hA.need k' hk'
          rw [hsbj0 k'] at hold
          by_cases e : k' = k
          · subst e
            have h1 := hstoreb q hiq
            simp only [if_true]
            omega
          · simp only [e, if_false]
            rw [hother q k' e]; exact hold
        · intro k' hk' hkm
          rw [e_need]
          exact hA.waited k' hk' hkm
    · by_cases hqi : q = i
      · subst hqi
        have hP := h.peer q hq hqn
        have hjq : j ≠ q := Ne.symm hqj
        by_cases h00 : j = 0 ∧ k = 0
        · obtain ⟨ej, ek⟩ := h00
          subst ej ek
          have hhello := h.taken_hello hc ht
          have hh := hP.hello hhello
          refine ⟨?_, ?_, ?_, by rw [e_phase]; exact hP.notInfo, by rw [e_phase]; exact hP.runLt, ?_⟩
          · intro e; rw [e_phase, hhello] at e; simp at e
          · intro e; rw [e_phase, hhello] at e; simp at e
          · intro _
            refine ⟨?_, ?_, by rw [e_acc]; exact hh.2.2.1, ?_, by rw [e_mail, e_phase]; exact hh.2.2.2.2.1,
              by rw [e_mail]; exact hh.2.2.2.2.2⟩
            · intro x k'; simp [e_conn, upd3_apply, hq0]; exact hh.1 x k'
            · intro j' k'
              rw [e_pend, hh.2.1 j' k']
              simp only [e_conn, e_infl, upd3_apply, upd_apply]
              simp [hf.anone, ht]
            · simp [e_known, upd_apply, hq0]; exact hh.2.2.2.1
          · intro k0 todo hpr
            rw [e_phase, hhello] at hpr
            simp [prog] at hpr
        · have hc0 : s'.conn 0 q 0 = s.conn 0 q 0 := by
            simp only [e_conn, upd3_apply]
            split
            · rename_i e; exact absurd ⟨e.1.symm, e.2.2.symm⟩ h00
            · rfl
          have htq : s'.infl 0 = .taken q 0 ↔ s.infl 0 = .taken q 0 := by
            simp only [e_infl, upd_apply]
            split
            · rename_i e; subst e
              simp [ht]
              intro e; exact h00 ⟨rfl, e⟩
            · rfl
          apply (h.peer q hq hqn).congr <;>
            first
            | (intro k'; exact hsbo q k' hqj)
            | exact htq
            | exact hc0
            | simp [e_phase, e_np, e_known, e_conn, e_acc, e_need, e_mail, e_pend, upd_apply, upd3_apply, hqj, hjq]
      · apply (h.peer q hq hqn).congr <;>
          first
          | (intro k'; exact hsbo q k' hqj)
          | exact htk hqi
          | simp [e_phase, e_np, e_known, e_conn, e_acc, e_need, e_mail, e_pend, upd_apply, upd3_apply,
              hqj, hqi, Ne.symm hqj, Ne.symm hqi]

theorem inv_accStore (c : Cfg) (hc : c.Ok) (s s' : State) (h : Inv c s) (j : Nat)
    (hs : step c s (.accStore j) = some s') : Inv c s' := by
  obtain ⟨i, k, ht, kn', hkn, he⟩ := store_shape c hc s s' h j hs
  exact inv_store_state c hc s s' h j i k ht kn' hkn he

/-- Facts about the connection the accept goroutine of j has stored and not yet signalled. -/
structure StoredFacts (c : Cfg) (s : State) (j i k : Nat) : Prop where
  dials : Dials i j
  aset : (s.conn j i k).isSome
  jn : j < c.n
  acc : s.acc j = true
  km : k < c.m

theorem Inv.storedFacts {c : Cfg} {s : State} (h : Inv c s) {j i k : Nat} (ht : s.infl j = .stored i k) :
    StoredFacts c s j i k := by
  have := h.infl j
  unfold InflInv at this
  rw [ht] at this
  obtain ⟨h1, h2, h3, h4⟩ := this
  cases hcn : s.conn j i k with
  | none => simp [hcn] at h2
  | some v => exact ⟨h1, h2, h3, h4, (h.slot j i k v hcn).2.2.2.2⟩

/-- `need[k]` of a party whose accept goroutine owes the decrement for k is positive. -/
theorem Inv.need_pos_stored {c : Cfg} {s : State} (h : Inv c s) {j i k : Nat} (ht : s.infl j = .stored i k) :
    s.need j k = missing s j (if j = 0 then c.n else j) k + 1 := by
  have hf := h.storedFacts ht
  have hsb : sbit s j k = 1 := by simp [sbit, ht]
  by_cases hj0 : j = 0
  · subst hj0
    have hne : s.phase 0 ≠ .init := by
      intro e; have := (h.leader.initial e).1; simp [hf.acc] at this
    simp only [if_true]
    rw [(h.leader.started hne).2 k hf.km, hsb]
  · obtain ⟨k0, todo, hpr⟩ := h.acc_active (by omega) hf.jn hf.acc
    have hA := (h.peer j (by omega) hf.jn).active k0 todo hpr
    simp only [hj0, if_false]
    rw [hA.need k hf.km, hsb]

theorem inv_accDec (c : Cfg) (hc : c.Ok) (s s' : State) (h : Inv c s) (j : Nat)
    (hs : step c s (.accDec j) = some s') : Inv c s' := by
  have hn2 := hc.n2
  simp only [step, stepAccDec] at hs
  cases ht : s.infl j with
  | none => simp [ht] at hs
  | taken a b => simp [ht] at hs
  | stored i k =>
    simp only [ht] at hs
    have hf := h.storedFacts ht
    have hnd := h.need_pos_stored ht
    rw [if_pos (by omega)] at hs
    simp only [Option.some.injEq] at hs
    have e_infl : s'.infl = upd s.infl j .none := by subst hs; rfl
    have e_need : s'.need = upd2 s.need j k (s.need j k - 1) := by subst hs; rfl
    have e_conn : s'.conn = s.conn := by subst hs; rfl
    have e_known : s'.known = s.known := by subst hs; rfl
    have e_pend : s'.pend = s.pend := by subst hs; rfl
    have e_phase : s'.phase = s.phase := by subst hs; rfl
    have e_np : s'.np = s.np := by subst hs; rfl
    have e_acc : s'.acc = s.acc := by subst hs; rfl
    have e_mail : s'.mail = s.mail := by subst hs; rfl
    have e_bad : s'.bad = s.bad := by subst hs; rfl
    clear hs
    have hmiss : ∀ p b k', missing s' p b k' = missing s p b k' := by
      intro p b k'; apply missing_congr; intro y _ _; rw [e_conn]
    have hsbj : ∀ k', sbit s' j k' = 0 := by intro k'; simp [sbit, e_infl]
    have hsbjo : ∀ k', sbit s j k' = if k' = k then 1 else 0 := by
      intro k'; simp [sbit, ht]
      by_cases e : k = k' <;> simp [e, eq_comm]
    have hsbo : ∀ p k', p ≠ j → sbit s' p k' = sbit s p k' := by
      intro p k' hp; simp [sbit, e_infl, upd_apply, hp]
    have htk : ∀ q, (s'.infl 0 = .taken q 0 ↔ s.infl 0 = .taken q 0) := by
      intro q
      simp only [e_infl, upd_apply]
      split
      · rename_i e; subst e; simp [ht]
      · rfl
    refine ⟨by rw [e_bad]; exact h.notBad, ?_, by rw [e_phase]; exact h.outside,
      by rw [e_conn]; exact h.slot, by rw [e_conn, e_pend]; exact h.accSlot,
      by rw [e_conn, e_pend]; exact h.pendSlot, ?_, ?_, ?_⟩
    · intro j'
      unfold InflInv
      rw [e_infl, e_conn, e_pend, e_acc, e_phase]
      simp only [upd_apply]
      by_cases hj' : j' = j
      · simp [hj']
      · simp only [hj', if_false]
        exact h.infl j'
    · intro a b k' hd hcn
      rw [e_conn] at hcn ⊢
      rw [e_pend, e_phase, e_infl]
      rcases h.dialSlot a b k' hd hcn with e | e | e | e
      · exact Or.inl e
      · exact Or.inr (Or.inl e)
      · exact Or.inr (Or.inr (Or.inl e))
      · right; right; right
        simp only [upd_apply]
        split
        · rename_i e'; subst e'; rw [ht] at e; simp at e
        · exact e
    · -- leader
      have hL := h.leader
      by_cases hj0 : j = 0
      · subst hj0
        have hne : s.phase 0 ≠ .init := by
          intro e; have := (hL.initial e).1; simp [hf.acc] at this
        simp only [if_true] at hnd
        refine ⟨by rw [e_phase]; exact hL.shape, by rw [e_np]; exact hL.np0,
          by rw [e_known, e_conn]; exact hL.knownMem, by rw [e_known]; exact hL.knownNodup,
          by rw [e_known, hmiss]; exact hL.lenKnown, ?_, ?_, ?_,
          by rw [e_phase]; exact hL.infoRest, by rw [e_mail]; exact hL.mail0⟩
        · intro e; rw [e_phase] at e; exact absurd e hne
        · intro _
          refine ⟨by rw [e_acc]; exact hf.acc, ?_⟩
          intro k' hk'
          rw [hsbj k', hmiss]
          simp only [e_need, upd2_apply]
          have hold := (hL.started hne).2 k' hk'
          rw [hsbjo k'] at hold
          by_cases e : k' = k
          · subst e; simp only [true_and, if_true] at hold ⊢; omega
          · simp only [e, and_false, if_false] at hold ⊢; omega
        · intro k' hk' hkm
          rw [e_phase] at hk'
          simp only [e_need, upd2_apply]
          by_cases e : k' = k
          · subst e
            have := hL.waited k' hk' hkm
            omega
          · simp only [e, and_false, if_false]
            exact hL.waited k' hk' hkm
      · have hj0' : 0 ≠ j := Ne.symm hj0
        apply hL.congr <;>
          first
          | (intro k'; exact hsbo 0 k' hj0')
          | simp [e_phase, e_np, e_known, e_conn, e_acc, e_need, e_mail, upd_apply, upd2_apply, hj0, hj0']
    · intro q hq hqn
      have hq0 : q ≠ 0 := by omega
      by_cases hqj : q = j
      · subst hqj
        simp only [hq0, if_false] at hnd
        obtain ⟨k0, todo, hpr⟩ := h.acc_active hq hqn hf.acc
        have hP := h.peer q hq hqn
        have hA := hP.active k0 todo hpr
        have hph : ∀ ph, s.phase q = ph → prog c ph = some (k0, todo) := by intro ph e; rw [← e]; exact hpr
        refine ⟨?_, ?_, ?_, by rw [e_phase]; exact hP.notInfo, by rw [e_phase]; exact hP.runLt, ?_⟩
        · intro e; rw [e_phase] at e; have := hph _ e; simp [prog] at this
        · intro e; rw [e_phase] at e; have := hph _ e; simp [prog] at this
        · intro e; rw [e_phase] at e; have := hph _ e; simp [prog] at this
        · intro k1 todo1 hpr1
          rw [e_phase] at hpr1
          have : k1 = k0 ∧ todo1 = todo := by
            rw [hpr] at hpr1; simp at hpr1; exact ⟨hpr1.1.symm, hpr1.2.symm⟩
          obtain ⟨e1, e2⟩ := this
          subst e1 e2
          refine ⟨hA.kle, by rw [e_phase]; exact hA.sent, by rw [e_mail]; exact hA.nomail,
            by rw [e_acc]; exact hA.acc, by rw [e_np]; exact hA.np, by rw [e_known]; exact hA.knownMem,
            by rw [e_known]; exact hA.knownNodup, ?_, ?_, ?_⟩
          · obtain ⟨pre, hpre, hdial⟩ := hA.dialed
            refine ⟨pre, ?_, ?_⟩
            · intro hlt; rw [← hpre hlt]; simp [targets, e_known]
            · intro x k' hd; rw [e_conn]; exact hdial x k' hd
          · intro k' hk'
            rw [hsbj k', hmiss]
            simp only [e_need, upd2_apply]
            have hold := hA.need k' hk'
            rw [hsbjo k'] at hold
            by_cases e : k' = k
            · subst e; simp only [true_and, if_true] at hold ⊢; omega
            · simp only [e, and_false, if_false] at hold ⊢; omega
          · intro k' hk' hkm
            simp only [e_need, upd2_apply]
            by_cases e : k' = k
            · subst e
              have := hA.waited k' hk' hkm
              omega
            · simp only [e, and_false, if_false]
              exact hA.waited k' hk' hkm
      · apply (h.peer q hq hqn).congr <;>
          first
          | (intro k'; exact hsbo q k' hqj)
          | exact htk q
          | simp [e_phase, e_np, e_known, e_conn, e_acc, e_need, e_mail, e_pend, upd_apply, upd2_apply,
              hqj, Ne.symm hqj]

/-- Every step of the code as it is preserves the invariant. -/
theorem inv_step (c : Cfg) (hc : c.Ok) (s s' : State) (h : Inv c s) (e : Ev) (he : e.real = true)
    (hs : step c s e = some s') : Inv c s' := by
  cases e with
  | join i => exact inv_join c hc s s' h i hs
  | lconnect => exact inv_lconnect c hc s s' h hs
  | hello i => exact inv_hello c hc s s' h i hs
  | accTake j i k => exact inv_accTake c hc s s' h j i k hs
  | accStore j => exact inv_accStore c hc s s' h j hs
  | accDec j => exact inv_accDec c hc s s' h j hs
  | oldDec j i k => simp [Ev.real] at he
  | oldStore j => simp [Ev.real] at he
  | waitDone p => exact inv_waitDone c hc s s' h p hs
  | info => exact inv_info c hc s s' h hs
  | recvInfo i => exact inv_recvInfo c hc s s' h i hs
  | dial i => exact inv_dial c hc s s' h i hs

theorem reach_inv (c : Cfg) (hc : c.Ok) (s : State) (hr : Reach c s) : Inv c s := by
  induction hr with
  | init => exact inv_init c hc
  | step e _ he hs ih => exact inv_step c hc _ _ ih e he hs

end Mpc.Mesh

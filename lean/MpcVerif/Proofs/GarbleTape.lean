/-
Lemmas for Model/GarbleTape.lean: the garbling of a circuit depends on the
random stream only through its first `1 + nIn` slots, whatever the batch size
of the reads; the slot-based garbling on the constant-stack loop is the model.
-/
import MpcVerif.Model.GarbleTape
import MpcVerif.Proofs.GarbleBig

namespace Mpc
open LabelAlg

variable {L : Type} [LabelAlg L]

theorem garbleSlotsTR_eq (c : Circuit) (H : Hash L) (fixS : L → L) (slot : Nat → L) :
    c.garbleSlotsTR H fixS slot = c.garbleSlots H fixS slot := by
  simp only [Circuit.garbleSlotsTR, Circuit.garbleSlots, garbleTR_eq]

/-- Garbling reads `inl` only below the input width. -/
theorem garble_congr (c : Circuit) (H : Hash L) (r : L) (inl inl' : Nat → L)
    (h : ∀ i, i < c.nIn → inl i = inl' i) : c.garble H r inl = c.garble H r inl' := by
  have hf : (fun i => if i < c.nIn then (⟨inl i, inl i ^^^ r⟩ : WireL L) else default) =
      (fun i => if i < c.nIn then (⟨inl' i, inl' i ^^^ r⟩ : WireL L) else default) := by
    funext i
    by_cases hi : i < c.nIn
    · simp [hi, h i hi]
    · simp [hi]
  simp only [Circuit.garble]
  rw [hf]

/-- Garbling reads the stream only in its first `1 + nIn` slots. -/
theorem garbleSlots_congr (c : Circuit) (H : Hash L) (fixS : L → L) (s s' : Nat → L)
    (h : ∀ k, k < c.slotsUsed → s k = s' k) : c.garbleSlots H fixS s = c.garbleSlots H fixS s' := by
  simp only [Circuit.garbleSlots]
  rw [h 0 (by simp only [Circuit.slotsUsed]; omega)]
  exact garble_congr c H _ _ _ (fun i hi => h (i + 1) (by simp only [Circuit.slotsUsed]; omega))

theorem drawBatchedF_eq_take {α : Type} (b : Nat) (hb : 0 < b) : ∀ (fuel n : Nat) (tape : List α),
    n ≤ fuel → drawBatchedF b fuel n tape = tape.take n := by
  intro fuel
  induction fuel with
  | zero =>
    intro n tape hn
    have : n = 0 := by omega
    simp [drawBatchedF, this]
  | succ fuel ih =>
    intro n tape hn
    rw [drawBatchedF]
    by_cases h0 : n = 0
    · simp [h0]
    · have hne : ¬ (n = 0 ∨ b = 0) := by omega
      simp only [hne, if_false]
      have hk : min b n ≤ n := Nat.min_le_right b n
      have hk1 : 1 ≤ min b n := by
        rw [Nat.le_min]; omega
      rw [ih (n - min b n) _ (by omega)]
      conv => rhs; rw [show n = min b n + (n - min b n) by omega]
      rw [List.take_add]

theorem drawBatched_eq_take {α : Type} (b : Nat) (hb : 0 < b) (n : Nat) (tape : List α) :
    drawBatched b n tape = tape.take n :=
  drawBatchedF_eq_take b hb n n tape (Nat.le_refl n)

theorem getD_take_lt {α : Type} (l : List α) (n k : Nat) (d : α) (h : k < n) :
    (l.take n).getD k d = l.getD k d := by
  simp [List.getD, h]

theorem garbleTape_some (c : Circuit) (H : Hash L) (fixS : L → L) (tape : List L)
    (h : 1 + c.nIn ≤ tape.length) :
    c.garbleTape H fixS tape = some (c.garbleSlots H fixS (fun k => tape.getD k default)) := by
  have hn : ¬ tape.length < c.slotsUsed := by
    show ¬ tape.length < 1 + c.nIn
    omega
  simp only [Circuit.garbleTape, if_neg hn]

theorem garbleTape_none (c : Circuit) (H : Hash L) (fixS : L → L) (tape : List L)
    (h : tape.length < 1 + c.nIn) : c.garbleTape H fixS tape = none := by
  have hn : tape.length < c.slotsUsed := h
  simp only [Circuit.garbleTape, if_pos hn]

end Mpc

/-
C10 (offline phase): the triples dealt by `tripleBatch` are valid Beaver
triples whenever the bit-COT outputs satisfy the COT correlation (C06).
Core Lean only.
-/
import MpcVerif.Model.Gmw

namespace Mpc.Gmw

/-! ### `mkA` / `wget` -/

theorem mkA_size {α : Type} (k : Nat) (f : Nat → α) : (mkA k f).size = k := by
  simp [mkA]

theorem wget_mkA (k : Nat) (f : Nat → Word) (i : Nat) (h : i < k) : wget (mkA k f) i = f i := by
  simp [wget, mkA, Array.getD, h]

/-! ### word identities -/

theorem word_and_xor_left (a b c : Word) : a &&& (b ^^^ c) = a &&& b ^^^ a &&& c := by
  ext i hi; simp [Bool.and_xor_distrib_left]

theorem word_and_xor_right (a b c : Word) : (b ^^^ c) &&& a = b &&& a ^^^ c &&& a := by
  ext i hi; simp [Bool.and_xor_distrib_right]

theorem word_flip_and (a b : Word) : (a ^^^ ~~~0#64) &&& b = a &&& b ^^^ b := by
  ext i hi
  simp only [BitVec.getElem_and, BitVec.getElem_xor, BitVec.getElem_not, BitVec.getElem_zero]
  cases a[i] <;> cases b[i] <;> rfl

/-! ### `xorW` -/

theorem foldl_xor_eq (a : Word) (l : List Word) :
    l.foldl (fun a b => a ^^^ b) a = a ^^^ xorW l := by
  induction l generalizing a with
  | nil => simp [xorW]
  | cons x l ih =>
    simp only [List.foldl_cons, xorW]
    rw [ih, ih (0#64 ^^^ x)]
    simp [BitVec.xor_assoc]

theorem xorW_nil : xorW [] = 0#64 := rfl

theorem xorW_cons (a : Word) (l : List Word) : xorW (a :: l) = a ^^^ xorW l := by
  have h := foldl_xor_eq (0#64 ^^^ a) l
  simp only [BitVec.zero_xor] at h
  simpa [xorW] using h

theorem xorW_append (l1 l2 : List Word) : xorW (l1 ++ l2) = xorW l1 ^^^ xorW l2 := by
  induction l1 with
  | nil => simp [xorW_nil]
  | cons a l ih => simp only [List.cons_append, xorW_cons, ih, BitVec.xor_assoc]

theorem xorW_map_xor {α} (l : List α) (f g : α → Word) :
    xorW (l.map fun x => f x ^^^ g x) = xorW (l.map f) ^^^ xorW (l.map g) := by
  induction l with
  | nil => simp [xorW_nil]
  | cons a l ih =>
    simp only [List.map_cons, xorW_cons, ih]
    grind

theorem xorW_map_and_left {α} (l : List α) (d : Word) (f : α → Word) :
    xorW (l.map fun x => d &&& f x) = d &&& xorW (l.map f) := by
  induction l with
  | nil => simp [xorW_nil]
  | cons a l ih => simp only [List.map_cons, xorW_cons, ih, word_and_xor_left]

theorem xorW_map_zero {α} (l : List α) : xorW (l.map fun _ => (0#64 : Word)) = 0#64 := by
  induction l with
  | nil => simp [xorW_nil]
  | cons a l ih => simp only [List.map_cons, xorW_cons, ih, BitVec.xor_zero]

theorem foldl_bne_eq (a : Bool) (l : List Bool) :
    l.foldl (fun a b => a != b) a = (a != xorB l) := by
  induction l generalizing a with
  | nil => simp [xorB]
  | cons x l ih =>
    simp only [List.foldl_cons, xorB]
    rw [ih, ih (false != x)]
    cases a <;> cases x <;> simp

theorem xorB_nil : xorB [] = false := rfl

theorem xorB_cons (a : Bool) (l : List Bool) : xorB (a :: l) = (a != xorB l) := by
  have h := foldl_bne_eq (false != a) l
  simpa [xorB] using h

theorem getLsbD_xorW (l : List Word) (o : Nat) :
    (xorW l).getLsbD o = xorB (l.map (·.getLsbD o)) := by
  induction l with
  | nil => simp [xorW_nil, xorB_nil]
  | cons a l ih => simp only [List.map_cons, xorW_cons, xorB_cons, BitVec.getLsbD_xor, ih]

/-! ### recursive sums -/

/-- `⊕_{i<n} f i`. -/
def xs : Nat → (Nat → Word) → Word
  | 0, _ => 0#64
  | n + 1, f => xs n f ^^^ f n

theorem xorW_range_map (n : Nat) (f : Nat → Word) : xorW ((List.range n).map f) = xs n f := by
  induction n with
  | zero => simp [xorW_nil, xs]
  | succ n ih =>
    rw [List.range_succ, List.map_append, xorW_append, ih]
    simp [xs, xorW_cons, xorW_nil]

theorem xs_congr (n : Nat) (f g : Nat → Word) (h : ∀ i, i < n → f i = g i) : xs n f = xs n g := by
  induction n with
  | zero => rfl
  | succ n ih =>
    simp only [xs]
    rw [ih (fun i hi => h i (Nat.lt_succ_of_lt hi)), h n (Nat.lt_succ_self n)]

theorem xs_zero (n : Nat) : xs n (fun _ => 0#64) = 0#64 := by
  induction n with
  | zero => rfl
  | succ n ih => simp [xs, ih]

theorem xs_xor (n : Nat) (f g : Nat → Word) : xs n (fun i => f i ^^^ g i) = xs n f ^^^ xs n g := by
  induction n with
  | zero => simp [xs]
  | succ n ih =>
    simp only [xs, ih]
    grind

theorem xs_and_left (n : Nat) (d : Word) (f : Nat → Word) :
    xs n (fun i => d &&& f i) = d &&& xs n f := by
  induction n with
  | zero => simp [xs]
  | succ n ih => simp only [xs, ih, word_and_xor_left]

theorem xs_and_right (n : Nat) (d : Word) (f : Nat → Word) :
    xs n (fun i => f i &&& d) = xs n f &&& d := by
  induction n with
  | zero => simp [xs]
  | succ n ih => simp only [xs, ih, word_and_xor_right]

theorem xs_swap (n m : Nat) (f : Nat → Nat → Word) :
    xs n (fun p => xs m (fun q => f p q)) = xs m (fun q => xs n (fun p => f p q)) := by
  induction n with
  | zero => simp [xs, xs_zero]
  | succ n ih =>
    simp only [xs]
    rw [ih, ← xs_xor]

theorem xs_and_xs (n m : Nat) (a b : Nat → Word) :
    xs n a &&& xs m b = xs n (fun p => xs m (fun q => a p &&& b q)) := by
  have : ∀ p, xs m (fun q => a p &&& b q) = a p &&& xs m b := fun p => xs_and_left m (a p) b
  simp only [this]
  rw [xs_and_right]

theorem xs_skip (n p : Nat) (hp : p < n) (f : Nat → Word) :
    xs n (fun q => if q = p then 0#64 else f q) = f p ^^^ xs n f := by
  induction n with
  | zero => omega
  | succ n ih =>
    simp only [xs]
    by_cases h : p = n
    · subst h
      have : xs p (fun q => if q = p then 0#64 else f q) = xs p f :=
        xs_congr _ _ _ fun i hi => by simp [Nat.ne_of_lt hi]
      rw [this]
      simp only [if_true]
      grind
    · have hp' : p < n := by omega
      rw [ih hp']
      have : n ≠ p := fun e => h e.symm
      simp only [this, if_false]
      grind

/-! ### the fold of `tripleBatchC` -/

/-- The word party `p` XORs into `c[w]` for peer `q`. -/
def crossTerm (words : Nat) (I : BatchIn) (p q w : Nat) : Word :=
  wget (I.s p q) w ^^^ (wget (uOf (I.a p) (I.delta p q) words) w &&& wget (I.b q) w) ^^^
    wget (I.r p q) w

/-- One iteration of the peer loop. -/
def batchStep (words : Nat) (I : BatchIn) (p : Nat) (c : Words) (q : Nat) : Words :=
  if q = p then c else
    let u := uOf (I.a p) (I.delta p q) words
    let v := I.b q
    if p < q then receiverTerm (senderTerm c (I.s p q) u v) (I.r p q)
    else senderTerm (receiverTerm c (I.r p q)) (I.s p q) u v

theorem tripleBatchC_eq (n words : Nat) (I : BatchIn) (p : Nat) :
    tripleBatchC n words I p =
      (List.range n).foldl (batchStep words I p)
        (mkA words fun w => wget (I.a p) w &&& wget (I.b p) w) := rfl

theorem batchStep_size (words : Nat) (I : BatchIn) (p : Nat) (c : Words) (q : Nat) :
    (batchStep words I p c q).size = c.size := by
  unfold batchStep
  split
  · rfl
  · split <;> simp [senderTerm, receiverTerm, mkA_size]

theorem batchStep_wget (words : Nat) (I : BatchIn) (p : Nat) (c : Words) (q w : Nat)
    (hw : w < c.size) :
    wget (batchStep words I p c q) w =
      wget c w ^^^ (if q = p then 0#64 else crossTerm words I p q w) := by
  unfold batchStep
  split
  · simp
  · split
    · simp only [receiverTerm, senderTerm, mkA_size]
      rw [wget_mkA _ _ _ hw, wget_mkA _ _ _ hw]
      simp only [crossTerm]
      grind
    · simp only [receiverTerm, senderTerm, mkA_size]
      rw [wget_mkA _ _ _ hw, wget_mkA _ _ _ hw]
      simp only [crossTerm]
      grind

theorem foldl_batchStep (words : Nat) (I : BatchIn) (p : Nat) (l : List Nat) (c : Words) :
    (l.foldl (batchStep words I p) c).size = c.size ∧
    ∀ w, w < c.size →
      wget (l.foldl (batchStep words I p) c) w =
        wget c w ^^^ xorW (l.map fun q => if q = p then 0#64 else crossTerm words I p q w) := by
  induction l generalizing c with
  | nil => simp [xorW_nil]
  | cons q l ih =>
    simp only [List.foldl_cons, List.map_cons, xorW_cons]
    have hs := batchStep_size words I p c q
    obtain ⟨h1, h2⟩ := ih (batchStep words I p c q)
    refine ⟨h1.trans hs, fun w hw => ?_⟩
    rw [h2 w (hs ▸ hw), batchStep_wget words I p c q w hw, BitVec.xor_assoc]

theorem tripleBatchC_size (n words : Nat) (I : BatchIn) (p : Nat) :
    (tripleBatchC n words I p).size = words := by
  rw [tripleBatchC_eq, (foldl_batchStep words I p _ _).1, mkA_size]

theorem tripleBatchC_wget (n words : Nat) (I : BatchIn) (p w : Nat) (hw : w < words) :
    wget (tripleBatchC n words I p) w =
      (wget (I.a p) w &&& wget (I.b p) w) ^^^
        xs n (fun q => if q = p then 0#64 else crossTerm words I p q w) := by
  rw [tripleBatchC_eq, (foldl_batchStep words I p _ _).2 w (by rw [mkA_size]; exact hw),
    wget_mkA _ _ _ hw, xorW_range_map]

/-! ### the statements -/

/-- bit-COT correlation (property C06, packed form) for every ordered pair: the receiver `q`
(choice bits `b q`) of sender `p`'s instance obtains `r = s ⊕ Δ₀·b`. -/
def CotCorr (n words : Nat) (I : BatchIn) : Prop :=
  ∀ p q, p < n → q < n → p ≠ q → ∀ w, w < words →
    wget (I.r q p) w = wget (I.s p q) w ^^^ (if I.delta p q then wget (I.b q) w else 0#64)

theorem tripleBatch_sizes (n words : Nat) (I : BatchIn) (p : Nat) :
    (tripleBatch n words I p).words = words ∧ (tripleBatch n words I p).a.size = words ∧
    (tripleBatch n words I p).b.size = words ∧ (tripleBatch n words I p).c.size = words := by
  refine ⟨rfl, ?_, ?_, ?_⟩
  · simp [tripleBatch, mkA_size]
  · simp [tripleBatch, mkA_size]
  · simp [tripleBatch, tripleBatchC_size]

/-- `g p q = s(p,q) ⊕ Δ₀(p,q)·b_q`: what the receiver `q` of `p`'s instance holds. -/
def cotG (I : BatchIn) (w p q : Nat) : Word :=
  wget (I.s p q) w ^^^ (if I.delta p q then wget (I.b q) w else 0#64)

theorem crossTerm_eq (n words : Nat) (I : BatchIn) (h : CotCorr n words I) (w : Nat) (hw : w < words)
    (p q : Nat) (hp : p < n) (hq : q < n) (hpq : q ≠ p) :
    crossTerm words I p q w =
      (wget (I.a p) w &&& wget (I.b q) w) ^^^ cotG I w p q ^^^ cotG I w q p := by
  have hr := h q p hq hp hpq w hw
  simp only [crossTerm, cotG, uOf, wget_mkA _ _ _ hw, hr]
  cases I.delta p q <;> cases I.delta q p <;>
    simp only [if_true, if_false, Bool.false_eq_true, word_flip_and, BitVec.xor_zero] <;> grind

/-- The `c` share of party `p` under the COT correlation. -/
theorem tripleBatchC_corr (n words : Nat) (I : BatchIn) (h : CotCorr n words I) (w : Nat)
    (hw : w < words) (p : Nat) (hp : p < n) :
    wget (tripleBatchC n words I p) w =
      xs n (fun q => (wget (I.a p) w &&& wget (I.b q) w) ^^^ cotG I w p q ^^^ cotG I w q p) := by
  rw [tripleBatchC_wget n words I p w hw]
  have e : xs n (fun q => if q = p then 0#64 else crossTerm words I p q w) =
      xs n (fun q => if q = p then 0#64 else
        (wget (I.a p) w &&& wget (I.b q) w) ^^^ cotG I w p q ^^^ cotG I w q p) := by
    apply xs_congr
    intro q hq
    by_cases hqp : q = p
    · simp [hqp]
    · simp only [hqp, if_false]
      exact crossTerm_eq n words I h w hw p q hp hq hqp
  rw [e, xs_skip n p hp]
  grind

/-- For every number of parties, all local randomness `a`, `b`, all sender outputs `s`, all deltas, and
receiver outputs satisfying the bit-COT correlation: the dealt triple is valid in every word, bit for bit. -/
theorem gmw_triple_valid (n words : Nat) (I : BatchIn) (h : CotCorr n words I) (w : Nat) (hw : w < words) :
    xorW ((List.range n).map fun p => wget (tripleBatch n words I p).a w) &&&
    xorW ((List.range n).map fun p => wget (tripleBatch n words I p).b w) =
    xorW ((List.range n).map fun p => wget (tripleBatch n words I p).c w) := by
  rw [xorW_range_map, xorW_range_map, xorW_range_map]
  have ha : xs n (fun p => wget (tripleBatch n words I p).a w) = xs n (fun p => wget (I.a p) w) :=
    xs_congr _ _ _ fun p _ => by simp only [tripleBatch]; exact wget_mkA _ _ _ hw
  have hb : xs n (fun p => wget (tripleBatch n words I p).b w) = xs n (fun p => wget (I.b p) w) :=
    xs_congr _ _ _ fun p _ => by simp only [tripleBatch]; exact wget_mkA _ _ _ hw
  have hc : xs n (fun p => wget (tripleBatch n words I p).c w) =
      xs n (fun p => xs n (fun q =>
        (wget (I.a p) w &&& wget (I.b q) w) ^^^ cotG I w p q ^^^ cotG I w q p)) :=
    xs_congr _ _ _ fun p hp => by
      simp only [tripleBatch]; exact tripleBatchC_corr n words I h w hw p hp
  rw [ha, hb, hc, xs_and_xs]
  have split : ∀ p, xs n (fun q =>
        (wget (I.a p) w &&& wget (I.b q) w) ^^^ cotG I w p q ^^^ cotG I w q p) =
      xs n (fun q => wget (I.a p) w &&& wget (I.b q) w) ^^^ xs n (fun q => cotG I w p q) ^^^
        xs n (fun q => cotG I w q p) := by
    intro p
    rw [xs_xor, xs_xor]
  simp only [split]
  rw [xs_xor, xs_xor, xs_swap n n (fun p q => cotG I w q p)]
  rw [BitVec.xor_assoc, BitVec.xor_self, BitVec.xor_zero]

end Mpc.Gmw

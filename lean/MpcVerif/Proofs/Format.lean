/-
Helper lemmas for C14 (circuit file formats): the reader stack, the seen-set
and its relation to `wfFrom`/`definedAfter`, panic-freedom, recursion bounds,
decimal numbers, type text, and the round trips.
-/
import MpcVerif.Model.Format

namespace Mpc
namespace Fmt

/-- Outcome class of a result (`none`: a circuit was returned); decidable, so
closed instances can be settled by evaluation. -/
def resClass {α : Type} : R α → Option Err
  | .ok _ => none
  | .error e => some e

theorem resClass_err {α : Type} (r : R α) (e : Err) (h : resClass r = some e) : r = .error e := by
  cases r <;> simp_all [resClass]

theorem resClass_ok {α : Type} (r : R α) (h : resClass r = none) : ∃ a, r = .ok a := by
  cases r <;> simp_all [resClass]

/-! ## Reader stack -/

theorem deliver_pos (cfg : RdCfg) (req k : Nat) : 1 ≤ cfg.deliver req k := by
  simp only [RdCfg.deliver]; omega

theorem deliver_le (cfg : RdCfg) (req k : Nat) (h : 0 < req) : cfg.deliver req k ≤ req := by
  simp only [RdCfg.deliver]; omega

theorem take_ne_nil {α : Type} (l : List α) (n : Nat) (hl : l ≠ []) (hn : 0 < n) : l.take n ≠ [] := by
  cases l with
  | nil => exact absurd rfl hl
  | cons a t => cases n with
    | zero => omega
    | succ m => simp

/-- One `Read` fails exactly at the end of the stream. -/
theorem read_none_iff (cfg : RdCfg) (n : Nat) (rd : Rd) : rd.read cfg n = none ↔ rd.all = [] := by
  unfold Rd.read Rd.all
  cases hb : rd.buf with
  | nil =>
    cases hr : rd.rest with
    | nil => simp
    | cons a t => by_cases h : cfg.bufSize ≤ n <;> simp [h]
  | cons a t => simp

/-- One `Read` of `n > 0` bytes delivers a non-empty prefix of the stream, at
most `n` bytes long (and possibly shorter). -/
theorem read_some (cfg : RdCfg) (n : Nat) (rd : Rd) (d : Bytes) (rd' : Rd) (hn : 0 < n)
    (h : rd.read cfg n = some (d, rd')) :
    d ≠ [] ∧ d.length ≤ n ∧ d ++ rd'.all = rd.all := by
  unfold Rd.read at h
  unfold Rd.all
  cases hb : rd.buf with
  | nil =>
    rw [hb] at h
    cases hr : rd.rest with
    | nil => rw [hr] at h; simp at h
    | cons a t =>
      rw [hr] at h
      by_cases hbs : cfg.bufSize ≤ n
      · simp only [hbs, if_true, Option.some.injEq, Prod.mk.injEq] at h
        obtain ⟨h1, h2⟩ := h
        subst h1; subst h2
        have hp := deliver_pos cfg n rd.k
        have hl := deliver_le cfg n rd.k hn
        refine ⟨take_ne_nil _ _ (by simp) (by omega), ?_, by simp⟩
        simp only [List.length_take]; omega
      · simp only [hbs, if_false, Option.some.injEq, Prod.mk.injEq] at h
        obtain ⟨h1, h2⟩ := h
        subst h1; subst h2
        have hp := deliver_pos cfg cfg.bufSize rd.k
        refine ⟨take_ne_nil _ _ (take_ne_nil _ _ (by simp) (by omega)) hn, ?_, ?_⟩
        · simp only [List.length_take]; omega
        · simp only [List.nil_append]
          rw [← List.append_assoc, List.take_append_drop, List.take_append_drop]
  | cons a t =>
    rw [hb] at h
    simp only [Option.some.injEq, Prod.mk.injEq] at h
    obtain ⟨h1, h2⟩ := h
    subst h1; subst h2
    refine ⟨take_ne_nil _ _ (by simp) hn, ?_, ?_⟩
    · simp only [List.length_take]; omega
    · simp only
      rw [← List.append_assoc, List.take_append_drop]

/-- `io.ReadFull` over ANY read-size oracle: it returns exactly the next `n`
bytes of the stream, or fails when fewer are left. -/
theorem readFullAux_spec (cfg : RdCfg) : ∀ (f n : Nat) (rd : Rd), n ≤ f →
    (n ≤ rd.all.length → ∃ rd', Rd.readFullAux cfg f n rd = some (rd.all.take n, rd') ∧
        rd'.all = rd.all.drop n) ∧
    (rd.all.length < n → Rd.readFullAux cfg f n rd = none) := by
  intro f
  induction f with
  | zero =>
    intro n rd hn
    have : n = 0 := by omega
    subst this
    simp [Rd.readFullAux]
  | succ f ih =>
    intro n rd hn
    cases n with
    | zero => simp [Rd.readFullAux]
    | succ n =>
      simp only [Rd.readFullAux]
      cases hrd : rd.read cfg (n + 1) with
      | none =>
        have := (read_none_iff cfg (n + 1) rd).1 hrd
        simp [this]
      | some p =>
        obtain ⟨d, rd1⟩ := p
        obtain ⟨hd1, hd2, hd3⟩ := read_some cfg (n + 1) rd d rd1 (by omega) hrd
        have hdl : 0 < d.length := List.length_pos_iff.2 hd1
        obtain ⟨ih1, ih2⟩ := ih (n + 1 - d.length) rd1 (by omega)
        have hlen : rd.all.length = d.length + rd1.all.length := by rw [← hd3]; simp
        constructor
        · intro hle
          obtain ⟨rd', h1, h2⟩ := ih1 (by omega)
          refine ⟨rd', ?_, ?_⟩
          · simp only [h1]
            congr 2
            rw [← hd3, List.take_append]
            have : List.take (n + 1) d = d := List.take_of_length_le (by omega)
            rw [this]
          · rw [h2, ← hd3, List.drop_append]
            have : List.drop (n + 1) d = [] := List.drop_of_length_le (by omega)
            rw [this]; simp
        · intro hlt
          have := ih2 (by omega)
          simp [this]

theorem readFull_ok (cfg : RdCfg) (n : Nat) (rd : Rd) (h : n ≤ rd.all.length) :
    ∃ rd', rd.readFull cfg n = some (rd.all.take n, rd') ∧ rd'.all = rd.all.drop n :=
  (readFullAux_spec cfg n n rd (Nat.le_refl _)).1 h

theorem readFull_none (cfg : RdCfg) (n : Nat) (rd : Rd) (h : rd.all.length < n) :
    rd.readFull cfg n = none :=
  (readFullAux_spec cfg n n rd (Nat.le_refl _)).2 h

theorem readFull_some (cfg : RdCfg) (n : Nat) (rd : Rd) (d : Bytes) (rd' : Rd)
    (h : rd.readFull cfg n = some (d, rd')) :
    d = rd.all.take n ∧ n ≤ rd.all.length ∧ rd'.all = rd.all.drop n := by
  by_cases hle : n ≤ rd.all.length
  · obtain ⟨rd2, h1, h2⟩ := readFull_ok cfg n rd hle
    rw [h1] at h
    simp only [Option.some.injEq, Prod.mk.injEq] at h
    obtain ⟨h3, h4⟩ := h
    subst h3; subst h4
    exact ⟨rfl, hle, h2⟩
  · rw [readFull_none cfg n rd (by omega)] at h
    simp at h

/-! ## Seen-set, `wfFrom`, `definedAfter` -/

/-- The seen-set as a predicate on wire numbers. -/
def seenFn (s : Store Bool) : Nat → Bool := fun w => decide (w < s.size) && s.get w

theorem needSeen_ok (s : Store Bool) (w : Nat) (h : needSeen s w = .ok ()) :
    w < s.size ∧ seenFn s w = true := by
  unfold needSeen seenGet at h
  by_cases hw : w < s.size
  · simp only [hw, if_true] at h
    cases hg : s.get w with
    | false => simp [hg] at h
    | true => exact ⟨hw, by simp [seenFn, hw, hg]⟩
  · simp [hw] at h

theorem seenSet_ok (s : Store Bool) (w : Nat) (s' : Store Bool) (h : seenSet s w = .ok s') :
    w < s.size ∧ s'.size = s.size ∧ seenFn s' = fun x => x == w || seenFn s x := by
  unfold seenSet at h
  by_cases hw : w < s.size
  · simp only [hw, if_true, Except.ok.injEq] at h
    subst h
    refine ⟨hw, by simp, ?_⟩
    funext x
    simp only [seenFn, Store.size_set]
    rw [Store.get_set s w x true hw]
    by_cases hx : w = x
    · subst hx; simp [hw]
    · have : (x == w) = false := by simp; omega
      simp [hx, this]
  · simp [hw] at h

theorem gateLoop_wf (cfg : RdCfg) (fx : Fix) (ng : Nat) :
    ∀ (f gate : Nat) (seen : Store Bool) (rd : Rd) (gs : List Gate) (seen' : Store Bool),
      gateLoop cfg fx ng f gate seen rd = .ok (gs, seen') →
      wfFrom seen.size gs (seenFn seen) = true ∧ seen'.size = seen.size ∧
      seenFn seen' = definedAfter gs (seenFn seen) := by
  intro f
  induction f with
  | zero => intro gate seen rd gs seen' h; simp [gateLoop] at h
  | succ f ih =>
    intro gate seen rd gs seen' h
    simp only [gateLoop] at h
    split at h
    · -- EOF
      simp only [Except.ok.injEq, Prod.mk.injEq] at h
      obtain ⟨h1, h2⟩ := h
      subst h1; subst h2
      simp [wfFrom, definedAfter]
    · split at h
      · simp at h
      · split at h
        · simp at h
        · -- INV
          split at h
          · simp at h
          · rename_i b rd2 _
            split at h
            · simp at h
            · rename_i hn0
              split at h
              · simp at h
              · rename_i seen2 hs
                split at h
                · simp at h
                · split at h
                  · simp at h
                  · rename_i gs2 seen3 hrec
                    simp only [Except.ok.injEq, Prod.mk.injEq] at h
                    obtain ⟨h1, h2⟩ := h
                    subst h1; subst h2
                    obtain ⟨hw0, hd0⟩ := needSeen_ok _ _ hn0
                    obtain ⟨hwo, hsz, hfn⟩ := seenSet_ok _ _ _ hs
                    obtain ⟨i1, i2, i3⟩ := ih _ _ _ _ _ hrec
                    rw [hsz, hfn] at i1
                    rw [hfn] at i3
                    refine ⟨?_, by rw [i2, hsz], ?_⟩
                    · simp [wfFrom, hd0, hw0, hwo, Op.binary, i1]
                    · simp [definedAfter, i3]
        · -- binary
          split at h
          · simp at h
          · rename_i b rd2 _
            split at h
            · simp at h
            · rename_i hn0
              split at h
              · simp at h
              · rename_i hn1
                split at h
                · simp at h
                · rename_i seen2 hs
                  split at h
                  · simp at h
                  · split at h
                    · simp at h
                    · rename_i gs2 seen3 hrec
                      simp only [Except.ok.injEq, Prod.mk.injEq] at h
                      obtain ⟨h1, h2⟩ := h
                      subst h1; subst h2
                      obtain ⟨hw0, hd0⟩ := needSeen_ok _ _ hn0
                      obtain ⟨hw1, hd1⟩ := needSeen_ok _ _ hn1
                      obtain ⟨hwo, hsz, hfn⟩ := seenSet_ok _ _ _ hs
                      obtain ⟨i1, i2, i3⟩ := ih _ _ _ _ _ hrec
                      rw [hsz, hfn] at i1
                      rw [hfn] at i3
                      refine ⟨?_, by rw [i2, hsz], ?_⟩
                      · simp [wfFrom, hd0, hd1, hw0, hw1, hwo, i1]
                      · simp [definedAfter, i3]

theorem store_get_range_map {α : Type} [Inhabited α] (n : Nat) (f : Nat → α) (i : Nat) (h : i < n) :
    Store.get ((Array.range n).map f) i = f i := by
  simp [Store.get, Array.getD, h]

theorem seenInit_ok (nw : Nat) (iw : Int) (s : Store Bool) (h : seenInit nw iw = .ok s) :
    s.size = nw ∧ iw ≤ nw ∧ seenFn s = fun w => decide (w < iw.toNat) := by
  unfold seenInit at h
  by_cases hlt : (nw : Int) < iw
  · simp [hlt] at h
  · simp only [hlt, if_false, Except.ok.injEq] at h
    subst h
    refine ⟨by simp, by omega, ?_⟩
    funext w
    simp only [seenFn, Array.size_map, Array.size_range]
    by_cases hw : w < nw
    · rw [store_get_range_map nw _ w hw]
      simp only [hw, decide_true, Bool.true_and]
      congr 1
      apply propext
      omega
    · simp only [hw, decide_false, Bool.false_and]
      symm
      simp only [decide_eq_false_iff_not]
      omega

theorem allSeen_ok (s : Store Bool) (h : allSeen s = true) (w : Nat) (hw : w < s.size) :
    seenFn s w = true := by
  unfold allSeen at h
  rw [Array.all_eq_true] at h
  have := h w hw
  simp only [id] at this
  simp [seenFn, hw, Store.get, Array.getD, this]

/-- What `ParseMPCLC` guarantees about a circuit it returns. -/
theorem parseMPCLC_wf (cfg : RdCfg) (fx : Fix) (bytes : Bytes) (c : PCircuit)
    (h : parseMPCLC cfg fx bytes = .ok c) :
    c.gates.length = c.numGates ∧ c.toCircuit.nIn ≤ c.numWires ∧
    wfFrom c.numWires c.gates c.toCircuit.inputDefined = true ∧
    ∀ w, w < c.numWires → c.toCircuit.defined w = true := by
  simp only [parseMPCLC] at h
  split at h
  · simp at h
  · split at h
    · split at h
      · simp at h
      · split at h
        · simp at h
        · split at h
          · simp at h
          · rename_i seen hsi
            split at h
            · simp at h
            · rename_i gates seen' hgl
              split at h
              · simp at h
              · rename_i hlen
                split at h
                · simp at h
                · rename_i hall
                  simp only [Except.ok.injEq] at h
                  subst h
                  obtain ⟨s1, s2, s3⟩ := seenInit_ok _ _ _ hsi
                  obtain ⟨g1, g2, g3⟩ := gateLoop_wf _ _ _ _ _ _ _ _ _ hgl
                  simp only [Decidable.not_not] at hlen
                  simp only [Bool.not_eq_true, Bool.not_eq_false] at hall
                  rw [s1, s3] at g1
                  rw [s3] at g3
                  refine ⟨hlen, ?_, ?_, ?_⟩
                  · simp only [PCircuit.toCircuit]; omega
                  · exact g1
                  · intro w hw
                    have := allSeen_ok seen' hall w (by rw [g2, s1]; exact hw)
                    rw [g3] at this
                    exact this
    · simp at h

/-! ## Bristol: what a returned circuit satisfies -/

theorem bristolIns_ok (line : List Bytes) (seen : Store Bool) :
    ∀ (n i : Nat) (vs : List Nat), bristolIns line seen n i = .ok vs →
      vs.length = n ∧ ∀ v ∈ vs, v < seen.size ∧ seenFn seen v = true := by
  intro n
  induction n with
  | zero => intro i vs h; simp [bristolIns] at h; subst h; simp
  | succ n ih =>
    intro i vs h
    simp only [bristolIns] at h
    split at h
    · simp at h
    · split at h
      · simp at h
      · split at h
        · simp at h
        · rename_i hns
          split at h
          · simp at h
          · rename_i vs2 hrec
            simp only [Except.ok.injEq] at h
            subst h
            obtain ⟨i1, i2⟩ := ih _ _ hrec
            refine ⟨by simp [i1], ?_⟩
            intro v hv
            simp only [List.mem_cons] at hv
            rcases hv with hv | hv
            · subst hv; exact needSeen_ok _ _ hns
            · exact i2 v hv

theorem bristolOuts_len (line : List Bytes) :
    ∀ (n i : Nat) (seen : Store Bool) (vs : List Nat) (seen' : Store Bool),
      bristolOuts line n i seen = .ok (vs, seen') → vs.length = n := by
  intro n
  induction n with
  | zero => intro i seen vs seen' h; simp [bristolOuts] at h; simp [h.1.symm]
  | succ n ih =>
    intro i seen vs seen' h
    simp only [bristolOuts] at h
    split at h
    · simp at h
    · split at h
      · simp at h
      · split at h
        · simp at h
        · split at h
          · simp at h
          · rename_i vs2 seen3 hrec
            simp only [Except.ok.injEq, Prod.mk.injEq] at h
            obtain ⟨h1, _⟩ := h
            subst h1
            simp [ih _ _ _ _ hrec]

theorem bristolOuts_one (line : List Bytes) (i : Nat) (seen : Store Bool) (vs : List Nat)
    (seen' : Store Bool) (h : bristolOuts line 1 i seen = .ok (vs, seen')) :
    ∃ v, vs = [v] ∧ v < seen.size ∧ seen'.size = seen.size ∧
      seenFn seen' = fun x => x == v || seenFn seen x := by
  simp only [bristolOuts] at h
  split at h
  · simp at h
  · split at h
    · simp at h
    · rename_i v _
      split at h
      · simp at h
      · rename_i s2 hs
        simp only [Except.ok.injEq, Prod.mk.injEq] at h
        obtain ⟨h1, h2⟩ := h
        subst h1; subst h2
        obtain ⟨a, b, c⟩ := seenSet_ok _ _ _ hs
        exact ⟨v, rfl, a, b, c⟩

theorem bristolGate_ok (line : List Bytes) (seen : Store Bool) (g : Gate) (seen' : Store Bool)
    (h : bristolGate line seen = .ok (g, seen')) :
    (seenFn seen g.in0 = true ∧ g.in0 < seen.size) ∧
    (g.op.binary = true → seenFn seen g.in1 = true ∧ g.in1 < seen.size) ∧
    g.out < seen.size ∧ seen'.size = seen.size ∧
    seenFn seen' = fun x => x == g.out || seenFn seen x := by
  simp only [bristolGate] at h
  split at h
  · simp at h
  · split at h
    · split at h
      · simp at h
      · rename_i n1 _
        split at h
        · simp at h
        · split at h
          · simp at h
          · rename_i n2 _
            split at h
            · simp at h
            · split at h
              · simp at h
              · split at h
                · simp at h
                · rename_i ins hins
                  split at h
                  · simp at h
                  · rename_i outs seen2 houts
                    split at h
                    · simp at h
                    · split at h
                      · simp at h
                      · rename_i op _
                        by_cases hil : ins.length = (if op.binary = true then 2 else 1)
                        · by_cases hol : outs.length = 1
                          · simp only [hil, hol, ne_eq, not_true_eq_false, if_false] at h
                            obtain ⟨_, hmem⟩ := bristolIns_ok _ _ _ _ _ hins
                            have hn2 := bristolOuts_len _ _ _ _ _ _ houts
                            rw [hol] at hn2
                            rw [← hn2] at houts
                            obtain ⟨v, hv1, hv2, hv3, hv4⟩ := bristolOuts_one _ _ _ _ _ houts
                            subst hv1
                            split at h
                            · rename_i i0 o0 hi0 ho0
                              simp only [Except.ok.injEq, Prod.mk.injEq] at h
                              obtain ⟨h1, h2⟩ := h
                              subst h1; subst h2
                              simp only [List.getElem?_cons_zero, Option.some.injEq] at ho0
                              subst ho0
                              have hm0 : i0 ∈ ins := List.mem_of_getElem? hi0
                              refine ⟨⟨(hmem i0 hm0).2, (hmem i0 hm0).1⟩, ?_, hv2, hv3, hv4⟩
                              intro hb
                              simp only at hb
                              have hmemb : ins.getD 1 0 ∈ ins := by
                                simp only [hb, if_true] at hil
                                match ins, hil with
                                | [a, b], _ => simp
                              simp [hb]
                              exact ⟨(hmem _ hmemb).2, (hmem _ hmemb).1⟩
                            · simp at h
                          · simp [hil, hol] at h
                        · simp [hil] at h
    · simp at h

theorem bristolGates_wf (ng : Nat) :
    ∀ (ls : List (List Bytes)) (gate : Nat) (seen : Store Bool) (gs : List Gate) (seen' : Store Bool),
      bristolGates ng ls gate seen = .ok (gs, seen') →
      wfFrom seen.size gs (seenFn seen) = true ∧ seen'.size = seen.size ∧
      seenFn seen' = definedAfter gs (seenFn seen) := by
  intro ls
  induction ls with
  | nil =>
    intro gate seen gs seen' h
    simp only [bristolGates, Except.ok.injEq, Prod.mk.injEq] at h
    obtain ⟨h1, h2⟩ := h
    subst h1; subst h2
    simp [wfFrom, definedAfter]
  | cons line ls ih =>
    intro gate seen gs seen' h
    simp only [bristolGates] at h
    split at h
    · simp at h
    · split at h
      · simp at h
      · rename_i g seen2 hg
        split at h
        · simp at h
        · rename_i gs2 seen3 hrec
          simp only [Except.ok.injEq, Prod.mk.injEq] at h
          obtain ⟨h1, h2⟩ := h
          subst h1; subst h2
          first
          | skip
          obtain ⟨⟨a1, a2⟩, b, c, d, e⟩ := bristolGate_ok _ _ _ _ hg
          obtain ⟨i1, i2, i3⟩ := ih _ _ _ _ hrec
          rw [d, e] at i1
          rw [e] at i3
          refine ⟨?_, by rw [i2, d], ?_⟩
          · cases hb : g.op.binary
            · simp [wfFrom, a1, a2, c, hb, i1]
            · obtain ⟨b1, b2⟩ := b hb
              simp [wfFrom, a1, a2, b1, b2, c, i1]
          · simp [definedAfter, i3]

/-- What `ParseBristol` guarantees about a circuit it returns. -/
theorem parseBristol_wf (bytes : Bytes) (c : PCircuit) (h : parseBristol bytes = .ok c) :
    c.gates.length = c.numGates ∧ c.toCircuit.nIn ≤ c.numWires ∧
    wfFrom c.numWires c.gates c.toCircuit.inputDefined = true ∧
    ∀ w, w < c.numWires → c.toCircuit.defined w = true := by
  simp only [parseBristol] at h
  repeat' split at h
  all_goals (try (simp at h; done))
  have hsi := ‹seenInit _ _ = Except.ok _›
  have hgl := ‹bristolGates _ _ _ _ = Except.ok _›
  have hlen := ‹¬ (List.length _ ≠ _)›
  have hall := ‹¬ ¬ allSeen _ = true›
  simp only [Except.ok.injEq] at h
  subst h
  obtain ⟨s1, s2, s3⟩ := seenInit_ok _ _ _ hsi
  obtain ⟨g1, g2, g3⟩ := bristolGates_wf _ _ _ _ _ _ hgl
  simp only [Decidable.not_not] at hlen
  simp only [Bool.not_eq_true, Bool.not_eq_false] at hall
  rw [s1, s3] at g1
  rw [s3] at g3
  refine ⟨hlen, ?_, g1, ?_⟩
  · simp only [PCircuit.toCircuit]; omega
  · intro w hw
    have := allSeen_ok _ hall w (by rw [g2, s1]; exact hw)
    rw [g3] at this
    exact this

/-! ## Bristol: no array access is out of range -/

theorem readLines_ne_nil (bytes : Bytes) : ∀ l ∈ readLines bytes, l ≠ [] := by
  intro l hl
  simp only [readLines, List.mem_filterMap] at hl
  obtain ⟨raw, _, h⟩ := hl
  split at h
  · simp at h
  · split at h
    · simp at h
    · rename_i hne
      simp only [Option.some.injEq] at h
      subst h
      exact hne

theorem bristolArgs_no_panic (o : Bool) : ∀ (ts : List Bytes) (i : Nat),
    bristolArgs o i ts ≠ .error .panic := by
  intro ts
  induction ts with
  | nil => intro i; simp [bristolArgs]
  | cons t ts ih =>
    intro i h
    simp only [bristolArgs] at h
    split at h
    · simp at h
    · split at h
      · simp at h
      · split at h
        · rename_i e he
          simp only [Except.error.injEq] at h
          subst h
          exact ih _ he
        · simp at h

theorem needSeen_no_panic (s : Store Bool) (w : Nat) : needSeen s w ≠ .error .panic := by
  unfold needSeen seenGet
  by_cases hw : w < s.size <;> simp [hw]
  cases s.get w <;> simp

theorem seenSet_no_panic (s : Store Bool) (w : Nat) : seenSet s w ≠ .error .panic := by
  unfold seenSet
  by_cases hw : w < s.size <;> simp [hw]

theorem bristolIns_no_panic (line : List Bytes) (seen : Store Bool) :
    ∀ (n i : Nat), i + n ≤ line.length → bristolIns line seen n i ≠ .error .panic := by
  intro n
  induction n with
  | zero => intro i _; simp [bristolIns]
  | succ n ih =>
    intro i hi h
    simp only [bristolIns] at h
    split at h
    · rename_i hnone
      rw [List.getElem?_eq_none_iff] at hnone
      omega
    · split at h
      · simp at h
      · split at h
        · rename_i e he
          simp only [Except.error.injEq] at h
          subst h
          exact needSeen_no_panic _ _ he
        · split at h
          · rename_i e he
            simp only [Except.error.injEq] at h
            subst h
            exact ih (i + 1) (by omega) he
          · simp at h

theorem bristolOuts_no_panic (line : List Bytes) :
    ∀ (n i : Nat) (seen : Store Bool), i + n ≤ line.length →
      bristolOuts line n i seen ≠ .error .panic := by
  intro n
  induction n with
  | zero => intro i seen _; simp [bristolOuts]
  | succ n ih =>
    intro i seen hi h
    simp only [bristolOuts] at h
    split at h
    · rename_i hnone
      rw [List.getElem?_eq_none_iff] at hnone
      omega
    · split at h
      · simp at h
      · split at h
        · rename_i e he
          simp only [Except.error.injEq] at h
          subst h
          exact seenSet_no_panic _ _ he
        · split at h
          · rename_i e he
            simp only [Except.error.injEq] at h
            subst h
            exact ih (i + 1) _ (by omega) he
          · simp at h

theorem bristolGate_no_panic (line : List Bytes) (seen : Store Bool) :
    bristolGate line seen ≠ .error .panic := by
  intro h
  simp only [bristolGate] at h
  split at h
  · simp at h
  · rename_i hlen
    split at h
    · split at h
      · simp at h
      · rename_i n1 _
        split at h
        · simp at h
        · split at h
          · simp at h
          · rename_i n2 _
            split at h
            · simp at h
            · split at h
              · simp at h
              · rename_i hsum
                split at h
                · rename_i e he
                  simp only [Except.error.injEq] at h
                  subst h
                  exact bristolIns_no_panic line seen _ 2 (by omega) he
                · rename_i ins hins
                  split at h
                  · rename_i e he
                    simp only [Except.error.injEq] at h
                    subst h
                    exact bristolOuts_no_panic line _ _ seen (by omega) he
                  · rename_i outs seen2 houts
                    split at h
                    · rename_i hnone
                      rw [List.getElem?_eq_none_iff] at hnone
                      omega
                    · split at h
                      · simp at h
                      · rename_i op _
                        by_cases hil : ins.length = (if op.binary = true then 2 else 1)
                        · by_cases hol : outs.length = 1
                          · simp only [hil, hol, ne_eq, not_true_eq_false, if_false] at h
                            split at h
                            · simp at h
                            · rename_i hx
                              match ins, outs, hil, hol, hx with
                              | i0 :: _, [o0], _, _, hx => exact hx i0 o0 rfl rfl
                              | [], _, hil, _, _ => cases hb : op.binary <;> simp [hb] at hil
                          · simp [hil, hol] at h
                        · simp [hil] at h
    · rename_i hx
      match line, hlen with
      | a :: b :: _, _ => exact hx a b rfl rfl
      | [], hlen => simp at hlen
      | [_], hlen => simp at hlen

theorem bristolGates_no_panic (ng : Nat) :
    ∀ (ls : List (List Bytes)) (gate : Nat) (seen : Store Bool),
      bristolGates ng ls gate seen ≠ .error .panic := by
  intro ls
  induction ls with
  | nil => intro gate seen; simp [bristolGates]
  | cons line ls ih =>
    intro gate seen h
    simp only [bristolGates] at h
    split at h
    · simp at h
    · split at h
      · rename_i e he
        simp only [Except.error.injEq] at h
        subst h
        exact bristolGate_no_panic _ _ he
      · split at h
        · rename_i e he
          simp only [Except.error.injEq] at h
          subst h
          exact ih _ _ he
        · simp at h

theorem declare_no_panic (n : Nat) : declare n ≠ .error .panic := by
  unfold declare; by_cases h : cap < n <;> simp [h]

theorem seenInit_no_panic (nw : Nat) (iw : Int) : seenInit nw iw ≠ .error .panic := by
  unfold seenInit; by_cases h : (nw : Int) < iw <;> simp [h]

theorem parseBristol_no_panic (bytes : Bytes) : parseBristol bytes ≠ .error .panic := by
  intro h
  have hne := readLines_ne_nil bytes
  simp only [parseBristol] at h
  repeat' split at h
  all_goals (try (simp at h; done))
  all_goals (try (rename_i e he; simp only [Except.error.injEq] at h; subst h; first
    | exact declare_no_panic _ he | exact bristolArgs_no_panic _ _ _ he | exact seenInit_no_panic _ _ he
    | exact bristolGates_no_panic _ _ _ _ he))
  · rename_i heq; exact hne [] (by rw [heq]; simp) rfl
  · rename_i heq; exact hne [] (by rw [heq]; simp) rfl
  · rename_i l1 rest1 heq hlen _ _ hx
    match l1, hlen, hx with
    | [a, b], _, hx => exact hx a b rfl rfl
    | [], hlen, _ => simp at hlen
    | [_], hlen, _ => simp at hlen
    | _ :: _ :: _ :: _, hlen, _ => simp at hlen

/-! ## Native format: the only panic is the unguarded `gates[gate]` -/

theorem readN_no_panic (cfg : RdCfg) (n : Nat) (rd : Rd) : readN cfg n rd ≠ .error .panic := by
  unfold readN; cases rd.readFull cfg n <;> simp

theorem readU32_no_panic (cfg : RdCfg) (rd : Rd) : readU32 cfg rd ≠ .error .panic := by
  unfold readU32
  intro h
  split at h
  · rename_i e he
    simp only [Except.error.injEq] at h
    subst h
    exact readN_no_panic _ _ _ he
  · simp at h

theorem parseString_no_panic (cfg : RdCfg) (fx : Fix) (rd : Rd) :
    parseString cfg fx rd ≠ .error .panic := by
  intro h
  unfold parseString at h
  split at h
  · rename_i e he
    simp only [Except.error.injEq] at h
    subst h
    exact readU32_no_panic _ _ he
  · split at h
    · rename_i e he
      simp only [Except.error.injEq] at h
      subst h
      exact declare_no_panic _ he
    · repeat' split at h
      all_goals simp at h

theorem parseIOArg_no_panic (cfg : RdCfg) (fx : Fix) : ∀ (f : Nat),
    (∀ rd, parseIOArg cfg fx f rd ≠ .error .panic) ∧
    (∀ n rd, parseIOArgs cfg fx f n rd ≠ .error .panic) := by
  intro f
  induction f with
  | zero =>
    constructor
    · intro rd; simp [parseIOArg]
    · intro n rd; cases n <;> simp [parseIOArgs]
  | succ f ih =>
    obtain ⟨ih1, ih2⟩ := ih
    constructor
    · intro rd h
      simp only [parseIOArg] at h
      repeat' split at h
      all_goals (try (simp at h; done))
      all_goals (rename_i e he; simp only [Except.error.injEq] at h; subst h; first
        | exact parseString_no_panic _ _ _ he | exact readU32_no_panic _ _ he
        | exact declare_no_panic _ he | exact ih2 _ _ he)
    · intro n rd h
      cases n with
      | zero => simp [parseIOArgs] at h
      | succ n =>
        simp only [parseIOArgs] at h
        repeat' split at h
        all_goals (try (simp at h; done))
        all_goals (rename_i e he; simp only [Except.error.injEq] at h; subst h; first
          | exact ih1 _ he | exact ih2 _ _ he)

/-- With the `gate >= NumGates` test at the top of the loop the gate loop has
no out-of-range store. -/
theorem gateLoop_guard_no_panic (cfg : RdCfg) (fx : Fix) (ng : Nat) (hfx : fx.guardGates = true) :
    ∀ (f gate : Nat) (seen : Store Bool) (rd : Rd),
      gateLoop cfg fx ng f gate seen rd ≠ .error .panic := by
  intro f
  induction f with
  | zero => intro gate seen rd; simp [gateLoop]
  | succ f ih =>
    intro gate seen rd h
    simp only [gateLoop, hfx, true_and] at h
    split at h
    · simp at h
    · split at h
      · simp at h
      · rename_i hng
        repeat' split at h
        all_goals (try (simp at h; done))
        all_goals (try omega)
        all_goals (rename_i e he; simp only [Except.error.injEq] at h; subst h; first
          | exact readN_no_panic _ _ _ he | exact needSeen_no_panic _ _ he
          | exact seenSet_no_panic _ _ he | exact ih _ _ _ he)

theorem parseMPCLC_guard_no_panic (cfg : RdCfg) (fx : Fix) (hfx : fx.guardGates = true) (bytes : Bytes) :
    parseMPCLC cfg fx bytes ≠ .error .panic := by
  intro h
  simp only [parseMPCLC] at h
  repeat' split at h
  all_goals (try (simp at h; done))
  all_goals (rename_i e he; simp only [Except.error.injEq] at h; subst h; first
    | exact readN_no_panic _ _ _ he | exact (parseIOArg_no_panic cfg fx _).2 _ _ he
    | exact seenInit_no_panic _ _ he | exact gateLoop_guard_no_panic cfg fx _ hfx _ _ _ _ he)

/-! ## The recursion bounds are never the reason for stopping -/

theorem readN_err (cfg : RdCfg) (n : Nat) (rd : Rd) (e : Err) (h : readN cfg n rd = .error e) :
    e = .error := by
  unfold readN at h; cases hr : rd.readFull cfg n <;> simp_all

theorem readU32_err (cfg : RdCfg) (rd : Rd) (e : Err) (h : readU32 cfg rd = .error e) :
    e = .error := by
  unfold readU32 at h
  split at h
  · rename_i e' he
    simp only [Except.error.injEq] at h
    subst h
    exact readN_err _ _ _ _ he
  · simp at h

theorem declare_err (n : Nat) (e : Err) (h : declare n = .error e) : e = .oversize := by
  unfold declare at h; by_cases hc : cap < n <;> simp_all

theorem parseString_no_fuel (cfg : RdCfg) (fx : Fix) (rd : Rd) :
    parseString cfg fx rd ≠ .error .fuel := by
  intro h
  unfold parseString at h
  split at h
  · rename_i e he
    simp only [Except.error.injEq] at h
    subst h
    cases readU32_err _ _ _ he
  · split at h
    · rename_i e he
      simp only [Except.error.injEq] at h
      subst h
      cases declare_err _ _ he
    · repeat' split at h
      all_goals simp at h

theorem readN_len (cfg : RdCfg) (n : Nat) (rd : Rd) (b : Bytes) (rd' : Rd)
    (h : readN cfg n rd = .ok (b, rd')) :
    b = rd.all.take n ∧ n ≤ rd.all.length ∧ rd'.all = rd.all.drop n := by
  unfold readN at h
  cases hr : rd.readFull cfg n with
  | none => simp [hr] at h
  | some x =>
    obtain ⟨d, r2⟩ := x
    simp only [hr, Except.ok.injEq, Prod.mk.injEq] at h
    obtain ⟨h1, h2⟩ := h
    subst h1; subst h2
    exact readFull_some cfg n rd _ _ hr

theorem readU32_len (cfg : RdCfg) (rd : Rd) (v : Nat) (rd' : Rd) (h : readU32 cfg rd = .ok (v, rd')) :
    rd'.all.length + 4 = rd.all.length := by
  unfold readU32 at h
  split at h
  · simp at h
  · rename_i b r2 hr
    simp only [Except.ok.injEq, Prod.mk.injEq] at h
    obtain ⟨_, h2⟩ := h
    subst h2
    obtain ⟨_, a2, a3⟩ := readN_len _ _ _ _ _ hr
    rw [a3, List.length_drop]; omega

theorem parseString_len (cfg : RdCfg) (fx : Fix) (rd : Rd) (s : Bytes) (rd' : Rd)
    (h : parseString cfg fx rd = .ok (s, rd')) : rd'.all.length + 4 ≤ rd.all.length := by
  unfold parseString at h
  split at h
  · simp at h
  · rename_i n rd1 h1
    have l1 := readU32_len _ _ _ _ h1
    split at h
    · simp at h
    · split at h
      · simp only [Except.ok.injEq, Prod.mk.injEq] at h
        obtain ⟨_, h2⟩ := h
        subst h2; omega
      · split at h
        · split at h
          · simp at h
          · rename_i d rd2 hr
            simp only [Except.ok.injEq, Prod.mk.injEq] at h
            obtain ⟨_, h2⟩ := h
            subst h2
            obtain ⟨_, _, a3⟩ := readFull_some _ _ _ _ _ hr
            rw [a3, List.length_drop]; omega
        · split at h
          · simp at h
          · rename_i d rd2 hr
            simp only [Except.ok.injEq, Prod.mk.injEq] at h
            obtain ⟨_, h2⟩ := h
            subst h2
            have hn : 0 < n := by omega
            obtain ⟨_, _, a3⟩ := read_some _ _ _ _ _ hn hr
            have : rd1.all.length = d.length + rd2.all.length := by rw [← a3]; simp
            omega

/-- Every `parseIOArg` consumes at least the four 32-bit fields. -/
theorem parseIOArg_len (cfg : RdCfg) (fx : Fix) : ∀ (f : Nat),
    (∀ rd a rd', parseIOArg cfg fx f rd = .ok (a, rd') → rd'.all.length + 16 ≤ rd.all.length) ∧
    (∀ n rd as rd', parseIOArgs cfg fx f n rd = .ok (as, rd') → rd'.all.length ≤ rd.all.length) := by
  intro f
  induction f with
  | zero =>
    constructor
    · intro rd a rd' h; simp [parseIOArg] at h
    · intro n rd as rd' h
      cases n with
      | zero => simp only [parseIOArgs, Except.ok.injEq, Prod.mk.injEq] at h; rw [h.2]; omega
      | succ n => simp [parseIOArgs] at h
  | succ f ih =>
    obtain ⟨ih1, ih2⟩ := ih
    constructor
    · intro rd a rd' h
      simp only [parseIOArg] at h
      repeat' split at h
      all_goals (try (simp at h; done))
      simp only [Except.ok.injEq, Prod.mk.injEq] at h
      obtain ⟨_, h2⟩ := h
      subst h2
      rename_i _ _ e1 _ _ _ e2 _ _ _ e3 _ _ _ _ _ _ _ _ e4 _ _ _ _ _ e5 _
      have l1 := parseString_len _ _ _ _ _ e1
      have l2 := parseString_len _ _ _ _ _ e2
      have l3 := readU32_len _ _ _ _ e3
      have l4 := readU32_len _ _ _ _ e4
      have l5 := ih2 _ _ _ _ e5
      omega
    · intro n rd as rd' h
      cases n with
      | zero => simp only [parseIOArgs, Except.ok.injEq, Prod.mk.injEq] at h; rw [h.2]; omega
      | succ n =>
        simp only [parseIOArgs] at h
        repeat' split at h
        all_goals (try (simp at h; done))
        simp only [Except.ok.injEq, Prod.mk.injEq] at h
        obtain ⟨_, h2⟩ := h
        subst h2
        rename_i _ _ e1 _ _ _ e2 _
        have l1 := ih1 _ _ _ e1
        have l2 := ih2 _ _ _ _ e2
        omega

theorem parseIOArg_fuel (cfg : RdCfg) (fx : Fix) : ∀ (f : Nat),
    (∀ rd, rd.all.length < 8 * f → parseIOArg cfg fx f rd ≠ .error .fuel) ∧
    (∀ n rd, rd.all.length + 8 < 8 * f → parseIOArgs cfg fx f n rd ≠ .error .fuel) := by
  intro f
  induction f with
  | zero =>
    constructor
    · intro rd h; omega
    · intro n rd h; omega
  | succ f ih =>
    obtain ⟨ih1, ih2⟩ := ih
    constructor
    · intro rd hlen h
      simp only [parseIOArg] at h
      split at h
      · rename_i e he
        simp only [Except.error.injEq] at h; subst h
        exact parseString_no_fuel _ _ _ he
      · rename_i _ _ e1
        split at h
        · rename_i e he
          simp only [Except.error.injEq] at h; subst h
          exact parseString_no_fuel _ _ _ he
        · rename_i _ _ e2
          split at h
          · rename_i e he
            simp only [Except.error.injEq] at h; subst h
            cases readU32_err _ _ _ he
          · rename_i _ _ e3
            split at h
            · rename_i e he
              simp only [Except.error.injEq] at h; subst h
              cases declare_err _ _ he
            · split at h
              · simp at h
              · split at h
                · rename_i e he
                  simp only [Except.error.injEq] at h; subst h
                  cases readU32_err _ _ _ he
                · rename_i _ _ e4
                  split at h
                  · rename_i e he
                    simp only [Except.error.injEq] at h; subst h
                    cases declare_err _ _ he
                  · split at h
                    · rename_i e he
                      simp only [Except.error.injEq] at h; subst h
                      have l1 := parseString_len _ _ _ _ _ e1
                      have l2 := parseString_len _ _ _ _ _ e2
                      have l3 := readU32_len _ _ _ _ e3
                      have l4 := readU32_len _ _ _ _ e4
                      exact ih2 _ _ (by omega) he
                    · simp at h
    · intro n rd hlen h
      cases n with
      | zero => simp [parseIOArgs] at h
      | succ n =>
        simp only [parseIOArgs] at h
        split at h
        · rename_i e he
          simp only [Except.error.injEq] at h; subst h
          exact ih1 _ (by omega) he
        · rename_i _ _ e1
          split at h
          · rename_i e he
            simp only [Except.error.injEq] at h; subst h
            have l1 := (parseIOArg_len cfg fx f).1 _ _ _ e1
            exact ih2 _ _ (by omega) he
          · simp at h

theorem needSeen_err (s : Store Bool) (w : Nat) (e : Err) (h : needSeen s w = .error e) : e = .error := by
  unfold needSeen seenGet at h
  by_cases hw : w < s.size
  · simp only [hw, if_true] at h
    cases hg : s.get w <;> simp_all
  · simp_all

theorem seenSet_err (s : Store Bool) (w : Nat) (e : Err) (h : seenSet s w = .error e) : e = .error := by
  unfold seenSet at h
  by_cases hw : w < s.size <;> simp_all

theorem seenInit_err (nw : Nat) (iw : Int) (e : Err) (h : seenInit nw iw = .error e) : e = .error := by
  unfold seenInit at h
  by_cases hw : (nw : Int) < iw <;> simp_all

theorem gateLoop_fuel (cfg : RdCfg) (fx : Fix) (ng : Nat) :
    ∀ (f gate : Nat) (seen : Store Bool) (rd : Rd), rd.all.length < f →
      gateLoop cfg fx ng f gate seen rd ≠ .error .fuel := by
  intro f
  induction f with
  | zero => intro gate seen rd h; omega
  | succ f ih =>
    intro gate seen rd hlen h
    simp only [gateLoop] at h
    split at h
    · simp at h
    · rename_i opb rd1 hr
      obtain ⟨r1, r2, r3⟩ := read_some _ _ _ _ _ (by omega) hr
      have hl1 : rd.all.length = opb.length + rd1.all.length := by rw [← r3]; simp
      have : 0 < opb.length := List.length_pos_iff.2 r1
      repeat' split at h
      all_goals (try (simp at h; done))
      all_goals (rename_i e he; simp only [Except.error.injEq] at h; subst h)
      all_goals first
        | (cases readN_err _ _ _ _ he; done)
        | (cases needSeen_err _ _ _ he; done)
        | (cases seenSet_err _ _ _ he; done)
        | skip
      all_goals
        (have hb := readN_len _ _ _ _ _ ‹readN cfg _ rd1 = Except.ok _›
         obtain ⟨_, _, hb3⟩ := hb
         refine ih _ _ _ ?_ he
         rw [hb3, List.length_drop]; omega)

/-- The recursion bounds of the model of `ParseMPCLC` are never reached. -/
theorem parseMPCLC_no_fuel (cfg : RdCfg) (fx : Fix) (bytes : Bytes) :
    parseMPCLC cfg fx bytes ≠ .error .fuel := by
  intro h
  simp only [parseMPCLC] at h
  split at h
  · rename_i e he
    simp only [Except.error.injEq] at h; subst h
    cases readN_err _ _ _ _ he
  · rename_i hd rd0 e0
    obtain ⟨_, a2, a3⟩ := readN_len _ _ _ _ _ e0
    have l0 : rd0.all.length + 20 = bytes.length := by
      rw [a3, List.length_drop]
      simp only [Rd.all, Rd.init, List.nil_append] at a2 ⊢
      omega
    split at h
    · split at h
      · rename_i e he
        simp only [Except.error.injEq] at h; subst h
        exact (parseIOArg_fuel cfg fx _).2 _ _ (by omega) he
      · rename_i _ rd1 e1
        have l1 := (parseIOArg_len cfg fx _).2 _ _ _ _ e1
        split at h
        · rename_i e he
          simp only [Except.error.injEq] at h; subst h
          exact (parseIOArg_fuel cfg fx _).2 _ _ (by omega) he
        · rename_i _ rd2 e2
          have l2 := (parseIOArg_len cfg fx _).2 _ _ _ _ e2
          split at h
          · rename_i e he
            simp only [Except.error.injEq] at h; subst h
            cases seenInit_err _ _ _ he
          · split at h
            · rename_i e he
              simp only [Except.error.injEq] at h; subst h
              exact gateLoop_fuel cfg fx _ _ _ _ _ (by omega) he
            · repeat' split at h
              all_goals simp at h
    · simp at h

end Fmt
end Mpc

/-
Helper lemmas for the duplex / fault part of C11 (Model/ConnDuplex.lean).
Core Lean only.
-/
import MpcVerif.Model.ConnDuplex
import MpcVerif.Proofs.Conn

namespace Mpc.Conn
open ByteArray

/-! ## Runs -/

theorem Local.run_nil (wc : Bool) (frag : Frag) (l : Local) : Local.run wc frag l [] = (l, []) := rfl

theorem Local.run_cons (wc : Bool) (frag : Frag) (l : Local) (e : Ev) (es : List Ev) :
    Local.run wc frag l (e :: es) =
      ((Local.run wc frag (l.step wc frag e).1 es).1, (l.step wc frag e).2 :: (Local.run wc frag (l.step wc frag e).1 es).2) := rfl

theorem Local.run_append (wc : Bool) (frag : Frag) (l : Local) (es fs : List Ev) :
    Local.run wc frag l (es ++ fs) =
      ((Local.run wc frag (Local.run wc frag l es).1 fs).1,
       (Local.run wc frag l es).2 ++ (Local.run wc frag (Local.run wc frag l es).1 fs).2) := by
  induction es generalizing l with
  | nil => simp [Local.run_nil]
  | cons e es ih => simp [Local.run_cons, ih]

theorem recvObs_append (a b : List Obs) : recvObs (a ++ b) = recvObs a ++ recvObs b := by
  induction a with
  | nil => rfl
  | cons o os ih => cases o <;> simp [recvObs, ih]

theorem recvObs_got (vs : List Val) : recvObs (vs.map Obs.got) = vs.map Obs.got := by
  induction vs with
  | nil => rfl
  | cons v vs ih => simp [recvObs, ih]

theorem recvObs_skips (n : Nat) : recvObs (List.replicate n Obs.skip) = [] := by
  induction n with
  | zero => rfl
  | succ n ih => simp [List.replicate_succ, recvObs, ih]

/-! ## The send half does not reach the receive side -/

theorem sendEffect_false_r (l : Local) (s : FSender) : (l.sendEffect false s).r = l.r := by
  simp [Local.sendEffect]

theorem sendEffect_snd (wc : Bool) (l : Local) (s : FSender) : (l.sendEffect wc s).snd = s := by
  unfold Local.sendEffect; split <;> rfl

theorem sendEffect_rcv (wc : Bool) (l : Local) (s : FSender) : (l.sendEffect wc s).r.rcv = l.r.rcv := by
  unfold Local.sendEffect; split <;> rfl

theorem sendEffect_dead (wc : Bool) (l : Local) (s : FSender) : (l.sendEffect wc s).r.dead = l.r.dead := by
  unfold Local.sendEffect; split <;> rfl

theorem sendEffect_inClosed (wc : Bool) (l : Local) (s : FSender) :
    (l.sendEffect wc s).r.inClosed = l.r.inClosed := by
  unfold Local.sendEffect; split <;> rfl

theorem sendEffect_epClosed (l : Local) (s : FSender) :
    (l.sendEffect true s).r.epClosed = (l.r.epClosed || (s.werr && !l.snd.werr)) := by
  unfold Local.sendEffect
  split
  · simp_all
  · cases h1 : s.werr <;> cases h2 : l.snd.werr <;> simp_all

/-- a send-half event (typed send, Flush, NeedSpace, writer iterations) under
any fault pattern leaves the receive side untouched and returns no receive result -/
theorem step_send (frag : Frag) (l : Local) (e : Ev) (he : e.isSend = true) :
    (l.step false frag e).1.r = l.r ∧ recvObs [(l.step false frag e).2] = [] := by
  cases e <;> simp [Ev.isSend] at he <;> simp [Local.step, sendEffect_false_r, recvObs]

/-- every other event except `Close` is a function of the receive side only -/
theorem step_other (frag : Frag) (l l' : Local) (e : Ev) (he : e.isSend = false) (hc : e.isClose = false)
    (h : l.r = l'.r) :
    (l.step false frag e).1.r = (l'.step false frag e).1.r ∧ (l.step false frag e).2 = (l'.step false frag e).2 := by
  cases e <;> simp [Ev.isSend] at he <;> simp [Ev.isClose] at hc <;> simp [Local.step, h]

theorem run_recvView (frag : Frag) (evs : List Ev) (l l' : Local) (hnc : ∀ e ∈ evs, e.isClose = false)
    (h : l.r = l'.r) :
    (Local.run false frag l evs).1.r = (Local.run false frag l' (recvView evs)).1.r ∧
    recvObs (Local.run false frag l evs).2 = recvObs (Local.run false frag l' (recvView evs)).2 := by
  induction evs generalizing l l' with
  | nil => exact ⟨h, rfl⟩
  | cons e es ih =>
    have hnc' : ∀ e ∈ es, e.isClose = false := fun x hx => hnc x (by simp [hx])
    cases hs : e.isSend with
    | true =>
      obtain ⟨s1, s2⟩ := step_send frag l e hs
      obtain ⟨i1, i2⟩ := ih (l.step false frag e).1 l' hnc' (by rw [s1, h])
      refine ⟨by simp [recvView, hs, Local.run_cons, i1], ?_⟩
      simp only [recvView, hs, if_true, Local.run_cons]
      rw [← i2]
      have : ∀ (o : Obs) (os : List Obs), recvObs [o] = [] → recvObs (o :: os) = recvObs os := by
        intro o os ho
        have := recvObs_append [o] os
        simpa [ho] using this
      exact this _ _ s2
    | false =>
      obtain ⟨s1, s2⟩ := step_other frag l l' e hs (hnc e (by simp)) h
      obtain ⟨i1, i2⟩ := ih (l.step false frag e).1 (l'.step false frag e).1 hnc' s1
      refine ⟨by simp [recvView, hs, Local.run_cons, i1], ?_⟩
      simp only [recvView, hs, Local.run_cons]
      have e1 := recvObs_append [(l.step false frag e).2] (Local.run false frag (l.step false frag e).1 es).2
      have e2 := recvObs_append [(l'.step false frag e).2]
        (Local.run false frag (l'.step false frag e).1 (recvView es)).2
      simp only [List.singleton_append] at e1 e2
      simp only [Bool.false_eq_true, if_false, Local.run_cons]
      rw [e1, e2, s2, i2]

/-! ## Arrival and typed receives -/

theorem unread_peerWrite (r : Recv) (b : ByteArray) (hp : r.pos ≤ r.pend.size) :
    ({ r with pend := r.pend ++ b } : Recv).unread = r.unread ++ b := by
  simp only [Recv.unread, Recv.window, Recv.pending]
  rw [ByteArray.append_assoc]
  congr 1
  rw [ByteArray.extract_append, ByteArray.size_append]
  have h1 : r.pend.extract r.pos (r.pend.size + b.size) = r.pend.extract r.pos r.pend.size :=
    extract_ge_size _ _ _ (by omega)
  have h2 : b.extract (r.pos - r.pend.size) (r.pend.size + b.size - r.pend.size) = b := by
    have : r.pos - r.pend.size = 0 := by omega
    rw [this]
    exact extract_all _ _ (by omega)
  rw [h1, h2]

/-- the receive side after the peer's chunks `cs` were accepted by the transport -/
theorem run_peerWrites (wc : Bool) (frag : Frag) (cs : List ByteArray) (l : Local) :
    Local.run wc frag l (cs.map Ev.peerWrite) =
      ({ l with r := { l.r with rcv := { l.r.rcv with pend := l.r.rcv.pend ++ joinB cs } } },
       List.replicate cs.length Obs.skip) := by
  induction cs generalizing l with
  | nil => simp [Local.run_nil, joinB]
  | cons c cs ih =>
    simp only [List.map_cons, Local.run_cons, Local.step, ih, RSide.peerWrite, joinB,
      ByteArray.append_assoc, List.length_cons, List.replicate_succ]

/-- matching typed receives of values that have arrived completely -/
theorem run_recvs (wc : Bool) (frag : Frag) (vs : List Val) (hv : ∀ v ∈ vs, v.Valid) (l : Local)
    (hd : l.r.dead = false) (hc : l.r.epClosed = false) (hi : RInv l.r.rcv)
    (tail : ByteArray) (hu : l.r.rcv.unread = encodeVals vs ++ tail) :
    ∃ r', Local.run wc frag l (vs.map fun v => Ev.recv v.kind) =
        ({ l with r := { l.r with rcv := r' } }, vs.map Obs.got) ∧
      RInv r' ∧ r'.unread = tail ∧ Acct l.r.rcv r' := by
  induction vs generalizing l with
  | nil =>
    exact ⟨l.r.rcv, by simp [Local.run_nil], hi, by simpa [encodeVals] using hu, Acct.refl _⟩
  | cons v vs ih =>
    obtain ⟨r1, e1, i1, u1, a1⟩ := recvVal_spec frag v (hv v (by simp)) l.r.rcv hi (encodeVals vs ++ tail)
      (by rw [hu, encodeVals, ByteArray.append_assoc])
    have hstep : l.step wc frag (Ev.recv v.kind) = ({ l with r := { l.r with rcv := r1 } }, Obs.got v) := by
      have hp : r1.pend = l.r.rcv.pend := a1.pend_eq
      simp only [Local.step, RSide.recv, hd, hc, Bool.false_eq_true, if_false]
      rw [e1]
      simp only
      rw [← hp]
    obtain ⟨r2, e2, i2, u2, a2⟩ := ih (fun w hw => hv w (by simp [hw]))
      { l with r := { l.r with rcv := r1 } } hd hc i1 u1
    refine ⟨r2, ?_, i2, u2, a1.trans a2⟩
    simp only [List.map_cons, Local.run_cons, hstep, e2]

/-! ## Rounds: the peer's bytes arrive in any chunking, interleaved with the receives -/

/-- One round: the transport accepts `chunks` from the peer, then the local side
receives `vals`; `tail` = bytes that have arrived but belong to later values. -/
structure Round where
  chunks : List ByteArray
  vals : List Val
  tail : ByteArray

def roundEvs (rd : Round) : List Ev :=
  rd.chunks.map Ev.peerWrite ++ rd.vals.map fun v => Ev.recv v.kind

def roundsEvs : List Round → List Ev
  | [] => []
  | rd :: rs => roundEvs rd ++ roundsEvs rs

/-- every receive of a round happens when its value has arrived completely:
what was left over (`t`) followed by the new chunks is the encoding of the
round's values followed by the new left-over -/
def RoundsOK : ByteArray → List Round → Prop
  | _, [] => True
  | t, rd :: rs => (∀ v ∈ rd.vals, v.Valid) ∧ t ++ joinB rd.chunks = encodeVals rd.vals ++ rd.tail ∧
      RoundsOK rd.tail rs

def lastTail : ByteArray → List Round → ByteArray
  | t, [] => t
  | _, rd :: rs => lastTail rd.tail rs

def roundsVals : List Round → List Val
  | [] => []
  | rd :: rs => rd.vals ++ roundsVals rs

def roundsBytes : List Round → ByteArray
  | [] => ByteArray.empty
  | rd :: rs => joinB rd.chunks ++ roundsBytes rs

theorem run_rounds (wc : Bool) (frag : Frag) (rs : List Round) (l : Local)
    (hd : l.r.dead = false) (hc : l.r.epClosed = false) (hi : RInv l.r.rcv)
    (hok : RoundsOK l.r.rcv.unread rs) :
    ∃ r', (Local.run wc frag l (roundsEvs rs)).1 = { l with r := { l.r with rcv := r' } } ∧
      recvObs (Local.run wc frag l (roundsEvs rs)).2 = (roundsVals rs).map Obs.got ∧
      RInv r' ∧ r'.unread = lastTail l.r.rcv.unread rs ∧
      r'.pend = l.r.rcv.pend ++ roundsBytes rs ∧
      r'.recvd + l.r.rcv.pos = l.r.rcv.recvd + r'.pos ∧ l.r.rcv.pos ≤ r'.pos := by
  induction rs generalizing l with
  | nil =>
    exact ⟨l.r.rcv, by simp [roundsEvs, Local.run_nil], by simp [roundsEvs, Local.run_nil, roundsVals, recvObs],
      hi, rfl, by simp [roundsBytes], rfl, Nat.le_refl _⟩
  | cons rd rs ih =>
    obtain ⟨hv, heq, hrest⟩ := hok
    -- the chunks arrive
    let l1 : Local := { l with r := { l.r with rcv := { l.r.rcv with pend := l.r.rcv.pend ++ joinB rd.chunks } } }
    have hw := run_peerWrites wc frag rd.chunks l
    have hi1 : RInv l1.r.rcv := ⟨hi.rs_le, hi.buf_le, by
      show l.r.rcv.pos ≤ (l.r.rcv.pend ++ joinB rd.chunks).size
      rw [ByteArray.size_append]; have := hi.pos_le; omega⟩
    have hu1 : l1.r.rcv.unread = encodeVals rd.vals ++ rd.tail := by
      show ({ l.r.rcv with pend := l.r.rcv.pend ++ joinB rd.chunks } : Recv).unread = _
      rw [unread_peerWrite _ _ hi.pos_le, heq]
    -- the values are received
    obtain ⟨r2, e2, i2, u2, a2⟩ := run_recvs wc frag rd.vals hv l1 hd hc hi1 rd.tail hu1
    let l2 : Local := { l1 with r := { l1.r with rcv := r2 } }
    have hok2 : RoundsOK l2.r.rcv.unread rs := by
      show RoundsOK r2.unread rs
      rw [u2]; exact hrest
    obtain ⟨r3, e3, o3, i3, u3, p3, c3, m3⟩ := ih l2 hd hc i2 hok2
    have hrun : Local.run wc frag l (roundsEvs (rd :: rs)) =
        ((Local.run wc frag l2 (roundsEvs rs)).1,
         (List.replicate rd.chunks.length Obs.skip ++ rd.vals.map Obs.got) ++
           (Local.run wc frag l2 (roundsEvs rs)).2) := by
      simp only [roundsEvs, roundEvs, Local.run_append, hw, e2, l1, l2]
    refine ⟨r3, ?_, ?_, i3, ?_, ?_, ?_, ?_⟩
    · rw [hrun, e3]
    · rw [hrun]
      simp only [recvObs_append, recvObs_skips, recvObs_got, o3, roundsVals, List.map_append, List.nil_append]
    · rw [u3]; show lastTail r2.unread rs = lastTail l.r.rcv.unread (rd :: rs)
      rw [u2]; rfl
    · rw [p3]; show r2.pend ++ roundsBytes rs = _
      rw [a2.pend_eq]
      show (l.r.rcv.pend ++ joinB rd.chunks) ++ roundsBytes rs = _
      rw [ByteArray.append_assoc]; rfl
    · have h1 : r2.recvd + l.r.rcv.pos = l.r.rcv.recvd + r2.pos := a2.recvd_eq
      have h2 : r3.recvd + r2.pos = r2.recvd + r3.pos := c3
      omega
    · have h1 : l.r.rcv.pos ≤ r2.pos := a2.pos_mono
      have h2 : r2.pos ≤ r3.pos := m3
      omega

/-- the bytes of all rounds are the encoding of all values followed by the last left-over -/
theorem rounds_bytes (t : ByteArray) (rs : List Round) (hok : RoundsOK t rs) :
    t ++ roundsBytes rs = encodeVals (roundsVals rs) ++ lastTail t rs := by
  induction rs generalizing t with
  | nil => simp [roundsBytes, roundsVals, lastTail, encodeVals]
  | cons rd rs ih =>
    obtain ⟨_, heq, hrest⟩ := hok
    have := ih rd.tail hrest
    have henc : ∀ a b : List Val, encodeVals (a ++ b) = encodeVals a ++ encodeVals b := by
      intro a b
      induction a with
      | nil => simp [encodeVals]
      | cons x xs ihx => simp [encodeVals, ihx, ByteArray.append_assoc]
    simp only [roundsBytes, roundsVals, lastTail, henc]
    rw [← ByteArray.append_assoc, heq, ByteArray.append_assoc, this, ByteArray.append_assoc]

/-! ## End of stream -/

/-- a value of every kind -/
def Kind.sample : Kind → Val
  | .byte => .byte 0 | .u16 => .u16 0 | .u32 => .u32 0 | .data => .data ByteArray.empty
  | .str => .str ByteArray.empty | .label => .label 0 | .sizes => .sizes []

theorem Kind.sample_kind (k : Kind) : k.sample.kind = k := by cases k <;> rfl

theorem Kind.sample_valid (k : Kind) : k.sample.Valid := by
  cases k <;> simp [Kind.sample, Val.Valid]

theorem Kind.sample_size (k : Kind) : 0 < k.sample.encode.size := by
  cases k <;> decide

/-- a typed receive of any kind on a stream that is exhausted reports the end of the stream -/
theorem recvVal_exhausted (frag : Frag) (k : Kind) (r : Recv) (hi : RInv r) (hu : r.unread = ByteArray.empty) :
    r.recvVal frag k = .error .eof := by
  have := recvVal_eof frag k.sample k.sample_valid r hi ByteArray.empty k.sample.encode
    (by simpa using k.sample_size) (by simp) hu
  rwa [Kind.sample_kind] at this

end Mpc.Conn

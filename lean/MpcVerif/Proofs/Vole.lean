/-
Helper lemmas for C20, vector-OLE (Model/Vole.lean): `bytes32` round trip and
its panic condition, the packed-vector message round trip, the sender's
modular arithmetic, and the explicit form of a complete session.
-/
import MpcVerif.Model.Vole
import MpcVerif.Proofs.Proto2

namespace Mpc
/-- Element-wise relation of two lists of the same length (call `k` of the
history with result `k`). -/
inductive Forall2 {α β : Type} (R : α → β → Prop) : List α → List β → Prop
  | nil : Forall2 R [] []
  | cons {a : α} {b : β} {as : List α} {bs : List β} : R a b → Forall2 R as bs → Forall2 R (a :: as) (b :: bs)

theorem Forall2.length_eq {α β : Type} {R : α → β → Prop} {as : List α} {bs : List β}
    (h : Forall2 R as bs) : as.length = bs.length := by
  induction h with
  | nil => rfl
  | cons _ _ ih => simp [ih]

theorem Forall2.get {α β : Type} {R : α → β → Prop} {as : List α} {bs : List β}
    (h : Forall2 R as bs) : ∀ (k : Nat) (a : α) (b : β), as[k]? = some a → bs[k]? = some b → R a b := by
  induction h with
  | nil => intro k a b ha; simp at ha
  | cons hr _ ih =>
    intro k a b ha hb
    cases k with
    | zero => simp at ha hb; subst ha hb; exact hr
    | succ k => simp at ha hb; exact ih k a b ha hb
end Mpc

namespace Mpc.Vole


/-- `big.Int.Bytes()` of a value below `256^k` has at most `k` bytes. -/
theorem natToBytesBE_length_le (k : Nat) : ∀ v, v < 256 ^ k → (natToBytesBE v).length ≤ k := by
  induction k with
  | zero =>
    intro v hv
    have : v = 0 := by simpa using hv
    subst this
    rw [natToBytesBE]; simp
  | succ k ih =>
    intro v hv
    rw [natToBytesBE]
    split
    · simp
    · have : v / 256 < 256 ^ k := by
        rw [Nat.pow_succ] at hv
        exact Nat.div_lt_of_lt_mul (by rw [Nat.mul_comm]; exact hv)
      have := ih _ this
      simp
      omega

/-- ... and at least `k+1` bytes when the value is `≥ 256^k`. -/
theorem natToBytesBE_length_gt (k : Nat) : ∀ v, 256 ^ k ≤ v → k < (natToBytesBE v).length := by
  induction k with
  | zero =>
    intro v hv
    rw [natToBytesBE]
    split
    · next h => subst h; simp at hv
    · simp
  | succ k ih =>
    intro v hv
    rw [natToBytesBE]
    have hpos : 0 < 256 ^ k := Nat.pow_pos (by decide)
    split
    · next h => subst h; rw [Nat.pow_succ] at hv; omega
    · have : 256 ^ k ≤ v / 256 := by
        rw [Nat.pow_succ] at hv
        exact (Nat.le_div_iff_mul_le (by decide)).2 hv
      have := ih _ this
      simp
      omega

theorem bytesToNatBE_zeros (n : Nat) (b : List UInt8) :
    bytesToNatBE (List.replicate n (0 : UInt8) ++ b) = bytesToNatBE b := by
  induction n with
  | zero => simp
  | succ n ih =>
    rw [List.replicate_succ, List.cons_append]
    unfold bytesToNatBE at *
    simpa using ih

theorem two256 : (2 : Nat) ^ 256 = 256 ^ 32 := by decide

/-- `bytes32` succeeds exactly below 2^256, gives 32 bytes, and `SetBytes`
reads the value back. -/
theorem bytes32_roundtrip (v : Nat) (hv : v < 2 ^ 256) :
    ∃ b, bytes32 v = some b ∧ b.length = 32 ∧ bytesToNatBE b = v := by
  have hl := natToBytesBE_length_le 32 v (by rw [← two256]; exact hv)
  refine ⟨List.replicate (32 - (natToBytesBE v).length) (0 : UInt8) ++ natToBytesBE v,
    by simp [bytes32, hl], ?_, ?_⟩
  · simp; omega
  · rw [bytesToNatBE_zeros, bytes_roundtrip]

theorem bytes32_panics (v : Nat) (hv : 2 ^ 256 ≤ v) : bytes32 v = none := by
  have hl := natToBytesBE_length_gt 32 v (by rw [← two256]; exact hv)
  simp [bytes32]; omega

theorem pack32_unpack32 (p : Nat) (vs : List Nat) (hv : ∀ v ∈ vs, v < 2 ^ 256) :
    ∃ msg, pack32 vs = some msg ∧ msg.length = vs.length * 32 ∧
      unpack32 p vs.length msg = vs.map (· % p) := by
  induction vs with
  | nil => exact ⟨[], rfl, rfl, rfl⟩
  | cons v vs ih =>
    obtain ⟨b, hb, hbl, hbv⟩ := bytes32_roundtrip v (hv v (by simp))
    obtain ⟨msg, hm, hml, hmu⟩ := ih (fun w hw => hv w (by simp [hw]))
    refine ⟨b ++ msg, by simp [pack32, hb, hm], by simp [hbl, hml]; omega, ?_⟩
    simp only [List.length_cons, unpack32, List.map_cons]
    rw [List.take_left' hbl, List.drop_left' hbl, hbv, hmu]



/-- The sender's arithmetic: with `r < p`, `u = (r + x*(y mod p) mod p) mod p`
satisfies `u - r ≡ x*y (mod p)` (stated on naturals: `u + p - r`). -/
theorem share_arith (p r x y : Nat) (hp : 0 < p) (hr : r < p) :
    let u := (r + (x * (y % p)) % p) % p
    u < p ∧ (u + p - r) % p = (x * y) % p := by
  intro u
  have ht : (x * (y % p)) % p = (x * y) % p := by
    rw [Nat.mul_mod, Nat.mod_mod, ← Nat.mul_mod]
  have htl : (x * y) % p < p := Nat.mod_lt _ hp
  refine ⟨Nat.mod_lt _ hp, ?_⟩
  show ((r + (x * (y % p)) % p) % p + p - r) % p = (x * y) % p
  rw [ht]
  generalize (x * y) % p = t at htl
  by_cases h : r + t < p
  · rw [Nat.mod_eq_of_lt h]
    have : r + t + p - r = t + p := by omega
    rw [this, Nat.add_mod_right, Nat.mod_eq_of_lt htl]
  · have h2 : (r + t) % p = r + t - p := by
      rw [Nat.mod_eq_sub_mod (by omega), Nat.mod_eq_of_lt (by omega)]
    rw [h2]
    have : r + t - p + p - r = t := by omega
    rw [this, Nat.mod_eq_of_lt htl]

/-- The same as a congruence on integers (what `big.Int.Sub` + `Mod` check). -/
theorem share_arith_int (p r u x y : Nat) (hr : r < p)
    (h : (u + p - r) % p = (x * y) % p) :
    ((u : Int) - (r : Int)) % (p : Int) = ((x : Int) * (y : Int)) % (p : Int) := by
  have h1 : ((u : Int) - r) % p = ((u : Int) - r + p) % p := by
    rw [Int.add_emod_right]
  have h2 : (u : Int) - r + p = ((u + p - r : Nat) : Int) := by omega
  rw [h1, h2]
  have := congrArg (Int.ofNat) h
  simpa using this


theorem senderUs_lt (p : Nat) (hp : 0 < p) : ∀ (rs xs ys : List Nat), ∀ u ∈ senderUs p rs xs ys, u < p := by
  intro rs
  induction rs with
  | nil => intro xs ys u hu; simp [senderUs] at hu
  | cons r rs ih =>
    intro xs ys u hu
    cases xs with
    | nil => simp [senderUs] at hu
    | cons x xs =>
      cases ys with
      | nil => simp [senderUs] at hu
      | cons y ys =>
        simp only [senderUs, List.mem_cons] at hu
        rcases hu with h | h
        · subst h; exact Nat.mod_lt _ hp
        · exact ih xs ys u h

theorem senderUs_length (p : Nat) : ∀ (rs xs ys : List Nat), xs.length = rs.length → ys.length = rs.length →
    (senderUs p rs xs ys).length = rs.length := by
  intro rs
  induction rs with
  | nil => intro xs ys _ _; simp [senderUs]
  | cons r rs ih =>
    intro xs ys hx hy
    cases xs with
    | nil => simp at hx
    | cons x xs =>
      cases ys with
      | nil => simp at hy
      | cons y ys =>
        simp only [senderUs, List.length_cons] at *
        rw [ih xs ys (by omega) (by omega)]

theorem senderUs_get (p : Nat) : ∀ (rs xs ys : List Nat) (i r x y : Nat),
    rs[i]? = some r → xs[i]? = some x → ys[i]? = some y →
    (senderUs p rs xs ys)[i]? = some ((r + (x * y) % p) % p) := by
  intro rs
  induction rs with
  | nil => intro xs ys i r x y h; simp at h
  | cons r0 rs ih =>
    intro xs ys i r x y hr hx hy
    cases xs with
    | nil => simp at hx
    | cons x0 xs =>
      cases ys with
      | nil => simp at hy
      | cons y0 ys =>
        cases i with
        | zero =>
          simp only [List.getElem?_cons_zero, Option.some.injEq] at hr hx hy
          subst hr hx hy
          simp [senderUs]
        | succ i =>
          simp only [List.getElem?_cons_succ] at hr hx hy
          simp only [senderUs, List.getElem?_cons_succ]
          exact ih xs ys i r x y hr hx hy

theorem map_mod_id (p : Nat) (l : List Nat) (h : ∀ u ∈ l, u < p) : l.map (· % p) = l := by
  induction l with
  | nil => rfl
  | cons a l ih =>
    simp only [List.map_cons]
    rw [Nat.mod_eq_of_lt (h a (by simp)), ih (fun u hu => h u (by simp [hu]))]

/-- Explicit form of a session under the theorem's hypotheses. -/
theorem session_ok (prg : BitVec 128 → Nat) (labels : List (BitVec 128)) (xs ys : List Nat) (p : Nat)
    (hp0 : 0 < p) (hp : p ≤ 2 ^ 256) (hm : 1 ≤ xs.length) (hly : ys.length = xs.length)
    (hll : labels.length = xs.length) (hy : ∀ y ∈ ys, y < 2 ^ 256) :
    ∃ ymsg umsg,
      session prg labels xs ys p =
        .ok ⟨senderRs prg labels p, senderUs p (senderRs prg labels p) xs (ys.map (· % p)), ymsg, umsg⟩ ∧
      pack32 ys = some ymsg ∧ ymsg.length = xs.length * 32 ∧
      pack32 (senderUs p (senderRs prg labels p) xs (ys.map (· % p))) = some umsg ∧
      umsg.length = xs.length * 32 := by
  obtain ⟨ymsg, hym, hyl, hyu⟩ := pack32_unpack32 p ys hy
  have hrl : (senderRs prg labels p).length = xs.length := by simp [senderRs, hll]
  have hul : (senderUs p (senderRs prg labels p) xs (ys.map (· % p))).length = xs.length := by
    rw [senderUs_length p _ _ _ (by omega) (by simp; omega), hrl]
  have hult := senderUs_lt p hp0 (senderRs prg labels p) xs (ys.map (· % p))
  obtain ⟨umsg, hum, hul2, huu⟩ := pack32_unpack32 p _ (fun u hu => Nat.lt_of_lt_of_le (hult u hu) hp)
  rw [hul] at hul2 huu
  rw [map_mod_id p _ hult] at huu
  rw [hly] at hyl hyu
  refine ⟨ymsg, umsg, ?_, hym, hyl, hum, hul2⟩
  have hx0 : xs.length ≠ 0 := by omega
  simp only [session, receiverY, hym, senderMul, receiverUs, hly, hx0, hll, hyl, hyu, hum, hul2, huu,
    ne_eq, not_true_eq_false, if_false]

/-! ### Histories of `Mul` calls -/

/-- The hypotheses of the property on one call: a modulus of at most 256
bits, vectors of equal length (possibly empty), `y < 2^256`. -/
def Call.Ok (c : Call) : Prop :=
  0 < c.p ∧ c.p ≤ 2 ^ 256 ∧ c.ys.length = c.xs.length ∧ ∀ y ∈ c.ys, y < 2 ^ 256

/-- The share relation of one call's outputs. -/
def ShareRel (c : Call) (s : Session) : Prop :=
  s.rs.length = c.xs.length ∧ s.us.length = c.xs.length ∧
  ∀ i, i < c.xs.length → ∃ r u x y,
    s.rs[i]? = some r ∧ s.us[i]? = some u ∧ c.xs[i]? = some x ∧ c.ys[i]? = some y ∧
    r < c.p ∧ u < c.p ∧
    ((u : Int) - (r : Int)) % (c.p : Int) = ((x : Int) * (y : Int)) % (c.p : Int) ∧
    (u + c.p - r) % c.p = (x * y) % c.p

theorem callLabels_length (cot : Nat → BitVec 128) (pos m : Nat) : (callLabels cot pos m).length = m := by
  simp [callLabels]

/-- Lifting a per-call fact to a history: if every admissible call succeeds
from every state with a result satisfying `R`, moving the position by
`roundUp8 m`, then so does every history of admissible calls. -/
theorem runCalls_of_step (prg : BitVec 128 → Nat) (cot : Nat → BitVec 128) (R : Call → Session → Prop)
    (hstep : ∀ st c, c.Ok → ∃ s, mulStep prg cot st c = .ok (⟨st.pos + roundUp8 c.xs.length⟩, s) ∧ R c s) :
    ∀ (calls : List Call) (st : St), (∀ c ∈ calls, c.Ok) →
      ∃ ss, runCalls prg cot st calls =
          .ok (⟨st.pos + (calls.map fun c => roundUp8 c.xs.length).sum⟩, ss) ∧
        Forall2 R calls ss := by
  intro calls
  induction calls with
  | nil => intro st _; exact ⟨[], by simp [runCalls], .nil⟩
  | cons c cs ih =>
    intro st h
    obtain ⟨s, hs, hr⟩ := hstep st c (h c (by simp))
    obtain ⟨ss, hss, hrr⟩ := ih ⟨st.pos + roundUp8 c.xs.length⟩ (fun d hd => h d (by simp [hd]))
    refine ⟨s :: ss, ?_, .cons hr hrr⟩
    simp only [runCalls, hs, hss, List.map_cons, List.sum_cons, Nat.add_assoc]

end Mpc.Vole

/-
C09: the level sort with a bounded level field (`Model/LevelsWrap.lean`).
-/
import MpcVerif.Proofs.Levels
import MpcVerif.Model.LevelsWrap

set_option linter.unusedSimpArgs false

namespace Mpc

/-! ### the driver's linear initial store -/

theorem initStoreArr_eq {α : Type} (n : Nat) (d : α) (l : List α) : initStoreArr n d l = initStore n d l := by
  apply Array.ext
  · simp [initStoreArr, initStore]; omega
  · intro i h1 h2
    have hn : i < n := by simpa [initStore] using h2
    simp only [initStoreArr, initStore, Array.getElem_map, Array.getElem_range, Array.getElem_append,
      List.size_toArray, List.length_take, List.getElem_toArray, List.getElem_take, Array.getElem_replicate]
    by_cases hl : i < l.length
    · have : i < min n l.length := by omega
      simp [this, hl, List.getD_eq_getElem?_getD]
    · have : ¬ i < min n l.length := by omega
      simp [this, hl, List.getD_eq_getElem?_getD]

theorem computeArr_eq (c : Circuit) (x : List Bool) : c.computeArr x = c.compute x := by
  simp [Circuit.computeArr, Circuit.compute, Circuit.plainEval, initStoreArr_eq]

/-! ### no overflow: the bounded field changes nothing -/

theorem wrapLv_id (k : Nat) (l : List (Gate × Nat)) (h : ∀ p ∈ l, p.2 < 2 ^ k) : wrapLv k l = l := by
  unfold wrapLv
  conv => rhs; rw [← List.map_id l]
  apply List.map_congr_left
  intro p hp
  simp [Nat.mod_eq_of_lt (h p hp)]

theorem wrapLv_map_fst (k : Nat) (l : List (Gate × Nat)) : (wrapLv k l).map Prod.fst = l.map Prod.fst := by
  simp [wrapLv, List.map_map, Function.comp_def]

/-! ### the INV chain -/

theorem invChainGates_length (n : Nat) : (invChainGates n).length = n := by simp [invChainGates]

theorem mem_invChainGates (n : Nat) (g : Gate) : g ∈ invChainGates n ↔ ∃ j, j < n ∧ g = invChainGate j := by
  simp only [invChainGates, List.mem_map, List.mem_range]
  constructor
  · rintro ⟨j, hj, rfl⟩; exact ⟨j, hj, rfl⟩
  · rintro ⟨j, hj, rfl⟩; exact ⟨j, hj, rfl⟩

theorem invChain_zip (n : Nat) :
    (invChainGates n).zip (List.range n) = (List.range n).map fun j => (invChainGate j, j) := by
  apply List.ext_getElem
  · simp [invChainGates]
  · intro i h1 h2
    simp [invChainGates, List.getElem_zip]

theorem wfFrom_invRange (N : Nat) : ∀ (m s : Nat) (d : Nat → Bool), d s = true → s + m + 1 ≤ N →
    wfFrom N ((List.range' s m).map invChainGate) d = true := by
  intro m
  induction m with
  | zero => intro s d _ _; rfl
  | succ m ih =>
    intro s d hd hN
    simp only [List.range'_succ, List.map_cons, wfFrom, invChainGate, Op.binary, hd, Bool.not_false,
      Bool.true_or, Bool.and_true, Bool.true_and, Bool.and_eq_true, decide_eq_true_eq]
    refine ⟨⟨by omega, by omega⟩, ?_⟩
    exact ih (s + 1) _ (by simp) (by omega)

/-- The INV chain is single-assignment and topologically ordered. -/
theorem invChain_ssa (n : Nat) : SSA (invChain n).numWires (invChain n).gates (invChain n).inputDefined := by
  refine ⟨?_, ?_, ?_⟩
  · simp only [invChain, invChainGates, List.range_eq_range']
    exact wfFrom_invRange (n + 1) n 0 _ (by simp [Circuit.inputDefined]) (by omega)
  · simp only [invChain, invChainGates, List.map_map]
    rw [List.Nodup, List.pairwise_map]
    exact List.Pairwise.imp (fun {a b} hab => by simpa [invChainGate] using hab) List.nodup_range
  · intro g hg
    obtain ⟨j, _, rfl⟩ := (mem_invChainGates n g).mp hg
    simp [invChain, Circuit.inputDefined, invChainGate]

/-- Its breadth-first levels `0, 1, …, n-1` are strict. -/
theorem invChain_strict (n : Nat) :
    strictLevels (invChain n).nIn ((invChain n).gates.zip (List.range n)) = true := by
  simp only [invChain, invChain_zip, strictLevels, List.all_eq_true, List.mem_map, List.mem_range,
    Bool.or_eq_true, decide_eq_true_eq, List.any_eq_true, Bool.and_eq_true, beq_iff_eq]
  rintro a ⟨j, hj, rfl⟩ w hw
  have hw' : w = j := by
    simpa [Gate.ins, invChainGate, Op.binary] using hw
  subst hw'
  cases w with
  | zero => exact Or.inl (by simp)
  | succ i => exact Or.inr ⟨(invChainGate i, i), ⟨i, by omega, rfl⟩, rfl, by omega⟩

/-! ### position of two elements in a sorted list -/

theorem pairwise_order {α : Type} (R : α → α → Prop) : ∀ (l : List α), l.Pairwise R → ∀ a b, a ∈ l → b ∈ l →
    a ≠ b → ¬ R b a → ∃ pre mid post, l = pre ++ a :: (mid ++ b :: post) := by
  intro l
  induction l with
  | nil => intro _ a b ha; simp at ha
  | cons x xs ih =>
    intro hp a b ha hb hne hnr
    rw [List.pairwise_cons] at hp
    by_cases hax : a = x
    · subst hax
      have hb' : b ∈ xs := by
        rcases List.mem_cons.mp hb with h | h
        · exact absurd h.symm hne
        · exact h
      obtain ⟨mid, post, rfl⟩ := List.append_of_mem hb'
      exact ⟨[], mid, post, rfl⟩
    · have ha' : a ∈ xs := by
        rcases List.mem_cons.mp ha with h | h
        · exact absurd h hax
        · exact h
      by_cases hbx : b = x
      · subst hbx
        exact absurd (hp.1 a ha') hnr
      · have hb' : b ∈ xs := by
          rcases List.mem_cons.mp hb with h | h
          · exact absurd h hbx
          · exact h
        obtain ⟨pre, mid, post, rfl⟩ := ih hp.2 a b ha' hb' hne hnr
        exact ⟨x :: pre, mid, post, rfl⟩

/-- **A bounded level field breaks the sort.**  For every width `k ≥ 1` the
chain of depth `2^k + 1` – single-assignment, topologically ordered, with
strict levels – is NOT topologically ordered after `Compile`'s stable sort
by the levels a `k`-bit field holds: the last gate (true level `2^k`, stored
level 0) is sorted ahead of the gate that drives it. -/
theorem wrapped_sort_not_wf (k : Nat) (hk : 0 < k) :
    wfFrom (invChain (2 ^ k + 1)).numWires
      ((compileSortW k ((invChain (2 ^ k + 1)).gates.zip (List.range (2 ^ k + 1)))).map Prod.fst)
      (invChain (2 ^ k + 1)).inputDefined = false := by
  have h2 : 2 ≤ 2 ^ k := by
    calc 2 = 2 ^ 1 := rfl
    _ ≤ 2 ^ k := Nat.pow_le_pow_right (by omega) hk
  generalize hn : 2 ^ k + 1 = n at *
  cases hwf : wfFrom (invChain n).numWires
      ((compileSortW k ((invChain n).gates.zip (List.range n))).map Prod.fst) (invChain n).inputDefined with
  | false => rfl
  | true =>
    exfalso
    let l := wrapLv k ((invChain n).gates.zip (List.range n))
    have hl : l = (List.range n).map fun j => (invChainGate j, j % 2 ^ k) := by
      simp [l, wrapLv, invChain, invChain_zip, List.map_map, Function.comp_def]
    let A : Gate × Nat := (invChainGate (2 ^ k), 0)
    let B : Gate × Nat := (invChainGate (2 ^ k - 1), 2 ^ k - 1)
    have hA : A ∈ l := by
      rw [hl]; simp only [List.mem_map, List.mem_range]
      exact ⟨2 ^ k, by omega, by simp [A]⟩
    have hB : B ∈ l := by
      rw [hl]; simp only [List.mem_map, List.mem_range]
      exact ⟨2 ^ k - 1, by omega, by simp [B, Nat.mod_eq_of_lt (show 2 ^ k - 1 < 2 ^ k by omega)]⟩
    have hperm := List.mergeSort_perm l compileLe
    have hsorted : (l.mergeSort compileLe).Pairwise (fun a b => compileLe a b = true) :=
      List.pairwise_mergeSort compileLe_trans compileLe_total l
    have hne : A ≠ B := by
      intro h
      have := congrArg Prod.snd h
      simp only [A, B] at this
      omega
    have hnr : ¬ compileLe B A = true := by
      rw [compileLe_iff]
      simp only [cKey, A, B, invChainGate]
      simp
      omega
    obtain ⟨pre, mid, post, hs⟩ := pairwise_order _ _ hsorted A B (hperm.mem_iff.mpr hA) (hperm.mem_iff.mpr hB) hne hnr
    have hs' : compileSortW k ((invChain n).gates.zip (List.range n)) = pre ++ A :: (mid ++ B :: post) := hs
    rw [hs'] at hwf
    -- the input of gate 2^k is wire 2^k: not an input, and its only producer comes later
    rcases wf_pre Prod.fst _ pre A (mid ++ B :: post) _ hwf (2 ^ k) (by simp [A, invChainGate, Gate.ins, Op.binary]) with h | ⟨h, hh, hout⟩
    · simp [invChain, Circuit.inputDefined] at h
    · -- h ∈ pre produces wire 2^k, so h is gate 2^k - 1 with its stored level, i.e. B; but B occurs later
      have hmem : h ∈ l := hperm.mem_iff.mp (by rw [hs]; simp [hh])
      rw [hl] at hmem
      simp only [List.mem_map, List.mem_range] at hmem
      obtain ⟨j, hj, rfl⟩ := hmem
      simp only [invChainGate] at hout
      have hj' : j = 2 ^ k - 1 := by omega
      subst hj'
      have hnd : (l.mergeSort compileLe).Nodup := by
        refine (hperm.nodup_iff).mpr ?_
        rw [hl, List.Nodup, List.pairwise_map]
        exact List.Pairwise.imp (fun {a b} hab h => hab (by
          have := congrArg (fun p => p.1.in0) h
          simpa [invChainGate] using this)) List.nodup_range
      rw [hs] at hnd
      have hBeq : ((invChainGate (2 ^ k - 1), (2 ^ k - 1) % 2 ^ k) : Gate × Nat) = B := by
        simp [B, Nat.mod_eq_of_lt (show 2 ^ k - 1 < 2 ^ k by omega)]
      rw [hBeq] at hh
      rw [List.nodup_append] at hnd
      exact hnd.2.2 B hh B (by simp) rfl

/-! ### … and the value computed is wrong -/

/-- Wire `j` of the chain carries the input negated `j` times. -/
theorem invChain_eval (n : Nat) (b : Bool) :
    ∀ j, j ≤ n → ((invChain n).plainEval [b]).get j = (b != decide (j % 2 = 1)) := by
  have hssa := invChain_ssa n
  obtain ⟨hk, hsem⟩ := ssa_sem (invChain n).numWires (invChain n).gates (invChain n).inputDefined
    (initStore (invChain n).numWires false ([b].take (invChain n).nIn)) (by simp [initStore]) hssa
  intro j
  induction j with
  | zero =>
    intro _
    have := hk 0 (by simp [invChain, Circuit.inputDefined])
    simp only [Circuit.plainEval]
    rw [this, get_initStore _ _ _ (by simp [invChain])]
    simp [invChain]
  | succ i ih =>
    intro hi
    have hg : invChainGate i ∈ (invChain n).gates := (mem_invChainGates n _).mpr ⟨i, by omega, rfl⟩
    have := hsem _ hg
    simp only [invChainGate, Op.eval] at this
    simp only [Circuit.plainEval] at ih ⊢
    rw [this, ih (by omega)]
    rcases Nat.mod_two_eq_zero_or_one i with h | h
    · have : (i + 1) % 2 = 1 := by omega
      simp [h, this]
    · have : (i + 1) % 2 = 0 := by omega
      simp [h, this]

theorem invChain_compute (n : Nat) (b : Bool) : (invChain n).compute [b] = [b != decide (n % 2 = 1)] := by
  have := invChain_eval n b n (Nat.le_refl n)
  simp only [Circuit.compute, Circuit.outputs]
  simp [invChain] at this ⊢
  exact this

theorem evalPlainGates_append (a b : List Gate) (s : Store Bool) :
    evalPlainGates (a ++ b) s = evalPlainGates b (evalPlainGates a s) := by
  simp [evalPlainGates, List.foldl_append]

/-- On the chain of depth `2^k + 1` sorted by the levels a `k`-bit field
stores, the output gate runs before its input has been computed: the output
is `¬ false = true` whatever the input, while the circuit computes `¬ x`. -/
theorem wrapped_sort_wrong_output (k : Nat) (hk : 0 < k) (b : Bool) :
    (({ invChain (2 ^ k + 1) with gates :=
        (compileSortW k ((invChain (2 ^ k + 1)).gates.zip (List.range (2 ^ k + 1)))).map Prod.fst } : Circuit).compute [b]
      = [true]) ∧ (invChain (2 ^ k + 1)).compute [b] = [!b] := by
  have h2 : 2 ≤ 2 ^ k := by
    calc 2 = 2 ^ 1 := rfl
    _ ≤ 2 ^ k := Nat.pow_le_pow_right (by omega) hk
  have hodd : (2 ^ k + 1) % 2 = 1 := by
    obtain ⟨k', rfl⟩ : ∃ k', k = k' + 1 := ⟨k - 1, by omega⟩
    rw [Nat.pow_succ]; omega
  refine ⟨?_, by rw [invChain_compute, hodd]; simp⟩
  generalize hn : 2 ^ k + 1 = n at *
  let l := wrapLv k ((invChain n).gates.zip (List.range n))
  have hl : l = (List.range n).map fun j => (invChainGate j, j % 2 ^ k) := by
    simp [l, wrapLv, invChain, invChain_zip, List.map_map, Function.comp_def]
  let A : Gate × Nat := (invChainGate (2 ^ k), 0)
  let B : Gate × Nat := (invChainGate (2 ^ k - 1), 2 ^ k - 1)
  have hA : A ∈ l := by
    rw [hl]; simp only [List.mem_map, List.mem_range]
    exact ⟨2 ^ k, by omega, by simp [A]⟩
  have hB : B ∈ l := by
    rw [hl]; simp only [List.mem_map, List.mem_range]
    exact ⟨2 ^ k - 1, by omega, by simp [B, Nat.mod_eq_of_lt (show 2 ^ k - 1 < 2 ^ k by omega)]⟩
  have hperm := List.mergeSort_perm l compileLe
  have hsorted : (l.mergeSort compileLe).Pairwise (fun a b => compileLe a b = true) :=
    List.pairwise_mergeSort compileLe_trans compileLe_total l
  have hne : A ≠ B := by
    intro h
    have := congrArg Prod.snd h
    simp only [A, B] at this
    omega
  have hnr : ¬ compileLe B A = true := by
    rw [compileLe_iff]
    simp only [cKey, A, B, invChainGate]
    simp
    omega
  obtain ⟨pre, mid, post, hs⟩ := pairwise_order _ _ hsorted A B (hperm.mem_iff.mpr hA) (hperm.mem_iff.mpr hB) hne hnr
  have hs' : compileSortW k ((invChain n).gates.zip (List.range n)) = pre ++ A :: (mid ++ B :: post) := hs
  -- outputs of the sorted list are pairwise distinct
  have hnd : ((l.mergeSort compileLe).map (fun p => p.1.out)).Nodup := by
    refine ((hperm.map _).nodup_iff).mpr ?_
    rw [hl, List.map_map, List.Nodup, List.pairwise_map]
    exact List.Pairwise.imp (fun {a b} hab => by simpa [invChainGate] using hab) List.nodup_range
  rw [hs] at hnd
  simp only [List.map_append, List.map_cons, List.nodup_append, List.nodup_cons, List.mem_append, List.mem_cons,
    List.mem_map] at hnd
  obtain ⟨_, ⟨hAnot, _⟩, hdisj⟩ := hnd
  have hpre : ∀ g ∈ pre.map Prod.fst, g.out ≠ 2 ^ k := by
    intro g hg hout
    obtain ⟨p, hp, rfl⟩ := List.mem_map.mp hg
    exact hdisj _ ⟨p, hp, rfl⟩ (2 ^ k) (Or.inr (Or.inr (Or.inl (by simp [B, invChainGate]; omega)))) hout
  have hrest : ∀ g ∈ (mid ++ B :: post).map Prod.fst, g.out ≠ 2 ^ k + 1 := by
    intro g hg hout
    obtain ⟨p, hp, rfl⟩ := List.mem_map.mp hg
    apply hAnot
    rcases List.mem_append.mp hp with h | h
    · exact Or.inl ⟨p, h, by simp [A, invChainGate, hout]⟩
    · rcases List.mem_cons.mp h with rfl | h
      · exact Or.inr (Or.inl (by simp [A, invChainGate] at hout ⊢; omega))
      · exact Or.inr (Or.inr ⟨p, h, by simp [A, invChainGate, hout]⟩)
  simp only [Circuit.compute, Circuit.outputs, Circuit.plainEval, hs']
  have hshape : (invChain n).numWires = n + 1 ∧ (invChain n).nOut = 1 ∧ (invChain n).nIn = 1 := ⟨rfl, rfl, rfl⟩
  simp only [hshape.1, hshape.2.1, hshape.2.2, List.map_append, List.map_cons, List.range_one, List.map_nil,
    Nat.add_sub_cancel, Nat.add_zero, List.cons.injEq, and_true]
  rw [evalPlainGates_append, evalPlainGates_cons]
  have hout : n = 2 ^ k + 1 := hn.symm
  rw [hout, evalPlainGates_frame _ _ _ (by simpa [List.map_append] using hrest)]
  have hsz : (evalPlainGates (List.map Prod.fst pre) (initStore (2 ^ k + 1 + 1) false (List.take 1 [b]))).size
      = 2 ^ k + 1 + 1 := by simp [evalPlainGates_size, initStore]
  have : (A.1.evalPlain (evalPlainGates (List.map Prod.fst pre) (initStore (2 ^ k + 1 + 1) false (List.take 1 [b])))).get
      (2 ^ k + 1) = !((evalPlainGates (List.map Prod.fst pre) (initStore (2 ^ k + 1 + 1) false (List.take 1 [b]))).get (2 ^ k)) := by
    have := Store.get_set_eq (evalPlainGates (List.map Prod.fst pre) (initStore (2 ^ k + 1 + 1) false (List.take 1 [b])))
      (2 ^ k + 1) (!((evalPlainGates (List.map Prod.fst pre) (initStore (2 ^ k + 1 + 1) false (List.take 1 [b]))).get (2 ^ k)))
      (by omega)
    simpa [Gate.evalPlain, A, invChainGate, Op.eval] using this
  rw [this, evalPlainGates_frame _ _ _ hpre, get_initStore _ _ _ (by omega)]
  have : ([b].take 1).getD (2 ^ k) false = false := by
    simp [List.getD_eq_getElem?_getD]
  simp [this]

end Mpc

/-
C09: `Graph.constPropagate` (model of `Compiler.ConstPropagate`) preserves the
input-to-output function of every well-formed builder graph.
-/
import MpcVerif.Proofs.PassOps

set_option linter.unusedSimpArgs false
set_option linter.unusedVariables false

namespace Mpc

/-- The annotation `v` of a wire is sound for its bit `b`. -/
def vsound (v : WVal) (b : Bool) : Prop := (v = .zero → b = false) ∧ (v = .one → b = true)

theorem vsound_unknown (b : Bool) : vsound .unknown b := ⟨fun h => (by cases h), fun h => (by cases h)⟩

namespace Graph

theorem cpRule_unknown (op : Op) : cpRule op .unknown .unknown = .none := by
  cases op <;> simp [cpRule]

/-- The `SetValue` rules of `ConstPropagate` are sound. -/
theorem cpRule_set_sound (op : Op) (va vb v : WVal) (sa sb : Bool)
    (h : cpRule op va vb = .set v) (ha : vsound va sa) (hb : vsound vb sb) :
    vsound v (op.eval sa sb) := by
  obtain ⟨ha0, ha1⟩ := ha
  obtain ⟨hb0, hb1⟩ := hb
  cases op <;> cases va <;> cases vb <;> simp [cpRule] at h <;> subst h <;>
    simp at ha0 ha1 hb0 hb1 <;> simp [vsound, Op.eval, *]

/-- The `ShortCircuit` rules of `ConstPropagate` are sound: the gate's output
equals the input it is aliased to. -/
theorem cpRule_alias_sound (op : Op) (va vb : WVal) (toB : Bool) (sa sb : Bool)
    (h : cpRule op va vb = .alias toB) (ha : vsound va sa) (hb : vsound vb sb) :
    op ≠ .inv ∧ op.eval sa sb = (if toB then sb else sa) := by
  obtain ⟨ha0, ha1⟩ := ha
  obtain ⟨hb0, hb1⟩ := hb
  cases op <;> cases va <;> cases vb <;> simp [cpRule] at h <;> subst h <;>
    simp at ha0 ha1 hb0 hb1 <;> simp [Op.eval, *]

/-- Static facts about the pass input `G0` for one input vector `x` with
solution `s`; `K` bounds the prefix of gates that builds the constants. -/
structure CPCtx (G0 : Graph) (x : List Bool) (s : Store Bool) (K : Nat) : Prop where
  nin1    : 1 ≤ G0.nIn
  allLive : ∀ i, i < G0.gates.size → (G0.gate i).dead = false
  zprod   : ∃ iz, iz < K ∧ iz < G0.gates.size ∧ (G0.gate iz).o = G0.zero
  oprod   : ∃ io, io < K ∧ io < G0.gates.size ∧ (G0.gate io).o = G0.one
  zval    : s.get G0.zero = false
  oval    : s.get G0.one = true

/-- Loop invariant of `ConstPropagate`. -/
structure CPInv (G0 G : Graph) (x : List Bool) (s : Store Bool) (K : Nat) : Prop where
  gsize : G.gates.size = G0.gates.size
  nIn   : G.nIn = G0.nIn
  zero  : G.zero = G0.zero
  one   : G.one = G0.one
  outs  : G.outputs = G0.outputs
  wsize : G.wires.size = G0.wires.size
  same  : ∀ i, (G.gate i).op = (G0.gate i).op ∧ (G.gate i).o = (G0.gate i).o ∧
            (G.gate i).dead = (G0.gate i).dead
  wf    : G.GWF
  sol   : G.GSol x s
  vs    : ∀ w, vsound (G.wval w) (s.get w)
  low   : ∀ i, i < K → i < G.gates.size → G.wval (G.gate i).a = .unknown ∧
            ((G.gate i).op ≠ .inv → G.wval (G.gate i).b = .unknown)
  cst   : ∀ w, G.wval w ≠ .unknown → w = G0.zero ∨ w = G0.one ∨
            ∃ j, K ≤ j ∧ j < G0.gates.size ∧ (G0.gate j).o = w

variable {G0 G : Graph} {x : List Bool} {s : Store Bool} {K : Nat}

theorem CPInv.live_iff (hc : CPCtx G0 x s K) (h : CPInv G0 G x s K) (i : Nat) :
    G.live i ↔ i < G0.gates.size := by
  unfold live
  rw [h.gsize, (h.same i).2.2]
  exact ⟨fun hh => hh.1, fun hh => ⟨hh, hc.allLive i hh⟩⟩

/-- Bookkeeping-only updates keep the invariant. -/
theorem CPInv.book (h : CPInv G0 G x s K) {G' : Graph} (hg : SameGates G G')
    (hv : ∀ w, G'.wval w = G.wval w) : CPInv G0 G' x s K := by
  refine ⟨by rw [hg.gates]; exact h.gsize, hg.nIn.trans h.nIn, hg.zero.trans h.zero, hg.one.trans h.one,
    hg.outputs.trans h.outs, hg.wsize.trans h.wsize, fun i => by rw [hg.gate]; exact h.same i,
    hg.gwf h.wf, hg.gsol h.sol, fun w => by rw [hv]; exact h.vs w, fun i hi hs => ?_, fun w hw => ?_⟩
  · rw [hg.gate, hv, hv]
    rw [hg.gates] at hs
    exact h.low i hi hs
  · rw [hv] at hw; exact h.cst w hw

/-- No gate of the constant prefix reads the output of a gate `≥ K`. -/
theorem CPInv.low_ne (hc : CPCtx G0 x s K) (h : CPInv G0 G x s K) (k i : Nat) (hk : k < K)
    (hks : k < G0.gates.size) (hi : K ≤ i) (his : i < G0.gates.size) :
    (G.gate k).a ≠ (G.gate i).o ∧ ((G.gate k).op ≠ .inv → (G.gate k).b ≠ (G.gate i).o) := by
  have := h.wf.topo k i (by omega) ((h.live_iff hc k).mpr hks) ((h.live_iff hc i).mpr his)
  exact ⟨fun e => this.1 e.symm, fun hop e => this.2 hop e.symm⟩

/-- `SetValue` on the output of gate `i ≥ K` with a sound value. -/
theorem CPInv.setValue (hc : CPCtx G0 x s K) (h : CPInv G0 G x s K) (i : Nat) (v : WVal) (hi : K ≤ i)
    (his : i < G0.gates.size) (hv : vsound v (s.get (G.gate i).o)) :
    CPInv G0 (G.setValue (G.gate i).o v) x s K := by
  have hg := sameGates_setValue G (G.gate i).o v
  refine ⟨by rw [hg.gates]; exact h.gsize, hg.nIn.trans h.nIn, hg.zero.trans h.zero, hg.one.trans h.one,
    hg.outputs.trans h.outs, hg.wsize.trans h.wsize, fun j => by rw [hg.gate]; exact h.same j,
    hg.gwf h.wf, hg.gsol h.sol, fun w => ?_, fun k hk hks => ?_, fun w hw => ?_⟩
  · rw [wval_setValue]; split
    · rename_i hh; rw [hh.1]; exact hv
    · exact h.vs w
  · rw [hg.gates] at hks
    have hks0 : k < G0.gates.size := by rw [← h.gsize]; exact hks
    have hne := h.low_ne hc k i hk hks0 hi his
    have hl := h.low k hk hks
    rw [hg.gate, wval_setValue, wval_setValue]
    constructor
    · split
      · rename_i hh; exact absurd hh.1 hne.1
      · exact hl.1
    · intro hop
      split
      · rename_i hh; exact absurd hh.1 (hne.2 hop)
      · exact hl.2 hop
  · rw [wval_setValue] at hw
    split at hw
    · rename_i hh
      right; right
      exact ⟨i, hi, his, by rw [hh.1]; exact ((h.same i).2.1).symm⟩
    · exact h.cst w hw

/-- Rewiring input A of gate `j ≥ K`. -/
theorem CPInv.setA (hc : CPCtx G0 x s K) (h : CPInv G0 G x s K) (j w : Nat) (hj : K ≤ j)
    (hnew : ∀ m, j ≤ m → m < G0.gates.size → (G0.gate m).o ≠ w)
    (hval : s.get w = s.get (G.gate j).a) : CPInv G0 (G.setA j w) x s K := by
  have hne : ∀ k, k < K → ¬ (k = j ∧ j < G.gates.size) := fun k hk hh => by omega
  refine ⟨by rw [size_setA]; exact h.gsize, h.nIn, h.zero, h.one, h.outs, h.wsize, fun m => ?_,
    gwf_setA h.wf j w (fun m hm hl => by rw [(h.same m).2.1]; exact hnew m hm ((h.live_iff hc m).mp hl)),
    gsol_setA h.sol j w hval, fun w' => h.vs w', fun k hk hks => ?_, fun w' hw' => h.cst w' hw'⟩
  · rw [gate_setA]; split
    · rename_i hh; rw [hh.1]; exact h.same j
    · exact h.same m
  · rw [size_setA] at hks
    rw [gate_setA, if_neg (hne k hk)]
    exact h.low k hk hks

theorem CPInv.setB (hc : CPCtx G0 x s K) (h : CPInv G0 G x s K) (j w : Nat) (hj : K ≤ j)
    (hnew : ∀ m, j ≤ m → m < G0.gates.size → (G0.gate m).o ≠ w)
    (hval : s.get w = s.get (G.gate j).b) : CPInv G0 (G.setB j w) x s K := by
  have hne : ∀ k, k < K → ¬ (k = j ∧ j < G.gates.size) := fun k hk hh => by omega
  refine ⟨by rw [size_setB]; exact h.gsize, h.nIn, h.zero, h.one, h.outs, h.wsize, fun m => ?_,
    gwf_setB h.wf j w (fun m hm hl => by rw [(h.same m).2.1]; exact hnew m hm ((h.live_iff hc m).mp hl)),
    gsol_setB h.sol j w hval, fun w' => h.vs w', fun k hk hks => ?_, fun w' hw' => h.cst w' hw'⟩
  · rw [gate_setB]; split
    · rename_i hh; rw [hh.1]; exact h.same j
    · exact h.same m
  · rw [size_setB] at hks
    rw [gate_setB, if_neg (hne k hk)]
    exact h.low k hk hks

/-- A gate outside the array is the default gate, whose inputs are wire 0. -/
theorem gate_default (G : Graph) (j : Nat) (hj : ¬ j < G.gates.size) :
    (G.gate j).a = 0 ∧ (G.gate j).b = 0 := by
  simp only [gate, Array.getD, hj, dite_false]
  exact ⟨rfl, rfl⟩

/-- `ReplaceInput(from, to)` where `from` is the output of gate `i ≥ K`, `to`
is a wire that no gate `≥ i` writes and that carries the same bit. -/
theorem CPInv.replaceInput (hc : CPCtx G0 x s K) (h : CPInv G0 G x s K) (hh frm to i : Nat) (G' : Graph)
    (hi : K ≤ i) (his : i < G0.gates.size) (hfrm : (G0.gate i).o = frm)
    (hto : ∀ m, i ≤ m → m < G0.gates.size → (G0.gate m).o ≠ to)
    (hval : s.get to = s.get frm)
    (hr : G.replaceInput hh frm to = some G') : CPInv G0 G' x s K := by
  have hfrm1 : 1 ≤ frm := by
    have := (h.wf.obound i ((h.live_iff hc i).mpr his)).1
    rw [(h.same i).2.1, hfrm, h.nIn] at this
    have := hc.nin1; omega
  -- a gate that reads `frm` lies strictly after gate `i`
  have hafter : ((G.gate hh).a = frm ∨ ((G.gate hh).op ≠ .inv ∧ (G.gate hh).b = frm)) →
      i < hh ∧ hh < G0.gates.size := by
    intro hread
    have hlt : hh < G0.gates.size := by
      by_cases hlt : hh < G0.gates.size
      · exact hlt
      · have := gate_default G hh (by rw [h.gsize]; exact hlt)
        rcases hread with e | ⟨_, e⟩
        · rw [this.1] at e; omega
        · rw [this.2] at e; omega
    refine ⟨?_, hlt⟩
    by_cases hle : hh ≤ i
    · have := h.wf.topo hh i hle ((h.live_iff hc hh).mpr hlt) ((h.live_iff hc i).mpr his)
      rw [(h.same i).2.1, hfrm] at this
      rcases hread with e | ⟨hop, e⟩
      · exact absurd e.symm this.1
      · exact absurd e.symm (this.2 hop)
    · omega
  unfold Graph.replaceInput at hr
  simp only at hr
  split at hr
  · rename_i ha
    obtain ⟨hlt, hsz⟩ := hafter (Or.inl ha)
    simp only [Option.map_eq_some_iff] at hr
    obtain ⟨G1, hrem, rfl⟩ := hr
    have h1 : CPInv G0 G1 x s K := h.book (sameGates_removeOutput hrem) (wval_removeOutput hrem)
    have h2 : CPInv G0 (G1.addOutput to hh) x s K :=
      h1.book (sameGates_addOutput _ _ _) (wval_addOutput _ _ _)
    refine h2.setA hc hh to (by omega) (fun m hm hms => hto m (by omega) hms) ?_
    rw [(sameGates_addOutput G1 to hh).gate, (sameGates_removeOutput hrem).gate, ha]
    exact hval
  · split at hr
    · rename_i hna hb
      obtain ⟨hlt, hsz⟩ := hafter (Or.inr hb)
      simp only [Option.map_eq_some_iff] at hr
      obtain ⟨G1, hrem, rfl⟩ := hr
      have h1 : CPInv G0 G1 x s K := h.book (sameGates_removeOutput hrem) (wval_removeOutput hrem)
      have h2 : CPInv G0 (G1.addOutput to hh) x s K :=
        h1.book (sameGates_addOutput _ _ _) (wval_addOutput _ _ _)
      refine h2.setB hc hh to (by omega) (fun m hm hms => hto m (by omega) hms) ?_
      rw [(sameGates_addOutput G1 to hh).gate, (sameGates_removeOutput hrem).gate, hb.2]
      exact hval
    · simp at hr

theorem CPInv.replaceInputs (hc : CPCtx G0 x s K) (frm to i : Nat)
    (hi : K ≤ i) (his : i < G0.gates.size) (hfrm : (G0.gate i).o = frm)
    (hto : ∀ m, i ≤ m → m < G0.gates.size → (G0.gate m).o ≠ to)
    (hval : s.get to = s.get frm) :
    ∀ (hs : List Nat) (G G' : Graph), CPInv G0 G x s K → replaceInputs frm to hs G = some G' →
      CPInv G0 G' x s K := by
  intro hs
  induction hs with
  | nil => intro G G' h hr; simp only [Graph.replaceInputs, Option.some.injEq] at hr; subst hr; exact h
  | cons a hs ih =>
    intro G G' h hr
    simp only [Graph.replaceInputs] at hr
    split at hr
    · simp at hr
    · rename_i G1 h1
      exact ih G1 G' (h.replaceInput hc a frm to i G1 hi his hfrm hto hval h1) hr

/-- `Gate.ShortCircuit(o')` on gate `i ≥ K`, where `o'` is an input of gate
`i` that carries the same bit as its output. -/
theorem CPInv.shortCircuit (hc : CPCtx G0 x s K) (h : CPInv G0 G x s K) (i o' : Nat) (G' : Graph)
    (hi : K ≤ i) (his : i < G0.gates.size)
    (hin : o' = (G.gate i).a ∨ ((G.gate i).op ≠ .inv ∧ o' = (G.gate i).b))
    (hval : s.get o' = s.get (G.gate i).o)
    (hr : G.shortCircuit i o' = some G') : CPInv G0 G' x s K := by
  unfold Graph.shortCircuit at hr
  simp only at hr
  split at hr
  · simp only [Option.some.injEq] at hr; subst hr; exact h
  · simp only [Option.map_eq_some_iff] at hr
    obtain ⟨G1, hr1, rfl⟩ := hr
    have hto : ∀ m, i ≤ m → m < G0.gates.size → (G0.gate m).o ≠ o' := by
      intro m hm hms
      have := h.wf.topo i m hm ((h.live_iff hc i).mpr his) ((h.live_iff hc m).mpr hms)
      rw [(h.same m).2.1] at this
      rcases hin with rfl | ⟨hop, rfl⟩
      · exact this.1
      · exact this.2 hop
    have h1 := CPInv.replaceInputs hc (G.gate i).o o' i hi his ((h.same i).2.1).symm hto hval _ G G1 h hr1
    exact h1.book (sameGates_disconnect _ _) (wval_disconnect _ _)

/-- A gate with a constant input lies outside the constant prefix. -/
theorem CPInv.ge_of_const (h : CPInv G0 G x s K) (i : Nat) (his : i < G0.gates.size)
    (hcst : G.wval (G.gate i).a ≠ .unknown ∨ ((G.gate i).op ≠ .inv ∧ G.wval (G.gate i).b ≠ .unknown)) :
    K ≤ i := by
  by_cases hk : i < K
  · have := h.low i hk (by rw [h.gsize]; exact his)
    rcases hcst with e | ⟨hop, e⟩
    · exact absurd this.1 e
    · exact absurd (this.2 hop) e
  · omega

/-- The `switch` of one iteration. -/
theorem CPInv.cpSwitch (hc : CPCtx G0 x s K) (h : CPInv G0 G x s K) (i : Nat) (his : i < G0.gates.size)
    (G' : Graph) (hr : G.cpSwitch i = some G') : CPInv G0 G' x s K := by
  unfold Graph.cpSwitch at hr
  simp only at hr
  have hsem : gateEq s (G.gate i) := h.sol.sem i ((h.live_iff hc i).mpr his)
  have hva := h.vs (G.gate i).a
  have hvb : vsound (if (G.gate i).op = .inv then WVal.unknown else G.wval (G.gate i).b) (s.get (G.gate i).b) := by
    split
    · exact vsound_unknown _
    · exact h.vs _
  -- a non-trivial rule means a constant input
  have hK : cpRule (G.gate i).op (G.wval (G.gate i).a)
      (if (G.gate i).op = .inv then WVal.unknown else G.wval (G.gate i).b) ≠ .none → K ≤ i := by
    intro hne
    apply h.ge_of_const i his
    by_cases ha : G.wval (G.gate i).a = .unknown
    · right
      by_cases hop : (G.gate i).op = .inv
      · rw [ha, if_pos hop, cpRule_unknown] at hne; exact absurd rfl hne
      · refine ⟨hop, fun hb => ?_⟩
        rw [ha, if_neg hop, hb, cpRule_unknown] at hne; exact absurd rfl hne
    · exact Or.inl ha
  split at hr
  · simp only [Option.some.injEq] at hr; subst hr; exact h
  · rename_i v hrule
    simp only [Option.some.injEq] at hr; subst hr
    have hs := cpRule_set_sound _ _ _ _ _ _ hrule hva hvb
    refine h.setValue hc i v (hK (by rw [hrule]; simp)) his ?_
    rw [hsem]; exact hs
  · rename_i hrule
    have hs := cpRule_alias_sound _ _ _ _ _ _ hrule hva hvb
    refine h.shortCircuit hc i _ G' (hK (by rw [hrule]; simp)) his (Or.inr ⟨hs.1, rfl⟩) ?_ hr
    rw [hsem, hs.2]; rfl
  · rename_i hrule
    have hs := cpRule_alias_sound _ _ _ _ _ _ hrule hva hvb
    refine h.shortCircuit hc i _ G' (hK (by rw [hrule]; simp)) his (Or.inl rfl) ?_ hr
    rw [hsem, hs.2]; rfl

/-- The bit of the constant wire that replaces a constant input. -/
theorem CPInv.constWire (hc : CPCtx G0 x s K) (h : CPInv G0 G x s K) (w c : Nat)
    (hcw : G.constWire (G.wval w) = some c) :
    s.get c = s.get w ∧ G.wval w ≠ .unknown ∧ ∃ ic, ic < K ∧ ic < G0.gates.size ∧ (G0.gate ic).o = c := by
  have hv := h.vs w
  cases hw : G.wval w <;> rw [hw] at hcw hv <;> simp only [Graph.constWire, Option.some.injEq] at hcw
  · cases hcw
  · subst hcw
    rw [h.zero]
    exact ⟨by rw [hc.zval, hv.1 rfl], by simp, hc.zprod⟩
  · subst hcw
    rw [h.one]
    exact ⟨by rw [hc.oval, hv.2 rfl], by simp, hc.oprod⟩

theorem CPInv.cpFixA (hc : CPCtx G0 x s K) (h : CPInv G0 G x s K) (i : Nat) (his : i < G0.gates.size)
    (G' : Graph) (hr : G.cpFixA i = some G') : CPInv G0 G' x s K := by
  unfold Graph.cpFixA at hr
  simp only at hr
  split at hr
  · simp only [Option.some.injEq] at hr; subst hr; exact h
  · rename_i c hcw
    obtain ⟨hval, hne, ic, hicK, hics, hico⟩ := h.constWire hc _ c hcw
    have hK : K ≤ i := h.ge_of_const i his (Or.inl hne)
    simp only [Option.map_eq_some_iff] at hr
    obtain ⟨G1, hrem, rfl⟩ := hr
    have h1 : CPInv G0 G1 x s K := h.book (sameGates_removeOutput hrem) (wval_removeOutput hrem)
    have h2 : CPInv G0 (G1.setA i c) x s K := by
      refine h1.setA hc i c hK (fun m hm hms hmo => ?_) ?_
      · have := h.wf.odist m ic ((h.live_iff hc m).mpr hms) ((h.live_iff hc ic).mpr hics)
          (by rw [(h.same m).2.1, (h.same ic).2.1, hmo, hico])
        omega
      · rw [(sameGates_removeOutput hrem).gate]; exact hval
    exact h2.book (sameGates_addOutput _ _ _) (wval_addOutput _ _ _)

theorem CPInv.cpFixB (hc : CPCtx G0 x s K) (h : CPInv G0 G x s K) (i : Nat) (his : i < G0.gates.size)
    (G' : Graph) (hr : G.cpFixB i = some G') : CPInv G0 G' x s K := by
  unfold Graph.cpFixB at hr
  simp only at hr
  split at hr
  · simp only [Option.some.injEq] at hr; subst hr; exact h
  · rename_i hop
    split at hr
    · simp only [Option.some.injEq] at hr; subst hr; exact h
    · rename_i c hcw
      obtain ⟨hval, hne, ic, hicK, hics, hico⟩ := h.constWire hc _ c hcw
      have hK : K ≤ i := h.ge_of_const i his (Or.inr ⟨hop, hne⟩)
      simp only [Option.map_eq_some_iff] at hr
      obtain ⟨G1, hrem, rfl⟩ := hr
      have h1 : CPInv G0 G1 x s K := h.book (sameGates_removeOutput hrem) (wval_removeOutput hrem)
      have h2 : CPInv G0 (G1.setB i c) x s K := by
        refine h1.setB hc i c hK (fun m hm hms hmo => ?_) ?_
        · have := h.wf.odist m ic ((h.live_iff hc m).mpr hms) ((h.live_iff hc ic).mpr hics)
            (by rw [(h.same m).2.1, (h.same ic).2.1, hmo, hico])
          omega
        · rw [(sameGates_removeOutput hrem).gate]; exact hval
      exact h2.book (sameGates_addOutput _ _ _) (wval_addOutput _ _ _)

theorem CPInv.cpStep (hc : CPCtx G0 x s K) (h : CPInv G0 G x s K) (i : Nat) (his : i < G0.gates.size)
    (G' : Graph) (hr : G.cpStep i = some G') : CPInv G0 G' x s K := by
  unfold Graph.cpStep at hr
  simp only [Option.bind_eq_some_iff] at hr
  obtain ⟨G1, h1, G2, h2, h3⟩ := hr
  exact ((h.cpSwitch hc i his G1 h1).cpFixA hc i his G2 h2).cpFixB hc i his G' h3

theorem CPInv.cpLoop (hc : CPCtx G0 x s K) : ∀ (is : List Nat) (G G' : Graph),
    (∀ i ∈ is, i < G0.gates.size) → CPInv G0 G x s K → cpLoop is G = some G' → CPInv G0 G' x s K := by
  intro is
  induction is with
  | nil => intro G G' _ h hr; simp only [Graph.cpLoop, Option.some.injEq] at hr; subst hr; exact h
  | cons i is ih =>
    intro G G' hb h hr
    simp only [Graph.cpLoop] at hr
    split at hr
    · simp at hr
    · rename_i G1 h1
      exact ih G1 G' (fun j hj => hb j (List.mem_cons_of_mem _ hj))
        (h.cpStep hc i (hb i List.mem_cons_self) G1 h1) hr

/-- Well-formed input of `ConstPropagate`: single assignment, weakly
topological, no dead gate, only the zero and the one wire carry a constant
annotation, they are produced by a prefix (`K` gates) that reads no constant,
and they really are 0 and 1. -/
structure WFcp (G : Graph) : Prop where
  wf      : G.GWF
  nin1    : 1 ≤ G.nIn
  allLive : ∀ i, i < G.gates.size → (G.gate i).dead = false
  vzero   : ∀ w, G.wval w = .zero → w = G.zero
  vone    : ∀ w, G.wval w = .one → w = G.one
  pre     : ∃ K, (∃ iz, iz < K ∧ iz < G.gates.size ∧ (G.gate iz).o = G.zero) ∧
              (∃ io, io < K ∧ io < G.gates.size ∧ (G.gate io).o = G.one) ∧
              (∀ i, i < K → i < G.gates.size → G.wval (G.gate i).a = .unknown ∧
                ((G.gate i).op ≠ .inv → G.wval (G.gate i).b = .unknown))
  csem    : ∀ x s, G.GSol x s → s.get G.zero = false ∧ s.get G.one = true

/-- **`ConstPropagate` preserves the function of the graph** (and its
well-formedness), for every well-formed graph and every input. -/
theorem constPropagate_preserves (G G' : Graph) (h : WFcp G) (hr : G.constPropagate = some G') :
    G'.GWF ∧ ∀ x, G'.compute x = G.compute x := by
  obtain ⟨K, hz, ho, hlow⟩ := h.pre
  have hinv : ∀ x, CPInv G G' x (G.evalStore x) K := by
    intro x
    have hsol := evalStore_gsol h.wf x
    have hc : CPCtx G x (G.evalStore x) K :=
      ⟨h.nin1, h.allLive, hz, ho, (h.csem x _ hsol).1, (h.csem x _ hsol).2⟩
    have h0 : CPInv G G x (G.evalStore x) K := by
      refine ⟨rfl, rfl, rfl, rfl, rfl, rfl, fun i => ⟨rfl, rfl, rfl⟩, h.wf, hsol, fun w => ⟨fun hw => ?_, fun hw => ?_⟩,
        hlow, fun w hw => ?_⟩
      · rw [h.vzero w hw]; exact (h.csem x _ hsol).1
      · rw [h.vone w hw]; exact (h.csem x _ hsol).2
      · cases hv : G.wval w
        · exact absurd hv hw
        · exact Or.inl (h.vzero w hv)
        · exact Or.inr (Or.inl (h.vone w hv))
    exact CPInv.cpLoop hc _ G G' (fun i hi => List.mem_range.mp hi) h0 hr
  refine ⟨(hinv []).wf, fun x => ?_⟩
  have hi := hinv x
  exact compute_eq_of_sols h.wf hi.wf hi.outs x _ _ (evalStore_gsol h.wf x) hi.sol (fun _ _ => rfl)

end Graph
end Mpc
